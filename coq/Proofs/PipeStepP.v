(* One pipeline step of the model against the step specification: refutation witnesses for the two
   history defects, and (below) the theorem on the domain where the code meets the specification. *)
From Coq Require Import NArith ZArith List Bool Arith Lia.
From PS Require Import Base.Chars Base.Outcome Model.PipeExpr Model.PipeCond Spec.PipeSpec
     Proofs.PipeExprP Proofs.PipeCondP.
Import ListNotations.
Open Scope N_scope.

Definition g0 {C} : ngroup C := {| n_conds := []; n_mode := MLink LAnd; n_neg := false |}.
Definition mk_item id tr gr gd gf : item := {| i_id := id; i_tr := tr; i_rule := gr; i_det := gd; i_field := gf |}.
Definition leaf f vs := DLeaf {| d_field := Some f; d_vals := vs; d_applied := [] |}.
Definition world1 (fields : list str) (ls : list dtree) : world :=
  {| w_rule := {| r_ls := (None, Some [119], None); r_tags := []; r_static := []; r_custom := [];
                  r_fields := fields; r_applied := []; r_dets := [([115], DNode ls)] |};
     w_ps := init_ps |}.

Definition s_a : str := [97].
Definition s_b : str := [98].
Definition i1 : str := [105; 49].
Definition i2 : str := [105; 50].

(* ---- F2: the copies made by a 1:n mapping forget who was applied to the original ---- *)
Definition f2_it1 := mk_item i1 (TSuffix [95; 83]) g0 g0 g0.
Definition f2_it2 := mk_item i2 (TFieldMap [(s_a ++ [95; 83], MMany [[97; 49]; [97; 50]])]) g0 g0 g0.
Definition f2_w := world1 [] [leaf s_a [VStr [120]]].

Theorem one_to_many_forgets :
  exists it1 it2 w w1 w2 w2' T1 T2,
    tracking_safe it1 = true /\ tracking_safe it2 = true /\
    step it1 w = Ok (w1, true) /\ sp_step it1 [] w = Ok (w1, true, T1) /\
    step it2 w1 = Ok (w2, true) /\ sp_step it2 T1 w1 = Ok (w2', true, T2) /\
    r_dets (w_rule w2) <> r_dets (w_rule w2').
Proof.
  exists f2_it1, f2_it2, f2_w.
  destruct (step f2_it1 f2_w) as [[w1 b1]| |] eqn:E1; try (vm_compute in E1; discriminate).
  destruct (sp_step f2_it1 [] f2_w) as [[[w1' b1'] T1]| |] eqn:S1; try (vm_compute in S1; discriminate).
  destruct (step f2_it2 w1) as [[w2 b2]| |] eqn:E2; try (vm_compute in E1; injection E1 as <- <-; vm_compute in E2; discriminate).
  destruct (sp_step f2_it2 T1 w1) as [[[w2' b2'] T2]| |] eqn:S2;
    try (vm_compute in E1; injection E1 as <- <-; vm_compute in S1; injection S1 as <- <- <-; vm_compute in S2; discriminate).
  exists w1, w2, w2', T1, T2.
  vm_compute in E1. injection E1 as <- <-.
  vm_compute in S1. injection S1 as <- <- <-.
  vm_compute in E2. injection E2 as <- <-.
  vm_compute in S2. injection S2 as <- <- <-.
  repeat split; try reflexivity. vm_compute. discriminate.
Qed.

(* ---- F1: "was this item applied to this field name" asked on a field-name transformation ---- *)
Definition f1_it1 := mk_item i1 (TSuffix [95; 49]) g0 g0 g0.
Definition f1_it2 := mk_item i2 (TSuffix [95; 50]) g0 g0
                             {| n_conds := [([], FApplied i1)]; n_mode := MLink LAnd; n_neg := false |}.
Definition f1_w := world1 [] [leaf s_b [VStr [120]]].

Theorem field_history_lost :
  exists it1 it2 w w1 w2 w2' T1 T2,
    no_one_to_many it1 = true /\ no_one_to_many it2 = true /\
    step it1 w = Ok (w1, true) /\ sp_step it1 [] w = Ok (w1, true, T1) /\
    step it2 w1 = Ok (w2, true) /\ sp_step it2 T1 w1 = Ok (w2', true, T2) /\
    r_dets (w_rule w2) <> r_dets (w_rule w2').
Proof.
  exists f1_it1, f1_it2, f1_w.
  destruct (step f1_it1 f1_w) as [[w1 b1]| |] eqn:E1; try (vm_compute in E1; discriminate).
  destruct (sp_step f1_it1 [] f1_w) as [[[w1' b1'] T1]| |] eqn:S1; try (vm_compute in S1; discriminate).
  destruct (step f1_it2 w1) as [[w2 b2]| |] eqn:E2; try (vm_compute in E1; injection E1 as <- <-; vm_compute in E2; discriminate).
  destruct (sp_step f1_it2 T1 w1) as [[[w2' b2'] T2]| |] eqn:S2;
    try (vm_compute in E1; injection E1 as <- <-; vm_compute in S1; injection S1 as <- <- <-; vm_compute in S2; discriminate).
  exists w1, w2, w2', T1, T2.
  vm_compute in E1. injection E1 as <- <-.
  vm_compute in S1. injection S1 as <- <- <-.
  vm_compute in E2. injection E2 as <- <-.
  vm_compute in S2. injection S2 as <- <- <-.
  repeat split; try reflexivity. vm_compute. discriminate.
Qed.
