(* One pipeline step of the model against the step specification: refutation witnesses for the two
   history defects, and (below) the theorem on the domain where the code meets the specification. *)
From Coq Require Import NArith ZArith List Bool Arith Lia.
From PS Require Import Base.Chars Base.Outcome Model.PipeExpr Model.PipeCond Spec.PipeSpec
     Proofs.PipeExprP Proofs.PipeCondP.
Import ListNotations.
Open Scope N_scope.

Definition g0 {C} : ngroup C := {| n_conds := []; n_mode := MLink LAnd; n_neg := false |}.
Definition mk_item id tr gr gd gf : item := {| i_id := id; i_tr := tr; i_rule := gr; i_det := gd; i_field := gf |}.
Definition leaf f vs := DLeaf {| d_field := Some f; d_vals := vs; d_applied := [] |}.
Definition world1 (fields : list str) (ls : list dtree) : world :=
  {| w_rule := {| r_ls := (None, Some [119], None); r_tags := []; r_static := []; r_custom := [];
                  r_fields := fields; r_applied := []; r_dets := [([115], DNode ls)] |};
     w_ps := init_ps |}.

Definition s_a : str := [97].
Definition s_b : str := [98].
Definition i1 : str := [105; 49].
Definition i2 : str := [105; 50].

(* ---- F1: "was this item applied to this field name" asked on a field-name transformation ---- *)
Definition f1_it1 := mk_item i1 (TSuffix [95; 49]) g0 g0 g0.
Definition f1_it2 := mk_item i2 (TSuffix [95; 50]) g0 g0
                             {| n_conds := [([], FApplied i1)]; n_mode := MLink LAnd; n_neg := false |}.
Definition f1_w := world1 [] [leaf s_b [VStr [120]]].

Theorem field_history_lost :
  exists it1 it2 w w1 w2 w2' T1 T2,
    has_fapplied (i_field it2) = true /\
    step it1 w = Ok (w1, true) /\ sp_step it1 [] w = Ok (w1, true, T1) /\
    step it2 w1 = Ok (w2, true) /\ sp_step it2 T1 w1 = Ok (w2', true, T2) /\
    r_dets (w_rule w2) <> r_dets (w_rule w2').
Proof.
  exists f1_it1, f1_it2, f1_w.
  destruct (step f1_it1 f1_w) as [[w1 b1]| |] eqn:E1; try (vm_compute in E1; discriminate).
  destruct (sp_step f1_it1 [] f1_w) as [[[w1' b1'] T1]| |] eqn:S1; try (vm_compute in S1; discriminate).
  destruct (step f1_it2 w1) as [[w2 b2]| |] eqn:E2; try (vm_compute in E1; injection E1 as <- <-; vm_compute in E2; discriminate).
  destruct (sp_step f1_it2 T1 w1) as [[[w2' b2'] T2]| |] eqn:S2;
    try (vm_compute in E1; injection E1 as <- <-; vm_compute in S1; injection S1 as <- <- <-; vm_compute in S2; discriminate).
  exists w1, w2, w2', T1, T2.
  vm_compute in E1. injection E1 as <- <-.
  vm_compute in S1. injection S1 as <- <- <-.
  vm_compute in E2. injection E2 as <- <-.
  vm_compute in S2. injection S2 as <- <- <-.
  repeat split; try reflexivity. vm_compute. discriminate.
Qed.

(* ------------------------------------------------------------------------------------- *)
(* the step theorem: on the domain tracking_safe the model's step is the
   specification's step *)
Definition st_eq (a b : pstate) : Prop := p_state a = p_state b.

Lemma has_fapplied_false g : has_fapplied g = false -> no_fapplied g.
Proof.
  unfold has_fapplied, no_fapplied. intros H kv Hin.
  destruct (snd kv) eqn:E; auto.
  assert (X : existsb (fun kv => match snd kv with FApplied _ => true | _ => false end) (n_conds g) = true).
  { apply existsb_exists. exists kv. rewrite E. auto. }
  congruence.
Qed.

Lemma applies_field_inv it T T' ps ps' f :
  st_eq ps ps' -> no_fapplied (i_field it) -> applies_field it T ps f = applies_field it T' ps' f.
Proof.
  intros Hs Hn. unfold applies_field. apply group_eval_ext. intros kv Hin.
  specialize (Hn kv Hin). destruct (snd kv); simpl; try reflexivity; [contradiction|].
  rewrite Hs. reflexivity.
Qed.

Lemma applies_item_inv it T T' ps ps' d : st_eq ps ps' -> applies_item it T ps d = applies_item it T' ps' d.
Proof.
  intros Hs. unfold applies_item.
  rewrite (group_eval_ext (d_holds ps d) (d_holds ps' d)).
  - destruct (group_eval (d_holds ps' d) (i_det it)); try reflexivity. simpl.
    rewrite (group_eval_ext (f_holds_item T ps d) (f_holds_item T' ps' d)); [reflexivity|].
    intros kv _. destruct (snd kv); simpl; try reflexivity. rewrite Hs. reflexivity.
  - intros kv _. unfold d_holds. destruct (snd kv); simpl; try reflexivity. rewrite Hs. reflexivity.
Qed.

Lemma track_state ps src dst id : p_state (track ps src dst id) = p_state ps.
Proof. unfold track. destruct (list_eqb str_eqb [src] dst); reflexivity. Qed.

Definition spec_names (it : item) (T : ghost) (ps : pstate) (f : str) : outcome (list str) :=
  obind (rename_of it T ps (Some f)) (fun m => Ok (match m with Some m => fmap_list m | None => [f] end)).

Section Step.
  Variable it : item.
  Variable T : ghost.
  Variable ps0 : pstate.
  Hypothesis Hwr : wf_ngroup (i_rule it).
  Hypothesis Hwd : wf_ngroup (i_det it).
  Hypothesis Hwf : wf_ngroup (i_field it).

  Lemma mfn_spec ps f b :
    no_fapplied (i_field it) -> st_eq ps ps0 ->
    match_field_name it ps f = Ok b -> applies_field it T ps0 f = Ok b.
  Proof.
    intros Hn Hs H. rewrite <- (applies_field_inv it T T ps ps0 f Hs Hn).
    apply (field_gate it T ps f b Hwf); [left; exact Hn | exact H].
  Qed.

  Lemma mdi_spec ps d b :
    st_eq ps ps0 -> match_detection_item it ps d = Ok b -> applies_item it T ps0 d = Ok b.
  Proof.
    intros Hs H. rewrite <- (applies_item_inv it T T ps ps0 d Hs).
    apply (detitem_gate it T ps d b Hwd Hwf). exact H.
  Qed.

  Lemma ant_spec ps f l ps' :
    no_fapplied (i_field it) -> st_eq ps ps0 ->
    apply_name_tracked it ps f = Ok (l, ps') -> st_eq ps' ps0 /\ spec_names it T ps0 f = Ok l.
  Proof.
    intros Hn Hs. unfold apply_name_tracked, spec_names, rename_of.
    destruct (apply_field_name (i_tr it) (Some f)) as [m|].
    - destruct (match_field_name it ps (Some f)) as [b| |] eqn:E; try discriminate. simpl.
      rewrite (mfn_spec ps (Some f) b Hn Hs E). simpl.
      destruct b; intros H; inversion H; subst; split; try reflexivity; try exact Hs.
      unfold st_eq. rewrite track_state. exact Hs.
    - intros H; inversion H; subst. split; [exact Hs | reflexivity].
  Qed.

  Lemma map_fields_spec : no_fapplied (i_field it) ->
    forall l ps l' ps', st_eq ps ps0 -> map_fields it ps l = Ok (l', ps') ->
    st_eq ps' ps0 /\ sp_fields it T ps0 l = Ok l'.
  Proof.
    intros Hn. unfold sp_fields.
    change (fun f : str => obind (rename_of it T ps0 (Some f))
                (fun m => Ok match m with Some m0 => fmap_list m0 | None => [f] end))
      with (spec_names it T ps0).
    induction l as [|f r IH]; intros ps l' ps' Hs H; simpl in H.
    - inversion H; subst. split; [exact Hs | reflexivity].
    - destruct (apply_name_tracked it ps f) as [[l1 ps1]| |] eqn:E1; try discriminate. simpl in H.
      destruct (map_fields it ps1 r) as [[l2 ps2]| |] eqn:E2; try discriminate. simpl in H.
      inversion H; subst.
      destruct (ant_spec ps f l1 ps1 Hn Hs E1) as [Hs1 S1].
      destruct (IH ps1 l2 ps' Hs1 E2) as [Hs2 S2].
      split; [exact Hs2|]. simpl. rewrite S1. simpl.
      destruct (omap (spec_names it T ps0) r) as [ll| |]; try discriminate. simpl in *.
      inversion S2; subst. reflexivity.
  Qed.

  Lemma map_refs_spec : no_fapplied (i_field it) ->
    forall vs ps nv refm ps', st_eq ps ps0 -> map_refs it ps vs = Ok (nv, refm, ps') ->
    st_eq ps' ps0 /\ exists vs', omap (sp_value it T ps0) vs = Ok vs' /\ concat (map fst vs') = nv /\ existsb snd vs' = refm.
  Proof.
    intros Hn. induction vs as [|v r IH]; intros ps nv refm ps' Hs H.
    - simpl in H. inversion H; subst. split; [exact Hs|]. exists []. auto.
    - assert (Other : (forall f, v <> VRef f) ->
                      st_eq ps' ps0 /\ exists vs', omap (sp_value it T ps0) (v :: r) = Ok vs' /\
                                                  concat (map fst vs') = nv /\ existsb snd vs' = refm).
      { intros Hv.
        assert (H' : obind (map_refs it ps r) (fun y => Ok (v :: fst (fst y), snd (fst y), snd y)) = Ok (nv, refm, ps')).
        { destruct v; try exact H. exfalso. eapply Hv. reflexivity. }
        destruct (map_refs it ps r) as [[[nv2 rm2] ps2]| |] eqn:E2; try discriminate. simpl in H'.
        inversion H'; subst.
        destruct (IH ps nv2 refm ps' Hs E2) as [Hs2 [vs' [S [Sc Se]]]].
        split; [exact Hs2|]. exists (([v], false) :: vs').
        assert (Sv : sp_value it T ps0 v = Ok ([v], false)) by (destruct v; try reflexivity; exfalso; eapply Hv; reflexivity).
        simpl. rewrite Sv. simpl. rewrite S. simpl. rewrite Sc. auto. }
      destruct v as [s|z|b0| |f|s]; try (apply Other; intros; discriminate).
      clear Other. simpl in H.
      change (match_field_in_value it ps f) with (match_field_name it ps (Some f)) in H.
      destruct (match_field_name it ps (Some f)) as [b| |] eqn:E; try discriminate. simpl in H.
      pose proof (mfn_spec ps (Some f) b Hn Hs E) as Sa.
      destruct b.
      + destruct (apply_name_tracked it ps f) as [[l1 ps1]| |] eqn:E1; try discriminate. simpl in H.
        destruct (map_refs it ps1 r) as [[[nv2 rm2] ps2]| |] eqn:E2; try discriminate. simpl in H.
        inversion H; subst.
        destruct (ant_spec ps f l1 ps1 Hn Hs E1) as [Hs1 S1].
        destruct (IH ps1 nv2 rm2 ps' Hs1 E2) as [Hs2 [vs' [S [Sc Se]]]].
        split; [exact Hs2|]. exists ((map VRef l1, true) :: vs').
        simpl. rewrite Sa. simpl.
        unfold spec_names in S1. destruct (rename_of it T ps0 (Some f)) as [m| |]; try discriminate. simpl in *.
        injection S1 as S1. subst l1.
        assert (Em : (match m with Some m0 => map VRef (fmap_list m0) | None => [VRef f] end)
                     = map VRef (match m with Some m0 => fmap_list m0 | None => [f] end)) by (destruct m; reflexivity).
        rewrite Em. rewrite S. simpl. rewrite Sc. auto.
      + destruct (map_refs it ps r) as [[[nv2 rm2] ps2]| |] eqn:E2; try discriminate. simpl in H.
        inversion H; subst.
        destruct (IH ps nv2 refm ps' Hs E2) as [Hs2 [vs' [S [Sc Se]]]].
        split; [exact Hs2|]. exists (([VRef f], false) :: vs').
        simpl. rewrite Sa. simpl. rewrite S. simpl. rewrite Sc. auto.
  Qed.

  (* the renaming branch of sp_leaf *)
  Definition sp_rename (d : ditem) : outcome dtree :=
    obind (omap (sp_value it T ps0) (d_vals d)) (fun vs =>
    let refm := existsb snd vs in
    let nv := if refm then concat (map fst vs) else d_vals d in
    obind (rename_of it T ps0 (d_field d)) (fun m =>
    let ap := sadd (i_id it) (d_applied d) in
    Ok (match m with
        | Some (MOne t) => DLeaf {| d_field := Some t; d_vals := nv; d_applied := ap |}
        | Some (MMany l) => DNode (map (fun t => DLeaf {| d_field := Some t; d_vals := nv; d_applied := ap |}) l)
        | None => if refm then DLeaf {| d_field := d_field d; d_vals := nv; d_applied := ap |} else DLeaf d
        end))).

  Lemma sp_leaf_renaming d :
    is_renaming (i_tr it) = true ->
    sp_leaf it T ps0 d = obind (applies_item it T ps0 d) (fun b => if negb b then Ok (DLeaf d) else sp_rename d).
  Proof. unfold sp_leaf, sp_rename. destruct (i_tr it); try discriminate; reflexivity. Qed.

  Lemma rename_item_spec d ps res ps' :
    no_fapplied (i_field it) -> st_eq ps ps0 ->
    rename_item it ps d = Ok (res, ps') ->
    st_eq ps' ps0 /\ sp_rename d = Ok (match res with Some t => t | None => DLeaf d end).
  Proof.
    intros Hn Hs. unfold rename_item, sp_rename.
    destruct (map_refs it ps (d_vals d)) as [[[nv refm] ps1]| |] eqn:E; try discriminate. simpl.
    destruct (map_refs_spec Hn (d_vals d) ps nv refm ps1 Hs E) as [Hs1 [vs' [S [Sc Se]]]].
    rewrite S. simpl. rewrite Sc, Se. unfold rename_of.
    destruct (apply_field_name (i_tr it) (d_field d)) as [m|] eqn:Ea.
    - destruct (match_field_name it ps1 (d_field d)) as [b| |] eqn:Em; try discriminate. simpl.
      rewrite (mfn_spec ps1 (d_field d) b Hn Hs1 Em). simpl.
      destruct b; [destruct m as [t|l]|]; intros H; injection H as Hr Hp; subst res ps'; (split; [exact Hs1|]);
        destruct refm; reflexivity.
    - simpl. intros H; injection H as Hr Hp; subst res ps'. split; [exact Hs1|]. destruct refm; reflexivity.
  Qed.

  Hypothesis Hdom : is_renaming (i_tr it) = true -> no_fapplied (i_field it).
  Hypothesis Hitem : is_item_transf (i_tr it) = true.

  Lemma leaf_spec d ps t' ps' :
    st_eq ps ps0 -> apply_tree it ps (DLeaf d) = Ok (t', ps') -> st_eq ps' ps0 /\ sp_leaf it T ps0 d = Ok t'.
  Proof.
    intros Hs. simpl.
    destruct (match_detection_item it ps d) as [b| |] eqn:E; try discriminate. simpl.
    pose proof (mdi_spec ps d b Hs E) as Sa.
    destruct b.
    - destruct (transform_item it ps d) as [[res ps1]| |] eqn:Et; try discriminate. simpl.
      intros H; inversion H; subst.
      unfold transform_item in Et.
      destruct (is_renaming (i_tr it)) eqn:Er.
      + assert (Et' : rename_item it ps d = Ok (res, ps')) by (destruct (i_tr it); try discriminate; exact Et).
        destruct (rename_item_spec d ps res ps' (Hdom eq_refl) Hs Et') as [Hs1 S].
        split; [exact Hs1|]. rewrite sp_leaf_renaming by exact Er. rewrite Sa. simpl. exact S.
      + unfold sp_leaf. rewrite Sa. simpl.
        destruct (i_tr it) as [| | |v| | |] eqn:Etr; try discriminate.
        destruct (d_vals d) eqn:Ev; inversion Et; subst; (split; [exact Hs|]); reflexivity.
    - intros H; inversion H; subst. split; [exact Hs|]. unfold sp_leaf. rewrite Sa. reflexivity.
  Qed.

  (* the nested fixpoints as top-level functions *)
  Fixpoint apply_forest (ps : pstate) (l : list dtree) : outcome (list dtree * pstate) :=
    match l with
    | [] => Ok ([], ps)
    | x :: r => obind (apply_tree it ps x) (fun a =>
                obind (apply_forest (snd a) r) (fun b => Ok (fst a :: fst b, snd b)))
    end.
  Fixpoint sp_forest (l : list dtree) : outcome (list dtree) :=
    match l with
    | [] => Ok []
    | x :: r => obind (sp_tree it T ps0 x) (fun a => obind (sp_forest r) (fun b => Ok (a :: b)))
    end.

  Lemma apply_tree_node ps l :
    apply_tree it ps (DNode l) = obind (apply_forest ps l) (fun x => Ok (DNode (fst x), snd x)).
  Proof.
    reflexivity.
  Qed.
  Lemma sp_tree_node l : sp_tree it T ps0 (DNode l) = obind (sp_forest l) (fun l' => Ok (DNode l')).
  Proof.
    reflexivity.
  Qed.

  Lemma tree_spec : forall t ps t' ps',
    st_eq ps ps0 -> apply_tree it ps t = Ok (t', ps') -> st_eq ps' ps0 /\ sp_tree it T ps0 t = Ok t'.
  Proof.
    induction t as [d|l IH] using dtree_ind'; intros ps t' ps' Hs H.
    - apply (leaf_spec d ps t' ps' Hs H).
    - rewrite apply_tree_node in H. rewrite sp_tree_node.
      assert (F : forall l, Forall (fun t => forall ps t' ps', st_eq ps ps0 -> apply_tree it ps t = Ok (t', ps') ->
                                         st_eq ps' ps0 /\ sp_tree it T ps0 t = Ok t') l ->
                  forall ps l' ps', st_eq ps ps0 -> apply_forest ps l = Ok (l', ps') ->
                                    st_eq ps' ps0 /\ sp_forest l = Ok l').
      { clear. induction 1 as [|x r Hx _ IHr]; intros ps l' ps' Hs H; simpl in H.
        - inversion H; subst. split; [exact Hs | reflexivity].
        - destruct (apply_tree it ps x) as [[x' ps1]| |] eqn:E1; try discriminate. simpl in H.
          destruct (apply_forest ps1 r) as [[r' ps2]| |] eqn:E2; try discriminate. simpl in H.
          inversion H; subst.
          destruct (Hx ps x' ps1 Hs E1) as [Hs1 S1]. destruct (IHr ps1 r' ps' Hs1 E2) as [Hs2 S2].
          split; [exact Hs2|]. simpl. rewrite S1. simpl. rewrite S2. reflexivity. }
      destruct (apply_forest ps l) as [[l' ps1]| |] eqn:E; try discriminate. simpl in H.
      inversion H; subst.
      destruct (F l IH ps l' ps' Hs E) as [Hs1 S]. split; [exact Hs1|]. rewrite S. reflexivity.
  Qed.

  Lemma dets_spec : forall l ps l' ps',
    st_eq ps ps0 -> apply_dets it ps l = Ok (l', ps') ->
    st_eq ps' ps0 /\ omap (fun d => obind (sp_tree it T ps0 (snd d)) (fun t => Ok (fst d, t))) l = Ok l'.
  Proof.
    induction l as [|[n t] r IH]; intros ps l' ps' Hs H; simpl in H.
    - inversion H; subst. split; [exact Hs | reflexivity].
    - destruct (apply_tree it ps t) as [[t1 ps1]| |] eqn:E1; try discriminate. simpl in H.
      destruct (apply_dets it ps1 r) as [[r' ps2]| |] eqn:E2; try discriminate. simpl in H.
      inversion H; subst.
      destruct (tree_spec t ps t1 ps1 Hs E1) as [Hs1 S1]. destruct (IH ps1 r' ps' Hs1 E2) as [Hs2 S2].
      split; [exact Hs2|]. simpl. rewrite S1. simpl. rewrite S2. reflexivity.
  Qed.
End Step.

Lemma dom_of_safe it : tracking_safe it = true -> is_renaming (i_tr it) = true -> no_fapplied (i_field it).
Proof.
  intros Hts Hr. unfold tracking_safe in Hts. rewrite Hr in Hts. simpl in Hts.
  apply has_fapplied_false. destruct (has_fapplied (i_field it)); [discriminate|reflexivity].
Qed.

Theorem step_meets_spec it T w w' b :
  wf_ngroup (i_rule it) -> wf_ngroup (i_det it) -> wf_ngroup (i_field it) ->
  tracking_safe it = true ->
  step it w = Ok (w', b) ->
  exists ws T', sp_step it T w = Ok (ws, b, T') /\ same_obs ws w'.
Proof.
  intros Hwr Hwd Hwf Hts Hst.
  apply step_inv in Hst. destruct Hst as [Hg Ht].
  apply (rule_gate it w b Hwr) in Hg. unfold sp_step. rewrite Hg. simpl.
  destruct b; simpl.
  2:{ subst. exists w, T. split; [reflexivity | split; reflexivity]. }
  unfold transform in Ht.
  destruct (i_tr it) as [k v|c p s|a v|v|s|s|m] eqn:Etr.
  - inversion Ht; subst. eexists _, T. split; [reflexivity | split; reflexivity].
  - destruct c, p, s; inversion Ht; subst; eexists _, T; (split; [reflexivity | split; reflexivity]).
  - inversion Ht; subst. eexists _, T. split; [reflexivity | split; reflexivity].
  - destruct (apply_dets it (w_ps w) (r_dets (w_rule w))) as [[ds ps']| |] eqn:E; try discriminate.
    simpl in Ht. inversion Ht; subst.
    assert (Hi : is_item_transf (i_tr it) = true) by (rewrite Etr; reflexivity).
    destruct (dets_spec it T (w_ps w) Hwd Hwf (dom_of_safe it Hts) Hi (r_dets (w_rule w)) (w_ps w) ds ps' eq_refl E) as [Hs S].
    simpl. rewrite S. simpl. eexists _, T. split; [reflexivity|]. split; [reflexivity|]. simpl. symmetry. exact Hs.
  - destruct (map_fields it (w_ps w) (r_fields (w_rule w))) as [[fl ps1]| |] eqn:Ef; try discriminate. simpl in Ht.
    destruct (apply_dets it ps1 (r_dets (w_rule w))) as [[ds ps']| |] eqn:E; try discriminate.
    simpl in Ht. inversion Ht; subst.
    assert (Hr : is_renaming (i_tr it) = true) by (rewrite Etr; reflexivity).
    assert (Hi : is_item_transf (i_tr it) = true) by (rewrite Etr; reflexivity).
    destruct (map_fields_spec it T (w_ps w) Hwf (dom_of_safe it Hts Hr) (r_fields (w_rule w)) (w_ps w) fl ps1 eq_refl Ef) as [Hs1 S1].
    destruct (dets_spec it T (w_ps w) Hwd Hwf (dom_of_safe it Hts) Hi (r_dets (w_rule w)) ps1 ds ps' Hs1 E) as [Hs S].
    simpl. rewrite S1. simpl. rewrite S. simpl.
    eexists _, _. split; [reflexivity|]. split; [reflexivity|]. simpl. symmetry. exact Hs.
  - destruct (map_fields it (w_ps w) (r_fields (w_rule w))) as [[fl ps1]| |] eqn:Ef; try discriminate. simpl in Ht.
    destruct (apply_dets it ps1 (r_dets (w_rule w))) as [[ds ps']| |] eqn:E; try discriminate.
    simpl in Ht. inversion Ht; subst.
    assert (Hr : is_renaming (i_tr it) = true) by (rewrite Etr; reflexivity).
    assert (Hi : is_item_transf (i_tr it) = true) by (rewrite Etr; reflexivity).
    destruct (map_fields_spec it T (w_ps w) Hwf (dom_of_safe it Hts Hr) (r_fields (w_rule w)) (w_ps w) fl ps1 eq_refl Ef) as [Hs1 S1].
    destruct (dets_spec it T (w_ps w) Hwd Hwf (dom_of_safe it Hts) Hi (r_dets (w_rule w)) ps1 ds ps' Hs1 E) as [Hs S].
    simpl. rewrite S1. simpl. rewrite S. simpl.
    eexists _, _. split; [reflexivity|]. split; [reflexivity|]. simpl. symmetry. exact Hs.
  - destruct (map_fields it (w_ps w) (r_fields (w_rule w))) as [[fl ps1]| |] eqn:Ef; try discriminate. simpl in Ht.
    destruct (apply_dets it ps1 (r_dets (w_rule w))) as [[ds ps']| |] eqn:E; try discriminate.
    simpl in Ht. inversion Ht; subst.
    assert (Hr : is_renaming (i_tr it) = true) by (rewrite Etr; reflexivity).
    assert (Hi : is_item_transf (i_tr it) = true) by (rewrite Etr; reflexivity).
    destruct (map_fields_spec it T (w_ps w) Hwf (dom_of_safe it Hts Hr) (r_fields (w_rule w)) (w_ps w) fl ps1 eq_refl Ef) as [Hs1 S1].
    destruct (dets_spec it T (w_ps w) Hwd Hwf (dom_of_safe it Hts) Hi (r_dets (w_rule w)) ps1 ds ps' Hs1 E) as [Hs S].
    simpl. rewrite S1. simpl. rewrite S. simpl.
    eexists _, _. split; [reflexivity|]. split; [reflexivity|]. simpl. symmetry. exact Hs.
Qed.
