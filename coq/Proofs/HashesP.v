(* C12, hashes_fields: grouping by dict insertion (first-insertion order, values appended) is the
   specification's grouping (fields in order of first occurrence, each with all its values). *)
From Coq Require Import NArith List Bool.
From PS Require Import Base.Chars Model.SString Model.Transform Spec.Rewrite.
Import ListNotations.
Open Scope N_scope.

Lemma str_eqb_sym a b : str_eqb a b = str_eqb b a.
Proof.
  destruct (str_eqb a b) eqn:E1, (str_eqb b a) eqn:E2; try reflexivity.
  - apply str_eqb_eq in E1. subst. rewrite str_eqb_refl in E2. discriminate.
  - apply str_eqb_eq in E2. subst. rewrite str_eqb_refl in E1. discriminate.
Qed.

Lemma mem_str_filter k x l : str_eqb k x = false ->
  mem_str k (filter (fun y => negb (str_eqb y x)) l) = mem_str k l.
Proof.
  intros H. unfold mem_str. induction l as [|y l IH]; [reflexivity|]. cbn [filter existsb].
  destruct (str_eqb y x) eqn:E; cbn [negb].
  - apply str_eqb_eq in E. subst y. rewrite H. exact IH.
  - cbn [existsb]. rewrite IH. reflexivity.
Qed.
Lemma mem_nodup k l : mem_str k (nodup_str l) = mem_str k l.
Proof.
  induction l as [|x l IH]; [reflexivity|]. cbn [nodup_str]. unfold mem_str in *. cbn [existsb].
  destruct (str_eqb k x) eqn:E; [reflexivity|]. cbn [orb].
  fold (mem_str k (filter (fun y => negb (str_eqb y x)) (nodup_str l))). rewrite (mem_str_filter k x _ E). exact IH.
Qed.

(* nodup of a list extended at the end *)
Lemma nodup_snoc l k : nodup_str (l ++ [k]) = if mem_str k l then nodup_str l else nodup_str l ++ [k].
Proof.
  induction l as [|x l IH]; [reflexivity|]. cbn [app nodup_str]. rewrite IH. unfold mem_str. cbn [existsb].
  fold (mem_str k l). destruct (mem_str k l) eqn:M.
  - rewrite orb_true_r. reflexivity.
  - rewrite orb_false_r. rewrite filter_app. cbn [filter]. destruct (str_eqb k x) eqn:E; cbn [negb].
    + rewrite app_nil_r. reflexivity.
    + reflexivity.
Qed.

Lemma vals_snoc k' l k v : vals_of k' (l ++ [(k, v)]) = vals_of k' l ++ (if str_eqb k k' then [v] else []).
Proof. unfold vals_of. rewrite filter_app, map_app. cbn [filter fst]. destruct (str_eqb k k'); reflexivity. Qed.

(* keys of nodup are pairwise different: k does not occur after its first occurrence *)
Lemma filter_not_mem k l : mem_str k (filter (fun y => negb (str_eqb y k)) l) = false.
Proof.
  unfold mem_str. induction l as [|y l IH]; [reflexivity|]. cbn [filter]. destruct (str_eqb y k) eqn:E; cbn [negb]; [exact IH|].
  cbn [existsb]. rewrite str_eqb_sym, E. exact IH.
Qed.

Fixpoint distinct (l : list str) : bool :=
  match l with [] => true | x :: r => negb (mem_str x r) && distinct r end.
Lemma mem_filter_false k (p : str -> bool) l : mem_str k l = false -> mem_str k (filter p l) = false.
Proof.
  unfold mem_str. induction l as [|y l IH]; [reflexivity|]. cbn [existsb filter]. intros H.
  apply orb_false_iff in H. destruct H as [H1 H2]. destruct (p y); [cbn [existsb]; rewrite H1; exact (IH H2) | exact (IH H2)].
Qed.
Lemma distinct_filter (p : str -> bool) l : distinct l = true -> distinct (filter p l) = true.
Proof.
  induction l as [|x l IH]; [reflexivity|]. cbn [distinct filter]. intros H. apply andb_true_iff in H.
  destruct H as [H1 H2]. apply negb_true_iff in H1. destruct (p x); [|exact (IH H2)].
  cbn [distinct]. rewrite (mem_filter_false x p l H1), (IH H2). reflexivity.
Qed.
Lemma distinct_nodup l : distinct (nodup_str l) = true.
Proof.
  induction l as [|x l IH]; [reflexivity|]. cbn [nodup_str distinct].
  rewrite filter_not_mem, (distinct_filter _ _ IH). reflexivity.
Qed.

(* dict_add on a key list given as a map over different keys *)
Lemma dict_add_map (F : str -> list str) k v ks : distinct ks = true ->
  dict_add k v (map (fun k' => (k', F k')) ks)
  = if mem_str k ks then map (fun k' => (k', F k' ++ (if str_eqb k k' then [v] else []))) ks
    else map (fun k' => (k', F k')) ks ++ [(k, [v])].
Proof.
  induction ks as [|x ks IH]; intros D; [reflexivity|]. cbn [map dict_add]. unfold mem_str. cbn [existsb].
  cbn [distinct] in D. apply andb_true_iff in D. destruct D as [D1 D2]. apply negb_true_iff in D1.
  destruct (str_eqb k x) eqn:E.
  - apply str_eqb_eq in E. subst x. cbn [orb map]. f_equal.
    clear IH D2. induction ks as [|y ks IH]; [reflexivity|]. unfold mem_str in D1. cbn [existsb] in D1.
    apply orb_false_iff in D1. destruct D1 as [M1 M2]. cbn [map]. rewrite M1, app_nil_r. f_equal. apply IH, M2.
  - cbn [orb]. fold (mem_str k ks). rewrite (IH D2).
    destruct (mem_str k ks); cbn [map app]; rewrite ?E, ?app_nil_r; reflexivity.
Qed.

Theorem dict_group_spec pairs : dict_group pairs = spec_group pairs.
Proof.
  induction pairs as [|[k v] l IH] using rev_ind; [reflexivity|].
  unfold dict_group in *. rewrite fold_left_app. cbn [fold_left fst snd]. rewrite IH. unfold spec_group.
  rewrite map_app. cbn [map fst]. rewrite nodup_snoc.
  rewrite (dict_add_map (fun k' => vals_of k' l) k v (nodup_str (map fst l))).
  2:{ apply distinct_nodup. }
  rewrite mem_nodup. destruct (mem_str k (map fst l)) eqn:M.
  - apply map_ext. intros k'. rewrite vals_snoc. reflexivity.
  - rewrite map_app. cbn [map]. f_equal.
    + apply map_ext_in. intros k' Hin. rewrite vals_snoc.
      destruct (str_eqb k k') eqn:E; [|rewrite app_nil_r; reflexivity].
      apply str_eqb_eq in E. subst k'. exfalso.
      assert (mem_str k (nodup_str (map fst l)) = true).
      { unfold mem_str. apply existsb_exists. exists k. split; [exact Hin | apply str_eqb_refl]. }
      rewrite mem_nodup in H. congruence.
    + rewrite vals_snoc, str_eqb_refl. f_equal. f_equal.
      assert (V : vals_of k l = []).
      { unfold vals_of. clear IH. induction l as [|[k0 v0] l IHl]; [reflexivity|]. cbn [map fst] in M. unfold mem_str in M.
        cbn [existsb] in M. apply orb_false_iff in M. destruct M as [M1 M2]. cbn [filter fst]. rewrite str_eqb_sym, M1. apply IHl, M2. }
      rewrite V. reflexivity.
Qed.
