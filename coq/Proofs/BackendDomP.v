(* Boolean versions of the premises of the structure theorem (used by the run-time judge to mark
   which generated cases lie in the proved domain), their soundness, and the refutations outside
   the domain. *)
From Coq Require Import List Arith Bool Lia.
From PS Require Import Model.Backend Spec.Target Proofs.BackendP Proofs.BackendMainP.
Import ListNotations.
Open Scope nat_scope.

Definition cfg_ok (K : cfg) : bool :=
  (1 <=? lvl K ONot) && (lvl K ONot <=? 3) && (1 <=? lvl K OAnd) && (lvl K OAnd <=? 3) &&
  (1 <=? lvl K OOr) && (lvl K OOr <=? 3) &&
  negb (lvl K ONot =? lvl K OAnd) && negb (lvl K ONot =? lvl K OOr) && negb (lvl K OAnd =? lvl K OOr).

Lemma cfg_ok_spec K : cfg_ok K = true ->
  (forall o, 1 <= lvl K o <= 3) /\ (forall a b, lvl K a = lvl K b -> a = b).
Proof.
  unfold cfg_ok. intros H.
  repeat (apply andb_true_iff in H; destruct H as [H ?]).
  repeat match goal with
  | X : (_ <=? _) = true |- _ => apply Nat.leb_le in X
  | X : negb (_ =? _) = true |- _ => apply negb_true_iff in X; apply Nat.eqb_neq in X
  end.
  split.
  - intros o; destruct o; lia.
  - intros a b E; destruct a, b; try reflexivity; exfalso; lia.
Qed.

Definition not_arg_okb (K : cfg) (a : cond) : bool :=
  negb (not_eq K) || match a with CAtom _ _ true _ => true | _ => false end.

Fixpoint wfb (K : cfg) (c : cond) : bool :=
  match c with
  | CAtom _ _ _ _ => true
  | COrFresh _ ps => match ps with [] => false | _ => true end
  | CNotExists _ => (lvl K ONot =? 1) && negb (not_eq K)
  | CNot a => wfb K a && not_arg_okb K a
  | CExp args => match args with [] => false | _ => true end &&
                 (fix all l := match l with [] => true | x :: r => wfb K x && all r end) args
  | CBin _ args => match args with [] => false | _ => true end &&
                 (fix all l := match l with [] => true | x :: r => wfb K x && all r end) args
  end.

Lemma wfb_wf K c : wfb K c = true -> wf K c.
Proof.
  induction c as [k f n a|args IH|f ps|a|a IH|o args IH] using cond_ind'; simpl; intros H.
  - exact I.
  - apply andb_true_iff in H. destruct H as [H1 H2]. split.
    + destruct args; [discriminate H1 | intros X; discriminate X].
    + clear H1. induction args as [|x r IHr]; [exact I|].
      simpl in H2. apply andb_true_iff in H2. destruct H2 as [Hx Hr].
      inversion IH as [|? ? Px Pr]; subst. split; [apply Px; exact Hx | apply IHr; assumption].
  - destruct ps; [discriminate H | intros X; discriminate X].
  - apply andb_true_iff in H. destruct H as [H1 H2]. apply Nat.eqb_eq in H1.
    apply negb_true_iff in H2. auto.
  - apply andb_true_iff in H. destruct H as [H1 H2]. split; auto.
    unfold not_arg_okb in H2. unfold not_arg_ok. apply orb_true_iff in H2. destruct H2 as [H2|H2].
    + left. apply negb_true_iff in H2. exact H2.
    + right. destruct a as [? ? [|] ?| | | | |]; try discriminate. exact I.
  - apply andb_true_iff in H. destruct H as [H1 H2]. split.
    + destruct args; [discriminate H1 | intros X; discriminate X].
    + clear H1. induction args as [|x r IHr]; [exact I|].
      simpl in H2. apply andb_true_iff in H2. destruct H2 as [Hx Hr].
      inversion IH as [|? ? Px Pr]; subst. split; [apply Px; exact Hx | apply IHr; assumption].
Qed.

(* the theorem in the form used by the property file *)
Theorem structure_b K asg c : cfg_ok K = true -> wfb K c = true ->
  exists f, pe (lvl K) asg f 3 (conv K false c) = Some (den asg c, []).
Proof.
  intros HK Hw. destruct (cfg_ok_spec K HK) as [Hr Hi].
  apply structure; auto. apply wfb_wf. exact Hw.
Qed.

(* more fuel never changes a successful reading *)
Theorem fuel_irrelevant K asg f f' i ts x : cfg_ok K = true ->
  pe (lvl K) asg f i ts = Some x -> f <= f' -> pe (lvl K) asg f' i ts = Some x.
Proof. intros HK. destruct (cfg_ok_spec K HK) as [Hr Hi]. apply pe_mono; auto. Qed.

(* ---------- refutations outside the domain (not-equals mode) ---------- *)
Definition lvl_std (o : op) : nat := match o with ONot => 1 | OAnd => 2 | OOr => 3 end.
Definition K_ne : cfg := {| lvl := lvl_std; parenthesize := false; or_in := false; and_in := false;
                            in_wild := false; not_eq := true |}.
Definition at_ (a : nat) := CAtom (KStr false) (Some a) true a.
Definition num_ (a : nat) := CAtom KNum (Some a) false a.

(* NOT over a group: (f!="a" and g!="b") instead of not (f="a" and g="b") *)
Lemma noteq_group_refuted : exists c asg,
  tparse lvl_std asg (conv K_ne false c) <> Some (den asg c).
Proof. exists (CNot (CBin BAnd [at_ 0; at_ 1])), (fun a => Nat.eqb a 0). vm_compute. discriminate. Qed.
(* NOT over a value without negated template: f=1 *)
Lemma noteq_number_refuted : exists c asg,
  tparse lvl_std asg (conv K_ne false c) <> Some (den asg c).
Proof. exists (CNot (num_ 0)), (fun _ => true). vm_compute. discriminate. Qed.
(* double NOT: (f!="a") *)
Lemma noteq_double_refuted : exists c asg,
  tparse lvl_std asg (conv K_ne false c) <> Some (den asg c).
Proof. exists (CNot (CNot (at_ 0))), (fun _ => true). vm_compute. discriminate. Qed.
(* exists: false in not-equals mode renders as exists(f) *)
Lemma noteq_notexists_refuted : exists c asg,
  tparse lvl_std asg (conv K_ne false c) <> Some (den asg c).
Proof. exists (CNotExists 0), (fun _ => true). vm_compute. discriminate. Qed.

(* the NOT(exists) rewrite is not grouped: wrong when NOT binds looser than AND *)
Definition lvl_odd (o : op) : nat := match o with OAnd => 1 | ONot => 2 | OOr => 3 end.
Definition K_odd : cfg := {| lvl := lvl_odd; parenthesize := false; or_in := false; and_in := false;
                             in_wild := false; not_eq := false |}.
Lemma notexists_loose_not_refuted : exists c asg,
  tparse lvl_odd asg (conv K_odd false c) <> Some (den asg c).
Proof. exists (CBin BAnd [at_ 0; CNotExists 1]), (fun _ => true). vm_compute. discriminate. Qed.

(* non-vacuity: a 4-level rule with expansion under NOT, CIDR expansion and in-list lies in the domain *)
Definition K_std : cfg := {| lvl := lvl_std; parenthesize := false; or_in := true; and_in := false;
                             in_wild := false; not_eq := false |}.
Definition sample : cond :=
  CBin BAnd [ CBin BOr [at_ 0; at_ 1]; CNot (CExp [at_ 2; at_ 3]);
              COrFresh 9 [(4, (true, true)); (5, (true, true))]; CNot (CBin BAnd [at_ 6; CNotExists 7]) ].
Example sample_in_domain : cfg_ok K_std = true /\ wfb K_std sample = true /\
  tparse lvl_std (fun a => Nat.even a) (conv K_std false sample) = Some (den (fun a => Nat.even a) sample).
Proof. vm_compute. repeat split. Qed.
Example sample_noteq_in_domain :
  wfb K_ne (CBin BOr [CNot (at_ 0); at_ 1; CExp [at_ 2; at_ 3]]) = true.
Proof. reflexivity. Qed.
