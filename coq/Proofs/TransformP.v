(* Proofs for C12: the detection walk commutes with the entry-wise substitution on documents, exactly
   (tree = rewritten document) and semantically (same truth value under every event); the local
   agreement of every transformation with its documented rewrite; rule- and pipeline-level theorems. *)
From Coq Require Import NArith List Bool Lia.
From PS Require Import Base.Chars Model.SString Model.Transform Spec.Rewrite Proofs.HashesP.
Import ListNotations.
Open Scope N_scope.

(* ---------- induction over detection trees ---------- *)
Section DetInd.
  Variable P : det -> Prop.
  Hypothesis HI : forall i, P (DI i).
  Hypothesis HD : forall l land, Forall P l -> P (DD l land).
  Fixpoint det_ind' (d : det) : P d :=
    match d with
    | DI i => HI i
    | DD l land => HD l land ((fix go (l : list det) : Forall P l :=
                                 match l with
                                 | [] => Forall_nil P
                                 | x :: r => Forall_cons x (det_ind' x) (go r)
                                 end) l)
    end.
End DetInd.

Definition rep_list (i : ditem) (r : rep) : list det :=
  match r with Keep => [DI i] | Repl d => [d] | Delete => [] end.

Lemma walk_DI tr i : walk tr (DI i) = rep_list i (tr i).
Proof. simpl. destruct (tr i); reflexivity. Qed.

Lemma flat_map_map {A B C} (f : B -> list C) (g : A -> B) l :
  flat_map f (map g l) = flat_map (fun x => f (g x)) l.
Proof. induction l; simpl; [reflexivity | rewrite IHl; reflexivity]. Qed.

Lemma map_flat_map {A B C} (f : B -> C) (g : A -> list B) l :
  map f (flat_map g l) = flat_map (fun x => map f (g x)) l.
Proof. induction l; simpl; [reflexivity | rewrite map_app, IHl; reflexivity]. Qed.

Lemma flat_map_ext_Forall {A B} (f g : A -> list B) l :
  Forall (fun x => f x = g x) l -> flat_map f l = flat_map g l.
Proof. induction 1; simpl; [reflexivity | congruence]. Qed.

(* items of a tree satisfy p *)
Fixpoint forall_items (p : ditem -> bool) (d : det) : bool :=
  match d with DI i => p i | DD l _ => forallb (forall_items p) l end.

Lemma forall_items_true d : forall_items (fun _ => true) d = true.
Proof.
  induction d as [i | l land IH] using det_ind'; [reflexivity|]. cbn [forall_items].
  apply forallb_forall. intros x Hx. rewrite Forall_forall in IH. apply IH, Hx.
Qed.

Lemma flat_map_ext_on {A B} (f g : A -> list B) (q : A -> bool) l :
  Forall (fun x => q x = true -> f x = g x) l -> forallb q l = true -> flat_map f l = flat_map g l.
Proof.
  induction 1 as [|x l Hx _ IH]; simpl; [reflexivity|]. intros H. apply andb_true_iff in H.
  destruct H as [H1 H2]. rewrite (Hx H1), (IH H2). reflexivity.
Qed.

(* ---------- exact commutation ---------- *)
Lemma walk_exact p tr r :
  (forall i, p i = true -> map doc_of (rep_list i (tr i)) = opt_list (r i)) ->
  forall d, forall_items p d = true -> map doc_of (walk tr d) = subst r (doc_of d).
Proof.
  intros H. induction d as [i | l land IH] using det_ind'; intros Hp.
  - rewrite walk_DI. apply H, Hp.
  - assert (E : map doc_of (flat_map (walk tr) l) = flat_map (subst r) (map doc_of l)).
    { rewrite map_flat_map, flat_map_map. apply (flat_map_ext_on _ _ (forall_items p)); [exact IH | exact Hp]. }
    cbn [walk map doc_of]. destruct land; cbn [subst]; rewrite E; reflexivity.
Qed.

Lemma walk_top_exact p tr r :
  (forall i, p i = true -> map doc_of (rep_list i (tr i)) = opt_list (r i)) ->
  forall d, forall_items p d = true -> doc_of (walk_top tr d) = subst_top r (doc_of d).
Proof.
  intros H [i | l land] Hp; [reflexivity|].
  assert (E : map doc_of (flat_map (walk tr) l) = flat_map (subst r) (map doc_of l)).
  { rewrite map_flat_map, flat_map_map. apply (flat_map_ext_on _ _ (forall_items p)); [|exact Hp].
    apply Forall_forall. intros x _. apply walk_exact. exact H. }
  cbn [walk_top doc_of]. destruct land; cbn [subst_top]; rewrite E; reflexivity.
Qed.

(* ---------- semantic commutation ---------- *)
Section SemC.
Variable asg : option str -> aval -> bool.
Definition sems (l : list det) : list bool := flat_map (fun x => opt_list (sem asg x)) l.
Definition evals (l : list doc) : list bool := flat_map (fun x => opt_list (eval asg x)) l.

Lemma sems_app a b : sems (a ++ b) = sems a ++ sems b.
Proof. unfold sems. apply flat_map_app. Qed.
Lemma evals_app a b : evals (a ++ b) = evals a ++ evals b.
Proof. unfold evals. apply flat_map_app. Qed.
Lemma sems_flat_map {A} (f : A -> list det) l : sems (flat_map f l) = flat_map (fun x => sems (f x)) l.
Proof. induction l; simpl; [reflexivity | rewrite sems_app, IHl; reflexivity]. Qed.
Lemma evals_flat_map {A} (f : A -> list doc) l : evals (flat_map f l) = flat_map (fun x => evals (f x)) l.
Proof. induction l; simpl; [reflexivity | rewrite evals_app, IHl; reflexivity]. Qed.

Lemma sem_DD l land : sem asg (DD l land) = comb land (sems l).
Proof. reflexivity. Qed.
Lemma eval_doc_of d : eval asg (doc_of d) = sem asg d.
Proof.
  induction d as [i | l land IH] using det_ind'; [reflexivity|].
  assert (E : evals (map doc_of l) = sems l).
  { unfold evals, sems. rewrite flat_map_map. apply flat_map_ext_Forall.
    eapply Forall_impl; [|exact IH]. intros x Hx. cbv beta. rewrite Hx. reflexivity. }
  rewrite sem_DD. cbn [doc_of]. destruct land; cbn [eval]; fold (evals (map doc_of l)); rewrite E; reflexivity.
Qed.

Lemma walk_sem p tr r :
  (forall i, p i = true -> sems (rep_list i (tr i)) = evals (opt_list (r i))) ->
  forall d, forall_items p d = true -> sems (walk tr d) = evals (subst r (doc_of d)).
Proof.
  intros H. induction d as [i | l land IH] using det_ind'; intros Hp.
  - rewrite walk_DI. apply H, Hp.
  - assert (E : sems (flat_map (walk tr) l) = evals (flat_map (subst r) (map doc_of l))).
    { rewrite sems_flat_map, evals_flat_map, flat_map_map.
      apply (flat_map_ext_on _ _ (forall_items p)); [exact IH | exact Hp]. }
    cbn [walk doc_of]. unfold sems at 1. cbn [flat_map]. rewrite sem_DD, E, app_nil_r.
    destruct land; cbn [subst evals flat_map eval]; rewrite app_nil_r; reflexivity.
Qed.

Lemma walk_top_sem p tr r :
  (forall i, p i = true -> sems (rep_list i (tr i)) = evals (opt_list (r i))) ->
  forall d, forall_items p d = true -> sem asg (walk_top tr d) = eval asg (subst_top r (doc_of d)).
Proof.
  intros H [i | l land] Hp; [reflexivity|].
  assert (E : sems (flat_map (walk tr) l) = evals (flat_map (subst r) (map doc_of l))).
  { rewrite sems_flat_map, evals_flat_map, flat_map_map.
    apply (flat_map_ext_on _ _ (forall_items p)); [|exact Hp].
    apply Forall_forall. intros x _. apply walk_sem. exact H. }
  cbn [walk_top doc_of]. rewrite sem_DD, E.
  destruct land; cbn [subst_top eval]; reflexivity.
Qed.

(* exact local agreement gives semantic local agreement *)
Lemma exact_sem_local i rp (r : option doc) :
  map doc_of (rep_list i rp) = opt_list r -> sems (rep_list i rp) = evals (opt_list r).
Proof.
  intros E. rewrite <- E. unfold evals, sems. rewrite flat_map_map.
  apply flat_map_ext_Forall. apply Forall_forall. intros x _. cbv beta. rewrite eval_doc_of. reflexivity.
Qed.
End SemC.

Lemma ditem_eta i : mkI (i_field i) (i_vals i) (i_all i) (i_neg i) (i_applied i) = i.
Proof. destruct i; reflexivity. Qed.

(* ---------- scoping by detection item conditions ---------- *)
Lemma gated_exact im tr r i :
  (im i = true -> map doc_of (rep_list i (tr i)) = opt_list (r i)) ->
  map doc_of (rep_list i (gated im tr i)) = opt_list (scoped im r i).
Proof. intros H. unfold gated, scoped. destruct (im i) eqn:E; [apply H; reflexivity | reflexivity]. Qed.

Lemma gated_sem asg im tr r i :
  (im i = true -> sems asg (rep_list i (tr i)) = evals asg (opt_list (r i))) ->
  sems asg (rep_list i (gated im tr i)) = evals asg (opt_list (scoped im r i)).
Proof. intros H. unfold gated, scoped. destruct (im i) eqn:E; [apply H; reflexivity | reflexivity]. Qed.

(* ---------- field renaming ---------- *)
Section FieldMapP.
Variable fm : option str -> bool.
Variable afn : option str -> fres.

Lemma map_ref_fst v : fst (map_ref fm afn v) = rename_ref fm afn v.
Proof.
  destruct v as [[ | | | |? ?|g sw ew|? ?| ]|]; try reflexivity.
  unfold map_ref, rename_ref, targets, afn_list. destruct (fm (Some g)); [|reflexivity].
  destruct (afn (Some g)); reflexivity.
Qed.
Lemma map_ref_nomatch v : snd (map_ref fm afn v) = false -> fst (map_ref fm afn v) = [v].
Proof.
  destruct v as [[ | | | |? ?|g sw ew|? ?| ]|]; try reflexivity.
  unfold map_ref. destruct (fm (Some g)); [discriminate | reflexivity].
Qed.
Lemma vals1_eq vs :
  (if existsb snd (map (map_ref fm afn) vs) then flat_map fst (map (map_ref fm afn) vs) else vs)
  = flat_map (rename_ref fm afn) vs.
Proof.
  destruct (existsb snd (map (map_ref fm afn) vs)) eqn:E.
  - rewrite flat_map_map. apply flat_map_ext. intros v. apply map_ref_fst.
  - induction vs as [|v vs IH]; [reflexivity|].
    simpl in E. apply orb_false_iff in E. destruct E as [E1 E2].
    cbn [flat_map]. rewrite <- map_ref_fst, (map_ref_nomatch v E1), <- (IH E2). reflexivity.
Qed.

(* the domain: a keyword item that is mapped to a field carries only values with a substring form
   the implementation produces (strings); numbers keep their exact-match form (D28) *)
Definition kw_value_ok (v : value) : bool := match v with V (ANum _) | VExp _ => false | _ => true end.
Definition kw_ok (i : ditem) : bool :=
  match i_field i with
  | None => if fres_some (afn None) && fm None then forallb kw_value_ok (i_vals i) else true
  | Some _ => true
  end.
(* exact agreement additionally needs: no negated item mapped one-to-many (there the tree is the
   De Morgan dual of the documented rewrite) *)
Definition many_neg (i : ditem) : bool :=
  match afn (i_field i) with FMany _ => fm (i_field i) && i_neg i | _ => false end.

Lemma wild_kw_value v : kw_value_ok v = true -> wild_value v = kw_value v.
Proof. destruct v as [[ | | | |? ?|? ? ?|? ?| ]|]; try reflexivity; discriminate. Qed.
Lemma rename_ref_kw_ok vs :
  forallb kw_value_ok vs = true -> forallb kw_value_ok (flat_map (rename_ref fm afn) vs) = true.
Proof.
  induction vs as [|v vs IH]; [reflexivity|]. simpl. intros H. apply andb_true_iff in H. destruct H as [H1 H2].
  rewrite forallb_app, (IH H2), andb_true_r.
  destruct v as [[ | | | |? ?|g sw ew|? ?| ]|]; try (simpl; rewrite ?H1; reflexivity); try (simpl in H1; discriminate).
  unfold rename_ref. destruct (targets fm afn (Some g)); [|reflexivity].
  rewrite forallb_forall. intros x Hx. apply in_map_iff in Hx. destruct Hx as [y [<- _]]. reflexivity.
Qed.
Lemma map_wild_kw vs : forallb kw_value_ok vs = true -> map wild_value vs = map kw_value vs.
Proof.
  induction vs as [|v vs IH]; [reflexivity|]. simpl. intros H. apply andb_true_iff in H. destruct H as [H1 H2].
  rewrite (wild_kw_value v H1), (IH H2). reflexivity.
Qed.

Lemma vals2_eq i : kw_ok i = true -> fres_some (afn (i_field i)) && fm (i_field i) = true ->
  match i_field i with None => map wild_value (flat_map (rename_ref fm afn) (i_vals i))
                  | Some _ => flat_map (rename_ref fm afn) (i_vals i) end
  = match i_field i with None => map kw_value (flat_map (rename_ref fm afn) (i_vals i))
                    | Some _ => flat_map (rename_ref fm afn) (i_vals i) end.
Proof.
  unfold kw_ok. destruct (i_field i); [reflexivity|]. intros H1 H2. rewrite H2 in H1.
  apply map_wild_kw, rename_ref_kw_ok, H1.
Qed.

Lemma fieldmap_exact i : kw_ok i = true -> many_neg i = false ->
  map doc_of (rep_list i (fieldmap_item fm afn i)) = opt_list (rw_rename fm afn i).
Proof.
  intros Hk Hm. unfold fieldmap_item, rw_rename. rewrite vals1_eq.
  destruct (fres_some (afn (i_field i)) && fm (i_field i)) eqn:E.
  - rewrite (vals2_eq i Hk E). apply andb_true_iff in E. destruct E as [E1 E2]. rewrite E2.
    unfold many_neg in Hm. rewrite E2 in Hm.
    destruct (afn (i_field i)) as [|s|l]; [discriminate | reflexivity |].
    simpl in Hm. rewrite Hm. cbn [rep_list map doc_of opt_list wrap_neg]. rewrite map_map. reflexivity.
  - assert (E' : (if fm (i_field i) then afn (i_field i) else FNone) = FNone).
    { destruct (fm (i_field i)); [|reflexivity]. destruct (afn (i_field i)); try reflexivity; discriminate. }
    rewrite E'. rewrite <- vals1_eq.
    destruct (existsb snd (map (map_ref fm afn) (i_vals i))); [reflexivity|].
    cbn [rep_list map doc_of opt_list]. rewrite ditem_eta. reflexivity.
Qed.

Lemma forallb_negb_existsb {A} (f : A -> bool) l :
  forallb id (map (fun x => negb (f x)) l) = negb (existsb id (map f l)).
Proof. induction l; simpl; [reflexivity | rewrite IHl, negb_orb; reflexivity]. Qed.

Lemma fieldmap_sem asg i : kw_ok i = true ->
  sems asg (rep_list i (fieldmap_item fm afn i)) = evals asg (opt_list (rw_rename fm afn i)).
Proof.
  intros Hk. destruct (many_neg i) eqn:Hm.
  2:{ apply exact_sem_local, fieldmap_exact; assumption. }
  unfold many_neg in Hm. unfold fieldmap_item, rw_rename. rewrite vals1_eq.
  destruct (afn (i_field i)) as [|s|l] eqn:Ea; try discriminate.
  apply andb_true_iff in Hm. destruct Hm as [Hf Hn]. rewrite Hf, Hn.
  assert (E : fres_some (afn (i_field i)) && fm (i_field i) = true) by (rewrite Ea, Hf; reflexivity).
  pose proof (vals2_eq i Hk E) as V2. rewrite Ea in E. cbn [fres_some andb]. rewrite V2. clear V2.
  set (vals2 := match i_field i with None => _ | Some _ => _ end).
  cbn [rep_list opt_list wrap_neg]. unfold sems, evals. cbn [flat_map]. rewrite !app_nil_r.
  rewrite sem_DD. cbn [eval]. f_equal.
  assert (S1 : sems asg (map (fun s => DI (mkI (Some s) vals2 (i_all i) true (i_applied i))) l)
               = map (fun s => negb (sem_vals asg (Some s) (i_all i) vals2)) l).
  { unfold sems. rewrite flat_map_map. clear Ea E. induction l as [|a l IHl]; [reflexivity|]. cbn [flat_map map]. rewrite IHl.
    cbn [sem opt_list app]. unfold sem_item. cbn [i_neg i_field i_all i_vals]. rewrite xorb_true_l. reflexivity. }
  assert (S2 : flat_map (fun x => opt_list (eval asg x)) (map (fun t => Entry (mkI (Some t) vals2 (i_all i) false (i_applied i))) l)
               = map (fun s => sem_vals asg (Some s) (i_all i) vals2) l).
  { rewrite flat_map_map. clear S1 Ea E. induction l as [|a l IHl]; [reflexivity|]. cbn [flat_map map]. rewrite IHl.
    cbn [eval opt_list app]. unfold sem_item. cbn [i_neg i_field i_all i_vals]. rewrite xorb_false_l. reflexivity. }
  rewrite S1, S2. destruct l as [|a l]; [reflexivity|].
  unfold comb. cbn [map]. cbn [option_map]. f_equal.
  change (negb (sem_vals asg (Some a) (i_all i) vals2) :: map (fun s => negb (sem_vals asg (Some s) (i_all i) vals2)) l)
    with (map (fun s => negb (sem_vals asg (Some s) (i_all i) vals2)) (a :: l)).
  change (sem_vals asg (Some a) (i_all i) vals2 :: map (fun s => sem_vals asg (Some s) (i_all i) vals2) l)
    with (map (fun s => sem_vals asg (Some s) (i_all i) vals2) (a :: l)).
  apply forallb_negb_existsb.
Qed.
End FieldMapP.

(* ---------- value transformations ---------- *)
Lemma value_item_exact tv i :
  map doc_of (rep_list i (value_item tv i)) = opt_list (rw_values (tvs_of tv) i).
Proof.
  unfold value_item, rw_values. set (f := i_field i).
  destruct (existsb (fun p => is_some (snd p)) (map (fun v => (v, tv f v)) (i_vals i))) eqn:E.
  - cbn [rep_list map doc_of opt_list]. rewrite flat_map_map. reflexivity.
  - cbn [rep_list map doc_of opt_list].
    assert (H : flat_map (tvs_of tv f) (i_vals i) = i_vals i).
    { induction (i_vals i) as [|v vs IH]; [reflexivity|]. simpl in E. apply orb_false_iff in E.
      destruct E as [E1 E2]. cbn [flat_map]. rewrite (IH E2). unfold tvs_of.
      destruct (tv f v); [discriminate | reflexivity]. }
    rewrite H. unfold f. rewrite ditem_eta. reflexivity.
Qed.

(* a value rewrite given by its specification tvs agrees when tvs and the model's tv agree on the
   values of the item *)
Lemma value_item_exact_on tv tvs i :
  (forall v, In v (i_vals i) -> tvs (i_field i) v = tvs_of tv (i_field i) v) ->
  map doc_of (rep_list i (value_item tv i)) = opt_list (rw_values tvs i).
Proof.
  intros H. rewrite value_item_exact. unfold rw_values. cbn [opt_list]. do 3 f_equal.
  apply flat_map_ext_Forall. apply Forall_forall. intros v Hv. symmetry. apply H, Hv.
Qed.

(* replace_string: the domain is "a substitution that leaves the plain form alone leaves the value alone" *)
Definition part_eqb (a b : part) : bool :=
  match a, b with
  | PStr x, PStr y => str_eqb x y
  | PMulti, PMulti | PSingle, PSingle => true
  | PPh x, PPh y => str_eqb x y
  | _, _ => false
  end.
Lemma part_eqb_eq a b : part_eqb a b = true <-> a = b.
Proof.
  destruct a, b; simpl; split; intro H; try discriminate; try reflexivity;
    try (apply str_eqb_eq in H; congruence); try (inversion H; apply str_eqb_refl).
Qed.
Definition sstring_eqb := list_eqb part_eqb.
Lemma sstring_eqb_eq a b : sstring_eqb a b = true <-> a = b.
Proof. apply list_eqb_eq, part_eqb_eq. Qed.

Definition replace_value_ok (sub : str -> str) (v : value) : bool :=
  match v with
  | V (AStr _ s) => let p := to_plain false s in
                    if str_eqb (sub p) p then sstring_eqb (replace_sstring sub s) s else true
  | V (ANum n) => let p := to_plain false (parse true n) in negb (str_eqb (sub p) p)
  | _ => true
  end.
Lemma replace_value_agree sub f v :
  replace_value_ok sub v = true -> tvs_replace sub f v = tvs_of (tv_replace sub) f v.
Proof.
  destruct v as [[c s|n| | | | | | ]|]; try reflexivity; unfold replace_value_ok, tvs_replace, tvs_of, tv_replace.
  - destruct (str_eqb (sub (to_plain false s)) (to_plain false s)); [|reflexivity].
    intros H. apply sstring_eqb_eq in H. rewrite H. reflexivity.
  - destruct (str_eqb _ _); [discriminate | reflexivity].
Qed.

(* ---------- marks (applied_processing_items) ---------- *)
Section DocInd.
  Variable P : doc -> Prop.
  Hypothesis HE : forall i, P (Entry i).
  Hypothesis HA : forall l, Forall P l -> P (All l).
  Hypothesis HO : forall l, Forall P l -> P (Any l).
  Hypothesis HN : forall d, P d -> P (Neg d).
  Fixpoint doc_ind' (d : doc) : P d :=
    let go := fix go (l : list doc) : Forall P l :=
                match l with [] => Forall_nil P | x :: r => Forall_cons x (doc_ind' x) (go r) end in
    match d with
    | Entry i => HE i
    | All l => HA l (go l)
    | Any l => HO l (go l)
    | Neg d => HN d (doc_ind' d)
    end.
End DocInd.

Lemma map_ext_Forall {A B} (f g : A -> B) l : Forall (fun x => f x = g x) l -> map f l = map g l.
Proof. induction 1; simpl; [reflexivity | congruence]. Qed.

Lemma doc_of_mark id d : doc_of (mark_det id d) = mark_doc id (doc_of d).
Proof.
  induction d as [i | l land IH] using det_ind'; [reflexivity|].
  cbn [mark_det doc_of]. destruct land; cbn [mark_doc]; rewrite !map_map; f_equal; apply map_ext_Forall; exact IH.
Qed.
Lemma sem_item_mark asg id i : sem_item asg (mark_item id i) = sem_item asg i.
Proof. destruct id; reflexivity. Qed.
Lemma sem_mark asg id d : sem asg (mark_det id d) = sem asg d.
Proof.
  induction d as [i | l land IH] using det_ind'; [cbn [mark_det sem]; rewrite sem_item_mark; reflexivity|].
  cbn [mark_det]. rewrite !sem_DD. f_equal. unfold sems. rewrite flat_map_map. apply flat_map_ext_Forall.
  eapply Forall_impl; [|exact IH]. intros x Hx. cbv beta. rewrite Hx. reflexivity.
Qed.
Lemma eval_mark asg id d : eval asg (mark_doc id d) = eval asg d.
Proof.
  induction d as [i | l IH | l IH | d IH] using doc_ind'; cbn [mark_doc eval].
  - rewrite sem_item_mark. reflexivity.
  - f_equal. rewrite flat_map_map. apply flat_map_ext_Forall.
    eapply Forall_impl; [|exact IH]. intros x Hx. cbv beta. rewrite Hx. reflexivity.
  - f_equal. rewrite flat_map_map. apply flat_map_ext_Forall.
    eapply Forall_impl; [|exact IH]. intros x Hx. cbv beta. rewrite Hx. reflexivity.
  - rewrite IH. reflexivity.
Qed.

Definition is_repl (r : rep) : bool := match r with Repl _ => true | _ => false end.

(* the marking layer + the scope: exact and semantic local agreement carry over *)
Lemma layer_exact id im tr touch r i :
  (im i = true -> map doc_of (rep_list i (tr i)) = opt_list (r i) /\ touch i = is_repl (tr i)) ->
  map doc_of (rep_list i (marked id (gated im tr) i)) = opt_list (scoped im (smarked id touch r) i).
Proof.
  intros H. unfold marked, gated, scoped, smarked. destruct (im i); [|reflexivity].
  destruct (H eq_refl) as [E T]. rewrite T. destruct (tr i) as [|d|]; cbn [is_repl]; try exact E.
  cbn [rep_list map] in *. destruct (r i) as [x|]; [|discriminate]. cbn [opt_list option_map] in *.
  inversion E. rewrite doc_of_mark. reflexivity.
Qed.
Lemma layer_sem asg id im tr touch r i :
  (im i = true -> sems asg (rep_list i (tr i)) = evals asg (opt_list (r i))) ->
  sems asg (rep_list i (marked id (gated im tr) i)) = evals asg (opt_list (scoped im (smarked id touch r) i)).
Proof.
  intros H. unfold marked, gated, scoped, smarked. destruct (im i); [|reflexivity].
  specialize (H eq_refl).
  assert (L : sems asg (rep_list i match tr i with Repl d => Repl (mark_det id d) | x => x end) = sems asg (rep_list i (tr i))).
  { destruct (tr i); try reflexivity. unfold sems. cbn [rep_list flat_map]. rewrite sem_mark. reflexivity. }
  assert (R : evals asg (opt_list (if touch i then option_map (mark_doc id) (r i) else r i)) = evals asg (opt_list (r i))).
  { destruct (touch i); [|reflexivity]. destruct (r i); [|reflexivity]. unfold evals. cbn [option_map opt_list flat_map].
    rewrite eval_mark. reflexivity. }
  rewrite L, R. exact H.
Qed.

Lemma existsb_map {A B} (f : A -> B) (p : B -> bool) l : existsb p (map f l) = existsb (fun x => p (f x)) l.
Proof. induction l; simpl; [reflexivity | rewrite IHl; reflexivity]. Qed.

Lemma fieldmap_touch fm afn i : touch_rename fm afn i = is_repl (fieldmap_item fm afn i).
Proof.
  unfold touch_rename, fieldmap_item.
  assert (E : existsb snd (map (map_ref fm afn) (i_vals i))
              = existsb (fun v => match v with V (ARef g _ _) => fm (Some g) | _ => false end) (i_vals i)).
  { rewrite existsb_map. induction (i_vals i) as [|v vs IH]; [reflexivity|]. cbn [existsb]. rewrite IH. f_equal.
    destruct v as [[ | | | |? ?|g sw ew|? ?| ]|]; try reflexivity. unfold map_ref. destruct (fm (Some g)); reflexivity. }
  rewrite <- E. destruct (fres_some (afn (i_field i)) && fm (i_field i)) eqn:F.
  - apply andb_true_iff in F. destruct F as [F _]. destruct (afn (i_field i)); [discriminate | reflexivity | reflexivity].
  - cbn [orb]. destruct (existsb snd (map (map_ref fm afn) (i_vals i))); reflexivity.
Qed.
Lemma value_touch tv i : touch_values tv i = is_repl (value_item tv i).
Proof.
  unfold touch_values, value_item. rewrite existsb_map. cbn [snd].
  destruct (existsb (fun x => is_some (tv (i_field i) x)) (i_vals i)); reflexivity.
Qed.

(* ---------- hashes_fields ---------- *)
Lemma hashes_touch H i : touch_hashes H i = is_repl (hashes_item H i).
Proof.
  unfold touch_hashes, hashes_item. destruct (i_field i); [|reflexivity].
  destruct (mem_str s (h_fields H) && forallb is_strv (i_vals i)); reflexivity.
Qed.
Lemma hashes_exact H i : i_neg i = false ->
  map doc_of (rep_list i (hashes_item H i)) = opt_list (rw_hashes H i).
Proof.
  intros Hn. unfold rw_hashes, touch_hashes, hashes_item. destruct (i_field i) as [f|]; [|reflexivity].
  destruct (mem_str f (h_fields H) && forallb is_strv (i_vals i)); [|reflexivity].
  rewrite Hn, dict_group_spec, xorb_false_r. cbn [rep_list map doc_of opt_list wrap_neg].
  rewrite map_map. destruct (i_all i); reflexivity.
Qed.
Lemma existsb_negb_forallb (xs : list bool) : existsb id (map negb xs) = negb (forallb id xs).
Proof. induction xs as [|x xs IH]; [reflexivity|]. cbn [map existsb forallb id]. rewrite IH, negb_andb. reflexivity. Qed.
Lemma forallb_negb_existsb' (xs : list bool) : forallb id (map negb xs) = negb (existsb id xs).
Proof. induction xs as [|x xs IH]; [reflexivity|]. cbn [map existsb forallb id]. rewrite IH, negb_orb. reflexivity. Qed.
Lemma hashes_sem asg H i :
  sems asg (rep_list i (hashes_item H i)) = evals asg (opt_list (rw_hashes H i)).
Proof.
  destruct (i_neg i) eqn:Hn; [|apply exact_sem_local, hashes_exact, Hn].
  unfold rw_hashes, touch_hashes, hashes_item. destruct (i_field i) as [f|]; [|reflexivity].
  destruct (mem_str f (h_fields H) && forallb is_strv (i_vals i)); [|reflexivity].
  rewrite Hn, dict_group_spec. set (gs := filter _ _).
  cbn [rep_list opt_list wrap_neg]. unfold sems, evals. cbn [flat_map]. rewrite !app_nil_r, sem_DD.
  set (xs := map (fun g => sem_item asg (hash_entry i false g)) gs).
  assert (S1 : sems asg (map (fun g => DI (hash_entry i true g)) gs) = map negb xs).
  { unfold sems, xs. rewrite flat_map_map, map_map. clear. induction gs as [|g gs IH]; [reflexivity|].
    cbn [flat_map map]. rewrite IH. cbn [sem opt_list app]. f_equal. unfold sem_item, hash_entry. cbn [i_neg i_field i_all i_vals].
    rewrite xorb_true_l, xorb_false_l. reflexivity. }
  assert (S2 : flat_map (fun x => opt_list (eval asg x)) (map (fun g => Entry (hash_entry i false g)) gs) = xs).
  { unfold xs. rewrite flat_map_map. clear. induction gs as [|g gs IH]; [reflexivity|].
    cbn [flat_map map]. rewrite IH. reflexivity. }
  rewrite S1. f_equal. cbn [eval]. destruct (i_all i); cbn [xorb eval]; rewrite S2; destruct xs as [|x xs']; try reflexivity;
    unfold comb; cbn [option_map map]; f_equal.
  - change (negb x :: map negb xs') with (map negb (x :: xs')). apply existsb_negb_forallb.
  - change (negb x :: map negb xs') with (map negb (x :: xs')). apply forallb_negb_existsb'.
Qed.

(* ---------- extract_fields ---------- *)
Lemma extract_docs_of X i : map doc_of (extract_dets X i) = extract_docs X i.
Proof.
  unfold extract_dets, extract_docs. rewrite map_flat_map. apply flat_map_ext. intros v.
  destruct v as [[c s| | | | | | | ]|]; try reflexivity.
  destruct (extract_lookup X s) as [groups|].
  - destruct (extract_group_items X groups) as [|a l]; [reflexivity|]. cbn [map doc_of]. rewrite map_map. reflexivity.
  - destruct (x_preserve X); reflexivity.
Qed.
Lemma extract_touch X i : touch_extract X i = is_repl (extract_item X i).
Proof.
  unfold touch_extract, extract_item. rewrite <- extract_docs_of.
  destruct (forallb is_strv (i_vals i)); [|reflexivity]. destruct (extract_dets X i) as [|x [|y l]]; reflexivity.
Qed.
Lemma extract_exact X i : i_neg i && touch_extract X i = false ->
  map doc_of (rep_list i (extract_item X i)) = opt_list (rw_extract X i).
Proof.
  unfold touch_extract, rw_extract, extract_item. rewrite <- extract_docs_of.
  destruct (forallb is_strv (i_vals i)); [|reflexivity]. cbn [andb].
  destruct (extract_dets X i) as [|x [|y l]]; cbn [map]; intros Hn; try reflexivity;
    rewrite andb_true_r in Hn; rewrite Hn; cbn [rep_list map doc_of opt_list wrap_neg]; destruct (i_all i); reflexivity.
Qed.

(* ---------- one processing item on a rule ---------- *)
Definition afn_of (t : tspec) : option (option str -> fres) :=
  match t with
  | TFieldMap m => Some (afn_mapping m)
  | TPrefixMap m => Some (afn_prefixmap m)
  | TPrefix p => Some (afn_prefix p)
  | TSuffix s => Some (afn_suffix s)
  | _ => None
  end.

(* domain of the semantic theorem, per detection item in the scope of the processing item *)
Definition item_sem_ok (c : conds) (t : tspec) (i : ditem) : bool :=
  negb (im_of c i) ||
  match afn_of t, t with
  | Some afn, _ => kw_ok (fm_of c) afn i
  | None, TReplace tbl => forallb (replace_value_ok (tbl_sub tbl)) (i_vals i)
  | None, TExtract X => negb (i_neg i && touch_extract X i)     (* the negation of the item is lost (D34) *)
  | None, _ => true
  end.
(* domain of the exact theorem *)
Definition item_exact_ok (c : conds) (t : tspec) (i : ditem) : bool :=
  item_sem_ok c t i &&
  negb (im_of c i && match afn_of t, t with
                     | Some afn, _ => many_neg (fm_of c) afn i
                     | None, THashes _ => i_neg i       (* the tree is the De Morgan dual of the rewrite *)
                     | None, _ => false
                     end).

Definition rule_ok (p : ditem -> bool) (r : rule) : bool :=
  forallb (fun d => forall_items p (snd d)) (r_dets r).

(* the value function of a value transformation *)
Definition tv_of (t : tspec) : option (option str -> value -> option (list value)) :=
  match t with
  | TSetValue a => Some (tv_set a)
  | TCase m => Some (tv_case m)
  | TMapString m => Some (tv_mapstring m)
  | TReplace tbl => Some (tv_replace (tbl_sub tbl))
  | TConvertStr => Some tv_convert_str
  | TWildPh k => Some (tv_placeholder k repl_wild)
  | TValuePh k vars => Some (tv_placeholder k (repl_vars vars))
  | TRegex m => Some (tv_regex m)
  | TConvertNum tbl => Some (tv_convert_num tbl)
  | TQueryPh k e m => Some (tv_queryph k e m)
  | _ => None
  end.
(* transformations that replace a whole detection item *)
Definition it_of (t : tspec) : option ((ditem -> rep) * ((ditem -> bool) * (ditem -> option doc))) :=
  match t with
  | THashes H => Some (hashes_item H, (touch_hashes H, rw_hashes H))
  | TExtract X => Some (extract_item X, (touch_extract X, rw_extract X))
  | _ => None
  end.

(* per-detection step of a processing item (everything except add_condition) *)
Definition det_step (c : conds) (t : tspec) : det -> det :=
  match afn_of t, tv_of t, it_of t, t with
  | Some afn, _, _, _ => walk_top (marked (c_id c) (gated (im_of c) (fieldmap_item (fm_of c) afn)))
  | None, Some tv, _, _ => walk_top (marked (c_id c) (gated (im_of c) (value_item tv)))
  | None, None, Some tr, _ => walk_top (marked (c_id c) (gated (im_of c) (fst tr)))
  | None, None, None, TDrop => walk_top (gated (im_of c) drop_item)
  | None, None, None, _ => fun d => d
  end.
Definition is_addcond (t : tspec) : bool := match t with TAddCond _ _ _ => true | _ => false end.

Lemma apply_tspec_dets c t r : is_addcond t = false ->
  r_dets (apply_tspec c t r) = map (fun p => (fst p, det_step c t (snd p))) (r_dets r).
Proof.
  destruct t; try discriminate; intros _; try reflexivity.
  all: cbn [apply_tspec det_step afn_of tv_of it_of r_dets]; rewrite map_ext with (g := fun p => p);
    [rewrite map_id; reflexivity | intros [a b]; reflexivity].
Qed.

Lemma subst_same r : (forall i, r i = Some (Entry i)) -> forall d, subst r d = [d].
Proof.
  intros H. induction d as [i | l IH | l IH | d IH] using doc_ind'; cbn [subst opt_list map].
  - rewrite H. reflexivity.
  - f_equal. f_equal. induction IH as [|x l' Hx _ IHl]; [reflexivity|]. cbn [flat_map]. rewrite Hx, IHl. reflexivity.
  - f_equal. f_equal. induction IH as [|x l' Hx _ IHl]; [reflexivity|]. cbn [flat_map]. rewrite Hx, IHl. reflexivity.
  - rewrite IH. reflexivity.
Qed.
Lemma subst_top_same r : (forall i, r i = Some (Entry i)) -> forall d, subst_top r d = d.
Proof.
  intros H d.
  assert (G : forall l, flat_map (subst r) l = l).
  { induction l as [|x l IH]; [reflexivity|]. cbn [flat_map]. rewrite (subst_same r H), IH. reflexivity. }
  destruct d; cbn [subst_top]; rewrite ?G; reflexivity.
Qed.
Lemma scoped_ident im d : subst_top (scoped im (fun i => Some (Entry i))) d = d.
Proof. apply subst_top_same. intros i. unfold scoped. destruct (im i); reflexivity. Qed.

(* the documented rewrite of the two walking families *)
Lemma rw_tspec_rename c t afn : afn_of t = Some afn ->
  rw_tspec c t = scoped (im_of c) (smarked (c_id c) (touch_rename (fm_of c) afn) (rw_rename (fm_of c) afn)).
Proof. destruct t; try discriminate; intros E; inversion E; reflexivity. Qed.
Definition tvs_spec (t : tspec) (tv : option str -> value -> option (list value)) : option str -> value -> list value :=
  match t with TReplace tbl => tvs_replace (tbl_sub tbl) | _ => tvs_of tv end.
Lemma rw_tspec_values c t tv : tv_of t = Some tv ->
  rw_tspec c t = scoped (im_of c) (smarked (c_id c) (touch_values tv) (rw_values (tvs_spec t tv))).
Proof. destruct t; try discriminate; intros E; inversion E; reflexivity. Qed.
Lemma afn_tv_disjoint t afn : afn_of t = Some afn -> tv_of t = None.
Proof. destruct t; try discriminate; reflexivity. Qed.
Lemma rw_tspec_it c t tr : it_of t = Some tr ->
  rw_tspec c t = scoped (im_of c) (smarked (c_id c) (fst (snd tr)) (snd (snd tr))).
Proof. destruct t; try discriminate; intros E; inversion E; reflexivity. Qed.

(* exact agreement of one step on one detection *)
Lemma det_step_exact c t d : is_addcond t = false ->
  forall_items (item_exact_ok c t) d = true ->
  doc_of (det_step c t d) = subst_top (rw_tspec c t) (doc_of d).
Proof.
  intros Ha Hok. unfold det_step.
  destruct (afn_of t) as [afn|] eqn:Ef.
  - rewrite (rw_tspec_rename c t afn Ef).
    apply (walk_top_exact (item_exact_ok c t)); [|exact Hok].
    intros i Hi. apply layer_exact. intros Him.
    unfold item_exact_ok, item_sem_ok in Hi. rewrite Ef, Him in Hi. cbn [negb orb andb] in Hi.
    apply andb_true_iff in Hi. destruct Hi as [H1 H2]. apply negb_true_iff in H2.
    split; [apply fieldmap_exact; assumption | apply fieldmap_touch].
  - destruct (tv_of t) as [tv|] eqn:Et.
    + rewrite (rw_tspec_values c t tv Et).
      apply (walk_top_exact (item_exact_ok c t)); [|exact Hok].
      intros i Hi. apply layer_exact. intros Him. split; [|apply value_touch].
      destruct t; try discriminate Et; inversion Et; subst tv; cbn [tvs_spec]; try apply value_item_exact.
      apply value_item_exact_on. intros v Hv.
      unfold item_exact_ok, item_sem_ok in Hi. cbn [afn_of] in Hi. rewrite Him in Hi. cbn [negb orb andb] in Hi.
      rewrite andb_true_r in Hi. apply replace_value_agree. rewrite forallb_forall in Hi. apply Hi, Hv.
    + destruct (it_of t) as [tr|] eqn:Ei.
      { rewrite (rw_tspec_it c t tr Ei).
        apply (walk_top_exact (item_exact_ok c t)); [|exact Hok].
        intros i Hi. apply layer_exact. intros Him.
        unfold item_exact_ok, item_sem_ok in Hi. rewrite Ef, Him in Hi. cbn [negb orb andb] in Hi.
        destruct t; try discriminate Ei; inversion Ei; subst tr; cbn [fst snd].
        - rewrite andb_true_l in Hi. apply negb_true_iff in Hi. split; [apply hashes_exact, Hi | apply hashes_touch].
        - rewrite andb_true_r in Hi. apply negb_true_iff in Hi. split; [apply extract_exact, Hi | apply extract_touch]. }
      destruct t; try discriminate Ha; try discriminate Ef; try discriminate Et; try discriminate Ei.
      1: { (* drop *) apply (walk_top_exact (fun _ => true)).
           - intros i _. apply gated_exact. reflexivity.
           - apply forall_items_true. }
      all: (* transformations of rule-level attributes only *) symmetry; apply scoped_ident.
Qed.

(* semantic agreement of one step on one detection (also for negated one-to-many mappings) *)
Lemma det_step_sem asg c t d : is_addcond t = false ->
  forall_items (item_sem_ok c t) d = true ->
  sem asg (det_step c t d) = eval asg (subst_top (rw_tspec c t) (doc_of d)).
Proof.
  intros Ha Hok.
  destruct (afn_of t) as [afn|] eqn:Ef.
  - assert (E1 : det_step c t = walk_top (marked (c_id c) (gated (im_of c) (fieldmap_item (fm_of c) afn)))).
    { unfold det_step. rewrite Ef. reflexivity. }
    rewrite E1, (rw_tspec_rename c t afn Ef). apply (walk_top_sem asg (item_sem_ok c t)); [|exact Hok].
    intros i Hi. apply layer_sem. intros Him. apply fieldmap_sem.
    unfold item_sem_ok in Hi. rewrite Ef, Him in Hi. exact Hi.
  - destruct (match t with THashes _ => true | _ => false end) eqn:Eh.
    + (* hashes_fields: semantic agreement also for negated items *)
      destruct t; try discriminate Eh.
      assert (E1 : det_step c (THashes H) = walk_top (marked (c_id c) (gated (im_of c) (hashes_item H)))) by reflexivity.
      rewrite E1, (rw_tspec_it c (THashes H) _ eq_refl). cbn [fst snd].
      apply (walk_top_sem asg (fun _ => true)); [|apply forall_items_true].
      intros i _. apply layer_sem. intros _. apply hashes_sem.
    + rewrite <- eval_doc_of. f_equal. apply det_step_exact; [exact Ha|].
      assert (Hs : forall i, item_sem_ok c t i = true -> item_exact_ok c t i = true).
      { intros i Hi. unfold item_exact_ok. rewrite Hi, Ef. destruct t; try discriminate Eh; rewrite andb_false_r; reflexivity. }
      clear Ha. induction d as [i | l land IH] using det_ind'; cbn [forall_items] in *; [apply Hs, Hok|].
      rewrite forallb_forall in *. intros x Hx. rewrite Forall_forall in IH. apply IH; [exact Hx | apply Hok, Hx].
Qed.

(* ---------- rules and pipelines ---------- *)
Lemma dict_set_map {A B} (f : A -> B) k v l :
  map (fun p => (fst p, f (snd p))) (dict_set k v l) = dict_set k (f v) (map (fun p => (fst p, f (snd p))) l).
Proof.
  induction l as [|[k' v'] l IH]; [reflexivity|]. cbn [dict_set map fst snd].
  destruct (str_eqb k k'); [reflexivity|]. cbn [map fst snd]. rewrite IH. reflexivity.
Qed.
Lemma rewrite_tspec_nonadd c t ds : is_addcond t = false ->
  rewrite_tspec c t ds = map (fun p => (fst p, subst_top (rw_tspec c t) (snd p))) ds.
Proof. destruct t; try discriminate; reflexivity. Qed.

Definition rule_exact_ok (c : conds) (t : tspec) (r : rule) : bool :=
  is_addcond t || rule_ok (item_exact_ok c t) r.
Definition rule_sem_ok (c : conds) (t : tspec) (r : rule) : bool :=
  is_addcond t || rule_ok (item_sem_ok c t) r.

Theorem tspec_exact c t r : rule_exact_ok c t r = true ->
  rdocs_of (apply_tspec c t r) = rewrite_tspec c t (rdocs_of r).
Proof.
  unfold rule_exact_ok. destruct (is_addcond t) eqn:Ea.
  - intros _. destruct t; try discriminate Ea. unfold rdocs_of. cbn [apply_tspec r_dets rewrite_tspec].
    rewrite <- doc_of_mark. apply (dict_set_map doc_of).
  - cbn [orb]. intros Hok. rewrite (rewrite_tspec_nonadd _ _ _ Ea). unfold rdocs_of.
    rewrite (apply_tspec_dets _ _ _ Ea), !map_map. cbn [fst snd].
    apply map_ext_in. intros [n d] Hin. cbn [fst snd]. f_equal.
    apply det_step_exact; [exact Ea|]. unfold rule_ok in Hok. rewrite forallb_forall in Hok.
    apply (Hok _ Hin).
Qed.

Definition meanings (asg : option str -> aval -> bool) (r : rule) : list (str * option bool) :=
  map (fun p => (fst p, sem asg (snd p))) (r_dets r).
Definition doc_meanings (asg : option str -> aval -> bool) (ds : rdocs) : list (str * option bool) :=
  map (fun p => (fst p, eval asg (snd p))) ds.

Lemma doc_meanings_of asg r : doc_meanings asg (rdocs_of r) = meanings asg r.
Proof.
  unfold doc_meanings, rdocs_of, meanings. rewrite map_map. apply map_ext. intros p. cbn [fst snd].
  rewrite eval_doc_of. reflexivity.
Qed.

Theorem tspec_sem asg c t r : rule_sem_ok c t r = true ->
  meanings asg (apply_tspec c t r) = doc_meanings asg (rewrite_tspec c t (rdocs_of r)).
Proof.
  unfold rule_sem_ok. destruct (is_addcond t) eqn:Ea.
  - intros _. rewrite <- doc_meanings_of. f_equal. apply tspec_exact. unfold rule_exact_ok. rewrite Ea. reflexivity.
  - cbn [orb]. intros Hok. rewrite (rewrite_tspec_nonadd _ _ _ Ea). unfold rdocs_of, meanings, doc_meanings.
    rewrite (apply_tspec_dets _ _ _ Ea), !map_map. cbn [fst snd].
    apply map_ext_in. intros [n d] Hin. cbn [fst snd]. f_equal.
    apply det_step_sem; [exact Ea|]. unfold rule_ok in Hok. rewrite forallb_forall in Hok.
    apply (Hok _ Hin).
Qed.

Lemma r_dets_mark_rule id r : r_dets (mark_rule id r) = r_dets r.
Proof. destruct id; reflexivity. Qed.
Lemma rdocs_of_mark_rule id r : rdocs_of (mark_rule id r) = rdocs_of r.
Proof. unfold rdocs_of. rewrite r_dets_mark_rule. reflexivity. Qed.
Lemma meanings_mark_rule asg id r : meanings asg (mark_rule id r) = meanings asg r.
Proof. unfold meanings. rewrite r_dets_mark_rule. reflexivity. Qed.

Definition item_step_ok (it : conds * tspec) (r : rule) : bool :=
  negb (c_rule (fst it)) || rule_exact_ok (fst it) (snd it) r.
Fixpoint items_exact_ok (its : list (conds * tspec)) (r : rule) : bool :=
  match its with
  | [] => true
  | it :: rest => item_step_ok it r && items_exact_ok rest (apply_item it r)
  end.
Definition pitem_exact_ok (p : pitem) (r : rule) : bool :=
  match p with
  | PItem c t => item_step_ok (c, t) r
  | PNest c items => negb (c_rule c) || items_exact_ok items (mark_rule (c_id c) r)
  end.
Fixpoint pipeline_exact_ok (ps : list pitem) (r : rule) : bool :=
  match ps with
  | [] => true
  | p :: rest => pitem_exact_ok p r && pipeline_exact_ok rest (apply_pitem p r)
  end.

Lemma item_exact it r : item_step_ok it r = true -> rdocs_of (apply_item it r) = rewrite_item it (rdocs_of r).
Proof.
  unfold item_step_ok, apply_item, rewrite_item. destruct (c_rule (fst it)); [|reflexivity].
  cbn [negb orb]. intros H. rewrite rdocs_of_mark_rule. apply tspec_exact, H.
Qed.
Lemma items_exact its : forall r, items_exact_ok its r = true ->
  rdocs_of (fold_left (fun r it => apply_item it r) its r) = fold_left (fun ds it => rewrite_item it ds) its (rdocs_of r).
Proof.
  induction its as [|it its IH]; intros r H; [reflexivity|]. cbn [items_exact_ok] in H.
  apply andb_true_iff in H. destruct H as [H1 H2]. cbn [fold_left]. rewrite (IH _ H2), (item_exact _ _ H1). reflexivity.
Qed.
Lemma pitem_exact p r : pitem_exact_ok p r = true -> rdocs_of (apply_pitem p r) = rewrite_pitem p (rdocs_of r).
Proof.
  destruct p as [c t | c items]; cbn [pitem_exact_ok apply_pitem rewrite_pitem].
  - apply item_exact.
  - destruct (c_rule c); [|reflexivity]. cbn [negb orb]. intros H.
    rewrite (items_exact items _ H), rdocs_of_mark_rule. reflexivity.
Qed.
Theorem pipeline_exact ps : forall r, pipeline_exact_ok ps r = true ->
  rdocs_of (apply_pipeline ps r) = rewrite_pipeline ps (rdocs_of r).
Proof.
  unfold apply_pipeline, rewrite_pipeline.
  induction ps as [|p ps IH]; intros r H; [reflexivity|]. cbn [pipeline_exact_ok] in H.
  apply andb_true_iff in H. destruct H as [H1 H2]. cbn [fold_left]. rewrite (IH _ H2), (pitem_exact _ _ H1). reflexivity.
Qed.

(* the domain used by the correspondence check (bit 4): one item - the semantic theorem; chains and
   nested pipelines - the exact theorem at every step *)
Definition pipeline_ok (ps : list pitem) (r : rule) : bool :=
  match ps with
  | [PItem c t] => negb (c_rule c) || rule_sem_ok c t r
  | _ => pipeline_exact_ok ps r
  end.

Theorem pipeline_sem ps r : pipeline_ok ps r = true ->
  forall asg, meanings asg (apply_pipeline ps r) = doc_meanings asg (rewrite_pipeline ps (rdocs_of r)).
Proof.
  intros H asg.
  assert (G : pipeline_exact_ok ps r = true ->
              meanings asg (apply_pipeline ps r) = doc_meanings asg (rewrite_pipeline ps (rdocs_of r))).
  { intros He. rewrite <- doc_meanings_of. f_equal. apply pipeline_exact, He. }
  destruct ps as [|[c t | c items] [|q ps]]; try (apply G; exact H).
  unfold pipeline_ok in H. unfold apply_pipeline, rewrite_pipeline. cbn [fold_left apply_pitem rewrite_pitem].
  unfold apply_item, rewrite_item. cbn [fst snd]. destruct (c_rule c).
  - cbn [negb orb] in H. rewrite meanings_mark_rule. apply tspec_sem, H.
  - symmetry. apply doc_meanings_of.
Qed.

(* ---------- identity instances ---------- *)
Lemma walk_same tr : (forall i, rep_list i (tr i) = [DI i]) -> forall d, walk tr d = [d].
Proof.
  intros H. induction d as [i | l land IH] using det_ind'.
  - rewrite walk_DI. apply H.
  - cbn [walk]. f_equal. f_equal. induction IH as [|x l' Hx _ IHl]; [reflexivity|].
    cbn [flat_map]. rewrite Hx, IHl. reflexivity.
Qed.
Lemma walk_top_same tr : (forall i, rep_list i (tr i) = [DI i]) -> forall d, walk_top tr d = d.
Proof.
  intros H [i | l land]; [reflexivity|]. cbn [walk_top]. f_equal.
  induction l as [|x l IH]; [reflexivity|]. cbn [flat_map]. rewrite (walk_same tr H), IH. reflexivity.
Qed.
Lemma map_dets_id f r : (forall d, f d = d) -> map_dets f r = r.
Proof.
  intros H. destruct r as [ds c fs ats]. unfold map_dets. cbn [r_dets r_cond r_fields r_attrs]. f_equal.
  induction ds as [|[n d] ds IH]; [reflexivity|]. cbn [map fst snd]. rewrite H, IH. reflexivity.
Qed.
Lemma marked_keep id im tr i : im i = false -> rep_list i (marked id (gated im tr) i) = [DI i].
Proof. intros H. unfold marked, gated. rewrite H. reflexivity. Qed.

(* a processing item whose detection item / field name conditions match no item *)
Definition is_rule_level (t : tspec) : bool :=
  match t with
  | TChangeLogsource _ _ _ | TSetCustom _ _ | TSetState _ _ | TAddField _ | TRemoveField _ | TSetField _ => true
  | _ => false
  end.
Lemma identity_scope c t r : is_addcond t = false -> is_rule_level t = false -> afn_of t = None ->
  (forall i, im_of c i = false) -> apply_tspec c t r = r.
Proof.
  intros Ha Hr Hf Him.
  assert (G : forall tr, map_dets (walk_top (marked (c_id c) (gated (im_of c) tr))) r = r).
  { intros tr. apply map_dets_id. apply walk_top_same. intros i. apply marked_keep, Him. }
  destruct t; try discriminate; cbn [apply_tspec]; unfold apply_values; try apply G; try reflexivity.
  apply map_dets_id. apply walk_top_same. intros i. unfold gated. rewrite Him. reflexivity.
Qed.

(* value transformations that return "no change" for every value (empty map_string mapping, placeholder
   transformation whose include list names no placeholder of the rule, ...) *)
Lemma identity_values c tv r : (forall f v, tv f v = None) -> apply_values c tv r = r.
Proof.
  intros H. unfold apply_values. apply map_dets_id. apply walk_top_same. intros i. unfold marked, gated.
  destruct (im_of c i); [|reflexivity]. unfold value_item.
  assert (E : existsb (fun p => is_some (snd p)) (map (fun v => (v, tv (i_field i) v)) (i_vals i)) = false).
  { induction (i_vals i) as [|v vs IH]; [reflexivity|]. cbn [map existsb snd]. rewrite H, IH. reflexivity. }
  rewrite E. reflexivity.
Qed.

(* semantic identity: a walk / a rewrite that replaces every item by something of the same meaning *)
Lemma sems_marked asg id tr i : sems asg (rep_list i (marked id tr i)) = sems asg (rep_list i (tr i)).
Proof.
  unfold marked. destruct (tr i); try reflexivity. unfold sems. cbn [rep_list flat_map]. rewrite sem_mark. reflexivity.
Qed.
Lemma walk_top_sem_same asg tr :
  (forall i, sems asg (rep_list i (tr i)) = [sem_item asg i]) -> forall d, sem asg (walk_top tr d) = sem asg d.
Proof.
  intros H d. rewrite (walk_top_sem asg (fun _ => true) tr (fun i => Some (Entry i))).
  - rewrite subst_top_same by reflexivity. apply eval_doc_of.
  - intros i _. apply H.
  - apply forall_items_true.
Qed.
Lemma evals_map_neg asg l : evals asg (map Neg l) = map negb (evals asg l).
Proof.
  induction l as [|x l IH]; [reflexivity|]. unfold evals in *. cbn [map flat_map eval]. rewrite IH.
  destruct (eval asg x); reflexivity.
Qed.
Lemma subst_sem_same asg r : (forall i, evals asg (opt_list (r i)) = [sem_item asg i]) ->
  forall d, evals asg (subst r d) = opt_list (eval asg d).
Proof.
  intros H. induction d as [i | l IH | l IH | d IH] using doc_ind'; cbn [subst].
  - apply H.
  - unfold evals at 1. cbn [flat_map eval]. rewrite app_nil_r. f_equal. f_equal.
    fold (evals asg (flat_map (subst r) l)). rewrite evals_flat_map. apply flat_map_ext_Forall. exact IH.
  - unfold evals at 1. cbn [flat_map eval]. rewrite app_nil_r. f_equal. f_equal.
    fold (evals asg (flat_map (subst r) l)). rewrite evals_flat_map. apply flat_map_ext_Forall. exact IH.
  - rewrite evals_map_neg, IH. cbn [eval]. destruct (eval asg d); reflexivity.
Qed.
Lemma subst_top_sem_same asg r : (forall i, evals asg (opt_list (r i)) = [sem_item asg i]) ->
  forall d, eval asg (subst_top r d) = eval asg d.
Proof.
  intros H d.
  assert (G : forall l, evals asg (flat_map (subst r) l) = evals asg l).
  { intros l. rewrite evals_flat_map. unfold evals at 2. apply flat_map_ext. intros x. apply subst_sem_same, H. }
  destruct d; cbn [subst_top eval]; try reflexivity; fold (evals asg (flat_map (subst r) l)); fold (evals asg l); rewrite G; reflexivity.
Qed.

(* field name mappings that map nothing (empty mapping, no matching prefix): same meaning of every
   detection (items holding field references are still marked as processed), condition and fields unchanged *)
Lemma fieldmap_item_none fm afn i : (forall f, afn f = FNone) -> rep_list i (fieldmap_item fm afn i) = [DI i].
Proof.
  intros H. unfold fieldmap_item. rewrite H. cbn [fres_some andb].
  pose proof (vals1_eq fm afn (i_vals i)) as E.
  destruct (existsb snd (map (map_ref fm afn) (i_vals i))); [|reflexivity].
  cbn [rep_list]. rewrite E.
  assert (R : flat_map (rename_ref fm afn) (i_vals i) = i_vals i).
  { clear E. induction (i_vals i) as [|v vs IH]; [reflexivity|]. cbn [flat_map]. rewrite IH.
    destruct v as [[ | | | |? ?|g sw ew|? ?| ]|]; try reflexivity.
    unfold rename_ref, targets. rewrite H. destruct (fm (Some g)); reflexivity. }
  rewrite R, ditem_eta. reflexivity.
Qed.
Lemma identity_fieldmap asg c afn r : (forall f, afn f = FNone) ->
  meanings asg (apply_fieldmap c afn r) = meanings asg r /\
  r_cond (apply_fieldmap c afn r) = r_cond r /\ r_fields (apply_fieldmap c afn r) = r_fields r.
Proof.
  intros H. unfold apply_fieldmap. cbn [r_cond r_fields]. split; [|split; [reflexivity|]].
  - unfold meanings, map_dets. cbn [r_dets]. rewrite map_map. apply map_ext. intros [n d]. cbn [fst snd]. f_equal.
    apply walk_top_sem_same. intros i. rewrite sems_marked. unfold gated. destruct (im_of c i); [|reflexivity].
    rewrite (fieldmap_item_none _ _ _ H). reflexivity.
  - unfold fieldmap_fields. induction (r_fields r) as [|f fs IH]; [reflexivity|]. cbn [flat_map]. rewrite IH.
    unfold afn_list. rewrite H. reflexivity.
Qed.

(* identity instance of replace_string: a substitution that changes no plain form *)
Lemma rw_replace_id asg c sub i : (forall p, sub p = p) ->
  evals asg (opt_list (scoped (im_of c) (smarked (c_id c) (touch_values (tv_replace sub)) (rw_values (tvs_replace sub))) i))
  = [sem_item asg i].
Proof.
  intros H. unfold scoped. destruct (im_of c i); [|reflexivity]. unfold smarked, rw_values.
  assert (E : flat_map (tvs_replace sub (i_field i)) (i_vals i) = i_vals i).
  { induction (i_vals i) as [|v vs IH]; [reflexivity|]. cbn [flat_map]. rewrite IH.
    destruct v as [[c0 s|n| | | | | | ]|]; try reflexivity; unfold tvs_replace; rewrite H, str_eqb_refl; reflexivity. }
  rewrite E, ditem_eta. destruct (touch_values (tv_replace sub) i); unfold evals; cbn [option_map opt_list flat_map eval mark_doc];
    rewrite ?sem_item_mark; reflexivity.
Qed.
Theorem identity_replace asg c tbl r :
  (forall p, tbl_sub tbl p = p) ->
  rule_ok (item_sem_ok c (TReplace tbl)) r = true ->
  meanings asg (apply_tspec c (TReplace tbl) r) = meanings asg r.
Proof.
  intros Hs Hok. rewrite tspec_sem by (unfold rule_sem_ok; rewrite Hok; apply orb_true_r).
  cbn [rewrite_tspec]. rewrite <- doc_meanings_of. unfold doc_meanings. rewrite map_map. apply map_ext.
  intros [n d]. cbn [fst snd]. f_equal. apply subst_top_sem_same. intros i.
  apply (rw_replace_id asg c (tbl_sub tbl) i Hs).
Qed.

(* ---------- refutations (replayed against the real code by the correspondence corpus) ---------- *)
Definition no_conds : conds := mkC None true [] false [] false [] false.
Definition asg_num (_ : option str) (a : aval) : bool := match a with ANum _ => true | _ => false end.
Definition kwnum_rule : rule := mkR [([115], DD [DI (mkI None [V (ANum [49])] false false [])] true)] [115] [].
Lemma keyword_number_refuted :
  exists asg c t r, meanings asg (apply_tspec c t r) <> doc_meanings asg (rewrite_tspec c t (rdocs_of r)).
Proof.
  exists asg_num, no_conds, (TFieldMap [(None, FOne [109])]), kwnum_rule. vm_compute. discriminate.
Qed.
Definition num_rule : rule := mkR [([115], DD [DI (mkI (Some [103]) [V (ANum [49; 50; 51])] false false [])] true)] [115] [].
Lemma replace_number_refuted :
  exists asg c r, meanings asg (apply_tspec c (TReplace []) r) <> meanings asg r.
Proof. exists asg_num, no_conds, num_rule. vm_compute. discriminate. Qed.
(* x, backslash, wildcard *)
Definition bswild_rule : rule :=
  mkR [([115], DD [DI (mkI (Some [104]) [V (AStr false [PStr [120; 92]; PMulti])] false false [])] true)] [115] [].
Definition asg_wild (_ : option str) (a : aval) : bool :=
  match a with AStr _ s => contains_special s | _ => false end.
Lemma replace_bswild_refuted :
  exists asg c r, meanings asg (apply_tspec c (TReplace []) r) <> meanings asg r.
Proof. exists asg_wild, no_conds, bswild_rule. vm_compute. discriminate. Qed.

(* the repaired one-to-many mapping of a negated item: f|neq: v with f -> [a, b] means not (a=v or b=v) *)
Definition neq_rule : rule := mkR [([115], DD [DI (mkI (Some [102]) [V (AStr false [PStr [118]])] false true [])] true)] [115] [].
Lemma onetomany_neq_example asg :
  meanings asg (apply_tspec no_conds (TFieldMap [(Some [102], FMany [[97]; [98]])]) neq_rule)
  = [([115], Some (negb (asg (Some [97]) (AStr false [PStr [118]]) || asg (Some [98]) (AStr false [PStr [118]]))))].
Proof.
  vm_compute. repeat match goal with |- context [asg ?a ?b] => destruct (asg a b) end; reflexivity.
Qed.

(* a later item scoped by processing_item_applied sees the marks of an earlier one also on the copies of a
   one-to-many mapping (fix ab135a8): case A; f -> [x, y] B; set_value Z if A applied *)
Definition chain_rule : rule := mkR [([115], DD [DI (mkI (Some [102]) [V (AStr false [PStr [118]])] false false [])] true)] [115] [].
Definition cA := mkC (Some [65]) true [] false [] false [] false.
Definition cC := mkC (Some [67]) true [] false [] false [IApplied [65]] false.
Lemma chain_marks_example :
  pipeline_ok [PItem cA (TCase CUpper); PItem no_conds (TFieldMap [(Some [102], FMany [[120]; [121]])]);
               PItem cC (TSetValue (ANum [49]))] chain_rule = true /\
  rdocs_of (apply_pipeline [PItem cA (TCase CUpper); PItem no_conds (TFieldMap [(Some [102], FMany [[120]; [121]])]);
                            PItem cC (TSetValue (ANum [49]))] chain_rule)
  = [([115], All [Any [Entry (mkI (Some [120]) [V (ANum [49])] false false [[67]; [65]]);
                       Entry (mkI (Some [121]) [V (ANum [49])] false false [[67]; [65]])]])].
Proof. split; vm_compute; reflexivity. Qed.

(* extract_fields drops the negation of the item it replaces (D34): r|neq: a, regex (?P<g>a) *)
Definition xneg_rule : rule := mkR [([115], DD [DI (mkI (Some [114]) [V (AStr false [PStr [97]])] false true [])] true)] [115] [].
Definition xneg_cfg : xcfg := mkX None false [([97], Some [([103], Some [97])])] [].
Lemma extract_negated_refuted :
  exists asg c t r, meanings asg (apply_tspec c t r) <> doc_meanings asg (rewrite_tspec c t (rdocs_of r)).
Proof. exists (fun _ _ => true), no_conds, (TExtract xneg_cfg), xneg_rule. vm_compute. discriminate. Qed.

(* hashes_fields: [MD5=a, SHA1=b, MD5=c] with all three algorithms valid gives FileMD5: [a, c], FileSHA1: b *)
Definition hashes_rule : rule :=
  mkR [([115], DD [DI (mkI (Some [72]) [V (AStr false [PStr [77; 68; 53; 61; 97]]); V (AStr false [PStr [83; 72; 65; 49; 61; 98]]);
                                        V (AStr false [PStr [77; 68; 53; 61; 99]])] false false [])] true)] [115] [].
Definition hashes_cfg : hcfg := mkH [s_md5; s_sha1] [70] false [[72]].
Lemma hashes_interleaved_example :
  rdocs_of (apply_tspec no_conds (THashes hashes_cfg) hashes_rule)
  = [([115], All [Any [Entry (mkI (Some [70; 77; 68; 53]) [V (AStr false [PStr [97]]); V (AStr false [PStr [99]])] false false []);
                       Entry (mkI (Some [70; 83; 72; 65; 49]) [V (AStr false [PStr [98]])] false false [])]])].
Proof. vm_compute. reflexivity. Qed.

(* ---------- rule-level attributes ---------- *)
(* change_logsource replaces the log source by exactly the given attributes (omitted ones are cleared),
   set_custom_attribute / set_state set one key; detections, condition and fields list are untouched *)
Lemma change_logsource_exact c c0 p s r :
  let r' := apply_tspec c (TChangeLogsource c0 p s) r in
  a_logsource (r_attrs r') = (c0, (p, s)) /\ r_dets r' = r_dets r /\ r_cond r' = r_cond r /\ r_fields r' = r_fields r /\
  a_custom (r_attrs r') = a_custom (r_attrs r) /\ a_state (r_attrs r') = a_state (r_attrs r).
Proof. cbn. repeat split. Qed.
(* a follower scoped by a logsource rule condition on an omitted attribute does not apply:
   logsource {category: process_creation, product: windows}; change_logsource service: sysmon; condition product: windows *)
Definition ls_rule : rule :=
  mkRule [([115], DD [DI (mkI (Some [102]) [V (AStr false [PStr [118]])] false false [])] true)] [115] []
         (mkA (Some [112; 99], (Some [119; 105; 110], None)) [] [] []).
Definition c_win : conds := mkC (Some [70]) false [RLogsource None (Some [119; 105; 110]) None] false [] false [] false.
Lemma change_logsource_follower_example :
  rules_consistent [PItem no_conds (TChangeLogsource None None (Some [115; 121; 115])); PItem c_win (TPrefix [119; 46])] ls_rule = true /\
  r_dets (apply_pipeline [PItem no_conds (TChangeLogsource None None (Some [115; 121; 115])); PItem c_win (TPrefix [119; 46])] ls_rule)
  = r_dets ls_rule.
Proof. split; vm_compute; reflexivity. Qed.

(* keyword entry with the all modifier mapped to two fields: '|all': [a, b*] with null -> [m, r] is
   any of [{m|contains|all: [a, b*]}, {r|contains|all: [a, b*]}] *)
Definition kwall_rule : rule :=
  mkR [([115], DD [DI (mkI None [V (AStr false [PStr [97]]); V (AStr false [PStr [98]; PMulti])] true false [])] true)] [115] [].
Lemma keyword_all_example :
  rdocs_of (apply_tspec no_conds (TFieldMap [(None, FMany [[109]; [114]])]) kwall_rule)
  = [([115], All [Any [Entry (mkI (Some [109]) [V (AStr false [PMulti; PStr [97]; PMulti]); V (AStr false [PMulti; PStr [98]; PMulti])] true false []);
                       Entry (mkI (Some [114]) [V (AStr false [PMulti; PStr [97]; PMulti]); V (AStr false [PMulti; PStr [98]; PMulti])] true false [])]])]
  /\ rdocs_of (apply_tspec no_conds (TFieldMap [(None, FMany [[109]; [114]])]) kwall_rule)
     = rewrite_tspec no_conds (TFieldMap [(None, FMany [[109]; [114]])]) (rdocs_of kwall_rule).
Proof. split; vm_compute; reflexivity. Qed.
