(* Proofs for C18 (CIDR expansion). *)
From Coq Require Import NArith List Bool Lia.
From PS Require Import Base.Chars Base.Outcome Model.SString Spec.Items Model.Cidr Spec.Net.
Import ListNotations.
Open Scope N_scope.

(* ------------------------------------------------------------------ IPv6: the coverage statement is false *)
(* 2001:db8::/64 expands to the single pattern "2001:db8::", which does not match 2001:db8::1 *)
Lemma v6_cover_refuted :
  exists a len x pats,
    wf_net 128 a len /\ in_net 128 a len x /\
    expand6 a len None = Ok pats /\ covered pats (show6 x) = false.
Proof.
  exists 42540766411282592856903984951653826560, 64, 42540766411282592856903984951653826561.
  eexists. split; [|split; [|split]].
  - unfold wf_net. repeat split; try (vm_compute; congruence).
  - unfold in_net. split; vm_compute; congruence.
  - vm_compute. reflexivity.
  - vm_compute. reflexivity.
Qed.
