(* Proofs for C18 (CIDR expansion). *)
From Coq Require Import NArith Arith List Bool Lia ZifyBool.
From PS Require Import Base.Chars Base.Outcome Model.SString Spec.Items Model.Cidr Spec.Net.
Import ListNotations.
Open Scope N_scope.
Arguments N.mul : simpl never.
Arguments N.add : simpl never.
Arguments N.pow : simpl never.

(* ------------------------------------------------------------------ wildcard matching of plain text *)
Definition plainc (c : char) : bool := negb (is_special c) && negb (N.eqb c c_bs).

Lemma iparse_plain_app x r : forallb plainc x = true -> iparse (x ++ r) = map Lit x ++ iparse r.
Proof.
  induction x as [|a x IH]; intros H; [reflexivity|].
  cbn [forallb] in H. apply andb_true_iff in H. destruct H as [Ha Hx].
  unfold plainc in Ha. apply andb_true_iff in Ha. destruct Ha as [H1 H2].
  apply negb_true_iff in H1. apply negb_true_iff in H2.
  cbn [app iparse map]. rewrite H2, H1. f_equal. exact (IH Hx).
Qed.

Lemma wild_lit_app x q t :
  wild_match (map Lit x ++ q) t = true <-> exists t', t = x ++ t' /\ wild_match q t' = true.
Proof.
  revert t. induction x as [|a x IH]; intros t; cbn [map app].
  - split; [intros H; exists t; auto | intros [t' [-> H]]; exact H].
  - cbn [wild_match]. destruct t as [|b t].
    + split; [discriminate | intros [t' [H _]]; discriminate].
    + rewrite andb_true_iff, N.eqb_eq, IH. split.
      * intros [-> [t' [-> H]]]. exists t'. auto.
      * intros [t' [E H]]. inversion E; subst. split; [reflexivity | exists t'; auto].
Qed.

Lemma wild_star t : wild_match [Multi] t = true.
Proof. induction t as [|a t IH]; [reflexivity|]. cbn in *. exact IH. Qed.

Lemma wild_nil t : wild_match [] t = true <-> t = [].
Proof. destruct t; cbn; split; congruence. Qed.

Lemma wild_lits x t : wild_match (map Lit x) t = true <-> t = x.
Proof.
  rewrite <- (app_nil_r (map Lit x)), wild_lit_app. split.
  - intros [t' [-> H]]. apply wild_nil in H. subst. apply app_nil_r.
  - intros ->. exists []. split; [symmetry; apply app_nil_r | reflexivity].
Qed.

(* ------------------------------------------------------------------ nseq *)
Lemma In_nseq n o : In o (nseq n) <-> o < n.
Proof.
  unfold nseq. rewrite in_map_iff. split.
  - intros [k [<- Hk]]. apply in_seq in Hk. lia.
  - intros H. exists (N.to_nat o). split; [apply N2Nat.id | apply in_seq; lia].
Qed.

(* ------------------------------------------------------------------ decimal octet text followed by '.' is prefix-free *)
Definition dotdec (o : N) : str := dec3 o ++ [c_dot].

Definition pf_check : bool :=
  forallb (fun x => forallb (fun y => (x =? y) || negb (prefixb (dotdec x) (dotdec y))) (nseq 256)) (nseq 256).
Lemma pf_check_ok : pf_check = true.
Proof. vm_compute. reflexivity. Qed.

Lemma dotdec_prefix_free x y : x < 256 -> y < 256 -> prefixb (dotdec x) (dotdec y) = true -> x = y.
Proof.
  intros Hx Hy H. pose proof pf_check_ok as C. unfold pf_check in C.
  rewrite forallb_forall in C. specialize (C x (proj2 (In_nseq _ _) Hx)).
  rewrite forallb_forall in C. specialize (C y (proj2 (In_nseq _ _) Hy)).
  rewrite H in C. cbn in C. rewrite orb_false_r in C. apply N.eqb_eq in C. exact C.
Qed.

Lemma dotdec_inj x y r1 r2 : x < 256 -> y < 256 -> dotdec x ++ r1 = dotdec y ++ r2 -> x = y /\ r1 = r2.
Proof.
  intros Hx Hy E.
  assert (x = y) as ->.
  { destruct (app_eq_app _ _ _ _ E) as [l [[E1 _]|[E1 _]]].
    - symmetry. apply dotdec_prefix_free; auto. apply prefixb_spec. exists l. exact E1.
    - apply dotdec_prefix_free; auto. apply prefixb_spec. exists l. exact E1. }
  split; [reflexivity | exact (app_inv_head _ _ _ E)].
Qed.

Lemma dec3_inj x y : x < 256 -> y < 256 -> dec3 x = dec3 y -> x = y.
Proof.
  intros Hx Hy E. destruct (dotdec_inj x y [] [] Hx Hy) as [H _]; [|exact H].
  unfold dotdec. rewrite E. reflexivity.
Qed.

Definition plain_check : bool := forallb (fun x => forallb plainc (dotdec x)) (nseq 256).
Lemma plain_check_ok : plain_check = true.
Proof. vm_compute. reflexivity. Qed.
Lemma dotdec_plain o : o < 256 -> forallb plainc (dotdec o) = true.
Proof.
  intros H. pose proof plain_check_ok as C. unfold plain_check in C.
  rewrite forallb_forall in C. exact (C o (proj2 (In_nseq _ _) H)).
Qed.
Lemma dec3_plain o : o < 256 -> forallb plainc (dec3 o) = true.
Proof.
  intros H. pose proof (dotdec_plain o H) as C. unfold dotdec in C.
  rewrite forallb_app in C. apply andb_true_iff in C. tauto.
Qed.

Lemma digit_not_star n : (digit n =? c_star) = false.
Proof. apply N.eqb_neq. unfold digit, c_star. lia. Qed.
Lemma dec3_not_star o r : str_eqb (dec3 o ++ r) [c_star] = false.
Proof.
  unfold dec3. destruct (o <? 10); [|destruct (o <? 100)]; cbn [app str_eqb];
    rewrite digit_not_star; reflexivity.
Qed.

(* the octet tables of Spec.Net *)
Lemma octet_dot_table_eq : octet_dot_table = map (fun o => (o, dotdec o)) (nseq 256).
Proof. vm_compute. reflexivity. Qed.
Lemma octet_table_eq : octet_table = map (fun o => (o, dec3 o)) (nseq 256).
Proof. vm_compute. reflexivity. Qed.

Lemma read_octet_dot_spec s o r :
  read_octet_dot s = Some (o, r) -> o < 256 /\ s = dotdec o ++ r.
Proof.
  unfold read_octet_dot. destruct (find _ octet_dot_table) as [[o' t]|] eqn:F; [|discriminate].
  intros E. inversion E; subst. apply find_some in F. destruct F as [Hin Hp].
  rewrite octet_dot_table_eq in Hin. apply in_map_iff in Hin. destruct Hin as [k [Ek Hk]].
  inversion Ek; subst. apply In_nseq in Hk. split; [exact Hk|].
  cbn [snd] in Hp. apply prefixb_spec in Hp. destruct Hp as [r' ->].
  rewrite skipn_app, skipn_all, Nat.sub_diag. reflexivity.
Qed.

Lemma read_octet_dot_dotdec o r : o < 256 -> read_octet_dot (dotdec o ++ r) = Some (o, r).
Proof.
  intros Ho. unfold read_octet_dot.
  destruct (find (fun ot => prefixb (snd ot) (dotdec o ++ r)) octet_dot_table) as [[o' t]|] eqn:F.
  - pose proof F as F'. apply find_some in F'. destruct F' as [Hin Hp].
    rewrite octet_dot_table_eq in Hin. apply in_map_iff in Hin. destruct Hin as [k [Ek Hk]].
    inversion Ek; subst. apply In_nseq in Hk. cbn [snd] in Hp.
    apply prefixb_spec in Hp. destruct Hp as [r' E].
    destruct (dotdec_inj _ _ _ _ Ho Hk E) as [<- _].
    rewrite skipn_app, skipn_all, Nat.sub_diag. reflexivity.
  - exfalso. pose proof (find_none _ _ F (o, dotdec o)) as C.
    cbn [snd] in C. rewrite prefixb_app in C.
    assert (In (o, dotdec o) octet_dot_table); [|intuition discriminate].
    rewrite octet_dot_table_eq. apply in_map_iff. exists o. split; [reflexivity | apply In_nseq; exact Ho].
Qed.

Lemma find_octet_spec s o t :
  find (fun ot => str_eqb (snd ot) s) octet_table = Some (o, t) -> o < 256 /\ s = dec3 o.
Proof.
  intros F. apply find_some in F. destruct F as [Hin Hp].
  rewrite octet_table_eq in Hin. apply in_map_iff in Hin. destruct Hin as [k [Ek Hk]].
  inversion Ek; subst. apply In_nseq in Hk. split; [exact Hk|].
  cbn [snd] in Hp. apply str_eqb_eq in Hp. auto.
Qed.

Lemma find_octet_dec3 o : o < 256 ->
  exists t, find (fun ot => str_eqb (snd ot) (dec3 o)) octet_table = Some (o, t).
Proof.
  intros Ho. destruct (find _ octet_table) as [[o' t]|] eqn:F.
  - destruct (find_octet_spec _ _ _ F) as [Ho' E]. apply dec3_inj in E; auto. subst. eauto.
  - exfalso. pose proof (find_none _ _ F (o, dec3 o)) as C. cbn [snd] in C. rewrite str_eqb_refl in C.
    assert (In (o, dec3 o) octet_table); [|intuition discriminate].
    rewrite octet_table_eq. apply in_map_iff. exists o. split; [reflexivity | apply In_nseq; exact Ho].
Qed.

(* ------------------------------------------------------------------ octet lists as numbers *)
Fixpoint val (os : list N) : N :=
  match os with [] => 0 | o :: r => o * p256 (length r) + val r end.
Definition show_os (os : list N) : str := join [c_dot] (map dec3 os).
Definition octets_ok (os : list N) : Prop := Forall (fun o => o < 256) os.

Lemma p256_pos w : 0 < p256 w.
Proof. induction w; cbn [p256]; lia. Qed.

Lemma val_bound os : octets_ok os -> val os < p256 (length os).
Proof.
  induction 1 as [|o r Ho _ IH]; cbn [val length p256]; [lia|].
  pose proof (p256_pos (length r)). nia.
Qed.

Lemma show_os_cons o o' r : show_os (o :: o' :: r) = dotdec o ++ show_os (o' :: r).
Proof. unfold show_os, dotdec. cbn [map join]. rewrite <- app_assoc. reflexivity. Qed.

Lemma pat_dotdec o r t : o < 256 ->
  pat_matches (dotdec o ++ r) t = true <-> exists t', t = dotdec o ++ t' /\ pat_matches r t' = true.
Proof.
  intros Ho. unfold pat_matches. rewrite iparse_plain_app by (apply dotdec_plain; exact Ho).
  apply wild_lit_app.
Qed.

Lemma pat_star t : pat_matches [c_star] t = true.
Proof. unfold pat_matches. change (iparse [c_star]) with [Multi]. apply wild_star. Qed.

(* Correctness of the pattern reader: the range it returns is exactly the set of octet lists whose
   dotted text the pattern matches (and it lies inside the block selected by acc). *)
Lemma prange4_ok : forall w acc s lo hi,
  prange4 w acc s = Some (lo, hi) ->
  (acc * p256 w <= lo /\ hi <= (acc + 1) * p256 w) /\
  forall os, length os = w -> octets_ok os ->
    (pat_matches s (show_os os) = true <-> lo <= acc * p256 w + val os /\ acc * p256 w + val os < hi).
Proof.
  induction w as [|w IH]; intros acc s lo hi H; [discriminate|].
  cbn [prange4] in H. destruct (str_eqb s [c_star]) eqn:Es.
  { apply str_eqb_eq in Es. subst s. injection H as <- <-. cbn [p256]. split; [split; apply N.le_refl|].
    intros os Hl Hok. pose proof (val_bound os Hok) as B. rewrite Hl in B.
    rewrite pat_star. cbn [p256] in B. clear IH. generalize dependent (p256 w). intros P B.
    split; [intros _; nia | reflexivity]. }
  destruct w as [|w'].
  - destruct (find _ octet_table) as [[o t]|] eqn:F; [|discriminate].
    injection H as <- <-. destruct (find_octet_spec _ _ _ F) as [Ho ->].
    cbn [p256]. split; [lia|].
    intros os Hl Hok. destruct os as [|o' [|? ?]]; try discriminate.
    inversion Hok; subst. cbn [val length p256 show_os map join].
    unfold pat_matches. rewrite <- (app_nil_r (dec3 o)), iparse_plain_app by (apply dec3_plain; exact Ho).
    cbn [iparse]. rewrite app_nil_r, wild_lits. split.
    + intros E. apply dec3_inj in E; auto. lia.
    + intros [A B]. assert (o' = o) by lia. subst. reflexivity.
  - destruct (read_octet_dot s) as [[o r]|] eqn:R; [|discriminate].
    destruct (read_octet_dot_spec _ _ _ R) as [Ho ->].
    destruct (IH _ _ _ _ H) as [[B1 B2] M]. clear IH.
    pose proof (p256_pos (S w')) as P. remember (S w') as w eqn:Ew.
    cbn [p256]. split; [nia|].
    intros os Hl Hok. destruct os as [|o' os']; [discriminate|].
    cbn [length] in Hl. injection Hl as Hl. inversion Hok as [|? ? Ho' Hok']; subst x l.
    destruct os' as [|o'' os'']; [subst; discriminate|].
    rewrite show_os_cons, pat_dotdec by exact Ho.
    remember (o'' :: os'') as os1 eqn:Eos1. clear Eos1 Hok.
    cbn [val]. rewrite Hl. pose proof (val_bound _ Hok') as VB. rewrite Hl in VB.
    specialize (M _ Hl Hok'). split.
    + intros [t' [E Hm]]. apply dotdec_inj in E; auto. destruct E as [<- <-].
      apply M in Hm. nia.
    + intros [A B]. assert (o' = o) by nia. subst o'. exists (show_os os1). split; [reflexivity|].
      apply M. nia.
Qed.

(* IPv4 addresses as octet lists *)
Lemma octs4_ok a : octets_ok (octs4 a).
Proof. unfold octs4. repeat constructor; apply N.mod_lt; discriminate. Qed.

Lemma val_octs4 a : a < 4294967296 -> val (octs4 a) = a.
Proof.
  intros H. unfold octs4. cbn [val length p256].
  pose proof (N.div_mod a 256 ltac:(discriminate)) as E0.
  pose proof (N.div_mod (a / 256) 256 ltac:(discriminate)) as E1.
  pose proof (N.div_mod (a / 65536) 256 ltac:(discriminate)) as E2.
  pose proof (N.div_mod (a / 16777216) 256 ltac:(discriminate)) as E3.
  rewrite N.div_div in E1 by discriminate. change (256 * 256) with 65536 in E1.
  rewrite N.div_div in E2 by discriminate. change (65536 * 256) with 16777216 in E2.
  rewrite N.div_div in E3 by discriminate. change (16777216 * 256) with 4294967296 in E3.
  rewrite (N.div_small a 4294967296 H) in E3.
  pose proof (N.mod_lt (a / 16777216) 256 ltac:(discriminate)).
  lia.
Qed.

Theorem pattern_range4_ok p lo hi :
  pattern_range4 p = Some (lo, hi) ->
  forall a, a < 2 ^ 32 -> (pat_matches p (show4 a) = true <-> lo <= a /\ a < hi).
Proof.
  intros H a Ha. destruct (prange4_ok _ _ _ _ _ H) as [_ M].
  specialize (M (octs4 a) eq_refl (octs4_ok a)).
  change (2 ^ 32) with 4294967296 in Ha. rewrite (val_octs4 a Ha) in M.
  cbn [N.mul] in M. exact M.
Qed.

(* ------------------------------------------------------------------ the reader on the model's own patterns *)
Lemma dotdec_not_star o r : str_eqb (dotdec o ++ r) [c_star] = false.
Proof. unfold dotdec. rewrite <- app_assoc. apply dec3_not_star. Qed.

Lemma prange4_dotted : forall pre w acc, octets_ok pre ->
  prange4 (length pre + S w) acc (flat_map dotdec pre ++ [c_star]) =
  Some ((acc * p256 (length pre) + val pre) * p256 (S w), (acc * p256 (length pre) + val pre + 1) * p256 (S w)).
Proof.
  induction pre as [|o pre IH]; intros w acc Hok.
  - cbn [length flat_map app Nat.add prange4 str_eqb]. rewrite N.eqb_refl. cbn [andb val p256].
    rewrite N.mul_1_r, N.add_0_r. reflexivity.
  - inversion Hok as [|? ? Ho Hok']; subst.
    cbn [length flat_map Nat.add]. rewrite <- app_assoc. cbn [prange4].
    rewrite dotdec_not_star. rewrite Nat.add_succ_r. rewrite read_octet_dot_dotdec by exact Ho.
    rewrite <- Nat.add_succ_r. rewrite IH by exact Hok'. cbn [val p256].
    replace ((acc * 256 + o) * p256 (length pre) + val pre)
      with (acc * (256 * p256 (length pre)) + (o * p256 (length pre) + val pre)) by ring.
    reflexivity.
Qed.

Lemma prange4_full : forall pre o acc, octets_ok pre -> o < 256 ->
  prange4 (length pre + 1) acc (flat_map dotdec pre ++ dec3 o) =
  Some ((acc * p256 (length pre) + val pre) * 256 + o, (acc * p256 (length pre) + val pre) * 256 + o + 1).
Proof.
  induction pre as [|o' pre IH]; intros o acc Hok Ho.
  - cbn [length flat_map app Nat.add prange4].
    rewrite <- (app_nil_r (dec3 o)) at 1. rewrite dec3_not_star.
    destruct (find_octet_dec3 o Ho) as [t ->]. cbn [val p256]. rewrite N.mul_1_r, N.add_0_r. reflexivity.
  - inversion Hok as [|? ? Ho' Hok']; subst.
    cbn [length flat_map Nat.add]. rewrite <- app_assoc. cbn [prange4].
    rewrite dotdec_not_star. rewrite Nat.add_1_r. rewrite read_octet_dot_dotdec by exact Ho'.
    rewrite <- Nat.add_1_r. rewrite IH by assumption. rewrite Nat.add_1_r. cbn [val p256].
    replace ((acc * 256 + o') * p256 (length pre) + val pre)
      with (acc * (256 * p256 (length pre)) + (o' * p256 (length pre) + val pre)) by ring.
    reflexivity.
Qed.

Lemma join_dot_flat l : l <> [] ->
  join [c_dot] (map dec3 l) ++ [c_dot; c_star] = flat_map dotdec l ++ [c_star].
Proof.
  induction l as [|x l IH]; intros H; [congruence|].
  destruct l as [|y l].
  - cbn [map join flat_map]. unfold dotdec. rewrite app_nil_r, <- app_assoc. reflexivity.
  - change (join [c_dot] (map dec3 (x :: y :: l))) with (dec3 x ++ [c_dot] ++ join [c_dot] (map dec3 (y :: l))).
    change (flat_map dotdec (x :: y :: l)) with (dotdec x ++ flat_map dotdec (y :: l)).
    unfold dotdec at 1. rewrite <- !app_assoc. f_equal. f_equal.
    apply IH. discriminate.
Qed.

Lemma show4_flat a : show4 a = flat_map dotdec (firstn 3 (octs4 a)) ++ dec3 (a mod 256).
Proof. unfold show4, octs4, dotdec. cbn [firstn map join flat_map]. rewrite <- !app_assoc. reflexivity. Qed.

Lemma octs4_prefix_val a : a < 4294967296 ->
  val (firstn 0 (octs4 a)) = a / 4294967296 /\
  val (firstn 1 (octs4 a)) = a / 16777216 /\
  val (firstn 2 (octs4 a)) = a / 65536 /\
  val (firstn 3 (octs4 a)) = a / 256.
Proof.
  intros H. unfold octs4. cbn [firstn val length p256].
  pose proof (N.div_mod (a / 256) 256 ltac:(discriminate)) as E1.
  pose proof (N.div_mod (a / 65536) 256 ltac:(discriminate)) as E2.
  pose proof (N.div_mod (a / 16777216) 256 ltac:(discriminate)) as E3.
  rewrite N.div_div in E1 by discriminate. change (256 * 256) with 65536 in E1.
  rewrite N.div_div in E2 by discriminate. change (65536 * 256) with 16777216 in E2.
  rewrite N.div_div in E3 by discriminate. change (16777216 * 256) with 4294967296 in E3.
  rewrite (N.div_small a 4294967296 H) in *.
  repeat split; lia.
Qed.

Ltac norm256 :=
  change (256 * (256 * (256 * (256 * 1)))) with 4294967296 in *;
  change (256 * (256 * (256 * 1))) with 16777216 in *;
  change (256 * (256 * 1)) with 65536 in *;
  change (256 * 1) with 256 in *.

Lemma ok_firstn k : forall l, octets_ok l -> octets_ok (firstn k l).
Proof.
  induction k as [|k IH]; intros l H; [constructor|].
  destruct H; cbn [firstn]; constructor; auto. apply IH. assumption.
Qed.

(* the reader applied to pattern wg of subnet address sub gives the block [sub, sub + 256^(4-wg)) *)
Lemma pattern_range4_pat4 (wg : nat) sub : (wg <= 4)%nat -> sub < 4294967296 ->
  sub mod p256 (4 - wg) = 0 ->
  pattern_range4 (pat4 (N.of_nat wg) sub) = Some (sub, sub + p256 (4 - wg)).
Proof.
  intros Hw Hs Hm.
  destruct (octs4_prefix_val sub Hs) as [V0 [V1 [V2 V3]]].
  pose proof (octs4_ok sub) as Hok.
  assert (Hpre : forall k, octets_ok (firstn k (octs4 sub))) by (intros k; apply ok_firstn; exact Hok).
  pose proof (N.div_mod sub (p256 (4 - wg))) as DM. rewrite Hm, N.add_0_r in DM.
  specialize (DM ltac:(pose proof (p256_pos (4 - wg)); lia)).
  unfold pattern_range4.
  destruct wg as [|[|[|[|[|wg]]]]]; try lia.
  - change (pat4 (N.of_nat 0) sub) with (flat_map dotdec (firstn 0 (octs4 sub)) ++ [c_star]).
    change (prange4 4 0) with (prange4 (length (firstn 0 (octs4 sub)) + 4) 0).
    rewrite (prange4_dotted (firstn 0 (octs4 sub)) 3 0 (Hpre _)).
    cbn [Nat.sub p256 firstn length octs4] in *. norm256. rewrite V0 in *. cbn [firstn length p256]. norm256. f_equal. f_equal; lia.
  - change (pat4 (N.of_nat 1) sub) with (join [c_dot] (map dec3 (firstn 1 (octs4 sub))) ++ [c_dot; c_star]).
    rewrite join_dot_flat by (unfold octs4; discriminate).
    change (prange4 4 0) with (prange4 (length (firstn 1 (octs4 sub)) + 3) 0).
    rewrite (prange4_dotted (firstn 1 (octs4 sub)) 2 0 (Hpre _)).
    cbn [Nat.sub p256 firstn length octs4] in *. norm256. rewrite V1 in *. f_equal. f_equal; lia.
  - change (pat4 (N.of_nat 2) sub) with (join [c_dot] (map dec3 (firstn 2 (octs4 sub))) ++ [c_dot; c_star]).
    rewrite join_dot_flat by (unfold octs4; discriminate).
    change (prange4 4 0) with (prange4 (length (firstn 2 (octs4 sub)) + 2) 0).
    rewrite (prange4_dotted (firstn 2 (octs4 sub)) 1 0 (Hpre _)).
    cbn [Nat.sub p256 firstn length octs4] in *. norm256. rewrite V2 in *. f_equal. f_equal; lia.
  - change (pat4 (N.of_nat 3) sub) with (join [c_dot] (map dec3 (firstn 3 (octs4 sub))) ++ [c_dot; c_star]).
    rewrite join_dot_flat by (unfold octs4; discriminate).
    change (prange4 4 0) with (prange4 (length (firstn 3 (octs4 sub)) + 1) 0).
    rewrite (prange4_dotted (firstn 3 (octs4 sub)) 0 0 (Hpre _)).
    cbn [Nat.sub p256 firstn length octs4] in *. norm256. rewrite V3 in *. f_equal. f_equal; lia.
  - change (pat4 (N.of_nat 4) sub) with (show4 sub). rewrite show4_flat.
    change (prange4 4 0) with (prange4 (length (firstn 3 (octs4 sub)) + 1) 0).
    rewrite (prange4_full (firstn 3 (octs4 sub)) (sub mod 256) 0 (Hpre _)) by (apply N.mod_lt; discriminate).
    rewrite V3. pose proof (N.div_mod sub 256 ltac:(discriminate)).
    cbn [Nat.sub p256 firstn length octs4] in *. norm256. f_equal. f_equal; lia.
Qed.

(* ------------------------------------------------------------------ arithmetic of prefix lengths (0..32, finite) *)
Definition diff8 (len : N) : N := (8 - len mod 8) mod 8.
Definition len_facts (len : N) : bool :=
  let d := diff8 len in
  let nl := len + d in
  let wg := N.to_nat (nl / 8) in
  Nat.leb wg 4 && (N.of_nat wg =? nl / 8) && (2 ^ (32 - nl) =? p256 (4 - wg)) &&
  (2 ^ (32 - len) =? 2 ^ d * 2 ^ (32 - nl)) && (2 ^ 32 =? 2 ^ len * 2 ^ (32 - len)).
Lemma len_facts_ok len : len <= 32 -> len_facts len = true.
Proof.
  intros H. assert (C : forallb len_facts (nseq 33) = true) by (vm_compute; reflexivity).
  rewrite forallb_forall in C. apply C. apply In_nseq. lia.
Qed.

Lemma filter_map_length {A B} (f : B -> bool) (g : A -> B) l :
  length (filter f (map g l)) = length (filter (fun x => f (g x)) l).
Proof. induction l as [|x l IH]; cbn [map filter]; [reflexivity|]. destruct (f (g x)); cbn [length]; congruence. Qed.

(* exactly one of n consecutive blocks of size K starting at base contains a *)
Lemma count_blocks (base K a : N) : 0 < K -> forall n : nat,
  length (filter (fun sub => (sub <=? a) && (a <? sub + K)) (map (fun i => base + N.of_nat i * K) (seq 0 n)))
  = if (base <=? a) && (a <? base + N.of_nat n * K) then 1%nat else 0%nat.
Proof.
  intros HK. induction n as [|n IH].
  - cbn [seq map filter length]. change (N.of_nat 0) with 0. rewrite N.mul_0_l, N.add_0_r.
    destruct (N.leb_spec base a), (N.ltb_spec a base); cbn; try reflexivity; lia.
  - rewrite seq_S, map_app, filter_app, app_length, IH. cbn [Nat.add map filter].
    rewrite Nat2N.inj_succ, N.mul_succ_l.
    remember (N.of_nat n * K) as X eqn:EX. clear EX IH.
    destruct (N.leb_spec base a), (N.ltb_spec a (base + X)), (N.leb_spec (base + X) a),
      (N.ltb_spec a (base + X + K)), (N.ltb_spec a (base + (X + K))); cbn; try reflexivity; lia.
Qed.

Section V4.
Variables (base len : N).
Hypothesis Hwf : wf_net 32 base len.

Let d := diff8 len.
Let nl := len + d.
Let wg := N.to_nat (nl / 8).
Let K := p256 (4 - wg).

Lemma v4_facts :
  (wg <= 4)%nat /\ N.of_nat wg = nl / 8 /\ 2 ^ (32 - nl) = K /\
  2 ^ (32 - len) = 2 ^ d * K /\ 2 ^ 32 = 2 ^ len * 2 ^ (32 - len).
Proof.
  destruct Hwf as [Hl _]. pose proof (len_facts_ok len Hl) as F. unfold len_facts in F.
  fold d in F. fold nl in F. fold wg in F.
  repeat (apply andb_true_iff in F; destruct F as [F ?]).
  apply Nat.leb_le in F. repeat match goal with H : (_ =? _) = true |- _ => apply N.eqb_eq in H end.
  unfold K. repeat split; try assumption. congruence.
Qed.

Lemma expand4_eq :
  expand4 base len = map (fun i => pat4 (N.of_nat wg) (base + N.of_nat i * K)) (seq 0 (N.to_nat (2 ^ d))).
Proof.
  destruct v4_facts as [_ [E1 [E2 _]]].
  unfold expand4, subnets, nseq. fold (diff8 len). fold d. fold nl. rewrite E2, <- E1.
  rewrite !map_map. reflexivity.
Qed.

Lemma base_multiple : exists q, base = q * (2 ^ d * K) /\ q < 2 ^ len.
Proof.
  destruct v4_facts as [_ [_ [_ [E3 E4]]]]. destruct Hwf as [_ [Hb Hm]].
  rewrite E3 in Hm. pose proof (N.div_mod base (2 ^ d * K)) as DM.
  assert (Hpos : 2 ^ d * K <> 0).
  { rewrite <- E3. apply N.pow_nonzero. discriminate. }
  specialize (DM Hpos). rewrite Hm, N.add_0_r in DM.
  exists (base / (2 ^ d * K)). split; [lia|].
  rewrite E4, E3 in Hb. nia.
Qed.

Lemma K_pos : 0 < K.
Proof. apply p256_pos. Qed.

Lemma subnet_ok i : N.of_nat i < 2 ^ d ->
  let sub := base + N.of_nat i * K in sub < 4294967296 /\ sub mod K = 0 /\
  base <= sub /\ sub + K <= base + 2 ^ (32 - len).
Proof.
  intros Hi sub. destruct base_multiple as [q [Eb Hq]].
  destruct v4_facts as [_ [_ [_ [E3 E4]]]]. pose proof K_pos as HK.
  change 4294967296 with (2 ^ 32). rewrite E4, E3.
  repeat split.
  - unfold sub. nia.
  - unfold sub. rewrite Eb. replace (q * (2 ^ d * K) + N.of_nat i * K) with ((q * 2 ^ d + N.of_nat i) * K) by ring.
    apply N.mod_mul. lia.
  - unfold sub. nia.
  - unfold sub. nia.
Qed.

Lemma pat4_matches i a : N.of_nat i < 2 ^ d -> a < 2 ^ 32 ->
  pat_matches (pat4 (N.of_nat wg) (base + N.of_nat i * K)) (show4 a)
  = ((base + N.of_nat i * K <=? a) && (a <? base + N.of_nat i * K + K)).
Proof.
  intros Hi Ha. destruct (subnet_ok i Hi) as [S1 [S2 _]].
  destruct v4_facts as [Hw _].
  pose proof (pattern_range4_pat4 wg _ Hw S1 S2) as R.
  pose proof (pattern_range4_ok _ _ _ R a Ha) as M.
  apply Bool.eq_iff_eq_true. rewrite M. rewrite andb_true_iff, N.leb_le, N.ltb_lt. reflexivity.
Qed.

(* every address is matched by exactly one pattern if it is in the network, by none otherwise *)
Lemma v4_exact_unique a : a < 2 ^ 32 ->
  length (filter (fun p => pat_matches p (show4 a)) (expand4 base len))
  = if in_netb 32 base len a then 1%nat else 0%nat.
Proof.
  intros Ha. rewrite expand4_eq, filter_map_length.
  rewrite (filter_ext_in _ (fun i => (base + N.of_nat i * K <=? a) && (a <? base + N.of_nat i * K + K))).
  - pose proof (count_blocks base K a K_pos (N.to_nat (2 ^ d))) as C.
    rewrite filter_map_length in C. rewrite C. rewrite N2Nat.id.
    destruct v4_facts as [_ [_ [_ [E3 _]]]]. unfold in_netb. rewrite E3. reflexivity.
  - intros i Hi. apply in_seq in Hi. apply pat4_matches; [lia | exact Ha].
Qed.

Lemma v4_exact a : a < 2 ^ 32 ->
  ((exists p, In p (expand4 base len) /\ pat_matches p (show4 a) = true) <-> in_net 32 base len a).
Proof.
  intros Ha. pose proof (v4_exact_unique a Ha) as U.
  assert (R : in_netb 32 base len a = true <-> in_net 32 base len a).
  { unfold in_netb, in_net. rewrite andb_true_iff, N.leb_le, N.ltb_lt. reflexivity. }
  rewrite <- R. split.
  - intros [p [Hin Hm]]. destruct (in_netb 32 base len a); [reflexivity|].
    assert (In p (filter (fun p => pat_matches p (show4 a)) (expand4 base len))) as Hf
      by (apply filter_In; auto).
    destruct (filter _ (expand4 base len)); [contradiction | discriminate].
  - intros E. rewrite E in U.
    destruct (filter (fun p => pat_matches p (show4 a)) (expand4 base len)) as [|p l] eqn:F; [discriminate|].
    assert (In p (p :: l)) as Hp by (left; reflexivity). rewrite <- F in Hp. apply filter_In in Hp.
    exists p. exact Hp.
Qed.

Lemma v4_count : length (expand4 base len) = N.to_nat (2 ^ diff8 len).
Proof. rewrite expand4_eq, map_length, seq_length. reflexivity. Qed.

(* every pattern matches an address of the network (its subnet address): none is redundant *)
Lemma v4_witness p : In p (expand4 base len) ->
  exists a, a < 2 ^ 32 /\ in_net 32 base len a /\ pat_matches p (show4 a) = true.
Proof.
  rewrite expand4_eq. intros Hin. apply in_map_iff in Hin. destruct Hin as [i [<- Hi]].
  apply in_seq in Hi. assert (Hi' : N.of_nat i < 2 ^ d) by lia.
  destruct (subnet_ok i Hi') as [S1 [S2 [S3 S4]]]. pose proof K_pos.
  exists (base + N.of_nat i * K). split; [exact S1|]. split; [unfold in_net; lia|].
  rewrite pat4_matches by assumption. apply andb_true_iff. rewrite N.leb_le, N.ltb_lt. lia.
Qed.
End V4.

Lemma NoDup_of_unique {A} (l : list A) :
  (forall x, In x l -> exists f : A -> bool, f x = true /\ (length (filter f l) <= 1)%nat) -> NoDup l.
Proof.
  induction l as [|y l IH]; intros H; constructor.
  - intros Hy. destruct (H y (or_introl eq_refl)) as [f [Fy Hl]].
    cbn [filter] in Hl. rewrite Fy in Hl. cbn [length] in Hl.
    assert (In y (filter f l)) as Hf by (apply filter_In; auto).
    destruct (filter f l); [contradiction | cbn [length] in Hl; lia].
  - apply IH. intros x Hx. destruct (H x (or_intror Hx)) as [f [Fx Hl]].
    exists f. split; [exact Fx|]. cbn [filter] in Hl. destruct (f y); cbn [length] in Hl; lia.
Qed.

Lemma v4_nodup base len : wf_net 32 base len -> NoDup (expand4 base len).
Proof.
  intros Hwf. apply NoDup_of_unique. intros p Hp.
  destruct (v4_witness base len Hwf p Hp) as [a [Ha [_ Hm]]].
  exists (fun p => pat_matches p (show4 a)). split; [exact Hm|].
  rewrite (v4_exact_unique base len Hwf a Ha). destruct (in_netb 32 base len a); lia.
Qed.

Lemma v4_irredundant base len : wf_net 32 base len ->
    (forall a, a < 2 ^ 32 ->
       length (filter (fun p => pat_matches p (show4 a)) (expand4 base len))
       = if in_netb 32 base len a then 1%nat else 0%nat) /\
    (forall p, In p (expand4 base len) ->
       exists a, a < 2 ^ 32 /\ in_net 32 base len a /\ pat_matches p (show4 a) = true) /\
    NoDup (expand4 base len).
Proof.
  intros H. split; [exact (v4_exact_unique base len H) | split; [exact (v4_witness base len H) | exact (v4_nodup base len H)]].
Qed.

(* ------------------------------------------------------------------ IPv6: the coverage statement is false *)
(* 2001:db8::/64 expands to the single pattern "2001:db8::", which does not match 2001:db8::1 *)
Lemma v6_cover_refuted :
  exists a len x pats,
    wf_net 128 a len /\ in_net 128 a len x /\
    expand6 a len None = Ok pats /\ covered pats (show6 x) = false.
Proof.
  exists 42540766411282592856903984951653826560, 64, 42540766411282592856903984951653826561.
  eexists. split; [|split; [|split]].
  - unfold wf_net. repeat split; try (vm_compute; congruence).
  - unfold in_net. split; vm_compute; congruence.
  - vm_compute. reflexivity.
  - vm_compute. reflexivity.
Qed.
