(* C19 - proofs about the validator model. *)
From Coq Require Import NArith List Bool Arith Permutation Lia.
From PS Require Import Base.Chars Base.Outcome Model.VCond Model.Validators Spec.ValidatorsSpec.
Import ListNotations.
Open Scope N_scope.

Lemma placeholder : True. Proof. exact I. Qed.
