(* C19 - proofs about the validator model. *)
From Coq Require Import NArith List Bool Arith Permutation Lia.
From PS Require Import Base.Chars Base.Outcome Model.VCond Model.Validators Spec.ValidatorsSpec.
Import ListNotations.
Open Scope N_scope.

(* ====================== A. selector matching ====================== *)
Lemma any_suffix_spec f n :
  any_suffix f n = true <-> exists m n', n = m ++ n' /\ f n' = true.
Proof.
  induction n as [|x n IH]; simpl.
  - rewrite orb_false_r. split.
    + intros H. exists [], []. auto.
    + intros (m & n' & E & H). destruct m; [|discriminate]. simpl in E. subst. exact H.
  - rewrite orb_true_iff, IH. split.
    + intros [H | (m & n' & E & H)].
      * exists [], (x :: n). auto.
      * exists (x :: m), n'. subst. auto.
    + intros (m & n' & E & H). destruct m as [|y m]; simpl in E.
      * left. subst. exact H.
      * right. inversion E; subst. exists m, n'. auto.
Qed.

Theorem globb_Glob p n : globb p n = true <-> Glob p n.
Proof.
  revert n. induction p as [|c p IH]; intros n; simpl.
  - destruct n; split; intros H; try constructor; try discriminate. inversion H.
  - destruct (c =? c_star) eqn:Ec.
    + apply N.eqb_eq in Ec. subst c. rewrite any_suffix_spec. split.
      * intros (m & n' & -> & H). apply glob_star. apply IH. exact H.
      * intros H. inversion H; subst.
        -- congruence.
        -- eexists _, _. split; [reflexivity|]. apply IH. assumption.
    + apply N.eqb_neq in Ec. destruct n as [|x n].
      * split; [discriminate|]. intros H. inversion H; subst. congruence.
      * rewrite andb_true_iff, N.eqb_eq, IH. split.
        -- intros [-> H]. apply glob_lit; assumption.
        -- intros H. inversion H; subst; [auto | congruence].
Qed.

Lemma star_any_any_suffix f n : star_any f n = any_suffix f n.
Proof. induction n; simpl; congruence. Qed.

Lemma star_any_ext f g n : (forall x, f x = g x) -> star_any f n = star_any g n.
Proof. intros H. induction n; simpl; rewrite ?H; congruence. Qed.

Lemma rmatch_compile p n : rmatch (compile p) n = globb p n.
Proof.
  revert n. induction p as [|c p IH]; intros n; simpl.
  - reflexivity.
  - destruct (c =? c_star); simpl.
    + rewrite (star_any_ext _ (globb p)) by exact IH. apply star_any_any_suffix.
    + destruct n; [reflexivity|]. rewrite IH. reflexivity.
Qed.

Lemma star_any_end f n : f [] = true -> star_any f n = true.
Proof. intros H. induction n; simpl; [rewrite H; reflexivity|]. rewrite IHn. apply orb_true_r. Qed.

Lemma sel_regex_selectedb p n :
  (rmatch (sel_regex p) n && (starts_us p || negb (starts_us n))) = selectedb p n.
Proof.
  unfold sel_regex, selectedb. change (starts_us p) with (us p). change (starts_us n) with (us n).
  f_equal. destruct (str_eqb p w_them); simpl.
  - apply star_any_end. reflexivity.
  - apply rmatch_compile.
Qed.

Theorem selectedb_Selected p n : selectedb p n = true <-> Selected p n.
Proof.
  unfold selectedb, Selected.
  rewrite andb_true_iff, !orb_true_iff, str_eqb_eq, globb_Glob, negb_true_iff. reflexivity.
Qed.

(* what the implementation's regular expression selects = the declarative reading of the pattern *)
Theorem resolve_spec D p n : In n (resolve D p) <-> In n D /\ Selected p n.
Proof.
  unfold resolve. rewrite filter_In, sel_regex_selectedb, selectedb_Selected. reflexivity.
Qed.

Lemma resolve_nil_Unmatched D p : resolve D p = [] <-> Unmatched D p.
Proof.
  unfold Unmatched. split.
  - intros H n Hn Hs. assert (X : In n (resolve D p)) by (apply resolve_spec; auto).
    rewrite H in X. exact X.
  - intros H. destruct (resolve D p) as [|n l] eqn:E; [reflexivity|].
    assert (X : In n (resolve D p)) by (rewrite E; left; reflexivity).
    apply resolve_spec in X. destruct X as [X1 X2]. exfalso. exact (H n X1 X2).
Qed.

(* ====================== B. reference analysis over the parse tree ====================== *)
Section PInd.
  Variable P : ptree -> Prop.
  Hypothesis Hid : forall n, P (PId n).
  Hypothesis Hsel : forall q p, P (PSel q p).
  Hypothesis Hnot : forall a, P a -> P (PNot a).
  Hypothesis Hand : forall l, Forall P l -> P (PAnd l).
  Hypothesis Hor : forall l, Forall P l -> P (POr l).
  Fixpoint ptree_ind' (t : ptree) : P t :=
    match t with
    | PId n => Hid n
    | PSel q p => Hsel q p
    | PNot a => Hnot a (ptree_ind' a)
    | PAnd l => Hand l ((fix go l : Forall P l :=
                  match l with [] => Forall_nil P | x :: r => Forall_cons x (ptree_ind' x) (go r) end) l)
    | POr l => Hor l ((fix go l : Forall P l :=
                  match l with [] => Forall_nil P | x :: r => Forall_cons x (ptree_ind' x) (go r) end) l)
    end.
End PInd.

Lemma in_flat_map_Forall {A B} (f : A -> list B) (Q : A -> B -> Prop) l y :
  Forall (fun a => forall y, In y (f a) <-> Q a y) l ->
  (In y (flat_map f l) <-> exists a, In a l /\ Q a y).
Proof.
  intros HF. rewrite in_flat_map. rewrite Forall_forall in HF. split.
  - intros (a & Ha & Hy). exists a. split; [exact Ha|]. apply (HF a Ha). exact Hy.
  - intros (a & Ha & Hq). exists a. split; [exact Ha|]. apply (HF a Ha). exact Hq.
Qed.

Theorem refs_spec D t : forall n, In n (refs D t) <-> Refers D t n.
Proof.
  induction t as [m|q p|a IH|l IH|l IH] using ptree_ind'; intros n; simpl.
  - split.
    + intros [->|[]]. constructor.
    + intros H. inversion H; subst. left. reflexivity.
  - rewrite resolve_spec. split.
    + intros [H1 H2]. constructor; assumption.
    + intros H. inversion H; subst. auto.
  - rewrite IH. split.
    + intros H. constructor. exact H.
    + intros H. inversion H; subst. assumption.
  - rewrite (in_flat_map_Forall _ (fun a y => Refers D a y) l n IH). split.
    + intros (a & Ha & Hr). econstructor; eassumption.
    + intros H. inversion H; subst. eauto.
  - rewrite (in_flat_map_Forall _ (fun a y => Refers D a y) l n IH). split.
    + intros (a & Ha & Hr). eapply rf_or; eassumption.
    + intros H. inversion H; subst. eauto.
Qed.

Theorem unknown_spec D t : forall p, In p (unknown D t) <-> HasSel t p /\ Unmatched D p.
Proof.
  induction t as [m|q p0|a IH|l IH|l IH] using ptree_ind'; intros p; simpl.
  - split; [intros []|]. intros [H _]. inversion H.
  - destruct (resolve D p0) as [|x r] eqn:E.
    + split.
      * intros [->|[]]. split; [constructor|]. apply resolve_nil_Unmatched. exact E.
      * intros [H _]. inversion H; subst. left. reflexivity.
    + split; [intros []|]. intros [H U]. inversion H; subst.
      apply resolve_nil_Unmatched in U. congruence.
  - rewrite IH. split.
    + intros [H U]. split; [constructor; exact H | exact U].
    + intros [H U]. inversion H; subst. auto.
  - rewrite (in_flat_map_Forall _ (fun a y => HasSel a y /\ Unmatched D y) l p IH). split.
    + intros (a & Ha & Hs & U). split; [econstructor; eassumption | exact U].
    + intros [H U]. inversion H; subst. eauto.
  - rewrite (in_flat_map_Forall _ (fun a y => HasSel a y /\ Unmatched D y) l p IH). split.
    + intros (a & Ha & Hs & U). split; [eapply hs_or; eassumption | exact U].
    + intros [H U]. inversion H; subst. eauto.
Qed.

Lemma mem_str_In n l : mem_str n l = true <-> In n l.
Proof.
  unfold mem_str. rewrite existsb_exists. split.
  - intros (x & Hx & He). apply str_eqb_eq in He. subst. exact Hx.
  - intros H. exists n. split; [exact H | apply str_eqb_refl].
Qed.

Lemma dedup_In n l : In n (dedup l) <-> In n l.
Proof.
  induction l as [|x l IH]; simpl; [reflexivity|].
  destruct (mem_str x l) eqn:E.
  - rewrite IH. split; [auto|]. intros [->|H]; [apply mem_str_In; exact E | exact H].
  - simpl. rewrite IH. reflexivity.
Qed.

Lemma dedup_NoDup l : NoDup (dedup l).
Proof.
  induction l as [|x l IH]; simpl; [constructor|].
  destruct (mem_str x l) eqn:E; [exact IH|].
  constructor; [|exact IH]. rewrite dedup_In. intros H. apply mem_str_In in H. congruence.
Qed.

(* ---------- C. the two reference validators on one rule ---------- *)
Definition unused_names (r : rule) (ts : list ptree) : list str :=
  filter (fun n => negb (mem_str n (flat_map (refs (r_dets r)) ts))) (dedup (r_dets r)).

Lemma v_check_unused r ts :
  r_corr r = false -> parse_all (r_conds r) = Ok ts ->
  v_check VUnused r = Ok (map (IUnused (r_key r)) (unused_names r ts)).
Proof. intros Hc Hp. unfold v_check. rewrite Hc, Hp. reflexivity. Qed.

Lemma v_check_dangling r ts :
  r_corr r = false -> parse_all (r_conds r) = Ok ts ->
  v_check VDangling r = Ok (map (IDangling (r_key r)) (dedup (flat_map (unknown (r_dets r)) ts))).
Proof. intros Hc Hp. unfold v_check. rewrite Hc, Hp. reflexivity. Qed.

Theorem unused_iff r ts l :
  r_corr r = false -> parse_all (r_conds r) = Ok ts -> v_check VUnused r = Ok l ->
  forall k n, In (IUnused k n) l <->
    k = r_key r /\ In n (r_dets r) /\ ~ exists t, In t ts /\ Refers (r_dets r) t n.
Proof.
  intros Hc Hp Hv k n. rewrite (v_check_unused r ts Hc Hp) in Hv. inversion Hv; subst l. clear Hv.
  rewrite in_map_iff. unfold unused_names. split.
  - intros (x & E & Hx). inversion E; subst. apply filter_In in Hx. destruct Hx as [H1 H2].
    apply (proj1 (dedup_In _ _)) in H1. split; [reflexivity|]. split; [exact H1|].
    intros (t & Ht & Hr). apply negb_true_iff in H2.
    assert (X : mem_str n (flat_map (refs (r_dets r)) ts) = true).
    { apply mem_str_In. apply in_flat_map. exists t. split; [exact Ht|]. apply refs_spec. exact Hr. }
    congruence.
  - intros (-> & H1 & H2). exists n. split; [reflexivity|]. apply filter_In. split; [apply dedup_In; exact H1|].
    apply negb_true_iff. destruct (mem_str n (flat_map (refs (r_dets r)) ts)) eqn:E; [|reflexivity].
    exfalso. apply H2. apply mem_str_In in E. apply in_flat_map in E. destruct E as (t & Ht & Hr).
    exists t. split; [exact Ht|]. apply refs_spec. exact Hr.
Qed.

Theorem unused_once r ts l :
  r_corr r = false -> parse_all (r_conds r) = Ok ts -> v_check VUnused r = Ok l -> NoDup l.
Proof.
  intros Hc Hp Hv. rewrite (v_check_unused r ts Hc Hp) in Hv. inversion Hv; subst l.
  apply FinFun.Injective_map_NoDup.
  - intros a b E. inversion E. reflexivity.
  - apply NoDup_filter. apply dedup_NoDup.
Qed.

Theorem dangling_iff r ts l :
  r_corr r = false -> parse_all (r_conds r) = Ok ts -> v_check VDangling r = Ok l ->
  forall k p, In (IDangling k p) l <->
    k = r_key r /\ (exists t, In t ts /\ HasSel t p) /\ Unmatched (r_dets r) p.
Proof.
  intros Hc Hp Hv k p. rewrite (v_check_dangling r ts Hc Hp) in Hv. inversion Hv; subst l. clear Hv.
  rewrite in_map_iff. split.
  - intros (x & E & Hx). inversion E; subst. apply (proj1 (dedup_In _ _)) in Hx. apply in_flat_map in Hx.
    destruct Hx as (t & Ht & Hu). apply unknown_spec in Hu. destruct Hu as [Hs U].
    split; [reflexivity|]. split; [exists t; auto | exact U].
  - intros (-> & (t & Ht & Hs) & U). exists p. split; [reflexivity|]. apply dedup_In. apply in_flat_map.
    exists t. split; [exact Ht|]. apply unknown_spec. auto.
Qed.

Theorem dangling_once r ts l :
  r_corr r = false -> parse_all (r_conds r) = Ok ts -> v_check VDangling r = Ok l -> NoDup l.
Proof.
  intros Hc Hp Hv. rewrite (v_check_dangling r ts Hc Hp) in Hv. inversion Hv; subst l.
  apply FinFun.Injective_map_NoDup.
  - intros a b E. inversion E. reflexivity.
  - apply dedup_NoDup.
Qed.

(* ====================== D. what validate_rules computes ====================== *)
Definition okl {A} (x : outcome (list A)) : list A := match x with Ok l => l | _ => [] end.
Definition is_ok {A} (x : outcome A) : bool := match x with Ok _ => true | _ => false end.

(* no validator that runs on the rule raises *)
Definition checks_ok (E : excl) (vs : list vkind) (r : rule) : bool :=
  forallb (fun v => excluded E r v || is_ok (v_check v r)) vs.
Definition all_ok (E : excl) (vs : list vkind) (rules : list rule) : bool :=
  forallb (checks_ok E vs) rules.

(* issues returned while the rules are visited *)
Definition rule_part (E : excl) (vs : list vkind) (r : rule) : list issue :=
  flat_map (fun v => if excluded E r v then [] else okl (v_check v r)) vs.
(* state of an instance of v after the rules *)
Definition facc (E : excl) (v : vkind) (rules : list rule) (s : vstate) : vstate :=
  fold_left (fun s r => if excluded E r v then s else v_acc v s r) rules s.
Definition final_part (E : excl) (vs : list vkind) (rules : list rule) : list issue :=
  flat_map (fun v => v_finalize v (facc E v rules s_init)) vs.
Definition pure_validate (E : excl) (vs : list vkind) (rules : list rule) : list issue :=
  flat_map (rule_part E vs) rules ++ final_part E vs rules.

Definition step_insts (E : excl) (r : rule) (insts : list inst) : list inst :=
  map (fun i => (fst i, if excluded E r (fst i) then snd i else v_acc (fst i) (snd i) r)) insts.

Lemma validate_rule_char E r insts :
  (checks_ok E (map fst insts) r = true ->
   validate_rule E insts r = Ok (rule_part E (map fst insts) r, step_insts E r insts)) /\
  (checks_ok E (map fst insts) r = false -> forall x, validate_rule E insts r <> Ok x).
Proof.
  induction insts as [|[v s] rest [IH1 IH2]]; simpl.
  - split; [reflexivity | discriminate].
  - destruct (excluded E r v) eqn:Ex; simpl.
    + split.
      * intros H. rewrite (IH1 H). reflexivity.
      * intros H x. specialize (IH2 H). destruct (validate_rule E rest r); simpl; try discriminate.
        exfalso. eapply IH2. reflexivity.
    + unfold v_validate. destruct (v_check v r) as [l|c|c] eqn:Ec; simpl.
      * split.
        -- intros H. rewrite (IH1 H). reflexivity.
        -- intros H x. specialize (IH2 H). destruct (validate_rule E rest r); simpl; try discriminate.
           exfalso. eapply IH2. reflexivity.
      * split; [discriminate | intros _ x; discriminate].
      * split; [discriminate | intros _ x; discriminate].
Qed.

Lemma step_insts_fst E r insts : map fst (step_insts E r insts) = map fst insts.
Proof. unfold step_insts. rewrite map_map. reflexivity. Qed.

Definition run_insts (E : excl) (rules : list rule) (insts : list inst) : list inst :=
  map (fun i => (fst i, facc E (fst i) rules (snd i))) insts.

Lemma run_insts_cons E r rules insts :
  run_insts E (r :: rules) insts = run_insts E rules (step_insts E r insts).
Proof. unfold run_insts, step_insts. rewrite map_map. reflexivity. Qed.

Lemma validate_loop_char E rules : forall insts,
  (all_ok E (map fst insts) rules = true ->
   validate_loop E insts rules = Ok (flat_map (rule_part E (map fst insts)) rules, run_insts E rules insts)) /\
  (all_ok E (map fst insts) rules = false -> forall x, validate_loop E insts rules <> Ok x).
Proof.
  induction rules as [|r rules IH]; intros insts; simpl.
  - split; [|discriminate]. intros _. unfold run_insts. simpl.
    f_equal. f_equal. induction insts as [|[v s] l IHl]; simpl; congruence.
  - destruct (validate_rule_char E r insts) as [R1 R2].
    destruct (checks_ok E (map fst insts) r) eqn:Ec; simpl.
    + rewrite (R1 eq_refl). simpl.
      destruct (IH (step_insts E r insts)) as [L1 L2]. rewrite step_insts_fst in L1, L2. split.
      * intros H. rewrite (L1 H). simpl. rewrite run_insts_cons. reflexivity.
      * intros H x. specialize (L2 H).
        destruct (validate_loop E (step_insts E r insts) rules); simpl; try discriminate.
        exfalso. eapply L2. reflexivity.
    + split; [discriminate|]. intros _ x. specialize (R2 eq_refl).
      destruct (validate_rule E insts r); simpl; try discriminate. exfalso. eapply R2. reflexivity.
Qed.

Lemma map_fst_init vs : map fst (map (fun v : vkind => (v, s_init)) vs) = vs.
Proof. rewrite map_map. simpl. apply map_id. Qed.

(* validate_rules either raises (some validator that runs on some rule raises) or returns the
   issues of the rules in rule-major order followed by the finalisation of every instance *)
Theorem validate_char E vs rules :
  (all_ok E vs rules = true -> validate E vs rules = Ok (pure_validate E vs rules)) /\
  (all_ok E vs rules = false -> forall l, validate E vs rules <> Ok l).
Proof.
  unfold validate.
  destruct (validate_loop_char E rules (map (fun v => (v, s_init)) vs)) as [L1 L2].
  rewrite map_fst_init in L1, L2. split.
  - intros H. rewrite (L1 H). simpl. unfold pure_validate, final_part, finalize, run_insts.
    f_equal. f_equal. rewrite map_map. simpl. rewrite flat_map_concat_map, map_map. simpl.
    rewrite <- flat_map_concat_map. reflexivity.
  - intros H l. specialize (L2 H).
    destruct (validate_loop E (map (fun v => (v, s_init)) vs) rules); simpl; try discriminate.
    exfalso. eapply L2. reflexivity.
Qed.

Lemma validate_ok E vs rules l :
  validate E vs rules = Ok l -> all_ok E vs rules = true /\ l = pure_validate E vs rules.
Proof.
  intros H. destruct (validate_char E vs rules) as [V1 V2].
  destruct (all_ok E vs rules) eqn:Ea.
  - split; [reflexivity|]. rewrite (V1 eq_refl) in H. inversion H. reflexivity.
  - exfalso. exact (V2 eq_refl l H).
Qed.

(* ====================== E. the accumulated tables ====================== *)
Definition keyed := list (str * N).

Definition tbl_fold (kvs : keyed) (t : tbl) : tbl :=
  fold_left (fun t kv => tbl_add (fst kv) (snd kv) t) kvs t.

Definition vals_for (x : str) (kvs : keyed) : list N :=
  map snd (filter (fun kv => str_eqb (fst kv) x) kvs).

Lemma str_eqb_sym a b : str_eqb a b = str_eqb b a.
Proof.
  destruct (str_eqb a b) eqn:E1, (str_eqb b a) eqn:E2; try reflexivity.
  - apply str_eqb_eq in E1. subst. rewrite str_eqb_refl in E2. discriminate.
  - apply str_eqb_eq in E2. subst. rewrite str_eqb_refl in E1. discriminate.
Qed.

Lemma tbl_get_add x k r t :
  tbl_get x (tbl_add k r t) = tbl_get x t ++ (if str_eqb k x then [r] else []).
Proof.
  induction t as [|[k' rs] t IH]; simpl.
  - rewrite (str_eqb_sym x k). destruct (str_eqb k x); reflexivity.
  - destruct (str_eqb k k') eqn:Ek; simpl.
    + apply str_eqb_eq in Ek. subst k'. rewrite (str_eqb_sym x k).
      destruct (str_eqb k x); [reflexivity | rewrite app_nil_r; reflexivity].
    + destruct (str_eqb x k') eqn:Ex.
      * apply str_eqb_eq in Ex. subst k'. rewrite Ek. rewrite app_nil_r. reflexivity.
      * exact IH.
Qed.

Lemma tbl_keys_add k r t :
  map fst (tbl_add k r t) = if mem_str k (map fst t) then map fst t else map fst t ++ [k].
Proof.
  induction t as [|[k' rs] t IH]; simpl; [reflexivity|].
  destruct (str_eqb k k') eqn:Ek; simpl; [reflexivity|].
  rewrite IH. destruct (mem_str k (map fst t)); reflexivity.
Qed.

(* every entry holds what tbl_get returns for its key, keys are distinct *)
Definition tbl_wf (t : tbl) : Prop :=
  NoDup (map fst t) /\ forall k rs, In (k, rs) t -> rs = tbl_get k t.

Lemma tbl_get_notin x t : ~ In x (map fst t) -> tbl_get x t = [].
Proof.
  induction t as [|[k rs] t IH]; simpl; [reflexivity|]. intros H.
  destruct (str_eqb x k) eqn:E.
  - apply str_eqb_eq in E. subst. exfalso. apply H. left. reflexivity.
  - apply IH. intros X. apply H. right. exact X.
Qed.

Lemma tbl_wf_entries t : NoDup (map fst t) -> forall k rs, In (k, rs) t -> rs = tbl_get k t.
Proof.
  induction t as [|[k' rs'] t IH]; simpl; intros Hn k rs H; [contradiction|].
  inversion Hn as [|? ? Hni Hn']; subst. destruct H as [H|H].
  - inversion H; subst. rewrite str_eqb_refl. reflexivity.
  - destruct (str_eqb k k') eqn:E.
    + apply str_eqb_eq in E. subst k'. exfalso. apply Hni. apply in_map_iff. exists (k, rs). auto.
    + apply IH; assumption.
Qed.

Lemma NoDup_snoc {A} (l : list A) x : NoDup l -> ~ In x l -> NoDup (l ++ [x]).
Proof.
  intros H Hx. induction H as [|y l Hy H IH]; simpl.
  - constructor; [intros []|constructor].
  - constructor.
    + rewrite in_app_iff. intros [X|[X|[]]]; [exact (Hy X)|]. subst. apply Hx. left. reflexivity.
    + apply IH. intros X. apply Hx. right. exact X.
Qed.

Lemma tbl_add_NoDup k r t : NoDup (map fst t) -> NoDup (map fst (tbl_add k r t)).
Proof.
  intros H. rewrite tbl_keys_add. destruct (mem_str k (map fst t)) eqn:E; [exact H|].
  apply NoDup_snoc; [exact H|]. intros X. apply mem_str_In in X. congruence.
Qed.

Lemma tbl_fold_NoDup kvs : forall t, NoDup (map fst t) -> NoDup (map fst (tbl_fold kvs t)).
Proof.
  induction kvs as [|[k r] kvs IH]; intros t H; simpl; [exact H|].
  apply IH. apply tbl_add_NoDup. exact H.
Qed.

Lemma tbl_fold_get x kvs : forall t, tbl_get x (tbl_fold kvs t) = tbl_get x t ++ vals_for x kvs.
Proof.
  induction kvs as [|[k r] kvs IH]; intros t; simpl.
  - unfold vals_for. simpl. rewrite app_nil_r. reflexivity.
  - unfold tbl_fold in IH. rewrite IH. rewrite tbl_get_add. rewrite <- app_assoc. f_equal.
    unfold vals_for. simpl. destruct (str_eqb k x); reflexivity.
Qed.

Lemma tbl_fold_keys x kvs : forall t,
  In x (map fst (tbl_fold kvs t)) <-> In x (map fst t) \/ In x (map fst kvs).
Proof.
  induction kvs as [|[k r] kvs IH]; intros t; simpl.
  - tauto.
  - unfold tbl_fold in IH. rewrite IH. rewrite tbl_keys_add.
    destruct (mem_str k (map fst t)) eqn:E.
    + apply mem_str_In in E. split; [tauto|]. intros [H|[H|H]]; auto. subst. auto.
    + rewrite in_app_iff. simpl. tauto.
Qed.

(* entries of the table built from scratch *)
Lemma tbl_of_entry kvs x rs :
  In (x, rs) (tbl_fold kvs []) <-> rs = vals_for x kvs /\ In x (map fst kvs).
Proof.
  assert (Hn : NoDup (map fst (tbl_fold kvs []))) by (apply tbl_fold_NoDup; constructor).
  split.
  - intros H. split.
    + rewrite (tbl_wf_entries _ Hn _ _ H). rewrite tbl_fold_get. reflexivity.
    + assert (X : In x (map fst (tbl_fold kvs []))) by (apply in_map_iff; exists (x, rs); auto).
      apply tbl_fold_keys in X. destruct X as [[]|X]. exact X.
  - intros [-> Hx].
    assert (X : In x (map fst (tbl_fold kvs []))) by (apply tbl_fold_keys; right; exact Hx).
    apply in_map_iff in X. destruct X as ([k rs] & E & Hin). simpl in E. subst k.
    rewrite (tbl_wf_entries _ Hn _ _ Hin) in Hin. rewrite tbl_fold_get in Hin. exact Hin.
Qed.

(* the (value, rule) pairs a uniqueness validator sees *)
Definition kvs_of (E : excl) (v : vkind) (rules : list rule) : keyed :=
  flat_map (fun r => if excluded E r v then []
                     else match val_of v r with Some x => [(x, r_key r)] | None => [] end) rules.

Lemma vals_for_group E v rules x : vals_for x (kvs_of E v rules) = group E v rules x.
Proof.
  unfold vals_for, group, kvs_of, has_val. induction rules as [|r rules IH]; simpl; [reflexivity|].
  rewrite filter_app, map_app, IH. destruct (excluded E r v); simpl; [reflexivity|].
  destruct (val_of v r) as [y|]; simpl; [|reflexivity].
  unfold oid_eqb. simpl. destruct (str_eqb y x); reflexivity.
Qed.

Lemma in_keys_group E v rules x :
  In x (map fst (kvs_of E v rules)) <-> group E v rules x <> [].
Proof.
  rewrite <- vals_for_group. unfold vals_for. split.
  - intros H. apply in_map_iff in H. destruct H as ([k r] & Ek & Hin). simpl in Ek. subst k.
    intros X. assert (Y : In r (map snd (filter (fun kv => str_eqb (fst kv) x) (kvs_of E v rules)))).
    { apply in_map_iff. exists (x, r). split; [reflexivity|]. apply filter_In. split; [exact Hin|]. apply str_eqb_refl. }
    rewrite X in Y. exact Y.
  - intros H. destruct (filter (fun kv => str_eqb (fst kv) x) (kvs_of E v rules)) as [|[k r] l] eqn:Ef; [exfalso; apply H; reflexivity|].
    assert (Y : In (k, r) (filter (fun kv => str_eqb (fst kv) x) (kvs_of E v rules))) by (rewrite Ef; left; reflexivity).
    apply filter_In in Y. destruct Y as [Y1 Y2]. simpl in Y2. apply str_eqb_eq in Y2. subst k.
    apply in_map_iff. exists (x, r). auto.
Qed.

Definition has_tbl (v : vkind) : bool := match v with VIdUniq | VTitle | VFile => true | _ => false end.

Lemma facc_cons E v r rules s :
  facc E v (r :: rules) s = facc E v rules (if excluded E r v then s else v_acc v s r).
Proof. reflexivity. Qed.

Lemma facc_tbl E v rules : forall s,
  has_tbl v = true -> s_tbl (facc E v rules s) = tbl_fold (kvs_of E v rules) (s_tbl s).
Proof.
  induction rules as [|r rules IH]; intros s Hv; [reflexivity|].
  rewrite facc_cons, IH by exact Hv.
  change (kvs_of E v (r :: rules)) with
    ((if excluded E r v then [] else match val_of v r with Some x => [(x, r_key r)] | None => [] end) ++ kvs_of E v rules).
  unfold tbl_fold. rewrite fold_left_app.
  f_equal. destruct (excluded E r v); simpl; [reflexivity|].
  destruct v; try discriminate; simpl.
  - destruct (r_id r); reflexivity.
  - destruct (r_title r); reflexivity.
  - destruct (r_path r); reflexivity.
Qed.

(* ====================== F. kinds, membership, exact groups ====================== *)
Lemma v_check_kind v r l : v_check v r = Ok l -> Forall (fun i => kind_of i = v) l.
Proof.
  destruct v; simpl.
  - destruct (r_corr r); [intros H; inversion H; constructor|].
    destruct (parse_all (r_conds r)); simpl; try discriminate. intros H. inversion H; subst.
    apply Forall_forall. intros i Hi. apply in_map_iff in Hi. destruct Hi as (x & <- & _). reflexivity.
  - destruct (r_corr r); [intros H; inversion H; constructor|].
    destruct (parse_all (r_conds r)); simpl; try discriminate. intros H. inversion H; subst.
    apply Forall_forall. intros i Hi. apply in_map_iff in Hi. destruct Hi as (x & <- & _). reflexivity.
  - destruct (r_id r); intros H; inversion H; repeat constructor.
  - intros H; inversion H; constructor.
  - intros H; inversion H; constructor.
  - intros H; inversion H; constructor.
Qed.

Lemma okl_kind v r : Forall (fun i => kind_of i = v) (okl (v_check v r)).
Proof. destruct (v_check v r) eqn:E; simpl; try constructor. eapply v_check_kind. exact E. Qed.

Lemma v_finalize_kind v s : Forall (fun i => kind_of i = v) (v_finalize v s).
Proof.
  apply Forall_forall. intros i Hi. destruct v; simpl in Hi; try contradiction;
    apply in_flat_map in Hi; destruct Hi as (x & _ & Hi);
    destruct (_ <? _)%nat; simpl in Hi; try contradiction; destruct Hi as [<-|[]]; reflexivity.
Qed.

(* where an issue of the result comes from *)
Lemma pure_validate_In E vs rules i :
  In i (pure_validate E vs rules) <->
  (exists r, In r rules /\ In (kind_of i) vs /\ excluded E r (kind_of i) = false /\ In i (okl (v_check (kind_of i) r)))
  \/ (In (kind_of i) vs /\ In i (v_finalize (kind_of i) (facc E (kind_of i) rules s_init))).
Proof.
  unfold pure_validate, rule_part, final_part. rewrite in_app_iff, !in_flat_map. split.
  - intros [(r & Hr & H)|(v & Hv & H)].
    + left. apply in_flat_map in H. destruct H as (v & Hv & H).
      destruct (excluded E r v) eqn:Ex; [contradiction|].
      pose proof (okl_kind v r) as K. rewrite Forall_forall in K. rewrite (K i H).
      exists r. auto.
    + right. pose proof (v_finalize_kind v (facc E v rules s_init)) as K. rewrite Forall_forall in K.
      rewrite (K i H). auto.
  - intros [(r & Hr & Hv & Ex & H)|(Hv & H)].
    + left. exists r. split; [exact Hr|]. apply in_flat_map. exists (kind_of i). split; [exact Hv|].
      rewrite Ex. exact H.
    + right. exists (kind_of i). auto.
Qed.

(* ---- the reference checks inside a whole validation run ---- *)
Lemma all_ok_In E vs rules r v :
  all_ok E vs rules = true -> In r rules -> In v vs -> excluded E r v = false ->
  exists l, v_check v r = Ok l.
Proof.
  intros H Hr Hv Ex. unfold all_ok in H. rewrite forallb_forall in H. specialize (H r Hr).
  unfold checks_ok in H. rewrite forallb_forall in H. specialize (H v Hv). rewrite Ex in H. simpl in H.
  destruct (v_check v r) as [l| |]; try discriminate. exists l. reflexivity.
Qed.

Lemma v_check_parse r v l :
  (v = VUnused \/ v = VDangling) -> r_corr r = false -> v_check v r = Ok l ->
  exists ts, parse_all (r_conds r) = Ok ts.
Proof.
  intros [->| ->] Hc; simpl; rewrite Hc; destruct (parse_all (r_conds r)) as [ts| |]; simpl; try discriminate;
    intros _; exists ts; reflexivity.
Qed.

Lemma v_check_corr r v : r_corr r = true -> (v = VUnused \/ v = VDangling) -> v_check v r = Ok [].
Proof. intros Hc [->| ->]; simpl; rewrite Hc; reflexivity. Qed.

Theorem validate_unused_iff E vs rules l k n :
  validate E vs rules = Ok l ->
  (In (IUnused k n) l <->
   exists r ts, In r rules /\ r_key r = k /\ In VUnused vs /\ excluded E r VUnused = false /\
                r_corr r = false /\ parse_all (r_conds r) = Ok ts /\
                In n (r_dets r) /\ ~ exists t, In t ts /\ Refers (r_dets r) t n).
Proof.
  intros H. apply validate_ok in H. destruct H as [Hok ->]. rewrite pure_validate_In. cbn [kind_of]. split.
  - intros [(r & Hr & Hv & Ex & Hi)|[_ []]].
    destruct (all_ok_In _ _ _ _ _ Hok Hr Hv Ex) as [l0 Hl0]. rewrite Hl0 in Hi. simpl in Hi.
    destruct (r_corr r) eqn:Hc.
    { rewrite (v_check_corr r VUnused Hc) in Hl0 by auto. inversion Hl0; subst. contradiction. }
    destruct (v_check_parse r VUnused l0 (or_introl eq_refl) Hc Hl0) as [ts Hts].
    apply (unused_iff r ts l0 Hc Hts Hl0) in Hi. destruct Hi as (-> & H1 & H2).
    exists r, ts. repeat split; auto.
  - intros (r & ts & Hr & <- & Hv & Ex & Hc & Hts & H1 & H2). left. exists r. repeat split; auto.
    rewrite (v_check_unused r ts Hc Hts). simpl.
    pose proof (unused_iff r ts _ Hc Hts (v_check_unused r ts Hc Hts) (r_key r) n) as X.
    apply X. auto.
Qed.

Theorem validate_dangling_iff E vs rules l k p :
  validate E vs rules = Ok l ->
  (In (IDangling k p) l <->
   exists r ts, In r rules /\ r_key r = k /\ In VDangling vs /\ excluded E r VDangling = false /\
                r_corr r = false /\ parse_all (r_conds r) = Ok ts /\
                (exists t, In t ts /\ HasSel t p) /\ Unmatched (r_dets r) p).
Proof.
  intros H. apply validate_ok in H. destruct H as [Hok ->]. rewrite pure_validate_In. cbn [kind_of]. split.
  - intros [(r & Hr & Hv & Ex & Hi)|[_ []]].
    destruct (all_ok_In _ _ _ _ _ Hok Hr Hv Ex) as [l0 Hl0]. rewrite Hl0 in Hi. simpl in Hi.
    destruct (r_corr r) eqn:Hc.
    { rewrite (v_check_corr r VDangling Hc) in Hl0 by auto. inversion Hl0; subst. contradiction. }
    destruct (v_check_parse r VDangling l0 (or_intror eq_refl) Hc Hl0) as [ts Hts].
    apply (dangling_iff r ts l0 Hc Hts Hl0) in Hi. destruct Hi as (-> & H1 & H2).
    exists r, ts. repeat split; auto.
  - intros (r & ts & Hr & <- & Hv & Ex & Hc & Hts & H1 & H2). left. exists r. repeat split; auto.
    rewrite (v_check_dangling r ts Hc Hts). simpl.
    pose proof (dangling_iff r ts _ Hc Hts (v_check_dangling r ts Hc Hts) (r_key r) p) as X.
    apply X. auto.
Qed.

(* ---- identifier and title groups ---- *)
Lemma okl_no_group v r i :
  In i (okl (v_check v r)) -> match i with IIdColl _ _ | ITitle _ _ | IFile _ _ => False | _ => True end.
Proof.
  destruct v; simpl.
  - destruct (r_corr r); simpl; [intros []|]. destruct (parse_all (r_conds r)); simpl; try (intros []).
    intros H. apply in_map_iff in H. destruct H as (x & <- & _). exact I.
  - destruct (r_corr r); simpl; [intros []|]. destruct (parse_all (r_conds r)); simpl; try (intros []).
    intros H. apply in_map_iff in H. destruct H as (x & <- & _). exact I.
  - destruct (r_id r); simpl; [intros []|]. intros [<-|[]]. exact I.
  - intros [].
  - intros [].
  - intros [].
Qed.

Lemma tbl_finalize_In (mk : list N -> str -> issue) (t : tbl) ks x :
  (forall a b c d, mk a b = mk c d -> a = c /\ b = d) ->
  In (mk ks x) (flat_map (fun kr => if (1 <? length (snd kr))%nat then [mk (snd kr) (fst kr)] else []) t)
  <-> In (x, ks) t /\ (2 <= length ks)%nat.
Proof.
  intros Hinj. rewrite in_flat_map. split.
  - intros ([k rs] & Hin & H). simpl in H. destruct (1 <? length rs)%nat eqn:El; [|contradiction].
    destruct H as [H|[]]. apply Hinj in H. destruct H; subst. apply Nat.ltb_lt in El. split; [exact Hin | lia].
  - intros [Hin Hl]. exists (x, ks). split; [exact Hin|]. simpl.
    assert (El : (1 <? length ks)%nat = true) by (apply Nat.ltb_lt; lia). rewrite El. left. reflexivity.
Qed.

Lemma group_len_nonempty E v rules x : (2 <= length (group E v rules x))%nat -> group E v rules x <> [].
Proof. destruct (group E v rules x); simpl; [lia | discriminate]. Qed.

Theorem validate_idcoll_iff E vs rules l ks x :
  validate E vs rules = Ok l ->
  (In (IIdColl ks x) l <-> In VIdUniq vs /\ ks = group E VIdUniq rules x /\ (2 <= length ks)%nat).
Proof.
  intros H. apply validate_ok in H. destruct H as [Hok ->]. rewrite pure_validate_In. cbn [kind_of]. split.
  - intros [(r & _ & _ & _ & Hi)|[Hv Hi]]; [apply okl_no_group in Hi; contradiction|].
    apply (tbl_finalize_In IIdColl) in Hi; [|intros a b c d X; inversion X; auto].
    destruct Hi as [Hin Hl]. rewrite facc_tbl in Hin by reflexivity. simpl in Hin.
    apply tbl_of_entry in Hin. destruct Hin as [-> _]. rewrite vals_for_group in *. auto.
  - intros (Hv & -> & Hl). right. split; [exact Hv|].
    apply (tbl_finalize_In IIdColl); [intros a b c d X; inversion X; auto|]. split; [|exact Hl].
    rewrite facc_tbl by reflexivity. simpl. apply tbl_of_entry. split; [symmetry; apply vals_for_group|].
    apply in_keys_group. apply group_len_nonempty. exact Hl.
Qed.

Theorem validate_title_iff E vs rules l ks x :
  validate E vs rules = Ok l ->
  (In (ITitle ks x) l <-> In VTitle vs /\ ks = group E VTitle rules x /\ (2 <= length ks)%nat).
Proof.
  intros H. apply validate_ok in H. destruct H as [Hok ->]. rewrite pure_validate_In. cbn [kind_of]. split.
  - intros [(r & _ & _ & _ & Hi)|[Hv Hi]]; [apply okl_no_group in Hi; contradiction|].
    apply (tbl_finalize_In ITitle) in Hi; [|intros a b c d X; inversion X; auto].
    destruct Hi as [Hin Hl]. rewrite facc_tbl in Hin by reflexivity. simpl in Hin.
    apply tbl_of_entry in Hin. destruct Hin as [-> _]. rewrite vals_for_group in *. auto.
  - intros (Hv & -> & Hl). right. split; [exact Hv|].
    apply (tbl_finalize_In ITitle); [intros a b c d X; inversion X; auto|]. split; [|exact Hl].
    rewrite facc_tbl by reflexivity. simpl. apply tbl_of_entry. split; [symmetry; apply vals_for_group|].
    apply in_keys_group. apply group_len_nonempty. exact Hl.
Qed.

(* ====================== G. file names: the table of paths ====================== *)
Lemma path_eqb_eq a b : path_eqb a b = true <-> a = b.
Proof. apply list_eqb_eq. exact str_eqb_eq. Qed.

Definition add_new (p : list str) (ps : list (list str)) : list (list str) :=
  if existsb (path_eqb p) ps then ps else ps ++ [p].

Fixpoint ptbl_get (k : str) (t : ptbl) : list (list str) :=
  match t with
  | [] => []
  | (k', ps) :: t' => if str_eqb k k' then ps else ptbl_get k t'
  end.

Definition ptbl_fold (kps : list (str * list str)) (t : ptbl) : ptbl :=
  fold_left (fun t kp => ptbl_add (fst kp) (snd kp) t) kps t.

Lemma existsb_path_In p ps : existsb (path_eqb p) ps = true <-> In p ps.
Proof.
  rewrite existsb_exists. split.
  - intros (x & Hx & E). apply path_eqb_eq in E. subst. exact Hx.
  - intros H. exists p. split; [exact H | apply path_eqb_eq; reflexivity].
Qed.

Lemma ptbl_get_add x k p t :
  ptbl_get x (ptbl_add k p t) = if str_eqb k x then add_new p (ptbl_get x t) else ptbl_get x t.
Proof.
  induction t as [|[k' ps] t IH]; simpl.
  - rewrite (str_eqb_sym x k). destruct (str_eqb k x); reflexivity.
  - destruct (str_eqb k k') eqn:Ek; simpl.
    + apply str_eqb_eq in Ek. subst k'. rewrite (str_eqb_sym x k). destruct (str_eqb k x); reflexivity.
    + destruct (str_eqb x k') eqn:Ex.
      * apply str_eqb_eq in Ex. subst k'. rewrite Ek. reflexivity.
      * exact IH.
Qed.

Lemma ptbl_keys_add k p t :
  map fst (ptbl_add k p t) = if mem_str k (map fst t) then map fst t else map fst t ++ [k].
Proof.
  induction t as [|[k' ps] t IH]; simpl; [reflexivity|].
  destruct (str_eqb k k') eqn:Ek; simpl; [reflexivity|].
  rewrite IH. destruct (mem_str k (map fst t)); reflexivity.
Qed.

Lemma ptbl_fold_NoDup kps : forall t, NoDup (map fst t) -> NoDup (map fst (ptbl_fold kps t)).
Proof.
  induction kps as [|[k p] kps IH]; intros t H; simpl; [exact H|].
  apply IH. rewrite ptbl_keys_add. destruct (mem_str k (map fst t)) eqn:E; [exact H|].
  apply NoDup_snoc; [exact H|]. intros X. apply mem_str_In in X. congruence.
Qed.

Lemma ptbl_entries t : NoDup (map fst t) -> forall k ps, In (k, ps) t -> ps = ptbl_get k t.
Proof.
  induction t as [|[k' ps'] t IH]; simpl; intros Hn k ps H; [contradiction|].
  inversion Hn as [|? ? Hni Hn']; subst. destruct H as [H|H].
  - inversion H; subst. rewrite str_eqb_refl. reflexivity.
  - destruct (str_eqb k k') eqn:E.
    + apply str_eqb_eq in E. subst k'. exfalso. apply Hni. apply in_map_iff. exists (k, ps). auto.
    + apply IH; assumption.
Qed.

Lemma add_new_In p q ps : In q (add_new p ps) <-> q = p \/ In q ps.
Proof.
  unfold add_new. destruct (existsb (path_eqb p) ps) eqn:E.
  - apply existsb_path_In in E. split; [auto|]. intros [->|H]; assumption.
  - rewrite in_app_iff. simpl. split; [intros [H|[H|[]]]; auto | intros [H|H]; auto].
Qed.

Lemma add_new_NoDup p ps : NoDup ps -> NoDup (add_new p ps).
Proof.
  intros H. unfold add_new. destruct (existsb (path_eqb p) ps) eqn:E; [exact H|].
  apply NoDup_snoc; [exact H|]. intros X. apply existsb_path_In in X. congruence.
Qed.

Lemma ptbl_fold_get_In x q kps : forall t,
  In q (ptbl_get x (ptbl_fold kps t)) <-> In q (ptbl_get x t) \/ In (x, q) kps.
Proof.
  induction kps as [|[k p] kps IH]; intros t; simpl; [tauto|].
  unfold ptbl_fold in IH. rewrite IH. rewrite ptbl_get_add. destruct (str_eqb k x) eqn:E.
  - apply str_eqb_eq in E. subst k. rewrite add_new_In. split.
    + intros [[->|H]|H]; auto.
    + intros [H|[H|H]]; auto. inversion H; subst. auto.
  - split; [tauto|]. intros [H|[H|H]]; auto. inversion H; subst. rewrite str_eqb_refl in E. discriminate.
Qed.

Lemma ptbl_fold_get_NoDup x kps : forall t,
  NoDup (ptbl_get x t) -> NoDup (ptbl_get x (ptbl_fold kps t)).
Proof.
  induction kps as [|[k p] kps IH]; intros t H; simpl; [exact H|].
  apply IH. rewrite ptbl_get_add. destruct (str_eqb k x); [apply add_new_NoDup; exact H | exact H].
Qed.

Lemma ptbl_fold_keys x kps : forall t,
  In x (map fst (ptbl_fold kps t)) <-> In x (map fst t) \/ In x (map fst kps).
Proof.
  induction kps as [|[k p] kps IH]; intros t; simpl; [tauto|].
  unfold ptbl_fold in IH. rewrite IH. rewrite ptbl_keys_add.
  destruct (mem_str k (map fst t)) eqn:E.
  - apply mem_str_In in E. split; [tauto|]. intros [H|[H|H]]; auto. subst. auto.
  - rewrite in_app_iff. simpl. tauto.
Qed.

Lemma NoDup_two {A} (l : list A) :
  NoDup l -> ((2 <= length l)%nat <-> exists a b, In a l /\ In b l /\ a <> b).
Proof.
  intros H. split.
  - destruct l as [|a [|b l]]; simpl; try lia. intros _. exists a, b. repeat split; auto.
    inversion H; subst. intros ->. apply H2. left. reflexivity.
  - intros (a & b & Ha & Hb & Hab). destruct l as [|x [|y l]]; simpl in *; try lia; try contradiction.
    destruct Ha as [<-|[]], Hb as [<-|[]]. congruence.
Qed.

(* the (file name, path) pairs the file-name validator sees *)
Definition kps_of (E : excl) (rules : list rule) : list (str * list str) :=
  flat_map (fun r => if excluded E r VFile then []
                     else match r_path r with Some p => [(path_name p, p)] | None => [] end) rules.

Lemma facc_paths E rules : forall s,
  s_paths (facc E VFile rules s) = ptbl_fold (kps_of E rules) (s_paths s).
Proof.
  induction rules as [|r rules IH]; intros s; [reflexivity|].
  rewrite facc_cons, IH.
  change (kps_of E (r :: rules)) with
    ((if excluded E r VFile then [] else match r_path r with Some p => [(path_name p, p)] | None => [] end) ++ kps_of E rules).
  unfold ptbl_fold. rewrite fold_left_app. f_equal.
  destruct (excluded E r VFile); simpl; [reflexivity|]. destruct (r_path r); reflexivity.
Qed.

Lemma kps_of_In E rules x p :
  In (x, p) (kps_of E rules) <->
  exists r, In r rules /\ excluded E r VFile = false /\ r_path r = Some p /\ path_name p = x.
Proof.
  unfold kps_of. rewrite in_flat_map. split.
  - intros (r & Hr & H). destruct (excluded E r VFile) eqn:Ex; [contradiction|].
    destruct (r_path r) as [q|] eqn:Ep; [|contradiction]. destruct H as [H|[]]. inversion H; subst.
    exists r. auto.
  - intros (r & Hr & Ex & Ep & En). exists r. split; [exact Hr|]. rewrite Ex, Ep. left. subst. reflexivity.
Qed.

Theorem validate_file_iff E vs rules l ks x :
  validate E vs rules = Ok l ->
  (In (IFile ks x) l <-> In VFile vs /\ ks = group E VFile rules x /\ two_paths E rules x).
Proof.
  intros H. apply validate_ok in H. destruct H as [Hok ->]. rewrite pure_validate_In. cbn [kind_of].
  set (S := facc E VFile rules s_init).
  assert (HT : s_tbl S = tbl_fold (kvs_of E VFile rules) []) by (unfold S; rewrite facc_tbl by reflexivity; reflexivity).
  assert (HP : s_paths S = ptbl_fold (kps_of E rules) []) by (unfold S; rewrite facc_paths; reflexivity).
  assert (HN : NoDup (map fst (s_paths S))) by (rewrite HP; apply ptbl_fold_NoDup; constructor).
  assert (HG : tbl_get x (s_tbl S) = group E VFile rules x).
  { rewrite HT, tbl_fold_get. simpl. apply vals_for_group. }
  assert (HD : NoDup (ptbl_get x (s_paths S))) by (rewrite HP; apply ptbl_fold_get_NoDup; constructor).
  assert (H2 : (2 <= length (ptbl_get x (s_paths S)))%nat <-> two_paths E rules x).
  { rewrite (NoDup_two _ HD). unfold two_paths. rewrite HP. split.
    - intros (a & b & Ha & Hb & Hab). apply ptbl_fold_get_In in Ha, Hb.
      destruct Ha as [[]|Ha], Hb as [[]|Hb]. apply kps_of_In in Ha, Hb.
      destruct Ha as (r1 & A1 & A2 & A3 & A4), Hb as (r2 & B1 & B2 & B3 & B4).
      exists r1, r2, a, b. repeat split; auto.
    - intros (r1 & r2 & p1 & p2 & A1 & B1 & A2 & B2 & A3 & B3 & A4 & B4 & Hne).
      exists p1, p2. repeat split; auto; apply ptbl_fold_get_In; right; apply kps_of_In; eauto. }
  split.
  - intros [(r & _ & _ & _ & Hi)|[Hv Hi]]; [apply okl_no_group in Hi; contradiction|].
    split; [exact Hv|]. simpl in Hi. fold S in Hi. apply in_flat_map in Hi. destruct Hi as ([k ps] & Hin & Hi).
    simpl in Hi. destruct (1 <? length ps)%nat eqn:El; [|contradiction]. destruct Hi as [Hi|[]].
    inversion Hi; subst. split; [exact HG|]. apply H2.
    rewrite <- (ptbl_entries _ HN _ _ Hin). apply Nat.ltb_lt in El. lia.
  - intros (Hv & -> & Htp). right. split; [exact Hv|]. simpl. fold S. apply in_flat_map.
    apply H2 in Htp.
    assert (Hk : In x (map fst (s_paths S))).
    { destruct (ptbl_get x (s_paths S)) as [|q qs] eqn:Eq; [simpl in Htp; lia|].
      clear -Eq. induction (s_paths S) as [|[k ps] t IH]; simpl in *; [discriminate|].
      destruct (str_eqb x k) eqn:Exk; [left; apply str_eqb_eq in Exk; auto | right; apply IH; exact Eq]. }
    apply in_map_iff in Hk. destruct Hk as ([k ps] & Ek & Hin). simpl in Ek. subst k.
    exists (x, ps). split; [exact Hin|]. simpl.
    rewrite (ptbl_entries _ HN _ _ Hin).
    assert (El : (1 <? length (ptbl_get x (s_paths S)))%nat = true) by (apply Nat.ltb_lt; lia).
    rewrite El. rewrite HG. left. reflexivity.
Qed.

(* ====================== H. exclusions ====================== *)
Definition of_kind (v : vkind) (i : issue) : bool := vkind_eqb (kind_of i) v.

Lemma vkind_eqb_eq a b : vkind_eqb a b = true <-> a = b.
Proof. destruct a, b; simpl; split; intros H; try reflexivity; try discriminate. Qed.

Lemma filter_all_kind v l : Forall (fun i => kind_of i = v) l -> filter (of_kind v) l = l.
Proof.
  induction 1 as [|i l Hi _ IH]; simpl; [reflexivity|]. unfold of_kind at 1. rewrite Hi.
  rewrite (proj2 (vkind_eqb_eq v v) eq_refl). rewrite IH. reflexivity.
Qed.

Lemma filter_other_kind v v' l : v' <> v -> Forall (fun i => kind_of i = v') l -> filter (of_kind v) l = [].
Proof.
  intros Hne. induction 1 as [|i l Hi _ IH]; simpl; [reflexivity|]. unfold of_kind at 1. rewrite Hi.
  destruct (vkind_eqb v' v) eqn:E; [apply vkind_eqb_eq in E; contradiction | exact IH].
Qed.

Lemma filter_flat_map {A B} (p : B -> bool) (f : A -> list B) l :
  filter p (flat_map f l) = flat_map (fun a => filter p (f a)) l.
Proof. induction l as [|a l IH]; simpl; [reflexivity|]. rewrite filter_app, IH. reflexivity. Qed.

(* among the contributions of distinct validators, only v's are of kind v *)
Lemma filter_kind_flat_map v (f : vkind -> list issue) vs :
  (forall v', Forall (fun i => kind_of i = v') (f v')) -> NoDup vs -> In v vs ->
  filter (of_kind v) (flat_map f vs) = f v.
Proof.
  intros Hf Hn Hv. induction vs as [|a vs IH]; [contradiction|]. simpl. rewrite filter_app.
  inversion Hn as [|? ? Hna Hn']; subst. destruct Hv as [->|Hv].
  - rewrite (filter_all_kind v _ (Hf v)).
    assert (X : filter (of_kind v) (flat_map f vs) = []).
    { clear IH Hn Hn'. induction vs as [|b vs IHb]; simpl; [reflexivity|]. rewrite filter_app.
      rewrite (filter_other_kind v b _); [|intros ->; apply Hna; left; reflexivity | apply Hf].
      apply IHb. intros X. apply Hna. right. exact X. }
    rewrite X. apply app_nil_r.
  - rewrite (filter_other_kind v a _); [|intros ->; contradiction | apply Hf]. simpl. apply IH; assumption.
Qed.

Lemma excluded_nil r v : excluded [] r v = false.
Proof. reflexivity. Qed.

Definition seen (E : excl) (v : vkind) (rules : list rule) : list rule :=
  filter (fun r => negb (excluded E r v)) rules.

Lemma facc_seen E v rules : forall s, facc E v rules s = facc [] v (seen E v rules) s.
Proof.
  induction rules as [|r rules IH]; intros s; [reflexivity|]. rewrite facc_cons.
  unfold seen. cbn [filter]. fold (seen E v rules).
  destruct (excluded E r v); cbn [negb]; [apply IH|]. rewrite facc_cons, excluded_nil. apply IH.
Qed.

(* exclusions suppress exactly the excluded validator for the excluded rule: what validator v
   contributes to a run with exclusions is what it reports, alone and without exclusions, on the
   rules it is not excluded for - nothing else changes *)
Theorem exclusions_exact E vs rules l v :
  validate E vs rules = Ok l -> NoDup vs -> In v vs ->
  validate [] [v] (seen E v rules) = Ok (filter (of_kind v) l).
Proof.
  intros H Hn Hv. apply validate_ok in H. destruct H as [Hok ->].
  destruct (validate_char [] [v] (seen E v rules)) as [V1 _]. rewrite V1.
  - f_equal. unfold pure_validate. rewrite filter_app. f_equal.
    + rewrite filter_flat_map. unfold seen. clear Hok V1. induction rules as [|r rules IH]; [reflexivity|].
      cbn [flat_map filter].
      assert (X : filter (of_kind v) (rule_part E vs r) = if excluded E r v then [] else okl (v_check v r)).
      { unfold rule_part.
        apply (filter_kind_flat_map v (fun v0 => if excluded E r v0 then [] else okl (v_check v0 r)) vs); auto.
        intros v'. destruct (excluded E r v'); [constructor | apply okl_kind]. }
      rewrite X. destruct (excluded E r v); cbn [negb].
      * exact IH.
      * cbn [flat_map]. rewrite <- IH. unfold rule_part at 1. cbn [flat_map]. rewrite excluded_nil, app_nil_r. reflexivity.
    + unfold final_part. cbn [flat_map]. rewrite app_nil_r.
      rewrite (filter_kind_flat_map v (fun v0 => v_finalize v0 (facc E v0 rules s_init)) vs); auto.
      * rewrite (facc_seen E v rules). reflexivity.
      * intros v'. apply v_finalize_kind.
  - unfold all_ok, seen. apply forallb_forall. intros r Hr. apply filter_In in Hr. destruct Hr as [Hr Ex].
    apply negb_true_iff in Ex. simpl. rewrite andb_true_r.
    destruct (all_ok_In _ _ _ _ _ Hok Hr Hv Ex) as [l0 ->]. reflexivity.
Qed.

(* an excluded (rule, validator) pair contributes nothing *)
Theorem excluded_silent E vs rules l i r :
  validate E vs rules = Ok l -> In i l -> In r rules -> excluded E r (kind_of i) = true ->
  match i with
  | IUnused k _ | IDangling k _ | INoId k => k <> r_key r \/ exists r', In r' rules /\ r' <> r /\ r_key r' = k
  | _ => True
  end.
Proof.
  intros H Hi Hr Ex. apply validate_ok in H. destruct H as [Hok ->]. apply pure_validate_In in Hi.
  destruct i as [k n|k n|k|ks x|ks x|ks x]; try exact I; cbn [kind_of] in *.
  - destruct Hi as [(r' & Hr' & _ & Ex' & Hi)|[_ []]].
    destruct (v_check VUnused r') eqn:Ec; simpl in Hi; try contradiction.
    pose proof (v_check_kind _ _ _ Ec) as K.
    assert (k = r_key r').
    { simpl in Ec. destruct (r_corr r'); [inversion Ec; subst; contradiction|].
      destruct (parse_all (r_conds r')); simpl in Ec; try discriminate. inversion Ec; subst.
      apply in_map_iff in Hi. destruct Hi as (y & Ey & _). inversion Ey. reflexivity. }
    subst k. destruct (N.eq_dec (r_key r') (r_key r)) as [Ek|Ek]; [|left; exact Ek].
    right. exists r'. repeat split; auto. intros ->. congruence.
  - destruct Hi as [(r' & Hr' & _ & Ex' & Hi)|[_ []]].
    destruct (v_check VDangling r') eqn:Ec; simpl in Hi; try contradiction.
    assert (k = r_key r').
    { simpl in Ec. destruct (r_corr r'); [inversion Ec; subst; contradiction|].
      destruct (parse_all (r_conds r')); simpl in Ec; try discriminate. inversion Ec; subst.
      apply in_map_iff in Hi. destruct Hi as (y & Ey & _). inversion Ey. reflexivity. }
    subst k. destruct (N.eq_dec (r_key r') (r_key r)) as [Ek|Ek]; [|left; exact Ek].
    right. exists r'. repeat split; auto. intros ->. congruence.
  - destruct Hi as [(r' & Hr' & _ & Ex' & Hi)|[_ []]].
    simpl in Hi. destruct (r_id r'); simpl in Hi; [contradiction|]. destruct Hi as [Hi|[]]. inversion Hi; subst.
    destruct (N.eq_dec (r_key r') (r_key r)) as [Ek|Ek]; [|left; exact Ek].
    right. exists r'. repeat split; auto. intros ->. congruence.
Qed.

(* ====================== I. order independence ====================== *)
Lemma ieq_refl i : ieq i i.
Proof. destruct i; simpl; auto. Qed.

Lemma Forall2_ieq_refl l : Forall2 ieq l l.
Proof. induction l; constructor; [apply ieq_refl | assumption]. Qed.

Lemma MEquiv_perm l l' : Permutation l l' -> MEquiv l l'.
Proof. intros H. exists l'. split; [exact H | apply Forall2_ieq_refl]. Qed.

Lemma MEquiv_app a a' b b' : MEquiv a a' -> MEquiv b b' -> MEquiv (a ++ b) (a' ++ b').
Proof.
  intros (m1 & P1 & F1) (m2 & P2 & F2). exists (m1 ++ m2). split.
  - apply Permutation_app; assumption.
  - apply Forall2_app; assumption.
Qed.

Lemma MEquiv_perm_l l m l' : Permutation l m -> MEquiv m l' -> MEquiv l l'.
Proof. intros P (m' & P' & F). exists m'. split; [eapply perm_trans; eassumption | exact F]. Qed.

Lemma MEquiv_flat_map_pointwise {A} (f f' : A -> list issue) K :
  (forall x, In x K -> MEquiv (f x) (f' x)) -> MEquiv (flat_map f K) (flat_map f' K).
Proof.
  induction K as [|x K IH]; intros H; simpl.
  - apply MEquiv_perm. constructor.
  - apply MEquiv_app; [apply H; left; reflexivity | apply IH; intros y Hy; apply H; right; exact Hy].
Qed.

Lemma perm_flat_map_outer {A B} (f : A -> list B) l l' :
  Permutation l l' -> Permutation (flat_map f l) (flat_map f l').
Proof.
  induction 1; simpl.
  - constructor.
  - apply Permutation_app_head. assumption.
  - rewrite !app_assoc. apply Permutation_app_tail. apply Permutation_app_comm.
  - eapply perm_trans; eassumption.
Qed.

Lemma perm_flat_map_pointwise {A B} (f g : A -> list B) l :
  (forall x, Permutation (f x) (g x)) -> Permutation (flat_map f l) (flat_map g l).
Proof. intros H. induction l; simpl; [constructor|]. apply Permutation_app; [apply H | assumption]. Qed.

Lemma perm_filter {A} (p : A -> bool) l l' : Permutation l l' -> Permutation (filter p l) (filter p l').
Proof.
  induction 1; simpl.
  - constructor.
  - destruct (p x); [constructor|]; assumption.
  - destruct (p x), (p y); try apply Permutation_refl. apply perm_swap.
  - eapply perm_trans; eassumption.
Qed.

Lemma forallb_perm {A} (p : A -> bool) l l' : Permutation l l' -> forallb p l = forallb p l'.
Proof.
  induction 1; simpl.
  - reflexivity.
  - rewrite IHPermutation. reflexivity.
  - destruct (p x), (p y); reflexivity.
  - congruence.
Qed.

Lemma forallb_ext_all {A} (p q : A -> bool) l : (forall x, p x = q x) -> forallb p l = forallb q l.
Proof. intros H. induction l; simpl; [reflexivity|]. rewrite H, IHl. reflexivity. Qed.

Lemma all_ok_perm E vs vs' rules rules' :
  Permutation vs vs' -> Permutation rules rules' -> all_ok E vs rules = all_ok E vs' rules'.
Proof.
  intros Pv Pr. unfold all_ok. rewrite (forallb_perm _ _ _ Pr). apply forallb_ext_all.
  intros r. unfold checks_ok. apply forallb_perm. exact Pv.
Qed.

(* a table read through its keys *)
Lemma tbl_flat_map_keys {B} (g : str -> list N -> list B) (t : tbl) :
  NoDup (map fst t) ->
  flat_map (fun kr => g (fst kr) (snd kr)) t = flat_map (fun x => g x (tbl_get x t)) (map fst t).
Proof.
  intros Hn. pose proof (tbl_wf_entries t Hn) as W.
  assert (X : forall l, (forall k rs, In (k, rs) l -> rs = tbl_get k t) ->
              flat_map (fun kr => g (fst kr) (snd kr)) l = flat_map (fun x => g x (tbl_get x t)) (map fst l)).
  { induction l as [|[k rs] l IH]; intros Hl; simpl; [reflexivity|].
    rewrite <- (Hl k rs (or_introl eq_refl)). f_equal. apply IH. intros k' rs' H. apply Hl. right. exact H. }
  apply X. exact W.
Qed.

Lemma ptbl_flat_map_keys {B} (g : str -> list (list str) -> list B) (t : ptbl) :
  NoDup (map fst t) ->
  flat_map (fun kp => g (fst kp) (snd kp)) t = flat_map (fun x => g x (ptbl_get x t)) (map fst t).
Proof.
  intros Hn. pose proof (ptbl_entries t Hn) as W.
  assert (X : forall l, (forall k ps, In (k, ps) l -> ps = ptbl_get k t) ->
              flat_map (fun kp => g (fst kp) (snd kp)) l = flat_map (fun x => g x (ptbl_get x t)) (map fst l)).
  { induction l as [|[k ps] l IH]; intros Hl; simpl; [reflexivity|].
    rewrite <- (Hl k ps (or_introl eq_refl)). f_equal. apply IH. intros k' ps' H. apply Hl. right. exact H. }
  apply X. exact W.
Qed.

Lemma kvs_of_perm E v rules rules' :
  Permutation rules rules' -> Permutation (kvs_of E v rules) (kvs_of E v rules').
Proof. apply perm_flat_map_outer. Qed.

Lemma kps_of_perm E rules rules' :
  Permutation rules rules' -> Permutation (kps_of E rules) (kps_of E rules').
Proof. apply perm_flat_map_outer. Qed.

Lemma vals_for_perm x kvs kvs' : Permutation kvs kvs' -> Permutation (vals_for x kvs) (vals_for x kvs').
Proof. intros P. unfold vals_for. apply Permutation_map. apply perm_filter. exact P. Qed.

Lemma tbl_keys_perm kvs kvs' :
  Permutation kvs kvs' -> Permutation (map fst (tbl_fold kvs [])) (map fst (tbl_fold kvs' [])).
Proof.
  intros P. apply NoDup_Permutation; try (apply tbl_fold_NoDup; constructor).
  intros x. rewrite !tbl_fold_keys. simpl.
  split; intros [[]|H]; right; eapply Permutation_in; try exact H; [apply Permutation_map; exact P | apply Permutation_map; symmetry; exact P].
Qed.

Lemma ptbl_keys_perm kps kps' :
  Permutation kps kps' -> Permutation (map fst (ptbl_fold kps [])) (map fst (ptbl_fold kps' [])).
Proof.
  intros P. apply NoDup_Permutation; try (apply ptbl_fold_NoDup; constructor).
  intros x. rewrite !ptbl_fold_keys. simpl.
  split; intros [[]|H]; right; eapply Permutation_in; try exact H; [apply Permutation_map; exact P | apply Permutation_map; symmetry; exact P].
Qed.

Lemma ptbl_get_perm x kps kps' :
  Permutation kps kps' -> Permutation (ptbl_get x (ptbl_fold kps [])) (ptbl_get x (ptbl_fold kps' [])).
Proof.
  intros P. apply NoDup_Permutation; try (apply ptbl_fold_get_NoDup; constructor).
  intros q. rewrite !ptbl_fold_get_In. simpl.
  split; intros [[]|H]; right; eapply Permutation_in; try exact H; [exact P | symmetry; exact P].
Qed.

Lemma tbl_finalize_perm (mk : list N -> str -> issue) kvs kvs' :
  (forall a b x, Permutation a b -> ieq (mk a x) (mk b x)) ->
  Permutation kvs kvs' ->
  MEquiv (flat_map (fun kr => if (1 <? length (snd kr))%nat then [mk (snd kr) (fst kr)] else []) (tbl_fold kvs []))
         (flat_map (fun kr => if (1 <? length (snd kr))%nat then [mk (snd kr) (fst kr)] else []) (tbl_fold kvs' [])).
Proof.
  intros Hmk P.
  rewrite (tbl_flat_map_keys (fun x rs => if (1 <? length rs)%nat then [mk rs x] else []) (tbl_fold kvs []))
    by (apply tbl_fold_NoDup; constructor).
  rewrite (tbl_flat_map_keys (fun x rs => if (1 <? length rs)%nat then [mk rs x] else []) (tbl_fold kvs' []))
    by (apply tbl_fold_NoDup; constructor).
  eapply MEquiv_perm_l; [apply perm_flat_map_outer; apply tbl_keys_perm; exact P|].
  apply MEquiv_flat_map_pointwise. intros x _. rewrite !tbl_fold_get. simpl.
  pose proof (vals_for_perm x _ _ P) as Pv. rewrite (Permutation_length Pv).
  destruct (1 <? length (vals_for x kvs'))%nat.
  - exists [mk (vals_for x kvs) x]. split; [apply Permutation_refl|]. constructor; [|constructor].
    apply Hmk. exact Pv.
  - apply MEquiv_perm. constructor.
Qed.

Lemma finalize_perm E v rules rules' :
  Permutation rules rules' ->
  MEquiv (v_finalize v (facc E v rules s_init)) (v_finalize v (facc E v rules' s_init)).
Proof.
  intros P. destruct v; try (apply MEquiv_perm; constructor).
  - simpl. rewrite !facc_tbl by reflexivity. simpl. apply (tbl_finalize_perm IIdColl).
    + intros a b x Pab. simpl. auto.
    + apply kvs_of_perm. exact P.
  - simpl. rewrite !facc_tbl by reflexivity. simpl. apply (tbl_finalize_perm ITitle).
    + intros a b x Pab. simpl. auto.
    + apply kvs_of_perm. exact P.
  - simpl. rewrite !facc_paths, !facc_tbl by reflexivity. simpl.
    set (T := tbl_fold (kvs_of E VFile rules) []). set (T' := tbl_fold (kvs_of E VFile rules') []).
    rewrite (ptbl_flat_map_keys (fun x ps => if (1 <? length ps)%nat then [IFile (tbl_get x T) x] else []) (ptbl_fold (kps_of E rules) []))
      by (apply ptbl_fold_NoDup; constructor).
    rewrite (ptbl_flat_map_keys (fun x ps => if (1 <? length ps)%nat then [IFile (tbl_get x T') x] else []) (ptbl_fold (kps_of E rules') []))
      by (apply ptbl_fold_NoDup; constructor).
    eapply MEquiv_perm_l; [apply perm_flat_map_outer; apply ptbl_keys_perm; apply kps_of_perm; exact P|].
    apply MEquiv_flat_map_pointwise. intros x _.
    rewrite (Permutation_length (ptbl_get_perm x _ _ (kps_of_perm E _ _ P))).
    destruct (1 <? length (ptbl_get x (ptbl_fold (kps_of E rules') [])))%nat.
    + exists [IFile (tbl_get x T) x]. split; [apply Permutation_refl|]. constructor; [|constructor]. simpl.
      split; [|reflexivity]. unfold T, T'. rewrite !tbl_fold_get. simpl. apply vals_for_perm. apply kvs_of_perm. exact P.
    + apply MEquiv_perm. constructor.
Qed.

Lemma pure_validate_perm E vs vs' rules rules' :
  Permutation vs vs' -> Permutation rules rules' ->
  MEquiv (pure_validate E vs rules) (pure_validate E vs' rules').
Proof.
  intros Pv Pr. unfold pure_validate. apply MEquiv_app.
  - apply MEquiv_perm. eapply perm_trans; [apply perm_flat_map_outer; exact Pr|].
    apply perm_flat_map_pointwise. intros r. unfold rule_part. apply perm_flat_map_outer. exact Pv.
  - unfold final_part. eapply MEquiv_perm_l; [apply perm_flat_map_outer; exact Pv|].
    apply MEquiv_flat_map_pointwise. intros v _. apply finalize_perm. exact Pr.
Qed.

(* the multiset of issues (a reported group being a set of rules) does not depend on the iteration
   order of the validator set nor on the order of the rules; neither does whether an error is raised *)
Theorem order_independent E vs vs' rules rules' :
  Permutation vs vs' -> Permutation rules rules' ->
  match validate E vs rules, validate E vs' rules' with
  | Ok l, Ok l' => MEquiv l l'
  | Ok _, _ | _, Ok _ => False
  | _, _ => True
  end.
Proof.
  intros Pv Pr. pose proof (all_ok_perm E _ _ _ _ Pv Pr) as Ha.
  destruct (validate_char E vs rules) as [A1 A2], (validate_char E vs' rules') as [B1 B2].
  destruct (all_ok E vs rules) eqn:E1.
  - rewrite (A1 eq_refl), (B1 (eq_sym Ha)). apply pure_validate_perm; assumption.
  - specialize (A2 eq_refl). symmetry in Ha. specialize (B2 Ha).
    destruct (validate E vs rules) as [l| |]; [exfalso; exact (A2 l eq_refl)| |];
      destruct (validate E vs' rules') as [l'| |]; try exact I; exfalso; exact (B2 l' eq_refl).
Qed.

(* ====================== J. summary statements ====================== *)
Theorem groups_exact E vs rules l :
  validate E vs rules = Ok l ->
  (forall ks x, In (IIdColl ks x) l <-> In VIdUniq vs /\ ks = group E VIdUniq rules x /\ (2 <= length ks)%nat) /\
  (forall ks x, In (ITitle ks x) l <-> In VTitle vs /\ ks = group E VTitle rules x /\ (2 <= length ks)%nat) /\
  (forall ks x, In (IFile ks x) l <-> In VFile vs /\ ks = group E VFile rules x /\ two_paths E rules x).
Proof.
  intros H. repeat split; intros; try (apply (validate_idcoll_iff E vs rules l ks x H); assumption);
    try (apply (validate_title_iff E vs rules l ks x H); assumption);
    try (apply (validate_file_iff E vs rules l ks x H); assumption).
Qed.

Theorem validate_raises_iff E vs rules :
  (exists l, validate E vs rules = Ok l) <->
  forall r v, In r rules -> In v vs -> excluded E r v = false -> exists l, v_check v r = Ok l.
Proof.
  split.
  - intros [l H] r v Hr Hv Ex. apply validate_ok in H. destruct H as [Hok _].
    eapply all_ok_In; eassumption.
  - intros H. exists (pure_validate E vs rules). apply validate_char.
    unfold all_ok. apply forallb_forall. intros r Hr. unfold checks_ok. apply forallb_forall. intros v Hv.
    destruct (excluded E r v) eqn:Ex; [reflexivity|]. destruct (H r v Hr Hv Ex) as [l ->]. reflexivity.
Qed.

(* only the two reference validators can raise, and only on a condition that does not parse *)
Theorem v_check_raises v r :
  (forall l, v_check v r <> Ok l) ->
  (v = VUnused \/ v = VDangling) /\ r_corr r = false /\ forall ts, parse_all (r_conds r) <> Ok ts.
Proof.
  intros H. destruct v; simpl in H.
  - destruct (r_corr r); [exfalso; eapply H; reflexivity|]. split; [auto|]. split; [reflexivity|].
    intros ts Hts. rewrite Hts in H. simpl in H. eapply H. reflexivity.
  - destruct (r_corr r); [exfalso; eapply H; reflexivity|]. split; [auto|]. split; [reflexivity|].
    intros ts Hts. rewrite Hts in H. simpl in H. eapply H. reflexivity.
  - exfalso. destruct (r_id r); eapply H; reflexivity.
  - exfalso. eapply H; reflexivity.
  - exfalso. eapply H; reflexivity.
  - exfalso. eapply H; reflexivity.
Qed.

(* ====================== K. the executable oracle's atoms are the declarative notions ====================== *)
Lemma existsb_Forall_iff {A} (f : A -> bool) (Q : A -> Prop) l :
  Forall (fun a => f a = true <-> Q a) l -> (existsb f l = true <-> exists a, In a l /\ Q a).
Proof.
  intros HF. rewrite Forall_forall in HF. rewrite existsb_exists. split.
  - intros (a & Ha & H). exists a. split; [exact Ha | apply (HF a Ha); exact H].
  - intros (a & Ha & H). exists a. split; [exact Ha | apply (HF a Ha); exact H].
Qed.

Theorem refersb_Refers D n t : refersb D n t = true <-> Refers D t n.
Proof.
  induction t as [m|q p|a IH|l IH|l IH] using ptree_ind'; simpl.
  - rewrite str_eqb_eq. split; [intros ->; constructor | intros H; inversion H; reflexivity].
  - rewrite andb_true_iff, mem_str_In, selectedb_Selected. split.
    + intros [H1 H2]. constructor; assumption.
    + intros H. inversion H; subst. auto.
  - rewrite IH. split; [intros H; constructor; exact H | intros H; inversion H; assumption].
  - rewrite (existsb_Forall_iff _ (fun a => Refers D a n) l IH). split.
    + intros (a & Ha & H). econstructor; eassumption.
    + intros H. inversion H; subst. eauto.
  - rewrite (existsb_Forall_iff _ (fun a => Refers D a n) l IH). split.
    + intros (a & Ha & H). eapply rf_or; eassumption.
    + intros H. inversion H; subst. eauto.
Qed.

Theorem sel_pats_HasSel t p : In p (sel_pats t) <-> HasSel t p.
Proof.
  revert p. induction t as [m|q p0|a IH|l IH|l IH] using ptree_ind'; intros p; simpl.
  - split; [intros [] | intros H; inversion H].
  - split; [intros [->|[]]; constructor | intros H; inversion H; left; reflexivity].
  - rewrite IH. split; [intros H; constructor; exact H | intros H; inversion H; assumption].
  - rewrite (in_flat_map_Forall _ (fun a y => HasSel a y) l p IH). split.
    + intros (a & Ha & H). econstructor; eassumption.
    + intros H. inversion H; subst. eauto.
  - rewrite (in_flat_map_Forall _ (fun a y => HasSel a y) l p IH). split.
    + intros (a & Ha & H). eapply hs_or; eassumption.
    + intros H. inversion H; subst. eauto.
Qed.

Theorem unmatchedb_Unmatched D p : unmatchedb D p = true <-> Unmatched D p.
Proof.
  unfold unmatchedb, Unmatched. rewrite negb_true_iff. split.
  - intros H n Hn Hs. apply selectedb_Selected in Hs.
    assert (X : existsb (selectedb p) D = true) by (apply existsb_exists; exists n; auto). congruence.
  - intros H. destruct (existsb (selectedb p) D) eqn:E; [|reflexivity]. exfalso.
    apply existsb_exists in E. destruct E as (n & Hn & Hs). apply selectedb_Selected in Hs. exact (H n Hn Hs).
Qed.

(* ====================== L. nothing is reported twice ====================== *)
Lemma NoDup_app_intro {A} (a b : list A) :
  NoDup a -> NoDup b -> (forall x, In x a -> In x b -> False) -> NoDup (a ++ b).
Proof.
  intros Ha Hb Hd. induction Ha as [|x a0 Hx Ha IH]; simpl; [exact Hb|].
  constructor.
  - rewrite in_app_iff. intros [H|H]; [exact (Hx H) | exact (Hd x (or_introl eq_refl) H)].
  - apply IH. intros y Hy. apply Hd. right. exact Hy.
Qed.

Lemma NoDup_flat_map_intro {A B} (f : A -> list B) l :
  NoDup l -> (forall a, In a l -> NoDup (f a)) ->
  (forall a b x, In a l -> In b l -> In x (f a) -> In x (f b) -> a = b) ->
  NoDup (flat_map f l).
Proof.
  intros Hl. induction Hl as [|a0 l Ha Hl IH]; intros Hf Hd; simpl; [constructor|].
  apply NoDup_app_intro.
  - apply Hf. left. reflexivity.
  - apply IH; [intros b Hb; apply Hf; right; exact Hb|].
    intros b c x Hb Hc. apply Hd; right; assumption.
  - intros x Hx Hx'. apply in_flat_map in Hx'. destruct Hx' as (b & Hb & Hxb).
    assert (a0 = b) by (apply (Hd a0 b x); auto; [left; reflexivity | right; exact Hb]).
    subst b. exact (Ha Hb).
Qed.

Definition ikey (i : issue) : option N :=
  match i with IUnused k _ | IDangling k _ | INoId k => Some k | _ => None end.

Lemma v_check_NoDup v r l : v_check v r = Ok l -> NoDup l.
Proof.
  destruct v; simpl.
  - destruct (r_corr r); [intros H; inversion H; constructor|].
    destruct (parse_all (r_conds r)); simpl; try discriminate. intros H. inversion H; subst.
    apply FinFun.Injective_map_NoDup; [intros u w X; inversion X; reflexivity|].
    apply NoDup_filter. apply dedup_NoDup.
  - destruct (r_corr r); [intros H; inversion H; constructor|].
    destruct (parse_all (r_conds r)); simpl; try discriminate. intros H. inversion H; subst.
    apply FinFun.Injective_map_NoDup; [intros u w X; inversion X; reflexivity|]. apply dedup_NoDup.
  - destruct (r_id r); intros H; inversion H; repeat constructor. intros [].
  - intros H; inversion H; constructor.
  - intros H; inversion H; constructor.
  - intros H; inversion H; constructor.
Qed.

Lemma okl_ikey v r i : In i (okl (v_check v r)) -> ikey i = Some (r_key r).
Proof.
  destruct v; simpl.
  - destruct (r_corr r); simpl; [intros []|]. destruct (parse_all (r_conds r)); simpl; try (intros []).
    intros H. apply in_map_iff in H. destruct H as (x & <- & _). reflexivity.
  - destruct (r_corr r); simpl; [intros []|]. destruct (parse_all (r_conds r)); simpl; try (intros []).
    intros H. apply in_map_iff in H. destruct H as (x & <- & _). reflexivity.
  - destruct (r_id r); simpl; [intros []|]. intros [<-|[]]. reflexivity.
  - intros [].
  - intros [].
  - intros [].
Qed.

Lemma v_finalize_ikey v s i : In i (v_finalize v s) -> ikey i = None.
Proof.
  destruct v; simpl; try (intros []); intros H; apply in_flat_map in H; destruct H as (x & _ & H);
    destruct (_ <? _)%nat; simpl in H; try contradiction; destruct H as [<-|[]]; reflexivity.
Qed.

Lemma rule_part_NoDup E vs r : NoDup vs -> NoDup (rule_part E vs r).
Proof.
  intros Hn. unfold rule_part. apply NoDup_flat_map_intro; [exact Hn| |].
  - intros v _. destruct (excluded E r v); [constructor|].
    destruct (v_check v r) eqn:Ec; simpl; try constructor. eapply v_check_NoDup. exact Ec.
  - intros a b x _ _ Ha Hb.
    assert (Ka : kind_of x = a).
    { destruct (excluded E r a); [contradiction|]. pose proof (okl_kind a r) as K. rewrite Forall_forall in K. exact (K x Ha). }
    assert (Kb : kind_of x = b).
    { destruct (excluded E r b); [contradiction|]. pose proof (okl_kind b r) as K. rewrite Forall_forall in K. exact (K x Hb). }
    congruence.
Qed.

Lemma rule_part_ikey E vs r i : In i (rule_part E vs r) -> ikey i = Some (r_key r).
Proof.
  unfold rule_part. intros H. apply in_flat_map in H. destruct H as (v & _ & H).
  destruct (excluded E r v); [contradiction|]. eapply okl_ikey. exact H.
Qed.

Lemma keyed_finalize_NoDup {K} (mk : K -> str -> issue) (g : str -> K) (c : str -> bool) keys :
  (forall a b x y, mk a x = mk b y -> x = y) -> NoDup keys ->
  NoDup (flat_map (fun x => if c x then [mk (g x) x] else []) keys).
Proof.
  intros Hinj Hn. apply NoDup_flat_map_intro; [exact Hn| |].
  - intros x _. destruct (c x); repeat constructor. intros [].
  - intros a b i _ _ Ha Hb. destruct (c a); [|contradiction]. destruct (c b); [|contradiction].
    destruct Ha as [<-|[]], Hb as [Hb|[]]. symmetry. eapply Hinj. exact Hb.
Qed.

Lemma v_finalize_NoDup E v rules : NoDup (v_finalize v (facc E v rules s_init)).
Proof.
  destruct v; try constructor.
  - simpl. rewrite facc_tbl by reflexivity. simpl.
    rewrite (tbl_flat_map_keys (fun x rs => if (1 <? length rs)%nat then [IIdColl rs x] else []) _)
      by (apply tbl_fold_NoDup; constructor).
    apply (keyed_finalize_NoDup IIdColl (fun x => tbl_get x _) (fun x => (1 <? length (tbl_get x _))%nat)).
    + intros a b x y X. inversion X. reflexivity.
    + apply tbl_fold_NoDup. constructor.
  - simpl. rewrite facc_tbl by reflexivity. simpl.
    rewrite (tbl_flat_map_keys (fun x rs => if (1 <? length rs)%nat then [ITitle rs x] else []) _)
      by (apply tbl_fold_NoDup; constructor).
    apply (keyed_finalize_NoDup ITitle (fun x => tbl_get x _) (fun x => (1 <? length (tbl_get x _))%nat)).
    + intros a b x y X. inversion X. reflexivity.
    + apply tbl_fold_NoDup. constructor.
  - simpl. rewrite facc_paths. simpl.
    set (T := s_tbl (facc E VFile rules s_init)).
    rewrite (ptbl_flat_map_keys (fun x ps => if (1 <? length ps)%nat then [IFile (tbl_get x T) x] else []) _)
      by (apply ptbl_fold_NoDup; constructor).
    apply (keyed_finalize_NoDup IFile (fun x => tbl_get x T) (fun x => (1 <? length (ptbl_get x _))%nat)).
    + intros a b x y X. inversion X. reflexivity.
    + apply ptbl_fold_NoDup. constructor.
Qed.

Lemma NoDup_map_inj_on {A B} (f : A -> B) l a b :
  NoDup (map f l) -> In a l -> In b l -> f a = f b -> a = b.
Proof.
  induction l as [|x l IH]; simpl; intros Hn Ha Hb E; [contradiction|].
  inversion Hn as [|? ? Hx Hn']; subst. destruct Ha as [->|Ha], Hb as [->|Hb]; auto.
  - exfalso. apply Hx. rewrite E. apply in_map. exact Hb.
  - exfalso. apply Hx. rewrite <- E. apply in_map. exact Ha.
Qed.

(* with distinct validator classes and distinct rule objects no issue is reported twice *)
Theorem validate_NoDup E vs rules l :
  validate E vs rules = Ok l -> NoDup vs -> NoDup (map r_key rules) -> NoDup l.
Proof.
  intros H Hv Hk. apply validate_ok in H. destruct H as [_ ->]. unfold pure_validate.
  apply NoDup_app_intro.
  - apply NoDup_flat_map_intro.
    + eapply NoDup_map_inv. exact Hk.
    + intros r _. apply rule_part_NoDup. exact Hv.
    + intros a b x Ha Hb Hxa Hxb. apply rule_part_ikey in Hxa, Hxb.
      apply (NoDup_map_inj_on r_key rules a b Hk Ha Hb). congruence.
  - unfold final_part. apply NoDup_flat_map_intro; [exact Hv| |].
    + intros v _. apply v_finalize_NoDup.
    + intros a b x _ _ Ha Hb.
      pose proof (v_finalize_kind a (facc E a rules s_init)) as K1. rewrite Forall_forall in K1.
      pose proof (v_finalize_kind b (facc E b rules s_init)) as K2. rewrite Forall_forall in K2.
      rewrite <- (K1 x Ha), <- (K2 x Hb). reflexivity.
  - intros x H1 H2. apply in_flat_map in H1. destruct H1 as (r & _ & H1). apply rule_part_ikey in H1.
    unfold final_part in H2. apply in_flat_map in H2. destruct H2 as (v & _ & H2). apply v_finalize_ikey in H2.
    congruence.
Qed.

Theorem reference_issues_once r ts :
  r_corr r = false -> parse_all (r_conds r) = Ok ts ->
  (forall l, v_check VUnused r = Ok l -> NoDup l) /\ (forall l, v_check VDangling r = Ok l -> NoDup l).
Proof.
  intros Hc Hp. split; intros l H; [exact (unused_once r ts l Hc Hp H) | exact (dangling_once r ts l Hc Hp H)].
Qed.

Theorem oracle_atoms :
  (forall p n, selectedb p n = true <-> Selected p n) /\
  (forall D n t, refersb D n t = true <-> Refers D t n) /\
  (forall t p, In p (sel_pats t) <-> HasSel t p) /\
  (forall D p, unmatchedb D p = true <-> Unmatched D p).
Proof.
  split; [exact selectedb_Selected|]. split; [exact refersb_Refers|].
  split; [exact sel_pats_HasSel | exact unmatchedb_Unmatched].
Qed.

(* ====================== M. validator objects that live across rules and across runs ====================== *)
Lemma finalize_ikey insts : Forall (fun i => ikey i = None) (finalize insts).
Proof.
  apply Forall_forall. intros i H. unfold finalize in H. apply in_flat_map in H.
  destruct H as (x & _ & H). eapply v_finalize_ikey. exact H.
Qed.

Lemma run_insts_fst E rules insts : map fst (run_insts E rules insts) = map fst insts.
Proof. unfold run_insts. rewrite map_map. reflexivity. Qed.

(* What a validator reports for a rule depends on that rule alone: not on the rules validated
   before by the same validator objects, not on an earlier run of the same SigmaValidator.  The
   issues of both calls consist of the same per-rule part (the issues each rule gets from each
   validator that runs on it, see rule_part) followed by finalisation issues only. *)
Theorem second_run_per_rule E vs rules l1 l2 :
  validate_twice E vs rules = Ok (l1, l2) ->
  exists F1 F2,
    l1 = flat_map (rule_part E vs) rules ++ F1 /\ l2 = flat_map (rule_part E vs) rules ++ F2 /\
    Forall (fun i => ikey i = None) F1 /\ Forall (fun i => ikey i = None) F2.
Proof.
  unfold validate_twice. intros H.
  destruct (validate_loop_char E rules (map (fun v => (v, s_init)) vs)) as [A1 A2].
  rewrite map_fst_init in A1, A2.
  destruct (all_ok E vs rules) eqn:Ea.
  - rewrite (A1 eq_refl) in H. simpl in H.
    destruct (validate_loop_char E rules (run_insts E rules (map (fun v => (v, s_init)) vs))) as [B1 _].
    rewrite run_insts_fst, map_fst_init in B1. rewrite (B1 Ea) in H. simpl in H. inversion H; subst.
    eexists _, _. split; [reflexivity|]. split; [reflexivity|]. split; apply finalize_ikey.
  - exfalso. specialize (A2 eq_refl).
    destruct (validate_loop E (map (fun v => (v, s_init)) vs) rules) as [x| |]; simpl in H; try discriminate.
    exact (A2 x eq_refl).
Qed.

(* the issues one rule gets do not depend on the other rules of the collection *)
Theorem rule_part_alone E vs rules l r :
  validate E vs rules = Ok l -> In r rules ->
  validate E vs [r] = Ok (rule_part E vs r ++ final_part E vs [r]) /\
  (forall i, In i (rule_part E vs r) -> In i l).
Proof.
  intros H Hr. apply validate_ok in H. destruct H as [Hok ->]. split.
  - destruct (validate_char E vs [r]) as [V _]. rewrite V.
    + unfold pure_validate. simpl. rewrite app_nil_r. reflexivity.
    + unfold all_ok in *. simpl. rewrite andb_true_r. rewrite forallb_forall in Hok. apply Hok. exact Hr.
  - intros i Hi. unfold pure_validate. apply in_or_app. left. apply in_flat_map. exists r. auto.
Qed.
