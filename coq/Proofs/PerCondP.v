(* C08 - "exactly one query per condition": the finalisation loop of convert_rule
     [finalize_query(rule, q, index, ...) for index, q in enumerate(queries)]
   (Model/Collection.v fin_all) neither drops, duplicates nor reorders queries and hands every query its own
   position; when it fails, it fails with the outcome of the first query (in order) whose finalisation fails. *)
From Coq Require Import NArith List Bool Arith Lia.
From PS Require Import Base.Outcome Model.Collection Spec.Collection.
Import ListNotations.

Section PerCond.
Variables query drule crule : Type.
Variable conv1 : drule -> outcome (list query).
Variable finq : payload drule crule -> nat -> query -> outcome query.
Variable cpre : crule -> outcome unit.
Variable cpost : crule -> list (list query) -> outcome (list query).
Variable fcs : bool.

Notation fin_all := (fin_all query drule crule finq).
Notation finish := (finish query drule crule finq fcs).
Notation alone := (alone query drule crule conv1 finq cpre cpost fcs).

Lemma fin_all_pointwise : forall qs p i fqs,
  fin_all p i qs = Ok fqs ->
  length fqs = length qs /\
  forall k, k < length qs ->
    exists q q', nth_error qs k = Some q /\ nth_error fqs k = Some q' /\ finq p (i + k) q = Ok q'.
Proof.
  induction qs as [|q r IH]; intros p i fqs H; cbn [Collection.fin_all] in H.
  - injection H as <-. split; [reflexivity|]. cbn. intros k Hk. lia.
  - destruct (finq p i q) as [q'|e|c] eqn:Eq; cbn [obind] in H; try discriminate.
    destruct (fin_all p (S i) r) as [r'|e|c] eqn:Er; cbn [obind] in H; try discriminate.
    injection H as <-. destruct (IH _ _ _ Er) as [HL HP]. split; [cbn; lia|].
    intros [|k] Hk.
    + exists q, q'. rewrite Nat.add_0_r. repeat split; assumption.
    + cbn [length] in Hk. destruct (HP k ltac:(lia)) as (x & x' & H1 & H2 & H3).
      exists x, x'. cbn [nth_error]. replace (i + S k) with (S i + k) by lia. repeat split; assumption.
Qed.

Definition is_okb {A} (o : outcome A) : bool := match o with Ok _ => true | _ => false end.
Definition recast {A B} (o : outcome A) : outcome B :=
  match o with Ok _ => Crash 0 | SigmaErr e => SigmaErr e | Crash c => Crash c end.

Lemma fin_all_first_failure : forall qs p i,
  is_okb (fin_all p i qs) = false ->
  exists k q, nth_error qs k = Some q /\ is_okb (finq p (i + k) q) = false /\
              fin_all p i qs = recast (finq p (i + k) q) /\
              forall j qj, j < k -> nth_error qs j = Some qj -> is_okb (finq p (i + j) qj) = true.
Proof.
  induction qs as [|q r IH]; intros p i H; cbn [Collection.fin_all] in *.
  - discriminate.
  - destruct (finq p i q) as [q'|e|c] eqn:Eq; cbn [obind] in *.
    + destruct (fin_all p (S i) r) as [r'|e|c] eqn:Er; cbn [obind] in H; try discriminate.
      * destruct (IH p (S i)) as (k & x & H1 & H2 & H3 & H4); [rewrite Er; reflexivity|].
        exists (S k), x. replace (i + S k) with (S i + k) by lia. cbn [nth_error]. rewrite <- H3, Er.
        repeat split; try assumption. intros [|j] qj Hj Hq.
        -- cbn in Hq. injection Hq as <-. rewrite Nat.add_0_r, Eq. reflexivity.
        -- cbn in Hq. replace (i + S j) with (S i + j) by lia. apply (H4 j qj); [lia|assumption].
      * destruct (IH p (S i)) as (k & x & H1 & H2 & H3 & H4); [rewrite Er; reflexivity|].
        exists (S k), x. replace (i + S k) with (S i + k) by lia. cbn [nth_error]. rewrite <- H3, Er.
        repeat split; try assumption. intros [|j] qj Hj Hq.
        -- cbn in Hq. injection Hq as <-. rewrite Nat.add_0_r, Eq. reflexivity.
        -- cbn in Hq. replace (i + S j) with (S i + j) by lia. apply (H4 j qj); [lia|assumption].
    + exists 0, q. rewrite Nat.add_0_r, Eq. cbn. repeat split; try reflexivity. intros j qj Hj; lia.
    + exists 0, q. rewrite Nat.add_0_r, Eq. cbn. repeat split; try reflexivity. intros j qj Hj; lia.
Qed.

(* a detection rule whose output is enabled: one emitted query per condition query, in order, each finalised
   with its own index - whichever way the stored/raw decision goes *)
Theorem leaf_one_query_per_condition d br qs fqs :
  conv1 d = Ok qs ->
  ret (alone (Leaf d true br)) = Ok fqs ->
  length fqs = length qs /\
  forall k, k < length qs ->
    exists q q', nth_error qs k = Some q /\ nth_error fqs k = Some q' /\ finq (PD d) k q = Ok q'.
Proof.
  intros Hc. cbn [Spec.Collection.alone]. rewrite Hc. unfold Collection.finish.
  destruct (fcs || negb br).
  - destruct (fin_all (PD d) 0 qs) as [x|e|c] eqn:E; cbn [ret]; intros H; try discriminate.
    injection H as <-. exact (fin_all_pointwise _ _ _ _ E).
  - cbn [ret]. intros H. exact (fin_all_pointwise _ _ _ _ H).
Qed.

(* output switched off (referenced by a correlation rule without generate): no query is emitted, and the rule
   fails only if a finalisation it actually needs fails *)
Theorem leaf_output_off d br qs :
  conv1 d = Ok qs ->
  ret (alone (Leaf d false br)) = Ok [] \/
  (fcs || negb br = true /\ is_okb (fin_all (PD d) 0 qs) = false /\
   ret (alone (Leaf d false br)) = recast (fin_all (PD d) 0 qs)).
Proof.
  intros Hc. cbn [Spec.Collection.alone]. rewrite Hc. unfold Collection.finish.
  destruct (fcs || negb br).
  - destruct (fin_all (PD d) 0 qs) as [x|e|c] eqn:E; cbn [ret]; [left; reflexivity| |]; right; repeat split.
  - left. reflexivity.
Qed.

(* a failing finalisation: the rule's outcome is the outcome of the first query whose finalisation fails *)
Theorem leaf_first_failing_condition d br qs :
  conv1 d = Ok qs ->
  is_okb (ret (alone (Leaf d true br))) = false ->
  exists k q, nth_error qs k = Some q /\
              ret (alone (Leaf d true br)) = recast (finq (PD d) k q) /\
              forall j qj, j < k -> nth_error qs j = Some qj -> is_okb (finq (PD d) j qj) = true.
Proof.
  intros Hc. cbn [Spec.Collection.alone]. rewrite Hc. unfold Collection.finish.
  assert (K: forall o : outcome (list query), o = fin_all (PD d) 0 qs -> is_okb o = false ->
             exists k q, nth_error qs k = Some q /\ o = recast (finq (PD d) k q) /\
               forall j qj, j < k -> nth_error qs j = Some qj -> is_okb (finq (PD d) j qj) = true).
  { intros o -> Ho. destruct (fin_all_first_failure qs (PD d) 0 Ho) as (k & q & H1 & _ & H3 & H4).
    exists k, q. cbn [Nat.add] in *. repeat split; assumption. }
  destruct (fcs || negb br).
  - destruct (fin_all (PD d) 0 qs) as [x|e|c] eqn:E; cbn [ret]; intros H; try discriminate.
    + apply (K (SigmaErr e)); [reflexivity|reflexivity].
    + apply (K (Crash c)); [reflexivity|reflexivity].
  - cbn [ret]. intros H. apply K; [reflexivity|exact H].
Qed.

End PerCond.
