(* Every leaf rendered by the verification backend is one lexical unit of the query language
   (theorem leaf_shape): together with lex_show and conv_sep_ok, a query assembled from rendered leaves
   is split back into exactly its operators, parentheses and leaf texts. *)
From Coq Require Import ZArith NArith List Bool Lia String Ascii.
From PS Require Import Base.Chars Base.Outcome Model.SString Model.Slice Model.StrOp Model.FieldName Model.RxEscape
  Model.Leaf Spec.Items Spec.Atom Spec.Lex Proofs.RxEscapeP Proofs.LeafP Proofs.LexP.
Import ListNotations.
Open Scope N_scope.

(* no unescaped occurrence of q, and every backslash has a partner *)
Fixpoint nors (q : char) (x : str) : bool :=
  match x with
  | [] => true
  | c :: x' =>
      if N.eqb c c_bs then match x' with _ :: x'' => nors q x'' | [] => false end
      else if N.eqb c q then false else nors q x'
  end.

Lemma nors_app q a b : nors q a = true -> nors q (a ++ b) = nors q b.
Proof.
  induction a as [a IH] using (well_founded_induction (Wf_nat.well_founded_ltof _ (@List.length char))).
  intros H. destruct a as [|c a']; [reflexivity|].
  cbn [nors] in H. cbn [app nors]. destruct (N.eqb c c_bs).
  - destruct a' as [|e a'']; [discriminate|]. cbn [app]. apply IH; [unfold ltof; simpl; lia|exact H].
  - destruct (N.eqb c q); [discriminate|]. apply IH; [unfold ltof; simpl; lia|exact H].
Qed.
Lemma nors_app2 q a b : nors q a = true -> nors q b = true -> nors q (a ++ b) = true.
Proof. intros Ha Hb. rewrite (nors_app q a b Ha). exact Hb. Qed.

Lemma scan_nors q body rest : N.eqb q c_bs = false -> nors q body = true ->
  scan_to q (body ++ q :: rest) = Some (body ++ [q], rest).
Proof.
  intros Hq.
  induction body as [body IH] using (well_founded_induction (Wf_nat.well_founded_ltof _ (@List.length char))).
  intros H. destruct body as [|c b'].
  - cbn [app scan_to]. rewrite Hq, N.eqb_refl. reflexivity.
  - cbn [nors] in H. cbn [app scan_to]. destruct (N.eqb c c_bs).
    + destruct b' as [|e b'']; [discriminate|]. cbn [app].
      rewrite (IH b'') by (unfold ltof; simpl; lia || exact H). reflexivity.
    + destruct (N.eqb c q); [discriminate|].
      rewrite (IH b') by (unfold ltof; simpl; lia || exact H). reflexivity.
Qed.

(* pieces of a rendered leaf *)
Lemma nors_escf q f : In q [c_rq; c_sq] -> nors q (flat_map escf f) = true.
Proof.
  intros Hq. induction f as [|c f IH]; [reflexivity|].
  cbn [flat_map]. unfold escf at 1. destruct (N.eqb c c_bs || N.eqb c c_rq || N.eqb c c_sq) eqn:E.
  - cbn [app nors]. change (N.eqb c_bs c_bs) with true. cbv iota. exact IH.
  - apply orb_false_iff in E. destruct E as [E Es]. apply orb_false_iff in E. destruct E as [Eb Er].
    cbn [app nors]. rewrite Eb.
    assert (N.eqb c q = false) as ->; [|exact IH].
    simpl in Hq. destruct Hq as [<-|[<-|[]]]; assumption.
Qed.

Lemma nors_qfield W k q fo f : In q [c_rq; c_sq] -> fo_ok W f fo = true ->
  qfield (vb k) fo f = (if snd fo then c_sq :: flat_map escf f ++ [c_sq] else flat_map escf f) /\
  nors c_rq (qfield (vb k) fo f) = true.
Proof.
  intros Hq H. unfold fo_ok in H. apply andb_true_iff in H. destruct H as [Hp _].
  rewrite (qfield_vb k _ _ Hp). split; [reflexivity|].
  destruct (snd fo).
  - change (c_sq :: flat_map escf f ++ [c_sq]) with ([c_sq] ++ flat_map escf f ++ [c_sq]).
    apply nors_app2; [reflexivity|]. apply nors_app2; [apply nors_escf; simpl; tauto|reflexivity].
  - apply nors_escf. simpl. tauto.
Qed.

Lemma nors_conv_chars s0 : nors c_rq (flat_map (conv_char vb_q) s0) = true.
Proof.
  induction s0 as [|c s0 IH]; [reflexivity|].
  cbn [flat_map]. unfold conv_char at 1. change (mem c (e_filter vb_q)) with false. cbv iota.
  destruct (mem c (escaped_chars vb_q)) eqn:E.
  - change (e_esc vb_q) with (Some c_bs). cbv iota. cbn [app nors]. change (N.eqb c_bs c_bs) with true. cbv iota. exact IH.
  - cbn [app nors].
    assert (N.eqb c c_bs = false) as ->.
    { destruct (N.eqb c c_bs) eqn:Eb; auto. apply N.eqb_eq in Eb. subst c. vm_compute in E. discriminate. }
    assert (N.eqb c c_rq = false) as ->.
    { destruct (N.eqb c c_rq) eqn:Eb; auto. apply N.eqb_eq in Eb. subst c. vm_compute in E. discriminate. }
    exact IH.
Qed.
Lemma nors_convert x c : convert vb_q x = Ok c -> nors c_rq c = true.
Proof.
  revert c. induction x as [|p x IH]; intros c H.
  - inversion H. reflexivity.
  - cbn [convert] in H. destruct p as [s0| | |n].
    + destruct (convert vb_q x) as [r| |]; try discriminate. cbn [obind] in H. inversion H; subst c.
      apply nors_app2; [apply nors_conv_chars|apply IH; reflexivity].
    + cbn [vb_q with_quote vb_e e_multi] in H. destruct (convert vb_q x) as [r| |]; try discriminate.
      cbn [obind] in H. inversion H; subst c. apply (nors_app2 c_rq [c_star] r); [reflexivity|apply IH; reflexivity].
    + cbn [vb_q with_quote vb_e e_single] in H. destruct (convert vb_q x) as [r| |]; try discriminate.
      cbn [obind] in H. inversion H; subst c. apply (nors_app2 c_rq [c_qm] r); [reflexivity|apply IH; reflexivity].
    + discriminate.
Qed.
Lemma nors_value_str k pm x vs : k_qpat k = None -> value_str (vb k) pm x = Ok vs -> nors c_rq vs = true.
Proof.
  intros Hq H. unfold value_str in H.
  assert (Hc: value_cfg (vb k) = vb_q) by reflexivity. rewrite Hc in H.
  assert (Hd: decide_quoting (vb k) pm = true).
  { unfold decide_quoting. cbn [vb l_quote l_quote_pat]. rewrite Hq. reflexivity. }
  rewrite Hd in H. cbn [vb l_quote] in H.
  destruct (convert vb_q x) as [c| |] eqn:Ec; try discriminate. cbn [obind] in H. inversion H; subst vs.
  apply (nors_app2 c_rq [c_dq] (c ++ [c_dq])); [reflexivity|].
  apply nors_app2; [exact (nors_convert x c Ec)|reflexivity].
Qed.
Lemma nors_rx rx : nors c_rq (flat_map (esc1 c_bs rx_escaped) rx) = true.
Proof.
  induction rx as [|c rx IH]; [reflexivity|].
  cbn [flat_map]. unfold esc1 at 1. destruct (mem c rx_escaped) eqn:E.
  - cbn [app nors]. change (N.eqb c_bs c_bs) with true. cbv iota. exact IH.
  - cbn [app nors].
    assert (N.eqb c c_bs = false) as ->.
    { destruct (N.eqb c c_bs) eqn:Eb; auto. apply N.eqb_eq in Eb. subst c. vm_compute in E. discriminate. }
    assert (N.eqb c c_rq = false) as ->.
    { destruct (N.eqb c c_rq) eqn:Eb; auto. apply N.eqb_eq in Eb. subst c. vm_compute in E. discriminate. }
    exact IH.
Qed.

(* a delimited text is one unit *)
Lemma shapeb_delim body suffix : nors c_rq body = true -> no_boundary suffix = true ->
  shapeb ([c_lq] ++ body ++ c_rq :: suffix) = true.
Proof.
  intros Hb Hs. change ([c_lq] ++ body ++ c_rq :: suffix) with (c_lq :: (body ++ c_rq :: suffix)).
  unfold shapeb. change (N.eqb c_lq c_lq) with true. cbn [orb]. cbv iota.
  pose proof (scan_nors c_rq body suffix eq_refl Hb) as E. unfold char, str in *. rewrite E. exact Hs.
Qed.

(* texts supplied from outside (numbers, networks, raw field names): no backslash, no closing delimiter *)
Definition rawtxt (x : str) : bool := forallb (fun c => negb (N.eqb c c_bs) && negb (N.eqb c c_rq)) x.
Lemma rawtxt_nors x : rawtxt x = true -> nors c_rq x = true.
Proof.
  induction x as [|c x IH]; intros H; [reflexivity|].
  cbn [rawtxt forallb] in H. apply andb_true_iff in H. destruct H as [Hc Hx]. apply andb_true_iff in Hc. destruct Hc as [H1 H2].
  apply negb_true_iff in H1, H2. cbn [nors]. rewrite H1, H2. apply IH. exact Hx.
Qed.
Definition lex_ok (f : str) (v : lval) : bool :=
  match v with
  | LNum txt | LCmp _ txt | LCmpTs _ _ txt | LTs _ txt => rawtxt txt && no_boundary txt
  | LCidr net _ _ _ => rawtxt f && rawtxt net
  | _ => true
  end.

Section Shape.
Variable W : char -> bool.
Hypothesis HW : Wspec W.
Variable k : vbk.
Hypothesis Hq : k_qpat k = None.

Lemma W_no_boundary f : forallb W f = true -> no_boundary f = true.
Proof.
  intros H. unfold no_boundary. rewrite forallb_forall in *. intros c Hc. specialize (H c Hc).
  apply negb_true_iff. unfold boundary.
  rewrite (W_neq W c c_space H (W_space W HW)), (W_neq W c c_lpar H (W_lpar W HW)), (W_neq W c c_rpar H (W_rpar W HW)).
  reflexivity.
Qed.

Lemma no_boundary_app a b : no_boundary (a ++ b) = no_boundary a && no_boundary b.
Proof. unfold no_boundary. apply forallb_app. Qed.

Lemma keyword_no_eq w : In c_eq w -> is_keyword w = false.
Proof.
  intros Hi. unfold is_keyword.
  destruct (str_eqb w (s "and")) eqn:E1; [apply str_eqb_eq in E1; subst w; simpl in Hi; repeat destruct Hi as [Hi|Hi]; try discriminate; destruct Hi|].
  destruct (str_eqb w (s "or")) eqn:E2; [apply str_eqb_eq in E2; subst w; simpl in Hi; repeat destruct Hi as [Hi|Hi]; try discriminate; destruct Hi|].
  destruct (str_eqb w (s "not")) eqn:E3; [apply str_eqb_eq in E3; subst w; simpl in Hi; repeat destruct Hi as [Hi|Hi]; try discriminate; destruct Hi|].
  reflexivity.
Qed.

(* field=token without delimiters *)
Lemma shapeb_bare fo f txt : fo_ok W f fo = true -> rawtxt txt = true -> no_boundary txt = true ->
  shapeb (qfield (vb k) fo f ++ c_eq :: txt) = true.
Proof.
  intros Hf Hr Hn. pose proof Hf as Hf0. unfold fo_ok in Hf. apply andb_true_iff in Hf. destruct Hf as [Hp Hd].
  rewrite (qfield_vb k _ _ Hp). apply eqb_prop in Hd. rewrite Hd.
  destruct (wordy W f) eqn:Ew; cbn [negb].
  - unfold wordy in Ew. destruct f as [|c f]; [discriminate|].
    rewrite (escf_word W HW _ Ew).
    assert (Hc: W c = true) by (simpl in Ew; apply andb_true_iff in Ew; tauto).
    unfold shapeb. cbn [app].
    rewrite (W_neq W c c_lq Hc (W_lq W HW)), (W_neq W c c_sq Hc (W_sq W HW)). cbn [orb].
    change (c :: f ++ c_eq :: txt) with ((c :: f) ++ c_eq :: txt).
    rewrite no_boundary_app, (W_no_boundary _ Ew). cbn [andb].
    change (no_boundary (c_eq :: txt)) with (no_boundary txt). rewrite Hn. cbn [andb].
    rewrite keyword_no_eq; [reflexivity|]. apply in_or_app. right. left. reflexivity.
  - unfold shapeb. cbn [app]. change (N.eqb c_sq c_lq || N.eqb c_sq c_sq) with true. cbv iota.
    change (if N.eqb c_sq c_lq then c_rq else c_sq) with c_sq.
    rewrite <- app_assoc. cbn [app].
    pose proof (scan_nors c_sq (flat_map escf f) (c_eq :: txt) eq_refl (nors_escf c_sq f ltac:(simpl; tauto))) as E.
    unfold char, str in *. rewrite E. exact Hn.
Qed.

Ltac nors_pieces :=
  repeat first [ apply nors_app2 | reflexivity | assumption ].

Lemma lookup_part_ok part p : lookup part vb_parts = Some p -> nors c_rq p = true /\ no_boundary p = true.
Proof.
  unfold vb_parts. cbn [lookup].
  repeat (match goal with |- context [N.eqb part ?n] => destruct (N.eqb part n) end;
          [intros H; inversion H; subst p; split; reflexivity|]).
  discriminate.
Qed.

Theorem leaf_shape neg f fo pm v txt :
  fo_ok W f fo = true -> val_ok W f v = true -> lex_ok f v = true ->
  render_leaf (vb k) neg f fo pm v = Ok txt -> shapeb txt = true.
Proof.
  intros Hf Hv Hl H.
  destruct (nors_qfield W k c_rq fo f ltac:(simpl; tauto) Hf) as [_ Hnf].
  destruct v as [cased sv|num|b| |rx fi fm fs|net addr plen mask|op num|op part num|part num|b|f2 fo2 sw ew|].
  - (* strings *)
    cbn [render_leaf] in H.
    destruct (render_str_vb k neg cased _ pm sv txt H) as [op [x [vs [Ho [Hvs Ht]]]]]. subst txt.
    replace (qfield (vb k) fo f ++ s (str_lit cased neg op) ++ vs ++ [c_rq])
      with ((qfield (vb k) fo f ++ s (str_lit cased neg op) ++ vs) ++ c_rq :: [])
      by (rewrite <- !app_assoc; reflexivity).
    apply shapeb_delim; [|reflexivity].
    apply nors_app2; [exact Hnf|]. apply nors_app2; [destruct cased, neg, op; reflexivity|].
    exact (nors_value_str k (pm op) x vs Hq Hvs).
  - (* numbers *)
    cbn [render_leaf vb l_eq_token] in H. inversion H; subst txt. clear H.
    cbn [lex_ok] in Hl. apply andb_true_iff in Hl. destruct Hl as [Hr Hn].
    change (s "=" ++ num) with (c_eq :: num). apply (shapeb_bare fo f num Hf Hr Hn).
  - (* booleans *)
    cbn [render_leaf vb l_eq_token l_true l_false] in H.
    destruct b; inversion H; subst txt; clear H.
    + change (s "=" ++ s "true") with (c_eq :: s "true"). apply (shapeb_bare fo f (s "true") Hf); reflexivity.
    + change (s "=" ++ s "false") with (c_eq :: s "false"). apply (shapeb_bare fo f (s "false") Hf); reflexivity.
  - (* null *)
    cbn [render_leaf vb l_null with_tpl] in H.
    assert (Ht: txt = [c_lq] ++ (qfield (vb k) fo f ++ s " is null") ++ c_rq :: []).
    { cbn -[qfield] in H. inversion H. repeat progress (cbn -[qfield]; rewrite <- ?app_assoc). reflexivity. }
    subst txt. apply shapeb_delim; [|reflexivity]. apply nors_app2; [exact Hnf|reflexivity].
  - (* regular expressions *)
    cbn [render_leaf vb l_re l_nre with_tpl] in H.
    rewrite flag_env_vb in H. cbn [obind] in H. rewrite value_re_vb in H.
    set (esc := flat_map (esc1 c_bs rx_escaped) rx) in *.
    assert (Ht: txt = [c_lq] ++ (qfield (vb k) fo f ++ s (if neg then "!~/" else "=~/") ++ esc ++ c_slash :: flags_str fi fm fs) ++ c_rq :: []).
    { destruct neg; cbn -[qfield] in H; inversion H; unfold flags_str; repeat progress (cbn -[qfield]; rewrite <- ?app_assoc); reflexivity. }
    subst txt. apply shapeb_delim; [|reflexivity].
    apply nors_app2; [exact Hnf|]. apply nors_app2; [destruct neg; reflexivity|].
    apply nors_app2; [apply nors_rx|]. destruct fi, fm, fs; reflexivity.
  - (* CIDR *)
    cbn [render_leaf vb l_cidr l_ncidr] in H. rewrite pick_opt in H.
    destruct (k_cidr k); cbn [opt] in H; [|discriminate].
    cbn [lex_ok] in Hl. apply andb_true_iff in Hl. destruct Hl as [Hrf Hrn].
    assert (Ht: txt = [c_lq] ++ ((if neg then [c_bang] else []) ++ s "cidr" ++ c_lpar :: f ++ s "," ++ net ++ s ")") ++ c_rq :: []).
    { destruct neg; cbn in H; inversion H; repeat progress (cbn; rewrite <- ?app_assoc); reflexivity. }
    subst txt. apply shapeb_delim; [|reflexivity].
    apply nors_app2; [destruct neg; reflexivity|].
    apply (nors_app2 c_rq (s "cidr(") (f ++ s "," ++ net ++ s ")")); [reflexivity|].
    apply nors_app2; [exact (rawtxt_nors f Hrf)|].
    apply (nors_app2 c_rq (s ",") (net ++ s ")")); [reflexivity|].
    apply nors_app2; [exact (rawtxt_nors net Hrn)|reflexivity].
  - (* comparison *)
    cbn [render_leaf vb l_cmp l_cmp_ops] in H.
    cbn [lex_ok] in Hl. apply andb_true_iff in Hl. destruct Hl as [Hr Hn].
    assert (Ht: txt = [c_lq] ++ (qfield (vb k) fo f ++ vb_cmp op ++ num) ++ c_rq :: []).
    { cbn -[qfield] in H. inversion H. repeat progress (cbn -[qfield]; rewrite <- ?app_assoc). reflexivity. }
    subst txt. apply shapeb_delim; [|reflexivity].
    apply nors_app2; [exact Hnf|]. apply nors_app2; [destruct op; reflexivity|exact (rawtxt_nors num Hr)].
  - (* comparison of a timestamp part *)
    cbn [render_leaf vb l_cmp l_cmp_ops] in H.
    change (ts_usable (vb k)) with true in H. cbv iota in H.
    cbn [lex_ok] in Hl. apply andb_true_iff in Hl. destruct Hl as [Hr Hn].
    cbn [vb l_ts l_ts_map] in H. destruct (lookup part vb_parts) as [p|] eqn:Ep; [|discriminate].
    destruct (lookup_part_ok part p Ep) as [Hp1 Hp2].
    assert (Ht: txt = [c_lq] ++ (qfield (vb k) fo f ++ c_dot :: p) ++ c_rq :: vb_cmp op ++ num).
    { cbn -[qfield] in H. inversion H. repeat progress (cbn -[qfield]; rewrite <- ?app_assoc). reflexivity. }
    subst txt. apply shapeb_delim.
    + apply nors_app2; [exact Hnf|]. apply (nors_app2 c_rq [c_dot] p); [reflexivity|exact Hp1].
    + rewrite no_boundary_app, Hn. destruct op; reflexivity.
  - (* timestamp part *)
    cbn [render_leaf vb l_ts l_ts_map with_tpl l_eq_token] in H.
    cbn [lex_ok] in Hl. apply andb_true_iff in Hl. destruct Hl as [Hr Hn].
    destruct (lookup part vb_parts) as [p|] eqn:Ep; [|discriminate].
    destruct (lookup_part_ok part p Ep) as [Hp1 Hp2].
    assert (Ht: txt = [c_lq] ++ (qfield (vb k) fo f ++ c_dot :: p) ++ c_rq :: c_eq :: num).
    { cbn -[qfield] in H. inversion H. repeat progress (cbn -[qfield]; rewrite <- ?app_assoc). reflexivity. }
    subst txt. apply shapeb_delim.
    + apply nors_app2; [exact Hnf|]. apply (nors_app2 c_rq [c_dot] p); [reflexivity|exact Hp1].
    + change (no_boundary (c_eq :: num)) with (no_boundary num). exact Hn.
  - (* exists *)
    destruct b.
    + cbn [render_leaf vb l_exists with_tpl] in H.
      assert (Ht: txt = [c_lq] ++ (s "exists(" ++ qfield (vb k) fo f ++ [c_rpar]) ++ c_rq :: []).
      { cbn -[qfield] in H. inversion H. repeat progress (cbn -[qfield]; rewrite <- ?app_assoc). reflexivity. }
      subst txt. apply shapeb_delim; [|reflexivity].
      apply (nors_app2 c_rq (s "exists(")); [reflexivity|]. apply nors_app2; [exact Hnf|reflexivity].
    + cbn [render_leaf vb l_nexists] in H. destruct (k_nexists k); cbn [opt] in H; [|discriminate].
      assert (Ht: txt = [c_lq] ++ (s "notexists(" ++ qfield (vb k) fo f ++ [c_rpar]) ++ c_rq :: []).
      { cbn -[qfield] in H. inversion H. repeat progress (cbn -[qfield]; rewrite <- ?app_assoc). reflexivity. }
      subst txt. apply shapeb_delim; [|reflexivity].
      apply (nors_app2 c_rq (s "notexists(")); [reflexivity|]. apply nors_app2; [exact Hnf|reflexivity].
  - (* field reference *)
    cbn [render_leaf vb l_ff l_ffsw l_ffew l_ffct l_ff_q1 l_ff_q2] in H.
    cbn [val_ok] in Hv.
    destruct (nors_qfield W k c_rq fo2 f2 ltac:(simpl; tauto) Hv) as [_ Hnf2].
    set (lit := (if sw && ew then " fcontains " else if sw then " fstartswith " else if ew then " fendswith " else "==")%string).
    assert (Ht: txt = [c_lq] ++ (qfield (vb k) fo f ++ s lit ++ qfield (vb k) fo2 f2) ++ c_rq :: []).
    { unfold lit. destruct sw, ew; cbn -[qfield] in H; inversion H; repeat progress (cbn -[qfield]; rewrite <- ?app_assoc); reflexivity. }
    subst txt. apply shapeb_delim; [|reflexivity].
    apply nors_app2; [exact Hnf|]. apply nors_app2; [unfold lit; destruct sw, ew; reflexivity|exact Hnf2].
  - discriminate.
Qed.
End Shape.
