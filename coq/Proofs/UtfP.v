(* UTF-8: CPython's strict decoder (Model.Enc.utf8_dec) accepts exactly the UTF-8 forms of strings
   of Unicode scalar values and inverts the encoder. This is what makes the "encode as UTF-16,
   decode as UTF-8" trick of the wide modifiers byte-exact. *)
From Coq Require Import NArith ZArith List Bool Lia ZifyBool.
From PS Require Import Base.Chars Model.SString Spec.Items Spec.Utf Spec.B64 Model.Enc.
Import ListNotations.
Open Scope N_scope.
Ltac Zify.zify_post_hook ::= Z.to_euclidean_division_equations.

Ltac case_if :=
  match goal with |- context [if ?c then _ else _] => let E := fresh "E" in destruct c eqn:E end.

(* ---------- one character: decoding direction ---------- *)
Lemma dec2 b0 b1 : 194 <= b0 -> b0 < 224 -> cont b1 = true ->
  let c := (b0 - 192) * 64 + (b1 - 128) in utf8_char c = [b0; b1] /\ scalar c = true.
Proof.
  intros H0 H1 H2 c. unfold cont in H2. subst c. split.
  - unfold utf8_char. repeat case_if; try lia.
    assert (192 + ((b0 - 192) * 64 + (b1 - 128)) / 64 = b0) as -> by lia.
    assert (128 + ((b0 - 192) * 64 + (b1 - 128)) mod 64 = b1) as -> by lia. reflexivity.
  - unfold scalar. lia.
Qed.

Lemma dec3 b0 b1 b2 : 224 <= b0 -> b0 < 240 ->
  (if b0 =? 224 then 160 <=? b1 else 128 <=? b1) = true ->
  (if b0 =? 237 then b1 <=? 159 else b1 <=? 191) = true -> cont b2 = true ->
  let c := (b0 - 224) * 4096 + (b1 - 128) * 64 + (b2 - 128) in
  utf8_char c = [b0; b1; b2] /\ scalar c = true.
Proof.
  intros H0 H1 Hlo Hhi H2 c. unfold cont in H2.
  assert (L : 128 <= b1 /\ (b0 = 224 -> 160 <= b1)) by (destruct (b0 =? 224) eqn:E; lia).
  assert (U : b1 <= 191 /\ (b0 = 237 -> b1 <= 159)) by (destruct (b0 =? 237) eqn:E; lia).
  clear Hlo Hhi. subst c. split.
  - unfold utf8_char. repeat case_if; try lia.
    assert (224 + ((b0 - 224) * 4096 + (b1 - 128) * 64 + (b2 - 128)) / 4096 = b0) as -> by lia.
    assert (128 + (((b0 - 224) * 4096 + (b1 - 128) * 64 + (b2 - 128)) / 64) mod 64 = b1) as -> by lia.
    assert (128 + ((b0 - 224) * 4096 + (b1 - 128) * 64 + (b2 - 128)) mod 64 = b2) as -> by lia.
    reflexivity.
  - unfold scalar. lia.
Qed.

Lemma dec4 b0 b1 b2 b3 : 240 <= b0 -> b0 < 245 ->
  (if b0 =? 240 then 144 <=? b1 else 128 <=? b1) = true ->
  (if b0 =? 244 then b1 <=? 143 else b1 <=? 191) = true -> cont b2 = true -> cont b3 = true ->
  let c := (b0 - 240) * 262144 + (b1 - 128) * 4096 + (b2 - 128) * 64 + (b3 - 128) in
  utf8_char c = [b0; b1; b2; b3] /\ scalar c = true.
Proof.
  intros H0 H1 Hlo Hhi H2 H3 c. unfold cont in H2, H3.
  assert (L : 128 <= b1 /\ (b0 = 240 -> 144 <= b1)) by (destruct (b0 =? 240) eqn:E; lia).
  assert (U : b1 <= 191 /\ (b0 = 244 -> b1 <= 143)) by (destruct (b0 =? 244) eqn:E; lia).
  clear Hlo Hhi. subst c. split.
  - unfold utf8_char. repeat case_if; try lia.
    assert (240 + ((b0 - 240) * 262144 + (b1 - 128) * 4096 + (b2 - 128) * 64 + (b3 - 128)) / 262144 = b0) as -> by lia.
    assert (128 + (((b0 - 240) * 262144 + (b1 - 128) * 4096 + (b2 - 128) * 64 + (b3 - 128)) / 4096) mod 64 = b1) as -> by lia.
    assert (128 + (((b0 - 240) * 262144 + (b1 - 128) * 4096 + (b2 - 128) * 64 + (b3 - 128)) / 64) mod 64 = b2) as -> by lia.
    assert (128 + ((b0 - 240) * 262144 + (b1 - 128) * 4096 + (b2 - 128) * 64 + (b3 - 128)) mod 64 = b3) as -> by lia.
    reflexivity.
  - unfold scalar. lia.
Qed.

Lemma utf8_cons c s : utf8 (c :: s) = utf8_char c ++ utf8 s.
Proof. reflexivity. Qed.
Lemma utf8_app a b : utf8 (a ++ b) = utf8 a ++ utf8 b.
Proof. unfold utf8. apply flat_map_app. Qed.

Lemma option_map_some {A B} (f : A -> B) o y : option_map f o = Some y -> exists x, o = Some x /\ y = f x.
Proof. destruct o; simpl; intros H; inversion H. eauto. Qed.

(* ---------- the decoder is sound: what it returns encodes to the input ---------- *)
Lemma utf8_dec_sound_n : forall n bs s, (length bs <= n)%nat -> utf8_dec bs = Some s ->
  utf8 s = bs /\ forallb scalar s = true.
Proof.
  induction n as [|n IH]; intros bs s Hn H.
  - destruct bs; [|simpl in Hn; lia]. simpl in H. inversion H. split; reflexivity.
  - destruct bs as [|b0 r0]; [simpl in H; inversion H; split; reflexivity|].
    cbn [utf8_dec] in H. simpl length in Hn.
    destruct (b0 <? 128) eqn:E0.
    { apply option_map_some in H. destruct H as [s1 [H1 ->]].
      destruct (IH r0 s1 ltac:(lia) H1) as [U S]. split.
      - rewrite utf8_cons, U. unfold utf8_char. rewrite E0. reflexivity.
      - cbn [forallb]. rewrite S, andb_true_r. unfold scalar. lia. }
    destruct (b0 <? 194) eqn:E1; [discriminate|].
    destruct (b0 <? 224) eqn:E2.
    { destruct r0 as [|b1 r1]; [discriminate|]. destruct (cont b1) eqn:C1; [|discriminate].
      apply option_map_some in H. destruct H as [s1 [H1 ->]]. simpl length in Hn.
      destruct (IH r1 s1 ltac:(lia) H1) as [U S].
      destruct (dec2 b0 b1 ltac:(lia) ltac:(lia) C1) as [Hc Hs]. split.
      - rewrite utf8_cons, U, Hc. reflexivity.
      - cbn [forallb]. rewrite S, Hs. reflexivity. }
    destruct (b0 <? 240) eqn:E3.
    { destruct r0 as [|b1 [|b2 r2]]; try discriminate.
      destruct (if b0 =? 224 then 160 <=? b1 else 128 <=? b1) eqn:Lo; [|discriminate].
      destruct (if b0 =? 237 then b1 <=? 159 else b1 <=? 191) eqn:Hi; [|discriminate].
      destruct (cont b2) eqn:C2; [|discriminate]. cbn [andb] in H.
      apply option_map_some in H. destruct H as [s1 [H1 ->]]. simpl length in Hn.
      destruct (IH r2 s1 ltac:(lia) H1) as [U S].
      destruct (dec3 b0 b1 b2 ltac:(lia) ltac:(lia) Lo Hi C2) as [Hc Hs]. split.
      - rewrite utf8_cons, U, Hc. reflexivity.
      - cbn [forallb]. rewrite S, Hs. reflexivity. }
    destruct (b0 <? 245) eqn:E4; [|discriminate].
    destruct r0 as [|b1 [|b2 [|b3 r3]]]; try discriminate.
    destruct (if b0 =? 240 then 144 <=? b1 else 128 <=? b1) eqn:Lo; [|discriminate].
    destruct (if b0 =? 244 then b1 <=? 143 else b1 <=? 191) eqn:Hi; [|discriminate].
    destruct (cont b2) eqn:C2; [|discriminate]. destruct (cont b3) eqn:C3; [|discriminate].
    cbn [andb] in H.
    apply option_map_some in H. destruct H as [s1 [H1 ->]]. simpl length in Hn.
    destruct (IH r3 s1 ltac:(lia) H1) as [U S].
    destruct (dec4 b0 b1 b2 b3 ltac:(lia) ltac:(lia) Lo Hi C2 C3) as [Hc Hs]. split.
    + rewrite utf8_cons, U, Hc. reflexivity.
    + cbn [forallb]. rewrite S, Hs. reflexivity.
Qed.

Theorem utf8_dec_sound bs s : utf8_dec bs = Some s -> utf8 s = bs /\ forallb scalar s = true.
Proof. apply (utf8_dec_sound_n (length bs)). lia. Qed.

(* ---------- and complete: every UTF-8 form of scalar values is accepted and gives the string back ---------- *)
Lemma utf8_dec_char c rest : scalar c = true ->
  utf8_dec (utf8_char c ++ rest) = option_map (cons c) (utf8_dec rest).
Proof.
  intros Hs. unfold scalar in Hs. unfold utf8_char.
  destruct (c <? 128) eqn:E0.
  { cbn [app utf8_dec]. rewrite E0. reflexivity. }
  destruct (c <? 2048) eqn:E1.
  { cbn [app utf8_dec].
    set (b0 := 192 + c / 64). set (b1 := 128 + c mod 64).
    assert (B0 : 194 <= b0 /\ b0 < 224) by (unfold b0; lia).
    assert (B1 : 128 <= b1 /\ b1 <= 191) by (unfold b1; lia).
    assert (R : (b0 - 192) * 64 + (b1 - 128) = c) by (unfold b0, b1; lia).
    replace (b0 <? 128) with false by lia. replace (b0 <? 194) with false by lia.
    replace (b0 <? 224) with true by lia. unfold cont.
    replace ((128 <=? b1) && (b1 <=? 191)) with true by lia. rewrite R. reflexivity. }
  destruct (c <? 65536) eqn:E2.
  { cbn [app utf8_dec].
    set (b0 := 224 + c / 4096). set (b1 := 128 + (c / 64) mod 64). set (b2 := 128 + c mod 64).
    assert (B0 : 224 <= b0 /\ b0 < 240) by (unfold b0; lia).
    assert (B1 : 128 <= b1 /\ b1 <= 191 /\ (b0 = 224 -> 160 <= b1) /\ (b0 = 237 -> b1 <= 159)) by (unfold b0, b1; lia).
    assert (B2 : 128 <= b2 /\ b2 <= 191) by (unfold b2; lia).
    assert (R : (b0 - 224) * 4096 + (b1 - 128) * 64 + (b2 - 128) = c) by (unfold b0, b1, b2; lia).
    replace (b0 <? 128) with false by lia. replace (b0 <? 194) with false by lia.
    replace (b0 <? 224) with false by lia. replace (b0 <? 240) with true by lia.
    replace (if b0 =? 224 then 160 <=? b1 else 128 <=? b1) with true by (destruct (b0 =? 224) eqn:E; lia).
    replace (if b0 =? 237 then b1 <=? 159 else b1 <=? 191) with true by (destruct (b0 =? 237) eqn:E; lia).
    unfold cont. replace ((128 <=? b2) && (b2 <=? 191)) with true by lia. rewrite R. reflexivity. }
  cbn [app utf8_dec].
  set (b0 := 240 + c / 262144). set (b1 := 128 + (c / 4096) mod 64).
  set (b2 := 128 + (c / 64) mod 64). set (b3 := 128 + c mod 64).
  assert (B0 : 240 <= b0 /\ b0 < 245) by (unfold b0; lia).
  assert (B1 : 128 <= b1 /\ b1 <= 191 /\ (b0 = 240 -> 144 <= b1) /\ (b0 = 244 -> b1 <= 143)) by (unfold b0, b1; lia).
  assert (B2 : 128 <= b2 /\ b2 <= 191) by (unfold b2; lia).
  assert (B3 : 128 <= b3 /\ b3 <= 191) by (unfold b3; lia).
  assert (R : (b0 - 240) * 262144 + (b1 - 128) * 4096 + (b2 - 128) * 64 + (b3 - 128) = c) by (unfold b0, b1, b2, b3; lia).
  replace (b0 <? 128) with false by lia. replace (b0 <? 194) with false by lia.
  replace (b0 <? 224) with false by lia. replace (b0 <? 240) with false by lia.
  replace (b0 <? 245) with true by lia.
  replace (if b0 =? 240 then 144 <=? b1 else 128 <=? b1) with true by (destruct (b0 =? 240) eqn:E; lia).
  replace (if b0 =? 244 then b1 <=? 143 else b1 <=? 191) with true by (destruct (b0 =? 244) eqn:E; lia).
  unfold cont. replace ((128 <=? b2) && (b2 <=? 191)) with true by lia.
  replace ((128 <=? b3) && (b3 <=? 191)) with true by lia. rewrite R. reflexivity.
Qed.

Theorem utf8_dec_complete s : forallb scalar s = true -> utf8_dec (utf8 s) = Some s.
Proof.
  induction s as [|c s IH]; intros H; [reflexivity|].
  cbn [forallb] in H. apply andb_true_iff in H. destruct H as [Hc Hs].
  rewrite utf8_cons, utf8_dec_char, IH by assumption. reflexivity.
Qed.

(* a byte string is carried by some string value exactly when the decoder accepts it *)
Corollary utf8_dec_none bs : utf8_dec bs = None -> forall s, forallb scalar s = true -> utf8 s <> bs.
Proof.
  intros H s Hs E. subst bs. rewrite utf8_dec_complete in H by exact Hs. discriminate.
Qed.

(* ---------- encoders produce octets ---------- *)
Lemma utf8_char_ok c : c < 1114112 -> bytes_ok (utf8_char c) = true.
Proof.
  intros H. unfold utf8_char, bytes_ok, byte_ok. repeat case_if; cbn [forallb]; lia.
Qed.
Lemma scalar_lt c : scalar c = true -> c < 1114112.
Proof. unfold scalar. lia. Qed.
Lemma utf8_ok s : forallb scalar s = true -> bytes_ok (utf8 s) = true.
Proof.
  induction s as [|c s IH]; intros H; [reflexivity|].
  cbn [forallb] in H. apply andb_true_iff in H. destruct H as [Hc Hs].
  rewrite utf8_cons. unfold bytes_ok. rewrite forallb_app. apply andb_true_iff. split.
  - apply utf8_char_ok, scalar_lt, Hc.
  - apply IH, Hs.
Qed.
Lemma utf16le_char_ok c : c < 1114112 -> bytes_ok (utf16le_char c) = true.
Proof.
  intros H. unfold utf16le_char, utf16_units, le2, bytes_ok, byte_ok. case_if; cbn [flat_map app forallb]; lia.
Qed.
Lemma utf16be_char_ok c : c < 1114112 -> bytes_ok (utf16be_char c) = true.
Proof.
  intros H. unfold utf16be_char, utf16_units, be2, bytes_ok, byte_ok. case_if; cbn [flat_map app forallb]; lia.
Qed.
Lemma flat_map_ok (f : N -> list N) s :
  (forall c, scalar c = true -> bytes_ok (f c) = true) -> forallb scalar s = true -> bytes_ok (flat_map f s) = true.
Proof.
  intros Hf. induction s as [|c s IH]; intros H; [reflexivity|].
  cbn [forallb] in H. apply andb_true_iff in H. destruct H as [Hc Hs].
  cbn [flat_map]. unfold bytes_ok. rewrite forallb_app. apply andb_true_iff. split; [apply Hf, Hc | apply IH, Hs].
Qed.
Lemma utf16le_ok s : forallb scalar s = true -> bytes_ok (utf16le s) = true.
Proof. apply flat_map_ok. intros c H. apply utf16le_char_ok, scalar_lt, H. Qed.
Lemma utf16be_ok s : forallb scalar s = true -> bytes_ok (utf16be s) = true.
Proof. apply flat_map_ok. intros c H. apply utf16be_char_ok, scalar_lt, H. Qed.
