(* C20 - proofs about Model/Determinism.v, part 1: sorting, normal forms of sets, commuting folds,
   the message and regular-expression-flag sites. *)
From Coq Require Import NArith List Bool Permutation Sorted Lia.
From PS Require Import Base.Chars Model.Determinism.
Import ListNotations.
Open Scope N_scope.

(* ---------------------------------------------------------------------------------------- *)
Section SortP.
  Context {A : Type} (leb : A -> A -> bool).
  Hypothesis leb_total : forall x y, leb x y = true \/ leb y x = true.
  Hypothesis leb_antisym : forall x y, leb x y = true -> leb y x = true -> x = y.
  Hypothesis leb_trans : forall x y z, leb x y = true -> leb y z = true -> leb x z = true.

  Lemma insert_perm x l : Permutation (insert leb x l) (x :: l).
  Proof.
    induction l as [|y r IH]; simpl; [apply Permutation_refl|].
    destruct (leb x y); [apply Permutation_refl|].
    eapply Permutation_trans; [apply perm_skip; exact IH | apply perm_swap].
  Qed.

  Lemma isort_perm_self l : Permutation (isort leb l) l.
  Proof.
    induction l as [|x r IH]; simpl; [constructor|].
    eapply Permutation_trans; [apply insert_perm | apply perm_skip; exact IH].
  Qed.

  Definition sortedP := StronglySorted (fun x y => leb x y = true).

  Lemma insert_sorted x l : sortedP l -> sortedP (insert leb x l).
  Proof.
    induction l as [|y r IH]; intros Hs; simpl.
    - constructor; constructor.
    - inversion Hs as [|? ? Hr Hy]; subst.
      destruct (leb x y) eqn:E.
      + constructor; [exact Hs|]. constructor; [exact E|].
        rewrite Forall_forall in *. intros z Hz. eapply leb_trans; [exact E | apply Hy; exact Hz].
      + constructor; [apply IH; exact Hr|].
        assert (Hyx : leb y x = true) by (destruct (leb_total x y); congruence).
        rewrite Forall_forall in *. intros z Hz.
        apply (Permutation_in _ (insert_perm x r)) in Hz. destruct Hz as [<-|Hz]; auto.
  Qed.

  Lemma isort_sorted l : sortedP (isort leb l).
  Proof. induction l; simpl; [constructor | apply insert_sorted; assumption]. Qed.

  Lemma sorted_unique l : forall l', sortedP l -> sortedP l' -> Permutation l l' -> l = l'.
  Proof.
    induction l as [|x r IH]; intros l' Hs Hs' Hp.
    - apply Permutation_nil in Hp. congruence.
    - destruct l' as [|y r']; [apply Permutation_sym, Permutation_nil in Hp; discriminate|].
      inversion Hs as [|? ? Hr Hx]; inversion Hs' as [|? ? Hr' Hy]; subst.
      rewrite Forall_forall in Hx, Hy.
      assert (x = y).
      { assert (In x (y :: r')) as [->|H1] by (eapply Permutation_in; [exact Hp | left; reflexivity]);
          [reflexivity|].
        assert (In y (x :: r)) as [->|H2]
            by (eapply Permutation_in; [apply Permutation_sym; exact Hp | left; reflexivity]);
          [reflexivity|].
        apply leb_antisym; auto. }
      subst y. f_equal. apply IH; auto. eapply Permutation_cons_inv; exact Hp.
  Qed.

  Theorem isort_perm l l' : Permutation l l' -> isort leb l = isort leb l'.
  Proof.
    intros Hp. apply sorted_unique; try apply isort_sorted.
    eapply Permutation_trans; [apply isort_perm_self|].
    eapply Permutation_trans; [exact Hp | apply Permutation_sym, isort_perm_self].
  Qed.
End SortP.

(* ---------------------------------------------------------------------------------------- *)
(* the two orders in use *)
Lemma Nleb_total x y : N.leb x y = true \/ N.leb y x = true.
Proof. rewrite !N.leb_le. lia. Qed.
Lemma Nleb_antisym x y : N.leb x y = true -> N.leb y x = true -> x = y.
Proof. rewrite !N.leb_le. lia. Qed.
Lemma Nleb_trans x y z : N.leb x y = true -> N.leb y z = true -> N.leb x z = true.
Proof. rewrite !N.leb_le. lia. Qed.

Lemma str_leb_total a : forall b, str_leb a b = true \/ str_leb b a = true.
Proof.
  induction a as [|x a IH]; intros [|y b]; simpl; auto.
  destruct (N.ltb x y) eqn:E1; auto. destruct (N.ltb y x) eqn:E2; auto.
  apply N.ltb_ge in E1, E2. assert (x = y) by lia. subst.
  rewrite N.eqb_refl. apply IH.
Qed.
Lemma str_leb_antisym a : forall b, str_leb a b = true -> str_leb b a = true -> a = b.
Proof.
  induction a as [|x a IH]; intros [|y b]; simpl; auto; try discriminate.
  destruct (N.ltb x y) eqn:E1.
  - apply N.ltb_lt in E1. destruct (N.ltb y x) eqn:E2; [apply N.ltb_lt in E2; lia|].
    destruct (N.eqb y x) eqn:E3; [apply N.eqb_eq in E3; lia | discriminate].
  - destruct (N.eqb x y) eqn:E3; [|discriminate]. apply N.eqb_eq in E3. subst.
    rewrite N.ltb_irrefl, N.eqb_refl. intros H1 H2. f_equal. apply IH; assumption.
Qed.
Lemma str_leb_trans a : forall b c, str_leb a b = true -> str_leb b c = true -> str_leb a c = true.
Proof.
  induction a as [|x a IH]; intros [|y b] [|z c]; simpl; auto; try discriminate.
  destruct (N.ltb x y) eqn:E1.
  - apply N.ltb_lt in E1. intros _.
    destruct (N.ltb y z) eqn:E2.
    + apply N.ltb_lt in E2. intros _. assert (H : N.ltb x z = true) by (apply N.ltb_lt; lia). now rewrite H.
    + destruct (N.eqb y z) eqn:E3; [|discriminate]. apply N.eqb_eq in E3. subst.
      intros _. assert (H : N.ltb x z = true) by (apply N.ltb_lt; lia). now rewrite H.
  - destruct (N.eqb x y) eqn:E3; [|discriminate]. apply N.eqb_eq in E3. subst. intros H1.
    destruct (N.ltb y z); auto. destruct (N.eqb y z); [|discriminate]. apply IH; assumption.
Qed.

Lemma sorted_strs_perm l l' : Permutation l l' -> sorted_strs l = sorted_strs l'.
Proof. apply isort_perm; [apply str_leb_total | apply str_leb_antisym | apply str_leb_trans]. Qed.
Lemma sorted_N_perm (l l' : list N) : Permutation l l' -> isort N.leb l = isort N.leb l'.
Proof. apply isort_perm; [apply Nleb_total | apply Nleb_antisym | apply Nleb_trans]. Qed.

(* ---------------------------------------------------------------------------------------- *)
(* dedup / norm : equal sets have equal normal forms *)
Lemma smem_In x l : smem x l = true <-> In x l.
Proof.
  unfold smem. rewrite existsb_exists. split.
  - intros [y [Hy He]]. apply str_eqb_eq in He. subst. exact Hy.
  - intros H. exists x. split; [exact H | apply str_eqb_refl].
Qed.
Lemma dedup_In x l : In x (dedup l) <-> In x l.
Proof.
  induction l as [|y r IH]; simpl; [tauto|].
  destruct (smem y r) eqn:E.
  - rewrite IH. apply smem_In in E. split; [auto | intros [<-|H]; auto].
  - simpl. rewrite IH. tauto.
Qed.
Lemma dedup_NoDup l : NoDup (dedup l).
Proof.
  induction l as [|y r IH]; simpl; [constructor|].
  destruct (smem y r) eqn:E; [exact IH|]. constructor; [|exact IH].
  rewrite dedup_In. intros H. apply smem_In in H. congruence.
Qed.
Theorem norm_ext l l' : (forall x, In x l <-> In x l') -> norm l = norm l'.
Proof.
  intros H. unfold norm. apply sorted_strs_perm.
  apply NoDup_Permutation; try apply dedup_NoDup. intros x. rewrite !dedup_In. apply H.
Qed.
Lemma norm_perm l l' : Permutation l l' -> norm l = norm l'.
Proof.
  intros H. apply norm_ext. intros x. split; apply Permutation_in; [exact H | apply Permutation_sym; exact H].
Qed.
Lemma norm_In x l : In x (norm l) <-> In x l.
Proof.
  unfold norm, sorted_strs. split; intros H.
  - apply dedup_In. eapply Permutation_in; [apply isort_perm_self | exact H].
  - eapply Permutation_in; [apply Permutation_sym, isort_perm_self | apply dedup_In; exact H].
Qed.

(* ---------------------------------------------------------------------------------------- *)
(* a fold of pairwise commuting steps does not depend on the order of the list *)
Lemma fold_left_perm {S X} (f : S -> X -> S) :
  (forall s x y, f (f s x) y = f (f s y) x) ->
  forall l l', Permutation l l' -> forall s, fold_left f l s = fold_left f l' s.
Proof.
  intros Hc l l' Hp. induction Hp; intros s; simpl; auto.
  - rewrite Hc. reflexivity.
  - rewrite IHHp1. apply IHHp2.
Qed.

(* ---------------------------------------------------------------------------------------- *)
(* message sites *)
Theorem sorted_join_order_free O O' s : sorted_join O s = sorted_join O' s.
Proof.
  unfold sorted_join. f_equal. apply sorted_strs_perm.
  eapply Permutation_trans; [apply ord_perm | apply Permutation_sym, ord_perm].
Qed.
Theorem unref_msg_order_free O O' keys refids : unref_msg O keys refids = unref_msg O' keys refids.
Proof. unfold unref_msg. destruct (Nat.ltb _ _); [|reflexivity]. now rewrite (sorted_join_order_free O O'). Qed.
Theorem corr_msg_order_free O O' u : corr_msg O u = corr_msg O' u.
Proof. unfold corr_msg. destruct (norm u); [reflexivity|]. now rewrite (sorted_join_order_free O O'). Qed.

(* the join without sorted() (the code before the repair) depends on the order *)
Definition ord_id : order := {| ord := fun A l => l; ord_perm := fun A l => Permutation_refl l |}.
Definition ord_rev : order := {| ord := fun A l => rev l; ord_perm := fun A l => Permutation_sym (Permutation_rev l) |}.
Theorem unsorted_join_refuted : exists O O' s, unsorted_join O s <> unsorted_join O' s.
Proof. exists ord_id, ord_rev, [[97]; [98]]. vm_compute. discriminate. Qed.

(* regular expression flags *)
Theorem py_flags_order_free O O' fl : py_flags O fl = py_flags O' fl.
Proof.
  unfold py_flags. apply fold_left_perm.
  - intros s x y. rewrite <- !N.lor_assoc. f_equal. apply N.lor_comm.
  - eapply Permutation_trans; [apply ord_perm | apply Permutation_sym, ord_perm].
Qed.
Theorem flag_prefix_order_free O O' fl : flag_prefix O fl = flag_prefix O' fl.
Proof.
  unfold flag_prefix. destruct (flag_set fl) as [|f r]; [reflexivity|].
  f_equal. f_equal. apply sorted_N_perm. apply Permutation_map.
  eapply Permutation_trans; [apply ord_perm | apply Permutation_sym, ord_perm].
Qed.

(* validation issue names *)
Theorem dangling_names_order_free O O' d r : dangling_names O d r = dangling_names O' d r.
Proof.
  unfold dangling_names. apply sorted_strs_perm.
  eapply Permutation_trans; [apply ord_perm | apply Permutation_sym, ord_perm].
Qed.
Theorem unknown_refs_order_free O O' r : unknown_refs O r = unknown_refs O' r.
Proof.
  unfold unknown_refs. apply sorted_strs_perm.
  eapply Permutation_trans; [apply ord_perm | apply Permutation_sym, ord_perm].
Qed.

(* ---------------------------------------------------------------------------------------- *)
(* first match in a set iteration: order-free when exactly one element matches *)
Lemma find_filter {A} (P : A -> bool) l : find P l = hd_error (filter P l).
Proof. induction l as [|x l IH]; simpl; [reflexivity|]. destruct (P x); [reflexivity | exact IH]. Qed.

Lemma Permutation_filter_P {A} (f : A -> bool) l l' : Permutation l l' -> Permutation (filter f l) (filter f l').
Proof.
  induction 1; simpl.
  - constructor.
  - destruct (f x); [apply perm_skip|]; assumption.
  - destruct (f x), (f y); try apply perm_swap; try apply Permutation_refl.
  - eapply Permutation_trans; eassumption.
Qed.

Lemma find_unique_perm {A} (P : A -> bool) l l' x :
  Permutation l l' -> filter P l = [x] -> find P l' = Some x.
Proof.
  intros Hp Hf. rewrite find_filter.
  assert (H : Permutation [x] (filter P l')) by (rewrite <- Hf; apply Permutation_filter_P; exact Hp).
  apply Permutation_length_1_inv in H. rewrite H. reflexivity.
Qed.

Theorem corr_from_dict_order_free O O' d : corr_from_dict O d = corr_from_dict O' d.
Proof.
  unfold corr_from_dict.
  destruct (filter (fun op => haskey op d) corr_ops) as [|x [|y r]] eqn:E; try reflexivity.
  destruct (norm _) eqn:En.
  - rewrite (find_unique_perm _ corr_ops (ord O corr_ops) x), (find_unique_perm _ corr_ops (ord O' corr_ops) x);
      try exact E; try (apply Permutation_sym, ord_perm). reflexivity.
  - now rewrite (sorted_join_order_free O O').
Qed.

Definition c_gte : str := [103;116;101].
Definition c_lte : str := [108;116;101].
Theorem corr_from_dict_weak_refuted : exists O O' d, corr_from_dict_weak O d <> corr_from_dict_weak O' d.
Proof. exists ord_id, ord_rev, [(c_gte, VInt [50]); (c_lte, VNull)]. vm_compute. discriminate. Qed.
