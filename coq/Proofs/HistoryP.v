(* C14 - histories: as long as every conversion runs a pipeline that still owns its objects, the heap
   machine (Model.Pipeline.mexec) shows exactly what the value-only specification of the history
   (Spec.AbsPipeline.aexec) shows. *)
From Coq Require Import NArith ZArith List Bool Lia Permutation.
From PS Require Import Base.Chars Base.Outcome Spec.AbsPipeline Model.Pipeline Proofs.PipelineP.
Import ListNotations.
Open Scope N_scope.

(* ------------------------------------------------------------------ running never touches own / vars / next *)
Definition same (h h' : heap) : Prop :=
  h_own h' = h_own h /\ h_vars h' = h_vars h /\ h_next h' = h_next h.
Lemma same_refl h : same h h.
Proof. repeat split. Qed.
Lemma same_trans h1 h2 h3 : same h1 h2 -> same h2 h3 -> same h1 h3.
Proof. intros (A & B & C) (D & E & F). repeat split; congruence. Qed.

Lemma item_step_pres acc i h' m' : m_item_step acc i = Ok (h', m') ->
  exists h m, acc = Ok (h, m) /\ same h h'.
Proof.
  unfold m_item_step. destruct acc as [[h m]|t|t]; cbn [obind fst snd]; try discriminate.
  destruct (m_cond h (i_uid i) (i_cond i)) as [c|t|t]; cbn [obind]; try discriminate.
  intros H. exists h, m. split; [reflexivity|].
  destruct c; [|inversion H; subst; apply same_refl].
  destruct (i_kind i); try (inversion H; subst; apply same_refl).
  destruct (h_own h (i_uid i)); inversion H; subst; repeat split.
Qed.
Lemma items_pres its : forall acc h' m', fold_left m_item_step its acc = Ok (h', m') ->
  exists h m, acc = Ok (h, m) /\ same h h'.
Proof.
  induction its as [|i its IH]; intros acc h' m' H; cbn in H.
  - exists h', m'. split; [exact H | apply same_refl].
  - destruct (IH _ _ _ H) as (h1 & m1 & E1 & S1).
    destruct (item_step_pres _ _ _ _ E1) as (h & m & E & S). exists h, m. split; [exact E|].
    eapply same_trans; eassumption.
Qed.
Lemma rule_pres f self acc r h' a' : m_rule f self acc r = Ok (h', a') ->
  exists h a, acc = Ok (h, a) /\ same h h'.
Proof.
  unfold m_rule. destruct acc as [[h a]|t|t]; cbn [obind fst snd]; try discriminate.
  destruct (m_apply h self r) as [[h1 m1]|t|t] eqn:E; cbn [obind fst snd]; try discriminate.
  destruct (m_post _ _ _ _) as [qi|t|t]; cbn [obind]; try discriminate.
  intros H. inversion H; subst. exists h, a. split; [reflexivity|].
  unfold m_apply in E. destruct (items_pres _ _ _ _ E) as (h0 & m0 & E0 & S0). inversion E0; subst.
  destruct S0 as (A & B & C). repeat split; assumption.
Qed.
Lemma rules_pres f self rules : forall acc h' a', fold_left (m_rule f self) rules acc = Ok (h', a') ->
  exists h a, acc = Ok (h, a) /\ same h h'.
Proof.
  induction rules as [|r rules IH]; intros acc h' a' H; cbn in H.
  - exists h', a'. split; [exact H | apply same_refl].
  - destruct (IH _ _ _ H) as (h1 & a1 & E1 & S1).
    destruct (rule_pres _ _ _ _ _ _ E1) as (h & a & E & S). exists h, a. split; [exact E|].
    eapply same_trans; eassumption.
Qed.
Lemma run_pres h f p rules : same h (fst (m_run h f p rules)).
Proof.
  unfold m_run. destruct (fold_left _ rules _) as [[h1 a1]|t|t] eqn:E; cbn [fst]; try apply same_refl.
  destruct (rules_pres _ _ _ _ _ _ E) as (h0 & a0 & E0 & S0). inversion E0; subst. exact S0.
Qed.

(* ------------------------------------------------------------------ one addition *)
Definition absr (h : heap) (r : outcome ppl) : outcome apipe :=
  match r with Ok s => Ok (abs h s) | SigmaErr t => SigmaErr t | Crash t => Crash t end.

Lemma abs_stable h h' p : frame h h' -> valid h p -> abs h' p = abs h p /\ valid h' p.
Proof.
  intros (A & B & _) V. split; [apply abs_frame; assumption | unfold valid in *; lia].
Qed.
Lemma valid_all_frame h h' l : frame h h' -> Forall (valid h) l -> Forall (valid h') l /\ map (abs h') l = map (abs h) l.
Proof.
  intros F V. split.
  - rewrite Forall_forall in *. intros p Hp. apply (abs_stable h h' p F). apply V. exact Hp.
  - apply map_ext_in. intros p Hp. apply (abs_stable h h' p F). rewrite Forall_forall in V. apply V. exact Hp.
Qed.

Lemma add_sim h p q h' r : add h p q = (h', r) ->
  absr h' r = aplus_checked (abs h p) (abs h q) /\ frame h h' /\
  (forall s, r = Ok s -> valid h' s /\ owned h' s).
Proof.
  intros E. split; [|split; [eapply add_frame; exact E|]].
  - pose proof (add_defined h p q) as D. rewrite E in D. cbn [snd] in D.
    unfold aplus_checked, atagged, aplus. cbn [a_items a_post a_fin abs].
    destruct (first_dup [] _) as [t|].
    + subst r. reflexivity.
    + subst r. cbn [absr]. f_equal.
      pose proof (add_refines _ _ _ _ _ E) as [A _]. rewrite A. reflexivity.
  - intros s ->. pose proof (add_ok _ _ _ _ _ E) as (O & S & _ & _ & Nx). split; [|exact O].
    unfold valid. subst s. cbn. lia.
Qed.

(* ------------------------------------------------------------------ bracketings over registers *)
Lemma to_tree_ok regs e : itree_ok (length regs) e = true -> exists t, to_tree regs e = Some t.
Proof.
  induction e as [i|a IHa b IHb]; cbn; intros H.
  - apply Nat.ltb_lt in H. destruct (nth_error regs i) eqn:E; [eexists; reflexivity|].
    apply nth_error_None in E. lia.
  - apply andb_true_iff in H. destruct H as [Ha Hb].
    destruct (IHa Ha) as [ta ->], (IHb Hb) as [tb ->]. eexists. reflexivity.
Qed.
Lemma to_tree_not_ok regs e : itree_ok (length regs) e = false -> to_tree regs e = None.
Proof.
  induction e as [i|a IHa b IHb]; cbn; intros H.
  - apply Nat.ltb_ge in H. apply nth_error_None in H. rewrite H. reflexivity.
  - apply andb_false_iff in H. destruct H as [H|H].
    + rewrite (IHa H). reflexivity.
    + rewrite (IHb H). destruct (to_tree regs a); reflexivity.
Qed.

Lemma eval_sim regs e : forall t h h' r,
  to_tree regs e = Some t -> Forall (valid h) regs -> eval h t = (h', r) ->
  absr h' r = aeval (map (abs h) regs) e /\ frame h h' /\ (forall s, r = Ok s -> valid h' s).
Proof.
  induction e as [i|a IHa b IHb]; intros t h h' r T V E; cbn in T.
  - destruct (nth_error regs i) as [p|] eqn:En; [|discriminate]. inversion T; subst. cbn in E. inversion E; subst.
    cbn. rewrite (map_nth_error _ _ _ En). split; [reflexivity|]. split; [apply frame_refl|].
    intros s Hs. inversion Hs; subst. rewrite Forall_forall in V. apply V. eapply nth_error_In. exact En.
  - destruct (to_tree regs a) as [ta|] eqn:Ta; [|discriminate].
    destruct (to_tree regs b) as [tb|] eqn:Tb; [|discriminate]. inversion T; subst. cbn in E.
    unfold hbind in E. destruct (eval h ta) as [h1 ra] eqn:Ea. cbn [fst snd] in E.
    destruct (IHa _ _ _ _ eq_refl V Ea) as (Sa & Fa & Va). cbn [aeval]. rewrite <- Sa.
    destruct ra as [pa|x|x]; cbn [absr obind]; try (inversion E; subst; cbn; split; [reflexivity|]; split; [assumption | intros; discriminate]).
    destruct (valid_all_frame _ _ _ Fa V) as [V1 M1].
    destruct (eval h1 tb) as [h2 rb] eqn:Eb. cbn [fst snd] in E.
    destruct (IHb _ _ _ _ eq_refl V1 Eb) as (Sb & Fb & Vb). rewrite M1 in Sb. rewrite <- Sb.
    destruct rb as [pb|x|x]; cbn [absr obind];
      try (inversion E; subst; cbn; split; [reflexivity|]; split; [eapply frame_trans; eassumption | intros; discriminate]).
    destruct (add_sim _ _ _ _ _ E) as (Sc & Fc & Vc).
    destruct (abs_stable _ _ pa Fb (Va _ eq_refl)) as [Ep _]. rewrite Ep in Sc.
    split; [exact Sc|]. split; [eapply frame_trans; [eassumption|]; eapply frame_trans; eassumption|].
    intros s Hs. apply Vc. exact Hs.
Qed.

(* ------------------------------------------------------------------ the resolver on objects and on values *)
Section ResolveMap.
  Context {A B : Type} (g : A -> B) (nm : A -> option str) (pr : A -> Z) (nm' : B -> option str) (pr' : B -> Z).
  Hypothesis nm_g : forall x, nm' (g x) = nm x.
  Hypothesis pr_g : forall x, pr' (g x) = pr x.
  Definition gx (x : A * str) : B * str := (g (fst x), snd x).

  Lemma reg_lookup_map reg s : reg_lookup nm' (map g reg) s = option_map g (reg_lookup nm reg s).
  Proof.
    induction reg as [|p reg IH]; cbn; [reflexivity|]. rewrite IH.
    destruct (reg_lookup nm reg s); cbn; [reflexivity|]. rewrite nm_g.
    destruct (oname_eqb (nm p) s); reflexivity.
  Qed.
  Lemma resolve_all_map reg specs :
    resolve_all nm' (map g reg) specs = option_map (map gx) (resolve_all nm reg specs).
  Proof.
    induction specs as [|s specs IH]; cbn; [reflexivity|]. rewrite reg_lookup_map, IH.
    destruct (reg_lookup nm reg s); cbn; [|reflexivity]. destruct (resolve_all nm reg specs); reflexivity.
  Qed.
  Lemma info_leb_map x y : info_leb pr' (gx x) (gx y) = info_leb pr x y.
  Proof. unfold info_leb, info_key, gx. cbn. rewrite !pr_g. reflexivity. Qed.
  Lemma insert_map x l : insert (info_leb pr') (gx x) (map gx l) = map gx (insert (info_leb pr) x l).
  Proof.
    induction l as [|y l IH]; cbn; [reflexivity|]. rewrite info_leb_map.
    destruct (info_leb pr x y); cbn; [reflexivity|]. rewrite IH. reflexivity.
  Qed.
  Lemma isort_map l : isort (info_leb pr') (map gx l) = map gx (isort (info_leb pr) l).
  Proof. induction l as [|x l IH]; cbn; [reflexivity|]. rewrite IH. apply insert_map. Qed.
  Lemma resolve_order_map reg specs :
    resolve_order nm' pr' (map g reg) specs = option_map (map g) (resolve_order nm pr reg specs).
  Proof.
    unfold resolve_order. rewrite resolve_all_map. destruct (resolve_all nm reg specs) as [l|]; cbn; [|reflexivity].
    rewrite isort_map, !map_map. reflexivity.
  Qed.
End ResolveMap.

Lemma resolve_order_in reg specs l : resolve_order p_name p_prio reg specs = Some l ->
  forall q, In q l -> In q reg.
Proof.
  intros E q Hq. unfold resolve_order in E.
  destruct (resolve_all p_name reg specs) as [l0|] eqn:E0; [|discriminate].
  inversion E as [E1]. assert (Hin : In q (map fst (isort (info_leb p_prio) l0))) by (rewrite E1; exact Hq).
  apply in_map_iff in Hin. destruct Hin as (x & Hx & Hin). subst q.
  apply (Permutation_in _ (isort_perm _ l0)) in Hin.
  pose proof (resolve_all_lookup p_name reg specs l0 E0 x Hin) as Hlk.
  clear - Hlk. induction reg as [|r reg IH]; cbn in Hlk; [discriminate|].
  destruct (reg_lookup p_name reg (snd x)) eqn:Er.
  - right. apply IH. congruence.
  - destruct (oname_eqb (p_name r) (snd x)); [left; congruence | discriminate].
Qed.

Definition afold (l : list apipe) (acc : outcome apipe) : outcome apipe :=
  fold_left (fun acc q => obind acc (fun s => aplus_checked s q)) l acc.

Lemma psum_fold_sim l : forall h0 h1 r1,
  frame h0 h1 -> Forall (valid h0) l -> (forall s, r1 = Ok s -> valid h1 s) ->
  forall h' r, fold_left (fun acc q => hbind acc (fun h' s => add h' s q)) l (h1, r1) = (h', r) ->
  absr h' r = afold (map (abs h0) l) (absr h1 r1) /\ frame h0 h' /\ (forall s, r = Ok s -> valid h' s).
Proof.
  induction l as [|q l IH]; intros h0 h1 r1 F V V1 h' r E; cbn in E.
  - inversion E; subst. cbn. split; [reflexivity|]. split; assumption.
  - inversion V as [|? ? Vq Vl]; subst. cbn [map afold fold_left]. fold (afold (map (abs h0) l)).
    unfold hbind at 2 in E. cbn [fst snd] in E.
    destruct r1 as [s1|x|x]; cbn [absr obind].
    + destruct (add h1 s1 q) as [h2 r2] eqn:Ea.
      destruct (add_sim _ _ _ _ _ Ea) as (Sa & Fa & Va).
      destruct (abs_stable _ _ q F Vq) as [Eq _]. rewrite Eq in Sa. rewrite <- Sa.
      apply (IH h0 h2 r2); [eapply frame_trans; eassumption | exact Vl | intros s Hs; apply Va; exact Hs | exact E].
    + apply (IH h0 h1 (SigmaErr x)); [exact F | exact Vl | intros; discriminate | exact E].
    + apply (IH h0 h1 (Crash x)); [exact F | exact Vl | intros; discriminate | exact E].
Qed.

Lemma upd_same {A} (f : N -> A) k v : upd f k v k = v.
Proof. unfold upd. rewrite N.eqb_refl. reflexivity. Qed.

Lemma mk_empty_sim h h' r : mk h [] [] [] [] 0%Z None = (h', r) ->
  absr h' r = Ok aempty /\ frame h h' /\ (forall s, r = Ok s -> valid h' s).
Proof.
  unfold mk. change (tagged [] [] []) with (@nil (N * N)). cbn [own_all fst snd]. intros E. inversion E; subst; clear E.
  cbn [absr]. unfold abs, aempty. cbn [p_items p_post p_fin p_id h_vars].
  rewrite upd_same. split; [reflexivity|]. split.
  - unfold frame, wf_heap. cbn [h_next h_vars]. split; [lia|]. split.
    + intros pid Hp. unfold upd. destruct (N.eqb pid (h_next h)) eqn:E; [apply N.eqb_eq in E; lia | reflexivity].
    + intros W pid. unfold upd. destruct (N.eqb pid (h_next h)); [constructor | apply W].
  - intros s Hs. inversion Hs; subst. unfold valid. cbn. lia.
Qed.

Lemma psum_sim l h h' r : Forall (valid h) l -> psum h l = (h', r) ->
  absr h' r = asum (map (abs h) l) /\ frame h h' /\ (forall s, r = Ok s -> valid h' s).
Proof.
  intros V E. destruct l as [|p l]; cbn [psum] in E.
  - apply mk_empty_sim. exact E.
  - inversion V as [|? ? Vp Vl]; subst.
    apply (psum_fold_sim l h h (Ok p)); [apply frame_refl | exact Vl | intros s Hs; inversion Hs; subst; exact Vp | exact E].
Qed.

Definition gentry (h : heap) (p : ppl) : aentry := (abs h p, p_prio p, p_name p).

Lemma resolve_sim h reg specs h' r : Forall (valid h) reg -> resolve h reg specs = (h', r) ->
  absr h' r = aresolve (map (gentry h) reg) specs /\ frame h h' /\ (forall s, r = Ok s -> valid h' s).
Proof.
  intros V E. unfold resolve in E. unfold aresolve.
  rewrite (resolve_order_map (gentry h) p_name p_prio) by reflexivity.
  destruct (resolve_order p_name p_prio reg specs) as [l|] eqn:Eo; cbn [option_map].
  - rewrite map_map. cbn [gentry fst].
    assert (Vl : Forall (valid h) l).
    { rewrite Forall_forall in *. intros q Hq. apply V. eapply resolve_order_in; eassumption. }
    replace (map (fun x : ppl => abs h x) l) with (map (abs h) l) by reflexivity.
    apply psum_sim; assumption.
  - inversion E; subst. cbn. split; [reflexivity|]. split; [apply frame_refl | intros; discriminate].
Qed.

(* ------------------------------------------------------------------ backend initialisation *)
Lemma init_sim h f bk user outf h' r :
  valid h bk -> valid h outf -> (forall u, user = Some u -> valid h u) ->
  init h f bk user outf = (h', r) ->
  absr h' r = ainit f (abs h bk) (option_map (abs h) user) (abs h outf) /\ frame h h' /\
  (forall s, r = Ok s -> valid h' s /\ owned h' s).
Proof.
  intros Vb Vo Vu E. unfold init in E. unfold ainit.
  assert (S1 : forall h1 r1, add_opt h bk user = (h1, r1) ->
     absr h1 r1 = match option_map (abs h) user with None => Ok (abs h bk) | Some u => aplus_checked (abs h bk) u end /\
     frame h h1 /\ (forall s, r1 = Ok s -> valid h1 s)).
  { intros h1 r1 E1. destruct user as [u|]; cbn in E1 |- *.
    - destruct (add_sim _ _ _ _ _ E1) as (A & B & C). split; [exact A|]. split; [exact B|]. intros s Hs. apply C. exact Hs.
    - inversion E1; subst. split; [reflexivity|]. split; [apply frame_refl|]. intros s Hs. inversion Hs; subst. exact Vb. }
  unfold hbind in E. destruct (add_opt h bk user) as [h1 r1] eqn:E1. cbn [fst snd] in E.
  destruct (S1 _ _ eq_refl) as (A1 & F1 & V1). rewrite <- A1.
  destruct r1 as [s1|x|x]; cbn [absr obind];
    try (inversion E; subst; cbn; split; [reflexivity|]; split; [assumption | intros; discriminate]).
  destruct (add h1 s1 outf) as [h2 r2] eqn:E2. cbn [fst snd] in E.
  destruct (add_sim _ _ _ _ _ E2) as (A2 & F2 & V2).
  destruct (abs_stable _ _ outf F1 Vo) as [Eo _]. rewrite Eo in A2. rewrite <- A2.
  destruct r2 as [s2|x|x]; cbn [absr obind];
    try (inversion E; subst; cbn; split; [reflexivity|]; split; [eapply frame_trans; eassumption | intros; discriminate]).
  inversion E; subst; clear E. destruct (V2 _ eq_refl) as [Vs Os].
  split.
  - cbn [absr]. f_equal. unfold abs, with_backend_vars. cbn [a_items a_post a_fin a_vars h_vars].
    unfold upd. rewrite N.eqb_refl. reflexivity.
  - split.
    + pose proof (add_ok _ _ _ _ _ E2) as (_ & Hs2 & _).
      assert (Hge : h_next h <= p_id s2) by (rewrite Hs2; cbn [p_id]; destruct F1 as [? _]; lia).
      pose proof (frame_trans _ _ _ F1 F2) as (Fn & Fv & Fw).
      unfold frame, wf_heap. cbn [h_next h_vars]. split; [exact Fn|]. split.
      * intros pid Hp. unfold upd. destruct (N.eqb pid (p_id s2)) eqn:Ep; [apply N.eqb_eq in Ep; lia | apply Fv; exact Hp].
      * intros W pid. pose proof (Fw W) as W2. unfold upd. destruct (N.eqb pid (p_id s2)); [apply dict_ok_dset, dict_ok_dset, W2 | apply W2].
    + intros s Hs. inversion Hs; subst. split; [exact Vs | exact Os].
Qed.

(* ------------------------------------------------------------------ the two machines, step by step *)
Lemma ownedb_owned h p : ownedb h p = true -> owned h p.
Proof.
  unfold ownedb, owned. rewrite forallb_forall. intros H u Hu. specialize (H u Hu).
  destruct (h_own h u) as [o|]; [|discriminate]. apply N.eqb_eq in H. subst. reflexivity.
Qed.
Lemma same_frame h h' : same h h' -> frame h h'.
Proof.
  intros (_ & B & C). unfold frame, wf_heap. rewrite B, C. split; [lia|]. split; [reflexivity | auto].
Qed.

Definition oabs (h : heap) (o : option ppl) : option apipe := option_map (abs h) o.
Definition ovalid (h : heap) (o : option ppl) : Prop := forall p, o = Some p -> valid h p.
Definition amach_of (h : heap) (m : mach) : amach :=
  {| am_regs := map (abs h) (mc_regs m); am_lastA := oabs h (mc_lastA m); am_lastB := oabs h (mc_lastB m);
     am_res := mc_res m |}.
Definition allvalid (h : heap) (m : mach) : Prop :=
  Forall (valid h) (mc_regs m) /\ ovalid h (mc_lastA m) /\ ovalid h (mc_lastB m).

Lemma oabs_frame h h' o : frame h h' -> ovalid h o -> oabs h' o = oabs h o /\ ovalid h' o.
Proof.
  intros F V. destruct o as [p|]; cbn.
  - destruct (abs_stable _ _ p F (V p eq_refl)) as [E Vp]. rewrite E. split; [reflexivity|].
    intros q Hq. inversion Hq; subst. exact Vp.
  - split; [reflexivity | intros q Hq; discriminate].
Qed.

Section Machines.
  Variables (f : fmt) (reg : list ppl) (bk outf : ppl) (rules : list rule).

  Definition fixedok (h : heap) : Prop := Forall (valid h) reg /\ valid h bk /\ valid h outf.
  Definition inv (m : mach) (a : amach) (areg : list aentry) (abk aoutf : apipe) : Prop :=
    a = amach_of (mc_heap m) m /\ allvalid (mc_heap m) m /\ fixedok (mc_heap m) /\
    areg = map (gentry (mc_heap m)) reg /\ abk = abs (mc_heap m) bk /\ aoutf = abs (mc_heap m) outf.

  Lemma fixed_frame h h' : frame h h' -> fixedok h ->
    fixedok h' /\ map (gentry h') reg = map (gentry h) reg /\ abs h' bk = abs h bk /\ abs h' outf = abs h outf.
  Proof.
    intros F (Vr & Vb & Vo).
    destruct (valid_all_frame _ _ _ F Vr) as [Vr' _].
    destruct (abs_stable _ _ bk F Vb) as [Eb Vb'], (abs_stable _ _ outf F Vo) as [Eo Vo'].
    split; [repeat split; assumption|]. split; [|split; assumption].
    apply map_ext_in. intros p Hp. unfold gentry. rewrite Forall_forall in Vr.
    destruct (abs_stable _ _ p F (Vr p Hp)) as [E _]. rewrite E. reflexivity.
  Qed.
  Lemma mach_frame h h' m : frame h h' -> allvalid h m -> amach_of h' m = amach_of h m /\ allvalid h' m.
  Proof.
    intros F (Vr & Va & Vb). destruct (valid_all_frame _ _ _ F Vr) as [Vr' Er].
    destruct (oabs_frame _ _ _ F Va) as [Ea Va'], (oabs_frame _ _ _ F Vb) as [Eb Vb'].
    split; [unfold amach_of; rewrite Er, Ea, Eb; reflexivity | repeat split; assumption].
  Qed.

  Definition osim (mo : outcome mach) (ao : outcome amach) (areg : list aentry) (abk aoutf : apipe) : Prop :=
    match mo, ao with
    | Ok m', Ok a' => inv m' a' areg abk aoutf
    | SigmaErr t, SigmaErr t' => t = t'
    | Crash t, Crash t' => t = t'
    | _, _ => False
    end.

  (* pushing the result of an allocation-only operation *)
  Lemma push_sim m a areg abk aoutf h' r ar :
    inv m a areg abk aoutf -> frame (mc_heap m) h' -> absr h' r = ar -> (forall s, r = Ok s -> valid h' s) ->
    osim (mc_push m (h', r))
         (obind ar (fun p => Ok {| am_regs := am_regs a ++ [p]; am_lastA := am_lastA a; am_lastB := am_lastB a; am_res := am_res a |}))
         areg abk aoutf.
  Proof.
    intros (Ea & Av & Fx & Er & Eb & Eo) F S V. subst ar. unfold mc_push. cbn [snd fst].
    destruct r as [s|t|t]; cbn [absr obind osim]; try reflexivity.
    destruct (mach_frame _ _ m F Av) as [Em (Vr & Va & Vb)].
    destruct (fixed_frame _ _ F Fx) as (Fx' & Er' & Eb' & Eo').
    unfold inv. cbn [mc_heap mc_regs mc_lastA mc_lastB mc_res].
    split; [|split; [|split; [exact Fx' | split; [congruence | split; congruence]]]].
    - subst a. unfold amach_of in *. cbn [mc_regs mc_lastA mc_lastB mc_res am_regs am_lastA am_lastB am_res] in *.
      inversion Em as [[E1 E2 E3]]. rewrite map_app. cbn [map]. rewrite E1, E2, E3. reflexivity.
    - unfold allvalid. cbn [mc_regs mc_lastA mc_lastB]. split; [|split; assumption].
      apply Forall_app. split; [exact Vr | constructor; [apply V; reflexivity | constructor]].
  Qed.

  Lemma setlast_sim m a areg abk aoutf b h' r ar :
    inv m a areg abk aoutf -> frame (mc_heap m) h' -> absr h' r = ar -> (forall s, r = Ok s -> valid h' s) ->
    osim (mc_set_last m b (h', r)) (obind ar (fun p => Ok (am_set_last a b p))) areg abk aoutf.
  Proof.
    intros (Ea & Av & Fx & Er & Eb & Eo) F S V. subst ar. unfold mc_set_last. cbn [snd fst].
    destruct r as [s|t|t]; cbn [absr obind osim]; try reflexivity.
    destruct (mach_frame _ _ m F Av) as [Em (Vr & Va & Vb)].
    destruct (fixed_frame _ _ F Fx) as (Fx' & Er' & Eb' & Eo').
    unfold inv. cbn [mc_heap mc_regs mc_lastA mc_lastB mc_res].
    split; [|split; [|split; [exact Fx' | split; [congruence | split; congruence]]]].
    - subst a. unfold amach_of, am_set_last in *.
      cbn [mc_regs mc_lastA mc_lastB mc_res am_regs am_lastA am_lastB am_res] in *.
      inversion Em as [[E1 E2 E3]]. rewrite E1. destruct b; cbn [oabs option_map]; rewrite ?E2, ?E3; reflexivity.
    - unfold allvalid. cbn [mc_regs mc_lastA mc_lastB]. split; [exact Vr|].
      destruct b; split; try assumption; intros q Hq; inversion Hq; subst; apply V; reflexivity.
  Qed.

  Lemma user_sim m a areg abk aoutf u : inv m a areg abk aoutf ->
    match mc_user m u, am_user a u with
    | Ok up, Ok aup => aup = oabs (mc_heap m) up /\ ovalid (mc_heap m) up
    | Crash t, Crash t' => t = t'
    | _, _ => False
    end.
  Proof.
    intros (Ea & (Vr & _) & _). subst a. unfold mc_user, am_user, amach_of. cbn [am_regs].
    destruct u as [i|]; [|split; [reflexivity | intros q Hq; discriminate]].
    destruct (nth_error (mc_regs m) i) as [p|] eqn:E.
    - rewrite (map_nth_error _ _ _ E). split; [reflexivity|]. intros q Hq. inversion Hq; subst.
      rewrite Forall_forall in Vr. apply Vr. eapply nth_error_In. exact E.
    - assert (En : nth_error (map (abs (mc_heap m)) (mc_regs m)) i = None).
      { apply nth_error_None. rewrite map_length. apply nth_error_None. exact E. }
      rewrite En. reflexivity.
  Qed.

  Lemma run_sim m a areg abk aoutf b :
    inv m a areg abk aoutf ->
    (forall p, mc_last m b = Some p -> owned (mc_heap m) p) ->
    osim (mc_run f rules m b)
         (match am_last a b with
          | None => Crash C_Harness
          | Some p => obind (abs_run f p rules) (fun r =>
              Ok {| am_regs := am_regs a; am_lastA := am_lastA a; am_lastB := am_lastB a; am_res := Some r |})
          end) areg abk aoutf.
  Proof.
    intros (Ea & Av & Fx & Er & Eb & Eo) O. unfold mc_run.
    assert (El : am_last a b = oabs (mc_heap m) (mc_last m b)).
    { subst a. unfold am_last, mc_last, amach_of. cbn. destruct b; reflexivity. }
    rewrite El. destruct (mc_last m b) as [p|]; cbn [oabs option_map osim]; [|reflexivity].
    rewrite <- (behaviour _ f p rules (O p eq_refl)).
    pose proof (run_pres (mc_heap m) f p rules) as S. apply same_frame in S.
    destruct (m_run (mc_heap m) f p rules) as [h' r]. cbn [fst snd] in *.
    destruct r as [x|t|t]; cbn [obind osim]; try reflexivity.
    destruct (mach_frame _ _ m S Av) as [Em (Vr & Va & Vb)].
    destruct (fixed_frame _ _ S Fx) as (Fx' & Er' & Eb' & Eo').
    unfold inv. cbn [mc_heap mc_regs mc_lastA mc_lastB mc_res].
    split; [|split; [repeat split; assumption | split; [exact Fx' | split; [congruence | split; congruence]]]].
    subst a. unfold amach_of in *. cbn [mc_regs mc_lastA mc_lastB mc_res am_regs am_lastA am_lastB am_res] in *.
    inversion Em as [[E1 E2 E3]]. rewrite E1, E2, E3. reflexivity.
  Qed.

  Lemma step_sim m a areg abk aoutf o :
    inv m a areg abk aoutf -> run_dom m o true = true ->
    osim (mstep f reg bk outf rules m o) (astep f areg abk aoutf rules (Ok a) o) areg abk aoutf.
  Proof.
    intros I D. pose proof I as (Ea & Av & Fx & Er & Eb & Eo).
    destruct Av as (Vr & Va & Vb). destruct Fx as (Vreg & Vbk & Vof).
    destruct o as [e|specs|b u|b|b u]; cbn [mstep astep obind].
    - (* OpTree *)
      assert (El : length (am_regs a) = length (mc_regs m)) by (subst a; cbn; apply map_length).
      rewrite El. destruct (itree_ok (length (mc_regs m)) e) eqn:Ok_.
      + destruct (to_tree_ok _ _ Ok_) as [t Et]. rewrite Et.
        destruct (eval (mc_heap m) t) as [h' r] eqn:Ee.
        destruct (eval_sim _ _ _ _ _ _ Et Vr Ee) as (S & F & V).
        apply push_sim; try assumption. subst a. exact S.
      + rewrite (to_tree_not_ok _ _ Ok_). reflexivity.
    - (* OpResolve *)
      destruct (resolve (mc_heap m) reg specs) as [h' r] eqn:Ee.
      destruct (resolve_sim _ _ _ _ _ Vreg Ee) as (S & F & V).
      apply push_sim; try assumption. subst areg. exact S.
    - (* OpInit *)
      pose proof (user_sim m a areg abk aoutf u I) as U.
      destruct (mc_user m u) as [up|t|t], (am_user a u) as [aup|t'|t']; cbn [obind osim]; try contradiction; try exact U.
      destruct U as [Eu Vu]. subst aup.
      destruct (init (mc_heap m) f bk up outf) as [h' r] eqn:Ei.
      destruct (init_sim _ _ _ _ _ _ _ Vbk Vof Vu Ei) as (S & F & V).
      apply setlast_sim; try assumption; [subst abk aoutf; exact S | intros s Hs; apply V; exact Hs].
    - (* OpRun *)
      cbn [run_dom andb] in D.
      assert (El : am_last a b = oabs (mc_heap m) (mc_last m b)).
      { subst a. unfold am_last, mc_last, amach_of. cbn. destruct b; reflexivity. }
      apply run_sim; [exact I|]. intros p Hp. rewrite Hp in D. apply ownedb_owned. exact D.
    - (* OpConvert *)
      pose proof (user_sim m a areg abk aoutf u I) as U.
      destruct (mc_user m u) as [up|t|t], (am_user a u) as [aup|t'|t']; cbn [obind osim]; try contradiction; try exact U.
      destruct U as [Eu Vu]. subst aup.
      destruct (init (mc_heap m) f bk up outf) as [h' r] eqn:Ei.
      destruct (init_sim _ _ _ _ _ _ _ Vbk Vof Vu Ei) as (S & F & V).
      pose proof (setlast_sim m a areg abk aoutf b h' r _ I F S (fun s Hs => proj1 (V s Hs))) as L.
      rewrite Eb, Eo in L |- *. unfold oabs in *. rewrite <- S in L |- *. rewrite <- Eb, <- Eo in L |- *.
      destruct r as [s|t0|t0]; unfold mc_set_last in *; cbn [absr snd fst obind osim] in L |- *; try exact L.
      match goal with |- osim (mc_run f rules ?m' b) _ _ _ _ =>
        pose proof (run_sim m' (am_set_last a b (abs h' s)) areg abk aoutf b L) as R end.
      assert (Hl : am_last (am_set_last a b (abs h' s)) b = Some (abs h' s)) by (destruct b; reflexivity).
      rewrite Hl in R. cbn [am_set_last am_regs am_lastA am_lastB am_res] in R |- *.
      apply R. intros p Hp. unfold mc_last in Hp. cbn in Hp.
      assert (p = s) by (destruct b; inversion Hp; reflexivity). subst p. apply (V s eq_refl).
  Qed.
End Machines.

(* ------------------------------------------------------------------ whole histories *)
Lemma run_dom_prev m o d : run_dom m o d = true -> d = true /\ run_dom m o true = true.
Proof.
  destruct o; cbn; intros H; try (split; [exact H | reflexivity]).
  apply andb_true_iff in H. destruct H as [-> H]. split; [reflexivity | exact H].
Qed.

Lemma fold_err_m f reg bk outf rules prog : forall mo d, (forall m, mo <> Ok m) ->
  fold_left (mstep_acc f reg bk outf rules) prog (mo, d) = (mo, d).
Proof.
  induction prog as [|o prog IH]; intros mo d H; [reflexivity|]. cbn [fold_left].
  unfold mstep_acc at 2. cbn [fst snd]. destruct mo as [m|t|t]; [exfalso; apply (H m); reflexivity | |]; apply IH; exact H.
Qed.
Lemma fold_err_a f areg abk aoutf rules prog : forall ao, (forall a, ao <> Ok a) ->
  fold_left (astep f areg abk aoutf rules) prog ao = ao.
Proof.
  induction prog as [|o prog IH]; intros ao H; [reflexivity|]. cbn [fold_left].
  destruct ao as [a|t|t]; [exfalso; apply (H a); reflexivity | |]; cbn [astep obind]; apply IH; intros a; discriminate.
Qed.

Lemma fold_sim f reg bk outf rules areg abk aoutf prog : forall mo d ao,
  (d = true -> osim reg bk outf mo ao areg abk aoutf) ->
  snd (fold_left (mstep_acc f reg bk outf rules) prog (mo, d)) = true ->
  osim reg bk outf (fst (fold_left (mstep_acc f reg bk outf rules) prog (mo, d)))
       (fold_left (astep f areg abk aoutf rules) prog ao) areg abk aoutf.
Proof.
  induction prog as [|o prog IH]; intros mo d ao H D; cbn [fold_left] in *.
  - cbn [fst snd] in *. apply H. exact D.
  - destruct mo as [m|t|t].
    + unfold mstep_acc at 2 in D. unfold mstep_acc at 2. cbn [fst snd] in *.
      apply IH; [|exact D]. intros D'. apply run_dom_prev in D'. destruct D' as [Dd Dr].
      specialize (H Dd). destruct ao as [a|t|t]; cbn [osim] in H; try contradiction.
      apply step_sim; assumption.
    + unfold mstep_acc at 2 in D. unfold mstep_acc at 2. cbn [fst snd] in *.
      rewrite fold_err_m in D |- * by (intros m; discriminate). cbn [fst snd] in *.
      specialize (H D). destruct ao as [a|t'|t']; cbn [osim] in H; try contradiction. subst t'.
      cbn [astep obind]. rewrite fold_err_a by (intros a; discriminate). reflexivity.
    + unfold mstep_acc at 2 in D. unfold mstep_acc at 2. cbn [fst snd] in *.
      rewrite fold_err_m in D |- * by (intros m; discriminate). cbn [fst snd] in *.
      specialize (H D). destruct ao as [a|t'|t']; cbn [osim] in H; try contradiction. subst t'.
      cbn [astep obind]. rewrite fold_err_a by (intros a; discriminate). reflexivity.
Qed.

(* the initial objects *)
Definition def_rel (h : heap) (d : pdef) (p : ppl) : Prop :=
  p_items p = d_items d /\ p_post p = d_post d /\ p_fin p = d_fin d /\ p_prio p = d_prio d /\
  p_name p = d_name d /\ h_vars h (p_id p) = d_vars d /\ p_id p < h_next h.

Lemma mk_defs_spec ds : forall h h' l, mk_defs h ds = (h', Ok l) ->
  h_next h <= h_next h' /\ (forall pid, pid < h_next h -> h_vars h' pid = h_vars h pid) /\
  Forall2 (def_rel h') ds l.
Proof.
  induction ds as [|d ds IH]; intros h h' l E; cbn [mk_defs] in E.
  - inversion E; subst. split; [lia|]. split; [reflexivity | constructor].
  - unfold hbind in E. destruct (mk_def h d) as [h1 r1] eqn:E1. cbn [fst snd] in E.
    destruct r1 as [p|t|t]; try discriminate.
    destruct (mk_defs h1 ds) as [h2 r2] eqn:E2. cbn [fst snd] in E.
    destruct r2 as [l'|t|t]; try discriminate. inversion E; subst; clear E.
    destruct (IH _ _ _ E2) as (N2 & V2 & F2).
    unfold mk_def in E1. apply mk_ok in E1. destruct E1 as (_ & Hp & Hv & _ & Hn).
    split; [lia|]. split.
    + intros pid Hpid. rewrite V2 by lia. rewrite Hv. unfold upd.
      destruct (N.eqb pid (h_next h)) eqn:Ep; [apply N.eqb_eq in Ep; lia | reflexivity].
    + constructor; [|exact F2]. subst p. unfold def_rel. cbn [p_items p_post p_fin p_prio p_name p_id].
      repeat split; try reflexivity; [|lia].
      rewrite V2 by lia. rewrite Hv. apply upd_same.
Qed.

Lemma F2_len {A B} (R : A -> B -> Prop) l1 l2 : Forall2 R l1 l2 -> length l1 = length l2.
Proof. induction 1; cbn; congruence. Qed.

Lemma def_rel_abs h d p : def_rel h d p -> gentry h p = adef d /\ valid h p.
Proof.
  intros (A & B & C & D & E & F & G). split; [|exact G].
  unfold gentry, adef, abs. rewrite A, B, C, D, E, F. reflexivity.
Qed.

(* FULL STATEMENT (false: C14_reuse_refuted): the premise `snd (mexec ...) = true` dropped.
   For every history of API calls in which the initial objects are distinct and every conversion
   without re-initialisation runs a pipeline that still owns its objects, the heap machine shows
   exactly what the value-only specification shows (same output, applied, state, ids, vars, or the
   same error). *)
Theorem history_sound f defs bkd outd rules prog h0 l :
  mk_defs h_empty (defs ++ [bkd; outd]) = (h0, Ok l) ->
  snd (mexec f defs bkd outd rules prog) = true ->
  fst (mexec f defs bkd outd rules prog)
  = aexec f (map adef defs) (fst (fst (adef bkd))) (fst (fst (adef outd))) rules prog.
Proof.
  intros E0 D. unfold mexec in *. rewrite E0 in *. cbn [fst snd] in *.
  destruct (mk_defs_spec _ _ _ _ E0) as (_ & _ & F).
  apply Forall2_app_inv_l in F. destruct F as (l1 & l2 & F1 & F2 & ->).
  inversion F2 as [|? bk ? l3 Rb F3]; subst. inversion F3 as [|? outf ? l4 Ro F4]; subst. inversion F4; subst.
  assert (Len : length l1 = length defs) by (symmetry; eapply F2_len; exact F1).
  rewrite <- Len in *.
  assert (N1 : nth_error (l1 ++ [bk; outf]) (length l1) = Some bk).
  { rewrite nth_error_app2 by lia. rewrite Nat.sub_diag. reflexivity. }
  assert (N2 : nth_error (l1 ++ [bk; outf]) (S (length l1)) = Some outf).
  { rewrite nth_error_app2 by lia. replace (S (length l1) - length l1)%nat with 1%nat by lia. reflexivity. }
  rewrite N1, N2 in *. rewrite firstn_app, Nat.sub_diag, firstn_all in *. cbn [firstn] in *. rewrite app_nil_r in *.
  destruct (def_rel_abs _ _ _ Rb) as [Gb Vb], (def_rel_abs _ _ _ Ro) as [Go Vo].
  assert (Gl : map (gentry h0) l1 = map adef defs /\ Forall (valid h0) l1).
  { clear - F1. induction F1 as [|d p ds ps R F IH]; [split; constructor|].
    destruct IH as [IH1 IH2]. destruct (def_rel_abs _ _ _ R) as [G V]. cbn [map]. rewrite G, IH1.
    split; [reflexivity | constructor; assumption]. }
  destruct Gl as [Gl Vl].
  set (m0 := {| mc_heap := h0; mc_regs := l1; mc_lastA := None; mc_lastB := None; mc_res := None |}) in *.
  set (areg := map adef defs) in *.
  pose proof (fold_sim f l1 bk outf rules areg (fst (fst (adef bkd))) (fst (fst (adef outd))) prog
                (Ok m0) true
                (Ok {| am_regs := map (fun e : aentry => fst (fst e)) areg; am_lastA := None; am_lastB := None; am_res := None |})) as S.
  unfold aexec.
  destruct (fold_left (mstep_acc f l1 bk outf rules) prog (Ok m0, true)) as [mo d]. cbn [fst snd] in *.
  match type of S with ?P -> _ => assert (HP : P) end.
  { intros _. cbn [osim]. unfold inv. cbn [mc_heap]. split; [|split; [|split; [|split; [|split]]]].
    - unfold amach_of. cbn [mc_regs mc_lastA mc_lastB mc_res oabs option_map]. f_equal.
      subst areg m0. cbn [mc_heap mc_regs]. rewrite <- Gl, !map_map. reflexivity.
    - unfold allvalid. cbn. split; [exact Vl|]. split; intros q Hq; discriminate.
    - unfold fixedok. repeat split; assumption.
    - symmetry. exact Gl.
    - rewrite <- Gb. reflexivity.
    - rewrite <- Go. reflexivity. }
  specialize (S HP D).
  destruct mo as [m|t|t]; destruct (fold_left (astep _ _ _ _ _) prog _) as [a|t'|t']; cbn [osim] in S; try contradiction;
    cbn [obind]; try congruence.
  destruct S as (Ea & _). subst a. unfold amach_of. cbn [am_res]. reflexivity.
Qed.

(* the witness of D18 as a history: a + b, backend initialised with it, a + b once more, convert_rule *)
Definition w_defA : pdef := {| d_items := [w_item]; d_post := []; d_fin := []; d_vars := []; d_prio := 0%Z; d_name := Some [97] |}.
Definition w_defE (n : option str) : pdef := {| d_items := []; d_post := []; d_fin := []; d_vars := []; d_prio := 0%Z; d_name := n |}.
Definition w_sum : itree := IPlus (ILeaf 0) (ILeaf 1).
Definition w_prog_stale : list op := [OpTree w_sum; OpInit false (Some 2%nat); OpTree w_sum; OpRun false].
Definition w_prog_fresh : list op := [OpTree w_sum; OpTree w_sum; OpConvert false (Some 3%nat)].

Lemma history_refuted :
  exists f defs bkd outd rules prog l,
    snd (mk_defs h_empty (defs ++ [bkd; outd])) = Ok l /\
    snd (mexec f defs bkd outd rules prog) = false /\
    fst (mexec f defs bkd outd rules prog)
    <> aexec f (map adef defs) (fst (fst (adef bkd))) (fst (fst (adef outd))) rules prog.
Proof.
  exists FState, [w_defA; w_defE (Some [98])], (w_defE None), (w_defE None), w_rules, w_prog_stale.
  eexists. split; [vm_compute; reflexivity|]. split; [vm_compute; reflexivity|]. vm_compute. discriminate.
Qed.

Lemma history_inhabited :
  exists l, snd (mk_defs h_empty ([w_defA; w_defE (Some [98])] ++ [w_defE None; w_defE None])) = Ok l /\
  snd (mexec FState [w_defA; w_defE (Some [98])] (w_defE None) (w_defE None) w_rules w_prog_fresh) = true /\
  exists r, fst (mexec FState [w_defA; w_defE (Some [98])] (w_defE None) (w_defE None) w_rules w_prog_fresh) = Ok r.
Proof.
  eexists. split; [vm_compute; reflexivity|]. split; [vm_compute; reflexivity|]. eexists. vm_compute. reflexivity.
Qed.
