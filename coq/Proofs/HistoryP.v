(* C14 - histories: as long as every conversion runs a pipeline that still owns its objects, the heap
   machine (Model.Pipeline.mexec) shows exactly what the value-only specification of the history
   (Spec.AbsPipeline.aexec) shows. *)
From Coq Require Import NArith ZArith List Bool Lia Permutation.
From PS Require Import Base.Chars Base.Outcome Spec.AbsPipeline Model.Pipeline Proofs.PipelineP.
Import ListNotations.
Open Scope N_scope.

(* ------------------------------------------------------------------ running never touches own / vars / next *)
Definition same (h h' : heap) : Prop :=
  h_own h' = h_own h /\ h_vars h' = h_vars h /\ h_next h' = h_next h.
Lemma same_refl h : same h h.
Proof. repeat split. Qed.
Lemma same_trans h1 h2 h3 : same h1 h2 -> same h2 h3 -> same h1 h3.
Proof. intros (A & B & C) (D & E & F). repeat split; congruence. Qed.

Lemma item_step_pres acc i h' m' : m_item_step acc i = Ok (h', m') ->
  exists h m, acc = Ok (h, m) /\ same h h'.
Proof.
  unfold m_item_step. destruct acc as [[h m]|t|t]; cbn [obind fst snd]; try discriminate.
  destruct (m_cond h (i_uid i) (m_rids m) (i_cond i)) as [c|t|t]; cbn [obind]; try discriminate.
  intros H. exists h, m. split; [reflexivity|].
  destruct c; [|inversion H; subst; apply same_refl].
  destruct (i_kind i); try (inversion H; subst; apply same_refl).
  destruct (h_own h (i_uid i)); inversion H; subst; repeat split.
Qed.
Lemma items_pres its : forall acc h' m', fold_left m_item_step its acc = Ok (h', m') ->
  exists h m, acc = Ok (h, m) /\ same h h'.
Proof.
  induction its as [|i its IH]; intros acc h' m' H; cbn in H.
  - exists h', m'. split; [exact H | apply same_refl].
  - destruct (IH _ _ _ H) as (h1 & m1 & E1 & S1).
    destruct (item_step_pres _ _ _ _ E1) as (h & m & E & S). exists h, m. split; [exact E|].
    eapply same_trans; eassumption.
Qed.
Lemma rule_pres f self acc r h' a' : m_rule f self acc r = Ok (h', a') ->
  exists h a, acc = Ok (h, a) /\ same h h'.
Proof.
  unfold m_rule. destruct acc as [[h a]|t|t]; cbn [obind fst snd]; try discriminate.
  destruct (m_apply h self r) as [[h1 m1]|t|t] eqn:E; cbn [obind fst snd]; try discriminate.
  destruct (m_post _ _ _ _) as [qi|t|t]; cbn [obind]; try discriminate.
  intros H. inversion H; subst. exists h, a. split; [reflexivity|].
  unfold m_apply in E. destruct (items_pres _ _ _ _ E) as (h0 & m0 & E0 & S0). inversion E0; subst.
  destruct S0 as (A & B & C). repeat split; assumption.
Qed.
Lemma rules_pres f self rules : forall acc h' a', fold_left (m_rule f self) rules acc = Ok (h', a') ->
  exists h a, acc = Ok (h, a) /\ same h h'.
Proof.
  induction rules as [|r rules IH]; intros acc h' a' H; cbn in H.
  - exists h', a'. split; [exact H | apply same_refl].
  - destruct (IH _ _ _ H) as (h1 & a1 & E1 & S1).
    destruct (rule_pres _ _ _ _ _ _ E1) as (h & a & E & S). exists h, a. split; [exact E|].
    eapply same_trans; eassumption.
Qed.
Lemma run_pres h f p rules : same h (fst (m_run h f p rules)).
Proof.
  unfold m_run. destruct (fold_left _ rules _) as [[h1 a1]|t|t] eqn:E; cbn [fst]; try apply same_refl.
  destruct (rules_pres _ _ _ _ _ _ E) as (h0 & a0 & E0 & S0). inversion E0; subst. exact S0.
Qed.

(* ------------------------------------------------------------------ one addition *)
Definition absr (h : heap) (r : outcome ppl) : outcome apipe :=
  match r with Ok s => Ok (abs h s) | SigmaErr t => SigmaErr t | Crash t => Crash t end.

Lemma abs_stable h h' p : frame h h' -> valid h p -> abs h' p = abs h p /\ valid h' p.
Proof.
  intros (A & B & _) V. split; [apply abs_frame; assumption | unfold valid in *; lia].
Qed.
Lemma valid_all_frame h h' l : frame h h' -> Forall (valid h) l -> Forall (valid h') l /\ map (abs h') l = map (abs h) l.
Proof.
  intros F V. split.
  - rewrite Forall_forall in *. intros p Hp. apply (abs_stable h h' p F). apply V. exact Hp.
  - apply map_ext_in. intros p Hp. apply (abs_stable h h' p F). rewrite Forall_forall in V. apply V. exact Hp.
Qed.

Lemma add_sim h p q h' r : add h p q = (h', r) ->
  absr h' r = aplus_checked (abs h p) (abs h q) /\ frame h h' /\
  (forall s, r = Ok s -> valid h' s /\ owned h' s).
Proof.
  intros E. split; [|split; [eapply add_frame; exact E|]].
  - pose proof (add_defined h p q) as D. rewrite E in D. cbn [snd] in D.
    unfold aplus_checked, atagged, aplus. cbn [a_items a_post a_fin abs].
    destruct (first_dup [] _) as [t|].
    + subst r. reflexivity.
    + subst r. cbn [absr]. f_equal.
      pose proof (add_refines _ _ _ _ _ E) as [A _]. rewrite A. reflexivity.
  - intros s ->. pose proof (add_ok _ _ _ _ _ E) as (O & S & _ & _ & Nx). split; [|exact O].
    unfold valid. subst s. cbn. lia.
Qed.

(* ------------------------------------------------------------------ bracketings over registers *)
Lemma to_tree_ok regs e : itree_ok (length regs) e = true -> exists t, to_tree regs e = Some t.
Proof.
  induction e as [i|a IHa b IHb]; cbn; intros H.
  - apply Nat.ltb_lt in H. destruct (nth_error regs i) eqn:E; [eexists; reflexivity|].
    apply nth_error_None in E. lia.
  - apply andb_true_iff in H. destruct H as [Ha Hb].
    destruct (IHa Ha) as [ta ->], (IHb Hb) as [tb ->]. eexists. reflexivity.
Qed.
Lemma to_tree_not_ok regs e : itree_ok (length regs) e = false -> to_tree regs e = None.
Proof.
  induction e as [i|a IHa b IHb]; cbn; intros H.
  - apply Nat.ltb_ge in H. apply nth_error_None in H. rewrite H. reflexivity.
  - apply andb_false_iff in H. destruct H as [H|H].
    + rewrite (IHa H). reflexivity.
    + rewrite (IHb H). destruct (to_tree regs a); reflexivity.
Qed.

Lemma eval_sim regs e : forall t h h' r,
  to_tree regs e = Some t -> Forall (valid h) regs -> eval h t = (h', r) ->
  absr h' r = aeval (map (abs h) regs) e /\ frame h h' /\ (forall s, r = Ok s -> valid h' s).
Proof.
  induction e as [i|a IHa b IHb]; intros t h h' r T V E; cbn in T.
  - destruct (nth_error regs i) as [p|] eqn:En; [|discriminate]. inversion T; subst. cbn in E. inversion E; subst.
    cbn. rewrite (map_nth_error _ _ _ En). split; [reflexivity|]. split; [apply frame_refl|].
    intros s Hs. inversion Hs; subst. rewrite Forall_forall in V. apply V. eapply nth_error_In. exact En.
  - destruct (to_tree regs a) as [ta|] eqn:Ta; [|discriminate].
    destruct (to_tree regs b) as [tb|] eqn:Tb; [|discriminate]. inversion T; subst. cbn in E.
    unfold hbind in E. destruct (eval h ta) as [h1 ra] eqn:Ea. cbn [fst snd] in E.
    destruct (IHa _ _ _ _ eq_refl V Ea) as (Sa & Fa & Va). cbn [aeval]. rewrite <- Sa.
    destruct ra as [pa|x|x]; cbn [absr obind]; try (inversion E; subst; cbn; split; [reflexivity|]; split; [assumption | intros; discriminate]).
    destruct (valid_all_frame _ _ _ Fa V) as [V1 M1].
    destruct (eval h1 tb) as [h2 rb] eqn:Eb. cbn [fst snd] in E.
    destruct (IHb _ _ _ _ eq_refl V1 Eb) as (Sb & Fb & Vb). rewrite M1 in Sb. rewrite <- Sb.
    destruct rb as [pb|x|x]; cbn [absr obind];
      try (inversion E; subst; cbn; split; [reflexivity|]; split; [eapply frame_trans; eassumption | intros; discriminate]).
    destruct (add_sim _ _ _ _ _ E) as (Sc & Fc & Vc).
    destruct (abs_stable _ _ pa Fb (Va _ eq_refl)) as [Ep _]. rewrite Ep in Sc.
    split; [exact Sc|]. split; [eapply frame_trans; [eassumption|]; eapply frame_trans; eassumption|].
    intros s Hs. apply Vc. exact Hs.
Qed.

(* ------------------------------------------------------------------ sums and the resolver, on objects and on values *)
Definition afold (l : list apipe) (acc : outcome apipe) : outcome apipe :=
  fold_left (fun acc q => obind acc (fun s => aplus_checked s q)) l acc.

Lemma psum_fold_sim l : forall h0 h1 r1,
  frame h0 h1 -> Forall (valid h0) l -> (forall s, r1 = Ok s -> valid h1 s) ->
  forall h' r, fold_left (fun acc q => hbind acc (fun h' s => add h' s q)) l (h1, r1) = (h', r) ->
  absr h' r = afold (map (abs h0) l) (absr h1 r1) /\ frame h0 h' /\ (forall s, r = Ok s -> valid h' s).
Proof.
  induction l as [|q l IH]; intros h0 h1 r1 F V V1 h' r E; cbn in E.
  - inversion E; subst. cbn. split; [reflexivity|]. split; assumption.
  - inversion V as [|? ? Vq Vl]; subst. cbn [map afold fold_left]. fold (afold (map (abs h0) l)).
    unfold hbind at 2 in E. cbn [fst snd] in E.
    destruct r1 as [s1|x|x]; cbn [absr obind].
    + destruct (add h1 s1 q) as [h2 r2] eqn:Ea.
      destruct (add_sim _ _ _ _ _ Ea) as (Sa & Fa & Va).
      destruct (abs_stable _ _ q F Vq) as [Eq _]. rewrite Eq in Sa. rewrite <- Sa.
      apply (IH h0 h2 r2); [eapply frame_trans; eassumption | exact Vl | intros s Hs; apply Va; exact Hs | exact E].
    + apply (IH h0 h1 (SigmaErr x)); [exact F | exact Vl | intros; discriminate | exact E].
    + apply (IH h0 h1 (Crash x)); [exact F | exact Vl | intros; discriminate | exact E].
Qed.

Lemma upd_same {A} (f : N -> A) k v : upd f k v k = v.
Proof. unfold upd. rewrite N.eqb_refl. reflexivity. Qed.

Lemma mk_empty_sim h h' r : mk h [] [] [] [] 0%Z None = (h', r) ->
  absr h' r = Ok aempty /\ frame h h' /\ (forall s, r = Ok s -> valid h' s).
Proof.
  unfold mk. change (tagged [] [] []) with (@nil (N * N)). cbn [own_all fst snd]. intros E. inversion E; subst; clear E.
  cbn [absr]. unfold abs, aempty. cbn [p_items p_post p_fin p_id h_vars].
  rewrite upd_same. split; [reflexivity|]. split.
  - unfold frame, wf_heap. cbn [h_next h_vars]. split; [lia|]. split.
    + intros pid Hp. unfold upd. destruct (N.eqb pid (h_next h)) eqn:E; [apply N.eqb_eq in E; lia | reflexivity].
    + intros W pid. unfold upd. destruct (N.eqb pid (h_next h)); [constructor | apply W].
  - intros s Hs. inversion Hs; subst. unfold valid. cbn. lia.
Qed.

Lemma psum_sim l h h' r : Forall (valid h) l -> psum h l = (h', r) ->
  absr h' r = asum (map (abs h) l) /\ frame h h' /\ (forall s, r = Ok s -> valid h' s).
Proof.
  intros V E. destruct l as [|p l]; cbn [psum] in E.
  - apply mk_empty_sim. exact E.
  - inversion V as [|? ? Vp Vl]; subst.
    apply (psum_fold_sim l h h (Ok p)); [apply frame_refl | exact Vl | intros s Hs; inversion Hs; subst; exact Vp | exact E].
Qed.

Definition gval (h : heap) (p : ppl) : aval := (abs h p, p_prio p).
Definition gent (h : heap) (e : str * rent ppl) : str * rent aval :=
  (fst e, match snd e with RObj p => RObj (gval h p) | RCall d => RCall d | RSeq ds => RSeq ds end).

Lemma ainst_objs h c l : (forall x, In x l -> is_obj (fst x)) ->
  ainst_all c (map (gx (gent h)) l) = (map (gx (gval h)) (map (gx ent_ppl) l), c).
Proof.
  induction l as [|es l IH]; intros H; [reflexivity|]. cbn [map ainst_all].
  destruct (H es (or_introl eq_refl)) as [p Hp]. destruct es as [[k e] sp]. cbn [fst snd] in Hp. subst e.
  change (gx (gent h) (k, RObj p, sp)) with ((k, RObj (gval h p)), sp). cbn [fst snd].
  rewrite IH by (intros x Hx; apply H; right; exact Hx). reflexivity.
Qed.

Lemma resolve_sim h c t specs h' c' r : objs_only t -> (forall e, In e t -> valid h (ent_ppl e)) ->
  resolve h c t specs = ((h', c'), r) ->
  absr h' r = fst (aresolve c (map (gent h) t) specs) /\ c' = snd (aresolve c (map (gent h) t) specs) /\ frame h h' /\ (forall s, r = Ok s -> valid h' s).
Proof.
  intros O V E. rewrite resolve_objs in E by exact O. unfold aresolve.
  rewrite (resolve_all_map (gent h) tab_nm tab_nm) by reflexivity.
  unfold resolve_order in E. destruct (resolve_all tab_nm t specs) as [l|] eqn:El; cbn [option_map].
  - rewrite ainst_objs by (intros x Hx; apply O; eapply resolve_all_in; eassumption). cbn [fst snd].
    rewrite (isort_map (gval h) p_prio (fun a : aval => snd a)) by reflexivity.
    rewrite (isort_map ent_ppl ent_prio p_prio ent_ppl_prio).
    cbn zeta in E.
    destruct (psum h (map ent_ppl (map fst (isort (info_leb ent_prio) l)))) as [h1 r1] eqn:Ep.
    cbn [fst snd] in E. inversion E; subst; clear E.
    assert (Vl : Forall (valid h) (map ent_ppl (map fst (isort (info_leb ent_prio) l)))).
    { rewrite Forall_forall. intros q Hq. apply in_map_iff in Hq. destruct Hq as (e & <- & He). apply V.
      apply in_map_iff in He. destruct He as (x & <- & Hx).
      apply (Permutation_in _ (isort_perm _ l)) in Hx. eapply resolve_all_in; eassumption. }
    destruct (psum_sim _ _ _ _ Vl Ep) as (S & F & Vs).
    split; [|split; [reflexivity | split; assumption]].
    rewrite S. f_equal. rewrite !map_map. reflexivity.
  - inversion E; subst. cbn. split; [reflexivity|]. split; [reflexivity|]. split; [apply frame_refl | intros; discriminate].
Qed.

Lemma nths_map {A B} (g : A -> B) l is : nths (map g l) is = option_map (map g) (nths l is).
Proof.
  induction is as [|i is IH]; cbn; [reflexivity|]. rewrite IH.
  destruct (nth_error l i) as [a|] eqn:E.
  - rewrite (map_nth_error _ _ _ E). destruct (nths l is); reflexivity.
  - assert (En : nth_error (map g l) i = None) by (apply nth_error_None; rewrite map_length; apply nth_error_None; exact E).
    rewrite En. reflexivity.
Qed.
Lemma nths_in {A} (l : list A) is r : nths l is = Some r -> forall x, In x r -> In x l.
Proof.
  revert r. induction is as [|i is IH]; cbn; intros r H x Hx.
  - inversion H; subst. contradiction.
  - destruct (nth_error l i) as [a|] eqn:E; [|discriminate]. destruct (nths l is) as [r'|]; [|discriminate].
    inversion H; subst. destruct Hx as [<-|Hx]; [eapply nth_error_In; exact E | eapply IH; [reflexivity | exact Hx]].
Qed.

(* ------------------------------------------------------------------ backend initialisation *)
Lemma init_sim h f bk user outf h' r :
  valid h bk -> valid h outf -> (forall u, user = Some u -> valid h u) ->
  init h f bk user outf = (h', r) ->
  absr h' r = ainit f (abs h bk) (option_map (abs h) user) (abs h outf) /\ frame h h' /\
  (forall s, r = Ok s -> valid h' s /\ owned h' s).
Proof.
  intros Vb Vo Vu E. unfold init in E. unfold ainit.
  assert (S1 : forall h1 r1, add_opt h bk user = (h1, r1) ->
     absr h1 r1 = match option_map (abs h) user with None => Ok (abs h bk) | Some u => aplus_checked (abs h bk) u end /\
     frame h h1 /\ (forall s, r1 = Ok s -> valid h1 s)).
  { intros h1 r1 E1. destruct user as [u|]; cbn in E1 |- *.
    - destruct (add_sim _ _ _ _ _ E1) as (A & B & C). split; [exact A|]. split; [exact B|]. intros s Hs. apply C. exact Hs.
    - inversion E1; subst. split; [reflexivity|]. split; [apply frame_refl|]. intros s Hs. inversion Hs; subst. exact Vb. }
  unfold hbind in E. destruct (add_opt h bk user) as [h1 r1] eqn:E1. cbn [fst snd] in E.
  destruct (S1 _ _ eq_refl) as (A1 & F1 & V1). rewrite <- A1.
  destruct r1 as [s1|x|x]; cbn [absr obind];
    try (inversion E; subst; cbn; split; [reflexivity|]; split; [assumption | intros; discriminate]).
  destruct (add h1 s1 outf) as [h2 r2] eqn:E2. cbn [fst snd] in E.
  destruct (add_sim _ _ _ _ _ E2) as (A2 & F2 & V2).
  destruct (abs_stable _ _ outf F1 Vo) as [Eo _]. rewrite Eo in A2. rewrite <- A2.
  destruct r2 as [s2|x|x]; cbn [absr obind];
    try (inversion E; subst; cbn; split; [reflexivity|]; split; [eapply frame_trans; eassumption | intros; discriminate]).
  inversion E; subst; clear E. destruct (V2 _ eq_refl) as [Vs Os].
  split.
  - cbn [absr]. f_equal. unfold abs, with_backend_vars. cbn [a_items a_post a_fin a_vars h_vars].
    unfold upd. rewrite N.eqb_refl. reflexivity.
  - split.
    + pose proof (add_ok _ _ _ _ _ E2) as (_ & Hs2 & _).
      assert (Hge : h_next h <= p_id s2) by (rewrite Hs2; cbn [p_id]; destruct F1 as [? _]; lia).
      pose proof (frame_trans _ _ _ F1 F2) as (Fn & Fv & Fw).
      unfold frame, wf_heap. cbn [h_next h_vars]. split; [exact Fn|]. split.
      * intros pid Hp. unfold upd. destruct (N.eqb pid (p_id s2)) eqn:Ep; [apply N.eqb_eq in Ep; lia | apply Fv; exact Hp].
      * intros W pid. pose proof (Fw W) as W2. unfold upd. destruct (N.eqb pid (p_id s2)); [apply dict_ok_dset, dict_ok_dset, W2 | apply W2].
    + intros s Hs. inversion Hs; subst. split; [exact Vs | exact Os].
Qed.

(* ------------------------------------------------------------------ the two machines, step by step *)
Lemma ownedb_owned h p : ownedb h p = true -> owned h p.
Proof.
  unfold ownedb, owned. rewrite forallb_forall. intros H u Hu. specialize (H u Hu).
  destruct (h_own h u) as [o|]; [|discriminate]. apply N.eqb_eq in H. subst. reflexivity.
Qed.
Lemma same_frame h h' : same h h' -> frame h h'.
Proof.
  intros (_ & B & C). unfold frame, wf_heap. rewrite B, C. split; [lia|]. split; [reflexivity | auto].
Qed.

Definition oabs (h : heap) (o : option ppl) : option apipe := option_map (abs h) o.
Definition ovalid (h : heap) (o : option ppl) : Prop := forall p, o = Some p -> valid h p.
Lemma fmt_eqb_eq a b : fmt_eqb a b = true -> a = b.
Proof. destruct a, b; cbn; intros H; try reflexivity; discriminate. Qed.

Section Machines.
  Variables (t : list (str * rent ppl)) (bk : ppl) (outf : fmt -> ppl) (rules : list rule).
  Hypothesis t_objs : objs_only t.

  Definition fixedok (h : heap) : Prop :=
    (forall e, In e t -> valid h (ent_ppl e)) /\ valid h bk /\ forall f, valid h (outf f).
  (* the backend object's pipeline is the composition, for the format it was built for, of the values
     the specification remembers *)
  Definition lastrel (h : heap) (abk : apipe) (aoutf : fmt -> apipe)
             (ml : option (ppl * fmt)) (al : option (option apipe)) : Prop :=
    match ml, al with
    | Some pf, Some up => ainit (snd pf) abk up (aoutf (snd pf)) = Ok (abs h (fst pf)) /\ valid h (fst pf)
    | None, None => True
    | _, _ => False
    end.
  Definition inv (m : mach) (a : amach) (atab : list (str * rent aval)) (abk : apipe) (aoutf : fmt -> apipe) : Prop :=
    am_regs a = map (abs (mc_heap m)) (mc_regs m) /\ am_res a = mc_res m /\ am_fresh a = mc_fresh m /\
    lastrel (mc_heap m) abk aoutf (mc_lastA m) (am_lastA a) /\
    lastrel (mc_heap m) abk aoutf (mc_lastB m) (am_lastB a) /\
    Forall (valid (mc_heap m)) (mc_regs m) /\ fixedok (mc_heap m) /\
    atab = map (gent (mc_heap m)) t /\ abk = abs (mc_heap m) bk /\ (forall f, aoutf f = abs (mc_heap m) (outf f)).

  Lemma fixed_frame h h' : frame h h' -> fixedok h ->
    fixedok h' /\ map (gent h') t = map (gent h) t /\ abs h' bk = abs h bk /\ (forall f, abs h' (outf f) = abs h (outf f)).
  Proof.
    intros F (Vr & Vb & Vo).
    destruct (abs_stable _ _ bk F Vb) as [Eb Vb'].
    split; [split; [|split]|split; [|split]].
    - intros e He. apply (abs_stable h h' _ F). apply Vr. exact He.
    - exact Vb'.
    - intros f. apply (abs_stable h h' _ F). apply Vo.
    - apply map_ext_in. intros e He. unfold gent. specialize (Vr e He). unfold ent_ppl in Vr.
      destruct (snd e) as [p|d|ds]; [|reflexivity|reflexivity].
      unfold gval. destruct (abs_stable _ _ p F Vr) as [E _]. rewrite E. reflexivity.
    - exact Eb.
    - intros f. apply (abs_stable h h' _ F). apply Vo.
  Qed.
  Lemma lastrel_frame h h' abk aoutf ml al : frame h h' -> lastrel h abk aoutf ml al -> lastrel h' abk aoutf ml al.
  Proof.
    intros F. unfold lastrel. destruct ml as [pf|], al as [up|]; try exact (fun x => x).
    intros (E & V). destruct (abs_stable _ _ _ F V) as [Ea V']. rewrite Ea. split; assumption.
  Qed.

  Definition with_heap (m : mach) (h : heap) : mach :=
    {| mc_heap := h; mc_regs := mc_regs m; mc_lastA := mc_lastA m; mc_lastB := mc_lastB m; mc_res := mc_res m;
       mc_fresh := mc_fresh m |}.
  Lemma inv_heap m a atab abk aoutf h' : inv m a atab abk aoutf -> frame (mc_heap m) h' ->
    inv (with_heap m h') a atab abk aoutf.
  Proof.
    intros (Er & Es & Ef & LA & LB & Vr & Fx & Et & Eb & Eo) F.
    destruct (valid_all_frame _ _ _ F Vr) as [Vr' Em]. destruct (fixed_frame _ _ F Fx) as (Fx' & Et' & Eb' & Eo').
    unfold inv, with_heap. cbn [mc_heap mc_regs mc_lastA mc_lastB mc_res mc_fresh].
    split; [congruence|]. split; [exact Es|]. split; [exact Ef|].
    split; [eapply lastrel_frame; eassumption|]. split; [eapply lastrel_frame; eassumption|].
    split; [exact Vr'|]. split; [exact Fx'|]. split; [congruence|]. split; [congruence|].
    intros f. rewrite Eo, Eo'. reflexivity.
  Qed.

  Definition osim (mo : outcome mach) (ao : outcome amach) (atab : list (str * rent aval)) (abk : apipe) (aoutf : fmt -> apipe) : Prop :=
    match mo, ao with
    | Ok m', Ok a' => inv m' a' atab abk aoutf
    | SigmaErr x, SigmaErr x' => x = x'
    | Crash x, Crash x' => x = x'
    | _, _ => False
    end.

  (* pushing the result of an allocation-only operation *)
  Lemma push_sim m a atab abk aoutf c h' r ar :
    inv m a atab abk aoutf -> frame (mc_heap m) h' -> absr h' r = ar -> (forall s, r = Ok s -> valid h' s) ->
    osim (mc_push m c (h', r)) (obind ar (fun p => Ok (am_push a c p))) atab abk aoutf.
  Proof.
    intros I F S V. subst ar. unfold mc_push. cbn [snd fst].
    destruct r as [s|x|x]; cbn [absr obind osim]; try reflexivity.
    destruct (inv_heap _ _ _ _ _ _ I F) as (Er & Es & Ef & LA & LB & Vr & Fx & Et & Eb & Eo).
    unfold with_heap in *. cbn [mc_heap mc_regs mc_lastA mc_lastB mc_res mc_fresh] in *.
    unfold inv, am_push. cbn [mc_heap mc_regs mc_lastA mc_lastB mc_res mc_fresh am_regs am_lastA am_lastB am_res am_fresh].
    split; [rewrite map_app, Er; reflexivity|]. split; [exact Es|]. split; [reflexivity|].
    split; [exact LA|]. split; [exact LB|].
    split; [apply Forall_app; split; [exact Vr | constructor; [apply V; reflexivity | constructor]]|].
    split; [exact Fx|]. split; [exact Et|]. split; [exact Eb | exact Eo].
  Qed.

  (* (re)building the backend object's pipeline: init_processing_pipeline *)
  Lemma setlast_sim m a atab abk aoutf b f up h' r :
    inv m a atab abk aoutf -> frame (mc_heap m) h' -> absr h' r = ainit f abk up (aoutf f) ->
    (forall s, r = Ok s -> valid h' s) ->
    match mc_set_last m b f (h', r), ainit f abk up (aoutf f) with
    | Ok m', Ok p => inv m' (am_set_last a b up) atab abk aoutf /\ mc_last m' b = Some (match r with Ok s => s | _ => bk end, f)
                     /\ p = abs (mc_heap m') (match r with Ok s => s | _ => bk end) /\ mc_heap m' = h'
    | SigmaErr x, SigmaErr x' => x = x'
    | Crash x, Crash x' => x = x'
    | _, _ => False
    end.
  Proof.
    intros I F S V. unfold mc_set_last. cbn [snd fst]. rewrite <- S.
    destruct r as [s|x|x]; cbn [absr obind]; try reflexivity.
    destruct (inv_heap _ _ _ _ _ _ I F) as (Er & Es & Ef & LA & LB & Vr & Fx & Et & Eb & Eo).
    unfold with_heap in *. cbn [mc_heap mc_regs mc_lastA mc_lastB mc_res mc_fresh] in *.
    split; [|split; [unfold mc_last; cbn; destruct b; reflexivity | split; reflexivity]].
    unfold inv, am_set_last. cbn [mc_heap mc_regs mc_lastA mc_lastB mc_res mc_fresh am_regs am_lastA am_lastB am_res am_fresh].
    split; [exact Er|]. split; [exact Es|]. split; [exact Ef|].
    assert (L : lastrel h' abk aoutf (Some (s, f)) (Some up)).
    { unfold lastrel. cbn [fst snd]. split; [symmetry; exact S | apply V; reflexivity]. }
    destruct b; (split; [first [exact L | assumption]|]); (split; [first [exact L | assumption]|]);
      (split; [exact Vr|]); (split; [exact Fx|]); (split; [exact Et|]); (split; [exact Eb | exact Eo]).
  Qed.

  Lemma user_sim m a atab abk aoutf u : inv m a atab abk aoutf ->
    match mc_user m u, am_user a u with
    | Ok up, Ok aup => aup = oabs (mc_heap m) up /\ ovalid (mc_heap m) up
    | Crash x, Crash x' => x = x'
    | _, _ => False
    end.
  Proof.
    intros (Er & _ & _ & _ & _ & Vr & _). unfold mc_user, am_user. rewrite Er.
    destruct u as [i|]; [|split; [reflexivity | intros q Hq; discriminate]].
    destruct (nth_error (mc_regs m) i) as [p|] eqn:E.
    - rewrite (map_nth_error _ _ _ E). split; [reflexivity|]. intros q Hq. inversion Hq; subst.
      rewrite Forall_forall in Vr. apply Vr. eapply nth_error_In. exact E.
    - assert (En : nth_error (map (abs (mc_heap m)) (mc_regs m)) i = None).
      { apply nth_error_None. rewrite map_length. apply nth_error_None. exact E. }
      rewrite En. reflexivity.
  Qed.

  (* convert_rule on every rule + finalize with the pipeline p of the backend object, when p still owns
     its objects and was built for the requested format *)
  Lemma run_sim m a' atab abk aoutf b f p :
    inv m a' atab abk aoutf -> mc_last m b = Some (p, f) -> owned (mc_heap m) p ->
    osim (mc_run f rules m b)
         (obind (abs_run f (abs (mc_heap m) p) rules) (fun r => Ok (am_with_res a' r))) atab abk aoutf.
  Proof.
    intros I L O. unfold mc_run. rewrite L. cbn [fst].
    rewrite <- (behaviour _ f p rules O).
    pose proof (run_pres (mc_heap m) f p rules) as S. apply same_frame in S.
    destruct (m_run (mc_heap m) f p rules) as [h' r]. cbn [fst snd] in *.
    destruct r as [x|x|x]; cbn [obind osim]; try reflexivity.
    destruct (inv_heap _ _ _ _ _ _ I S) as (Er & Es & Ef & LA & LB & Vr & Fx & Et & Eb & Eo).
    unfold with_heap in *. cbn [mc_heap mc_regs mc_lastA mc_lastB mc_res mc_fresh] in *.
    unfold inv, am_with_res. cbn [mc_heap mc_regs mc_lastA mc_lastB mc_res mc_fresh am_regs am_lastA am_lastB am_res am_fresh].
    repeat (split; [first [assumption | reflexivity]|]). assumption.
  Qed.

  (* init_processing_pipeline(f) with user pipeline up, then the conversion: Backend.convert(), and
     convert_rule() on a backend object that has no pipeline yet *)
  Lemma convert_sim m a atab abk aoutf b f up :
    inv m a atab abk aoutf -> ovalid (mc_heap m) up ->
    osim (obind (mc_set_last m b f (init (mc_heap m) f bk up (outf f))) (fun m' => mc_run f rules m' b))
         (obind (ainit f abk (oabs (mc_heap m) up) (aoutf f)) (fun p =>
          obind (abs_run f p rules) (fun r => Ok (am_with_res (am_set_last a b (oabs (mc_heap m) up)) r))))
         atab abk aoutf.
  Proof.
    intros I Vu. pose proof I as (_ & _ & _ & _ & _ & _ & (_ & Vbk & Vof) & _ & Eb & Eo).
    destruct (init (mc_heap m) f bk up (outf f)) as [h' r] eqn:Ei.
    destruct (init_sim _ _ _ _ _ _ _ Vbk (Vof f) Vu Ei) as (S & F & V).
    rewrite <- Eb, <- Eo in S.
    pose proof (setlast_sim m a atab abk aoutf b f (oabs (mc_heap m) up) h' r I F S (fun s Hs => proj1 (V s Hs))) as L.
    destruct (mc_set_last m b f (h', r)) as [m'|x|x] eqn:Em;
      destruct (ainit f abk (oabs (mc_heap m) up) (aoutf f)) as [p|x'|x']; cbn [obind osim]; try contradiction; try exact L.
    destruct L as (I' & L' & Ep & Eh). subst p.
    destruct r as [s|x|x]; try (unfold mc_set_last in Em; cbn in Em; discriminate).
    apply (run_sim m' (am_set_last a b (oabs (mc_heap m) up)) atab abk aoutf b f s I' L').
    rewrite Eh. apply (V s eq_refl).
  Qed.

  Lemma step_sim m a atab abk aoutf o :
    inv m a atab abk aoutf -> run_dom m o true = true ->
    osim (mstep t bk outf rules m o) (astep atab abk aoutf rules (Ok a) o) atab abk aoutf.
  Proof.
    intros I D. pose proof I as (Erg & Es & Efr & LA & LB & Vr & Fx & Er & Eb & Eo).
    destruct Fx as (Vt & Vbk & Vof).
    destruct o as [e|specs|l|b u f|b f|b u f]; cbn [mstep astep obind].
    - (* OpTree *)
      rewrite Erg, map_length, Efr. destruct (itree_ok (length (mc_regs m)) e) eqn:Ok_.
      + destruct (to_tree_ok _ _ Ok_) as [tr Et]. rewrite Et.
        destruct (eval (mc_heap m) tr) as [h' r] eqn:Ee.
        destruct (eval_sim _ _ _ _ _ _ Et Vr Ee) as (S & F & V).
        apply push_sim; assumption.
      + rewrite (to_tree_not_ok _ _ Ok_). reflexivity.
    - (* OpResolve *)
      rewrite Efr. destruct (resolve (mc_heap m) (mc_fresh m) t specs) as [[h' c'] r] eqn:Ee. cbn [fst snd].
      destruct (resolve_sim _ _ _ _ _ _ _ t_objs Vt Ee) as (S & C & F & V).
      subst atab. cbn zeta. rewrite <- C. apply push_sim; assumption.
    - (* OpSum *)
      rewrite Erg, nths_map, Efr. destruct (nths (mc_regs m) l) as [[|p ps]|] eqn:En; cbn [option_map map]; try reflexivity.
      destruct (psum (mc_heap m) (p :: ps)) as [h' r] eqn:Ee.
      assert (Vl : Forall (valid (mc_heap m)) (p :: ps)).
      { rewrite Forall_forall in *. intros q Hq. apply Vr. eapply nths_in; eassumption. }
      destruct (psum_sim _ _ _ _ Vl Ee) as (S & F & V).
      change (abs (mc_heap m) p :: map (abs (mc_heap m)) ps) with (map (abs (mc_heap m)) (p :: ps)).
      apply push_sim; assumption.
    - (* OpInit *)
      pose proof (user_sim m a atab abk aoutf u I) as U.
      destruct (mc_user m u) as [up|x|x], (am_user a u) as [aup|x'|x']; cbn [obind osim]; try contradiction; try exact U.
      destruct U as [Eu Vu]. subst aup.
      destruct (init (mc_heap m) f bk up (outf f)) as [h' r] eqn:Ei.
      destruct (init_sim _ _ _ _ _ _ _ Vbk (Vof f) Vu Ei) as (S & F & V).
      rewrite <- Eb, <- Eo in S.
      pose proof (setlast_sim m a atab abk aoutf b f (oabs (mc_heap m) up) h' r I F S (fun s Hs => proj1 (V s Hs))) as L.
      destruct (mc_set_last m b f (h', r)) as [m'|x|x];
        destruct (ainit f abk (oabs (mc_heap m) up) (aoutf f)) as [p|x'|x']; cbn [obind osim]; try contradiction; try exact L.
      apply L.
    - (* OpRun *)
      cbn [run_dom andb] in D.
      assert (LR : lastrel (mc_heap m) abk aoutf (mc_last m b) (am_last a b)) by (unfold mc_last, am_last; destruct b; assumption).
      destruct (mc_last m b) as [[p f0]|] eqn:Lm.
      + cbn [fst snd] in D. apply andb_true_iff in D. destruct D as [Do Df]. apply fmt_eqb_eq in Df. subst f0.
        unfold lastrel in LR. destruct (am_last a b) as [up|] eqn:La; [|contradiction]. cbn [fst snd] in LR.
        destruct LR as [Ea Vp]. rewrite Ea. cbn [obind].
        apply (run_sim m (am_set_last a b up) atab abk aoutf b f p); [|exact Lm | apply ownedb_owned; exact Do].
        (* the specification's record of the backend object does not change *)
        destruct I as (A1 & A2 & A3 & A4 & A5 & A6 & A7 & A8 & A9 & A10).
        unfold inv, am_set_last. cbn [am_regs am_lastA am_lastB am_res am_fresh].
        unfold am_last in La.
        destruct b; rewrite <- ?La; repeat (split; [first [assumption | reflexivity]|]); assumption.
      + unfold lastrel in LR. destruct (am_last a b) as [up|] eqn:La; [contradiction|].
        apply (convert_sim m a atab abk aoutf b f None I). intros q Hq. discriminate.
    - (* OpConvert *)
      pose proof (user_sim m a atab abk aoutf u I) as U.
      destruct (mc_user m u) as [up|x|x], (am_user a u) as [aup|x'|x']; cbn [obind osim]; try contradiction; try exact U.
      destruct U as [Eu Vu]. subst aup. apply convert_sim; assumption.
  Qed.
End Machines.

(* ------------------------------------------------------------------ whole histories *)
Lemma run_dom_prev m o d : run_dom m o d = true -> d = true /\ run_dom m o true = true.
Proof.
  destruct o; cbn; intros H; try (split; [exact H | reflexivity]).
  apply andb_true_iff in H. destruct H as [-> H]. split; [reflexivity | exact H].
Qed.

Lemma fold_err_m reg bk outf rules prog : forall mo d, (forall m, mo <> Ok m) ->
  fold_left (mstep_acc reg bk outf rules) prog (mo, d) = (mo, d).
Proof.
  induction prog as [|o prog IH]; intros mo d H; [reflexivity|]. cbn [fold_left].
  unfold mstep_acc at 2. cbn [fst snd]. destruct mo as [m|t|t]; [exfalso; apply (H m); reflexivity | |]; apply IH; exact H.
Qed.
Lemma fold_err_a areg abk aoutf rules prog : forall ao, (forall a, ao <> Ok a) ->
  fold_left (astep areg abk aoutf rules) prog ao = ao.
Proof.
  induction prog as [|o prog IH]; intros ao H; [reflexivity|]. cbn [fold_left].
  destruct ao as [a|t|t]; [exfalso; apply (H a); reflexivity | |]; cbn [astep obind]; apply IH; intros a; discriminate.
Qed.

Lemma fold_sim reg bk outf rules areg abk aoutf prog : objs_only reg -> forall mo d ao,
  (d = true -> osim reg bk outf mo ao areg abk aoutf) ->
  snd (fold_left (mstep_acc reg bk outf rules) prog (mo, d)) = true ->
  osim reg bk outf (fst (fold_left (mstep_acc reg bk outf rules) prog (mo, d)))
       (fold_left (astep areg abk aoutf rules) prog ao) areg abk aoutf.
Proof.
  intros O. induction prog as [|o prog IH]; intros mo d ao H D; cbn [fold_left] in *.
  - cbn [fst snd] in *. apply H. exact D.
  - destruct mo as [m|t|t].
    + unfold mstep_acc at 2 in D. unfold mstep_acc at 2. cbn [fst snd] in *.
      apply IH; [|exact D]. intros D'. apply run_dom_prev in D'. destruct D' as [Dd Dr].
      specialize (H Dd). destruct ao as [a|t|t]; cbn [osim] in H; try contradiction.
      apply step_sim; assumption.
    + unfold mstep_acc at 2 in D. unfold mstep_acc at 2. cbn [fst snd] in *.
      rewrite fold_err_m in D |- * by (intros m; discriminate). cbn [fst snd] in *.
      specialize (H D). destruct ao as [a|t'|t']; cbn [osim] in H; try contradiction. subst t'.
      cbn [astep obind]. rewrite fold_err_a by (intros a; discriminate). reflexivity.
    + unfold mstep_acc at 2 in D. unfold mstep_acc at 2. cbn [fst snd] in *.
      rewrite fold_err_m in D |- * by (intros m; discriminate). cbn [fst snd] in *.
      specialize (H D). destruct ao as [a|t'|t']; cbn [osim] in H; try contradiction. subst t'.
      cbn [astep obind]. rewrite fold_err_a by (intros a; discriminate). reflexivity.
Qed.

(* the initial objects *)
Definition def_rel (h : heap) (d : pdef) (p : ppl) : Prop :=
  p_items p = d_items d /\ p_post p = d_post d /\ p_fin p = d_fin d /\ p_prio p = d_prio d /\
  p_name p = d_name d /\ h_vars h (p_id p) = d_vars d /\ p_id p < h_next h.

Lemma mk_defs_spec ds : forall h h' l, mk_defs h ds = (h', Ok l) ->
  h_next h <= h_next h' /\ (forall pid, pid < h_next h -> h_vars h' pid = h_vars h pid) /\
  Forall2 (def_rel h') ds l.
Proof.
  induction ds as [|d ds IH]; intros h h' l E; cbn [mk_defs] in E.
  - inversion E; subst. split; [lia|]. split; [reflexivity | constructor].
  - unfold hbind in E. destruct (mk_def h d) as [h1 r1] eqn:E1. cbn [fst snd] in E.
    destruct r1 as [p|t|t]; try discriminate.
    destruct (mk_defs h1 ds) as [h2 r2] eqn:E2. cbn [fst snd] in E.
    destruct r2 as [l'|t|t]; try discriminate. inversion E; subst; clear E.
    destruct (IH _ _ _ E2) as (N2 & V2 & F2).
    unfold mk_def in E1. apply mk_ok in E1. destruct E1 as (_ & Hp & Hv & _ & Hn).
    split; [lia|]. split.
    + intros pid Hpid. rewrite V2 by lia. rewrite Hv. unfold upd.
      destruct (N.eqb pid (h_next h)) eqn:Ep; [apply N.eqb_eq in Ep; lia | reflexivity].
    + constructor; [|exact F2]. subst p. unfold def_rel. cbn [p_items p_post p_fin p_prio p_name p_id].
      repeat split; try reflexivity; [|lia].
      rewrite V2 by lia. rewrite Hv. apply upd_same.
Qed.

Lemma F2_len {A B} (R : A -> B -> Prop) l1 l2 : Forall2 R l1 l2 -> length l1 = length l2.
Proof. induction 1; cbn; congruence. Qed.

Lemma def_rel_abs h d p : def_rel h d p -> gval h p = adef d /\ valid h p.
Proof.
  intros (A & B & C & D & E & F & G). split; [|exact G].
  unfold gval, adef, abs, apipe_of. rewrite A, B, C, D, F. reflexivity.
Qed.

Lemma F2_nth {A B} (R : A -> B -> Prop) l1 l2 : Forall2 R l1 l2 -> forall i,
  match nth_error l1 i, nth_error l2 i with
  | Some a, Some b => R a b
  | None, None => True
  | _, _ => False
  end.
Proof.
  induction 1 as [|a b l1 l2 Hab F IH]; intros [|i]; cbn; try exact I; [exact Hab | apply IH].
Qed.

Definition tn_objs (tn : list (str * rent nat)) : Prop := forall e, In e tn -> exists i, snd e = RObj i.

Lemma conv_tab_rel h ds l1 tn : Forall2 (def_rel h) ds l1 -> tn_objs tn ->
  match conv_tab l1 tn, conv_tab (map adef ds) tn with
  | Some t, Some atab => atab = map (gent h) t /\ objs_only t /\ (forall e, In e t -> valid h (ent_ppl e))
  | None, None => True
  | _, _ => False
  end.
Proof.
  intros F. induction tn as [|[s e] tn IH]; intros O; cbn [conv_tab].
  - split; [reflexivity|]. split; intros e [].
  - destruct (O (s, e) (or_introl eq_refl)) as [i Hi]. cbn [snd] in Hi. subst e.
    specialize (IH (fun e He => O e (or_intror He))).
    pose proof (F2_nth _ _ _ F i) as Hn. rewrite nth_error_map.
    destruct (nth_error ds i) as [d|], (nth_error l1 i) as [p|]; cbn [option_map]; try contradiction.
    + destruct (conv_tab l1 tn) as [t|], (conv_tab (map adef ds) tn) as [atab|]; try contradiction; try exact I.
      destruct IH as (E & Ob & V). destruct (def_rel_abs _ _ _ Hn) as [G Vp].
      split; [cbn [map]; unfold gent at 1; cbn [fst snd]; rewrite G, E; reflexivity|].
      split.
      * intros x [<-|Hx]; [exists p; reflexivity | apply Ob; exact Hx].
      * intros x [<-|Hx]; [exact Vp | apply V; exact Hx].
    + destruct (conv_tab l1 tn), (conv_tab (map adef ds) tn); exact I.
Qed.

(* FULL STATEMENT (false: C14_history_refuted, C14_history_format_refuted): the premise
   `snd (mexec ...) = true` dropped.
   For every history of API calls on two backend objects of one class - bracketings, sums, resolver
   calls over a table of registered objects, init_processing_pipeline / convert / convert_rule with a
   format and a user pipeline chosen per call - in which the initial objects are distinct and every
   convert_rule() on an initialised backend object runs a pipeline that still owns its objects and was
   built for the requested format, the heap machine shows exactly what the value-only specification
   shows: backend + current user pipeline + output-format pipeline OF THE REQUESTED FORMAT, staged. *)
Theorem history_sound defs tn bkd od ot os rules prog h0 l :
  tn_objs tn ->
  mk_defs h_empty (defs ++ [bkd; od; ot; os]) = (h0, Ok l) ->
  snd (mexec defs tn bkd od ot os rules prog) = true ->
  fst (mexec defs tn bkd od ot os rules prog)
  = aexec (map adef defs) tn (apipe_of bkd) (by_fmt (apipe_of od) (apipe_of ot) (apipe_of os)) rules prog.
Proof.
  intros TO E0 D. unfold mexec in *. rewrite E0 in *. cbn [fst snd] in *.
  destruct (mk_defs_spec _ _ _ _ E0) as (_ & _ & F).
  apply Forall2_app_inv_l in F. destruct F as (l1 & l2 & F1 & F2 & ->).
  inversion F2 as [|? bk ? l3 Rb F3]; subst. inversion F3 as [|? o1 ? l4 R1 F4]; subst.
  inversion F4 as [|? o2 ? l5 R2 F5]; subst. inversion F5 as [|? o3 ? l6 R3 F6]; subst. inversion F6; subst.
  assert (Len : length l1 = length defs) by (symmetry; eapply F2_len; exact F1).
  rewrite <- Len in *.
  assert (N0 : nth_error (l1 ++ [bk; o1; o2; o3]) (length l1) = Some bk).
  { rewrite nth_error_app2 by lia. rewrite Nat.sub_diag. reflexivity. }
  assert (N1 : nth_error (l1 ++ [bk; o1; o2; o3]) (1 + length l1) = Some o1).
  { rewrite nth_error_app2 by lia. replace (1 + length l1 - length l1)%nat with 1%nat by lia. reflexivity. }
  assert (N2 : nth_error (l1 ++ [bk; o1; o2; o3]) (2 + length l1) = Some o2).
  { rewrite nth_error_app2 by lia. replace (2 + length l1 - length l1)%nat with 2%nat by lia. reflexivity. }
  assert (N3 : nth_error (l1 ++ [bk; o1; o2; o3]) (3 + length l1) = Some o3).
  { rewrite nth_error_app2 by lia. replace (3 + length l1 - length l1)%nat with 3%nat by lia. reflexivity. }
  rewrite N0, N1, N2, N3 in *. rewrite firstn_app, Nat.sub_diag, firstn_all in *. cbn [firstn] in *. rewrite app_nil_r in *.
  destruct (def_rel_abs _ _ _ Rb) as [Gb Vb], (def_rel_abs _ _ _ R1) as [G1 V1],
           (def_rel_abs _ _ _ R2) as [G2 V2], (def_rel_abs _ _ _ R3) as [G3 V3].
  assert (Gl : map (gval h0) l1 = map adef defs /\ Forall (valid h0) l1).
  { clear - F1. induction F1 as [|d p ds ps R F IH]; [split; constructor|].
    destruct IH as [IH1 IH2]. destruct (def_rel_abs _ _ _ R) as [G V]. cbn [map]. rewrite G, IH1.
    split; [reflexivity | constructor; assumption]. }
  destruct Gl as [Gl Vl].
  unfold aexec. pose proof (conv_tab_rel h0 defs l1 tn F1 TO) as CT.
  destruct (conv_tab l1 tn) as [t|], (conv_tab (map adef defs) tn) as [atab|]; try contradiction; [|reflexivity].
  destruct CT as (Et & Ot & Vt).
  set (m0 := {| mc_heap := h0; mc_regs := l1; mc_lastA := None; mc_lastB := None; mc_res := None; mc_fresh := 0 |}) in *.
  pose proof (fold_sim t bk (by_fmt o1 o2 o3) rules atab (apipe_of bkd) (by_fmt (apipe_of od) (apipe_of ot) (apipe_of os)) prog Ot
                (Ok m0) true
                (Ok {| am_regs := map fst (map adef defs); am_lastA := None; am_lastB := None; am_res := None; am_fresh := 0 |})) as S.
  destruct (fold_left (mstep_acc t bk (by_fmt o1 o2 o3) rules) prog (Ok m0, true)) as [mo d]. cbn [fst snd] in *.
  match type of S with ?P -> _ => assert (HP : P) end.
  { intros _. cbn [osim]. unfold inv. subst m0.
    cbn [mc_heap mc_regs mc_lastA mc_lastB mc_res mc_fresh am_regs am_lastA am_lastB am_res am_fresh lastrel].
    split; [rewrite <- Gl, !map_map; reflexivity|]. split; [reflexivity|]. split; [reflexivity|].
    split; [exact I|]. split; [exact I|]. split; [exact Vl|].
    split; [unfold fixedok; split; [exact Vt|]; split; [exact Vb|]; intros [| |]; assumption|].
    split; [exact Et|].
    split; [change (apipe_of bkd) with (fst (adef bkd)); rewrite <- Gb; reflexivity|].
    intros [| |]; cbn [by_fmt].
    - change (apipe_of od) with (fst (adef od)). rewrite <- G1. reflexivity.
    - change (apipe_of ot) with (fst (adef ot)). rewrite <- G2. reflexivity.
    - change (apipe_of os) with (fst (adef os)). rewrite <- G3. reflexivity. }
  specialize (S HP D).
  destruct mo as [m|x|x]; destruct (fold_left (astep _ _ _ _) prog _) as [a|x'|x']; cbn [osim] in S; try contradiction;
    cbn [obind]; try congruence.
  destruct S as (_ & Es & _). rewrite Es. reflexivity.
Qed.

(* the witness of D18 as a history: a + b, backend initialised with it, a + b once more, convert_rule *)
Definition w_defA : pdef := {| d_items := [w_item]; d_post := []; d_fin := []; d_vars := []; d_prio := 0%Z; d_name := Some [97] |}.
Definition w_defE (n : option str) : pdef := {| d_items := []; d_post := []; d_fin := []; d_vars := []; d_prio := 0%Z; d_name := n |}.
Definition w_sum : itree := IPlus (ILeaf 0) (ILeaf 1).
Definition w_prog_stale : list op := [OpTree w_sum; OpInit false (Some 2%nat) FState; OpTree w_sum; OpRun false FState].
Definition w_prog_fresh : list op := [OpTree w_sum; OpTree w_sum; OpConvert false (Some 3%nat) FState].
(* the witness of D30: convert() for format test, then convert_rule() for format state *)
Definition w_defO (v : str) : pdef :=
  {| d_items := [ {| i_uid := 2; i_id := v; i_kind := KAddCond [111] v; i_cond := CNone |} ]; d_post := []; d_fin := [];
     d_vars := []; d_prio := 0%Z; d_name := None |}.
Definition w_prog_fmt : list op := [OpConvert false (Some 0%nat) FTest; OpRun false FState].

Lemma history_refuted :
  exists defs tn bkd od ot os rules prog l,
    tn_objs tn /\ snd (mk_defs h_empty (defs ++ [bkd; od; ot; os])) = Ok l /\
    snd (mexec defs tn bkd od ot os rules prog) = false /\
    fst (mexec defs tn bkd od ot os rules prog)
    <> aexec (map adef defs) tn (apipe_of bkd) (by_fmt (apipe_of od) (apipe_of ot) (apipe_of os)) rules prog.
Proof.
  exists [w_defA; w_defE (Some [98])], [], (w_defE None), (w_defE None), (w_defE None), (w_defE None), w_rules, w_prog_stale.
  eexists. split; [intros e []|]. split; [vm_compute; reflexivity|]. split; [vm_compute; reflexivity|]. vm_compute. discriminate.
Qed.

(* ... and convert_rule() for a format other than the one the backend object's pipeline was built for
   runs the other format's output-format pipeline (D30) *)
Lemma history_format_refuted :
  exists defs tn bkd od ot os rules prog l,
    tn_objs tn /\ snd (mk_defs h_empty (defs ++ [bkd; od; ot; os])) = Ok l /\
    snd (mexec defs tn bkd od ot os rules prog) = false /\
    fst (mexec defs tn bkd od ot os rules prog)
    <> aexec (map adef defs) tn (apipe_of bkd) (by_fmt (apipe_of od) (apipe_of ot) (apipe_of os)) rules prog.
Proof.
  exists [w_defE (Some [97])], [], (w_defE None), (w_defE None),
         {| d_items := [ {| i_uid := 2; i_id := [116]; i_kind := KAddCond [111] [116]; i_cond := CNone |} ]; d_post := []; d_fin := [];
            d_vars := []; d_prio := 0%Z; d_name := None |},
         {| d_items := [ {| i_uid := 3; i_id := [115]; i_kind := KAddCond [111] [115]; i_cond := CNone |} ]; d_post := []; d_fin := [];
            d_vars := []; d_prio := 0%Z; d_name := None |}, w_rules, w_prog_fmt.
  eexists. split; [intros e []|]. split; [vm_compute; reflexivity|]. split; [vm_compute; reflexivity|]. vm_compute. discriminate.
Qed.

Lemma history_inhabited :
  exists l, snd (mk_defs h_empty ([w_defA; w_defE (Some [98])] ++ [w_defE None; w_defE None; w_defE None; w_defE None])) = Ok l /\
  snd (mexec [w_defA; w_defE (Some [98])] [] (w_defE None) (w_defE None) (w_defE None) (w_defE None) w_rules w_prog_fresh) = true /\
  exists r, fst (mexec [w_defA; w_defE (Some [98])] [] (w_defE None) (w_defE None) (w_defE None) (w_defE None) w_rules w_prog_fresh) = Ok r.
Proof.
  eexists. split; [vm_compute; reflexivity|]. split; [vm_compute; reflexivity|]. eexists. vm_compute. reflexivity.
Qed.
