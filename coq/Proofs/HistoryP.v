(* C14 - histories: as long as every conversion runs a pipeline that still owns its objects, the heap
   machine (Model.Pipeline.mexec) shows exactly what the value-only specification of the history
   (Spec.AbsPipeline.aexec) shows. *)
From Coq Require Import NArith ZArith List Bool Lia Permutation.
From PS Require Import Base.Chars Base.Outcome Spec.AbsPipeline Model.Pipeline Proofs.PipelineP.
Import ListNotations.
Open Scope N_scope.

(* ------------------------------------------------------------------ running never touches own / vars / next *)
Definition same (h h' : heap) : Prop :=
  h_own h' = h_own h /\ h_vars h' = h_vars h /\ h_next h' = h_next h.
Lemma same_refl h : same h h.
Proof. repeat split. Qed.
Lemma same_trans h1 h2 h3 : same h1 h2 -> same h2 h3 -> same h1 h3.
Proof. intros (A & B & C) (D & E & F). repeat split; congruence. Qed.

Lemma item_step_pres acc i h' m' : m_item_step acc i = Ok (h', m') ->
  exists h m, acc = Ok (h, m) /\ same h h'.
Proof.
  unfold m_item_step. destruct acc as [[h m]|t|t]; cbn [obind fst snd]; try discriminate.
  destruct (m_cond h (i_uid i) (i_cond i)) as [c|t|t]; cbn [obind]; try discriminate.
  intros H. exists h, m. split; [reflexivity|].
  destruct c; [|inversion H; subst; apply same_refl].
  destruct (i_kind i); try (inversion H; subst; apply same_refl).
  destruct (h_own h (i_uid i)); inversion H; subst; repeat split.
Qed.
Lemma items_pres its : forall acc h' m', fold_left m_item_step its acc = Ok (h', m') ->
  exists h m, acc = Ok (h, m) /\ same h h'.
Proof.
  induction its as [|i its IH]; intros acc h' m' H; cbn in H.
  - exists h', m'. split; [exact H | apply same_refl].
  - destruct (IH _ _ _ H) as (h1 & m1 & E1 & S1).
    destruct (item_step_pres _ _ _ _ E1) as (h & m & E & S). exists h, m. split; [exact E|].
    eapply same_trans; eassumption.
Qed.
Lemma rule_pres f self acc r h' a' : m_rule f self acc r = Ok (h', a') ->
  exists h a, acc = Ok (h, a) /\ same h h'.
Proof.
  unfold m_rule. destruct acc as [[h a]|t|t]; cbn [obind fst snd]; try discriminate.
  destruct (m_apply h self r) as [[h1 m1]|t|t] eqn:E; cbn [obind fst snd]; try discriminate.
  destruct (m_post _ _ _ _) as [qi|t|t]; cbn [obind]; try discriminate.
  intros H. inversion H; subst. exists h, a. split; [reflexivity|].
  unfold m_apply in E. destruct (items_pres _ _ _ _ E) as (h0 & m0 & E0 & S0). inversion E0; subst.
  destruct S0 as (A & B & C). repeat split; assumption.
Qed.
Lemma rules_pres f self rules : forall acc h' a', fold_left (m_rule f self) rules acc = Ok (h', a') ->
  exists h a, acc = Ok (h, a) /\ same h h'.
Proof.
  induction rules as [|r rules IH]; intros acc h' a' H; cbn in H.
  - exists h', a'. split; [exact H | apply same_refl].
  - destruct (IH _ _ _ H) as (h1 & a1 & E1 & S1).
    destruct (rule_pres _ _ _ _ _ _ E1) as (h & a & E & S). exists h, a. split; [exact E|].
    eapply same_trans; eassumption.
Qed.
Lemma run_pres h f p rules : same h (fst (m_run h f p rules)).
Proof.
  unfold m_run. destruct (fold_left _ rules _) as [[h1 a1]|t|t] eqn:E; cbn [fst]; try apply same_refl.
  destruct (rules_pres _ _ _ _ _ _ E) as (h0 & a0 & E0 & S0). inversion E0; subst. exact S0.
Qed.

(* ------------------------------------------------------------------ one addition *)
Definition absr (h : heap) (r : outcome ppl) : outcome apipe :=
  match r with Ok s => Ok (abs h s) | SigmaErr t => SigmaErr t | Crash t => Crash t end.

Lemma abs_stable h h' p : frame h h' -> valid h p -> abs h' p = abs h p /\ valid h' p.
Proof.
  intros (A & B & _) V. split; [apply abs_frame; assumption | unfold valid in *; lia].
Qed.
Lemma valid_all_frame h h' l : frame h h' -> Forall (valid h) l -> Forall (valid h') l /\ map (abs h') l = map (abs h) l.
Proof.
  intros F V. split.
  - rewrite Forall_forall in *. intros p Hp. apply (abs_stable h h' p F). apply V. exact Hp.
  - apply map_ext_in. intros p Hp. apply (abs_stable h h' p F). rewrite Forall_forall in V. apply V. exact Hp.
Qed.

Lemma add_sim h p q h' r : add h p q = (h', r) ->
  absr h' r = aplus_checked (abs h p) (abs h q) /\ frame h h' /\
  (forall s, r = Ok s -> valid h' s /\ owned h' s).
Proof.
  intros E. split; [|split; [eapply add_frame; exact E|]].
  - pose proof (add_defined h p q) as D. rewrite E in D. cbn [snd] in D.
    unfold aplus_checked, atagged, aplus. cbn [a_items a_post a_fin abs].
    destruct (first_dup [] _) as [t|].
    + subst r. reflexivity.
    + subst r. cbn [absr]. f_equal.
      pose proof (add_refines _ _ _ _ _ E) as [A _]. rewrite A. reflexivity.
  - intros s ->. pose proof (add_ok _ _ _ _ _ E) as (O & S & _ & _ & Nx). split; [|exact O].
    unfold valid. subst s. cbn. lia.
Qed.

(* ------------------------------------------------------------------ bracketings over registers *)
Lemma to_tree_ok regs e : itree_ok (length regs) e = true -> exists t, to_tree regs e = Some t.
Proof.
  induction e as [i|a IHa b IHb]; cbn; intros H.
  - apply Nat.ltb_lt in H. destruct (nth_error regs i) eqn:E; [eexists; reflexivity|].
    apply nth_error_None in E. lia.
  - apply andb_true_iff in H. destruct H as [Ha Hb].
    destruct (IHa Ha) as [ta ->], (IHb Hb) as [tb ->]. eexists. reflexivity.
Qed.
Lemma to_tree_not_ok regs e : itree_ok (length regs) e = false -> to_tree regs e = None.
Proof.
  induction e as [i|a IHa b IHb]; cbn; intros H.
  - apply Nat.ltb_ge in H. apply nth_error_None in H. rewrite H. reflexivity.
  - apply andb_false_iff in H. destruct H as [H|H].
    + rewrite (IHa H). reflexivity.
    + rewrite (IHb H). destruct (to_tree regs a); reflexivity.
Qed.

Lemma eval_sim regs e : forall t h h' r,
  to_tree regs e = Some t -> Forall (valid h) regs -> eval h t = (h', r) ->
  absr h' r = aeval (map (abs h) regs) e /\ frame h h' /\ (forall s, r = Ok s -> valid h' s).
Proof.
  induction e as [i|a IHa b IHb]; intros t h h' r T V E; cbn in T.
  - destruct (nth_error regs i) as [p|] eqn:En; [|discriminate]. inversion T; subst. cbn in E. inversion E; subst.
    cbn. rewrite (map_nth_error _ _ _ En). split; [reflexivity|]. split; [apply frame_refl|].
    intros s Hs. inversion Hs; subst. rewrite Forall_forall in V. apply V. eapply nth_error_In. exact En.
  - destruct (to_tree regs a) as [ta|] eqn:Ta; [|discriminate].
    destruct (to_tree regs b) as [tb|] eqn:Tb; [|discriminate]. inversion T; subst. cbn in E.
    unfold hbind in E. destruct (eval h ta) as [h1 ra] eqn:Ea. cbn [fst snd] in E.
    destruct (IHa _ _ _ _ eq_refl V Ea) as (Sa & Fa & Va). cbn [aeval]. rewrite <- Sa.
    destruct ra as [pa|x|x]; cbn [absr obind]; try (inversion E; subst; cbn; split; [reflexivity|]; split; [assumption | intros; discriminate]).
    destruct (valid_all_frame _ _ _ Fa V) as [V1 M1].
    destruct (eval h1 tb) as [h2 rb] eqn:Eb. cbn [fst snd] in E.
    destruct (IHb _ _ _ _ eq_refl V1 Eb) as (Sb & Fb & Vb). rewrite M1 in Sb. rewrite <- Sb.
    destruct rb as [pb|x|x]; cbn [absr obind];
      try (inversion E; subst; cbn; split; [reflexivity|]; split; [eapply frame_trans; eassumption | intros; discriminate]).
    destruct (add_sim _ _ _ _ _ E) as (Sc & Fc & Vc).
    destruct (abs_stable _ _ pa Fb (Va _ eq_refl)) as [Ep _]. rewrite Ep in Sc.
    split; [exact Sc|]. split; [eapply frame_trans; [eassumption|]; eapply frame_trans; eassumption|].
    intros s Hs. apply Vc. exact Hs.
Qed.

(* ------------------------------------------------------------------ sums and the resolver, on objects and on values *)
Definition afold (l : list apipe) (acc : outcome apipe) : outcome apipe :=
  fold_left (fun acc q => obind acc (fun s => aplus_checked s q)) l acc.

Lemma psum_fold_sim l : forall h0 h1 r1,
  frame h0 h1 -> Forall (valid h0) l -> (forall s, r1 = Ok s -> valid h1 s) ->
  forall h' r, fold_left (fun acc q => hbind acc (fun h' s => add h' s q)) l (h1, r1) = (h', r) ->
  absr h' r = afold (map (abs h0) l) (absr h1 r1) /\ frame h0 h' /\ (forall s, r = Ok s -> valid h' s).
Proof.
  induction l as [|q l IH]; intros h0 h1 r1 F V V1 h' r E; cbn in E.
  - inversion E; subst. cbn. split; [reflexivity|]. split; assumption.
  - inversion V as [|? ? Vq Vl]; subst. cbn [map afold fold_left]. fold (afold (map (abs h0) l)).
    unfold hbind at 2 in E. cbn [fst snd] in E.
    destruct r1 as [s1|x|x]; cbn [absr obind].
    + destruct (add h1 s1 q) as [h2 r2] eqn:Ea.
      destruct (add_sim _ _ _ _ _ Ea) as (Sa & Fa & Va).
      destruct (abs_stable _ _ q F Vq) as [Eq _]. rewrite Eq in Sa. rewrite <- Sa.
      apply (IH h0 h2 r2); [eapply frame_trans; eassumption | exact Vl | intros s Hs; apply Va; exact Hs | exact E].
    + apply (IH h0 h1 (SigmaErr x)); [exact F | exact Vl | intros; discriminate | exact E].
    + apply (IH h0 h1 (Crash x)); [exact F | exact Vl | intros; discriminate | exact E].
Qed.

Lemma upd_same {A} (f : N -> A) k v : upd f k v k = v.
Proof. unfold upd. rewrite N.eqb_refl. reflexivity. Qed.

Lemma mk_empty_sim h h' r : mk h [] [] [] [] 0%Z None = (h', r) ->
  absr h' r = Ok aempty /\ frame h h' /\ (forall s, r = Ok s -> valid h' s).
Proof.
  unfold mk. change (tagged [] [] []) with (@nil (N * N)). cbn [own_all fst snd]. intros E. inversion E; subst; clear E.
  cbn [absr]. unfold abs, aempty. cbn [p_items p_post p_fin p_id h_vars].
  rewrite upd_same. split; [reflexivity|]. split.
  - unfold frame, wf_heap. cbn [h_next h_vars]. split; [lia|]. split.
    + intros pid Hp. unfold upd. destruct (N.eqb pid (h_next h)) eqn:E; [apply N.eqb_eq in E; lia | reflexivity].
    + intros W pid. unfold upd. destruct (N.eqb pid (h_next h)); [constructor | apply W].
  - intros s Hs. inversion Hs; subst. unfold valid. cbn. lia.
Qed.

Lemma psum_sim l h h' r : Forall (valid h) l -> psum h l = (h', r) ->
  absr h' r = asum (map (abs h) l) /\ frame h h' /\ (forall s, r = Ok s -> valid h' s).
Proof.
  intros V E. destruct l as [|p l]; cbn [psum] in E.
  - apply mk_empty_sim. exact E.
  - inversion V as [|? ? Vp Vl]; subst.
    apply (psum_fold_sim l h h (Ok p)); [apply frame_refl | exact Vl | intros s Hs; inversion Hs; subst; exact Vp | exact E].
Qed.

Definition gval (h : heap) (p : ppl) : aval := (abs h p, p_prio p).
Definition gent (h : heap) (e : str * rent ppl) : str * rent aval :=
  (fst e, match snd e with RObj p => RObj (gval h p) | RCall d => RCall d | RSeq ds => RSeq ds end).

Lemma ainst_objs h c l : (forall x, In x l -> is_obj (fst x)) ->
  ainst_all c (map (gx (gent h)) l) = (map (gx (gval h)) (map (gx ent_ppl) l), c).
Proof.
  induction l as [|es l IH]; intros H; [reflexivity|]. cbn [map ainst_all].
  destruct (H es (or_introl eq_refl)) as [p Hp]. destruct es as [[k e] sp]. cbn [fst snd] in Hp. subst e.
  change (gx (gent h) (k, RObj p, sp)) with ((k, RObj (gval h p)), sp). cbn [fst snd].
  rewrite IH by (intros x Hx; apply H; right; exact Hx). reflexivity.
Qed.

Lemma resolve_sim h c t specs h' c' r : objs_only t -> (forall e, In e t -> valid h (ent_ppl e)) ->
  resolve h c t specs = ((h', c'), r) ->
  absr h' r = fst (aresolve c (map (gent h) t) specs) /\ c' = snd (aresolve c (map (gent h) t) specs) /\ frame h h' /\ (forall s, r = Ok s -> valid h' s).
Proof.
  intros O V E. rewrite resolve_objs in E by exact O. unfold aresolve.
  rewrite (resolve_all_map (gent h) tab_nm tab_nm) by reflexivity.
  unfold resolve_order in E. destruct (resolve_all tab_nm t specs) as [l|] eqn:El; cbn [option_map].
  - rewrite ainst_objs by (intros x Hx; apply O; eapply resolve_all_in; eassumption). cbn [fst snd].
    rewrite (isort_map (gval h) p_prio (fun a : aval => snd a)) by reflexivity.
    rewrite (isort_map ent_ppl ent_prio p_prio ent_ppl_prio).
    cbn zeta in E.
    destruct (psum h (map ent_ppl (map fst (isort (info_leb ent_prio) l)))) as [h1 r1] eqn:Ep.
    cbn [fst snd] in E. inversion E; subst; clear E.
    assert (Vl : Forall (valid h) (map ent_ppl (map fst (isort (info_leb ent_prio) l)))).
    { rewrite Forall_forall. intros q Hq. apply in_map_iff in Hq. destruct Hq as (e & <- & He). apply V.
      apply in_map_iff in He. destruct He as (x & <- & Hx).
      apply (Permutation_in _ (isort_perm _ l)) in Hx. eapply resolve_all_in; eassumption. }
    destruct (psum_sim _ _ _ _ Vl Ep) as (S & F & Vs).
    split; [|split; [reflexivity | split; assumption]].
    rewrite S. f_equal. rewrite !map_map. reflexivity.
  - inversion E; subst. cbn. split; [reflexivity|]. split; [reflexivity|]. split; [apply frame_refl | intros; discriminate].
Qed.

Lemma nths_map {A B} (g : A -> B) l is : nths (map g l) is = option_map (map g) (nths l is).
Proof.
  induction is as [|i is IH]; cbn; [reflexivity|]. rewrite IH.
  destruct (nth_error l i) as [a|] eqn:E.
  - rewrite (map_nth_error _ _ _ E). destruct (nths l is); reflexivity.
  - assert (En : nth_error (map g l) i = None) by (apply nth_error_None; rewrite map_length; apply nth_error_None; exact E).
    rewrite En. reflexivity.
Qed.
Lemma nths_in {A} (l : list A) is r : nths l is = Some r -> forall x, In x r -> In x l.
Proof.
  revert r. induction is as [|i is IH]; cbn; intros r H x Hx.
  - inversion H; subst. contradiction.
  - destruct (nth_error l i) as [a|] eqn:E; [|discriminate]. destruct (nths l is) as [r'|]; [|discriminate].
    inversion H; subst. destruct Hx as [<-|Hx]; [eapply nth_error_In; exact E | eapply IH; [reflexivity | exact Hx]].
Qed.

(* ------------------------------------------------------------------ backend initialisation *)
Lemma init_sim h f bk user outf h' r :
  valid h bk -> valid h outf -> (forall u, user = Some u -> valid h u) ->
  init h f bk user outf = (h', r) ->
  absr h' r = ainit f (abs h bk) (option_map (abs h) user) (abs h outf) /\ frame h h' /\
  (forall s, r = Ok s -> valid h' s /\ owned h' s).
Proof.
  intros Vb Vo Vu E. unfold init in E. unfold ainit.
  assert (S1 : forall h1 r1, add_opt h bk user = (h1, r1) ->
     absr h1 r1 = match option_map (abs h) user with None => Ok (abs h bk) | Some u => aplus_checked (abs h bk) u end /\
     frame h h1 /\ (forall s, r1 = Ok s -> valid h1 s)).
  { intros h1 r1 E1. destruct user as [u|]; cbn in E1 |- *.
    - destruct (add_sim _ _ _ _ _ E1) as (A & B & C). split; [exact A|]. split; [exact B|]. intros s Hs. apply C. exact Hs.
    - inversion E1; subst. split; [reflexivity|]. split; [apply frame_refl|]. intros s Hs. inversion Hs; subst. exact Vb. }
  unfold hbind in E. destruct (add_opt h bk user) as [h1 r1] eqn:E1. cbn [fst snd] in E.
  destruct (S1 _ _ eq_refl) as (A1 & F1 & V1). rewrite <- A1.
  destruct r1 as [s1|x|x]; cbn [absr obind];
    try (inversion E; subst; cbn; split; [reflexivity|]; split; [assumption | intros; discriminate]).
  destruct (add h1 s1 outf) as [h2 r2] eqn:E2. cbn [fst snd] in E.
  destruct (add_sim _ _ _ _ _ E2) as (A2 & F2 & V2).
  destruct (abs_stable _ _ outf F1 Vo) as [Eo _]. rewrite Eo in A2. rewrite <- A2.
  destruct r2 as [s2|x|x]; cbn [absr obind];
    try (inversion E; subst; cbn; split; [reflexivity|]; split; [eapply frame_trans; eassumption | intros; discriminate]).
  inversion E; subst; clear E. destruct (V2 _ eq_refl) as [Vs Os].
  split.
  - cbn [absr]. f_equal. unfold abs, with_backend_vars. cbn [a_items a_post a_fin a_vars h_vars].
    unfold upd. rewrite N.eqb_refl. reflexivity.
  - split.
    + pose proof (add_ok _ _ _ _ _ E2) as (_ & Hs2 & _).
      assert (Hge : h_next h <= p_id s2) by (rewrite Hs2; cbn [p_id]; destruct F1 as [? _]; lia).
      pose proof (frame_trans _ _ _ F1 F2) as (Fn & Fv & Fw).
      unfold frame, wf_heap. cbn [h_next h_vars]. split; [exact Fn|]. split.
      * intros pid Hp. unfold upd. destruct (N.eqb pid (p_id s2)) eqn:Ep; [apply N.eqb_eq in Ep; lia | apply Fv; exact Hp].
      * intros W pid. pose proof (Fw W) as W2. unfold upd. destruct (N.eqb pid (p_id s2)); [apply dict_ok_dset, dict_ok_dset, W2 | apply W2].
    + intros s Hs. inversion Hs; subst. split; [exact Vs | exact Os].
Qed.

(* ------------------------------------------------------------------ the two machines, step by step *)
Lemma ownedb_owned h p : ownedb h p = true -> owned h p.
Proof.
  unfold ownedb, owned. rewrite forallb_forall. intros H u Hu. specialize (H u Hu).
  destruct (h_own h u) as [o|]; [|discriminate]. apply N.eqb_eq in H. subst. reflexivity.
Qed.
Lemma same_frame h h' : same h h' -> frame h h'.
Proof.
  intros (_ & B & C). unfold frame, wf_heap. rewrite B, C. split; [lia|]. split; [reflexivity | auto].
Qed.

Definition oabs (h : heap) (o : option ppl) : option apipe := option_map (abs h) o.
Definition ovalid (h : heap) (o : option ppl) : Prop := forall p, o = Some p -> valid h p.
Definition amach_of (h : heap) (m : mach) : amach :=
  {| am_regs := map (abs h) (mc_regs m); am_lastA := oabs h (mc_lastA m); am_lastB := oabs h (mc_lastB m);
     am_res := mc_res m; am_fresh := mc_fresh m |}.
Definition allvalid (h : heap) (m : mach) : Prop :=
  Forall (valid h) (mc_regs m) /\ ovalid h (mc_lastA m) /\ ovalid h (mc_lastB m).

Lemma oabs_frame h h' o : frame h h' -> ovalid h o -> oabs h' o = oabs h o /\ ovalid h' o.
Proof.
  intros F V. destruct o as [p|]; cbn.
  - destruct (abs_stable _ _ p F (V p eq_refl)) as [E Vp]. rewrite E. split; [reflexivity|].
    intros q Hq. inversion Hq; subst. exact Vp.
  - split; [reflexivity | intros q Hq; discriminate].
Qed.

Section Machines.
  Variables (f : fmt) (t : list (str * rent ppl)) (bk outf : ppl) (rules : list rule).
  Hypothesis t_objs : objs_only t.

  Definition fixedok (h : heap) : Prop := (forall e, In e t -> valid h (ent_ppl e)) /\ valid h bk /\ valid h outf.
  Definition inv (m : mach) (a : amach) (atab : list (str * rent aval)) (abk aoutf : apipe) : Prop :=
    a = amach_of (mc_heap m) m /\ allvalid (mc_heap m) m /\ fixedok (mc_heap m) /\
    atab = map (gent (mc_heap m)) t /\ abk = abs (mc_heap m) bk /\ aoutf = abs (mc_heap m) outf.

  Lemma fixed_frame h h' : frame h h' -> fixedok h ->
    fixedok h' /\ map (gent h') t = map (gent h) t /\ abs h' bk = abs h bk /\ abs h' outf = abs h outf.
  Proof.
    intros F (Vr & Vb & Vo).
    destruct (abs_stable _ _ bk F Vb) as [Eb Vb'], (abs_stable _ _ outf F Vo) as [Eo Vo'].
    split; [split; [|split; assumption]|]. 
    - intros e He. apply (abs_stable h h' _ F). apply Vr. exact He.
    - split; [|split; assumption].
      apply map_ext_in. intros e He. unfold gent. specialize (Vr e He). unfold ent_ppl in Vr.
      destruct (snd e) as [p|d|ds]; [|reflexivity|reflexivity].
      unfold gval. destruct (abs_stable _ _ p F Vr) as [E _]. rewrite E. reflexivity.
  Qed.
  Lemma mach_frame h h' m : frame h h' -> allvalid h m -> amach_of h' m = amach_of h m /\ allvalid h' m.
  Proof.
    intros F (Vr & Va & Vb). destruct (valid_all_frame _ _ _ F Vr) as [Vr' Er].
    destruct (oabs_frame _ _ _ F Va) as [Ea Va'], (oabs_frame _ _ _ F Vb) as [Eb Vb'].
    split; [unfold amach_of; rewrite Er, Ea, Eb; reflexivity | repeat split; assumption].
  Qed.

  Definition osim (mo : outcome mach) (ao : outcome amach) (atab : list (str * rent aval)) (abk aoutf : apipe) : Prop :=
    match mo, ao with
    | Ok m', Ok a' => inv m' a' atab abk aoutf
    | SigmaErr x, SigmaErr x' => x = x'
    | Crash x, Crash x' => x = x'
    | _, _ => False
    end.

  (* pushing the result of an allocation-only operation *)
  Lemma push_sim m a atab abk aoutf c h' r ar :
    inv m a atab abk aoutf -> frame (mc_heap m) h' -> absr h' r = ar -> (forall s, r = Ok s -> valid h' s) ->
    osim (mc_push m c (h', r)) (obind ar (fun p => Ok (am_push a c p))) atab abk aoutf.
  Proof.
    intros (Ea & Av & Fx & Er & Eb & Eo) F S V. subst ar. unfold mc_push. cbn [snd fst].
    destruct r as [s|x|x]; cbn [absr obind osim]; try reflexivity.
    destruct (mach_frame _ _ m F Av) as [Em (Vr & Va & Vb)].
    destruct (fixed_frame _ _ F Fx) as (Fx' & Er' & Eb' & Eo').
    unfold inv. cbn [mc_heap mc_regs mc_lastA mc_lastB mc_res mc_fresh].
    split; [|split; [|split; [exact Fx' | split; [congruence | split; congruence]]]].
    - subst a. unfold amach_of, am_push in *.
      cbn [mc_regs mc_lastA mc_lastB mc_res mc_fresh am_regs am_lastA am_lastB am_res am_fresh] in *.
      inversion Em as [[E1 E2 E3]]. rewrite map_app. cbn [map]. rewrite E1, E2, E3. reflexivity.
    - unfold allvalid. cbn [mc_regs mc_lastA mc_lastB]. split; [|split; assumption].
      apply Forall_app. split; [exact Vr | constructor; [apply V; reflexivity | constructor]].
  Qed.

  Lemma setlast_sim m a atab abk aoutf b h' r ar :
    inv m a atab abk aoutf -> frame (mc_heap m) h' -> absr h' r = ar -> (forall s, r = Ok s -> valid h' s) ->
    osim (mc_set_last m b (h', r)) (obind ar (fun p => Ok (am_set_last a b p))) atab abk aoutf.
  Proof.
    intros (Ea & Av & Fx & Er & Eb & Eo) F S V. subst ar. unfold mc_set_last. cbn [snd fst].
    destruct r as [s|x|x]; cbn [absr obind osim]; try reflexivity.
    destruct (mach_frame _ _ m F Av) as [Em (Vr & Va & Vb)].
    destruct (fixed_frame _ _ F Fx) as (Fx' & Er' & Eb' & Eo').
    unfold inv. cbn [mc_heap mc_regs mc_lastA mc_lastB mc_res mc_fresh].
    split; [|split; [|split; [exact Fx' | split; [congruence | split; congruence]]]].
    - subst a. unfold amach_of, am_set_last in *.
      cbn [mc_regs mc_lastA mc_lastB mc_res mc_fresh am_regs am_lastA am_lastB am_res am_fresh] in *.
      inversion Em as [[E1 E2 E3]]. rewrite E1. destruct b; cbn [oabs option_map]; rewrite ?E2, ?E3; reflexivity.
    - unfold allvalid. cbn [mc_regs mc_lastA mc_lastB]. split; [exact Vr|].
      destruct b; split; try assumption; intros q Hq; inversion Hq; subst; apply V; reflexivity.
  Qed.

  Lemma user_sim m a atab abk aoutf u : inv m a atab abk aoutf ->
    match mc_user m u, am_user a u with
    | Ok up, Ok aup => aup = oabs (mc_heap m) up /\ ovalid (mc_heap m) up
    | Crash x, Crash x' => x = x'
    | _, _ => False
    end.
  Proof.
    intros (Ea & (Vr & _) & _). subst a. unfold mc_user, am_user, amach_of. cbn [am_regs].
    destruct u as [i|]; [|split; [reflexivity | intros q Hq; discriminate]].
    destruct (nth_error (mc_regs m) i) as [p|] eqn:E.
    - rewrite (map_nth_error _ _ _ E). split; [reflexivity|]. intros q Hq. inversion Hq; subst.
      rewrite Forall_forall in Vr. apply Vr. eapply nth_error_In. exact E.
    - assert (En : nth_error (map (abs (mc_heap m)) (mc_regs m)) i = None).
      { apply nth_error_None. rewrite map_length. apply nth_error_None. exact E. }
      rewrite En. reflexivity.
  Qed.

  Lemma run_sim m a atab abk aoutf b :
    inv m a atab abk aoutf ->
    (forall p, mc_last m b = Some p -> owned (mc_heap m) p) ->
    osim (mc_run f rules m b)
         (match am_last a b with
          | None => Crash C_Harness
          | Some p => obind (abs_run f p rules) (fun r => Ok (am_with_res a r))
          end) atab abk aoutf.
  Proof.
    intros (Ea & Av & Fx & Er & Eb & Eo) O. unfold mc_run.
    assert (El : am_last a b = oabs (mc_heap m) (mc_last m b)).
    { subst a. unfold am_last, mc_last, amach_of. cbn. destruct b; reflexivity. }
    rewrite El. destruct (mc_last m b) as [p|]; cbn [oabs option_map osim]; [|reflexivity].
    rewrite <- (behaviour _ f p rules (O p eq_refl)).
    pose proof (run_pres (mc_heap m) f p rules) as S. apply same_frame in S.
    destruct (m_run (mc_heap m) f p rules) as [h' r]. cbn [fst snd] in *.
    destruct r as [x|x|x]; cbn [obind osim]; try reflexivity.
    destruct (mach_frame _ _ m S Av) as [Em (Vr & Va & Vb)].
    destruct (fixed_frame _ _ S Fx) as (Fx' & Er' & Eb' & Eo').
    unfold inv. cbn [mc_heap mc_regs mc_lastA mc_lastB mc_res mc_fresh].
    split; [|split; [repeat split; assumption | split; [exact Fx' | split; [congruence | split; congruence]]]].
    subst a. unfold amach_of, am_with_res in *.
    cbn [mc_regs mc_lastA mc_lastB mc_res mc_fresh am_regs am_lastA am_lastB am_res am_fresh] in *.
    inversion Em as [[E1 E2 E3]]. rewrite E1, E2, E3. reflexivity.
  Qed.

  Lemma step_sim m a atab abk aoutf o :
    inv m a atab abk aoutf -> run_dom m o true = true ->
    osim (mstep f t bk outf rules m o) (astep f atab abk aoutf rules (Ok a) o) atab abk aoutf.
  Proof.
    intros I D. pose proof I as (Ea & Av & Fx & Er & Eb & Eo).
    destruct Av as (Vr & Va & Vb). destruct Fx as (Vt & Vbk & Vof).
    assert (Efr : am_fresh a = mc_fresh m) by (subst a; reflexivity).
    assert (Erg : am_regs a = map (abs (mc_heap m)) (mc_regs m)) by (subst a; reflexivity).
    destruct o as [e|specs|l|b u|b|b u]; cbn [mstep astep obind].
    - (* OpTree *)
      rewrite Erg, map_length, Efr. destruct (itree_ok (length (mc_regs m)) e) eqn:Ok_.
      + destruct (to_tree_ok _ _ Ok_) as [tr Et]. rewrite Et.
        destruct (eval (mc_heap m) tr) as [h' r] eqn:Ee.
        destruct (eval_sim _ _ _ _ _ _ Et Vr Ee) as (S & F & V).
        apply push_sim; assumption.
      + rewrite (to_tree_not_ok _ _ Ok_). reflexivity.
    - (* OpResolve *)
      rewrite Efr. destruct (resolve (mc_heap m) (mc_fresh m) t specs) as [[h' c'] r] eqn:Ee. cbn [fst snd].
      destruct (resolve_sim _ _ _ _ _ _ _ t_objs Vt Ee) as (S & C & F & V).
      subst atab. cbn zeta. rewrite <- C. apply push_sim; assumption.
    - (* OpSum *)
      rewrite Erg, nths_map, Efr. destruct (nths (mc_regs m) l) as [[|p ps]|] eqn:En; cbn [option_map map]; try reflexivity.
      destruct (psum (mc_heap m) (p :: ps)) as [h' r] eqn:Ee.
      assert (Vl : Forall (valid (mc_heap m)) (p :: ps)).
      { rewrite Forall_forall in *. intros q Hq. apply Vr. eapply nths_in; eassumption. }
      destruct (psum_sim _ _ _ _ Vl Ee) as (S & F & V).
      change (abs (mc_heap m) p :: map (abs (mc_heap m)) ps) with (map (abs (mc_heap m)) (p :: ps)).
      apply push_sim; assumption.
    - (* OpInit *)
      pose proof (user_sim m a atab abk aoutf u I) as U.
      destruct (mc_user m u) as [up|x|x], (am_user a u) as [aup|x'|x']; cbn [obind osim]; try contradiction; try exact U.
      destruct U as [Eu Vu]. subst aup.
      destruct (init (mc_heap m) f bk up outf) as [h' r] eqn:Ei.
      destruct (init_sim _ _ _ _ _ _ _ Vbk Vof Vu Ei) as (S & F & V).
      apply setlast_sim; try assumption; [subst abk aoutf; exact S | intros s Hs; apply V; exact Hs].
    - (* OpRun *)
      cbn [run_dom andb] in D.
      apply run_sim; [exact I|]. intros p Hp. rewrite Hp in D. apply ownedb_owned. exact D.
    - (* OpConvert *)
      pose proof (user_sim m a atab abk aoutf u I) as U.
      destruct (mc_user m u) as [up|x|x], (am_user a u) as [aup|x'|x']; cbn [obind osim]; try contradiction; try exact U.
      destruct U as [Eu Vu]. subst aup.
      destruct (init (mc_heap m) f bk up outf) as [h' r] eqn:Ei.
      destruct (init_sim _ _ _ _ _ _ _ Vbk Vof Vu Ei) as (S & F & V).
      pose proof (setlast_sim m a atab abk aoutf b h' r _ I F S (fun s Hs => proj1 (V s Hs))) as L.
      rewrite Eb, Eo in L |- *. unfold oabs in *. rewrite <- S in L |- *. rewrite <- Eb, <- Eo in L |- *.
      destruct r as [s|x0|x0]; unfold mc_set_last in *; cbn [absr snd fst obind osim] in L |- *; try exact L.
      match goal with |- osim (mc_run f rules ?m' b) _ _ _ _ =>
        pose proof (run_sim m' (am_set_last a b (abs h' s)) atab abk aoutf b L) as R end.
      assert (Hl : am_last (am_set_last a b (abs h' s)) b = Some (abs h' s)) by (destruct b; reflexivity).
      rewrite Hl in R. apply R. intros p Hp. unfold mc_last in Hp. cbn in Hp.
      assert (p = s) by (destruct b; inversion Hp; reflexivity). subst p. apply (V s eq_refl).
  Qed.
End Machines.

(* ------------------------------------------------------------------ whole histories *)
Lemma run_dom_prev m o d : run_dom m o d = true -> d = true /\ run_dom m o true = true.
Proof.
  destruct o; cbn; intros H; try (split; [exact H | reflexivity]).
  apply andb_true_iff in H. destruct H as [-> H]. split; [reflexivity | exact H].
Qed.

Lemma fold_err_m f reg bk outf rules prog : forall mo d, (forall m, mo <> Ok m) ->
  fold_left (mstep_acc f reg bk outf rules) prog (mo, d) = (mo, d).
Proof.
  induction prog as [|o prog IH]; intros mo d H; [reflexivity|]. cbn [fold_left].
  unfold mstep_acc at 2. cbn [fst snd]. destruct mo as [m|t|t]; [exfalso; apply (H m); reflexivity | |]; apply IH; exact H.
Qed.
Lemma fold_err_a f areg abk aoutf rules prog : forall ao, (forall a, ao <> Ok a) ->
  fold_left (astep f areg abk aoutf rules) prog ao = ao.
Proof.
  induction prog as [|o prog IH]; intros ao H; [reflexivity|]. cbn [fold_left].
  destruct ao as [a|t|t]; [exfalso; apply (H a); reflexivity | |]; cbn [astep obind]; apply IH; intros a; discriminate.
Qed.

Lemma fold_sim f reg bk outf rules areg abk aoutf prog : objs_only reg -> forall mo d ao,
  (d = true -> osim reg bk outf mo ao areg abk aoutf) ->
  snd (fold_left (mstep_acc f reg bk outf rules) prog (mo, d)) = true ->
  osim reg bk outf (fst (fold_left (mstep_acc f reg bk outf rules) prog (mo, d)))
       (fold_left (astep f areg abk aoutf rules) prog ao) areg abk aoutf.
Proof.
  intros O. induction prog as [|o prog IH]; intros mo d ao H D; cbn [fold_left] in *.
  - cbn [fst snd] in *. apply H. exact D.
  - destruct mo as [m|t|t].
    + unfold mstep_acc at 2 in D. unfold mstep_acc at 2. cbn [fst snd] in *.
      apply IH; [|exact D]. intros D'. apply run_dom_prev in D'. destruct D' as [Dd Dr].
      specialize (H Dd). destruct ao as [a|t|t]; cbn [osim] in H; try contradiction.
      apply step_sim; assumption.
    + unfold mstep_acc at 2 in D. unfold mstep_acc at 2. cbn [fst snd] in *.
      rewrite fold_err_m in D |- * by (intros m; discriminate). cbn [fst snd] in *.
      specialize (H D). destruct ao as [a|t'|t']; cbn [osim] in H; try contradiction. subst t'.
      cbn [astep obind]. rewrite fold_err_a by (intros a; discriminate). reflexivity.
    + unfold mstep_acc at 2 in D. unfold mstep_acc at 2. cbn [fst snd] in *.
      rewrite fold_err_m in D |- * by (intros m; discriminate). cbn [fst snd] in *.
      specialize (H D). destruct ao as [a|t'|t']; cbn [osim] in H; try contradiction. subst t'.
      cbn [astep obind]. rewrite fold_err_a by (intros a; discriminate). reflexivity.
Qed.

(* the initial objects *)
Definition def_rel (h : heap) (d : pdef) (p : ppl) : Prop :=
  p_items p = d_items d /\ p_post p = d_post d /\ p_fin p = d_fin d /\ p_prio p = d_prio d /\
  p_name p = d_name d /\ h_vars h (p_id p) = d_vars d /\ p_id p < h_next h.

Lemma mk_defs_spec ds : forall h h' l, mk_defs h ds = (h', Ok l) ->
  h_next h <= h_next h' /\ (forall pid, pid < h_next h -> h_vars h' pid = h_vars h pid) /\
  Forall2 (def_rel h') ds l.
Proof.
  induction ds as [|d ds IH]; intros h h' l E; cbn [mk_defs] in E.
  - inversion E; subst. split; [lia|]. split; [reflexivity | constructor].
  - unfold hbind in E. destruct (mk_def h d) as [h1 r1] eqn:E1. cbn [fst snd] in E.
    destruct r1 as [p|t|t]; try discriminate.
    destruct (mk_defs h1 ds) as [h2 r2] eqn:E2. cbn [fst snd] in E.
    destruct r2 as [l'|t|t]; try discriminate. inversion E; subst; clear E.
    destruct (IH _ _ _ E2) as (N2 & V2 & F2).
    unfold mk_def in E1. apply mk_ok in E1. destruct E1 as (_ & Hp & Hv & _ & Hn).
    split; [lia|]. split.
    + intros pid Hpid. rewrite V2 by lia. rewrite Hv. unfold upd.
      destruct (N.eqb pid (h_next h)) eqn:Ep; [apply N.eqb_eq in Ep; lia | reflexivity].
    + constructor; [|exact F2]. subst p. unfold def_rel. cbn [p_items p_post p_fin p_prio p_name p_id].
      repeat split; try reflexivity; [|lia].
      rewrite V2 by lia. rewrite Hv. apply upd_same.
Qed.

Lemma F2_len {A B} (R : A -> B -> Prop) l1 l2 : Forall2 R l1 l2 -> length l1 = length l2.
Proof. induction 1; cbn; congruence. Qed.

Lemma def_rel_abs h d p : def_rel h d p -> gval h p = adef d /\ valid h p.
Proof.
  intros (A & B & C & D & E & F & G). split; [|exact G].
  unfold gval, adef, abs, apipe_of. rewrite A, B, C, D, F. reflexivity.
Qed.

Lemma F2_nth {A B} (R : A -> B -> Prop) l1 l2 : Forall2 R l1 l2 -> forall i,
  match nth_error l1 i, nth_error l2 i with
  | Some a, Some b => R a b
  | None, None => True
  | _, _ => False
  end.
Proof.
  induction 1 as [|a b l1 l2 Hab F IH]; intros [|i]; cbn; try exact I; [exact Hab | apply IH].
Qed.

Definition tn_objs (tn : list (str * rent nat)) : Prop := forall e, In e tn -> exists i, snd e = RObj i.

Lemma conv_tab_rel h ds l1 tn : Forall2 (def_rel h) ds l1 -> tn_objs tn ->
  match conv_tab l1 tn, conv_tab (map adef ds) tn with
  | Some t, Some atab => atab = map (gent h) t /\ objs_only t /\ (forall e, In e t -> valid h (ent_ppl e))
  | None, None => True
  | _, _ => False
  end.
Proof.
  intros F. induction tn as [|[s e] tn IH]; intros O; cbn [conv_tab].
  - split; [reflexivity|]. split; intros e [].
  - destruct (O (s, e) (or_introl eq_refl)) as [i Hi]. cbn [snd] in Hi. subst e.
    specialize (IH (fun e He => O e (or_intror He))).
    pose proof (F2_nth _ _ _ F i) as Hn. rewrite nth_error_map.
    destruct (nth_error ds i) as [d|], (nth_error l1 i) as [p|]; cbn [option_map]; try contradiction.
    + destruct (conv_tab l1 tn) as [t|], (conv_tab (map adef ds) tn) as [atab|]; try contradiction; try exact I.
      destruct IH as (E & Ob & V). destruct (def_rel_abs _ _ _ Hn) as [G Vp].
      split; [cbn [map]; unfold gent at 1; cbn [fst snd]; rewrite G, E; reflexivity|].
      split.
      * intros x [<-|Hx]; [exists p; reflexivity | apply Ob; exact Hx].
      * intros x [<-|Hx]; [exact Vp | apply V; exact Hx].
    + destruct (conv_tab l1 tn), (conv_tab (map adef ds) tn); exact I.
Qed.

(* FULL STATEMENT (false: C14_reuse_refuted): the premise `snd (mexec ...) = true` dropped.
   For every history of API calls over a resolver table of registered objects (identifiers
   arbitrary) in which the initial objects are distinct and every conversion without
   re-initialisation runs a pipeline that still owns its objects, the heap machine shows exactly
   what the value-only specification shows (same output, applied, state, ids, vars, or the same
   error). *)
Theorem history_sound f defs tn bkd outd rules prog h0 l :
  tn_objs tn ->
  mk_defs h_empty (defs ++ [bkd; outd]) = (h0, Ok l) ->
  snd (mexec f defs tn bkd outd rules prog) = true ->
  fst (mexec f defs tn bkd outd rules prog)
  = aexec f (map adef defs) tn (apipe_of bkd) (apipe_of outd) rules prog.
Proof.
  intros TO E0 D. unfold mexec in *. rewrite E0 in *. cbn [fst snd] in *.
  destruct (mk_defs_spec _ _ _ _ E0) as (_ & _ & F).
  apply Forall2_app_inv_l in F. destruct F as (l1 & l2 & F1 & F2 & ->).
  inversion F2 as [|? bk ? l3 Rb F3]; subst. inversion F3 as [|? outf ? l4 Ro F4]; subst. inversion F4; subst.
  assert (Len : length l1 = length defs) by (symmetry; eapply F2_len; exact F1).
  rewrite <- Len in *.
  assert (N1 : nth_error (l1 ++ [bk; outf]) (length l1) = Some bk).
  { rewrite nth_error_app2 by lia. rewrite Nat.sub_diag. reflexivity. }
  assert (N2 : nth_error (l1 ++ [bk; outf]) (S (length l1)) = Some outf).
  { rewrite nth_error_app2 by lia. replace (S (length l1) - length l1)%nat with 1%nat by lia. reflexivity. }
  rewrite N1, N2 in *. rewrite firstn_app, Nat.sub_diag, firstn_all in *. cbn [firstn] in *. rewrite app_nil_r in *.
  destruct (def_rel_abs _ _ _ Rb) as [Gb Vb], (def_rel_abs _ _ _ Ro) as [Go Vo].
  assert (Gl : map (gval h0) l1 = map adef defs /\ Forall (valid h0) l1).
  { clear - F1. induction F1 as [|d p ds ps R F IH]; [split; constructor|].
    destruct IH as [IH1 IH2]. destruct (def_rel_abs _ _ _ R) as [G V]. cbn [map]. rewrite G, IH1.
    split; [reflexivity | constructor; assumption]. }
  destruct Gl as [Gl Vl].
  unfold aexec. pose proof (conv_tab_rel h0 defs l1 tn F1 TO) as CT.
  destruct (conv_tab l1 tn) as [t|], (conv_tab (map adef defs) tn) as [atab|]; try contradiction; [|reflexivity].
  destruct CT as (Et & Ot & Vt).
  set (m0 := {| mc_heap := h0; mc_regs := l1; mc_lastA := None; mc_lastB := None; mc_res := None; mc_fresh := 0 |}) in *.
  pose proof (fold_sim f t bk outf rules atab (apipe_of bkd) (apipe_of outd) prog Ot
                (Ok m0) true
                (Ok {| am_regs := map fst (map adef defs); am_lastA := None; am_lastB := None; am_res := None; am_fresh := 0 |})) as S.
  destruct (fold_left (mstep_acc f t bk outf rules) prog (Ok m0, true)) as [mo d]. cbn [fst snd] in *.
  match type of S with ?P -> _ => assert (HP : P) end.
  { intros _. cbn [osim]. unfold inv. subst m0. cbn [mc_heap]. split; [|split; [|split; [|split; [|split]]]].
    - unfold amach_of. cbn [mc_regs mc_lastA mc_lastB mc_res mc_fresh oabs option_map]. f_equal.
      rewrite <- Gl, !map_map. reflexivity.
    - unfold allvalid. cbn. split; [exact Vl|]. split; intros q Hq; discriminate.
    - unfold fixedok. repeat split; assumption.
    - exact Et.
    - change (apipe_of bkd) with (fst (adef bkd)). rewrite <- Gb. reflexivity.
    - change (apipe_of outd) with (fst (adef outd)). rewrite <- Go. reflexivity. }
  specialize (S HP D).
  destruct mo as [m|x|x]; destruct (fold_left (astep _ _ _ _ _) prog _) as [a|x'|x']; cbn [osim] in S; try contradiction;
    cbn [obind]; try congruence.
  destruct S as (Ea & _). subst a. unfold amach_of. cbn [am_res]. reflexivity.
Qed.

(* the witness of D18 as a history: a + b, backend initialised with it, a + b once more, convert_rule *)
Definition w_defA : pdef := {| d_items := [w_item]; d_post := []; d_fin := []; d_vars := []; d_prio := 0%Z; d_name := Some [97] |}.
Definition w_defE (n : option str) : pdef := {| d_items := []; d_post := []; d_fin := []; d_vars := []; d_prio := 0%Z; d_name := n |}.
Definition w_sum : itree := IPlus (ILeaf 0) (ILeaf 1).
Definition w_prog_stale : list op := [OpTree w_sum; OpInit false (Some 2%nat); OpTree w_sum; OpRun false].
Definition w_prog_fresh : list op := [OpTree w_sum; OpTree w_sum; OpConvert false (Some 3%nat)].

Lemma history_refuted :
  exists f defs tn bkd outd rules prog l,
    tn_objs tn /\ snd (mk_defs h_empty (defs ++ [bkd; outd])) = Ok l /\
    snd (mexec f defs tn bkd outd rules prog) = false /\
    fst (mexec f defs tn bkd outd rules prog)
    <> aexec f (map adef defs) tn (apipe_of bkd) (apipe_of outd) rules prog.
Proof.
  exists FState, [w_defA; w_defE (Some [98])], [], (w_defE None), (w_defE None), w_rules, w_prog_stale.
  eexists. split; [intros e []|]. split; [vm_compute; reflexivity|]. split; [vm_compute; reflexivity|]. vm_compute. discriminate.
Qed.

Lemma history_inhabited :
  exists l, snd (mk_defs h_empty ([w_defA; w_defE (Some [98])] ++ [w_defE None; w_defE None])) = Ok l /\
  snd (mexec FState [w_defA; w_defE (Some [98])] [] (w_defE None) (w_defE None) w_rules w_prog_fresh) = true /\
  exists r, fst (mexec FState [w_defA; w_defE (Some [98])] [] (w_defE None) (w_defE None) w_rules w_prog_fresh) = Ok r.
Proof.
  eexists. split; [vm_compute; reflexivity|]. split; [vm_compute; reflexivity|]. eexists. vm_compute. reflexivity.
Qed.
