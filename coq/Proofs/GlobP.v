(* C02 - the regular-expression matcher of the model decides the declarative glob relation. *)
From Coq Require Import NArith List Bool Lia.
From PS Require Import Base.Chars Model.CondParse Model.Cond Spec.Glob Spec.CondGrammar.
Import ListNotations.
Open Scope N_scope.

Lemma any_suffix_spec f n :
  any_suffix f n = true <-> exists m n', n = m ++ n' /\ f n' = true.
Proof.
  induction n as [|x n IH]; simpl.
  - rewrite orb_false_r. split.
    + intros H. exists [], []. auto.
    + intros (m & n' & E & H). destruct m; [|discriminate]. simpl in E. subst. exact H.
  - rewrite orb_true_iff, IH. split.
    + intros [H | (m & n' & E & H)].
      * exists [], (x :: n). auto.
      * exists (x :: m), n'. subst. auto.
    + intros (m & n' & E & H). destruct m as [|y m]; simpl in E.
      * left. subst. exact H.
      * right. inversion E; subst. exists m, n'. auto.
Qed.

Theorem globb_Glob p n : globb p n = true <-> Glob p n.
Proof.
  revert n. induction p as [|c p IH]; intros n; simpl.
  - destruct n; split; intros H; try constructor; try discriminate. inversion H.
  - destruct (c =? c_star) eqn:Ec.
    + apply N.eqb_eq in Ec. subst c. rewrite any_suffix_spec. split.
      * intros (m & n' & -> & H). apply glob_star. apply IH. exact H.
      * intros H. inversion H; subst.
        -- congruence.
        -- eexists _, _. split; [reflexivity|]. apply IH. assumption.
    + apply N.eqb_neq in Ec. destruct n as [|x n].
      * split; [discriminate|]. intros H. inversion H; subst. congruence.
      * rewrite andb_true_iff, N.eqb_eq, IH. split.
        -- intros [-> H]. apply glob_lit; assumption.
        -- intros H. inversion H; subst; [auto | congruence].
Qed.

Lemma star_any_any_suffix f n : star_any f n = any_suffix f n.
Proof. induction n; simpl; congruence. Qed.

Lemma star_any_ext f g n : (forall x, f x = g x) -> star_any f n = star_any g n.
Proof. intros H. induction n; simpl; rewrite ?H; congruence. Qed.

(* re.fullmatch(pattern.replace("*", ".*")) as modelled = the executable glob of the specification *)
Lemma rmatch_compile p n : rmatch (compile p) n = globb p n.
Proof.
  revert n. induction p as [|c p IH]; intros n; simpl.
  - reflexivity.
  - destruct (c =? c_star); simpl.
    + rewrite (star_any_ext _ (globb p)) by exact IH. apply star_any_any_suffix.
    + destruct n; [reflexivity|]. rewrite IH. reflexivity.
Qed.

Theorem rmatch_Glob p n : rmatch (compile p) n = true <-> Glob p n.
Proof. rewrite rmatch_compile. apply globb_Glob. Qed.

Lemma star_any_end f n : f [] = true -> star_any f n = true.
Proof. intros H. induction n; simpl; [rewrite H; reflexivity|]. rewrite IHn. apply orb_true_r. Qed.
Lemma star_any_nil_true n : star_any (rmatch []) n = true.
Proof. apply star_any_end. reflexivity. Qed.

Lemma starts_us_us s : starts_us s = us s.
Proof. reflexivity. Qed.

Lemma sel_regex_selected p n :
  (rmatch (sel_regex p) n && (starts_us p || negb (starts_us n))) = selected p n.
Proof.
  unfold sel_regex, selected. rewrite !starts_us_us. f_equal.
  destruct (str_eqb p w_them); simpl.
  - apply star_any_nil_true.
  - apply rmatch_compile.
Qed.

(* selector resolution of the model = the names the specification selects, in document order *)
Theorem resolve_sel_names dets p : resolve dets p = sel_names dets p.
Proof.
  unfold resolve, sel_names. induction dets as [|n dets IH]; simpl; [reflexivity|].
  rewrite sel_regex_selected, IH. reflexivity.
Qed.

(* the declarative reading of "selected" *)
Theorem selected_spec p n :
  selected p n = true <->
  (p = w_them \/ Glob p n) /\ (us p = true \/ us n = false).
Proof.
  unfold selected. rewrite andb_true_iff, !orb_true_iff, str_eqb_eq, globb_Glob, negb_true_iff.
  reflexivity.
Qed.

Theorem sel_names_spec dets p n :
  In n (sel_names dets p) <-> In n dets /\ (p = w_them \/ Glob p n) /\ (us p = true \/ us n = false).
Proof. unfold sel_names. rewrite filter_In, selected_spec. reflexivity. Qed.

Theorem selector_spec dets p :
  resolve dets p = filter (selected p) dets /\
  forall n, In n (resolve dets p) <->
            In n dets /\ (p = w_them \/ Glob p n) /\ (us p = true \/ us n = false).
Proof.
  split; [exact (resolve_sel_names dets p)|].
  intros n. rewrite resolve_sel_names. exact (sel_names_spec dets p n).
Qed.
