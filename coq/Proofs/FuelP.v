(* The fuel of the entry point tparse always suffices: whenever the parser succeeds with some fuel it
   succeeds with  level + 1 + 4 * (tokens consumed)  (theorem tparse_complete). *)
From Coq Require Import List Arith Bool Lia.
From PS Require Import Model.Backend Spec.Target Proofs.BackendP.
Import ListNotations.
Open Scope nat_scope.

Section F.
Variable K : cfg.
Variable asg : nat -> bool.
Notation pe := (pe (lvl K) asg).
Notation loop := (loop (lvl K) asg).
Notation opat := (opat (lvl K)).

Definition need (i : nat) (ts r : list tok) : nat := i + 1 + 4 * (length ts - length r).
Definition needl (k : nat) (r r' : list tok) : nat := k + 2 + 4 * (length r - length r').

Lemma bound : forall f,
  (forall i ts v r, pe f i ts = Some (v, r) -> length r < length ts /\ pe (need i ts r) i ts = Some (v, r)) /\
  (forall o k v r v' r', loop f o k v r = Some (v', r') -> length r' <= length r /\ loop (needl k r r') o k v r = Some (v', r')).
Proof.
  induction f as [|f [IHp IHl]]; split; intros; try discriminate.
  - rewrite pe_S in H. destruct i as [|k].
    + destruct ts as [|[a n|d fl l|o| |] t]; try discriminate.
      * inversion H; subst. split; [simpl; lia|]. unfold need. simpl length.
        replace (0 + 1 + 4 * (S (length r) - length r)) with (S (4 + 0)) by lia. reflexivity.
      * inversion H; subst. split; [simpl; lia|]. unfold need. simpl length.
        replace (0 + 1 + 4 * (S (length r) - length r)) with (S (4 + 0)) by lia. reflexivity.
      * destruct (pe f 3 t) as [[v0 [|[| | | |] r0]]|] eqn:E; try discriminate. inversion H; subst.
        destruct (IHp _ _ _ _ E) as [Hl Hp]. simpl in Hl. split; [simpl; lia|].
        unfold need. simpl length.
        remember (0 + 1 + 4 * (S (length t) - length r)) as F.
        destruct F as [|F']; [lia|]. rewrite pe_S.
        rewrite (pe_mono K asg _ F' _ _ _ Hp) by (unfold need; simpl; lia). reflexivity.
    + destruct (opat (S k)) as [[| |]|] eqn:Eo.
      * (* not *)
        assert (Hfall: forall ts', pe f k ts' = Some (v, r) ->
                  length r < length ts' /\ pe (need k ts' r) k ts' = Some (v, r)) by (intros; apply IHp; assumption).
        destruct ts as [|t0 t].
        { destruct (Hfall [] H) as [Hl _]. simpl in Hl. lia. }
        destruct t0 as [a n|d fl l|[| |]| |];
          try (destruct (Hfall _ H) as [Hl Hp]; split; [exact Hl|];
               unfold need in *; remember (S k + 1 + 4 * (length _ - length r)) as F;
               destruct F as [|F']; [lia|]; rewrite pe_S, Eo;
               rewrite (pe_mono K asg _ F' _ _ _ Hp) by lia; reflexivity).
        destruct (pe f (S k) t) as [[v0 r0]|] eqn:E; try discriminate. inversion H; subst.
        destruct (IHp _ _ _ _ E) as [Hl Hp]. split; [simpl; lia|].
        unfold need in *. simpl length.
        remember (S k + 1 + 4 * (S (length t) - length r)) as F.
        destruct F as [|F']; [lia|]. rewrite pe_S, Eo.
        rewrite (pe_mono K asg _ F' _ _ _ Hp) by lia. reflexivity.
      * (* and *)
        destruct (pe f k ts) as [[v0 r0]|] eqn:E; try discriminate.
        destruct (IHp _ _ _ _ E) as [Hl Hp]. destruct (IHl _ _ _ _ _ _ H) as [Hl2 Hlp].
        split; [lia|]. unfold need, needl in *.
        remember (S k + 1 + 4 * (length ts - length r)) as F.
        destruct F as [|F']; [lia|]. rewrite pe_S, Eo.
        rewrite (pe_mono K asg _ F' _ _ _ Hp) by lia.
        apply (loop_mono K asg _ F' _ _ _ _ _ Hlp). lia.
      * (* or *)
        destruct (pe f k ts) as [[v0 r0]|] eqn:E; try discriminate.
        destruct (IHp _ _ _ _ E) as [Hl Hp]. destruct (IHl _ _ _ _ _ _ H) as [Hl2 Hlp].
        split; [lia|]. unfold need, needl in *.
        remember (S k + 1 + 4 * (length ts - length r)) as F.
        destruct F as [|F']; [lia|]. rewrite pe_S, Eo.
        rewrite (pe_mono K asg _ F' _ _ _ Hp) by lia.
        apply (loop_mono K asg _ F' _ _ _ _ _ Hlp). lia.
      * destruct (IHp _ _ _ _ H) as [Hl Hp]. split; [exact Hl|].
        unfold need in *. remember (S k + 1 + 4 * (length ts - length r)) as F.
        destruct F as [|F']; [lia|]. rewrite pe_S, Eo.
        apply (pe_mono K asg _ F' _ _ _ Hp). lia.
  - rewrite loop_S in H.
    destruct r as [|[a n|d fl l|o'| |] t];
      try (inversion H; subst; split; [lia|]; unfold needl;
           match goal with |- context [?kk + 2 + 4 * (?a - ?a)] => replace (kk + 2 + 4 * (a - a)) with (S (kk + 1)) by lia end;
           rewrite loop_S; reflexivity).
    destruct (op_eqb o' o) eqn:Eq.
    2:{ inversion H; subst. split; [lia|]. unfold needl.
        match goal with |- context [?kk + 2 + 4 * (?a - ?a)] => replace (kk + 2 + 4 * (a - a)) with (S (kk + 1)) by lia end.
        rewrite loop_S, Eq. reflexivity. }
    destruct (pe f k t) as [[v0 r0]|] eqn:E; try discriminate.
    destruct (IHp _ _ _ _ E) as [Hl Hp]. destruct (IHl _ _ _ _ _ _ H) as [Hl2 Hlp].
    split; [simpl; lia|]. unfold need, needl in *. simpl length.
    remember (k + 2 + 4 * (S (length t) - length r')) as F.
    destruct F as [|F']; [lia|]. rewrite loop_S, Eq.
    rewrite (pe_mono K asg _ F' _ _ _ Hp) by lia.
    apply (loop_mono K asg _ F' _ _ _ _ _ Hlp). lia.
Qed.

Theorem tparse_complete f ts v : pe f 3 ts = Some (v, []) -> tparse (lvl K) asg ts = Some v.
Proof.
  intros H. destruct (bound f) as [Hp _]. destruct (Hp _ _ _ _ H) as [_ Hn].
  unfold tparse. unfold need in Hn. simpl length in Hn.
  rewrite (pe_mono K asg _ (S (4 * length ts + 4)) _ _ _ Hn) by lia. reflexivity.
Qed.
End F.
