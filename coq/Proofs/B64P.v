(* Base64: the three-octet arithmetic of b64encode equals RFC 4648 over bit strings; the slices of
   base64offset are exactly the characters determined by the payload, and occur at every alignment. *)
From Coq Require Import NArith List Bool Lia Arith.
From PS Require Import Base.Chars Spec.B64 Model.Enc.
Import ListNotations.
Open Scope N_scope.

(* ---------- induction in steps of three and six ---------- *)
Lemma list_ind3 {A} (P : list A -> Prop) :
  P [] -> (forall a, P [a]) -> (forall a b, P [a; b]) ->
  (forall a b c r, P r -> P (a :: b :: c :: r)) -> forall l, P l.
Proof.
  intros H0 H1 H2 H3. fix IH 1. intros [|a [|b [|c r]]].
  - exact H0.
  - apply H1.
  - apply H2.
  - apply H3. apply IH.
Qed.

Lemma list_ind6 {A} (P : list A -> Prop) :
  (forall l, (length l < 6)%nat -> P l) ->
  (forall a b c d e f r, P r -> P (a :: b :: c :: d :: e :: f :: r)) -> forall l, P l.
Proof.
  intros H0 H6. fix IH 1. intros [|a [|b [|c [|d [|e [|f r]]]]]].
  1-6: apply H0; simpl; lia.
  apply H6. apply IH.
Qed.

(* ---------- groups of six ---------- *)
Lemma full6_short l : (length l < 6)%nat -> full6 l = [].
Proof. destruct l as [|a [|b [|c [|d [|e [|f r]]]]]]; simpl; try reflexivity; lia. Qed.

Lemma full6_cons6 a b c d e f r :
  full6 (a :: b :: c :: d :: e :: f :: r) = sextet [a; b; c; d; e; f] :: full6 r.
Proof. reflexivity. Qed.

Lemma enc6_cons6 a b c d e f r :
  enc6 (a :: b :: c :: d :: e :: f :: r) = sextet [a; b; c; d; e; f] :: enc6 r.
Proof. reflexivity. Qed.

Lemma sixes_short {A} (l : list A) : (length l < 6)%nat -> (length l mod 6 = 0)%nat -> l = [].
Proof.
  intros H1 H2. rewrite Nat.mod_small in H2 by exact H1. destruct l; [reflexivity | discriminate].
Qed.

Lemma sixes_step {A} (a b c d e f : A) r :
  (length (a :: b :: c :: d :: e :: f :: r) mod 6 = 0)%nat -> (length r mod 6 = 0)%nat.
Proof.
  simpl length. intros H. replace (S (S (S (S (S (S (length r))))))) with (length r + 1 * 6)%nat in H by lia.
  rewrite Nat.mod_add in H by lia. exact H.
Qed.

Lemma full6_app_sixes x : forall y, (length x mod 6 = 0)%nat -> full6 (x ++ y) = full6 x ++ full6 y.
Proof.
  induction x as [l Hl | a b c d e f r IH] using list_ind6; intros y H.
  - rewrite (sixes_short l Hl H). reflexivity.
  - cbn [app]. rewrite !full6_cons6. cbn [app]. f_equal. apply IH. eapply sixes_step; eauto.
Qed.

Lemma enc6_app_sixes x : forall y, (length x mod 6 = 0)%nat -> enc6 (x ++ y) = full6 x ++ enc6 y.
Proof.
  induction x as [l Hl | a b c d e f r IH] using list_ind6; intros y H.
  - rewrite (sixes_short l Hl H). reflexivity.
  - cbn [app]. rewrite enc6_cons6, full6_cons6. cbn [app]. f_equal. apply IH. eapply sixes_step; eauto.
Qed.

Lemma full6_app_prefix x : forall y, exists t, full6 (x ++ y) = full6 x ++ t.
Proof.
  induction x as [l Hl | a b c d e f r IH] using list_ind6; intros y.
  - rewrite (full6_short l Hl). eexists. reflexivity.
  - destruct (IH y) as [t Ht]. exists t. cbn [app]. rewrite !full6_cons6, Ht. reflexivity.
Qed.

Lemma length_full6 l : length (full6 l) = (length l / 6)%nat.
Proof.
  induction l as [l Hl | a b c d e f r IH] using list_ind6.
  - rewrite full6_short by exact Hl. rewrite Nat.div_small by exact Hl. reflexivity.
  - rewrite full6_cons6. simpl length. rewrite IH.
    replace (S (S (S (S (S (S (length r))))))) with (1 * 6 + length r)%nat by lia.
    rewrite Nat.div_add_l by lia. lia.
Qed.

Lemma skipn_full6 n : forall l, skipn n (full6 l) = full6 (skipn (6 * n) l).
Proof.
  induction n as [|n IH]; intros l; [reflexivity|].
  replace (6 * S n)%nat with (S (S (S (S (S (S (6 * n)))))))%nat by lia.
  destruct l as [|a [|b [|c [|d [|e [|f r]]]]]]; try reflexivity.
  rewrite full6_cons6. cbn [skipn]. apply IH.
Qed.

(* ---------- bit strings ---------- *)
Lemma bits_app x y : bits (x ++ y) = bits x ++ bits y.
Proof. unfold bits. apply flat_map_app. Qed.

Lemma bits_cons a x : bits (a :: x) = byte_bits a ++ bits x.
Proof. reflexivity. Qed.

Lemma length_bits x : length (bits x) = (8 * length x)%nat.
Proof. induction x as [|a x IH]; [reflexivity|]. rewrite bits_cons, app_length, IH. simpl length. lia. Qed.

(* ---------- octet sweeps (finite domain: 256 octets, 65536 pairs) ---------- *)
Definition octets : list N := map N.of_nat (seq 0 256).
Lemma In_octets a : a < 256 -> In a octets.
Proof.
  intros H. unfold octets. rewrite <- (N2Nat.id a). apply in_map. apply in_seq. lia.
Qed.
Lemma sweep1 (f : N -> bool) : forallb f octets = true -> forall a, byte_ok a = true -> f a = true.
Proof.
  intros H a Ha. rewrite forallb_forall in H. apply H. apply In_octets. apply N.ltb_lt. exact Ha.
Qed.
Lemma sweep2 (f : N -> N -> bool) :
  forallb (fun a => forallb (f a) octets) octets = true ->
  forall a b, byte_ok a = true -> byte_ok b = true -> f a b = true.
Proof.
  intros H a b Ha Hb. apply (sweep1 (f a)); [|exact Hb].
  apply (sweep1 (fun a => forallb (f a) octets)); assumption.
Qed.

Definition tb := N.testbit.
Lemma s1 a : byte_ok a = true ->
  sextet [tb a 7; tb a 6; tb a 5; tb a 4; tb a 3; tb a 2] = alpha (a / 4).
Proof.
  intros H. apply N.eqb_eq.
  apply (sweep1 (fun a => sextet [tb a 7; tb a 6; tb a 5; tb a 4; tb a 3; tb a 2] =? alpha (a / 4))); [|exact H].
  vm_compute. reflexivity.
Qed.
Lemma s2 a b : byte_ok a = true -> byte_ok b = true ->
  sextet [tb a 1; tb a 0; tb b 7; tb b 6; tb b 5; tb b 4] = alpha ((a mod 4) * 16 + b / 16).
Proof.
  intros Ha Hb. apply N.eqb_eq.
  apply (sweep2 (fun a b => sextet [tb a 1; tb a 0; tb b 7; tb b 6; tb b 5; tb b 4] =? alpha ((a mod 4) * 16 + b / 16)));
    [|exact Ha|exact Hb].
  vm_compute. reflexivity.
Qed.
Lemma s3 b c : byte_ok b = true -> byte_ok c = true ->
  sextet [tb b 3; tb b 2; tb b 1; tb b 0; tb c 7; tb c 6] = alpha ((b mod 16) * 4 + c / 64).
Proof.
  intros Ha Hb. apply N.eqb_eq.
  apply (sweep2 (fun b c => sextet [tb b 3; tb b 2; tb b 1; tb b 0; tb c 7; tb c 6] =? alpha ((b mod 16) * 4 + c / 64)));
    [|exact Ha|exact Hb].
  vm_compute. reflexivity.
Qed.
Lemma s4 c : byte_ok c = true ->
  sextet [tb c 5; tb c 4; tb c 3; tb c 2; tb c 1; tb c 0] = alpha (c mod 64).
Proof.
  intros H. apply N.eqb_eq.
  apply (sweep1 (fun c => sextet [tb c 5; tb c 4; tb c 3; tb c 2; tb c 1; tb c 0] =? alpha (c mod 64))); [|exact H].
  vm_compute. reflexivity.
Qed.
Lemma s5 a : byte_ok a = true ->
  sextet [tb a 1; tb a 0; false; false; false; false] = alpha ((a mod 4) * 16).
Proof.
  intros H. apply N.eqb_eq.
  apply (sweep1 (fun a => sextet [tb a 1; tb a 0; false; false; false; false] =? alpha ((a mod 4) * 16))); [|exact H].
  vm_compute. reflexivity.
Qed.
Lemma s6 b : byte_ok b = true ->
  sextet [tb b 3; tb b 2; tb b 1; tb b 0; false; false] = alpha ((b mod 16) * 4).
Proof.
  intros H. apply N.eqb_eq.
  apply (sweep1 (fun b => sextet [tb b 3; tb b 2; tb b 1; tb b 0; false; false] =? alpha ((b mod 16) * 4))); [|exact H].
  vm_compute. reflexivity.
Qed.

Lemma full6_chunk3 a b c : byte_ok a = true -> byte_ok b = true -> byte_ok c = true ->
  full6 (bits [a; b; c]) =
  [alpha (a / 4); alpha ((a mod 4) * 16 + b / 16); alpha ((b mod 16) * 4 + c / 64); alpha (c mod 64)].
Proof.
  intros Ha Hb Hc. rewrite <- (s1 a Ha), <- (s2 a b Ha Hb), <- (s3 b c Hb Hc), <- (s4 c Hc). reflexivity.
Qed.

Lemma bytes_ok_cons a x : bytes_ok (a :: x) = true <-> byte_ok a = true /\ bytes_ok x = true.
Proof. unfold bytes_ok. simpl. apply andb_true_iff. Qed.
Lemma bytes_ok_app x y : bytes_ok (x ++ y) = true <-> bytes_ok x = true /\ bytes_ok y = true.
Proof. unfold bytes_ok. rewrite forallb_app. apply andb_true_iff. Qed.

(* ---------- b64encode = RFC 4648 ---------- *)
Lemma rfc_step a b c r : rfc4648 (a :: b :: c :: r) = full6 (bits [a; b; c]) ++ rfc4648 r.
Proof.
  unfold rfc4648.
  change (a :: b :: c :: r) with ([a; b; c] ++ r). rewrite bits_app.
  rewrite enc6_app_sixes by reflexivity.
  rewrite app_length.
  replace (length (full6 (bits [a; b; c]))) with (1 * 4)%nat by reflexivity.
  rewrite (Nat.add_comm (1 * 4)), Nat.mod_add by lia.
  rewrite app_assoc. reflexivity.
Qed.

Theorem b64_rfc4648 : forall x, bytes_ok x = true -> b64 x = rfc4648 x.
Proof.
  induction x as [|a|a b|a b c r IH] using list_ind3; intros H.
  - reflexivity.
  - apply bytes_ok_cons in H. destruct H as [Ha _].
    cbn [b64]. rewrite <- (s1 a Ha), <- (s5 a Ha). reflexivity.
  - apply bytes_ok_cons in H. destruct H as [Ha H]. apply bytes_ok_cons in H. destruct H as [Hb _].
    cbn [b64]. rewrite <- (s1 a Ha), <- (s2 a b Ha Hb), <- (s6 b Hb). reflexivity.
  - apply bytes_ok_cons in H. destruct H as [Ha H]. apply bytes_ok_cons in H. destruct H as [Hb H].
    apply bytes_ok_cons in H. destruct H as [Hc H].
    rewrite rfc_step, full6_chunk3 by assumption. cbn [b64 app]. rewrite IH by exact H. reflexivity.
Qed.

(* the text consists of the complete groups, followed by what end_offsets cuts away *)
Lemma b64_full6 : forall x, bytes_ok x = true ->
  exists junk, b64 x = full6 (bits x) ++ junk /\ length junk = end_cut (length x mod 3)%nat.
Proof.
  induction x as [|a|a b|a b c r IH] using list_ind3; intros H.
  - exists []. split; reflexivity.
  - apply bytes_ok_cons in H. destruct H as [Ha _].
    exists [alpha ((a mod 4) * 16); 61; 61]. split; [|reflexivity].
    cbn [b64]. rewrite <- (s1 a Ha). reflexivity.
  - apply bytes_ok_cons in H. destruct H as [Ha H]. apply bytes_ok_cons in H. destruct H as [Hb _].
    exists [alpha ((b mod 16) * 4); 61]. split; [|reflexivity].
    cbn [b64]. rewrite <- (s1 a Ha), <- (s2 a b Ha Hb). reflexivity.
  - apply bytes_ok_cons in H. destruct H as [Ha H]. apply bytes_ok_cons in H. destruct H as [Hb H].
    apply bytes_ok_cons in H. destruct H as [Hc H].
    destruct (IH H) as [junk [E L]]. exists junk. split.
    + change (a :: b :: c :: r) with ([a; b; c] ++ r). rewrite bits_app.
      rewrite full6_app_sixes by reflexivity. rewrite full6_chunk3 by assumption.
      cbn [b64 app]. rewrite E. reflexivity.
    + rewrite L. simpl length.
      replace (S (S (S (length r)))) with (length r + 1 * 3)%nat by lia.
      rewrite Nat.mod_add by lia. reflexivity.
Qed.

(* ---------- the slices of base64offset ---------- *)
Lemma py_slice_junk a F junk :
  py_slice a (length junk) (F ++ junk) = skipn a F.
Proof.
  unfold py_slice. rewrite app_length.
  replace (length F + length junk - length junk - a)%nat with (length F - a)%nat by lia.
  destruct (Nat.le_gt_cases a (length F)) as [Hle | Hgt].
  - rewrite skipn_app. replace (a - length F)%nat with 0%nat by lia. cbn [skipn].
    rewrite firstn_app. rewrite skipn_length.
    replace (length F - a - (length F - a))%nat with 0%nat by lia.
    rewrite firstn_O, app_nil_r. apply firstn_all2. rewrite skipn_length. lia.
  - replace (length F - a)%nat with 0%nat by lia. rewrite firstn_O.
    symmetry. apply skipn_all2. lia.
Qed.

Lemma bytes_ok_spaces i : bytes_ok (repeat 32 i) = true.
Proof. induction i; [reflexivity|]. simpl repeat. apply bytes_ok_cons. split; [reflexivity | exact IHi]. Qed.

Theorem variant_payload_text : forall i p, (i < 3)%nat -> bytes_ok p = true ->
  variant i p = payload_text i p.
Proof.
  intros i p Hi Hp. unfold variant, payload_text.
  assert (Hx : bytes_ok (repeat 32 i ++ p) = true)
    by (apply bytes_ok_app; split; [apply bytes_ok_spaces | exact Hp]).
  destruct (b64_full6 _ Hx) as [junk [E L]]. rewrite E.
  rewrite app_length, repeat_length, (Nat.add_comm i) in L. rewrite <- L.
  rewrite py_slice_junk, skipn_full6, bits_app.
  destruct i as [|[|[|i]]]; try lia; reflexivity.
Qed.

Lemma sextet_not_pad g : sextet g <> c_pad.
Proof.
  unfold sextet. intros H.
  destruct (nth_in_or_default (N.to_nat (bits_val g)) alphabet 0) as [Hin | Hd].
  - rewrite H in Hin. apply mem_In in Hin. vm_compute in Hin. discriminate.
  - rewrite H in Hd. discriminate.
Qed.

Theorem payload_text_no_padding i p : ~ In c_pad (payload_text i p).
Proof.
  unfold payload_text, full6. intros H. apply in_map_iff in H. destruct H as [g [Hg _]].
  exact (sextet_not_pad g Hg).
Qed.

(* ---------- occurrence at every alignment ---------- *)
Theorem payload_text_occurs : forall i pre p suf,
  (length pre mod 3 = i)%nat -> p <> [] -> bytes_ok (pre ++ p ++ suf) = true ->
  occurs_at (4 * (length pre / 3) + start_off i) (payload_text i p) (b64 (pre ++ p ++ suf)).
Proof.
  intros i pre p suf Hi Hne Hok.
  destruct (b64_full6 _ Hok) as [junk [E _]].
  rewrite !bits_app in E.
  set (k := lead_bits i) in *.
  assert (Hk : (k <= length (bits p))%nat).
  { rewrite length_bits. destruct p; [congruence|]. simpl length.
    unfold k, lead_bits. destruct i as [|[|i]]; lia. }
  rewrite <- (firstn_skipn k (bits p)) in E.
  rewrite <- app_assoc in E. rewrite (app_assoc (bits pre)) in E.
  assert (HA : length (bits pre ++ firstn k (bits p)) = (6 * (4 * (length pre / 3) + start_off i))%nat).
  { rewrite app_length, firstn_length, length_bits, Nat.min_l by exact Hk.
    pose proof (Nat.div_mod (length pre) 3 ltac:(lia)) as D. rewrite Hi in D.
    assert (i < 3)%nat by (rewrite <- Hi; apply Nat.mod_upper_bound; lia).
    unfold k, lead_bits, start_off. destruct i as [|[|[|i]]]; lia. }
  rewrite full6_app_sixes in E
    by (rewrite HA, Nat.mul_comm; apply Nat.mod_mul; lia).
  destruct (full6_app_prefix (skipn k (bits p)) (bits suf)) as [t Ht]. rewrite Ht in E.
  exists (full6 (bits pre ++ firstn k (bits p))), (t ++ junk). split.
  - rewrite E. unfold payload_text. fold k. rewrite <- !app_assoc. reflexivity.
  - rewrite length_full6, HA, Nat.mul_comm, Nat.div_mul by lia. reflexivity.
Qed.

Lemma variant_empty i : (i < 3)%nat -> variant i [] = [].
Proof. intros H. destruct i as [|[|[|i]]]; try lia; reflexivity. Qed.

Theorem offset_hit : forall pre p suf, bytes_ok (pre ++ p ++ suf) = true ->
  exists i, (i < 3)%nat /\ infix (variant i p) (b64 (pre ++ p ++ suf)).
Proof.
  intros pre p suf Hok. exists (length pre mod 3)%nat.
  assert (Hi : (length pre mod 3 < 3)%nat) by (apply Nat.mod_upper_bound; lia).
  split; [exact Hi|].
  destruct p as [|b p'].
  - rewrite variant_empty by exact Hi. exists [], (b64 (pre ++ [] ++ suf)). reflexivity.
  - assert (Hp : bytes_ok (b :: p') = true).
    { apply bytes_ok_app in Hok. destruct Hok as [_ H]. apply bytes_ok_app in H. tauto. }
    rewrite variant_payload_text by assumption.
    destruct (payload_text_occurs _ pre (b :: p') suf eq_refl ltac:(discriminate) Hok) as [a [c [E _]]].
    exists a, c. exact E.
Qed.

(* the same two statements with the modifier's slices as needles and RFC 4648 as haystack *)
Theorem offset_hit_rfc : forall pre p suf, bytes_ok (pre ++ p ++ suf) = true ->
  exists i, (i < 3)%nat /\ infix (variant i p) (rfc4648 (pre ++ p ++ suf)).
Proof.
  intros pre p suf Hok. rewrite <- b64_rfc4648 by exact Hok. apply offset_hit, Hok.
Qed.

Theorem offset_payload_only_rfc : forall i pre p suf,
  (length pre mod 3 = i)%nat -> p <> [] -> bytes_ok (pre ++ p ++ suf) = true ->
  occurs_at (4 * (length pre / 3) + start_off i) (variant i p) (rfc4648 (pre ++ p ++ suf)).
Proof.
  intros i pre p suf Hi Hne Hok.
  assert (Hp : bytes_ok p = true).
  { apply bytes_ok_app in Hok. destruct Hok as [_ H]. apply bytes_ok_app in H. tauto. }
  assert (Hi3 : (i < 3)%nat) by (rewrite <- Hi; apply Nat.mod_upper_bound; lia).
  rewrite variant_payload_text by assumption. rewrite <- b64_rfc4648 by exact Hok.
  apply payload_text_occurs; assumption.
Qed.

(* the boolean search used by the correspondence judge decides "occurs in" *)
Lemma infixb_spec v t : infixb v t = true <-> infix v t.
Proof.
  induction t as [|x t IH]; simpl.
  - rewrite orb_false_r, prefixb_spec. split.
    + intros [r Hr]. exists [], r. exact Hr.
    + intros [a [b H]]. destruct a; [|discriminate]. exists b. exact H.
  - rewrite orb_true_iff, prefixb_spec, IH. split.
    + intros [[r Hr] | [a [b H]]].
      * exists [], r. exact Hr.
      * exists (x :: a), b. rewrite H. reflexivity.
    + intros [a [b H]]. destruct a as [|y a].
      * left. exists b. exact H.
      * right. inversion H; subst. exists a, b. reflexivity.
Qed.
