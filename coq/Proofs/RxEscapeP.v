From Coq Require Import NArith List Bool Lia.
From PS Require Import Base.Chars Model.RxEscape.
Import ListNotations.
Local Open Scope nat_scope.

(* single-character configuration: escape character e, escaped characters cs (e among them) *)
Definition esc1 (e : char) (cs : str) (c : char) : str := if mem c cs then [e; c] else [c].

Lemma first_alt_single cs c s :
  first_alt (map (fun x => [x]) cs) (c :: s) = if mem c cs then Some [c] else None.
Proof.
  induction cs as [|x cs IH]; simpl; [reflexivity|].
  rewrite andb_true_r. rewrite N.eqb_sym. destruct (N.eqb c x) eqn:E.
  - apply N.eqb_eq in E. subst x. reflexivity.
  - simpl. exact IH.
Qed.

Lemma rx_scan_single e cs s : forall fuel, length s < fuel ->
  rx_scan fuel (map (fun x => [x]) cs) [e] s = flat_map (esc1 e cs) s.
Proof.
  induction s as [|c s IH]; intros [|f] Hf; try (simpl in Hf; lia); [reflexivity|].
  cbn [rx_scan flat_map]. rewrite first_alt_single. unfold esc1 at 1.
  destruct (mem c cs); cbn [app length skipn]; rewrite IH by (simpl in Hf; lia); reflexivity.
Qed.

Lemma rx_unscan_single e cs s : mem e cs = true -> forall fuel, length (flat_map (esc1 e cs) s) < fuel ->
  rx_unscan fuel (map (fun x => [x]) cs) [e] (flat_map (esc1 e cs) s) = s.
Proof.
  intros He. induction s as [|c s IH]; intros [|f] Hf; try (simpl in Hf; lia); [reflexivity|].
  cbn [flat_map]. unfold esc1 at 1. destruct (mem c cs) eqn:Ec.
  - cbn [app rx_unscan prefixb]. rewrite N.eqb_refl. cbn [andb length skipn].
    rewrite first_alt_single, Ec. cbn [app length skipn Nat.add].
    rewrite IH; [reflexivity|]. cbn [flat_map] in Hf. unfold esc1 at 1 in Hf. rewrite Ec in Hf. simpl in Hf. lia.
  - cbn [app rx_unscan prefixb].
    assert (Hne: N.eqb e c = false).
    { destruct (N.eqb e c) eqn:E; auto. apply N.eqb_eq in E. subst c. congruence. }
    rewrite Hne. cbn [andb].
    rewrite IH; [reflexivity|]. cbn [flat_map] in Hf. unfold esc1 at 1 in Hf. rewrite Ec in Hf. simpl in Hf. lia.
Qed.

(* For single-character escape sets that include the escape character itself, reading the escaped
   regular expression by the target's rule gives the source regular expression back, for every text. *)
Lemma rx_body_single e (cs' : str) s : cs' <> [] ->
  (match map (fun x : char => [x]) cs' with
   | [] => s
   | _ => if forallb (fun a : str => match a with [] => true | _ => false end) (map (fun x : char => [x]) cs')
          then s else rx_scan (S (length s)) (map (fun x : char => [x]) cs') [e] s
   end) = flat_map (esc1 e cs') s.
Proof.
  intros Hne. destruct cs' as [|x r]; [congruence|]. cbn [map forallb andb].
  change ([x] :: map (fun x0 : char => [x0]) r) with (map (fun x0 : char => [x0]) (x :: r)).
  apply rx_scan_single. lia.
Qed.

Lemma rx_escape_single e cs s :
  rx_escape (map (fun x => [x]) cs) [e] true false [] s = flat_map (esc1 e (cs ++ [e])) s.
Proof.
  unfold rx_escape, rx_alts, rx_prefix. cbv zeta. cbn [app].
  change [[e]] with (map (fun x : char => [x]) [e]). rewrite <- map_app.
  apply rx_body_single. destruct cs; discriminate.
Qed.

Theorem rx_escape_roundtrip e cs s :
  rx_unescape (map (fun x => [x]) cs) [e] true
              (rx_escape (map (fun x => [x]) cs) [e] true false [] s) = s.
Proof.
  rewrite rx_escape_single. unfold rx_unescape, rx_alts.
  change [[e]] with (map (fun x : char => [x]) [e]). rewrite <- map_app.
  apply rx_unscan_single; [|lia].
  unfold mem. rewrite existsb_app. simpl. rewrite N.eqb_refl. rewrite orb_true_r. reflexivity.
Qed.

