(* C02 - proofs about the condition parser model:
   lexer vs layout relation, fuel monotonicity and adequacy, tree/bool homomorphism,
   completeness of the PEG for the stratified grammar (architecture of .prototypes/Prec.v). *)
From Coq Require Import NArith List Bool Arith Lia.
From PS Require Import Base.Chars Base.Outcome Model.CondParse Spec.Glob Spec.CondGrammar.
Import ListNotations.
Open Scope N_scope.

(* ====================== lexer ====================== *)
Lemma lex_word w : forallb is_wordc w = true -> forall s cur, lex (w ++ s) cur = lex s (rev w ++ cur).
Proof.
  induction w as [|c w IH]; simpl; intros H s cur; [reflexivity|].
  apply andb_true_iff in H. destruct H as [H1 H2]. rewrite H1, IH by assumption.
  rewrite <- app_assoc. reflexivity.
Qed.

Lemma blank_not_word c : is_blank c = true -> is_wordc c = false.
Proof.
  unfold is_blank. rewrite !orb_true_iff, !N.eqb_eq. intros [[[->| ->]| ->]| ->]; reflexivity.
Qed.

Lemma omap_flush_nil (x : outcome (list tok)) : omap (flush []) x = x.
Proof. destruct x; reflexivity. Qed.

Lemma lex_blanks ws : forallb is_blank ws = true -> ws <> [] ->
  forall s cur, lex (ws ++ s) cur = omap (flush cur) (lex s []).
Proof.
  induction ws as [|c ws IH]; [congruence|]. simpl. intros H _ s cur.
  apply andb_true_iff in H. destruct H as [H1 H2].
  rewrite (blank_not_word _ H1), H1.
  destruct ws as [|b ws'].
  - reflexivity.
  - rewrite (IH H2) by discriminate. rewrite omap_flush_nil. reflexivity.
Qed.

Lemma lex_blanks0 ws : forallb is_blank ws = true -> forall s, lex (ws ++ s) [] = lex s [].
Proof.
  intros H s. destruct ws as [|c ws]; [reflexivity|].
  rewrite lex_blanks by (auto; discriminate). apply omap_flush_nil.
Qed.

Lemma lex_only_blanks ws cur : forallb is_blank ws = true -> lex ws cur = Ok (flush cur []).
Proof.
  intros H. destruct ws as [|c ws]; [reflexivity|].
  rewrite <- (app_nil_r (c :: ws)). rewrite lex_blanks by (auto; discriminate). reflexivity.
Qed.

Lemma flush_rev w ts : w <> [] -> flush (rev w) ts = TW w :: ts.
Proof.
  intros H. unfold flush. destruct (rev w) eqn:E.
  - exfalso. apply H. apply (f_equal (@rev _)) in E. rewrite rev_involutive in E. exact E.
  - rewrite <- E, rev_involutive. reflexivity.
Qed.

Lemma lex_lay b ts s : Lay b ts s ->
  forall cur, (cur <> [] -> b = true) -> lex s cur = Ok (flush cur ts).
Proof.
  induction 1 as [b ws Hb | b ws w ts s Hb Hsep [Hw1 Hw2] HL IH | b ws ts s Hb HL IH | b ws ts s Hb HL IH];
    intros cur Hc.
  - apply lex_only_blanks. exact Hb.
  - assert (W : lex (w ++ s) [] = Ok (TW w :: ts)).
    { rewrite lex_word by assumption. rewrite app_nil_r, IH by (intros; reflexivity).
      rewrite flush_rev by assumption. reflexivity. }
    destruct ws as [|c ws].
    + assert (cur = []) as ->.
      { destruct cur; [reflexivity|]. exfalso. assert (b = true) by (apply Hc; discriminate).
        apply Hsep; auto. }
      simpl. exact W.
    + rewrite lex_blanks by (auto; discriminate). rewrite W. reflexivity.
  - assert (W : forall cur, lex (c_lpar :: s) cur = Ok (flush cur (TL :: ts))).
    { intros cur'. cbn [lex]. change (is_wordc c_lpar) with false. change (is_blank c_lpar) with false.
      cbv iota. change (c_lpar =? c_lpar) with true. cbv iota.
      rewrite IH by congruence. reflexivity. }
    destruct ws as [|c ws].
    + simpl app. apply W.
    + rewrite lex_blanks by (auto; discriminate). rewrite W. reflexivity.
  - assert (W : forall cur, lex (c_rpar :: s) cur = Ok (flush cur (TR :: ts))).
    { intros cur'. cbn [lex]. change (is_wordc c_rpar) with false. change (is_blank c_rpar) with false.
      cbv iota. change (c_rpar =? c_lpar) with false. change (c_rpar =? c_rpar) with true. cbv iota.
      rewrite IH by congruence. reflexivity. }
    destruct ws as [|c ws].
    + simpl app. apply W.
    + rewrite lex_blanks by (auto; discriminate). rewrite W. reflexivity.
Qed.

Theorem lex_layout ts s : Lay false ts s -> lex s [] = Ok ts.
Proof. intros H. apply (lex_lay _ _ _ H []). congruence. Qed.

(* ====================== fuel: monotonicity and adequacy (any algebra) ====================== *)
Section Fuel.
  Context {A : Type}.
  Variable a_id : str -> A.
  Variable a_sel : quant -> str -> A.
  Variable a_not : A -> A.
  Variable a_bin : bop -> list A -> A.
  Notation pe' := (pe a_id a_sel a_not a_bin).
  Notation loop' := (loop a_id a_sel a_not a_bin).

  Lemma pe_S f i ts : pe' (S f) i ts =
    match i with
    | 0%nat =>
        match sel a_sel ts with
        | Some x => Done x
        | None =>
            match ts with
            | TW w :: r => if is_ident w then Done (a_id w, r) else Fail
            | TL :: r =>
                match pe' f 3 r with
                | Done (v, TR :: r') => Done (v, r')
                | Done _ => Fail
                | Fail => Fail
                | OutOfFuel => OutOfFuel
                end
            | _ => Fail
            end
        end
    | 1%nat =>
        match ts with
        | TW w :: r =>
            if str_eqb w w_not then
              match pe' f 1 r with
              | Done (v, r') => Done (a_not v, r')
              | Fail => pe' f 0 ts
              | OutOfFuel => OutOfFuel
              end
            else pe' f 0 ts
        | _ => pe' f 0 ts
        end
    | S k =>
        match pe' f k ts with
        | Done (v, r) => loop' f (lvl_op k) k [v] r
        | Fail => Fail
        | OutOfFuel => OutOfFuel
        end
    end.
  Proof. reflexivity. Qed.

  Lemma loop_S f o k acc r : loop' (S f) o k acc r =
    match r with
    | TW w :: r' =>
        if str_eqb w (opw o) then
          match pe' f k r' with
          | Done (v', r'') => loop' f o k (v' :: acc) r''
          | Fail => Done (fin a_bin o (rev acc), r)
          | OutOfFuel => OutOfFuel
          end
        else Done (fin a_bin o (rev acc), r)
    | _ => Done (fin a_bin o (rev acc), r)
    end.
  Proof. reflexivity. Qed.

  Lemma mono : forall f,
    (forall i ts f', pe' f i ts <> OutOfFuel -> (f <= f')%nat -> pe' f' i ts = pe' f i ts) /\
    (forall o k acc r f', loop' f o k acc r <> OutOfFuel -> (f <= f')%nat ->
                          loop' f' o k acc r = loop' f o k acc r).
  Proof.
    induction f as [|f [IHp IHl]]; split; intros; try (exfalso; apply H; reflexivity).
    - destruct f' as [|f']; [lia|]. assert (Hle : (f <= f')%nat) by lia.
      rewrite pe_S in H. rewrite !pe_S. destruct i as [|[|k]].
      + destruct (sel a_sel ts); [reflexivity|].
        destruct ts as [|[w| |] r]; try reflexivity.
        destruct (pe' f 3 r) as [[v r']| |] eqn:E.
        * rewrite (IHp 3%nat r f') by first [assumption | rewrite E; discriminate]. rewrite E. reflexivity.
        * rewrite (IHp 3%nat r f') by first [assumption | rewrite E; discriminate]. rewrite E. reflexivity.
        * exfalso. apply H. reflexivity.
      + destruct ts as [|[w| |] r]; try (apply IHp; assumption).
        destruct (str_eqb w w_not); [|apply IHp; assumption].
        destruct (pe' f 1 r) as [[v r']| |] eqn:E.
        * rewrite (IHp 1%nat r f') by first [assumption | rewrite E; discriminate]. rewrite E. reflexivity.
        * rewrite (IHp 1%nat r f') by first [assumption | rewrite E; discriminate]. rewrite E.
          apply IHp; assumption.
        * exfalso. apply H. reflexivity.
      + destruct (pe' f (S k) ts) as [[v r]| |] eqn:E.
        * rewrite (IHp (S k) ts f') by first [assumption | rewrite E; discriminate]. rewrite E.
          apply IHl; assumption.
        * rewrite (IHp (S k) ts f') by first [assumption | rewrite E; discriminate]. rewrite E. reflexivity.
        * exfalso. apply H. reflexivity.
    - destruct f' as [|f']; [lia|]. assert (Hle : (f <= f')%nat) by lia.
      rewrite loop_S in H. rewrite !loop_S. destruct r as [|[w| |] r']; try reflexivity.
      destruct (str_eqb w (opw o)); [|reflexivity].
      destruct (pe' f k r') as [[v' r'']| |] eqn:E.
      + rewrite (IHp k r' f') by first [assumption | rewrite E; discriminate]. rewrite E. apply IHl; assumption.
      + rewrite (IHp k r' f') by first [assumption | rewrite E; discriminate]. rewrite E. reflexivity.
      + exfalso. apply H. reflexivity.
  Qed.

  Lemma pe_mono f f' i ts x : pe' f i ts = Done x -> (f <= f')%nat -> pe' f' i ts = Done x.
  Proof. intros H Hle. rewrite (proj1 (mono f)); auto. rewrite H. discriminate. Qed.
  Lemma loop_mono f f' o k acc r x : loop' f o k acc r = Done x -> (f <= f')%nat -> loop' f' o k acc r = Done x.
  Proof. intros H Hle. rewrite (proj2 (mono f)); auto. rewrite H. discriminate. Qed.

  Lemma sel_len ts v r : sel a_sel ts = Some (v, r) -> (length r < length ts)%nat.
  Proof.
    unfold sel. destruct ts as [|[q| |] [|[o| |] r0]]; try discriminate.
    destruct (quant_of q); [|discriminate].
    destruct (str_eqb o w_of).
    - destruct r0 as [|[p| |] r']; try discriminate. destruct (is_pat p); [|discriminate].
      intros H; inversion H; subst. simpl. lia.
    - destruct o as [|c1 [|c2 [|c3 p']]]; try discriminate.
      destruct ((c1 =? 111) && (c2 =? 102) && (c3 =? c_star) && forallb is_patc p'); [|discriminate].
      intros H; inversion H; subst. simpl. lia.
  Qed.

  (* enough fuel: never OutOfFuel, and a successful parse consumes at least one token *)
  Lemma adequate : forall f,
    (forall i ts, (i <= 3)%nat -> (4 * length ts + i + 1 <= f)%nat ->
       pe' f i ts <> OutOfFuel /\ forall v r, pe' f i ts = Done (v, r) -> (length r < length ts)%nat) /\
    (forall o k acc r, (k <= 2)%nat -> (4 * length r + 4 <= f)%nat ->
       loop' f o k acc r <> OutOfFuel /\ forall v r', loop' f o k acc r = Done (v, r') -> (length r' <= length r)%nat).
  Proof.
    induction f as [|f [IHp IHl]]; split; intros; try lia.
    - rewrite pe_S. destruct i as [|[|k]].
      + destruct (sel a_sel ts) as [[v0 r0]|] eqn:Es.
        * split; [discriminate|]. intros v r E. inversion E; subst. eapply sel_len; eauto.
        * destruct ts as [|[w| |] r0]; try (split; [discriminate|intros; discriminate]).
          -- destruct (is_ident w); split; try discriminate. intros v r E. inversion E; subst. simpl. lia.
          -- simpl length in *. destruct (IHp 3%nat r0) as [N P]; [lia|lia|].
             destruct (pe' f 3 r0) as [[v [|[w| |] r']]| |] eqn:E; try (split; [discriminate|intros; discriminate]).
             ++ split; [discriminate|]. intros v0 r1 E1. inversion E1; subst.
                specialize (P _ _ eq_refl). simpl in P. lia.
             ++ exfalso. apply N. reflexivity.
      + assert (B : pe' f 0 ts <> OutOfFuel /\ forall v r, pe' f 0 ts = Done (v, r) -> (length r < length ts)%nat)
          by (apply IHp; lia).
        destruct ts as [|[w| |] r0]; try exact B.
        destruct (str_eqb w w_not); [|exact B].
        simpl length in *. destruct (IHp 1%nat r0) as [N P]; [lia|lia|].
        destruct (pe' f 1 r0) as [[v r']| |] eqn:E.
        * split; [discriminate|]. intros v0 r1 E1. inversion E1; subst. specialize (P _ _ eq_refl). lia.
        * exact B.
        * exfalso. apply N. reflexivity.
      + destruct (IHp (S k) ts) as [N P]; [lia|lia|].
        destruct (pe' f (S k) ts) as [[v r]| |] eqn:E.
        * specialize (P _ _ eq_refl).
          destruct (IHl (lvl_op (S k)) (S k) [v] r) as [N2 P2]; [lia|lia|].
          split; [exact N2|]. intros v0 r1 E1. specialize (P2 _ _ E1). lia.
        * split; [discriminate|intros; discriminate].
        * exfalso. apply N. reflexivity.
    - rewrite loop_S. destruct r as [|[w| |] r']; try (split; [discriminate|]; intros v r1 E; inversion E; subst; lia).
      destruct (str_eqb w (opw o)); [|split; [discriminate|]; intros v r1 E; inversion E; subst; lia].
      simpl length in *. destruct (IHp k r') as [N P]; [lia|lia|].
      destruct (pe' f k r') as [[v' r'']| |] eqn:E.
      + specialize (P _ _ eq_refl).
        destruct (IHl o k (v' :: acc) r'') as [N2 P2]; [lia|lia|].
        split; [exact N2|]. intros v0 r1 E1. specialize (P2 _ _ E1). lia.
      + split; [discriminate|]. intros v r1 E1. inversion E1; subst. simpl. lia.
      + exfalso. apply N. reflexivity.
  Qed.

  Lemma parse_toks_fuel ts : parse_toks a_id a_sel a_not a_bin ts <> OutOfFuel.
  Proof.
    unfold parse_toks.
    destruct (proj1 (adequate (fuel_for ts)) 3%nat ts) as [N _]; [lia|unfold fuel_for; lia|].
    destruct (pe' (fuel_for ts) 3 ts) as [[v [|t r]]| |]; try discriminate. exfalso. apply N. reflexivity.
  Qed.

  (* any fuel that yields a result yields the result of the entry point *)

  Lemma parse_toks_of_pe ts f v : pe' f 3 ts = Done (v, []) -> parse_toks a_id a_sel a_not a_bin ts = Done v.
  Proof.
    intros H. unfold parse_toks.
    destruct (proj1 (adequate (fuel_for ts)) 3%nat ts) as [N _]; [lia|unfold fuel_for; lia|].
    pose proof (proj1 (mono (fuel_for ts)) 3%nat ts (Nat.max f (fuel_for ts)) N (Nat.le_max_r _ _)) as E1.
    pose proof (pe_mono f (Nat.max f (fuel_for ts)) 3%nat ts _ H (Nat.le_max_l _ _)) as E2.
    rewrite <- E1, E2. reflexivity.
  Qed.
End Fuel.

(* ====================== folding trees / expressions in an algebra ====================== *)
(* The parser is run in an arbitrary algebra (A, a_id, a_sel, a_not, a_bin); foldt folds a parse
   tree with its n-ary nodes, folde folds an expression with the binary operation e_bin. *)
Section Fold.
  Context {A : Type}.
  Variable a_id : str -> A.
  Variable a_sel : quant -> str -> A.
  Variable a_not : A -> A.
  Variable a_bin : bop -> list A -> A.
  Variable e_bin : bop -> A -> A -> A.

  Fixpoint foldt (t : ptree) : A :=
    match t with
    | PId n => a_id n
    | PSel q p => a_sel q p
    | PNot a => a_not (foldt a)
    | PAnd l => a_bin BAnd (map foldt l)
    | POr l => a_bin BOr (map foldt l)
    end.

  Fixpoint folde (e : expr) : A :=
    match e with
    | EId n => a_id n
    | ESel q p => a_sel q p
    | ENot a => a_not (folde a)
    | EAnd a b => e_bin BAnd (folde a) (folde b)
    | EOr a b => e_bin BOr (folde a) (folde b)
    end.
End Fold.

(* the parser run in any algebra = the tree parser followed by the fold *)
Section Hom.
  Context {A : Type}.
  Variable a_id : str -> A.
  Variable a_sel : quant -> str -> A.
  Variable a_not : A -> A.
  Variable a_bin : bop -> list A -> A.
  Notation pet := (pe PId PSel PNot t_bin).
  Notation loopt := (loop PId PSel PNot t_bin).
  Notation pea := (pe a_id a_sel a_not a_bin).
  Notation loopa := (loop a_id a_sel a_not a_bin).
  Notation h := (foldt a_id a_sel a_not a_bin).

  Definition mapres (x : pres (ptree * list tok)) : pres (A * list tok) :=
    match x with Done (v, r) => Done (h v, r) | Fail => Fail | OutOfFuel => OutOfFuel end.

  Lemma bin_hom o l : h (t_bin o l) = a_bin o (map h l).
  Proof. destruct o; reflexivity. Qed.

  Lemma fin_hom o l : h (fin t_bin o l) = fin a_bin o (map h l).
  Proof.
    destruct l as [|x [|y l]]; cbn [fin map]; try reflexivity; apply bin_hom.
  Qed.

  Lemma sel_hom ts :
    sel a_sel ts = match sel PSel ts with Some (v, r) => Some (h v, r) | None => None end.
  Proof.
    unfold sel. destruct ts as [|[q| |] [|[o| |] r0]]; try reflexivity.
    destruct (quant_of q); [|reflexivity].
    destruct (str_eqb o w_of).
    - destruct r0 as [|[p| |] r']; try reflexivity. destruct (is_pat p); reflexivity.
    - destruct o as [|c1 [|c2 [|c3 p']]]; try reflexivity.
      destruct ((c1 =? 111) && (c2 =? 102) && (c3 =? c_star) && forallb is_patc p'); reflexivity.
  Qed.

  Lemma pe_hom : forall f,
    (forall i ts, pea f i ts = mapres (pet f i ts)) /\
    (forall o k acc r, loopa f o k (map h acc) r = mapres (loopt f o k acc r)).
  Proof.
    induction f as [|f [IHp IHl]]; split; intros; try reflexivity.
    - rewrite !pe_S. destruct i as [|[|k]].
      + rewrite sel_hom. destruct (sel PSel ts) as [[v r]|]; [reflexivity|].
        destruct ts as [|[w| |] r]; try reflexivity.
        * destruct (is_ident w); reflexivity.
        * rewrite IHp. destruct (pet f 3 r) as [[v [|[w| |] r']]| |]; reflexivity.
      + destruct ts as [|[w| |] r]; try apply IHp.
        destruct (str_eqb w w_not); [|apply IHp].
        rewrite IHp. destruct (pet f 1 r) as [[v r']| |]; try reflexivity. apply IHp.
      + rewrite IHp. destruct (pet f (S k) ts) as [[v r]| |]; try reflexivity.
        apply (IHl (lvl_op (S k)) (S k) [v] r).
    - rewrite !loop_S. rewrite <- map_rev, <- fin_hom.
      destruct r as [|[w| |] r']; try reflexivity.
      destruct (str_eqb w (opw o)); [|reflexivity].
      rewrite IHp. destruct (pet f k r') as [[v' r'']| |]; try reflexivity.
      apply (IHl o k (v' :: acc) r'').
  Qed.
End Hom.

(* ====================== completeness of the PEG for the stratified grammar ====================== *)
Section Complete.
  Context {A : Type}.
  Variable vid : str -> A.
  Variable vsel : quant -> str -> A.
  Variable negb : A -> A.
  Variable b_bin : bop -> list A -> A.
  Variable e_bin : bop -> A -> A -> A.
  (* the laws that tie the n-ary nodes of the parser to the binary operators of the grammar *)
  Hypothesis law1 : forall o x, b_bin o [x] = x.
  Hypothesis law2 : forall o l v, l <> [] -> b_bin o (l ++ [v]) = e_bin o (b_bin o l) v.
  Notation peb := (pe vid vsel negb b_bin).
  Notation loopb := (loop vid vsel negb b_bin).
  Notation selb := (sel vsel).
  Notation sm := (folde vid vsel negb e_bin).

  Definition PE (i : nat) (ts : list tok) (v : A) (r : list tok) : Prop :=
    exists f, peb f i ts = Done (v, r).
  Definition LOOP (o : bop) (k : nat) (acc : list A) (r : list tok) (v : A) (r' : list tok) : Prop :=
    exists f, loopb f o k acc r = Done (v, r').

  Definition hd_word (w : str) (ts : list tok) : Prop :=
    match ts with TW x :: _ => x = w | _ => False end.

  Lemma fin_b o l : fin b_bin o l = b_bin o l.
  Proof. destruct l as [|x [|y l]]; try reflexivity. cbn [fin]. symmetry. apply law1. Qed.

  Lemma str_eqb_neq a b : a <> b -> str_eqb a b = false.
  Proof. intros H. destruct (str_eqb a b) eqn:E; [|reflexivity]. apply str_eqb_eq in E. contradiction. Qed.

  (* ---------- combinators ---------- *)
  Lemma PE_sel ts v r : selb ts = Some (v, r) -> PE 0 ts v r.
  Proof. intros H. exists 1%nat. rewrite pe_S, H. reflexivity. Qed.

  Lemma PE_id w r : selb (TW w :: r) = None -> is_ident w = true -> PE 0 (TW w :: r) (vid w) r.
  Proof. intros H1 H2. exists 1%nat. rewrite pe_S, H1, H2. reflexivity. Qed.

  Lemma PE_par ts v r : PE 3 ts v (TR :: r) -> PE 0 (TL :: ts) v r.
  Proof. intros [f H]. exists (S f). rewrite pe_S. cbn [sel]. rewrite H. reflexivity. Qed.

  Lemma PE_not ts v r : PE 1 ts v r -> PE 1 (TW w_not :: ts) (negb v) r.
  Proof.
    intros [f H]. exists (S f). rewrite pe_S. rewrite str_eqb_refl, H. reflexivity.
  Qed.

  Lemma PE_01 ts v r : PE 0 ts v r -> ~ hd_word w_not ts -> PE 1 ts v r.
  Proof.
    intros [f H] Hh. exists (S f). rewrite pe_S. destruct ts as [|[w| |] r0]; auto.
    rewrite str_eqb_neq; auto.
  Qed.

  Lemma PE_bin k ts v r v' r' : PE (S k) ts v r -> LOOP (lvl_op (S k)) (S k) [v] r v' r' -> PE (S (S k)) ts v' r'.
  Proof.
    intros [f1 H1] [f2 H2]. exists (S (f1 + f2)). rewrite pe_S.
    rewrite (pe_mono _ _ _ _ _ (f1 + f2)%nat _ _ _ H1) by lia.
    apply (loop_mono _ _ _ _ _ (f1 + f2)%nat _ _ _ _ _ H2). lia.
  Qed.

  Lemma LOOP_stop o k acc r : ~ hd_word (opw o) r -> LOOP o k acc r (fin b_bin o (rev acc)) r.
  Proof.
    intros Hh. exists 1%nat. rewrite loop_S. destruct r as [|[w| |] r']; auto.
    rewrite str_eqb_neq; auto.
  Qed.

  Lemma LOOP_step o k acc r1 v1 r2 v r' :
    PE k r1 v1 r2 -> LOOP o k (v1 :: acc) r2 v r' -> LOOP o k acc (TW (opw o) :: r1) v r'.
  Proof.
    intros [f1 H1] [f2 H2]. exists (S (f1 + f2)). rewrite loop_S, str_eqb_refl.
    rewrite (pe_mono _ _ _ _ _ (f1 + f2)%nat _ _ _ H1) by lia.
    apply (loop_mono _ _ _ _ _ (f1 + f2)%nat _ _ _ _ _ H2). lia.
  Qed.

  (* ---------- where parsing at level i may stop ---------- *)
  Definition stops (i : nat) (rest : list tok) : Prop :=
    match rest with
    | [] => True
    | TR :: _ => True
    | TW w :: _ => (w = w_and /\ (i < 2)%nat) \/ (w = w_or /\ (i < 3)%nat)
    | TL :: _ => False
    end.

  Lemma stops_le i j r : stops i r -> (j <= i)%nat -> stops j r.
  Proof. destruct r as [|[w| |] r]; simpl; auto. intros [[? ?]|[? ?]] ?; [left|right]; split; auto; lia. Qed.

  Lemma sel_none_stops n rest : stops 0 rest -> selb (TW n :: rest) = None.
  Proof.
    destruct rest as [|[w| |] r]; simpl; try reflexivity; try contradiction.
    intros [[-> _]|[-> _]]; destruct (quant_of n); reflexivity.
  Qed.

  Lemma lift12 ts v rest : PE 1 ts v rest -> stops 2 rest -> PE 2 ts v rest.
  Proof.
    intros H Hs. eapply PE_bin; [exact H|]. apply (LOOP_stop BAnd 1 [v] rest).
    destruct rest as [|[w| |] r]; simpl in *; auto. intros ->.
    destruct Hs as [[_ ?]|[E _]]; [lia|discriminate E].
  Qed.

  Lemma lift23 ts v rest : PE 2 ts v rest -> stops 3 rest -> PE 3 ts v rest.
  Proof.
    intros H Hs. eapply PE_bin; [exact H|]. apply (LOOP_stop BOr 2 [v] rest).
    destruct rest as [|[w| |] r]; simpl in *; auto. intros ->.
    destruct Hs as [[_ ?]|[_ ?]]; lia.
  Qed.

  Lemma lift_to j i ts v rest :
    PE j ts v rest -> (j <= i <= 3)%nat -> stops i rest ->
    (j = 0%nat -> (1 <= i)%nat -> ~ hd_word w_not ts) -> PE i ts v rest.
  Proof.
    intros H Hji Hs Hh.
    assert (S1 : (1 <= i)%nat -> (j <= 1)%nat -> PE 1 ts v rest).
    { intros. destruct j as [|[|j]]; [|exact H|lia]. apply PE_01; auto. }
    assert (S2 : (2 <= i)%nat -> (j <= 2)%nat -> PE 2 ts v rest).
    { intros. destruct (Nat.eq_dec j 2) as [->|]; [exact H|].
      apply lift12; [apply S1; lia|]. eapply stops_le; eauto. }
    assert (S3 : (3 <= i)%nat -> PE 3 ts v rest).
    { intros. destruct (Nat.eq_dec j 3) as [->|]; [exact H|].
      apply lift23; [apply S2; lia|]. eapply stops_le; eauto. }
    destruct i as [|[|[|[|i]]]]; try lia.
    - assert (j = 0)%nat as -> by lia. exact H.
    - apply S1; lia.
    - apply S2; lia.
    - apply S3; lia.
  Qed.

  (* ---------- operand sequences ---------- *)
  Definition Operand (k : nat) (ts : list tok) (v : A) : Prop :=
    forall rest, stops k rest -> PE k (ts ++ rest) v rest.

  Inductive OpSeq (o : bop) (k : nat) : list tok -> list A -> Prop :=
  | os1 ts v : Operand k ts v -> OpSeq o k ts [v]
  | osS ts v ts' l : Operand k ts v -> OpSeq o k ts' l ->
      OpSeq o k (ts ++ TW (opw o) :: ts') (v :: l).

  Definition lvl_ok (o : bop) (k : nat) : Prop := (o = BAnd /\ k = 1%nat) \/ (o = BOr /\ k = 2%nat).

  Lemma stops_op o k r : lvl_ok o k -> stops k (TW (opw o) :: r).
  Proof. intros [[-> ->]|[-> ->]]; simpl; [left|right]; split; auto. Qed.

  Lemma stops_not_hd o k rest : lvl_ok o k -> stops (S k) rest -> ~ hd_word (opw o) rest.
  Proof.
    intros Hl Hs. destruct rest as [|[w| |] r]; simpl in *; auto. intros ->.
    destruct Hl as [[-> ->]|[-> ->]]; simpl in Hs; destruct Hs as [[E ?]|[E ?]]; try lia; discriminate E.
  Qed.

  Lemma lvl_ok_op o k : lvl_ok o k -> lvl_op k = o /\ exists k', k = S k'.
  Proof. intros [[-> ->]|[-> ->]]; split; eauto. Qed.

  Lemma OpSeq_loop o k ts l : OpSeq o k ts l -> lvl_ok o k ->
    forall acc rest, stops (S k) rest ->
    LOOP o k acc (TW (opw o) :: ts ++ rest) (fin b_bin o (rev acc ++ l)) rest.
  Proof.
    induction 1 as [ts v Hop | ts v ts' l Hop Hs IH]; intros Hl acc rest Hst.
    - eapply LOOP_step.
      + apply Hop. eapply stops_le; eauto.
      + apply (LOOP_stop o k (v :: acc) rest). eapply stops_not_hd; eauto.
    - rewrite <- app_assoc. cbn [app]. eapply LOOP_step.
      + apply Hop. apply stops_op. exact Hl.
      + specialize (IH Hl (v :: acc) rest Hst). cbn [rev] in IH. rewrite <- app_assoc in IH. exact IH.
  Qed.

  Lemma OpSeq_head o k ts l : OpSeq o k ts l -> lvl_ok o k ->
    forall rest, stops (S k) rest -> PE (S k) (ts ++ rest) (b_bin o l) rest.
  Proof.
    intros H Hl rest Hst. destruct (lvl_ok_op _ _ Hl) as [Eo [k' ->]]. rewrite <- fin_b.
    destruct H as [ts v Hop | ts v ts' l Hop Hs].
    - eapply PE_bin.
      + apply Hop. eapply stops_le; eauto.
      + rewrite Eo. apply (LOOP_stop o (S k') [v] rest). eapply stops_not_hd; eauto.
    - rewrite <- app_assoc. cbn [app]. eapply PE_bin.
      + apply Hop. apply stops_op. exact Hl.
      + rewrite Eo. apply (OpSeq_loop _ _ _ _ Hs Hl [v] rest Hst).
  Qed.

  Lemma OpSeq_snoc o k ts l ts2 v : OpSeq o k ts l -> Operand k ts2 v ->
    OpSeq o k (ts ++ TW (opw o) :: ts2) (l ++ [v]).
  Proof.
    induction 1 as [ts0 v0 Hop | ts0 v0 ts' l Hop Hs IH]; intros H2.
    - apply osS; [exact Hop|]. apply os1. exact H2.
    - rewrite <- app_assoc. cbn [app]. apply osS; [exact Hop|]. apply IH. exact H2.
  Qed.

  Lemma OpSeq_ne o k ts l : OpSeq o k ts l -> l <> [].
  Proof. destruct 1; discriminate. Qed.

  (* ---------- main induction, over the derivation of the spelling ---------- *)
  Lemma quant_of_qword q : quant_of (qword q) = Some q.
  Proof. destruct q; reflexivity. Qed.

  Lemma main i ts e : SpellsT i ts e -> wf_expr e = true ->
    (forall j rest, (i <= j <= 3)%nat -> stops j rest -> PE j (ts ++ rest) (sm e) rest) /\
    (i = 2%nat -> exists l, OpSeq BAnd 1 ts l /\ b_bin BAnd l = sm e) /\
    (i = 3%nat -> exists l, OpSeq BOr 2 ts l /\ b_bin BOr l = sm e).
  Proof.
    induction 1 as [n | q p | ts e H IH | ts e H IH | ts1 ts2 a b Ha IHa Hb IHb
                    | ts1 ts2 a b Ha IHa Hb IHb | i ts e H IH]; intros Hw.
    - (* name *)
      split; [|split; intros; discriminate].
      simpl in Hw. apply andb_true_iff in Hw. destruct Hw as [Hid Hres].
      intros j rest Hj Hs. cbn [app].
      assert (P0 : PE 0 (TW n :: rest) (vid n) rest).
      { apply PE_id; auto. apply sel_none_stops. eapply stops_le; eauto. lia. }
      apply (lift_to 0 j _ _ _ P0); [lia | exact Hs |].
      intros _ _ Hh. simpl in Hh. subst n. discriminate Hres.
    - (* selector *)
      split; [|split; intros; discriminate].
      simpl in Hw. intros j rest Hj Hs. cbn [app].
      assert (P0 : PE 0 (TW (qword q) :: TW w_of :: TW p :: rest) (vsel q p) rest).
      { apply PE_sel. cbn [sel]. rewrite quant_of_qword, str_eqb_refl, Hw. reflexivity. }
      apply (lift_to 0 j _ _ _ P0); [lia | exact Hs |].
      intros _ _ Hh. simpl in Hh. destruct q; discriminate Hh.
    - (* parentheses *)
      split; [|split; intros; discriminate].
      destruct (IH Hw) as [P _]. intros j rest Hj Hs.
      cbn [app]. rewrite <- app_assoc. cbn [app].
      assert (P0 : PE 0 (TL :: ts ++ TR :: rest) (sm e) rest).
      { apply PE_par. apply P; [lia|exact I]. }
      apply (lift_to 0 j _ _ _ P0); [lia | exact Hs |].
      intros _ _ Hh. exact Hh.
    - (* not *)
      split; [|split; intros; discriminate].
      simpl in Hw. destruct (IH Hw) as [P _]. intros j rest Hj Hs.
      cbn [app].
      assert (P1 : PE 1 (TW w_not :: ts ++ rest) (negb (sm e)) rest).
      { apply PE_not. apply P; [lia|]. eapply stops_le; eauto. lia. }
      apply (lift_to 1 j _ _ _ P1); [lia | exact Hs |]. intros; discriminate.
    - (* and *)
      simpl in Hw. apply andb_true_iff in Hw. destruct Hw as [Hwa Hwb].
      destruct (IHa Hwa) as [_ [Sa _]]. destruct (Sa eq_refl) as [l [Hl El]].
      destruct (IHb Hwb) as [Pb _].
      assert (Ob : Operand 1 ts2 (sm b)) by (intros rest Hs; apply Pb; [lia|exact Hs]).
      pose proof (OpSeq_snoc _ _ _ _ _ _ Hl Ob) as Hseq.
      assert (Ev : b_bin BAnd (l ++ [sm b]) = sm (EAnd a b)).
      { rewrite law2, El by (eapply OpSeq_ne; eauto). reflexivity. }
      split; [|split; [intros _; eexists; split; [exact Hseq|exact Ev] | intros; discriminate]].
      intros j rest Hj Hs. rewrite <- Ev.
      assert (P2 : PE 2 ((ts1 ++ TW w_and :: ts2) ++ rest) (b_bin BAnd (l ++ [sm b])) rest).
      { apply (OpSeq_head BAnd 1 _ _ Hseq); [left; auto|]. eapply stops_le; eauto. lia. }
      apply (lift_to 2 j _ _ _ P2); [lia | exact Hs |]. intros; discriminate.
    - (* or *)
      simpl in Hw. apply andb_true_iff in Hw. destruct Hw as [Hwa Hwb].
      destruct (IHa Hwa) as [_ [_ Sa]]. destruct (Sa eq_refl) as [l [Hl El]].
      destruct (IHb Hwb) as [Pb _].
      assert (Ob : Operand 2 ts2 (sm b)) by (intros rest Hs; apply Pb; [lia|exact Hs]).
      pose proof (OpSeq_snoc _ _ _ _ _ _ Hl Ob) as Hseq.
      assert (Ev : b_bin BOr (l ++ [sm b]) = sm (EOr a b)).
      { rewrite law2, El by (eapply OpSeq_ne; eauto). reflexivity. }
      split; [|split; [intros; discriminate | intros _; eexists; split; [exact Hseq|exact Ev]]].
      intros j rest Hj Hs. rewrite <- Ev.
      assert (P3 : PE 3 ((ts1 ++ TW w_or :: ts2) ++ rest) (b_bin BOr (l ++ [sm b])) rest).
      { apply (OpSeq_head BOr 2 _ _ Hseq); [right; auto|]. eapply stops_le; eauto. lia. }
      apply (lift_to 3 j _ _ _ P3); [lia | exact Hs |]. intros; discriminate.
    - (* a tighter expression used at a looser level *)
      destruct (IH Hw) as [P _].
      split; [|split].
      + intros j rest Hj Hs. apply P; [lia|exact Hs].
      + intros E. assert (i = 1%nat) as -> by lia. exists [sm e]. split.
        * apply os1. intros rest Hs. apply P; [lia|exact Hs].
        * apply law1.
      + intros E. assert (i = 2%nat) as -> by lia. exists [sm e]. split.
        * apply os1. intros rest Hs. apply P; [lia|exact Hs].
        * apply law1.
  Qed.

  Theorem complete_b ts e : SpellsT 3 ts e -> wf_expr e = true ->
    exists f, peb f 3 ts = Done (sm e, []).
  Proof.
    intros H Hw. destruct (main _ _ _ H Hw) as [P _].
    specialize (P 3%nat [] (conj (le_n _) (le_n _)) I). rewrite app_nil_r in P. exact P.
  Qed.
End Complete.

(* ====================== every spelling is parsed to a tree with the meaning of the expression ====================== *)
(* an algebra is lawful when its n-ary nodes agree with a binary operation *)
Definition lawful {A} (a_bin : bop -> list A -> A) (e_bin : bop -> A -> A -> A) : Prop :=
  (forall o x, a_bin o [x] = x) /\ (forall o l v, l <> [] -> a_bin o (l ++ [v]) = e_bin o (a_bin o l) v).

Lemma tree_of_spelling_fold {A} a_id a_sel a_not a_bin e_bin ts e :
  @lawful A a_bin e_bin -> SpellsT 3 ts e -> wf_expr e = true ->
  exists t, parse_tree ts = Done t /\ foldt a_id a_sel a_not a_bin t = folde a_id a_sel a_not e_bin e.
Proof.
  intros [L1 L2] H Hw.
  destruct (complete_b a_id a_sel a_not a_bin e_bin L1 L2 ts e H Hw) as [f Hf].
  rewrite (proj1 (pe_hom a_id a_sel a_not a_bin f)) in Hf.
  destruct (pe PId PSel PNot t_bin f 3 ts) as [[t r]| |] eqn:E; try discriminate.
  simpl in Hf. inversion Hf; subst. exists t. split; [|reflexivity].
  unfold parse_tree. eapply parse_toks_of_pe. exact E.
Qed.

(* the same tree for every algebra *)
Theorem parse_complete_fold e s : wf_expr e = true -> Spells s e ->
  exists t, parse s = Ok t /\
    forall A a_id a_sel a_not a_bin e_bin, @lawful A a_bin e_bin ->
      foldt a_id a_sel a_not a_bin t = folde a_id a_sel a_not e_bin e.
Proof.
  intros Hw [ts [HL HS]].
  assert (L0 : @lawful unit (fun _ _ => tt) (fun _ _ _ => tt)).
  { split; intros; [destruct x|]; reflexivity. }
  destruct (tree_of_spelling_fold (fun _ => tt) (fun _ _ => tt) (fun _ => tt) _ _ ts e L0 HS Hw) as [t [Ht _]].
  exists t. split.
  - unfold parse. rewrite (lex_layout _ _ HL), Ht. reflexivity.
  - intros A a_id a_sel a_not a_bin e_bin L.
    destruct (tree_of_spelling_fold a_id a_sel a_not a_bin e_bin ts e L HS Hw) as [t' [Ht' Hd]].
    rewrite Ht in Ht'. inversion Ht'; subst. exact Hd.
Qed.

(* ---------- instances ---------- *)
Definition b_bin (o : bop) (l : list bool) : bool :=
  match o with BAnd => forallb (fun b => b) l | BOr => existsb (fun b => b) l end.
Definition b_op (o : bop) (a b : bool) : bool := match o with BAnd => a && b | BOr => a || b end.

Lemma lawful_bool : lawful b_bin b_op.
Proof.
  split.
  - intros [] x; simpl; [apply andb_true_r | apply orb_false_r].
  - intros [] l v _; simpl.
    + rewrite forallb_app. simpl. rewrite andb_true_r. reflexivity.
    + rewrite existsb_app. simpl. rewrite orb_false_r. reflexivity.
Qed.

Section PtreeInd.
  Variable P : ptree -> Prop.
  Hypothesis Hid : forall n, P (PId n).
  Hypothesis Hsel : forall q p, P (PSel q p).
  Hypothesis Hnot : forall a, P a -> P (PNot a).
  Hypothesis Hand : forall l, Forall P l -> P (PAnd l).
  Hypothesis Hor : forall l, Forall P l -> P (POr l).
  Fixpoint ptree_ind' (t : ptree) : P t :=
    match t with
    | PId n => Hid n
    | PSel q p => Hsel q p
    | PNot a => Hnot a (ptree_ind' a)
    | PAnd l => Hand l ((fix go l : Forall P l :=
                  match l with [] => Forall_nil P | x :: r => Forall_cons x (ptree_ind' x) (go r) end) l)
    | POr l => Hor l ((fix go l : Forall P l :=
                  match l with [] => Forall_nil P | x :: r => Forall_cons x (ptree_ind' x) (go r) end) l)
    end.
End PtreeInd.

Lemma forallb_map_id {X} (f : X -> bool) l : forallb (fun b => b) (map f l) = forallb f l.
Proof. induction l; simpl; congruence. Qed.
Lemma existsb_map_id {X} (f : X -> bool) l : existsb (fun b => b) (map f l) = existsb f l.
Proof. induction l; simpl; congruence. Qed.

Lemma denv_foldt vid vsel t : denv vid vsel t = foldt vid vsel negb b_bin t.
Proof.
  induction t as [n|q p|a IH|l IH|l IH] using ptree_ind'; simpl; try reflexivity.
  - rewrite IH. reflexivity.
  - rewrite forallb_map_id. induction IH as [|x l Hx _ IHl]; simpl; [reflexivity|]. rewrite Hx, IHl. reflexivity.
  - rewrite existsb_map_id. induction IH as [|x l Hx _ IHl]; simpl; [reflexivity|]. rewrite Hx, IHl. reflexivity.
Qed.

Lemma semv_folde vid vsel e : semv vid vsel e = folde vid vsel negb b_op e.
Proof. induction e; simpl; congruence. Qed.

Theorem parse_complete e s : wf_expr e = true -> Spells s e ->
  exists t, parse s = Ok t /\ forall vid vsel, denv vid vsel t = semv vid vsel e.
Proof.
  intros Hw HS. destruct (parse_complete_fold e s Hw HS) as [t [Ht Hf]].
  exists t. split; [exact Ht|]. intros vid vsel.
  rewrite denv_foldt, semv_folde. apply Hf. exact lawful_bool.
Qed.

(* the fuel of the entry point always suffices *)
Theorem parse_never_out_of_fuel s : parse s <> Crash E_Fuel.
Proof.
  unfold parse. destruct (lex s []) as [ts|c|c] eqn:El.
  - pose proof (parse_toks_fuel PId PSel PNot t_bin ts) as N. unfold parse_tree.
    destruct (parse_toks PId PSel PNot t_bin ts); try discriminate. contradiction.
  - discriminate.
  - (* the lexer never crashes *)
    exfalso. revert c El. generalize (@nil char) as cur. induction s as [|x s IH]; intros cur c; simpl; [discriminate|].
    destruct (is_wordc x); [apply IH|].
    destruct (is_blank x); [destruct (lex s []) eqn:E; simpl; try discriminate; intros _; eapply IH; eauto|].
    destruct (x =? c_lpar); [destruct (lex s []) eqn:E; simpl; try discriminate; intros _; eapply IH; eauto|].
    destruct (x =? c_rpar); [destruct (lex s []) eqn:E; simpl; try discriminate; intros _; eapply IH; eauto|].
    discriminate.
Qed.
