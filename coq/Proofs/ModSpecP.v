(* Declarative content of the item-level specification (Spec/ModSpec.v): what the wildcard-adding
   modifiers mean for matching, what the variant set of windash is, what expand reads. *)
From Coq Require Import NArith List Bool Lia.
From PS Require Import Base.Chars Base.Outcome Model.SString Model.Modifiers Spec.Items Spec.ModSpec.
Import ListNotations.
Open Scope N_scope.

(* ---------- wildcard matching ---------- *)
Lemma wm_multi p s :
  wild_match (Multi :: p) s =
  wild_match p s || match s with [] => false | _ :: s' => wild_match (Multi :: p) s' end.
Proof. destruct s; reflexivity. Qed.

Lemma wm_multi_split p s :
  wild_match (Multi :: p) s = true <-> exists a m, s = a ++ m /\ wild_match p m = true.
Proof.
  induction s as [|x s IH]; rewrite wm_multi.
  - rewrite orb_false_r. split.
    + intros H. exists [], []. auto.
    + intros [a [m [E H]]]. symmetry in E. apply app_eq_nil in E. destruct E; subst. exact H.
  - rewrite orb_true_iff, IH. split.
    + intros [H|[a [m [E H]]]].
      * exists [], (x :: s). auto.
      * exists (x :: a), m. subst. auto.
    + intros [a [m [E H]]]. destruct a as [|y a].
      * left. simpl in E. subst. exact H.
      * right. simpl in E. inversion E; subst. exists a, m. auto.
Qed.

Lemma wm_app p : forall q s,
  wild_match (p ++ q) s = true <->
  exists s1 s2, s = s1 ++ s2 /\ wild_match p s1 = true /\ wild_match q s2 = true.
Proof.
  induction p as [|i p IH]; intros q s.
  - simpl. split.
    + intros H. exists [], s. auto.
    + intros [s1 [s2 [E [H1 H2]]]]. destruct s1; [subst; exact H2 | discriminate H1].
  - destruct i as [c| | |n].
    + destruct s as [|x s]; simpl.
      * split; [discriminate|]. intros [s1 [s2 [E [H1 H2]]]].
        symmetry in E. apply app_eq_nil in E. destruct E; subst. discriminate H1.
      * rewrite andb_true_iff, IH. split.
        -- intros [Hc [s1 [s2 [E [H1 H2]]]]]. exists (x :: s1), s2. subst. simpl. rewrite Hc, H1. auto.
        -- intros [s1 [s2 [E [H1 H2]]]]. destruct s1 as [|y s1]; [discriminate H1|].
           simpl in E. inversion E; subst. simpl in H1. apply andb_true_iff in H1. destruct H1 as [Hc H1].
           split; [exact Hc|]. exists s1, s2. auto.
    + change ((Multi :: p) ++ q) with (Multi :: (p ++ q)). rewrite wm_multi_split. split.
      * intros [a [m [E H]]]. apply IH in H. destruct H as [s1 [s2 [E2 [H1 H2]]]].
        exists (a ++ s1), s2. subst. rewrite app_assoc. split; [reflexivity|]. split; [|exact H2].
        apply wm_multi_split. exists a, s1. auto.
      * intros [s1 [s2 [E [H1 H2]]]]. apply wm_multi_split in H1. destruct H1 as [a [m [E1 H1]]].
        exists a, (m ++ s2). subst. rewrite app_assoc. split; [reflexivity|].
        apply IH. exists m, s2. auto.
    + destruct s as [|x s]; simpl.
      * split; [discriminate|]. intros [s1 [s2 [E [H1 H2]]]].
        symmetry in E. apply app_eq_nil in E. destruct E; subst. discriminate H1.
      * rewrite IH. split.
        -- intros [s1 [s2 [E [H1 H2]]]]. exists (x :: s1), s2. subst. auto.
        -- intros [s1 [s2 [E [H1 H2]]]]. destruct s1 as [|y s1]; [discriminate H1|].
           simpl in E. inversion E; subst. exists s1, s2. auto.
    + simpl. split; [discriminate|]. intros [s1 [s2 [E [H1 H2]]]]. discriminate H1.
Qed.

Lemma wm_only_multi s : wild_match [Multi] s = true.
Proof. apply wm_multi_split. exists s, []. rewrite app_nil_r. auto. Qed.

(* endswith: a wildcard in front, unless there is one already *)
Theorem sp_front_sem p s :
  wild_match (sp_front p) s = true <-> exists a m, s = a ++ m /\ wild_match p m = true.
Proof.
  unfold sp_front. destruct p as [|[c| | |n] p']; try apply wm_multi_split.
  split.
  - intros H. exists [], s. auto.
  - intros [a [m [E H]]]. apply wm_multi_split in H. destruct H as [a' [m' [E' H]]].
    apply wm_multi_split. exists (a ++ a'), m'. subst. rewrite app_assoc. auto.
Qed.

Lemma ends_multi_item_spec l : ends_multi_item l = true <-> exists q, l = q ++ [Multi].
Proof.
  induction l as [|i l IH].
  - simpl. split; [discriminate|]. intros [q E]. destruct q; discriminate E.
  - destruct l as [|j l'].
    + simpl. split.
      * destruct i; try discriminate. intros _. exists []. reflexivity.
      * intros [q E]. destruct q as [|x [|y q]]; inversion E; subst; reflexivity.
    + change (ends_multi_item (i :: j :: l')) with (ends_multi_item (j :: l')). rewrite IH. split.
      * intros [q E]. exists (i :: q). rewrite E. reflexivity.
      * intros [q E]. destruct q as [|x q]; [discriminate E|]. inversion E. exists q. assumption.
Qed.

(* startswith: a wildcard behind, unless there is one already *)
Theorem sp_back_sem p s :
  wild_match (sp_back p) s = true <-> exists m b, s = m ++ b /\ wild_match p m = true.
Proof.
  unfold sp_back. destruct (ends_multi_item p) eqn:E.
  - apply ends_multi_item_spec in E. destruct E as [q ->]. split.
    + intros H. exists s, []. rewrite app_nil_r. auto.
    + intros [m [b [E H]]]. apply wm_app in H. destruct H as [s1 [s2 [E2 [H1 H2]]]].
      apply wm_app. exists s1, (s2 ++ b). subst. rewrite app_assoc. split; [reflexivity|].
      split; [exact H1 | apply wm_only_multi].
  - rewrite wm_app. split.
    + intros [s1 [s2 [E2 [H1 H2]]]]. exists s1, s2. auto.
    + intros [m [b [E2 H]]]. exists m, b. split; [exact E2|]. split; [exact H | apply wm_only_multi].
Qed.

(* contains *)
Theorem sp_contains_sem p s :
  wild_match (sp_contains p) s = true <-> exists a m b, s = a ++ m ++ b /\ wild_match p m = true.
Proof.
  unfold sp_contains. rewrite sp_back_sem. split.
  - intros [m [b [E H]]]. apply sp_front_sem in H. destruct H as [a [m' [E' H]]].
    exists a, m', b. subst. rewrite app_assoc. auto.
  - intros [a [m [b [E H]]]]. exists (a ++ m), b. subst. rewrite app_assoc. split; [reflexivity|].
    apply sp_front_sem. exists a, m. auto.
Qed.

(* only missing wildcards are added *)
Lemma sp_front_idem l : sp_front (sp_front l) = sp_front l.
Proof. destruct l as [|[c| | |n] l]; reflexivity. Qed.
Lemma ends_multi_item_snoc q : ends_multi_item (q ++ [Multi]) = true.
Proof. apply ends_multi_item_spec. exists q. reflexivity. Qed.
Lemma sp_back_idem l : sp_back (sp_back l) = sp_back l.
Proof.
  unfold sp_back. destruct (ends_multi_item l) eqn:E; [rewrite E; reflexivity|].
  rewrite ends_multi_item_snoc. reflexivity.
Qed.
Lemma ends_multi_item_front l : ends_multi_item (sp_front l) = match l with [] => true | _ => ends_multi_item l end.
Proof. destruct l as [|[c| | |n] [|j l]]; reflexivity. Qed.
Lemma sp_front_back_comm_head l : sp_front (sp_back l) = sp_back (sp_front l) \/ l = [].
Proof.
  destruct l as [|i l]; [right; reflexivity|left].
  unfold sp_back. rewrite ends_multi_item_front.
  destruct (ends_multi_item (i :: l)); [reflexivity|].
  destruct i; reflexivity.
Qed.
Theorem sp_contains_idem l : sp_contains (sp_contains l) = sp_contains l.
Proof.
  unfold sp_contains.
  destruct l as [|i l]; [reflexivity|].
  assert (H: sp_front (sp_back (sp_front (i :: l))) = sp_back (sp_front (i :: l))).
  { unfold sp_back. destruct (ends_multi_item (sp_front (i :: l))).
    - apply sp_front_idem.
    - destruct i; reflexivity. }
  rewrite H. apply sp_back_idem.
Qed.
Theorem sp_front_only_missing l : (exists l', l = Multi :: l') -> sp_front l = l.
Proof. intros [l' ->]. reflexivity. Qed.
Theorem sp_back_only_missing l : (exists q, l = q ++ [Multi]) -> sp_back l = l.
Proof. intros H. apply ends_multi_item_spec in H. unfold sp_back. rewrite H. reflexivity. Qed.

(* ---------- windash: the variant set ---------- *)
(* position-wise reading of "parameter-position dash": the item at index i is a literal '-' or
   '/', the item before it (if any) is not a literal word character, the item after it is a
   literal word character.  [prev] stands for "a word character precedes index 0". *)
Definition lit_at (l : istr) (i : nat) : option char :=
  match nth_error l i with Some (Lit c) => Some c | _ => None end.
Definition prev_word_at (w : char -> bool) (prev : bool) (l : istr) (i : nat) : bool :=
  match i with
  | O => prev
  | S j => match lit_at l j with Some p => w p | None => false end
  end.
Definition is_param (w : char -> bool) (prev : bool) (l : istr) (i : nat) : bool :=
  match lit_at l i with
  | Some c => is_dash c && negb (prev_word_at w prev l i)
              && match lit_at l (S i) with Some d => w d | None => false end
  | None => false
  end.
(* x is a dash variant of l: same length, one of the five dash characters at every parameter
   position, the item of l everywhere else *)
Definition is_variant (w : char -> bool) (prev : bool) (l x : istr) : Prop :=
  length x = length l /\
  forall i it, nth_error l i = Some it ->
    if is_param w prev l i then exists d, In d dashes /\ nth_error x i = Some (Lit d)
    else nth_error x i = Some it.

Lemma is_param_shift w prev it l i :
  is_param w prev (it :: l) (S i) =
  is_param w (match it with Lit c => w c | _ => false end) l i.
Proof.
  unfold is_param, lit_at. cbn [nth_error].
  destruct (nth_error l i) as [[c| | |n]|]; try reflexivity.
  destruct i; cbn [prev_word_at]; unfold lit_at; cbn [nth_error]; destruct it; reflexivity.
Qed.

Lemma is_dash_in c : is_dash c = true -> In c dashes.
Proof.
  unfold is_dash. rewrite orb_true_iff, !N.eqb_eq. intros [->| ->]; simpl; auto.
Qed.

Lemma variants_lit w prev c l :
  variants w prev (Lit c :: l) =
  if is_dash c && negb prev && next_is_word w l
  then flat_map (fun d => map (cons (Lit d)) (variants w false l)) dashes
  else map (cons (Lit c)) (variants w (w c) l).
Proof. reflexivity. Qed.

Lemma is_param_0_lit w prev c l :
  is_param w prev (Lit c :: l) 0 = is_dash c && negb prev && next_is_word w l.
Proof.
  unfold is_param, lit_at, next_is_word. cbn [nth_error prev_word_at].
  destruct l as [|[d| | |n] l]; reflexivity.
Qed.

Lemma is_variant_cons w prev it l x0 y :
  is_variant w prev (it :: l) (x0 :: y) <->
  (if is_param w prev (it :: l) 0 then exists d, In d dashes /\ x0 = Lit d else x0 = it) /\
  is_variant w (match it with Lit c => w c | _ => false end) l y.
Proof.
  unfold is_variant. split.
  - intros [Hl H]. split.
    + specialize (H 0%nat it eq_refl). destruct (is_param w prev (it :: l) 0).
      * destruct H as [d [Hd E]]. exists d. split; [exact Hd|]. inversion E. reflexivity.
      * inversion H. reflexivity.
    + split; [simpl in Hl; lia|]. intros i it' E. specialize (H (S i) it' E).
      rewrite is_param_shift in H. exact H.
  - intros [H0 [Hl H]]. split; [simpl; lia|]. intros [|i] it' E.
    + inversion E; subst it'. destruct (is_param w prev (it :: l) 0).
      * destruct H0 as [d [Hd ->]]. exists d. auto.
      * subst. reflexivity.
    + rewrite is_param_shift. apply H. exact E.
Qed.

Theorem variants_spec w (Hw : w c_dash = false /\ w c_slash = false) :
  forall l prev x, In x (variants w prev l) <-> is_variant w prev l x.
Proof.
  induction l as [|it l IH]; intros prev x.
  - simpl. split.
    + intros [<-|[]]. split; [reflexivity|]. intros i it E. destruct i; discriminate E.
    + intros [Hl _]. destruct x; [auto | discriminate Hl].
  - destruct x as [|x0 y].
    + split.
      * intros H. exfalso. destruct it as [c| | |n]; [rewrite variants_lit in H; destruct (_ && _) |..];
          cbn [variants] in H; try (apply in_flat_map in H; destruct H as [d [_ H]]);
          apply in_map_iff in H; destruct H as [z [E _]]; discriminate E.
      * intros [Hl _]. discriminate Hl.
    + rewrite is_variant_cons. destruct it as [c| | |n].
      * rewrite variants_lit, is_param_0_lit. destruct (is_dash c && negb prev && next_is_word w l) eqn:C.
        -- assert (Hc: w c = false).
           { apply andb_true_iff in C. destruct C as [C _]. apply andb_true_iff in C. destruct C as [C _].
             unfold is_dash in C. apply orb_true_iff in C. destruct Hw. destruct C as [C|C]; apply N.eqb_eq in C; subst; auto. }
           rewrite Hc. rewrite in_flat_map. split.
           ++ intros [d [Hd H]]. apply in_map_iff in H. destruct H as [z [E Hz]]. inversion E; subst.
              split; [exists d; auto | apply IH; exact Hz].
           ++ intros [[d [Hd ->]] H]. exists d. split; [exact Hd|]. apply in_map. apply IH. exact H.
        -- rewrite in_map_iff. split.
           ++ intros [z [E Hz]]. inversion E; subst. split; [reflexivity | apply IH; exact Hz].
           ++ intros [-> H]. exists y. split; [reflexivity | apply IH; exact H].
      * cbn [variants]. rewrite in_map_iff. unfold is_param at 1, lit_at. cbn [nth_error]. split.
        -- intros [z [E Hz]]. inversion E; subst. split; [reflexivity | apply IH; exact Hz].
        -- intros [-> H]. exists y. split; [reflexivity | apply IH; exact H].
      * cbn [variants]. rewrite in_map_iff. unfold is_param at 1, lit_at. cbn [nth_error]. split.
        -- intros [z [E Hz]]. inversion E; subst. split; [reflexivity | apply IH; exact Hz].
        -- intros [-> H]. exists y. split; [reflexivity | apply IH; exact H].
      * cbn [variants]. rewrite in_map_iff. unfold is_param at 1, lit_at. cbn [nth_error]. split.
        -- intros [z [E Hz]]. inversion E; subst. split; [reflexivity | apply IH; exact Hz].
        -- intros [-> H]. exists y. split; [reflexivity | apply IH; exact H].
Qed.

(* no variant is listed twice *)
Lemma NoDup_map_cons {A} (a : A) l : NoDup l -> NoDup (map (cons a) l).
Proof.
  induction 1 as [|x l Hx Hl IH]; simpl; constructor; auto.
  rewrite in_map_iff. intros [y [E Hy]]. inversion E; subst. auto.
Qed.
Lemma NoDup_app_intro {A} (a b : list A) :
  NoDup a -> NoDup b -> (forall x, In x a -> In x b -> False) -> NoDup (a ++ b).
Proof.
  induction 1 as [|x a Hx Ha IH]; intros Hb H; simpl; [exact Hb|].
  constructor.
  - rewrite in_app_iff. intros [K|K]; [auto | apply (H x); simpl; auto].
  - apply IH; [exact Hb|]. intros y Hy. apply H. simpl. auto.
Qed.
Lemma NoDup_heads (ds : list char) (L : list istr) :
  NoDup ds -> NoDup L -> NoDup (flat_map (fun d => map (cons (Lit d)) L) ds).
Proof.
  intros Hd HL. induction Hd as [|d ds Hnd Hd IH]; simpl; [constructor|].
  apply NoDup_app_intro; [apply NoDup_map_cons; exact HL | exact IH |].
  intros x H1 H2. apply in_map_iff in H1. destruct H1 as [y [E1 _]]. subst x.
  apply in_flat_map in H2. destruct H2 as [e [He H2]]. apply in_map_iff in H2.
  destruct H2 as [z [E2 _]]. inversion E2; subst. auto.
Qed.

Lemma NoDup_dashes : NoDup dashes.
Proof.
  unfold dashes. repeat constructor; simpl; intros H;
    repeat (destruct H as [H|H]; [discriminate H|]); exact H.
Qed.
Theorem variants_NoDup w : forall l prev, NoDup (variants w prev l).
Proof.
  induction l as [|it l IH]; intros prev; [repeat constructor; auto|].
  destruct it as [c| | |n]; [rewrite variants_lit; destruct (_ && _)|..]; cbn [variants];
    try (apply NoDup_map_cons; apply IH).
  apply NoDup_heads; [apply NoDup_dashes | apply IH].
Qed.

(* 5^k variants, k = number of parameter positions *)
Definition count_params (w : char -> bool) (prev : bool) (l : istr) : nat :=
  length (filter (is_param w prev l) (seq 0 (length l))).
Lemma flat_map_const_length {A B} (f : A -> list B) (l : list A) n :
  (forall a, length (f a) = n) -> length (flat_map f l) = (length l * n)%nat.
Proof.
  intros H. induction l as [|a l IH]; [reflexivity|]. simpl. rewrite app_length, H, IH. reflexivity.
Qed.
Lemma count_params_cons w prev it l :
  count_params w prev (it :: l) =
  ((if is_param w prev (it :: l) 0 then 1 else 0) +
   count_params w (match it with Lit c => w c | _ => false end) l)%nat.
Proof.
  assert (E: forall (f : nat -> bool) g (L : list nat), (forall i, f (S i) = g i) ->
             length (filter f (map S L)) = length (filter g L)).
  { intros f g L H. induction L as [|a L IHL]; [reflexivity|]. simpl. rewrite H.
    destruct (g a); simpl; rewrite IHL; reflexivity. }
  unfold count_params. cbn [length seq]. rewrite <- seq_shift. cbn [filter].
  destruct (is_param w prev (it :: l) 0); cbn [length];
    rewrite (E _ _ _ (is_param_shift w prev it l)); reflexivity.
Qed.
Theorem variants_length w (Hw : w c_dash = false /\ w c_slash = false) :
  forall l prev, length (variants w prev l) = Nat.pow 5 (count_params w prev l).
Proof.
  induction l as [|it l IH]; intros prev; [reflexivity|].
  rewrite count_params_cons. destruct it as [c| | |n].
  - rewrite variants_lit, is_param_0_lit. destruct (is_dash c && negb prev && next_is_word w l) eqn:C.
    + assert (Hc: w c = false).
      { apply andb_true_iff in C. destruct C as [C _]. apply andb_true_iff in C. destruct C as [C _].
        unfold is_dash in C. apply orb_true_iff in C. destruct Hw. destruct C as [C|C]; apply N.eqb_eq in C; subst; auto. }
      rewrite Hc. rewrite (flat_map_const_length _ _ (length (variants w false l))).
      * rewrite IH. cbn [dashes length]. simpl Nat.pow. lia.
      * intros a. apply map_length.
    + rewrite map_length, IH. reflexivity.
  - cbn [variants]. rewrite map_length, IH. unfold is_param, lit_at. reflexivity.
  - cbn [variants]. rewrite map_length, IH. unfold is_param, lit_at. reflexivity.
  - cbn [variants]. rewrite map_length, IH. unfold is_param, lit_at. reflexivity.
Qed.

(* ---------- expand: what becomes a placeholder ---------- *)
Lemma take_name_spec l : forall acc nm rest, take_name l acc = Some (nm, rest) ->
  exists x, nm = acc ++ x /\ l = map Lit x ++ Lit c_pct :: rest /\ ~ In c_pct x.
Proof.
  induction l as [|i l IH]; intros acc nm rest H; [discriminate H|].
  destruct i as [c| | |n]; try discriminate H. cbn [take_name] in H.
  destruct (N.eqb c c_pct) eqn:E.
  - apply N.eqb_eq in E. subst c. inversion H; subst. exists []. rewrite app_nil_r. auto.
  - apply IH in H. destruct H as [x [H1 [H2 H3]]]. exists (c :: x). subst.
    rewrite <- app_assoc. split; [reflexivity|]. split; [reflexivity|].
    intros [K|K]; [subst c; rewrite N.eqb_refl in E; discriminate E | exact (H3 K)].
Qed.

(* every new placeholder stands for a %name% of the input: name not empty, free of '%',
   between two literal '%' *)
Theorem sp_expand_sound : forall f l n, In (Ph n) (sp_expand_go f l) ->
  In (Ph n) l \/
  (n <> [] /\ ~ In c_pct n /\ exists pre post, l = pre ++ Lit c_pct :: map Lit n ++ Lit c_pct :: post).
Proof.
  assert (EXT: forall (i : item) l n,
            (In (Ph n) l \/ (n <> [] /\ ~ In c_pct n /\ exists pre post, l = pre ++ Lit c_pct :: map Lit n ++ Lit c_pct :: post)) ->
            In (Ph n) (i :: l) \/ (n <> [] /\ ~ In c_pct n /\ exists pre post, i :: l = pre ++ Lit c_pct :: map Lit n ++ Lit c_pct :: post)).
  { intros i l n [H|[H1 [H2 [pre [post E]]]]]; [left; right; exact H|].
    right. split; [exact H1|]. split; [exact H2|]. exists (i :: pre), post. rewrite E. reflexivity. }
  induction f as [|f IH]; intros l n H.
  - left. exact H.
  - destruct l as [|i l]; [destruct H|]. cbn [sp_expand_go] in H.
    destruct i as [c| | |m].
    + destruct (N.eqb c c_pct) eqn:Ec.
      * destruct (take_name l []) as [[[|x name] rest]|] eqn:T.
        -- destruct H as [H|H]; [discriminate H|]. apply EXT, IH, H.
        -- apply N.eqb_eq in Ec. subst c. apply take_name_spec in T. destruct T as [y [T1 [T2 T3]]].
           cbn [app] in T1. subst y. destruct H as [H|H].
           ++ inversion H; subst n. right. split; [discriminate|]. split; [exact T3|].
              exists [], rest. rewrite T2. reflexivity.
           ++ apply IH in H. destruct H as [H|[H1 [H2 [pre [post E]]]]].
              ** left. right. rewrite T2. apply in_or_app. right. right. exact H.
              ** right. split; [exact H1|]. split; [exact H2|].
                 exists (Lit c_pct :: map Lit (x :: name) ++ Lit c_pct :: pre), post.
                 rewrite T2, E. cbn [app]. rewrite <- app_assoc. reflexivity.
        -- destruct H as [H|H]; [discriminate H|]. apply EXT, IH, H.
      * destruct (N.eqb c c_bs).
        -- destruct l as [|[d| | |m] l']; try (destruct H as [H|H]; [discriminate H|]; apply EXT, IH, H).
           destruct (N.eqb d c_pct).
           ++ destruct H as [H|H]; [discriminate H|]. apply EXT, EXT, IH, H.
           ++ destruct H as [H|H]; [discriminate H|]. apply EXT, IH, H.
        -- destruct H as [H|H]; [discriminate H|]. apply EXT, IH, H.
    + destruct H as [H|H]; [discriminate H|]. apply EXT, IH, H.
    + destruct H as [H|H]; [discriminate H|]. apply EXT, IH, H.
    + destruct H as [H|H]; [inversion H; left; left; reflexivity|]. apply EXT, IH, H.
Qed.

(* without a literal '%' nothing changes *)
Theorem sp_expand_no_pct : forall f l,
  existsb (fun i => match i with Lit c => N.eqb c c_pct | _ => false end) l = false -> sp_expand_go f l = l.
Proof.
  induction f as [|f IH]; intros l H; [reflexivity|]. destruct l as [|i l]; [reflexivity|].
  cbn [existsb] in H. apply orb_false_iff in H. destruct H as [H1 H2]. cbn [sp_expand_go].
  destruct i as [c| | |m]; try (rewrite IH by exact H2; reflexivity).
  rewrite H1. destruct (N.eqb c c_bs); [|rewrite IH by exact H2; reflexivity].
  destruct l as [|[d| | |m] l']; try (rewrite IH by exact H2; reflexivity).
  cbn [existsb] in H2. apply orb_false_iff in H2. destruct H2 as [H3 H4]. rewrite H3.
  rewrite IH; [reflexivity|]. cbn [existsb]. rewrite H3, H4. reflexivity.
Qed.

Lemma expand_sound l n : In (Ph n) (sp_expand l) ->
  In (Ph n) l \/
  (n <> [] /\ ~ In c_pct n /\ exists pre post, l = pre ++ Lit c_pct :: map Lit n ++ Lit c_pct :: post).
Proof. apply sp_expand_sound. Qed.
Lemma expand_no_pct l :
  existsb (fun i => match i with Lit c => N.eqb c c_pct | _ => false end) l = false -> sp_expand l = l.
Proof. apply sp_expand_no_pct. Qed.
