(* Lexing the rendered token sequence gives the token sequence back (theorem lex_show), for atom texts of
   the checkable shape; token sequences produced by the conversion always separate atoms (conv_sep_ok). *)
From Coq Require Import NArith List Bool Lia String Arith.
From PS Require Import Base.Chars Model.Backend Spec.Atom Spec.Lex Proofs.BackendMainP.
Import ListNotations.
Open Scope N_scope.

Lemma span_pred (P : char -> bool) f rest : forallb P f = true ->
  (match rest with [] => true | c :: _ => negb (P c) end) = true -> span P (f ++ rest) = (f, rest).
Proof.
  induction f as [|c f IH]; intros Hf Hs.
  - simpl. destruct rest as [|d r]; [reflexivity|]. apply negb_true_iff in Hs. simpl. rewrite Hs. reflexivity.
  - simpl in Hf. apply andb_true_iff in Hf. destruct Hf as [Hc Hf].
    cbn [app span]. rewrite Hc, (IH Hf Hs). reflexivity.
Qed.

Lemma scan_word_app w rest : no_boundary w = true -> bnd rest = true -> scan_word (w ++ rest) = (w, rest).
Proof.
  intros Hw Hr. unfold scan_word. apply span_pred; [exact Hw|].
  destruct rest as [|c r]; [reflexivity|]. cbn [bnd] in Hr. rewrite Hr. reflexivity.
Qed.

Lemma scan_to_app q x a suf : scan_to q x = Some (a, suf) ->
  x = a ++ suf /\ forall rest, scan_to q (x ++ rest) = Some (a, suf ++ rest).
Proof.
  revert a suf. induction x as [x IH] using (well_founded_induction (Wf_nat.well_founded_ltof _ (@List.length char))).
  intros a suf H. destruct x as [|c x']; [discriminate|].
  cbn [scan_to] in H. destruct (N.eqb c c_bs) eqn:Eb.
  - destruct x' as [|e x'']; [discriminate|].
    destruct (scan_to q x'') as [[a' r']|] eqn:E; [|discriminate]. inversion H; subst a suf. clear H.
    destruct (IH x'' ltac:(unfold ltof; simpl; lia) a' r' E) as [Hx Hr]. split.
    + rewrite Hx. reflexivity.
    + intros rest. cbn [app scan_to]. rewrite Eb, Hr. reflexivity.
  - destruct (N.eqb c q) eqn:Eq.
    + inversion H; subst a suf. split; [reflexivity|]. intros rest. cbn [app scan_to]. rewrite Eb, Eq. reflexivity.
    + destruct (scan_to q x') as [[a' r']|] eqn:E; [|discriminate]. inversion H; subst a suf. clear H.
      destruct (IH x' ltac:(unfold ltof; simpl; lia) a' r' E) as [Hx Hr]. split.
      * rewrite Hx. reflexivity.
      * intros rest. cbn [app scan_to]. rewrite Eb, Eq, Hr. reflexivity.
Qed.

Lemma keyword_word w : is_keyword w = false -> word_tok w = XAtom w.
Proof.
  unfold is_keyword, word_tok. intros H. apply orb_false_iff in H. destruct H as [H H3].
  apply orb_false_iff in H. destruct H as [H1 H2]. rewrite H1, H2, H3. reflexivity.
Qed.

Theorem shapeb_shape t : shapeb t = true -> atom_shape t.
Proof.
  unfold shapeb, atom_shape. destruct t as [|c t']; [discriminate|]. intros H rest Hr.
  cbn [app lex1].
  destruct (N.eqb c c_lq || N.eqb c c_sq) eqn:Eq.
  - assert (Hl: N.eqb c c_lpar = false /\ N.eqb c c_rpar = false).
    { apply orb_true_iff in Eq. destruct Eq as [E|E]; apply N.eqb_eq in E; subst c; split; reflexivity. }
    destruct Hl as [-> ->].
    destruct (scan_to (if N.eqb c c_lq then c_rq else c_sq) t') as [[a suf]|] eqn:E; [|discriminate].
    destruct (scan_to_app _ _ _ _ E) as [Ht Hs]. rewrite Hs.
    rewrite (scan_word_app suf rest H Hr). rewrite Ht. reflexivity.
  - apply andb_true_iff in H. destruct H as [Hn Hk].
    assert (Hb: boundary c = false).
    { unfold no_boundary in Hn. simpl in Hn. apply andb_true_iff in Hn. destruct Hn as [Hn _]. apply negb_true_iff in Hn. exact Hn. }
    unfold boundary in Hb. apply orb_false_iff in Hb. destruct Hb as [Hb Hrp]. apply orb_false_iff in Hb. destruct Hb as [_ Hlp].
    rewrite Hlp, Hrp.
    change (c :: t' ++ rest) with ((c :: t') ++ rest). rewrite (scan_word_app (c :: t') rest Hn Hr).
    rewrite keyword_word by (apply negb_true_iff; exact Hk). reflexivity.
Qed.

Lemma shape_head t : atom_shape t -> exists c t', t = c :: t' /\ N.eqb c c_space = false.
Proof.
  intros H. specialize (H [] eq_refl). rewrite app_nil_r in H.
  destruct t as [|c t']; [discriminate|]. exists c, t'. split; [reflexivity|].
  destruct (N.eqb c c_space) eqn:E; [|reflexivity]. apply N.eqb_eq in E. subst c.
  cbn in H. discriminate.
Qed.

Section Show.
Variable atxt : nat -> bool -> str.
Variables ftxt vtxt : nat -> str.
Definition stxt := show_tok vb_syntax atxt ftxt vtxt.
Definition ltok_of (t : tok) : ltok :=
  match t with TOp o => XOp o | TL => XL | TR => XR | _ => XAtom (stxt t) end.

Lemma bnd_next u r : okafter u = true -> bnd (show vb_syntax atxt ftxt vtxt (u :: r)) = true.
Proof. destruct u as [| | [ | | ] | | ]; try discriminate; intros _; reflexivity. Qed.

Lemma lex_show_fuel ts : (forall t, In t ts -> is_atom t = true -> atom_shape (stxt t)) -> sep_ok ts = true ->
  forall fuel, (List.length (show vb_syntax atxt ftxt vtxt ts) < fuel)%nat ->
  lexq fuel (show vb_syntax atxt ftxt vtxt ts) = Some (map ltok_of ts).
Proof.
  induction ts as [|t r IH]; intros Hsh Hsep fuel Hf.
  - destruct fuel; [inversion Hf|]. reflexivity.
  - assert (Hsh': forall t, In t r -> is_atom t = true -> atom_shape (stxt t))
      by (intros u Hu; apply Hsh; right; exact Hu).
    cbn [sep_ok] in Hsep. apply andb_true_iff in Hsep. destruct Hsep as [Hnext Hsep].
    specialize (IH Hsh' Hsep).
    change (show vb_syntax atxt ftxt vtxt (t :: r)) with (stxt t ++ show vb_syntax atxt ftxt vtxt r) in *.
    set (R := show vb_syntax atxt ftxt vtxt r) in *.
    assert (Hatom: is_atom t = true -> lexq fuel (stxt t ++ R) = Some (map ltok_of (t :: r))).
    { intros Ha. pose proof (Hsh t (or_introl eq_refl) Ha) as Hs.
      destruct (shape_head _ Hs) as [c [t' [Ht Hc]]].
      assert (Hb: bnd R = true).
      { rewrite Ha in Hnext. destruct r as [|u r']; [reflexivity|]. apply bnd_next. exact Hnext. }
      destruct fuel as [|f]; [inversion Hf|].
      cbn [lexq]. rewrite Ht. cbn [app]. rewrite Hc.
      change (c :: t' ++ R) with ((c :: t') ++ R). rewrite <- Ht. rewrite (Hs R Hb).
      rewrite IH.
      - cbn [map]. destruct t; try discriminate; reflexivity.
      - rewrite app_length, Ht in Hf. simpl in Hf. lia. }
    destruct t as [a n|d fl l|o| |].
    + apply Hatom. reflexivity.
    + apply Hatom. reflexivity.
    + destruct o.
      * (* not *)
        change (stxt (TOp ONot)) with (s "not ") in *.
        destruct fuel as [|[|f]]; try (simpl in Hf; lia).
        change (lexq (S (S f)) (s "not " ++ R)) with (match lexq f R with Some l => Some (XOp ONot :: l) | None => None end).
        rewrite IH by (rewrite app_length in Hf; simpl in Hf; lia). reflexivity.
      * change (stxt (TOp OAnd)) with (s " and ") in *.
        destruct fuel as [|[|[|f]]]; try (simpl in Hf; lia).
        change (lexq (S (S (S f))) (s " and " ++ R)) with (match lexq f R with Some l => Some (XOp OAnd :: l) | None => None end).
        rewrite IH by (rewrite app_length in Hf; simpl in Hf; lia). reflexivity.
      * change (stxt (TOp OOr)) with (s " or ") in *.
        destruct fuel as [|[|[|f]]]; try (simpl in Hf; lia).
        change (lexq (S (S (S f))) (s " or " ++ R)) with (match lexq f R with Some l => Some (XOp OOr :: l) | None => None end).
        rewrite IH by (rewrite app_length in Hf; simpl in Hf; lia). reflexivity.
    + change (stxt TL) with (s "(") in *. destruct fuel as [|f]; [inversion Hf|].
      change (lexq (S f) (s "(" ++ R)) with (match lexq f R with Some l => Some (XL :: l) | None => None end).
      rewrite IH by (rewrite app_length in Hf; simpl in Hf; lia). reflexivity.
    + change (stxt TR) with (s ")") in *. destruct fuel as [|f]; [inversion Hf|].
      change (lexq (S f) (s ")" ++ R)) with (match lexq f R with Some l => Some (XR :: l) | None => None end).
      rewrite IH by (rewrite app_length in Hf; simpl in Hf; lia). reflexivity.
Qed.

Theorem lex_show ts : (forall t, In t ts -> is_atom t = true -> shapeb (stxt t) = true) -> sep_ok ts = true ->
  lex (show vb_syntax atxt ftxt vtxt ts) = Some (map ltok_of ts).
Proof.
  intros Hsh Hsep. unfold lex. apply lex_show_fuel; [|exact Hsep|lia].
  intros t Ht Ha. apply shapeb_shape. apply Hsh; assumption.
Qed.
End Show.

(* ---------------------------------------------------------------------------------------------- *)
(* the conversion always separates atoms *)
Lemma sep_ok_app a t b : okafter t = true -> sep_ok a = true -> sep_ok (t :: b) = true -> sep_ok (a ++ t :: b) = true.
Proof.
  intros Ht. induction a as [|x a IH]; intros Ha Hb; [exact Hb|].
  cbn [sep_ok] in Ha. apply andb_true_iff in Ha. destruct Ha as [Hx Ha].
  cbn [app sep_ok]. rewrite (IH Ha Hb). rewrite andb_true_r.
  destruct (is_atom x); [|reflexivity]. destruct a as [|y a']; [exact Ht|exact Hx].
Qed.
Lemma sep_ok_group x : sep_ok x = true -> sep_ok (group x) = true.
Proof.
  intros H. unfold group. cbn [sep_ok is_atom]. apply sep_ok_app; [reflexivity|exact H|reflexivity].
Qed.
Lemma sep_ok_join o l : o <> ONot -> Forall (fun x => sep_ok x = true) l -> sep_ok (join (TOp o) l) = true.
Proof.
  intros Ho H. induction H as [|x r Hx Hr IH]; [reflexivity|].
  destruct r as [|y r']; [exact Hx|].
  change (join (TOp o) (x :: y :: r')) with (x ++ TOp o :: join (TOp o) (y :: r')).
  apply sep_ok_app; [destruct o; [congruence|reflexivity|reflexivity] | exact Hx |].
  cbn [sep_ok is_atom andb]. exact IH.
Qed.

Theorem conv_sep_ok K c : forall un, sep_ok (conv K un c) = true.
Proof.
  induction c as [k f n a|args IH|f ps|a|a IH|o args IH] using cond_ind'; intros un.
  - reflexivity.
  - cbn [conv]. apply sep_ok_join; [discriminate|].
    apply Forall_forall. intros x Hx. apply in_map_iff in Hx. destruct Hx as [y [<- Hy]].
    rewrite Forall_forall in IH. destruct (cmp K OOr y); [apply IH; exact Hy|apply sep_ok_group; apply IH; exact Hy].
  - cbn [conv]. destruct (or_in K && (in_wild K || negb (existsb (fun p => fst (snd p)) ps))); [reflexivity|].
    assert (Hj: sep_ok (group (join (TOp OOr) (map (fun p : nat * (bool * bool) => [TAtom (fst p) (not_eq K && un && snd (snd p))]) ps))) = true).
    { apply sep_ok_group. apply sep_ok_join; [discriminate|]. apply Forall_forall. intros x Hx.
      apply in_map_iff in Hx. destruct Hx as [y [<- _]]. reflexivity. }
    destruct ps as [|p [|q r]]; [exact Hj|reflexivity|exact Hj].
  - cbn [conv]. destruct (not_eq K); reflexivity.
  - cbn [conv].
    assert (Hb: sep_ok (match a with
                        | CNot _ | CBin _ _ | CExp _ => group (conv K true a)
                        | _ => conv K true a end) = true).
    { destruct a; try apply sep_ok_group; apply IH. }
    destruct (not_eq K); [exact Hb|]. cbn [sep_ok is_atom andb]. exact Hb.
  - cbn [conv]. destruct (decide_in K o args); [reflexivity|].
    apply sep_ok_join; [destruct o; discriminate|].
    apply Forall_forall. intros x Hx. apply in_map_iff in Hx. destruct Hx as [y [<- Hy]].
    rewrite Forall_forall in IH. destruct (cmp K (of_bop o) y); [apply IH; exact Hy|apply sep_ok_group; apply IH; exact Hy].
Qed.
