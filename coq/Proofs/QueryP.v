(* Reading back a rendered query (theorem read_show) and the end-to-end statement: the text rendered for a
   condition tree, read by the target language's reader, denotes the tree (theorem query_meaning). *)
From Coq Require Import NArith List Bool Lia String Arith.
From PS Require Import Base.Chars Model.Backend Spec.Target Spec.Atom Spec.Lex Spec.Query
  Proofs.BackendP Proofs.BackendMainP Proofs.BackendDomP Proofs.LexP.
Import ListNotations.

(* the reader does not know the number the model gives to the field of an in-list; the parser ignores it *)
Definition norm_tok (t : tok) : tok := match t with TIn d _ l => TIn d 0 l | x => x end.

Section Parse.
Variable K : cfg.
Variable asg : nat -> bool.
Notation lvl := (lvl K).

Lemma pe_loop_norm : forall f,
  (forall i ts, pe lvl asg f i (map norm_tok ts) =
                match pe lvl asg f i ts with Some (v, r) => Some (v, map norm_tok r) | None => None end) /\
  (forall o k v r, loop lvl asg f o k v (map norm_tok r) =
                   match loop lvl asg f o k v r with Some (v', r') => Some (v', map norm_tok r') | None => None end).
Proof.
  induction f as [|f [IHp IHl]]; split; intros; try reflexivity.
  - rewrite !pe_S. destruct i as [|k].
    + destruct ts as [|[a n|d fl l|o| |] r]; try reflexivity.
      cbn [map norm_tok]. rewrite IHp.
      destruct (pe lvl asg f 3 r) as [[v [|[| | | |] r']]|]; reflexivity.
    + destruct (opat lvl (S k)) as [[| |]|].
      * destruct ts as [|t r]; [apply (IHp k [])|].
        destruct t as [a n|d fl l|[| |]| |].
        -- exact (IHp k (TAtom a n :: r)).
        -- exact (IHp k (TIn d fl l :: r)).
        -- cbn [map norm_tok]. rewrite IHp. destruct (pe lvl asg f (S k) r) as [[v r']|]; reflexivity.
        -- exact (IHp k (TOp OAnd :: r)).
        -- exact (IHp k (TOp OOr :: r)).
        -- exact (IHp k (TL :: r)).
        -- exact (IHp k (TR :: r)).
      * rewrite IHp. destruct (pe lvl asg f k ts) as [[v r]|]; [apply IHl|reflexivity].
      * rewrite IHp. destruct (pe lvl asg f k ts) as [[v r]|]; [apply IHl|reflexivity].
      * apply IHp.
  - rewrite !loop_S. destruct r as [|[a n|d fl l|o'| |] r']; try reflexivity.
    cbn [map norm_tok]. destruct (op_eqb o' o); [|reflexivity].
    rewrite IHp. destruct (pe lvl asg f k r') as [[v' r'']|]; [apply IHl|reflexivity].
Qed.

Lemma pe_norm f i ts v : pe lvl asg f i ts = Some (v, []) -> pe lvl asg f i (map norm_tok ts) = Some (v, []).
Proof. intros H. destruct (pe_loop_norm f) as [Hp _]. rewrite Hp, H. reflexivity. Qed.
End Parse.

Section Read.
Variable W : char -> bool.
Variable keys : list akey.
Variable atxt : nat -> bool -> str.
Variables ftxt vtxt : nat -> str.
Notation text := (stxt atxt ftxt vtxt).

(* what the harness establishes per atom of a case, and what the leaf theorems provide for rendered leaves *)
Definition atom_reads (t : tok) : Prop :=
  match t with
  | TAtom a n => exists av, atom_decode W (text t) = Some av /\ index_of (key_of av) keys 0 = Some a /\ a_neg av = n
  | TIn d _ l => atom_decode W (text t) = None /\
                 exists ks, in_decode W (text t) = Some (d, ks) /\
                            all_some (map (fun k => index_of k keys 0) ks) = Some l
  | _ => True
  end.

Lemma tok_of_reads t : atom_reads t -> tok_of W keys (ltok_of atxt ftxt vtxt t) = Some (norm_tok t).
Proof.
  destruct t as [a n|d fl l|o| |]; cbn [atom_reads ltok_of tok_of norm_tok]; try reflexivity.
  - intros [av [Hd [Hi Hn]]]. rewrite Hd, Hi, Hn. reflexivity.
  - intros [Hd [ks [Hi Hk]]]. rewrite Hd, Hi, Hk. reflexivity.
Qed.

Lemma all_some_map ts : Forall atom_reads ts ->
  all_some (map (tok_of W keys) (map (ltok_of atxt ftxt vtxt) ts)) = Some (map norm_tok ts).
Proof.
  induction 1 as [|t r Ht Hr IH]; [reflexivity|].
  cbn [map all_some]. rewrite (tok_of_reads t Ht), IH. reflexivity.
Qed.

Theorem read_show ts :
  (forall t, In t ts -> is_atom t = true -> shapeb (text t) = true) -> sep_ok ts = true -> Forall atom_reads ts ->
  read_query W keys (show vb_syntax atxt ftxt vtxt ts) = Some (map norm_tok ts).
Proof.
  intros Hs Hsep Hr. unfold read_query. rewrite (lex_show atxt ftxt vtxt ts Hs Hsep). apply all_some_map. exact Hr.
Qed.

(* end to end: render the tree, read the text, parse: the meaning of the tree *)
Theorem query_meaning K asg c : cfg_ok K = true -> wfb K c = true ->
  (forall t, In t (conv K false c) -> is_atom t = true -> shapeb (text t) = true) ->
  Forall atom_reads (conv K false c) ->
  exists ts, read_query W keys (show vb_syntax atxt ftxt vtxt (conv K false c)) = Some ts /\
             exists f, pe (lvl K) asg f 3 ts = Some (den asg c, []).
Proof.
  intros HK Hw Hs Hr. exists (map norm_tok (conv K false c)). split.
  - apply read_show; [exact Hs|apply conv_sep_ok|exact Hr].
  - destruct (structure_b K asg c HK Hw) as [f Hf]. exists f. apply pe_norm. exact Hf.
Qed.
End Read.
