From Coq Require Import NArith List Bool Arith Lia.
From PS Require Import Base.Chars Model.FieldName.
Import ListNotations.
Local Open Scope nat_scope.

Section F.
Variable K : fcfg.
Variable ec : char.
Variable pat : nat -> bool.
Hypothesis Hesc : f_escape K = Some [ec].

(* every occurrence of the escape character is matched by the escape pattern *)
Definition esc_covered (i : nat) (f : str) : Prop :=
  forall k c, nth_error f k = Some c -> c = ec -> pat (i + k) = true.

Lemma esc_covered_tl i c f : esc_covered i (c :: f) -> esc_covered (S i) f.
Proof. intros H k d Hk Hd. replace (S i + k) with (i + S k) by lia. apply (H (S k) d); auto. Qed.

Definition FB (q : option char) (rest : str) (l : str) : Prop :=
  forall fuel, length rest < fuel -> fbody fuel (Some ec) q rest = Some l.

Lemma fb_esc q c rest l : FB q rest l -> FB q (ec :: c :: rest) (c :: l).
Proof.
  intros H [|n] Hn; [inversion Hn|]. cbn [fbody]. rewrite N.eqb_refl.
  rewrite H by (simpl in Hn; lia). reflexivity.
Qed.
Lemma fb_lit q c rest l : N.eqb ec c = false ->
  (match q with Some x => N.eqb x c | None => false end) = false ->
  FB q rest l -> FB q (c :: rest) (c :: l).
Proof.
  intros He Hq H [|n] Hn; [inversion Hn|].
  assert (Hr: fbody n (Some ec) q rest = Some l) by (apply H; simpl in Hn; lia).
  destruct q as [x|]; cbn [fbody]; rewrite He; [rewrite Hq|]; rewrite Hr; reflexivity.
Qed.

(* q: the terminator the reader looks for (None when the name is not quoted);
   a quote character inside a quoted name must be escaped *)
Lemma escape_from_fb q f : forall i rest l,
  esc_covered i f ->
  (forall x, q = Some x -> (f_quote K = Some x /\ f_escape_quote K = true) \/ ~ In x f) ->
  FB q rest l -> FB q (escape_from K [ec] pat i f ++ rest) (f ++ l).
Proof.
  induction f as [|c f IH]; intros i rest l Hc Hq HD; [exact HD|].
  cbn [escape_from]. rewrite <- app_assoc. cbn [app].
  assert (IH': FB q (escape_from K [ec] pat (S i) f ++ rest) (f ++ l)).
  { apply IH; auto.
    - eapply esc_covered_tl; eauto.
    - intros x Hx. destruct (Hq x Hx) as [H|H]; [left; exact H | right; intros Hin; apply H; right; exact Hin]. }
  destruct (esc_pos K pat i c) eqn:Ep.
  - cbn [app]. apply fb_esc. exact IH'.
  - cbn [app]. apply fb_lit; auto.
    + destruct (N.eqb ec c) eqn:E; auto. apply N.eqb_eq in E. subst c.
      unfold esc_pos in Ep. apply orb_false_iff in Ep. destruct Ep as [Ep _].
      specialize (Hc 0 ec eq_refl eq_refl). rewrite Nat.add_0_r in Hc. congruence.
    + destruct q as [x|]; auto. destruct (N.eqb x c) eqn:E; auto. apply N.eqb_eq in E. subst c.
      destruct (Hq x eq_refl) as [[H1 H2]|H].
      * unfold esc_pos in Ep. rewrite H1, H2, N.eqb_refl in Ep. rewrite orb_true_r in Ep. discriminate.
      * exfalso. apply H. left. reflexivity.
Qed.

Theorem field_roundtrip qd f :
  esc_covered 0 f ->
  (forall x, f_quote K = Some x -> qd = true -> x <> ec /\ (f_escape_quote K = true \/ ~ In x f)) ->
  fread (Some ec) (f_quote K) (match f_quote K with Some _ => qd | None => false end)
        (escape_and_quote_field K pat qd f) = Some f.
Proof.
  intros Hc Hq. unfold escape_and_quote_field. rewrite Hesc.
  destruct (f_quote K) as [x|] eqn:Eq.
  - destruct qd.
    + destruct (Hq x eq_refl eq_refl) as [Hne Hin].
      unfold fread. rewrite N.eqb_refl.
      assert (Cl: FB (Some x) [x] []).
      { intros [|n] Hn; [inversion Hn|]. cbn [fbody].
        replace (N.eqb ec x) with false by (symmetry; apply N.eqb_neq; congruence).
        rewrite N.eqb_refl. reflexivity. }
      pose proof (escape_from_fb (Some x) f 0 [x] [] Hc) as H.
      rewrite app_nil_r in H. apply H; auto; try (rewrite app_length; simpl; lia).
      intros y Hy; inversion Hy; subst y; destruct Hin as [Hin|Hin]; [left; split; auto | right; exact Hin].
    + unfold fread.
      assert (Cl: FB None [] []) by (intros [|n] Hn; [inversion Hn | reflexivity]).
      pose proof (escape_from_fb None f 0 [] [] Hc) as H. rewrite !app_nil_r in H.
      apply H; auto. intros y Hy; discriminate.
  - unfold fread.
    assert (Cl: FB None [] []) by (intros [|n] Hn; [inversion Hn | reflexivity]).
    pose proof (escape_from_fb None f 0 [] [] Hc) as H. rewrite !app_nil_r in H.
    apply H; auto. intros y Hy; discriminate.
Qed.
End F.

(* the shipped test backend escapes nothing in field names but quotes with ': a name containing
   the quote character cannot be read back *)
Definition test_backend_fcfg : fcfg := {| f_quote := Some 39%N; f_escape := None; f_escape_quote := true |}.
Lemma field_quote_unescaped_refuted : exists f,
  fread None (Some 39%N) true (escape_and_quote_field test_backend_fcfg (fun _ => false) true f) <> Some f.
Proof. exists [97%N; 39%N; 98%N]. vm_compute. discriminate. Qed.
