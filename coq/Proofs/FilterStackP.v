(* C11 - stacked filters: SigmaCollection.apply_filters folds apply_on_rule over all filters.
   The conditions left by an earlier filter contain patterns that begin with '_filt_<earlier prefix>_';
   they cannot select the detections a later filter adds, because the re-draw loop makes the later
   prefix different from every prefix in use. *)
From Coq Require Import NArith ZArith List Bool Arith Lia.
From PS Require Import Base.Chars Base.Outcome Model.FCondParse Model.FCond Spec.FGlob Spec.FCondGrammar
                       Proofs.FGlobP Proofs.FCondParseP Proofs.FCondP Model.Filter Spec.FilterSpec Proofs.FilterP.
Import ListNotations.
Open Scope N_scope.

Lemma prefixb_len_eq q p t : prefixb q (p ++ t) = true -> length q = length p -> q = p.
Proof.
  revert p. induction q as [|x q IH]; intros [|y p] H L; simpl in *; try reflexivity; try discriminate.
  apply andb_true_iff in H. destruct H as [H1 H2]. apply N.eqb_eq in H1. subst. f_equal. apply IH; [exact H2|lia].
Qed.

(* a pattern is harmless for every later filter: it does not begin with '_', or it is the renaming of
   a pattern under a prefix of length L that some detection name of the rule already carries *)
Definition ok_pat (L : nat) (nr : list str) (pat : str) : Prop :=
  us pat = false \/
  exists q pat0, pat = rn_pat q pat0 /\ wf_prefix q = true /\ length q = L /\ exists m, In m nr /\ prefixb q m = true.

Definition ok_pats (L : nat) (nr : list str) (e : expr) : Prop := forall pat, In pat (patterns_of e) -> ok_pat L nr pat.

Lemma ok_pat_clean L nr p nf e :
  wf_prefix p = true -> length p = L -> (forall m, In m nr -> prefixb p m = false) ->
  ok_pats L nr e -> clean p nf e = true.
Proof.
  intros Hp HL Hf Hok. unfold clean. apply forallb_forall. intros pat Hpat. apply forallb_forall. intros n _.
  apply negb_true_iff. destruct (Hok _ Hpat) as [Hu|[q [pat0 [-> [Hq [Lq [m [Hm Hpm]]]]]]]].
  - unfold selected. unfold wf_prefix in Hp. apply andb_true_iff in Hp. destruct Hp as [_ Hpu].
    rewrite (us_pre p n Hpu), Hu. apply andb_false_r.
  - destruct (selected (rn_pat q pat0) (pre p n)) eqn:E; [|reflexivity].
    apply (selected_rn_prefix q Hq) in E. unfold pre in E. apply prefixb_len_eq in E; [|lia]. subst q.
    rewrite (Hf _ Hm) in Hpm. discriminate.
Qed.

Lemma ok_pat_mono L nr nr' pat : (forall m, In m nr -> In m nr') -> ok_pat L nr pat -> ok_pat L nr' pat.
Proof.
  intros Hs [Hu|[q [pat0 [E [Hq [Lq [m [Hm Hpm]]]]]]]]; [left; exact Hu|].
  right. exists q, pat0. repeat split; try assumption. exists m. split; [apply Hs, Hm | exact Hpm].
Qed.

(* the state a rule is in while filters are being applied *)
Definition st (L : nat) (r : rule) : Prop :=
  Forall (fun c => exists e, reads (r_dets r) c e /\ ok_pats L (names (r_dets r)) e) (r_conds r).

Definition filter_ok (f : sfilter) : Prop :=
  NoDup (names (f_dets f)) /\
  (exists ef, reads (f_dets f) (f_cond f) ef /\ plain ef = true) /\
  (forall n, In n (names (f_dets f)) -> us n = false).

Lemma reads_new p dr df c e fc ef :
  wf_prefix p = true -> fresh p dr = true -> (forall n, In n (names df) -> us n = false) ->
  reads dr c e -> reads df fc ef -> plain ef = true ->
  reads (dr ++ map (ren p) df) (new_cond c (rewrite p fc)) (EAnd e (rename p ef)).
Proof.
  intros Hp Hf Hus [HS [Hw [Hd Hi]]] [HSf [Hwf [Hdf Hif]]] Hpl.
  assert (Hfr : forall n, In n (names dr) -> prefixb p n = false) by (apply fresh_spec; exact Hf).
  split; [apply spells_new_cond; try assumption; apply wf_prefix_words; exact Hp|].
  split; [simpl; rewrite Hw; apply wf_rename; assumption|].
  rewrite names_app, names_ren. split; [apply defined_new; assumption | apply inhabited_new; assumption].
Qed.

Lemma st_step L p f r ef :
  wf_prefix p = true -> length p = L -> fresh p (r_dets r) = true -> NoDup (names (f_dets f)) ->
  reads (f_dets f) (f_cond f) ef -> plain ef = true -> (forall n, In n (names (f_dets f)) -> us n = false) ->
  st L r -> st L (apply_with p f r).
Proof.
  intros Hp HL Hf Hnd Hrf Hpl Hus Hst. unfold st.
  assert (D : r_dets (apply_with p f r) = r_dets r ++ map (ren p) (f_dets f)).
  { unfold apply_with. simpl. apply add_dets_fresh; assumption. }
  rewrite D. unfold apply_with. cbn [r_conds with_detection]. apply Forall_forall. intros c' Hc'.
  apply in_map_iff in Hc'. destruct Hc' as [c [<- Hc]]. unfold st in Hst. rewrite Forall_forall in Hst.
  destruct (Hst c Hc) as [e [Hr Hok]]. exists (EAnd e (rename p ef)). split; [apply reads_new; assumption|].
  intros pat Hpat. simpl in Hpat. rewrite patterns_rename in Hpat. apply in_app_or in Hpat. destruct Hpat as [Hpat|Hpat].
  - eapply ok_pat_mono; [|apply Hok, Hpat]. intros m Hm. rewrite names_app. apply in_or_app. left. exact Hm.
  - apply in_map_iff in Hpat. destruct Hpat as [pat0 [<- Hpat0]]. right. exists p, pat0. repeat split; try assumption.
    (* the filter has a detection: its selector pat0 is inhabited *)
    destruct Hrf as [_ [_ [_ Hif]]]. unfold inhabited in Hif. rewrite forallb_forall in Hif. specialize (Hif _ Hpat0).
    destruct (sel_names (names (f_dets f)) pat0) as [|n l] eqn:E; [discriminate|].
    assert (Hn : In n (names (f_dets f))).
    { assert (I : In n (sel_names (names (f_dets f)) pat0)) by (rewrite E; left; reflexivity).
      unfold sel_names in I. apply filter_In in I. apply I. }
    exists (pre p n). split; [|apply prefixb_pre]. rewrite names_app, names_ren. apply in_or_app. right. apply in_map. exact Hn.
Qed.

Lemma should_apply_stable f p f0 r : should_apply f (apply_with p f0 r) = should_apply f r.
Proof. reflexivity. Qed.

Lemma pick_suffix (P : str -> Prop) draws d p rest : Forall P draws -> pick draws d = Some (p, rest) -> Forall P rest.
Proof.
  induction draws as [|x draws IH]; simpl; [discriminate|]. intros HF H. inversion HF; subst.
  destruct (fresh (prefix_of x) d); [inversion H; subst; assumption | apply IH; assumption].
Qed.

Lemma Forall2_trans3 {A} (P Q R : A -> A -> Prop) l1 l2 l3 :
  (forall a b c, P a b -> Q b c -> R a c) -> Forall2 P l1 l2 -> Forall2 Q l2 l3 -> Forall2 R l1 l3.
Proof.
  intros H F1. revert l3. induction F1; intros l3 F2; inversion F2; subst; constructor; eauto.
Qed.

(* what the rule means after all filters: the value of its condition AND the values of the conditions of
   the filters that target it, in order *)
Definition stacked (r : rule) (fs : list sfilter) (r' : rule) : Prop :=
  Forall2 (fun c c' => forall asgd, exists x ys,
             cond_value (r_dets r) c asgd = Some x /\
             Forall2 (fun f y => cond_value (f_dets f) (f_cond f) asgd = Some y) (filter (fun f => should_apply f r) fs) ys /\
             cond_value (r_dets r') c' asgd = Some (fold_left andb ys x))
          (r_conds r) (r_conds r').

Lemma stack_gen L : forall fs draws r r' rest,
  Forall (fun d => lower_draw d = true /\ length (prefix_of d) = L) draws ->
  Forall (fun f => should_apply f r = true -> filter_ok f) fs ->
  st L r ->
  apply_all draws fs r = Some (r', rest) ->
  stacked r fs r'.
Proof.
  induction fs as [|f fs IH]; intros draws r r' rest Hd Hfs Hst H.
  - simpl in H. inversion H; subst. unfold stacked. simpl.
    unfold st in Hst. induction Hst as [|c l [e [[HS [Hw [Hdf Hi]]] _]] _ IHl]; constructor; [|exact IHl].
    intros asgd. eexists _, []. split; [apply cond_value_meaning; eassumption|]. split; [constructor|].
    simpl. apply cond_value_meaning; assumption.
  - simpl in H. inversion Hfs as [|? ? Hf Hfs']; subst.
    unfold apply_on_rule in H. destruct (should_apply f r) eqn:A.
    + destruct (pick draws (r_dets r)) as [[p rest0]|] eqn:P; [|discriminate].
      destruct (pick_spec _ _ _ _ P) as [x [Hx [-> Hfr]]].
      pose proof (pick_suffix _ _ _ _ _ Hd P) as Hd'.
      rewrite Forall_forall in Hd. destruct (Hd x Hx) as [Hlow HL].
      pose proof (wf_prefix_of x Hlow) as Hp.
      destruct (Hf eq_refl) as [Hnd [[ef [Hrf Hpl]] Hus]].
      set (r1 := apply_with (prefix_of x) f r) in *.
      assert (St1 : st L r1) by (apply (st_step L _ _ _ ef); assumption).
      assert (N : narrowed r f r1).
      { apply (meaning_with (prefix_of x) f r ef); try assumption.
        revert Hst. unfold st. apply Forall_impl. intros c [e [Hr Hok]]. exists e. split; [exact Hr|].
        apply (ok_pat_clean L (names (r_dets r))); try assumption. apply fresh_spec. exact Hfr. }
      assert (S1 : stacked r1 fs r').
      { apply (IH rest0 r1 r' rest); try assumption. }
      unfold stacked in *. simpl. rewrite A.
      eapply Forall2_trans3; [|exact N|exact S1].
      intros a b c Hab Hbc asgd. destruct (Hab asgd) as [xa [ya [E1 [E2 E3]]]].
      destruct (Hbc asgd) as [xb [ys [F1 [F2 F3]]]]. rewrite E3 in F1. inversion F1; subst xb.
      exists xa, (ya :: ys). split; [exact E1|]. split; [constructor; assumption|]. simpl. exact F3.
    + unfold stacked. simpl. rewrite A. apply (IH draws r r' rest); assumption.
Qed.

Definition draws_ok (L : nat) (draws : list str) : Prop :=
  Forall (fun d => lower_draw d = true /\ length (prefix_of d) = L) draws.

Definition rule_ok (r : rule) : Prop :=
  Forall (fun c => exists e, reads (r_dets r) c e /\ no_us_patterns e = true) (r_conds r).

Lemma rule_ok_st L r : rule_ok r -> st L r.
Proof.
  unfold rule_ok, st. apply Forall_impl. intros c [e [Hr Hn]]. exists e. split; [exact Hr|].
  intros pat Hpat. left. unfold no_us_patterns in Hn. rewrite forallb_forall in Hn. apply negb_true_iff. apply Hn, Hpat.
Qed.

Theorem stacked_main L draws fs r r' rest :
  draws_ok L draws ->
  Forall (fun f => should_apply f r = true -> filter_ok f) fs ->
  rule_ok r ->
  apply_all draws fs r = Some (r', rest) ->
  stacked r fs r'.
Proof. intros Hd Hf Hr H. eapply stack_gen; eauto. apply rule_ok_st. exact Hr. Qed.

Lemma apply_all_suffix (P : str -> Prop) fs : forall draws r r' rest,
  Forall P draws -> apply_all draws fs r = Some (r', rest) -> Forall P rest.
Proof.
  induction fs as [|f fs IH]; intros draws r r' rest HF H; simpl in H.
  - inversion H; subst. exact HF.
  - unfold apply_on_rule in H. destruct (should_apply f r).
    + destruct (pick draws (r_dets r)) as [[p rest0]|] eqn:Pk; [|discriminate].
      eapply IH; [|exact H]. eapply pick_suffix; eassumption.
    + eapply IH; eassumption.
Qed.

(* SigmaCollection.apply_filters: every rule of the collection, all filters, one shared stream of draws *)
Theorem collection_main L fs : forall rs draws rs' rest,
  draws_ok L draws ->
  Forall (fun r => rule_ok r /\ Forall (fun f => should_apply f r = true -> filter_ok f) fs) rs ->
  apply_filters draws fs rs = Some (rs', rest) ->
  Forall2 (fun r r' => stacked r fs r') rs rs'.
Proof.
  induction rs as [|r rs IH]; intros draws rs' rest Hd Hr H; simpl in H.
  - inversion H; subst. constructor.
  - destruct (apply_all draws fs r) as [[r' rest0]|] eqn:A; [|discriminate].
    destruct (apply_filters rest0 fs rs) as [[out rest1]|] eqn:B; [|discriminate].
    inversion H; subst. inversion Hr as [|? ? [Hok Hfs] Hr']; subst. constructor.
    + eapply stacked_main; eassumption.
    + eapply IH; [|exact Hr'|exact B]. eapply apply_all_suffix; eassumption.
Qed.

(* a rule no filter targets (in particular every correlation rule) leaves the collection as it entered,
   and consumes no draw *)
Theorem collection_untouched fs : forall draws r,
  Forall (fun f => should_apply f r = false) fs -> apply_all draws fs r = Some (r, draws).
Proof.
  induction fs as [|f fs IH]; intros draws r H; simpl; [reflexivity|].
  inversion H; subst. rewrite untouched by assumption. apply IH. assumption.
Qed.

Lemma correlation_never r f : r_kind r = KCorrelation -> should_apply f r = false.
Proof. intros H. unfold should_apply. rewrite H. reflexivity. Qed.
