From Coq Require Import List Arith Bool Lia.
From PS Require Import Model.Backend Spec.Target Proofs.BackendP.
Import ListNotations.
Open Scope nat_scope.

(* nested induction principle for condition trees *)
Section Ind.
  Variable P : cond -> Prop.
  Hypothesis Hatom : forall k f n a, P (CAtom k f n a).
  Hypothesis Hexp : forall args, Forall P args -> P (CExp args).
  Hypothesis Hfresh : forall f ps, P (COrFresh f ps).
  Hypothesis Hnex : forall a, P (CNotExists a).
  Hypothesis Hnot : forall c, P c -> P (CNot c).
  Hypothesis Hbin : forall o args, Forall P args -> P (CBin o args).
  Fixpoint cond_ind' (c : cond) : P c :=
    match c with
    | CAtom k f n a => Hatom k f n a
    | CExp args => Hexp args ((fix go l : Forall P l :=
          match l with [] => Forall_nil P | x :: r => Forall_cons x (cond_ind' x) (go r) end) args)
    | COrFresh f ps => Hfresh f ps
    | CNotExists a => Hnex a
    | CNot a => Hnot a (cond_ind' a)
    | CBin o args => Hbin o args ((fix go l : Forall P l :=
          match l with [] => Forall_nil P | x :: r => Forall_cons x (cond_ind' x) (go r) end) args)
    end.
End Ind.

Section M.
Variable K : cfg.
Variable asg : nat -> bool.
Hypothesis lvl_range : forall o, 1 <= lvl K o <= 3.
Hypothesis lvl_inj : forall a b, lvl K a = lvl K b -> a = b.

Notation den := (den asg).
Notation PE := (PE K asg).
Notation Operand := (Operand K asg).
Notation OpSeq := (OpSeq K asg).
Notation stops := (stops K).

(* The domain of the theorem.  Operators and expansions have arguments; the on-the-fly
   NOT(exists) rewrite needs a backend whose NOT binds tightest and is wrong in not-equals mode;
   in not-equals mode (convert_not_as_not_eq) a NOT is only sound directly above a leaf whose
   template has a negated twin. *)
Definition not_arg_ok (a : cond) : Prop :=
  not_eq K = false \/ match a with CAtom _ _ true _ => True | _ => False end.
Fixpoint wf (c : cond) : Prop :=
  match c with
  | CAtom _ _ _ _ => True
  | COrFresh _ ps => ps <> []
  | CNotExists _ => lvl K ONot = 1 /\ not_eq K = false
  | CNot a => wf a /\ not_arg_ok a
  | CExp args => args <> [] /\ (fix all l := match l with [] => True | x :: r => wf x /\ all r end) args
  | CBin _ args => args <> [] /\ (fix all l := match l with [] => True | x :: r => wf x /\ all r end) args
  end.
Fixpoint wf_all (l : list cond) : Prop := match l with [] => True | x :: r => wf x /\ wf_all r end.
Lemma wf_bin o args : wf (CBin o args) <-> args <> [] /\ wf_all args.
Proof. simpl. split; intros [H1 H2]; split; auto; induction args; simpl in *; intuition. Qed.
Lemma wf_exp args : wf (CExp args) <-> args <> [] /\ wf_all args.
Proof. simpl. split; intros [H1 H2]; split; auto; induction args; simpl in *; intuition. Qed.

Definition rtop (c : cond) : nat := match c with CNotExists _ => lvl K ONot | _ => top K c end.

Definition tokens_of (un : bool) (o : op) (a : cond) : list tok :=
  if cmp K o a then conv K un a else group (conv K un a).

Lemma conv_exp un args :
  conv K un (CExp args) = join (TOp OOr) (map (tokens_of un OOr) args).
Proof. reflexivity. Qed.
Lemma conv_bin un o args :
  conv K un (CBin o args) =
  match decide_in K o args with
  | Some f => [TIn (match o with BOr => true | BAnd => false end) f (map atom_of args)]
  | None => join (TOp (of_bop o)) (map (tokens_of un (of_bop o)) args)
  end.
Proof. reflexivity. Qed.

Lemma cmp_true o a : cmp K o a = true -> top K a <= lvl K o /\ (parenthesize K = true -> is_leaf a = true).
Proof.
  unfold cmp. destruct (parenthesize K); simpl.
  - destruct (is_leaf a); simpl; [|discriminate]. intros H. apply Nat.leb_le in H. auto.
  - intros H. apply Nat.leb_le in H. split; auto. discriminate.
Qed.

Lemma lvl_not_bin o : lvl K ONot <> lvl K (of_bop o).
Proof. intros X. apply lvl_inj in X. destruct o; discriminate. Qed.
Lemma lvl_and_or : lvl K OAnd <> lvl K OOr.
Proof. intros X. apply lvl_inj in X. discriminate. Qed.

(* a leading NOT token only occurs at or below the node's real level *)
Lemma hd_not c : wf c -> forall un rest, hd_is (TOp ONot) (conv K un c ++ rest) -> lvl K ONot <= rtop c.
Proof.
  induction c as [k f n a|args IH|f ps|a|a IH|o args IH] using cond_ind'; intros Hw un rest Hh.
  - simpl in Hh. discriminate.
  - apply (proj1 (wf_exp _)) in Hw. destruct Hw as [Hne Hall].
    destruct args as [|a r]; [congruence|]. inversion IH as [|? ? Pa Pr]; subst.
    destruct Hall as [Hwa _]. rewrite conv_exp in Hh. cbn [map join] in Hh.
    assert (Kx: exists x, hd_is (TOp ONot) (tokens_of un OOr a ++ x)).
    { destruct (map (tokens_of un OOr) r) as [|y ys].
      - exists rest. exact Hh.
      - exists (TOp OOr :: join (TOp OOr) (y :: ys) ++ rest). rewrite <- app_assoc in Hh. exact Hh. }
    destruct Kx as [x Kx]. unfold tokens_of in Kx.
    destruct (cmp K OOr a) eqn:Ec; [|simpl in Kx; discriminate].
    specialize (Pa Hwa _ _ Kx). apply cmp_true in Ec. destruct Ec as [Ec _].
    pose proof (lvl_range OOr).
    simpl. destruct a; simpl in *; try lia; destruct Hwa; lia.
  - simpl in Hh. destruct (or_in K && (in_wild K || negb (existsb (fun p => fst (snd p)) ps))); simpl in Hh; try discriminate.
    destruct ps as [|p [|q ps']]; simpl in Hh; discriminate.
  - simpl. lia.
  - simpl. lia.
  - apply (proj1 (wf_bin _ _)) in Hw. destruct Hw as [Hne Hall].
    destruct args as [|a r]; [congruence|]. inversion IH as [|? ? Pa Pr]; subst.
    destruct Hall as [Hwa _]. rewrite conv_bin in Hh.
    destruct (decide_in K o (a :: r)); [simpl in Hh; discriminate|].
    cbn [map join] in Hh.
    assert (Kx: exists x, hd_is (TOp ONot) (tokens_of un (of_bop o) a ++ x)).
    { destruct (map (tokens_of un (of_bop o)) r) as [|y ys].
      - exists rest. exact Hh.
      - exists (TOp (of_bop o) :: join (TOp (of_bop o)) (y :: ys) ++ rest).
        rewrite <- app_assoc in Hh. exact Hh. }
    destruct Kx as [x Kx]. unfold tokens_of in Kx.
    destruct (cmp K (of_bop o) a) eqn:Ec; [|simpl in Kx; discriminate].
    specialize (Pa Hwa _ _ Kx). apply cmp_true in Ec. destruct Ec as [Ec _].
    pose proof (lvl_range (of_bop o)).
    simpl. destruct a; simpl in *; try lia; destruct Hwa; lia.
Qed.

Definition A (c : cond) := forall i rest, rtop c <= i <= 3 -> stops i rest ->
  PE i (conv K false c ++ rest) (den c) rest.

Lemma lift_to c un j i rest v : wf c -> PE j (conv K un c ++ rest) v rest ->
  rtop c <= j -> j <= i <= 3 -> stops i rest -> PE i (conv K un c ++ rest) v rest.
Proof.
  intros Hw H Ht Hi Hs. replace i with (j + (i - j)) by lia. apply lift; auto; try lia.
  - replace (j + (i - j)) with i by lia. auto.
  - intros m Hm Hl Hh. apply hd_not in Hh; auto. lia.
Qed.

Lemma lift0 ts v rest i : PE 0 (ts ++ rest) v rest -> ~ hd_is (TOp ONot) (ts ++ rest) ->
  i <= 3 -> stops i rest -> PE i (ts ++ rest) v rest.
Proof.
  intros H Hh Hi Hs. replace i with (0 + i) by lia. apply lift; auto.
Qed.

Lemma rtop_le3 c : rtop c <= 3.
Proof. destruct c; simpl; try lia; apply (lvl_le3 K lvl_range). Qed.

Lemma grouped_operand c k : wf c -> A c -> k <= 3 -> Operand k (group (conv K false c)) (den c).
Proof.
  intros Hw HA Hk rest Hs. unfold group. cbn [app]. rewrite <- app_assoc. cbn [app].
  assert (P0: PE 0 (TL :: conv K false c ++ TR :: rest) (den c) rest).
  { apply PE_group. apply HA; simpl; auto. split; [apply rtop_le3 | lia]. }
  replace k with (0 + k) by lia. apply lift; auto.
  intros m _ _ Hh. simpl in Hh. discriminate.
Qed.

Definition seqop (c : cond) : option op :=
  match c with CExp _ => Some OOr | CBin o _ => Some (of_bop o) | _ => None end.
Definition B (c : cond) := forall o, seqop c = Some o ->
  exists k, lvl K o = S k /\ OpSeq o k (conv K false c) (den c).

(* an argument, rendered for the enclosing binary operator o, is a sequence of operands of o *)
Lemma arg_opseq (o : op) k a : binary o -> lvl K o = S k ->
  wf a -> A a -> B a -> OpSeq o k (tokens_of false o a) (den a).
Proof.
  intros Hb Hk Hwa HAa HBa. unfold tokens_of.
  assert (Hk3: k <= 3) by (pose proof (lvl_le3 K lvl_range o); lia).
  destruct (cmp K o a) eqn:Ec.
  - apply cmp_true in Ec. destruct Ec as [Ec _].
    assert (Hnoto: lvl K ONot <> lvl K o).
    { intros X. apply lvl_inj in X. apply Hb. auto. }
    destruct a as [kk f n x|args2|f ps|x|x|o2 args2].
    + apply os1. intros rest Hs. apply HAa; auto. simpl. lia.
    + (* expansion: an OR sequence *)
      simpl in Ec. destruct (HBa OOr eq_refl) as [k0 [Hk0 Hseq]].
      destruct o.
      * exfalso. apply Hb. reflexivity.
      * apply os1. intros rest Hs. apply HAa; auto. simpl.
        pose proof lvl_and_or. lia.
      * rewrite Hk in Hk0. inversion Hk0; subst. exact Hseq.
    + apply os1. intros rest Hs. apply HAa; auto. simpl. lia.
    + apply os1. intros rest Hs. apply HAa; auto. simpl. simpl in Hwa. destruct Hwa as [Hwa _].
      pose proof (lvl_range o). lia.
    + apply os1. intros rest Hs. apply HAa; auto. simpl in Ec |- *. lia.
    + simpl in Ec. destruct (HBa (of_bop o2) eq_refl) as [k0 [Hk0 Hseq]].
      destruct (Nat.eq_dec (lvl K (of_bop o2)) (lvl K o)) as [E|E].
      * apply lvl_inj in E. subst o. rewrite Hk in Hk0. inversion Hk0; subst. exact Hseq.
      * apply os1. intros rest Hs. apply HAa; auto. simpl. lia.
  - apply os1. apply grouped_operand; auto.
Qed.

Lemma join_opseq (o : op) k : binary o -> lvl K o = S k ->
  forall l, l <> [] -> wf_all l -> Forall (fun a => wf a -> A a /\ B a) l ->
  OpSeq o k (join (TOp o) (map (tokens_of false o) l))
        (match o with OAnd => forallb den l | _ => existsb den l end).
Proof.
  intros Hb Hk. induction l as [|a r IHr]; intros Hn Hwl HF; [congruence|].
  destruct Hwl as [Hwa Hwr]. inversion HF as [|? ? Fa Fr]; subst.
  destruct (Fa Hwa) as [HAa HBa].
  assert (Oa: OpSeq o k (tokens_of false o a) (den a)) by (apply arg_opseq; auto).
  destruct r as [|b r'].
  - cbn [map join]. destruct o; cbn [forallb existsb]; rewrite ?andb_true_r, ?orb_false_r; exact Oa.
  - assert (Or_: OpSeq o k (join (TOp o) (map (tokens_of false o) (b :: r')))
              (match o with OAnd => forallb den (b :: r') | _ => existsb den (b :: r') end)).
    { apply IHr; auto. discriminate. }
    change (join (TOp o) (map (tokens_of false o) (a :: b :: r')))
      with (tokens_of false o a ++ TOp o :: join (TOp o) (map (tokens_of false o) (b :: r'))).
    pose proof (OpSeq_app K asg _ _ _ _ _ _ Oa Or_) as X.
    destruct o; try exact X. exfalso. apply Hb. reflexivity.
Qed.

Lemma opseq_A c o k : wf c -> binary o -> lvl K o = S k -> rtop c = lvl K o ->
  OpSeq o k (conv K false c) (den c) ->
  forall i rest, rtop c <= i <= 3 -> stops i rest -> PE i (conv K false c ++ rest) (den c) rest.
Proof.
  intros Hw Hb Hk Hr Hseq i rest Hi Hs.
  apply lift_to with (j := S k); auto; try lia.
  eapply OpSeq_head; eauto. eapply stops_le; eauto. lia.
Qed.

Lemma existsb_map_fst (ps : list (nat * (bool * bool))) :
  existsb asg (map fst ps) = existsb (fun p => asg (fst p)) ps.
Proof. induction ps; simpl; auto. rewrite IHps. reflexivity. Qed.

Lemma atoms_opseq k : lvl K OOr = S k -> forall ps : list (nat * (bool * bool)), ps <> [] ->
  OpSeq OOr k (join (TOp OOr) (map (fun p => [TAtom (fst p) false]) ps))
        (existsb (fun p => asg (fst p)) ps).
Proof.
  intros Hk. assert (Hk3: k <= 3) by (pose proof (lvl_le3 K lvl_range OOr); lia).
  assert (At: forall a, Operand k [TAtom a false] (asg a)).
  { intros a rest Hs. cbn [app]. replace k with (0 + k) by lia. apply lift; auto.
    - replace (asg a) with (xorb (asg a) false) by apply xorb_false_r. apply PE_atom.
    - intros m _ _ Hh. simpl in Hh. discriminate. }
  induction ps as [|p r IH]; intros Hn; [congruence|].
  destruct r as [|q r'].
  - cbn [map join existsb]. rewrite orb_false_r. apply os1. apply At.
  - change (join (TOp OOr) (map (fun p0 => [TAtom (fst p0) false]) (p :: q :: r')))
      with ([TAtom (fst p) false] ++ TOp OOr :: join (TOp OOr) (map (fun p0 => [TAtom (fst p0) false]) (q :: r'))).
    change (existsb (fun p0 => asg (fst p0)) (p :: q :: r'))
      with (comb OOr (asg (fst p)) (existsb (fun p0 => asg (fst p0)) (q :: r'))).
    apply osS; [apply At | apply IH; discriminate].
Qed.

Lemma fresh_group (ps : list (nat * (bool * bool))) : ps <> [] ->
  forall i rest, i <= 3 -> stops i rest ->
  PE i (group (join (TOp OOr) (map (fun p => [TAtom (fst p) false]) ps)) ++ rest)
       (existsb (fun p => asg (fst p)) ps) rest.
Proof.
  intros Hn i rest Hi Hs.
  destruct (lvl_pos K lvl_range OOr) as [k Hk].
  pose proof (atoms_opseq k Hk ps Hn) as Hseq.
  remember (join (TOp OOr) (map (fun p0 : nat * (bool * bool) => [TAtom (fst p0) false]) ps)) as ts eqn:Ets.
  assert (L3: S k <= 3) by (pose proof (lvl_le3 K lvl_range OOr); lia).
  assert (Hd: ~ hd_is (TOp ONot) (ts ++ TR :: rest)).
  { subst ts. destruct ps as [|p [|q r]]; [congruence| |]; simpl; discriminate. }
  assert (P1: PE (S k) (ts ++ TR :: rest) (existsb (fun p0 => asg (fst p0)) ps) (TR :: rest)).
  { eapply OpSeq_head; eauto; [discriminate | exact I]. }
  assert (P3: PE 3 (ts ++ TR :: rest) (existsb (fun p0 => asg (fst p0)) ps) (TR :: rest)).
  { replace 3 with (S k + (3 - S k)) by lia. apply lift; auto; try lia.
    replace (S k + (3 - S k)) with 3 by lia. exact I. }
  apply PE_group in P3.
  unfold group. cbn [app]. rewrite <- app_assoc. cbn [app].
  replace i with (0 + i) by lia. apply lift; auto; try lia.
  intros m _ _ Hh. simpl in Hh. discriminate.
Qed.

(* when the in-expression is chosen, every argument is a plain atom *)
Lemma decide_in_atoms o args f : decide_in K o args = Some f ->
  forall x, In x args -> den x = asg (atom_of x).
Proof.
  unfold decide_in. destruct (negb _); [discriminate|].
  destruct args as [|c r]; [discriminate|].
  destruct (in_field c) as [g|] eqn:Eg; [|discriminate].
  destruct (forallb _ (c :: r) && _) eqn:Ef; [|discriminate].
  intros _ x Hx. apply andb_true_iff in Ef. destruct Ef as [Ef _].
  rewrite forallb_forall in Ef. specialize (Ef x Hx).
  destruct x as [[s|s| | |] [ff|] n a| | | | |]; simpl in Ef; try discriminate; reflexivity.
Qed.
Lemma existsb_ext' (l : list cond) : (forall x, In x l -> den x = asg (atom_of x)) ->
  existsb den l = existsb asg (map atom_of l) /\ forallb den l = forallb asg (map atom_of l).
Proof.
  induction l as [|x l IH]; intros H; [split; reflexivity|].
  destruct IH as [I1 I2]; [intros y Hy; apply H; right; exact Hy|].
  simpl. rewrite (H x (or_introl eq_refl)), I1, I2. split; reflexivity.
Qed.

(* without not-equals mode the enclosing-NOT flag is irrelevant *)
Lemma conv_un : not_eq K = false -> forall c un, conv K un c = conv K false c.
Proof.
  intros Hm. induction c as [k f n a|args IH|f ps|a|a IH|o args IH] using cond_ind'; intros un;
    try reflexivity.
  - simpl. rewrite Hm. reflexivity.
  - rewrite !conv_exp. f_equal.
    apply map_ext_in. intros a Ha. rewrite Forall_forall in IH. unfold tokens_of.
    rewrite (IH a Ha un). reflexivity.
  - simpl. rewrite Hm. reflexivity.
  - rewrite !conv_bin. destruct (decide_in K o args); [reflexivity|]. f_equal.
    apply map_ext_in. intros a Ha. rewrite Forall_forall in IH. unfold tokens_of.
    rewrite (IH a Ha un). reflexivity.
Qed.

Theorem main c : wf c -> A c /\ B c.
Proof.
  induction c as [k f n a|args IH|f ps|a|a IH|o args IH] using cond_ind'; intros Hw.
  - (* plain atom *)
    split; [|intros o E; discriminate]. intros i rest Hi Hs. simpl.
    rewrite andb_false_r. simpl.
    replace (asg a) with (xorb (asg a) false) by apply xorb_false_r.
    apply (lift0 [TAtom a false]); try lia; auto.
    + apply PE_atom. + simpl. discriminate.
  - (* expansion *)
    pose proof Hw as Hw0. apply (proj1 (wf_exp _)) in Hw. destruct Hw as [Hne Hall].
    destruct (lvl_pos K lvl_range OOr) as [k Hk].
    assert (SEQ: OpSeq OOr k (conv K false (CExp args)) (den (CExp args))).
    { rewrite conv_exp. apply (join_opseq OOr k); auto. discriminate. }
    split.
    + intros i rest Hi Hs. eapply opseq_A; eauto. discriminate.
    + intros o E. inversion E; subst. exists k. split; auto.
  - (* non-native CIDR: fresh OR *)
    split; [|intros o E; discriminate]. intros i rest Hi Hs. simpl in Hw.
    assert (Eb: forall b, not_eq K && false && b = false) by (intros b; rewrite andb_false_r; reflexivity).
    assert (Em: map (fun p : nat * (bool * bool) => [TAtom (fst p) (not_eq K && false && snd (snd p))]) ps =
                map (fun p => [TAtom (fst p) false]) ps).
    { apply map_ext. intros p. rewrite Eb. reflexivity. }
    change (conv K false (COrFresh f ps)) with
      (if or_in K && (in_wild K || negb (existsb (fun p => fst (snd p)) ps))
       then [TIn true f (map fst ps)]
       else match ps with
            | [p] => [TAtom (fst p) (not_eq K && false && snd (snd p))]
            | _ => group (join (TOp OOr) (map (fun p => [TAtom (fst p) (not_eq K && false && snd (snd p))]) ps))
            end).
    rewrite Em.
    change (den (COrFresh f ps)) with (existsb (fun p => asg (fst p)) ps).
    destruct (or_in K && (in_wild K || negb (existsb (fun p => fst (snd p)) ps))).
    + rewrite <- existsb_map_fst.
      apply (lift0 [TIn true f (map fst ps)]); try lia; auto.
      * apply (PE_in K asg true). * simpl. discriminate.
    + destruct ps as [|p [|q ps']]; [congruence| |].
      * cbn [existsb]. rewrite orb_false_r. rewrite Eb.
        replace (asg (fst p)) with (xorb (asg (fst p)) false) by apply xorb_false_r.
        apply (lift0 [TAtom (fst p) false]); try lia; auto.
        -- apply PE_atom. -- simpl. discriminate.
      * apply fresh_group; auto; try lia; discriminate.
  - (* exists: false rendered as NOT exists *)
    split; [|intros o E; discriminate]. intros i rest Hi Hs. simpl in Hw. destruct Hw as [Hw Hm]. simpl.
    rewrite Hm. simpl in Hi.
    assert (Ho: Target.opat (lvl K) 1 = Some ONot) by (rewrite <- Hw; apply opat_lvl; auto).
    assert (P1: PE 1 (TOp ONot :: TAtom a false :: rest) (negb (asg a)) rest).
    { apply PE_not_take; auto.
      replace (asg a) with (xorb (asg a) false) by apply xorb_false_r.
      apply (lift0 [TAtom a false]); try lia.
      - apply PE_atom. - simpl. discriminate.
      - eapply stops_le; eauto. lia. }
    replace i with (1 + (i - 1)) by lia. apply lift; auto; try lia;
      try (replace (1 + (i - 1)) with i by lia; auto); try (intros m Hm' Hl; lia).
  - (* NOT *)
    split; [|intros o E; discriminate]. simpl in Hw. destruct Hw as [Hw Hmode].
    destruct (IH Hw) as [HA _].
    intros i rest Hi Hs. simpl in Hi. destruct (lvl_pos K lvl_range ONot) as [k Hk].
    assert (Ho: Target.opat (lvl K) (S k) = Some ONot) by (rewrite <- Hk; apply opat_lvl; auto).
    assert (Hk3: S k <= 3) by (pose proof (lvl_le3 K lvl_range ONot); lia).
    assert (Hsk: stops (S k) rest) by (eapply stops_le; eauto; lia).
    change (den (CNot a)) with (negb (den a)).
    destruct (not_eq K) eqn:Em.
    + (* not-equals mode: the argument is a negatable atom, rendered with the negated template *)
      destruct Hmode as [Hmode|Hmode]; [congruence|].
      destruct a as [kk f [|] x| | | | |]; try contradiction.
      simpl. rewrite Em. simpl.
      apply (lift0 [TAtom x true]); try lia; auto.
      * replace (negb (asg x)) with (xorb (asg x) true) by (destruct (asg x); reflexivity). apply PE_atom.
      * simpl. discriminate.
    + set (body := match a with
                   | CNot _ | CBin _ _ | CExp _ => group (conv K true a)
                   | _ => conv K true a end).
      assert (Bd: PE (S k) (body ++ rest) (den a) rest).
      { subst body. rewrite (conv_un Em a true).
        destruct a as [kk f n x|args2|f ps|x|x|o2 args2].
        - apply HA; auto. simpl. lia.
        - apply grouped_operand; auto.
        - apply HA; auto. simpl. lia.
        - apply HA; auto. simpl. lia.
        - apply grouped_operand; auto.
        - apply grouped_operand; auto. }
      apply (PE_not_take K asg _ _ _ _ Ho) in Bd.
      change (conv K false (CNot a)) with (if not_eq K then body else TOp ONot :: body).
      rewrite Em.
      cbn [app]. replace i with (S k + (i - S k)) by lia. apply lift; auto; try lia;
        try (replace (S k + (i - S k)) with i by lia; auto); try (intros m Hm Hl; lia).
  - (* AND / OR *)
    pose proof Hw as Hw0. apply (proj1 (wf_bin _ _)) in Hw. destruct Hw as [Hne Hall].
    destruct (lvl_pos K lvl_range (of_bop o)) as [k Hk].
    assert (Hk3: k <= 3) by (pose proof (lvl_le3 K lvl_range (of_bop o)); lia).
    assert (SEQ: OpSeq (of_bop o) k (conv K false (CBin o args)) (den (CBin o args))).
    { rewrite conv_bin. destruct (decide_in K o args) as [f|] eqn:Ed.
      - pose proof (existsb_ext' args (decide_in_atoms _ _ _ Ed)) as [E1 E2].
        apply os1. intros rest Hs. cbn [app].
        replace (den (CBin o args)) with
          (if (match o with BOr => true | BAnd => false end)
           then existsb asg (map atom_of args) else forallb asg (map atom_of args))
          by (destruct o; simpl; auto).
        apply (lift0 [TIn _ f (map atom_of args)]); try lia; auto.
        + apply (PE_in K asg). + simpl. discriminate.
      - replace (den (CBin o args)) with
          (match of_bop o with OAnd => forallb den args | _ => existsb den args end)
          by (destruct o; reflexivity).
        apply join_opseq; auto. apply of_binary. }
    split.
    + intros i rest Hi Hs. eapply opseq_A; eauto. apply of_binary.
    + intros o0 E. inversion E; subst. exists k. split; auto.
Qed.

Theorem structure c : wf c -> exists f, pe (lvl K) asg f 3 (conv K false c) = Some (den c, []).
Proof.
  intros Hw. destruct (main c Hw) as [HA _].
  specialize (HA 3 [] (conj (rtop_le3 c) (le_n 3)) I). rewrite app_nil_r in HA. exact HA.
Qed.
End M.
