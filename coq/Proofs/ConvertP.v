From Coq Require Import NArith List Bool Lia.
From PS Require Import Base.Chars Base.Outcome Model.SString Spec.Items.
Import ListNotations.
Open Scope N_scope.

(* A usable escaping configuration: an escape character exists and is itself escaped or
   filtered; wildcard tokens are non-empty, do not start with the escape character and
   start with different characters. *)
Definition hd_ok (e : char) (w : option str) : bool :=
  match w with None => true | Some [] => false | Some (x :: _) => negb (N.eqb x e) end.
Definition hd_differ (a b : option str) : bool :=
  match a, b with Some (x :: _), Some (y :: _) => negb (N.eqb x y) | _, _ => true end.
Definition wf_escaping (K : ecfg) : bool :=
  match e_esc K with
  | None => false
  | Some e =>
    (mem e (escaped_chars K) || mem e (e_filter K)) &&
    hd_ok e (e_multi K) && hd_ok e (e_single K) && hd_differ (e_multi K) (e_single K)
  end.

Definition Dec (K : ecfg) (rest : str) (l : list item) : Prop :=
  forall fuel, (length rest < fuel)%nat -> tdecode fuel K rest = Some l.

Lemma dec_nil K : Dec K [] [].
Proof. intros [|f] H; [inversion H | reflexivity]. Qed.

Lemma dec_esc K e c rest l :
  e_esc K = Some e -> Dec K rest l -> Dec K (e :: c :: rest) (Lit c :: l).
Proof.
  intros He HD [|f] Hf; [inversion Hf|]. cbn [tdecode]. rewrite He, N.eqb_refl.
  rewrite HD by (simpl in Hf; lia). reflexivity.
Qed.

Lemma mem_app c a b : mem c (a ++ b) = mem c a || mem c b.
Proof. unfold mem. apply existsb_app. Qed.

Lemma starts_fail_hd w x s : 
  match w with Some (y :: _) => N.eqb y x = false | _ => True end ->
  starts w (x :: s) = None.
Proof.
  destruct w as [[|y w']|]; simpl; try reflexivity. intros H. rewrite H. reflexivity.
Qed.

Lemma hd_escaped_multi K y w : e_multi K = Some (y :: w) -> mem y (escaped_chars K) = true.
Proof. intros H. unfold escaped_chars. rewrite H. simpl. rewrite N.eqb_refl. reflexivity. Qed.
Lemma hd_escaped_single K y w : e_single K = Some (y :: w) -> mem y (escaped_chars K) = true.
Proof.
  intros H. unfold escaped_chars. rewrite H. rewrite mem_app. apply orb_true_iff. right.
  simpl. rewrite N.eqb_refl. reflexivity.
Qed.

Lemma dec_lit K e c rest l :
  e_esc K = Some e -> N.eqb e c = false -> mem c (escaped_chars K) = false ->
  Dec K rest l -> Dec K (c :: rest) (Lit c :: l).
Proof.
  intros He Hne Hm HD [|f] Hf; [inversion Hf|]. cbn [tdecode]. rewrite He, Hne.
  rewrite starts_fail_hd, starts_fail_hd.
  - rewrite HD by (simpl in Hf; lia). reflexivity.
  - destruct (e_single K) as [[|y w]|] eqn:E; auto.
    destruct (N.eqb y c) eqn:Ey; auto. apply N.eqb_eq in Ey. subst y.
    rewrite (hd_escaped_single _ _ _ E) in Hm. discriminate.
  - destruct (e_multi K) as [[|y w]|] eqn:E; auto.
    destruct (N.eqb y c) eqn:Ey; auto. apply N.eqb_eq in Ey. subst y.
    rewrite (hd_escaped_multi _ _ _ E) in Hm. discriminate.
Qed.

Lemma skipn_app_len {A} (a b : list A) : skipn (length a) (a ++ b) = b.
Proof. induction a; simpl; auto. Qed.

Lemma dec_multi K e m ms rest l :
  e_esc K = Some e -> e_multi K = Some (m :: ms) -> N.eqb m e = false ->
  Dec K rest l -> Dec K ((m :: ms) ++ rest) (Multi :: l).
Proof.
  intros He Hm Hne HD [|f] Hf; [inversion Hf|].
  change ((m :: ms) ++ rest) with (m :: ms ++ rest) in *. cbn [tdecode].
  rewrite He. rewrite N.eqb_sym, Hne. rewrite Hm.
  unfold starts. change (m :: ms ++ rest) with ((m :: ms) ++ rest).
  rewrite prefixb_app, skipn_app_len.
  rewrite HD; [reflexivity|]. simpl in Hf. rewrite app_length in Hf. lia.
Qed.

Lemma dec_single K e m ms rest l :
  e_esc K = Some e -> e_single K = Some (m :: ms) -> N.eqb m e = false ->
  hd_differ (e_multi K) (e_single K) = true ->
  Dec K rest l -> Dec K ((m :: ms) ++ rest) (Single :: l).
Proof.
  intros He Hs Hne Hd HD [|f] Hf; [inversion Hf|].
  change ((m :: ms) ++ rest) with (m :: ms ++ rest) in *. cbn [tdecode].
  rewrite He. rewrite N.eqb_sym, Hne.
  rewrite starts_fail_hd.
  - rewrite Hs. unfold starts. change (m :: ms ++ rest) with ((m :: ms) ++ rest).
    rewrite prefixb_app, skipn_app_len.
    rewrite HD; [reflexivity|]. simpl in Hf. rewrite app_length in Hf. lia.
  - rewrite Hs in Hd. destruct (e_multi K) as [[|y w]|]; auto. simpl in Hd.
    apply negb_true_iff in Hd. exact Hd.
Qed.

Lemma filter_items_app K a b : filter_items K (a ++ b) = filter_items K a ++ filter_items K b.
Proof. unfold filter_items. apply filter_app. Qed.

Lemma dec_chars K e s : 
  e_esc K = Some e -> (mem e (escaped_chars K) || mem e (e_filter K)) = true ->
  forall rest l, Dec K rest l ->
  Dec K (flat_map (conv_char K) s ++ rest) (filter_items K (map Lit s) ++ l).
Proof.
  intros He Hself. induction s as [|c s IH]; intros rest l HD; [exact HD|].
  cbn [flat_map map]. unfold filter_items in *. cbn [filter].
  unfold conv_char at 1. destruct (mem c (e_filter K)) eqn:Ef; cbn [negb].
  - cbn [app]. apply IH. exact HD.
  - rewrite <- app_assoc. destruct (mem c (escaped_chars K)) eqn:Ee.
    + rewrite He. cbn [app]. eapply dec_esc; eauto.
    + cbn [app]. eapply dec_lit; eauto.
      destruct (N.eqb e c) eqn:Eec; auto. apply N.eqb_eq in Eec. subst c.
      rewrite Ee, Ef in Hself. discriminate.
Qed.

(* Main lemma: decoding what convert emits returns the (filtered) items of the value. *)
Lemma convert_dec K v : wf_escaping K = true ->
  forall q, convert K v = Ok q ->
  forall rest l, Dec K rest l -> Dec K (q ++ rest) (filter_items K (items v) ++ l).
Proof.
  unfold wf_escaping. destruct (e_esc K) as [e|] eqn:He; [|discriminate].
  intros Hwf. apply andb_true_iff in Hwf. destruct Hwf as [Hwf Hdiff].
  apply andb_true_iff in Hwf. destruct Hwf as [Hwf Hs].
  apply andb_true_iff in Hwf. destruct Hwf as [Hself Hm].
  induction v as [|p v IH]; intros q Hq rest l HD.
  - inversion Hq; subst. exact HD.
  - cbn [convert] in Hq. change (items (p :: v)) with (part_items p ++ items v).
    rewrite filter_items_app, <- app_assoc.
    destruct p as [s| | |n].
    + destruct (convert K v) as [r| |] eqn:Er; try discriminate. simpl in Hq.
      inversion Hq; subst q. rewrite <- app_assoc.
      apply dec_chars with (e := e); auto.
    + destruct (e_multi K) as [w|] eqn:Em; [|discriminate].
      destruct (convert K v) as [r| |] eqn:Er; try discriminate. simpl in Hq.
      inversion Hq; subst q. rewrite <- app_assoc.
      destruct w as [|m ms]; [discriminate|]. simpl in Hm.
      apply negb_true_iff in Hm.
      change (filter_items K (part_items PMulti)) with [Multi]. cbn [app].
      eapply dec_multi; eauto.
    + destruct (e_single K) as [w|] eqn:Es; [|discriminate].
      destruct (convert K v) as [r| |] eqn:Er; try discriminate. simpl in Hq.
      inversion Hq; subst q. rewrite <- app_assoc.
      destruct w as [|m ms]; [discriminate|]. simpl in Hs.
      apply negb_true_iff in Hs.
      change (filter_items K (part_items PSingle)) with [Single]. cbn [app].
      eapply dec_single; eauto. rewrite Es. exact Hdiff.
    + discriminate.
Qed.

Theorem convert_decode K v q :
  wf_escaping K = true -> convert K v = Ok q -> tread K q = Some (filter_items K (items v)).
Proof.
  intros Hwf Hq. unfold tread.
  pose proof (convert_dec K v Hwf q Hq [] [] (dec_nil K)) as H.
  rewrite !app_nil_r in H. apply H. lia.
Qed.

(* If the escape character is neither escaped nor filtered, decoding fails to return the value:
   the configuration of the shipped TextQueryTestBackend (escape backslash, add_escaped colon and double quote) *)
Definition test_backend_cfg : ecfg :=
  {| e_esc := Some c_bs; e_multi := Some [c_star]; e_single := Some [c_qm];
     e_add := [c_colon; c_dq]; e_filter := [] |}.
Lemma convert_unescaped_escape_refuted :
  exists v q, convert test_backend_cfg v = Ok q /\
              tread test_backend_cfg q <> Some (items v).
Proof. exists [PStr [c_bs]; PMulti]. eexists. split; [reflexivity|]. vm_compute. discriminate. Qed.

(* ---------- regular-expression form ---------- *)
Definition no_ph (l : list item) : bool :=
  forallb (fun i => match i with Ph _ => false | _ => true end) l.

Lemma rdecode_chars custom s : forall rest l,
  rdecode rest = Some l ->
  (match rest with c :: _ => N.eqb c c_star = false | [] => True end) ->
  rdecode (flat_map (conv_char (regex_cfg custom)) s ++ rest) = Some (map Lit s ++ l) /\
  (match flat_map (conv_char (regex_cfg custom)) s ++ rest with
   | c :: _ => N.eqb c c_star = false | [] => True end).
Proof.
  induction s as [|c s IH]; intros rest l HR Hhd; [split; assumption|].
  cbn [flat_map map]. unfold conv_char at 1 3. cbn [e_filter regex_cfg mem existsb].
  destruct (IH rest l HR Hhd) as [IH1 IH2].
  destruct (mem c (escaped_chars (regex_cfg custom))) eqn:Ee; cbn [e_esc regex_cfg].
  - cbn [app]. split; [|reflexivity]. cbn [rdecode]. rewrite N.eqb_refl.
    rewrite IH1. reflexivity.
  - cbn [app].
    assert (Hc: N.eqb c c_bs = false /\ N.eqb c c_dot = false /\ N.eqb c c_star = false).
    { unfold escaped_chars in Ee. cbn [e_multi e_single e_add regex_cfg] in Ee.
      rewrite !mem_app in Ee. apply orb_false_iff in Ee. destruct Ee as [E1 E2].
      apply orb_false_iff in E2. destruct E2 as [E2 E3].
      apply orb_false_iff in E3. destruct E3 as [E3 _].
      unfold mem, regex_meta in *. cbn [existsb] in *.
      repeat match goal with H : (_ || _) = false |- _ => apply orb_false_iff in H; destruct H end.
      repeat split; assumption. }
    destruct Hc as [Hb [Hd Hst]]. split; [|exact Hst].
    cbn [rdecode]. rewrite Hb, Hd, IH1. reflexivity.
Qed.

Lemma to_regex_rdecode custom v : forall q,
  to_regex custom v = Ok q -> 
  rdecode q = Some (items v) /\ (match q with c :: _ => N.eqb c c_star = false | [] => True end).
Proof.
  unfold to_regex. induction v as [|p v IH]; intros q Hq.
  - inversion Hq. split; [reflexivity | exact I].
  - cbn [convert] in Hq. change (items (p :: v)) with (part_items p ++ items v).
    destruct p as [s| | |n].
    + destruct (convert (regex_cfg custom) v) as [r| |] eqn:Er; try discriminate.
      simpl in Hq. inversion Hq; subst q. destruct (IH r eq_refl) as [I1 I2].
      apply rdecode_chars; assumption.
    + cbn [e_multi regex_cfg] in Hq.
      destruct (convert (regex_cfg custom) v) as [r| |] eqn:Er; try discriminate.
      simpl in Hq. inversion Hq; subst q. destruct (IH r eq_refl) as [I1 I2].
      split; [|reflexivity]. cbn [rdecode app part_items]. 
      change (N.eqb c_dot c_bs) with false. change (N.eqb c_dot c_dot) with true.
      change (N.eqb c_star c_star) with true. cbv iota. rewrite I1. reflexivity.
    + cbn [e_single regex_cfg] in Hq.
      destruct (convert (regex_cfg custom) v) as [r| |] eqn:Er; try discriminate.
      simpl in Hq. inversion Hq; subst q. destruct (IH r eq_refl) as [I1 I2].
      split; [|reflexivity]. cbn [app part_items].
      destruct r as [|d r'].
      * simpl in I1. inversion I1. reflexivity.
      * cbn [rdecode]. change (N.eqb c_dot c_bs) with false. change (N.eqb c_dot c_dot) with true.
        cbv iota. rewrite I2. cbn [rdecode] in I1. rewrite I1. reflexivity.
    + discriminate.
Qed.

Theorem regex_decode custom v q : to_regex custom v = Ok q -> rdecode q = Some (items v).
Proof. intros H. apply (to_regex_rdecode custom v q H). Qed.
