(* Reading a printed bracket tree gives the tree back. *)
From Coq Require Import List NArith Bool Arith Lia.
From PS Require Import Base.Chars Model.BTree.
Import ListNotations.
Open Scope N_scope.

Lemma wfn_E tag kids : wfn (E tag kids) = clean_tag tag && wfl kids.
Proof.
  cbn [wfn]. reflexivity.
Qed.

Definition stopper (rest : str) : Prop := rest = [] \/ exists r, rest = c_rb :: r.
Definition starts_bracket_or_empty (s : str) : Prop :=
  match s with [] => True | c :: _ => is_bracket c = true end.

Lemma stopper_sbe rest : stopper rest -> starts_bracket_or_empty rest.
Proof. intros [->|[r ->]]; simpl; auto. Qed.

Lemma clean_cons c s : clean (c :: s) = negb (is_bracket c) && clean s.
Proof. unfold clean. simpl. rewrite negb_orb. reflexivity. Qed.

Lemma span_text_app s rest : clean s = true -> starts_bracket_or_empty rest ->
  span_text (s ++ rest) = (s, rest).
Proof.
  induction s as [|c s IH]; intros Hc Hr.
  - simpl. destruct rest as [|c r]; [reflexivity|]. simpl in Hr. simpl. rewrite Hr. reflexivity.
  - rewrite clean_cons in Hc. apply andb_true_iff in Hc. destruct Hc as [H1 H2].
    apply negb_true_iff in H1. simpl. rewrite H1. rewrite (IH H2 Hr). reflexivity.
Qed.

Lemma clean_tag_cons c s : clean_tag (c :: s) = negb (is_bracket c || N.eqb c c_bar) && clean_tag s.
Proof. unfold clean_tag. simpl. rewrite negb_orb. reflexivity. Qed.

Lemma span_tag_app tag rest : clean_tag tag = true -> span_tag (tag ++ c_bar :: rest) = Some (tag, rest).
Proof.
  induction tag as [|c s IH]; intros Hc.
  - simpl. reflexivity.
  - rewrite clean_tag_cons in Hc. apply andb_true_iff in Hc. destruct Hc as [H1 H2].
    apply negb_true_iff in H1. apply orb_false_iff in H1. destruct H1 as [Hb Hbar].
    simpl. rewrite Hbar, Hb. rewrite (IH H2). reflexivity.
Qed.

Lemma shown_E_head tag kids : exists r, shown (E tag kids) = c_lb :: r.
Proof. simpl. eexists. reflexivity. Qed.

Lemma showc_cons x l : showc (x :: l) = shown x ++ showc l.
Proof. reflexivity. Qed.

Lemma wfl_cons x r : wfl (x :: r) = wfn x && negb (is_text x && match r with y :: _ => is_text y | [] => false end) && wfl r.
Proof. reflexivity. Qed.

Ltac len := repeat (rewrite app_length in * || cbn [length] in *); lia.

Theorem pnodes_show : forall f l rest, wfl l = true -> stopper rest ->
  (length (showc l ++ rest) < f)%nat -> pnodes f (showc l ++ rest) = Some (l, rest).
Proof.
  induction f as [|f IH]; intros l rest Hw Hs Hlen; [lia|].
  destruct l as [|x l].
  - simpl. destruct Hs as [->|[r ->]]; [reflexivity|].
    cbn [pnodes]. rewrite N.eqb_refl. reflexivity.
  - rewrite wfl_cons in Hw. apply andb_true_iff in Hw. destruct Hw as [Hw Hwl].
    apply andb_true_iff in Hw. destruct Hw as [Hwx Hadj].
    rewrite showc_cons in *. rewrite <- app_assoc in *.
    destruct x as [s|tag kids].
    + (* text run *)
      cbn [wfn] in Hwx. apply andb_true_iff in Hwx. destruct Hwx as [Hne Hcl].
      destruct s as [|c s]; [discriminate Hne|]. clear Hne.
      cbn [shown] in *.
      assert (Hc : is_bracket c = false).
      { rewrite clean_cons in Hcl. apply andb_true_iff in Hcl. destruct Hcl as [H _].
        apply negb_true_iff in H. exact H. }
      assert (Hsbe : starts_bracket_or_empty (showc l ++ rest)).
      { destruct l as [|y l'].
        - simpl. apply stopper_sbe. exact Hs.
        - destruct y as [s'|tag' kids'].
          + simpl in Hadj. discriminate Hadj.
          + rewrite showc_cons. simpl. reflexivity. }
      change ((c :: s) ++ showc l ++ rest) with (c :: (s ++ showc l ++ rest)).
      cbn [pnodes].
      unfold is_bracket in Hc. apply orb_false_iff in Hc. destruct Hc as [Hlb Hrb].
      rewrite Hrb, Hlb.
      change (c :: s ++ showc l ++ rest) with ((c :: s) ++ (showc l ++ rest)).
      rewrite (span_text_app (c :: s) (showc l ++ rest) Hcl Hsbe).
      rewrite (IH l rest Hwl Hs).
      * reflexivity.
      * len.
    + (* element *)
      rewrite wfn_E in Hwx. apply andb_true_iff in Hwx. destruct Hwx as [Htag Hkids].
      cbn [shown] in *.
      change ((c_lb :: tag ++ c_bar :: flat_map shown kids ++ [c_rb]) ++ showc l ++ rest)
        with (c_lb :: ((tag ++ c_bar :: flat_map shown kids ++ [c_rb]) ++ showc l ++ rest)) in *.
      cbn [pnodes].
      replace (c_lb =? c_rb) with false by reflexivity.
      rewrite N.eqb_refl.
      replace ((tag ++ c_bar :: flat_map shown kids ++ [c_rb]) ++ showc l ++ rest)
        with (tag ++ c_bar :: (showc kids ++ c_rb :: (showc l ++ rest))) in *.
      2:{ unfold showc. rewrite <- !app_assoc. simpl. rewrite <- !app_assoc. reflexivity. }
      rewrite (span_tag_app tag _ Htag).
      rewrite (IH kids (c_rb :: (showc l ++ rest)) Hkids).
      * rewrite N.eqb_refl. rewrite (IH l rest Hwl Hs).
        -- reflexivity.
        -- len.
      * right. eexists. reflexivity.
      * len.
Qed.

Theorem read_show l : wfl l = true -> readc (showc l) = Some l.
Proof.
  intros Hw. unfold readc.
  pose proof (pnodes_show (S (length (showc l))) l [] Hw (or_introl eq_refl)) as H.
  rewrite app_nil_r in H. rewrite H; [reflexivity | lia].
Qed.

(* merging text runs does not change the printed text *)
Lemma showc_merge l : showc (merge l) = showc l.
Proof.
  induction l as [|x r IH]; [reflexivity|].
  destruct x as [s|tag kids].
  - cbn [merge]. rewrite showc_cons. rewrite <- IH.
    destruct (merge r) as [|y m] eqn:Em.
    + destruct s; simpl; rewrite ?app_nil_r; reflexivity.
    + destruct y as [s'|tag' kids'].
      * rewrite !showc_cons. cbn [shown]. rewrite app_assoc. reflexivity.
      * destruct s; [simpl; reflexivity|]. rewrite !showc_cons. reflexivity.
  - cbn [merge]. rewrite !showc_cons. rewrite IH. reflexivity.
Qed.
