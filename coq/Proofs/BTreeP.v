(* Reading a printed bracket tree gives the tree back. *)
From Coq Require Import List NArith Bool Arith Lia.
From PS Require Import Base.Chars Model.BTree.
Import ListNotations.
Open Scope N_scope.
