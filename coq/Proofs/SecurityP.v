(* C16 - proofs about Model.Security against Spec.Security *)
From Coq Require Import String Ascii.
From Coq Require Import NArith ZArith List Bool Arith Lia.
From PS Require Import Base.Chars Base.Outcome Model.Security Spec.Security.
Import ListNotations.
Open Scope N_scope.

(* ---------------------------------------------------------------------------------------- *)
(* size of a document: the measure of all inductions over documents *)
Fixpoint ysize (d : yv) : nat :=
  match d with
  | YList l => S (fold_right (fun x a => (ysize x + a)%nat) O l)
  | YMap m => S (fold_right (fun kv a => (ysize (snd kv) + a)%nat) O m)
  | _ => O
  end.

Lemma ysize_list x l : In x l -> (ysize x < ysize (YList l))%nat.
Proof.
  simpl. induction l as [|y l IH]; simpl; [tauto|]. intros [->|H]; [lia|]. specialize (IH H). lia.
Qed.
Lemma ysize_map k v m : In (k, v) m -> (ysize v < ysize (YMap m))%nat.
Proof.
  simpl. induction m as [|y m IH]; simpl; [tauto|]. intros [->|H]; [simpl; lia|]. specialize (IH H). lia.
Qed.

(* ---------------------------------------------------------------------------------------- *)
(* generic lemmas on the monadic maps *)
Lemma omap_Forall {A B} (f : A -> outcome B) (Q : B -> Prop) l :
  (forall x, In x l -> forall y, f x = Ok y -> Q y) ->
  forall ys, omap f l = Ok ys -> Forall Q ys.
Proof.
  induction l as [|x l IH]; intros H ys E; simpl in E.
  - inversion E. constructor.
  - destruct (f x) as [y| |] eqn:Ex; simpl in E; try discriminate.
    destruct (omap f l) as [ys'| |]; simpl in E; try discriminate.
    inversion E; subst. constructor.
    + apply (H x (in_eq x l) y Ex).
    + apply IH; [|reflexivity]. intros x0 H0. apply H. right. exact H0.
Qed.

Lemma omap_ext {A B} (f g : A -> outcome B) l :
  (forall x, In x l -> f x = g x) -> omap f l = omap g l.
Proof.
  induction l as [|x l IH]; simpl; intros H; [reflexivity|].
  rewrite (H x) by auto. rewrite IH by auto. reflexivity.
Qed.
Lemma omap_map {A B C} (f : B -> outcome C) (g : A -> B) l : omap f (map g l) = omap (fun x => f (g x)) l.
Proof. induction l as [|x l IH]; simpl; [reflexivity|]. rewrite IH. reflexivity. Qed.

Lemma rmap_ext {A B} (f g : A -> res B) l :
  (forall x, In x l -> f x = g x) -> rmap f l = rmap g l.
Proof.
  induction l as [|x l IH]; simpl; intros H; [reflexivity|].
  rewrite (H x) by auto. rewrite IH by auto. reflexivity.
Qed.
Lemma rmap_map {A B C} (f : B -> res C) (g : A -> B) l : rmap f (map g l) = rmap (fun x => f (g x)) l.
Proof. induction l as [|x l IH]; simpl; [reflexivity|]. rewrite IH. reflexivity. Qed.

(* inversion of rbind *)
Lemma rbind_ok {A B} (x : res A) (f : A -> res B) b tr :
  rbind x f = (Ok b, tr) ->
  exists a t1 t2, x = (Ok a, t1) /\ f a = (Ok b, t2) /\ tr = t1 ++ t2.
Proof.
  destruct x as [[a|c|c] t1]; simpl; try discriminate.
  destruct (f a) as [o t2] eqn:Ef. intros E. inversion E; subst. eauto 6.
Qed.
Lemma rbind_trace {A B} (x : res A) (f : A -> res B) o tr :
  rbind x f = (o, tr) ->
  (tr = snd x /\ (forall a, fst x <> Ok a)) \/ exists a t2, x = (Ok a, snd x) /\ snd (f a) = t2 /\ tr = snd x ++ t2.
Proof.
  destruct x as [[a|c|c] t1]; simpl.
  - destruct (f a) as [o' t2] eqn:Ef. intros E. inversion E; subst. right. exists a, t2. rewrite Ef. auto.
  - intros E. inversion E; subst. left. split; [reflexivity | discriminate].
  - intros E. inversion E; subst. left. split; [reflexivity | discriminate].
Qed.

Lemma rmap_Forall {A B} (f : A -> res B) (Q : B -> Prop) l :
  (forall x, In x l -> forall y t, f x = (Ok y, t) -> Q y) ->
  forall ys t, rmap f l = (Ok ys, t) -> Forall Q ys.
Proof.
  induction l as [|x l IH]; intros H ys t E; simpl in E.
  - inversion E. constructor.
  - apply rbind_ok in E. destruct E as (y & t1 & t2 & Ex & E & _).
    apply rbind_ok in E. destruct E as (ys' & t3 & t4 & El & E & _).
    inversion E; subst. constructor.
    + apply (H x (in_eq x l) y t1 Ex).
    + eapply IH; [|exact El]. intros x0 H0. apply H. right. exact H0.
Qed.

(* every effect of a monadic map comes from one of the calls *)
Lemma rmap_trace {A B} (f : A -> res B) (Q : effect -> Prop) l :
  (forall x, In x l -> Forall Q (snd (f x))) -> Forall Q (snd (rmap f l)).
Proof.
  induction l as [|x l IH]; simpl; intros H; [constructor|].
  pose proof (H x (or_introl eq_refl)) as Hx.
  destruct (f x) as [[y|c|c] t1]; simpl in *; auto.
  assert (Hl : Forall Q (snd (rmap f l))) by (apply IH; auto).
  destruct (rmap f l) as [[ys|c|c] t2]; simpl in *; rewrite ?app_nil_r; apply Forall_app; auto.
Qed.

Lemma rbind_trace_Forall {A B} (x : res A) (f : A -> res B) (Q : effect -> Prop) :
  Forall Q (snd x) -> (forall a, Forall Q (snd (f a))) -> Forall Q (snd (rbind x f)).
Proof.
  destruct x as [[a|c|c] t1]; simpl; auto.
  intros H1 H2. specialize (H2 a). destruct (f a) as [o t2]. simpl in *. apply Forall_app; auto.
Qed.

Lemma catch_r_snd {A} (x : res A) : snd (catch_r x) = snd x.
Proof. reflexivity. Qed.
Lemma catch_r_ok {A} (x : res A) a t : catch_r x = (Ok a, t) -> x = (Ok a, t).
Proof.
  destruct x as [[b|c|c] t']; unfold catch_r; simpl; intros E; inversion E; subst; auto.
  destruct (c =? C_Type); discriminate.
Qed.
Lemma catch_o_ok {A} (o : outcome A) a : catch_o o = Ok a -> o = Ok a.
Proof. destruct o as [b|c|c]; simpl; auto. destruct (c =? C_Type); discriminate. Qed.

(* ---------------------------------------------------------------------------------------- *)
(* find_key *)
Lemma find_key_cases {A} key (onlist : list yv -> A) other none m :
  find_key key onlist other none m = none \/
  exists k v, In (k, v) m /\ str_eqb key k = true /\
              find_key key onlist other none m = match v with YList l => onlist l | _ => other v end.
Proof.
  induction m as [|[k v] m IH]; simpl; [left; reflexivity|].
  destruct (str_eqb key k) eqn:Ek.
  - right. exists k, v. auto.
  - destruct IH as [IH|(k' & v' & Hin & Hk & E)]; [left; exact IH|].
    right. exists k', v'. auto.
Qed.

(* ---------------------------------------------------------------------------------------- *)
(* C16_caps_from_caller *)

Lemma obs_guard m x : obs (guard m x) = obs x.
Proof. unfold guard. destruct (lookup k_rule_conditions m); reflexivity. Qed.

Lemma omap_crash_nil {A B} (c : N) (l : list A) (ch : list B) :
  omap (fun _ : A => @Crash B c) l = Ok ch -> l = [] /\ ch = [].
Proof. destruct l; simpl; intros E; [inversion E; auto | discriminate]. Qed.
Lemma rmap_crash_nil {A B} (c : N) (l : list A) (ch : list B) t :
  rmap (fun _ : A => @rcrash B c) l = (Ok ch, t) -> l = [] /\ ch = [] /\ t = [].
Proof. destruct l; simpl; intros E; [inversion E; auto | discriminate]. Qed.

(* what ProcessingItem.from_dict can return *)
Lemma inst_item_shape ext d nd :
  inst_item ext d = Ok nd ->
  exists m n0, d = YMap m /\ nd = guard m n0 /\
    ((exists s sel, n0 = NExt s sel ext) \/ (exists sel, n0 = NWild sel) \/ n0 = NPlain \/
     (exists ch l k, n0 = NNest ch /\ omap (inst_item false) l = Ok ch /\ In (k, YList l) m) \/
     n0 = NNest []).
Proof.
  intros E. destruct d as [| | | |l|m]; simpl in E; try discriminate.
  destruct (lookup k_type m) as [[| | |ty| |]|]; try discriminate.
  remember (remove_keys excl_keys m) as ps.
  match type of E with obind ?X _ = _ => destruct X as [n0| |] eqn:EX end; simpl in E; try discriminate.
  inversion E; subst nd. clear E. exists m, n0. split; [reflexivity|]. split; [reflexivity|].
  destruct (str_eqb ty t_file).
  { apply catch_o_ok in EX. unfold ext_ctor in EX.
    repeat match type of EX with (if ?c then _ else _) = _ => destruct c; try discriminate end.
    destruct (src_of 0 ps); inversion EX; subst. left. eauto. }
  destruct (str_eqb ty t_http).
  { apply catch_o_ok in EX. unfold ext_ctor in EX.
    repeat match type of EX with (if ?c then _ else _) = _ => destruct c; try discriminate end.
    destruct (src_of 1 ps); inversion EX; subst. left. eauto. }
  destruct (str_eqb ty t_cmd).
  { apply catch_o_ok in EX. unfold ext_ctor in EX.
    repeat match type of EX with (if ?c then _ else _) = _ => destruct c; try discriminate end.
    destruct (src_of 2 ps); inversion EX; subst. left. eauto. }
  destruct (str_eqb ty t_wild).
  { apply catch_o_ok in EX. unfold wild_ctor in EX.
    repeat match type of EX with (if ?c then _ else _) = _ => destruct c; try discriminate end.
    inversion EX; subst. right. left. eauto. }
  destruct (str_eqb ty t_set_state).
  { apply catch_o_ok in EX. unfold plain_ctor in EX. destruct (check_params _ _ _); inversion EX; subst. auto. }
  destruct (str_eqb ty t_nest); [|discriminate].
  apply catch_o_ok in EX. destruct (negb (check_params [k_items] [k_items] ps)); [discriminate|].
  match type of EX with find_key ?k ?a ?b ?c m = _ =>
    destruct (find_key_cases k a b c m) as [H0|(k' & v & Hin & Hk & H0)]; rewrite H0 in EX end; [discriminate|].
  destruct v as [| | |s0|l|m']; simpl in EX; try discriminate.
  - destruct (omap _ _) as [ch| |] eqn:Ech; simpl in EX; try discriminate.
    apply omap_crash_nil in Ech. destruct Ech as [_ ->]. inversion EX; subst. auto 6.
  - destruct (omap (inst_item false) l) as [ch| |] eqn:Ech; simpl in EX; try discriminate.
    inversion EX; subst. right. right. right. left. exists ch, l, k'. auto.
  - destruct (omap _ _) as [ch| |] eqn:Ech; simpl in EX; try discriminate.
    apply omap_crash_nil in Ech. destruct Ech as [_ ->]. inversion EX; subst. auto 6.
Qed.

(* nested transformation items never carry the external-source capability, and no transformation item is a
   template object *)
Lemma inst_item_false_flags :
  forall n d nd, (ysize d < n)%nat -> inst_item false d = Ok nd ->
                 Forall (fun f => f = false) (all_flags (obs nd)) /\ tpl_caps (obs nd) = [].
Proof.
  induction n as [|n IH]; intros d nd Hs E; [lia|].
  apply inst_item_shape in E. destruct E as (m & n0 & -> & -> & C). rewrite obs_guard.
  destruct C as [(s & sel & ->)|[(sel & ->)|[->|[(ch & l & k & -> & Ech & Hin)| ->]]]]; simpl; auto.
  assert (F : Forall (fun y => Forall (fun f => f = false) (all_flags (obs y)) /\ tpl_caps (obs y) = []) ch).
  { eapply omap_Forall; [|exact Ech]. intros x Hx y Ey. eapply IH; [|exact Ey].
    pose proof (ysize_list x l Hx). pose proof (ysize_map k (YList l) m Hin). lia. }
  rewrite !flat_map_concat_map, !map_map, <- !flat_map_concat_map. split.
  - apply Forall_flat_map. eapply Forall_impl; [|exact F]. intros a [Ha _]. exact Ha.
  - clear -F. induction F as [|y ch [_ Hy] F IH]; simpl; [reflexivity|]. rewrite Hy, IH. reflexivity.
Qed.

Lemma inst_item_flags ext d nd :
  inst_item ext d = Ok nd ->
  Forall (fun f => f = ext) (top_flags (obs nd)) /\ Forall (fun f => f = false) (nested_flags (obs nd)) /\
  tpl_caps (obs nd) = [].
Proof.
  intros E. apply inst_item_shape in E. destruct E as (m & n0 & -> & -> & C). rewrite obs_guard.
  destruct C as [(s & sel & ->)|[(sel & ->)|[->|[(ch & l & k & -> & Ech & Hin)| ->]]]]; simpl; auto.
  assert (F : Forall (fun y => Forall (fun f => f = false) (all_flags (obs y)) /\ tpl_caps (obs y) = []) ch).
  { eapply omap_Forall; [|exact Ech]. intros x Hx y Ey. apply (inst_item_false_flags (S (ysize x)) x y); [apply Nat.lt_succ_diag_r | exact Ey]. }
  rewrite !flat_map_concat_map, !map_map, <- !flat_map_concat_map. split; [constructor|]. split.
  - apply Forall_flat_map. eapply Forall_impl; [|exact F]. intros a [Ha _]. exact Ha.
  - clear -F. induction F as [|y ch [_ Hy] F IH]; simpl; [reflexivity|]. rewrite Hy, IH. reflexivity.
Qed.

(* template objects carry exactly the caller's values; one that has a vars file exists only under a grant *)
Definition tpl_is (E : env) (tv : bool) (ap : option (list str)) (c : option str * bool * option (list str)) : Prop :=
  snd (fst c) = tv /\ snd c = ap /\ (fst (fst c) <> None -> (tv || env_on (e_tv E)) = true).

Lemma tpl_init_ok_grant E tv ap p u t : tpl_init E tv ap (Some p) = (Ok u, t) -> (tv || env_on (e_tv E)) = true.
Proof. unfold tpl_init. destruct (tv || env_on (e_tv E)); [reflexivity | discriminate]. Qed.

Lemma tpl_ctor_shape E tv ap ps n t :
  tpl_ctor E tv ap ps = (Ok n, t) -> exists v, n = NTpl v tv ap /\ (v <> None -> (tv || env_on (e_tv E)) = true).
Proof.
  unfold tpl_ctor. destruct (negb (check_params tpl_accepted [k_template] ps)); [discriminate|].
  intros E0. apply rbind_ok in E0. destruct E0 as (src & t0 & t0' & _ & E0 & _). revert E0.
  destruct (lookup k_vars ps) as [[| | |p| |]|]; try discriminate.
  - intros E0. inversion E0. exists None. split; [reflexivity | congruence].
  - intros E0. apply rbind_ok in E0. destruct E0 as (u & t1 & t2 & E1 & E0 & _). inversion E0.
    exists (Some p). split; [reflexivity|]. intros _. eapply tpl_init_ok_grant; eauto.
  - intros E0. inversion E0. exists None. split; [reflexivity | congruence].
Qed.

Lemma rlift_catch_plain_ok acc req ps n t : rlift (catch_o (plain_ctor acc req ps)) = (Ok n, t) -> n = NPlain.
Proof.
  unfold rlift, plain_ctor. destruct (check_params acc req ps); simpl; intros E; inversion E; reflexivity.
Qed.

Lemma inst_post_shape E tv ap d n t :
  inst_post E tv ap d = (Ok n, t) -> (exists v, n = NTpl v tv ap /\ (v <> None -> (tv || env_on (e_tv E)) = true)) \/ n = NPlain \/ n = NNest [].
Proof.
  destruct d as [| | | |l|m]; simpl; try discriminate.
  destruct (lookup k_type m) as [[| | |ty| |]|]; try discriminate.
  destruct (str_eqb ty t_template).
  { intros E0. apply catch_r_ok in E0. apply tpl_ctor_shape in E0. auto. }
  destruct (str_eqb ty t_embed). { intros E0. apply rlift_catch_plain_ok in E0. auto. }
  destruct (str_eqb ty t_simple_template). { intros E0. apply rlift_catch_plain_ok in E0. auto. }
  destruct (str_eqb ty t_nest); [|discriminate].
  unfold rlift. destruct (negb (check_params [k_items] [k_items] (remove_keys excl_keys m))); [discriminate|].
  destruct (lookup k_items (remove_keys excl_keys m)) as [[| | |[|? ?]|[|? ?]|[|? ?]]|]; simpl; intros E0; inversion E0; auto.
Qed.

Lemma inst_post_caps E tv ap d n t :
  inst_post E tv ap d = (Ok n, t) -> all_flags (obs n) = [] /\ Forall (tpl_is E tv ap) (tpl_caps (obs n)).
Proof.
  intros E0. apply inst_post_shape in E0. destruct E0 as [(v & -> & Hv)|[->| ->]]; simpl; split; auto.
  constructor; [repeat split; auto | constructor].
Qed.

Lemma inst_fin_caps :
  forall k E tv ap top d n t, (ysize d < k)%nat -> inst_fin E tv ap top d = (Ok n, t) ->
    all_flags (obs n) = [] /\ Forall (tpl_is E tv ap) (tpl_caps (obs n)).
Proof.
  induction k as [|k IH]; intros E tv ap top d n t Hs E0; [lia|].
  destruct d as [| | | |l|m]; simpl in E0; try discriminate.
  set (m1 := remove_keys (if top then [k_tv; k_ap; k_ext] else [k_tv; k_ap]) m) in *.
  destruct (lookup k_type m1) as [tyv|]; [|discriminate].
  assert (U : (if top then @rerr node E_Config else rcrash C_Key) = (Ok n, t) -> False).
  { destruct top; discriminate. }
  cbv zeta in E0.
  destruct tyv as [|b|z|ty|l'|m'']; try discriminate; try (exfalso; exact (U E0)).
  destruct (str_eqb ty t_template).
  { apply catch_r_ok in E0. apply tpl_ctor_shape in E0. destruct E0 as (v & -> & Hv). simpl. split; auto.
    constructor; [repeat split; auto | constructor]. }
  destruct (str_eqb ty t_nested).
  { match type of E0 with find_key ?kk ?a ?b ?c m = _ =>
      destruct (find_key_cases kk a b c m) as [H0|(k' & v & Hin & Hk & H0)]; rewrite H0 in E0 end; [discriminate|].
    assert (NIL : forall v0, (rbind (rlift (iter_yv v0)) (fun l0 =>
                   rbind (rmap (fun _ : yv => @rcrash node C_Attr) l0) (fun ch => rret (NNest ch)))) = (Ok n, t) -> n = NNest []).
    { intros v0 E1. apply rbind_ok in E1. destruct E1 as (l0 & t1 & t2 & _ & E1 & _).
      apply rbind_ok in E1. destruct E1 as (ch & t3 & t4 & E1 & E2 & _).
      apply rmap_crash_nil in E1. destruct E1 as (_ & -> & _). inversion E2. reflexivity. }
    destruct v as [|b0|z0|s0|l|m'];
      [apply (NIL YNull) in E0; subst n; simpl; auto | apply (NIL (YBool b0)) in E0; subst n; simpl; auto
      |apply (NIL (YInt z0)) in E0; subst n; simpl; auto | apply (NIL (YStr s0)) in E0; subst n; simpl; auto
      | | apply (NIL (YMap m')) in E0; subst n; simpl; auto].
    apply rbind_ok in E0. destruct E0 as (ch & t1 & t2 & Ech & E0 & _). inversion E0; subst n. simpl.
    assert (F : Forall (fun y => all_flags (obs y) = [] /\ Forall (tpl_is E tv ap) (tpl_caps (obs y))) ch).
    { eapply rmap_Forall; [|exact Ech]. intros x Hx y ty0 Ey. eapply IH; [|exact Ey].
      pose proof (ysize_list x l Hx). pose proof (ysize_map k' (YList l) m Hin). lia. }
    rewrite !flat_map_concat_map, !map_map, <- !flat_map_concat_map. split.
    - clear -F. induction F as [|y ch [Hy _] F IH]; simpl; [reflexivity|]. rewrite Hy, IH. reflexivity.
    - apply Forall_flat_map. eapply Forall_impl; [|exact F]. intros a [_ Ha]. exact Ha. }
  destruct (str_eqb ty t_concat). { apply rlift_catch_plain_ok in E0. subst. simpl. auto. }
  destruct (str_eqb ty t_json). { apply rlift_catch_plain_ok in E0. subst. simpl. auto. }
  destruct (str_eqb ty t_yaml). { apply rlift_catch_plain_ok in E0. subst. simpl. auto. }
  exfalso; exact (U E0).
Qed.

Lemma Forall_flat_map_intro {A B} (P : B -> Prop) (f : A -> list B) l :
  Forall (fun x => Forall P (f x)) l -> Forall P (flat_map f l).
Proof. intros H. apply Forall_flat_map. exact H. Qed.

Lemma flat_map_nil {A B} (f : A -> list B) l : Forall (fun x => f x = []) l -> flat_map f l = [].
Proof. induction 1 as [|x l Hx _ IH]; simpl; [reflexivity|]. rewrite Hx, IH. reflexivity. Qed.

(* inversion of the top-level loader *)
Lemma load_dict_ok E d a t tr :
  load_dict E d a = (Ok t, tr) ->
  exists m its pds fds,
    d = YMap m /\
    get_list k_transformations m = Ok its /\ omap (inst_item (a_ext a)) its = Ok (t_items t) /\
    get_list k_postprocessing m = Ok pds /\ get_list k_finalizers m = Ok fds /\
    exists t1 t2, rmap (inst_post E (a_tv a) (a_ap a)) pds = (Ok (t_post t), t1) /\
                  rmap (inst_fin E (a_tv a) (a_ap a) true) fds = (Ok (t_fin t), t2) /\ tr = t1 ++ t2.
Proof.
  destruct d as [| | | |l|m]; unfold load_dict; try discriminate.
  destruct (negb (forallb (fun kv => mem_str (fst kv) top_keys) m)); [discriminate|].
  intros E0. exists m.
  apply rbind_ok in E0. destruct E0 as (its & u1 & u2 & E1 & E0 & ->).
  apply rbind_ok in E0. destruct E0 as (items & u3 & u4 & E2 & E0 & ->).
  apply rbind_ok in E0. destruct E0 as (pds & u5 & u6 & E3 & E0 & ->).
  apply rbind_ok in E0. destruct E0 as (post & u7 & u8 & E4 & E0 & ->).
  apply rbind_ok in E0. destruct E0 as (fds & u9 & u10 & E5 & E0 & ->).
  apply rbind_ok in E0. destruct E0 as (fin & u11 & u12 & E6 & E0 & ->).
  inversion E0; subst t u12. simpl.
  unfold rlift in E1, E2, E3, E5.
  injection E1 as G1 <-. injection E2 as G2 <-. injection E3 as G3 <-. injection E5 as G5 <-.
  exists its, pds, fds.
  split; [reflexivity|]. split; [exact G1|]. split; [exact G2|]. split; [exact G3|]. split; [exact G5|].
  exists u7, u11. split; [exact E4|]. split; [exact E6|]. simpl. rewrite app_nil_r. reflexivity.
Qed.

Theorem caps_from_caller E d a t tr :
  load_dict E d a = (Ok t, tr) ->
  let ot := obs_tree t in
  Forall (fun f => f = a_ext a) (flat_map top_flags (o_items ot)) /\
  Forall (fun f => f = false) (flat_map nested_flags (tree_nodes ot)) /\
  flat_map all_flags (o_post ot ++ o_fin ot) = [] /\
  Forall (tpl_is E (a_tv a) (a_ap a)) (tree_tpl_caps ot).
Proof.
  intros E0. apply load_dict_ok in E0.
  destruct E0 as (m & its & pds & fds & -> & _ & Ei & _ & _ & t1 & t2 & Ep & Ef & _).
  assert (Fi : Forall (fun nd => Forall (fun f => f = a_ext a) (top_flags (obs nd)) /\
                                 Forall (fun f => f = false) (nested_flags (obs nd)) /\ tpl_caps (obs nd) = []) (t_items t)).
  { eapply omap_Forall; [|exact Ei]. intros x _ y Ey. apply inst_item_flags in Ey. exact Ey. }
  assert (Fp : Forall (fun nd => all_flags (obs nd) = [] /\ Forall (tpl_is E (a_tv a) (a_ap a)) (tpl_caps (obs nd))) (t_post t)).
  { eapply rmap_Forall; [|exact Ep]. intros x _ y ty Ey. apply inst_post_caps in Ey. exact Ey. }
  assert (Ff : Forall (fun nd => all_flags (obs nd) = [] /\ Forall (tpl_is E (a_tv a) (a_ap a)) (tpl_caps (obs nd))) (t_fin t)).
  { eapply rmap_Forall; [|exact Ef]. intros x _ y ty Ey. eapply (inst_fin_caps (S (ysize x))); [apply Nat.lt_succ_diag_r | exact Ey]. }
  assert (NF : forall o, all_flags o = [] -> nested_flags o = []).
  { intros o. destruct o; simpl; auto; discriminate. }
  cbv zeta. unfold tree_tpl_caps, tree_nodes, obs_tree. cbn [o_items o_post o_fin].
  rewrite !flat_map_app. rewrite !flat_map_concat_map, !map_map, <- !flat_map_concat_map.
  split; [|split; [|split]].
  - apply Forall_flat_map. eapply Forall_impl; [|exact Fi]. intros x (H & _ & _). exact H.
  - apply Forall_app; split; [|apply Forall_app; split].
    + apply Forall_flat_map. eapply Forall_impl; [|exact Fi]. intros x (_ & H & _). exact H.
    + rewrite flat_map_nil; [constructor|]. eapply Forall_impl; [|exact Fp]. intros x [H _]. auto.
    + rewrite flat_map_nil; [constructor|]. eapply Forall_impl; [|exact Ff]. intros x [H _]. auto.
  - rewrite flat_map_nil, flat_map_nil; [reflexivity| |].
    + eapply Forall_impl; [|exact Ff]. intros x [H _]. exact H.
    + eapply Forall_impl; [|exact Fp]. intros x [H _]. exact H.
  - apply Forall_app; split; [|apply Forall_app; split].
    + rewrite flat_map_nil; [constructor|]. eapply Forall_impl; [|exact Fi]. intros x (_ & _ & H). exact H.
    + apply Forall_flat_map. eapply Forall_impl; [|exact Fp]. intros x [_ H]. exact H.
    + apply Forall_flat_map. eapply Forall_impl; [|exact Ff]. intros x [_ H]. exact H.
Qed.

(* ---------------------------------------------------------------------------------------- *)
(* C16_path_containment: the string test of _load_vars_from_file implies component-wise containment *)
Definition slashy (x : str) : Prop := x = [] \/ exists x', x = c_sl :: x'.

Lemma rend_slashy cs : slashy (rend cs).
Proof. destruct cs as [|c cs]; [left; reflexivity | right; simpl; eexists; reflexivity]. Qed.
Lemma app_slashy x y : slashy x -> slashy y -> slashy (x ++ y).
Proof. intros [->|[x' ->]] Hy; simpl; [exact Hy | right; eexists; reflexivity]. Qed.

Lemma comp_split (c c' X Y : str) :
  ~ In c_sl c -> ~ In c_sl c' -> slashy X -> slashy Y -> c ++ X = c' ++ Y -> c = c' /\ X = Y.
Proof.
  revert c'. induction c as [|x c IH]; intros c' Hc Hc' HX HY E.
  - destruct c' as [|y c']; [auto|]. simpl in E. destruct HX as [->|[X' ->]]; [discriminate|].
    inversion E; subst. exfalso. apply Hc'. left. reflexivity.
  - destruct c' as [|y c'].
    + simpl in E. destruct HY as [->|[Y' ->]]; [discriminate|]. inversion E; subst.
      exfalso. apply Hc. left. reflexivity.
    + simpl in E. inversion E; subst.
      destruct (IH c') as [-> ->]; auto.
      * intros H. apply Hc. right. exact H.
      * intros H. apply Hc'. right. exact H.
Qed.

Lemma rend_split b : forall p Z,
  Forall wf_comp b -> Forall wf_comp p -> slashy Z -> rend p = rend b ++ Z -> is_prefix b p.
Proof.
  induction b as [|c b IH]; intros p Z Hb Hp HZ E.
  - exists p. reflexivity.
  - destruct p as [|c' p]; [simpl in E; discriminate|].
    simpl in E. inversion E as [E']. rewrite <- app_assoc in E'.
    inversion Hb as [|? ? [_ Hc] Hb']; subst. inversion Hp as [|? ? [_ Hc'] Hp']; subst.
    apply comp_split in E'; auto; [|apply rend_slashy | apply app_slashy; [apply rend_slashy | exact HZ]].
    destruct E' as [-> E']. destruct (IH p Z Hb' Hp' HZ E') as [rest ->].
    exists rest. reflexivity.
Qed.

Lemma base_contains (b p : list str) :
  Forall wf_comp b -> Forall wf_comp p ->
  prefixb (render b ++ [c_sl]) (render p) = true \/ render p = render b -> is_prefix b p.
Proof.
  intros Hb Hp H. destruct b as [|c b]; [exists p; reflexivity|].
  assert (Hc : c <> []) by (inversion Hb as [|? ? [H1 _] _]; exact H1).
  change (render (c :: b)) with (rend (c :: b)) in H.
  destruct p as [|c' p].
  - exfalso. simpl in H. destruct H as [H|H].
    + destruct c as [|x c]; [apply Hc; reflexivity | simpl in H; discriminate].
    + simpl in H. inversion H as [H']. destruct c; [apply Hc; reflexivity | discriminate].
  - change (render (c' :: p)) with (rend (c' :: p)) in H. destruct H as [H|H].
    + apply prefixb_spec in H. destruct H as [r Hr]. rewrite <- app_assoc in Hr.
      eapply rend_split; eauto. right. simpl. eauto.
    + eapply (rend_split (c :: b) (c' :: p) []); eauto; [left; reflexivity | rewrite app_nil_r; exact H].
Qed.

Theorem path_containment E bases p :
  wf_real (real E) -> path_allowed E bases (realpath E p) = true ->
  exists b, In b bases /\ is_prefix (real E b) (real E p).
Proof.
  intros W H. unfold path_allowed in H. apply existsb_exists in H. destruct H as (b & Hin & H).
  exists b. split; [exact Hin|]. apply base_contains; [apply W | apply W |].
  apply orb_true_iff in H. destruct H as [H|H]; [left; exact H | right; apply str_eqb_eq in H; exact H].
Qed.

(* the gate in front of the execution of a vars file *)
Lemma tpl_init_trace E tv ap vars o tr :
  tpl_init E tv ap vars = (o, tr) ->
  tr = [] \/
  exists p, vars = Some p /\ tr = [EExec (real E p)] /\ (tv || env_on (e_tv E)) = true /\
            match ap with Some bases => path_allowed E bases (realpath E p) = true | None => True end.
Proof.
  unfold tpl_init. destruct vars as [p|]; [|intros E0; inversion E0; auto].
  destruct (tv || env_on (e_tv E)) eqn:G; simpl; [|intros E0; inversion E0; auto].
  destruct ap as [bases|].
  - destruct (path_allowed E bases (realpath E p)) eqn:PA; simpl; [|intros E0; inversion E0; auto].
    destruct (loadable E p); intros E0; inversion E0; auto. right. exists p. auto.
  - destruct (loadable E p); intros E0; inversion E0; auto. right. exists p. auto.
Qed.

Theorem exec_contained E tv bases p o tr q :
  wf_real (real E) -> tpl_init E tv (Some bases) (Some p) = (o, tr) -> In (EExec q) tr ->
  q = real E p /\ (tv || env_on (e_tv E)) = true /\ exists b, In b bases /\ is_prefix (real E b) q.
Proof.
  intros W E0 Hin. apply tpl_init_trace in E0. destruct E0 as [->|(p' & Ep & -> & G & PA)]; [destruct Hin|].
  inversion Ep; subst p'. destruct Hin as [Hq|[]]. inversion Hq; subst q.
  split; [reflexivity|]. split; [exact G|]. apply path_containment; assumption.
Qed.

(* ---------------------------------------------------------------------------------------- *)
(* effects during loading: only executions of vars files, each behind the gate *)
Definition exec_ok (E : env) (tv : bool) (ap : option (list str)) (e : effect) : Prop :=
  exists p, e = EExec (real E p) /\ (tv || env_on (e_tv E)) = true /\
            match ap with Some bases => path_allowed E bases (realpath E p) = true | None => True end.

Lemma tpl_init_trace_ok E tv ap vars : Forall (exec_ok E tv ap) (snd (tpl_init E tv ap vars)).
Proof.
  destruct (tpl_init E tv ap vars) as [o tr] eqn:E0. apply tpl_init_trace in E0. simpl.
  destruct E0 as [->|(p & _ & -> & G & PA)]; [constructor|]. constructor; [|constructor]. exists p. auto.
Qed.

Lemma tpl_ctor_trace E tv ap ps : Forall (exec_ok E tv ap) (snd (tpl_ctor E tv ap ps)).
Proof.
  unfold tpl_ctor. destruct (negb (check_params tpl_accepted [k_template] ps)); [constructor|].
  apply rbind_trace_Forall; [constructor|]. intros _.
  destruct (lookup k_vars ps) as [[| | |p| |]|]; try constructor.
  apply rbind_trace_Forall; [apply tpl_init_trace_ok | intros; constructor].
Qed.

Lemma inst_post_trace E tv ap d : Forall (exec_ok E tv ap) (snd (inst_post E tv ap d)).
Proof.
  destruct d as [| | | |l|m]; simpl; try constructor.
  destruct (lookup k_type m) as [[| | |ty| |]|]; try constructor.
  destruct (str_eqb ty t_template); [apply tpl_ctor_trace|].
  destruct (str_eqb ty t_embed); [constructor|].
  destruct (str_eqb ty t_simple_template); [constructor|].
  destruct (str_eqb ty t_nest); constructor.
Qed.

Lemma inst_fin_trace :
  forall k E tv ap top d, (ysize d < k)%nat -> Forall (exec_ok E tv ap) (snd (inst_fin E tv ap top d)).
Proof.
  induction k as [|k IH]; intros E tv ap top d Hs; [lia|].
  destruct d as [| | | |l|m]; simpl; try constructor.
  set (m1 := remove_keys (if top then [k_tv; k_ap; k_ext] else [k_tv; k_ap]) m).
  destruct (lookup k_type m1) as [tyv|]; [|constructor].
  assert (U : Forall (exec_ok E tv ap) (snd (if top then @rerr node E_Config else rcrash C_Key))).
  { destruct top; constructor. }
  destruct tyv as [|b|z|ty|l'|m'']; try constructor; try exact U.
  destruct (str_eqb ty t_template); [apply tpl_ctor_trace|].
  destruct (str_eqb ty t_nested).
  { match goal with |- context [find_key ?kk ?a ?b ?c m] =>
      destruct (find_key_cases kk a b c m) as [H0|(k' & v & Hin & Hk & H0)]; rewrite H0 end; [constructor|].
    assert (NIL : forall v0, Forall (exec_ok E tv ap) (snd (rbind (rlift (iter_yv v0)) (fun l0 =>
                   rbind (rmap (fun _ : yv => @rcrash node C_Attr) l0) (fun ch => rret (NNest ch)))))).
    { intros v0. apply rbind_trace_Forall; [constructor|]. intros l0.
      apply rbind_trace_Forall; [|intros; constructor]. apply rmap_trace. intros; constructor. }
    destruct v as [|b0|z0|s0|l|m'];
      [apply (NIL YNull) | apply (NIL (YBool b0)) | apply (NIL (YInt z0)) | apply (NIL (YStr s0)) | | apply (NIL (YMap m'))].
    apply rbind_trace_Forall; [|intros; constructor]. apply rmap_trace. intros x Hx. apply IH.
    pose proof (ysize_list x l Hx). pose proof (ysize_map k' (YList l) m Hin). lia. }
  destruct (str_eqb ty t_concat); [constructor|].
  destruct (str_eqb ty t_json); [constructor|].
  destruct (str_eqb ty t_yaml); [constructor|]. exact U.
Qed.

Theorem load_trace_gated E d a :
  Forall (exec_ok E (a_tv a) (a_ap a)) (snd (load_dict E d a)).
Proof.
  destruct d as [| | | |l|m]; unfold load_dict; try constructor.
  destruct (negb (forallb (fun kv => mem_str (fst kv) top_keys) m)); [constructor|].
  apply rbind_trace_Forall; [constructor|]. intros its.
  apply rbind_trace_Forall; [constructor|]. intros items.
  apply rbind_trace_Forall; [constructor|]. intros pds.
  apply rbind_trace_Forall; [apply rmap_trace; intros; apply inst_post_trace|]. intros post.
  apply rbind_trace_Forall; [constructor|]. intros fds.
  apply rbind_trace_Forall; [|intros; constructor].
  apply rmap_trace. intros x _. apply (inst_fin_trace (S (ysize x))). apply Nat.lt_succ_diag_r.
Qed.

(* ---------------------------------------------------------------------------------------- *)
(* effects during conversion: only fetches of external sources, each behind the gate *)
Section NodeInd.
  Variable P : node -> Prop.
  Hypothesis HExt : forall s sel f, P (NExt s sel f).
  Hypothesis HTpl : forall v tv ap, P (NTpl v tv ap).
  Hypothesis HWild : forall sel, P (NWild sel).
  Hypothesis HPlain : P NPlain.
  Hypothesis HGuard : forall b n, P n -> P (NGuard b n).
  Hypothesis HNest : forall l, Forall P l -> P (NNest l).
  Fixpoint node_ind' (n : node) : P n :=
    match n with
    | NExt s sel f => HExt s sel f
    | NTpl v tv ap => HTpl v tv ap
    | NWild sel => HWild sel
    | NPlain => HPlain
    | NGuard b n' => HGuard b n' (node_ind' n')
    | NNest l => HNest l ((fix go (l : list node) : Forall P l :=
                             match l with [] => Forall_nil P | x :: r => Forall_cons x (node_ind' x) (go r) end) l)
    end.
End NodeInd.

Lemma run_nest E l : forall rem, run_node E (NNest l) rem = run_nodes E l rem.
Proof.
  induction l as [|x l IH]; intros rem; [reflexivity|].
  simpl. destruct (run_node E x rem) as [[rem'|c|c] t1]; simpl; try reflexivity.
  simpl in IH. rewrite IH. reflexivity.
Qed.

Definition fetch_ok_eff (E : env) (flags : list bool) (e : effect) : Prop :=
  (exists s, e = effect_of s) /\ (env_on (e_ext E) = true \/ In true flags).

Lemma fetch_ok_eff_mono E f1 f2 e : (forall x, In x f1 -> In x f2) -> fetch_ok_eff E f1 e -> fetch_ok_eff E f2 e.
Proof. intros H [H1 [H2|H2]]; split; auto. Qed.

Lemma run_nodes_trace E l :
  Forall (fun n => forall rem, Forall (fetch_ok_eff E (all_flags (obs n))) (snd (run_node E n rem))) l ->
  forall rem, Forall (fetch_ok_eff E (flat_map (fun n => all_flags (obs n)) l)) (snd (run_nodes E l rem)).
Proof.
  induction 1 as [|x l Hx _ IH]; intros rem; simpl; [constructor|].
  apply rbind_trace_Forall.
  - eapply Forall_impl; [|apply Hx]. intros e. apply fetch_ok_eff_mono. intros y Hy. apply in_or_app. auto.
  - intros rem'. eapply Forall_impl; [|apply IH]. intros e. apply fetch_ok_eff_mono. intros y Hy. apply in_or_app. auto.
Qed.

Lemma run_node_trace E n : forall rem, Forall (fetch_ok_eff E (all_flags (obs n))) (snd (run_node E n rem)).
Proof.
  induction n as [s sel f|v tv ap|sel| |b n IH|l IH] using node_ind'; intros rem; simpl; try constructor.
  - destruct (existsb (handled sel) rem); [|constructor].
    unfold ext_allowed. destruct (f || env_on (e_ext E)) eqn:G; simpl; [|constructor].
    assert (Q : fetch_ok_eff E [f] (effect_of s)).
    { split; [eauto|]. apply orb_true_iff in G. destruct G as [->| ->]; [right; left; reflexivity | left; reflexivity]. }
    destruct (fetch_ok E s); constructor; auto.
  - destruct b; [apply IH | constructor].
  - change (Forall (fetch_ok_eff E (flat_map all_flags (map obs l))) (snd (run_node E (NNest l) rem))).
    rewrite run_nest. rewrite flat_map_concat_map, map_map, <- flat_map_concat_map.
    apply run_nodes_trace. exact IH.
Qed.

Lemma all_flags_split o : all_flags o = top_flags o ++ nested_flags o.
Proof. destruct o; simpl; rewrite ?app_nil_r; reflexivity. Qed.

Theorem convert_trace_gated E d a t tr phs :
  load_dict E d a = (Ok t, tr) ->
  Forall (fun e => (exists s, e = effect_of s) /\ (a_ext a || env_on (e_ext E)) = true) (snd (convert E t phs)).
Proof.
  intros E0. pose proof (caps_from_caller E d a t tr E0) as (C1 & C2 & _ & _). cbv zeta in C1, C2.
  unfold convert. apply rbind_trace_Forall; [|intros [|? ?]; constructor].
  eapply Forall_impl; [|apply run_nodes_trace; apply Forall_forall; intros n _; apply run_node_trace].
  intros e [Hs [He|Hf]]; split; auto; [rewrite He; apply orb_true_r|].
  apply orb_true_iff. left.
  apply in_flat_map in Hf. destruct Hf as (n & Hn & Hf). rewrite all_flags_split in Hf. apply in_app_or in Hf.
  unfold obs_tree, tree_nodes in C1, C2. cbn [o_items o_post o_fin] in C1, C2.
  destruct Hf as [Hf|Hf].
  - rewrite Forall_forall in C1. symmetry. apply C1. apply in_flat_map. exists (obs n). split; [apply in_map; exact Hn | exact Hf].
  - rewrite Forall_forall in C2. exfalso. assert (true = false); [|discriminate]. apply C2.
    rewrite flat_map_app. apply in_or_app. left. apply in_flat_map. exists (obs n). split; [apply in_map; exact Hn | exact Hf].
Qed.

(* ---------------------------------------------------------------------------------------- *)
(* C16_no_effect_default *)
Lemma Forall_False_nil {A} (P : A -> Prop) l : Forall P l -> (forall x, P x -> False) -> l = [].
Proof. destruct 1 as [|x l Hx _]; [reflexivity|]. intros H. destruct (H x Hx). Qed.

Theorem no_effect_default E d :
  env_on (e_ext E) = false -> env_on (e_tv E) = false ->
  snd (load_dict E d default_args) = [] /\
  forall t, fst (load_dict E d default_args) = Ok t ->
    Forall (fun c => fst (fst c) = None) (tree_tpl_caps (obs_tree t)) /\
    Forall (fun f => f = false) (tree_ext_flags (obs_tree t)) /\
    forall phs, snd (convert E t phs) = [].
Proof.
  intros Hx Ht. split.
  - eapply Forall_False_nil; [apply load_trace_gated|]. intros e (p & _ & G & _). simpl in G. rewrite Ht in G. discriminate.
  - intros t E0. destruct (load_dict E d default_args) as [o tr] eqn:EL. simpl in E0. subst o.
    pose proof (caps_from_caller E d default_args t tr EL) as (C1 & C2 & C3 & C4). cbv zeta in *.
    split; [|split].
    + eapply Forall_impl; [|exact C4]. intros c (_ & _ & H). destruct (fst (fst c)); [|reflexivity].
      simpl in H. rewrite Ht in H. discriminate H. discriminate.
    + unfold tree_ext_flags, tree_nodes in *. rewrite flat_map_app. apply Forall_app. split.
      * apply Forall_flat_map. apply Forall_forall. intros o Ho. rewrite all_flags_split. apply Forall_app. split.
        -- rewrite Forall_forall in C1. apply Forall_forall. intros f Hf. apply C1. apply in_flat_map. eauto.
        -- rewrite Forall_forall in C2. apply Forall_forall. intros f Hf. apply C2.
           rewrite flat_map_app. apply in_or_app. left. apply in_flat_map. eauto.
      * rewrite C3. constructor.
    + intros phs. eapply Forall_False_nil; [eapply convert_trace_gated; exact EL|].
      intros e [_ G]. simpl in G. rewrite Hx in G. discriminate.
Qed.

(* "fails with a Sigma security error when first needed" *)
Theorem ext_use_denied E s sel rem :
  env_on (e_ext E) = false -> existsb (handled sel) rem = true ->
  run_node E (NExt s sel false) rem = (SigmaErr E_Security, []).
Proof. intros Hx Hh. simpl. rewrite Hh. unfold ext_allowed. rewrite Hx. reflexivity. Qed.

Theorem vars_use_denied E ap p :
  env_on (e_tv E) = false -> tpl_init E false ap (Some p) = (SigmaErr E_Security, []).
Proof. intros Ht. unfold tpl_init. rewrite Ht. reflexivity. Qed.

(* ---------------------------------------------------------------------------------------- *)
(* C16_doc_irrelevant: the opt-in keys of a document do not influence what is loaded *)

(* rewriting the list value bound to one key *)
Definition G (key : str) (h : yv -> yv) (kv : str * yv) : str * yv :=
  match kv with
  | (k, YList l) => if str_eqb key k then (k, YList (map h l)) else kv
  | _ => kv
  end.

Lemma G_fst key h kv : fst (G key h kv) = fst kv.
Proof. destruct kv as [k [| | | |l|]]; simpl; auto. destruct (str_eqb key k); reflexivity. Qed.

Lemma str_eqb_sym a b : str_eqb a b = str_eqb b a.
Proof.
  destruct (str_eqb a b) eqn:E1, (str_eqb b a) eqn:E2; auto.
  - apply str_eqb_eq in E1. subst. rewrite str_eqb_refl in E2. discriminate.
  - apply str_eqb_eq in E2. subst. rewrite str_eqb_refl in E1. discriminate.
Qed.

Lemma lookup_G key h k m :
  lookup k (map (G key h) m) =
  match lookup k m with
  | Some (YList l) => if str_eqb key k then Some (YList (map h l)) else Some (YList l)
  | x => x
  end.
Proof.
  induction m as [|[k' v] m IH]; [reflexivity|].
  cbn [map lookup]. destruct (G key h (k', v)) as [k'' v'] eqn:EG.
  assert (k'' = k') by (pose proof (G_fst key h (k', v)) as Hf; rewrite EG in Hf; exact Hf). subst k''.
  destruct (str_eqb k k') eqn:Ek; [|exact IH].
  apply str_eqb_eq in Ek. subst k'. unfold G in EG.
  destruct v as [| | | |l|]; try (inversion EG; reflexivity).
  destruct (str_eqb key k); inversion EG; reflexivity.
Qed.

Lemma lookup_G_other key h k m : str_eqb key k = false -> lookup k (map (G key h) m) = lookup k m.
Proof. intros H. rewrite lookup_G, H. destruct (lookup k m) as [[| | | |l|]|]; reflexivity. Qed.

Lemma remove_keys_G ks key h m : remove_keys ks (map (G key h) m) = map (G key h) (remove_keys ks m).
Proof.
  unfold remove_keys. induction m as [|kv m IH]; simpl; [reflexivity|].
  rewrite G_fst. destruct (negb (mem_str (fst kv) ks)); simpl; rewrite IH; reflexivity.
Qed.

Lemma lookup_remove k ks m : mem_str k ks = false -> lookup k (remove_keys ks m) = lookup k m.
Proof.
  intros H. unfold remove_keys. induction m as [|[k' v] m IH]; simpl; [reflexivity|].
  destruct (str_eqb k k') eqn:Ek.
  - apply str_eqb_eq in Ek. subst k'. rewrite H. simpl. rewrite str_eqb_refl. reflexivity.
  - destruct (negb (mem_str k' ks)); simpl; [rewrite Ek|]; exact IH.
Qed.

Lemma remove_keys_sub ks1 ks2 m :
  (forall k, mem_str k ks1 = true -> mem_str k ks2 = true) ->
  remove_keys ks2 (remove_keys ks1 m) = remove_keys ks2 m.
Proof.
  intros H. unfold remove_keys. induction m as [|[k v] m IH]; simpl; [reflexivity|].
  destruct (mem_str k ks1) eqn:E1; simpl.
  - rewrite (H k E1). simpl. exact IH.
  - destruct (mem_str k ks2); simpl; rewrite IH; reflexivity.
Qed.

Lemma remove_keys_idem ks m : remove_keys ks (remove_keys ks m) = remove_keys ks m.
Proof. apply remove_keys_sub. auto. Qed.

Lemma check_params_G acc req key h ps : check_params acc req (map (G key h) ps) = check_params acc req ps.
Proof.
  unfold check_params. f_equal.
  - induction ps as [|kv ps IH]; simpl; [reflexivity|]. rewrite G_fst, IH. reflexivity.
  - induction req as [|r req IHr]; simpl; [reflexivity|]. rewrite IHr. f_equal.
    rewrite lookup_G. destruct (lookup r ps) as [[| | | |l|]|]; try reflexivity.
    destruct (str_eqb key r); reflexivity.
Qed.

Lemma find_key_G {A} key h (onlist : list yv -> A) other none m :
  find_key key onlist other none (map (G key h) m) = find_key key (fun l => onlist (map h l)) other none m.
Proof.
  induction m as [|[k v] m IH]; simpl; [reflexivity|].
  destruct v as [| | | |l|]; simpl; try (destruct (str_eqb key k); [reflexivity | exact IH]).
  destruct (str_eqb key k) eqn:Ek; simpl; rewrite Ek; [reflexivity | exact IH].
Qed.

Lemma find_key_remove {A} key ks (onlist : list yv -> A) other none m :
  mem_str key ks = false ->
  find_key key onlist other none (remove_keys ks m) = find_key key onlist other none m.
Proof.
  intros H. unfold remove_keys. induction m as [|[k v] m IH]; simpl; [reflexivity|].
  destruct (str_eqb key k) eqn:Ek.
  - apply str_eqb_eq in Ek. subst k. rewrite H. simpl. rewrite str_eqb_refl. reflexivity.
  - destruct (negb (mem_str k ks)); simpl; [rewrite Ek|]; exact IH.
Qed.

Lemma find_key_ext {A} key (on1 on2 : list yv -> A) other none m :
  (forall k l, In (k, YList l) m -> on1 l = on2 l) ->
  find_key key on1 other none m = find_key key on2 other none m.
Proof.
  induction m as [|[k v] m IH]; intros H; simpl; [reflexivity|].
  destruct (str_eqb key k).
  - destruct v; try reflexivity. apply (H k). left. reflexivity.
  - apply IH. intros k' l' Hin. apply (H k'). right. exact Hin.
Qed.

(* constructors do not look at the rewritten key *)
Ltac lk := repeat (rewrite lookup_G_other by reflexivity).

Lemma ext_ctor_G kind key h ps flag :
  str_eqb key k_path = false -> str_eqb key k_url = false -> str_eqb key k_cmd = false ->
  str_eqb key k_format = false -> str_eqb key k_filter = false ->
  str_eqb key k_include = false -> str_eqb key k_exclude = false ->
  ext_ctor kind (map (G key h) ps) flag = ext_ctor kind ps flag.
Proof.
  intros H1 H2 H3 H4 H5 H6 H7. unfold ext_ctor. rewrite check_params_G.
  assert (Ek : str_eqb key (src_key kind) = false).
  { unfold src_key. destruct (kind =? 0); [exact H1|]. destruct (kind =? 1); [exact H2 | exact H3]. }
  rewrite (lookup_G_other key h (src_key kind)) by exact Ek.
  unfold ext_postinit_ok, is_none, src_of, get_sel, sel_field.
  rewrite !(lookup_G_other key h k_format), !(lookup_G_other key h k_filter), !(lookup_G_other key h k_include),
          !(lookup_G_other key h k_exclude), !(lookup_G_other key h k_path), !(lookup_G_other key h k_url),
          !(lookup_G_other key h k_cmd) by assumption.
  reflexivity.
Qed.

Lemma wild_ctor_G key h ps :
  str_eqb key k_include = false -> str_eqb key k_exclude = false ->
  wild_ctor (map (G key h) ps) = wild_ctor ps.
Proof.
  intros H6 H7. unfold wild_ctor, is_none, get_sel, sel_field. rewrite check_params_G.
  rewrite !(lookup_G_other key h k_include), !(lookup_G_other key h k_exclude) by assumption. reflexivity.
Qed.

Lemma plain_ctor_G acc req key h ps : plain_ctor acc req (map (G key h) ps) = plain_ctor acc req ps.
Proof. unfold plain_ctor. rewrite check_params_G. reflexivity. Qed.

Lemma tpl_ctor_G E tv ap key h ps :
  str_eqb key k_template = false -> str_eqb key k_path = false -> str_eqb key k_vars = false ->
  tpl_ctor E tv ap (map (G key h) ps) = tpl_ctor E tv ap ps.
Proof.
  intros H1 H2 H3. unfold tpl_ctor, tpl_source. rewrite check_params_G.
  rewrite !(lookup_G_other key h k_template), !(lookup_G_other key h k_path), !(lookup_G_other key h k_vars) by assumption.
  reflexivity.
Qed.

Lemma strip3_sub k : mem_str k [k_tv; k_ap; k_ext] = true -> mem_str k excl_keys = true.
Proof.
  unfold mem_str. simpl. intros H.
  repeat (apply orb_true_iff in H; destruct H as [H|H]); try discriminate;
    apply str_eqb_eq in H; subst k; reflexivity.
Qed.

Lemma inst_item_strip :
  forall n d ext, (ysize d < n)%nat -> inst_item ext (strip_item d) = inst_item ext d.
Proof.
  induction n as [|n IH]; intros d ext Hs; [lia|].
  destruct d as [| | | |l|m]; try reflexivity.
  change (strip_item (YMap m)) with (YMap (remove_keys [k_tv; k_ap; k_ext] (map (G k_items strip_item) m))).
  set (m' := remove_keys [k_tv; k_ap; k_ext] (map (G k_items strip_item) m)).
  assert (Et : lookup k_type m' = lookup k_type m).
  { unfold m'. rewrite lookup_remove by reflexivity. apply lookup_G_other. reflexivity. }
  assert (Eps : remove_keys excl_keys m' = map (G k_items strip_item) (remove_keys excl_keys m)).
  { unfold m'. rewrite remove_keys_sub by exact strip3_sub. apply remove_keys_G. }
  assert (Eg : forall x, guard m' x = guard m x).
  { intros x. unfold guard, item_applies, m'.
    rewrite !(lookup_remove k_rule_conditions) by reflexivity.
    rewrite !(lookup_G_other k_items strip_item k_rule_conditions) by reflexivity. reflexivity. }
  assert (Ef : forall (onlist : list yv -> outcome node) other none,
             find_key k_items onlist other none m' = find_key k_items (fun l => onlist (map strip_item l)) other none m).
  { intros. unfold m'. rewrite find_key_remove by reflexivity. apply find_key_G. }
  cbn [inst_item]. rewrite Et. destruct (lookup k_type m) as [[| | |ty| |]|]; try reflexivity.
  rewrite Eps. rewrite !ext_ctor_G, wild_ctor_G, plain_ctor_G, check_params_G by reflexivity.
  rewrite Ef.
  erewrite (find_key_ext k_items (fun l => obind (omap (inst_item false) (map strip_item l)) (fun ch => Ok (NNest ch)))
                         (fun l => obind (omap (inst_item false) l) (fun ch => Ok (NNest ch)))).
  - destruct (str_eqb ty t_file); [destruct (catch_o _); simpl; rewrite ?Eg; reflexivity|].
    destruct (str_eqb ty t_http); [destruct (catch_o _); simpl; rewrite ?Eg; reflexivity|].
    destruct (str_eqb ty t_cmd); [destruct (catch_o _); simpl; rewrite ?Eg; reflexivity|].
    destruct (str_eqb ty t_wild); [destruct (catch_o _); simpl; rewrite ?Eg; reflexivity|].
    destruct (str_eqb ty t_set_state); [destruct (catch_o _); simpl; rewrite ?Eg; reflexivity|].
    destruct (str_eqb ty t_nest); [destruct (catch_o _); simpl; rewrite ?Eg; reflexivity|].
    reflexivity.
  - intros k l Hin. rewrite omap_map. erewrite omap_ext; [reflexivity|].
    intros x Hx. apply IH. pose proof (ysize_list x l Hx). pose proof (ysize_map k (YList l) m Hin). lia.
Qed.

Lemma map_nil_iff {A B} (f : A -> B) l : match map f l with [] => true | _ => false end = match l with [] => true | _ => false end.
Proof. destruct l; reflexivity. Qed.

Lemma inst_post_strip E tv ap d : inst_post E tv ap (strip_item d) = inst_post E tv ap d.
Proof.
  destruct d as [| | | |l|m]; try reflexivity.
  change (strip_item (YMap m)) with (YMap (remove_keys [k_tv; k_ap; k_ext] (map (G k_items strip_item) m))).
  set (m' := remove_keys [k_tv; k_ap; k_ext] (map (G k_items strip_item) m)).
  assert (Et : lookup k_type m' = lookup k_type m).
  { unfold m'. rewrite lookup_remove by reflexivity. apply lookup_G_other. reflexivity. }
  assert (Eps : remove_keys excl_keys m' = map (G k_items strip_item) (remove_keys excl_keys m)).
  { unfold m'. rewrite remove_keys_sub by exact strip3_sub. apply remove_keys_G. }
  cbn [inst_post]. rewrite Et. destruct (lookup k_type m) as [[| | |ty| |]|]; try reflexivity.
  rewrite Eps. rewrite tpl_ctor_G, !plain_ctor_G, check_params_G by reflexivity.
  rewrite lookup_G. rewrite str_eqb_refl.
  destruct (lookup k_items (remove_keys excl_keys m)) as [[| | |s|l|mm]|]; try reflexivity.
  destruct l; reflexivity.
Qed.

Lemma stripfin_sub (top : bool) k :
  mem_str k (if top then [k_tv; k_ap; k_ext] else [k_tv; k_ap]) = true ->
  mem_str k (if top then [k_tv; k_ap; k_ext] else [k_tv; k_ap]) = true.
Proof. auto. Qed.

Lemma inst_fin_strip :
  forall n E tv ap top d, (ysize d < n)%nat -> inst_fin E tv ap top (strip_fin top d) = inst_fin E tv ap top d.
Proof.
  induction n as [|n IH]; intros E tv ap top d Hs; [lia|].
  destruct d as [| | | |l|m]; try reflexivity.
  assert (Y : forall K, mem_str k_finalizers K = false ->
     (fun m0 =>
     match lookup k_type (remove_keys K m0) with
     | None => rerr E_Config
     | Some tyv =>
       let ps := remove_keys [k_type] (remove_keys K m0) in
       let unknown : res node := if top then rerr E_Config else rcrash C_Key in
       match tyv with
       | YStr ty =>
         if str_eqb ty t_template then catch_r (tpl_ctor E tv ap ps)
         else if str_eqb ty t_nested then
           find_key k_finalizers
             (fun l => rbind (rmap (inst_fin E tv ap false) l) (fun ch => rret (NNest ch)))
             (fun v => rbind (rlift (iter_yv v)) (fun l =>
                       rbind (rmap (fun _ : yv => @rcrash node C_Attr) l) (fun ch => rret (NNest ch))))
             (rerr E_Config) m0
         else if str_eqb ty t_concat then rlift (catch_o (plain_ctor [k_separator; k_prefix; k_suffix] [] ps))
         else if str_eqb ty t_json then rlift (catch_o (plain_ctor [k_indent] [] ps))
         else if str_eqb ty t_yaml then rlift (catch_o (plain_ctor [k_indent] [] ps))
         else unknown
       | YList _ | YMap _ => rcrash C_Type
       | _ => unknown
       end
     end) (remove_keys K (map (G k_finalizers (strip_fin false)) m))
     = (fun m0 =>
     match lookup k_type (remove_keys K m0) with
     | None => rerr E_Config
     | Some tyv =>
       let ps := remove_keys [k_type] (remove_keys K m0) in
       let unknown : res node := if top then rerr E_Config else rcrash C_Key in
       match tyv with
       | YStr ty =>
         if str_eqb ty t_template then catch_r (tpl_ctor E tv ap ps)
         else if str_eqb ty t_nested then
           find_key k_finalizers
             (fun l => rbind (rmap (inst_fin E tv ap false) l) (fun ch => rret (NNest ch)))
             (fun v => rbind (rlift (iter_yv v)) (fun l =>
                       rbind (rmap (fun _ : yv => @rcrash node C_Attr) l) (fun ch => rret (NNest ch))))
             (rerr E_Config) m0
         else if str_eqb ty t_concat then rlift (catch_o (plain_ctor [k_separator; k_prefix; k_suffix] [] ps))
         else if str_eqb ty t_json then rlift (catch_o (plain_ctor [k_indent] [] ps))
         else if str_eqb ty t_yaml then rlift (catch_o (plain_ctor [k_indent] [] ps))
         else unknown
       | YList _ | YMap _ => rcrash C_Type
       | _ => unknown
       end
     end) m).
  { intros K HK2. cbv beta.
    rewrite remove_keys_idem, !remove_keys_G.
    rewrite (lookup_G_other k_finalizers (strip_fin false) k_type) by reflexivity.
    destruct (lookup k_type (remove_keys K m)) as [[|b|z|ty|l'|m'']|]; try reflexivity.
    cbv zeta. rewrite tpl_ctor_G, !plain_ctor_G by reflexivity.
    rewrite find_key_G. rewrite find_key_remove by exact HK2.
    erewrite (find_key_ext k_finalizers
                (fun l => rbind (rmap (inst_fin E tv ap false) (map (strip_fin false) l)) (fun ch => rret (NNest ch)))
                (fun l => rbind (rmap (inst_fin E tv ap false) l) (fun ch => rret (NNest ch)))).
    - reflexivity.
    - intros k l Hin. rewrite rmap_map. erewrite rmap_ext; [reflexivity|].
      intros x Hx. apply IH. pose proof (ysize_list x l Hx). pose proof (ysize_map k (YList l) m Hin). lia. }
  destruct top.
  - exact (Y [k_tv; k_ap; k_ext] eq_refl).
  - exact (Y [k_tv; k_ap] eq_refl).
Qed.

(* the top level *)
Definition Hd (kv : str * yv) : str * yv :=
  match kv with
  | (k, YList l) =>
    if str_eqb k k_transformations then (k, YList (map strip_item l))
    else if str_eqb k k_postprocessing then (k, YList (map strip_item l))
    else if str_eqb k k_finalizers then (k, YList (map (strip_fin true) l))
    else kv
  | _ => kv
  end.

Lemma Hd_fst kv : fst (Hd kv) = fst kv.
Proof.
  destruct kv as [k [| | | |l|]]; simpl; auto.
  destruct (str_eqb k k_transformations); [reflexivity|].
  destruct (str_eqb k k_postprocessing); [reflexivity|].
  destruct (str_eqb k k_finalizers); reflexivity.
Qed.

Lemma lookup_Hd k m : lookup k (map Hd m) = option_map (fun v => snd (Hd (k, v))) (lookup k m).
Proof.
  induction m as [|[k' v] m IH]; [reflexivity|].
  cbn [map lookup]. destruct (Hd (k', v)) as [k'' v'] eqn:EG.
  assert (k'' = k') by (pose proof (Hd_fst (k', v)) as Hf; rewrite EG in Hf; exact Hf). subst k''.
  destruct (str_eqb k k') eqn:Ek; [|exact IH].
  apply str_eqb_eq in Ek. subst k'. cbn [option_map]. rewrite EG. reflexivity.
Qed.

Lemma rbind_ext {A B} (x : res A) (f g : A -> res B) : (forall a, f a = g a) -> rbind x f = rbind x g.
Proof. intros H. destruct x as [[a|c|c] t]; simpl; [rewrite H|..]; reflexivity. Qed.

Lemma get_list_Hd k h m (F : list yv -> res tree) :
  (forall l, snd (Hd (k, YList l)) = YList (map h l)) ->
  (forall l, F (map h l) = F l) ->
  rbind (rlift (get_list k (map Hd m))) F = rbind (rlift (get_list k m)) F.
Proof.
  intros H1 H2. unfold get_list. rewrite lookup_Hd.
  destruct (lookup k m) as [[| | | |l|]|]; cbn [option_map]; try reflexivity.
  rewrite H1. cbn [iter_yv rlift rbind]. rewrite H2. reflexivity.
Qed.

Theorem doc_irrelevant E d a : load_dict E (strip_doc d) a = load_dict E d a.
Proof.
  destruct d as [| | | |l|m]; try reflexivity.
  change (strip_doc (YMap m)) with (YMap (map Hd m)). unfold load_dict.
  assert (Ek : forallb (fun kv => mem_str (fst kv) top_keys) (map Hd m) = forallb (fun kv => mem_str (fst kv) top_keys) m).
  { induction m as [|kv m IH]; [reflexivity|]. cbn [map forallb]. rewrite Hd_fst, IH. reflexivity. }
  rewrite Ek. destruct (negb (forallb (fun kv => mem_str (fst kv) top_keys) m)); [reflexivity|].
  rewrite (get_list_Hd k_transformations strip_item).
  2: { intros l0. reflexivity. }
  2: { intros l0. rewrite omap_map. erewrite omap_ext; [reflexivity|].
       intros x _. apply (inst_item_strip (S (ysize x))). apply Nat.lt_succ_diag_r. }
  apply rbind_ext. intros its. apply rbind_ext. intros items.
  rewrite (get_list_Hd k_postprocessing strip_item).
  2: { intros l0. reflexivity. }
  2: { intros l0. rewrite rmap_map. erewrite rmap_ext; [reflexivity|]. intros x _. apply inst_post_strip. }
  apply rbind_ext. intros pds. apply rbind_ext. intros post.
  rewrite (get_list_Hd k_finalizers (strip_fin true)).
  2: { intros l0. reflexivity. }
  2: { intros l0. rewrite rmap_map. erewrite rmap_ext; [reflexivity|].
       intros x _. apply (inst_fin_strip (S (ysize x))). apply Nat.lt_succ_diag_r. }
  reflexivity.
Qed.

Corollary doc_irrelevant_rel E d d' a :
  same_modulo_optin_keys d d' -> load_dict E d a = load_dict E d' a.
Proof. unfold same_modulo_optin_keys. intros H. rewrite <- (doc_irrelevant E d a), <- (doc_irrelevant E d' a), H. reflexivity. Qed.

(* ---------------------------------------------------------------------------------------- *)
(* the other entry points are from_dict with adjusted arguments *)
Lemma load_yaml_eq E d a src :
  load_yaml E d a src = load_dict E d {| a_ext := a_ext a; a_tv := a_tv a; a_ap := yaml_paths E (a_ap a) src |}.
Proof. reflexivity. Qed.
Lemma load_resolver_snd E d spec :
  snd (load_resolver E d spec) =
  snd (load_dict E d {| a_ext := false; a_tv := false; a_ap := Some [render (removelast (real E spec))] |}).
Proof. reflexivity. Qed.
Lemma load_resolver_ok E d spec t tr :
  load_resolver E d spec = (Ok t, tr) ->
  load_dict E d {| a_ext := false; a_tv := false; a_ap := Some [render (removelast (real E spec))] |} = (Ok t, tr).
Proof.
  unfold load_resolver, oserror_to_notfound, load_yaml. simpl.
  destruct (load_dict E d _) as [[t'|c|c] tr'] eqn:EL; simpl; intros H; try discriminate.
  - exact H.
  - destruct (c =? C_NotFound); discriminate.
Qed.

(* a pipeline resolved from a file name never performs any effect unless the environment grants it, and then a
   vars file is executed only below the directory of the pipeline file *)
Theorem resolver_contained E d spec :
  wf_real (real E) ->
  (forall cs, Forall wf_comp cs -> real E (render cs) = cs) ->   (* realpath is idempotent *)
  Forall (fun e => exists p, e = EExec (real E p) /\ env_on (e_tv E) = true /\
                             is_prefix (removelast (real E spec)) (real E p))
         (snd (load_resolver E d spec)).
Proof.
  intros W I. rewrite load_resolver_snd. eapply Forall_impl; [|apply load_trace_gated].
  intros e (p & -> & G & PA). cbn [a_tv a_ap orb] in G, PA. exists p. split; [reflexivity|]. split; [exact G|].
  apply path_containment in PA; [|exact W]. destruct PA as (b & [<-|[]] & Hp).
  rewrite I in Hp; [exact Hp|].
  pose proof (W spec) as Hs. clear -Hs. induction (real E spec) as [|c cs IH]; [constructor|].
  inversion Hs; subst. destruct cs; [constructor|]. simpl. constructor; auto.
Qed.

(* ---------------------------------------------------------------------------------------- *)
(* the gate's reading of the environment variable is the documented one: "1" or "true" in any letter case *)
Lemma lower_inv c x : lower_ascii c = x -> c = x \/ c + 32 = x.
Proof. unfold lower_ascii. destruct ((65 <=? c) && (c <=? 90)); intros H; [right | left]; exact H. Qed.

Lemma lower_one c : lower_ascii c = 49 -> c = 49.
Proof.
  unfold lower_ascii. destruct ((65 <=? c) && (c <=? 90)) eqn:B; intros H; [|exact H].
  apply andb_true_iff in B. destruct B as [B _]. apply N.leb_le in B. lia.
Qed.

Lemma map_lower_true s :
  map lower_ascii s = s_true ->
  exists a b c d, s = [a; b; c; d] /\ (a = 116 \/ a = 84) /\ (b = 114 \/ b = 82) /\ (c = 117 \/ c = 85) /\ (d = 101 \/ d = 69).
Proof.
  destruct s as [|a [|b [|c [|d [|e s]]]]]; simpl; intros H; try discriminate.
  unfold s_true in H. injection H as Ha Hb Hc Hd. exists a, b, c, d. split; [reflexivity|].
  apply lower_inv in Ha, Hb, Hc, Hd. repeat split; lia.
Qed.

Theorem env_on_documented v : env_on v = env_grants v.
Proof.
  destruct v as [s|]; [|reflexivity]. unfold env_on, env_grants.
  destruct (str_eqb (map lower_ascii s) s_one) eqn:E1.
  - apply str_eqb_eq in E1. destruct s as [|c [|c' s]]; simpl in E1; try discriminate.
    inversion E1 as [Hc]. apply lower_one in Hc. subst c. reflexivity.
  - destruct (str_eqb (map lower_ascii s) s_true) eqn:E2.
    + apply str_eqb_eq in E2. apply map_lower_true in E2.
      destruct E2 as (a & b & c & d & -> & [-> | ->] & [-> | ->] & [-> | ->] & [-> | ->]); reflexivity.
    + symmetry. apply not_true_is_false. intros H.
      unfold mem_str in H. vm_compute case_variants in H. cbn [existsb] in H.
      repeat (apply orb_true_iff in H; destruct H as [H|H];
              [apply str_eqb_eq in H; subst s; vm_compute in E1; vm_compute in E2; discriminate|]).
      discriminate.
Qed.

(* ---------------------------------------------------------------------------------------- *)
(* the executable oracle used on the implementation's observations accepts everything the model does:
   whenever the implementation behaves like the model, the oracle cannot reject *)
Lemma is_prefixb_spec b : forall p, is_prefixb b p = true <-> is_prefix b p.
Proof.
  induction b as [|x b IH]; intros p; simpl.
  - split; [intros _; exists p; reflexivity | reflexivity].
  - destruct p as [|y p].
    + split; [discriminate | intros [r Hr]; discriminate].
    + rewrite andb_true_iff, str_eqb_eq, IH. split.
      * intros [-> [r ->]]. exists r. reflexivity.
      * intros [r Hr]. inversion Hr; subst. split; [reflexivity | exists r; reflexivity].
Qed.
Lemma is_prefixb_refl b : is_prefixb b b = true.
Proof. apply is_prefixb_spec. exists []. rewrite app_nil_r. reflexivity. Qed.

Lemma ap_within_refl physb ap : ap_within physb ap ap = true.
Proof.
  destruct ap as [bs|]; [|reflexivity]. simpl. apply forallb_forall. intros b Hb.
  apply existsb_exists. exists b. split; [exact Hb | apply is_prefixb_refl].
Qed.

Lemma all_flags_le E d a t tr :
  load_dict E d a = (Ok t, tr) -> Forall (fun f => f = true -> a_ext a = true) (tree_ext_flags (obs_tree t)).
Proof.
  intros EL. pose proof (caps_from_caller E d a t tr EL) as (C1 & C2 & C3 & _). cbv zeta in *.
  unfold tree_ext_flags, tree_nodes in *. rewrite flat_map_app. apply Forall_app. split.
  - apply Forall_flat_map. apply Forall_forall. intros o Ho. rewrite all_flags_split. apply Forall_app. split.
    + rewrite Forall_forall in C1. apply Forall_forall. intros f Hf Ht. rewrite <- Ht. symmetry. apply C1.
      apply in_flat_map. eauto.
    + rewrite Forall_forall in C2. apply Forall_forall. intros f Hf Ht. exfalso.
      assert (f = false); [|congruence]. apply C2. rewrite flat_map_app. apply in_or_app. left. apply in_flat_map. eauto.
  - rewrite C3. constructor.
Qed.

Theorem model_satisfies_spec E d a o tr1 phs :
  wf_real (real E) -> load_dict E d a = (o, tr1) ->
  let ot := match o with Ok t => Some (obs_tree t) | _ => None end in
  let tr2 := match o with Ok t => snd (convert E t phs) | _ => [] end in
  spec_ok a (env_grants (e_ext E)) (env_grants (e_tv E)) (real E) ot (tr1 ++ tr2) false false = true.
Proof.
  intros W EL. cbv zeta. unfold spec_ok. rewrite <- !env_on_documented.
  apply andb_true_iff. split; [|reflexivity]. apply andb_true_iff. split; [apply andb_true_iff; split|reflexivity].
  - rewrite forallb_app. apply andb_true_iff. split.
    + pose proof (load_trace_gated E d a) as T. rewrite EL in T. simpl in T.
      apply forallb_forall. intros e He. rewrite Forall_forall in T. destruct (T e He) as (p & -> & G & PA).
      simpl. rewrite G. simpl. destruct (a_ap a) as [bs|]; [|reflexivity].
      apply path_containment in PA; [|exact W]. destruct PA as (b & Hb & Hp).
      apply existsb_exists. exists b. split; [exact Hb | apply is_prefixb_spec; exact Hp].
    + destruct o as [t|c|c]; try reflexivity.
      pose proof (convert_trace_gated E d a t tr1 phs EL) as T.
      apply forallb_forall. intros e He. rewrite Forall_forall in T. destruct (T e He) as ([s ->] & G).
      destruct s; simpl; exact G.
  - destruct o as [t|c|c]; try reflexivity.
    pose proof (caps_from_caller E d a t tr1 EL) as (_ & _ & _ & C4). cbv zeta in C4.
    apply andb_true_iff. split; [apply andb_true_iff; split|].
    + apply forallb_forall. intros f Hf. pose proof (all_flags_le E d a t tr1 EL) as L.
      rewrite Forall_forall in L. specialize (L f Hf). destruct f; [rewrite L by reflexivity|]; reflexivity.
    + apply forallb_forall. intros [[v tv] ap] Hc. rewrite Forall_forall in C4. destruct (C4 _ Hc) as (H1 & H2 & _).
      simpl in H1, H2. subst tv ap. rewrite ap_within_refl. destruct (a_tv a); reflexivity.
    + unfold no_vars_without_grant. destruct (a_tv a || env_on (e_tv E)) eqn:G; [reflexivity|]. simpl.
      apply forallb_forall. intros [[v tv] ap] Hc. rewrite Forall_forall in C4. destruct (C4 _ Hc) as (_ & _ & H3).
      simpl in H3. destruct v as [p|]; [|reflexivity]. rewrite H3 in G by discriminate. discriminate.
Qed.

(* ---------------------------------------------------------------------------------------- *)
(* the literal reading "every item carries the caller's bits" is false for nested external-source items when the
   caller opts in: NestedProcessingTransformation builds its items without the opt-in *)
Definition ex_env : env :=
  {| e_ext := None; e_tv := None; real := fun s => [s]; loadable := fun _ => true; fetch_ok := fun _ => true; tpl_file := fun _ _ => None |}.
Definition ex_nested_doc : yv :=
  YMap [(k_transformations,
         YList [YMap [(k_type, YStr t_nest);
                      (k_items, YList [YMap [(k_type, YStr t_file); (k_path, YStr (lit "/x")); (k_ext, YBool true)]])]])].
Definition ex_optin := {| a_ext := true; a_tv := false; a_ap := None |}.

Lemma caps_equal_refuted :
  exists E d a t tr, load_dict E d a = (Ok t, tr) /\ a_ext a = true /\ In false (tree_ext_flags (obs_tree t)).
Proof.
  exists ex_env, ex_nested_doc, ex_optin.
  eexists. eexists. split; [vm_compute; reflexivity|]. split; [reflexivity|]. vm_compute. left. reflexivity.
Qed.

Corollary caps_from_caller_yaml E d a src t tr :
  load_yaml E d a src = (Ok t, tr) ->
  Forall (fun f => f = true -> a_ext a = true) (tree_ext_flags (obs_tree t)) /\
  Forall (tpl_is E (a_tv a) (yaml_paths E (a_ap a) src)) (tree_tpl_caps (obs_tree t)).
Proof.
  rewrite load_yaml_eq. intros EL. split.
  - exact (all_flags_le E d _ t tr EL).
  - pose proof (caps_from_caller E d _ t tr EL) as (_ & _ & _ & C4). exact C4.
Qed.

Corollary caps_resolver E d spec t tr :
  load_resolver E d spec = (Ok t, tr) ->
  Forall (fun f => f = false) (tree_ext_flags (obs_tree t)) /\
  Forall (tpl_is E false (Some [render (removelast (real E spec))])) (tree_tpl_caps (obs_tree t)).
Proof.
  intros EL. apply load_resolver_ok in EL. split.
  - pose proof (all_flags_le E d _ t tr EL) as L. eapply Forall_impl; [|exact L].
    intros f Hf. destruct f; [discriminate (Hf eq_refl) | reflexivity].
  - pose proof (caps_from_caller E d _ t tr EL) as (_ & _ & _ & C4). exact C4.
Qed.


(* ---------------------------------------------------------------------------------------- *)
(* rendering of templates (post-processing and finalizers) is confined to the sandbox: it adds no effect, and a
   template that reaches for an underscore attribute is refused instead of evaluated *)
Theorem render_no_effect E d t phs : snd (convert_full E d t phs) = snd (convert E t phs).
Proof.
  unfold convert_full. destruct (convert E t phs) as [[u|c|c] tr]; simpl; try reflexivity.
  destruct (doc_unsafe E d); simpl; rewrite app_nil_r; reflexivity.
Qed.

Theorem unsafe_template_refused E d t phs :
  doc_unsafe E d = true -> fst (convert E t phs) = Ok tt -> fst (convert_full E d t phs) = Crash C_Sandbox.
Proof.
  intros U C. unfold convert_full. destruct (convert E t phs) as [[u|c|c] tr]; simpl in *; try discriminate.
  rewrite U. reflexivity.
Qed.

Theorem no_effect_default_full E d :
  env_on (e_ext E) = false -> env_on (e_tv E) = false ->
  forall t, fst (load_dict E d default_args) = Ok t -> forall phs, snd (convert_full E d t phs) = [].
Proof.
  intros Hx Ht t EL phs. rewrite render_no_effect.
  destruct (no_effect_default E d Hx Ht) as [_ H]. destruct (H t EL) as (_ & _ & H3). apply H3.
Qed.
