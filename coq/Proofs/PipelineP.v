(* C14 - proofs about Model.Pipeline against Spec.AbsPipeline *)
From Coq Require Import NArith ZArith List Bool Lia Permutation Sorting.Sorted.
From PS Require Import Base.Chars Base.Outcome Spec.AbsPipeline Model.Pipeline.
Import ListNotations.
Open Scope N_scope.

(* ------------------------------------------------------------------ dictionaries *)
Definition dict_ok (d : dict) : Prop := NoDup (map fst d).

Lemma str_eqb_true a b : str_eqb a b = true -> a = b.
Proof. apply str_eqb_eq. Qed.
Lemma str_eqb_false a b : str_eqb a b = false -> a <> b.
Proof. intros H E. subst. rewrite str_eqb_refl in H. discriminate. Qed.
Lemma str_eqb_neq a b : a <> b -> str_eqb a b = false.
Proof. intros H. destruct (str_eqb a b) eqn:E; [apply str_eqb_true in E; contradiction | reflexivity]. Qed.

Lemma lookup_dset k d k' v :
  lookup k (dset d k' v) = if str_eqb k k' then Some v else lookup k d.
Proof.
  induction d as [|[k0 v0] d IH]; simpl.
  - destruct (str_eqb k k'); reflexivity.
  - destruct (str_eqb k' k0) eqn:E0; simpl.
    + apply str_eqb_true in E0. subst k0. destruct (str_eqb k k'); reflexivity.
    + destruct (str_eqb k k0) eqn:E1.
      * apply str_eqb_true in E1. subst k0.
        rewrite (str_eqb_neq k k'); [reflexivity|]. intro; subst. rewrite str_eqb_refl in E0. discriminate.
      * exact IH.
Qed.

Lemma lookup_notin k d : ~ In k (map fst d) -> lookup k d = None.
Proof.
  induction d as [|[k0 v0] d IH]; simpl; intros H; [reflexivity|].
  rewrite str_eqb_neq; [apply IH; tauto | intro; subst; tauto].
Qed.

Lemma keys_dset d k v :
  map fst (dset d k v) = if existsb (str_eqb k) (map fst d) then map fst d else map fst d ++ [k].
Proof.
  induction d as [|[k0 v0] d IH]; simpl; [reflexivity|].
  destruct (str_eqb k k0) eqn:E; simpl; [reflexivity|].
  rewrite IH. destruct (existsb (str_eqb k) (map fst d)); reflexivity.
Qed.

Lemma NoDup_snoc {A} (l : list A) k : NoDup l -> ~ In k l -> NoDup (l ++ [k]).
Proof.
  induction l as [|x l IH]; simpl; intros H Hn.
  - constructor; [intros []|constructor].
  - inversion H; subst. constructor.
    + rewrite in_app_iff. simpl. intros [?|[?|[]]]; [tauto | subst; apply Hn; left; reflexivity].
    + apply IH; [assumption | intro; apply Hn; right; assumption].
Qed.
Lemma dict_ok_dset d k v : dict_ok d -> dict_ok (dset d k v).
Proof.
  unfold dict_ok. intros H. rewrite keys_dset.
  destruct (existsb (str_eqb k) (map fst d)) eqn:E; [exact H|].
  apply NoDup_snoc; [exact H|].
  intros Hin. assert (existsb (str_eqb k) (map fst d) = true).
  { apply existsb_exists. exists k. split; [exact Hin | apply str_eqb_refl]. } congruence.
Qed.

Lemma dict_ok_dmerge a b : dict_ok a -> dict_ok (dmerge a b).
Proof.
  unfold dmerge. revert a. induction b as [|[k v] b IH]; simpl; intros a H; [exact H|].
  apply IH. apply dict_ok_dset. exact H.
Qed.

(* variables of the later pipeline override those of the earlier one *)
Lemma lookup_dmerge k a b : dict_ok b ->
  lookup k (dmerge a b) = match lookup k b with Some v => Some v | None => lookup k a end.
Proof.
  unfold dmerge. revert a. induction b as [|[k0 v0] b IH]; simpl; intros a H; [reflexivity|].
  inversion H; subst. rewrite IH by assumption. rewrite lookup_dset.
  destruct (str_eqb k k0) eqn:E.
  - apply str_eqb_true in E. subst. rewrite lookup_notin by assumption. reflexivity.
  - reflexivity.
Qed.

Lemma dmerge_nil_r a : dmerge a [] = a.
Proof. reflexivity. Qed.
Lemma lookup_dmerge_nil_l k b : dict_ok b -> lookup k (dmerge [] b) = lookup k b.
Proof. intros H. rewrite lookup_dmerge by exact H. destruct (lookup k b); reflexivity. Qed.

(* ------------------------------------------------------------------ stable sorting *)
Section SortP.
  Context {A : Type} (leb : A -> A -> bool).
  Hypothesis leb_total : forall a b, leb a b = true \/ leb b a = true.
  Hypothesis leb_trans : forall a b c, leb a b = true -> leb b c = true -> leb a c = true.
  Notation le := (fun a b => leb a b = true).

  Lemma insert_perm x l : Permutation (insert leb x l) (x :: l).
  Proof.
    induction l as [|y l IH]; simpl; [apply Permutation_refl|].
    destruct (leb x y); [apply Permutation_refl|].
    eapply Permutation_trans; [apply perm_skip; exact IH | apply perm_swap].
  Qed.
  Lemma isort_perm l : Permutation (isort leb l) l.
  Proof.
    induction l as [|x l IH]; simpl; [constructor|].
    eapply Permutation_trans; [apply insert_perm | apply perm_skip; exact IH].
  Qed.

  Lemma insert_sorted x l : StronglySorted le l -> StronglySorted le (insert leb x l).
  Proof.
    induction l as [|y l IH]; simpl; intros H.
    - constructor; [constructor | constructor].
    - inversion H as [|? ? Hs Hf]; subst. destruct (leb x y) eqn:E.
      + constructor; [exact H|]. constructor; [exact E|].
        rewrite Forall_forall in *. intros z Hz. eapply leb_trans; [exact E | apply Hf; exact Hz].
      + constructor; [apply IH; exact Hs|].
        assert (Hyx : leb y x = true) by (destruct (leb_total x y); congruence).
        rewrite Forall_forall in *. intros z Hz.
        apply (Permutation_in _ (insert_perm x l)) in Hz. destruct Hz as [<-|Hz]; [exact Hyx | apply Hf; exact Hz].
  Qed.
  Lemma isort_sorted l : StronglySorted le (isort leb l).
  Proof. induction l as [|x l IH]; simpl; [constructor | apply insert_sorted; exact IH]. Qed.

  (* a sorted list is determined by its elements when the order is antisymmetric on them *)
  Lemma sorted_unique l1 : forall l2,
    StronglySorted le l1 -> StronglySorted le l2 -> Permutation l1 l2 ->
    (forall x y, In x l1 -> In y l1 -> leb x y = true -> leb y x = true -> x = y) -> l1 = l2.
  Proof.
    induction l1 as [|a l1 IH]; intros l2 H1 H2 HP Ha.
    - apply Permutation_nil in HP. subst. reflexivity.
    - destruct l2 as [|b l2]; [apply Permutation_sym, Permutation_nil in HP; discriminate|].
      inversion H1 as [|? ? Hs1 Hf1]; inversion H2 as [|? ? Hs2 Hf2]; subst.
      rewrite Forall_forall in Hf1, Hf2.
      assert (Eab : a = b).
      { assert (Hb : In b (a :: l1)) by (apply (Permutation_in _ (Permutation_sym HP)); left; reflexivity).
        assert (Ha' : In a (b :: l2)) by (apply (Permutation_in _ HP); left; reflexivity).
        destruct Hb as [Hb|Hb]; [exact Hb|]. destruct Ha' as [Ha'|Ha']; [symmetry; exact Ha'|].
        apply Ha; [left; reflexivity | right; exact Hb | apply Hf1; exact Hb | apply Hf2; exact Ha']. }
      subst b. f_equal. apply IH; try assumption.
      + eapply Permutation_cons_inv. exact HP.
      + intros x y Hx Hy. apply Ha; right; assumption.
  Qed.

  (* stability: elements that the order does not separate keep their argument order *)
  Definition eqv (z a : A) : bool := leb z a && leb a z.
  Lemma insert_stable z x l :
    filter (eqv z) (insert leb x l) = filter (eqv z) (x :: l).
  Proof.
    induction l as [|y l IH]; [reflexivity|].
    simpl insert. destruct (leb x y) eqn:E; [reflexivity|].
    cbn [filter]. rewrite IH. cbn [filter].
    destruct (eqv z x) eqn:Ex; destruct (eqv z y) eqn:Ey; try reflexivity. exfalso.
    unfold eqv in Ex, Ey. apply andb_true_iff in Ex, Ey. destruct Ex as [_ Exz], Ey as [Ezy _].
    rewrite (leb_trans _ _ _ Exz Ezy) in E. discriminate.
  Qed.
  Lemma isort_stable z l : filter (eqv z) (isort leb l) = filter (eqv z) l.
  Proof.
    induction l as [|x l IH]; [reflexivity|]. simpl isort. rewrite insert_stable. simpl. rewrite IH. reflexivity.
  Qed.
End SortP.

(* ------------------------------------------------------------------ the (priority, name) order *)
Lemma str_leb_total a : forall b, str_leb a b = true \/ str_leb b a = true.
Proof.
  induction a as [|x a IH]; intros [|y b]; simpl; auto.
  destruct (N.ltb x y) eqn:L1; [auto|]. destruct (N.ltb y x) eqn:L2; [auto|].
  apply N.ltb_ge in L1, L2. assert (x = y) by lia. subst. rewrite N.eqb_refl. apply IH.
Qed.
Lemma str_leb_antisym a : forall b, str_leb a b = true -> str_leb b a = true -> a = b.
Proof.
  induction a as [|x a IH]; intros [|y b]; simpl; intros H1 H2; try reflexivity; try discriminate.
  destruct (N.ltb x y) eqn:L1.
  - apply N.ltb_lt in L1. destruct (N.ltb y x) eqn:L2; [apply N.ltb_lt in L2; lia|].
    destruct (N.eqb y x) eqn:E; [apply N.eqb_eq in E; lia | discriminate].
  - destruct (N.eqb x y) eqn:E; [|discriminate]. apply N.eqb_eq in E. subst.
    rewrite N.ltb_irrefl, N.eqb_refl in H2. f_equal. apply IH; assumption.
Qed.
Lemma str_leb_trans a : forall b c, str_leb a b = true -> str_leb b c = true -> str_leb a c = true.
Proof.
  induction a as [|x a IH]; intros [|y b] [|z c]; simpl; intros H1 H2; try reflexivity; try discriminate.
  destruct (N.ltb x y) eqn:L1.
  - apply N.ltb_lt in L1. destruct (N.ltb y z) eqn:L2.
    + apply N.ltb_lt in L2. assert (L : N.ltb x z = true) by (apply N.ltb_lt; lia). rewrite L. reflexivity.
    + destruct (N.eqb y z) eqn:E; [|discriminate]. apply N.eqb_eq in E. subst.
      assert (L : N.ltb x z = true) by (apply N.ltb_lt; lia). rewrite L. reflexivity.
  - destruct (N.eqb x y) eqn:E; [|discriminate]. apply N.eqb_eq in E. subst.
    destruct (N.ltb y z); [reflexivity|]. destruct (N.eqb y z); [|discriminate]. eapply IH; eassumption.
Qed.

Lemma key_leb_total a b : key_leb a b = true \/ key_leb b a = true.
Proof.
  unfold key_leb. destruct a as [p s], b as [q t]; simpl.
  destruct (Z.ltb p q) eqn:L1; [auto|]. destruct (Z.ltb q p) eqn:L2; [auto|].
  apply Z.ltb_ge in L1, L2. assert (p = q) by lia. subst. rewrite Z.eqb_refl. apply str_leb_total.
Qed.
Lemma key_leb_antisym a b : key_leb a b = true -> key_leb b a = true -> a = b.
Proof.
  unfold key_leb. destruct a as [p s], b as [q t]; simpl. intros H1 H2.
  destruct (Z.ltb p q) eqn:L1.
  - apply Z.ltb_lt in L1. destruct (Z.ltb q p) eqn:L2; [apply Z.ltb_lt in L2; lia|].
    destruct (Z.eqb q p) eqn:E; [apply Z.eqb_eq in E; lia | discriminate].
  - destruct (Z.eqb p q) eqn:E; [|discriminate]. apply Z.eqb_eq in E. subst.
    rewrite Z.ltb_irrefl, Z.eqb_refl in H2. f_equal. apply str_leb_antisym; assumption.
Qed.
Lemma key_leb_trans a b c : key_leb a b = true -> key_leb b c = true -> key_leb a c = true.
Proof.
  unfold key_leb. destruct a as [p s], b as [q t], c as [r u]; simpl. intros H1 H2.
  destruct (Z.ltb p q) eqn:L1.
  - apply Z.ltb_lt in L1. destruct (Z.ltb q r) eqn:L2.
    + apply Z.ltb_lt in L2. assert (L : Z.ltb p r = true) by (apply Z.ltb_lt; lia). rewrite L. reflexivity.
    + destruct (Z.eqb q r) eqn:E; [|discriminate]. apply Z.eqb_eq in E. subst.
      assert (L : Z.ltb p r = true) by (apply Z.ltb_lt; lia). rewrite L. reflexivity.
  - destruct (Z.eqb p q) eqn:E; [|discriminate]. apply Z.eqb_eq in E. subst.
    destruct (Z.ltb q r); [reflexivity|]. destruct (Z.eqb q r); [|discriminate]. eapply str_leb_trans; eassumption.
Qed.

(* ------------------------------------------------------------------ resolver order *)
Lemma NoDup_map_inj {A B} (f : A -> B) l : NoDup (map f l) ->
  forall x y, In x l -> In y l -> f x = f y -> x = y.
Proof.
  induction l as [|a l IH]; simpl; intros H x y Hx Hy E; [contradiction|].
  inversion H as [|? ? Hn Hd]; subst.
  destruct Hx as [<-|Hx], Hy as [<-|Hy]; try reflexivity.
  - exfalso. apply Hn. rewrite E. apply in_map. exact Hy.
  - exfalso. apply Hn. rewrite <- E. apply in_map. exact Hx.
  - apply IH; assumption.
Qed.

Section ResolverP.
  Context {A : Type} (nm : A -> option str) (pr : A -> Z).
  Notation ileb := (info_leb pr).

  Lemma info_leb_total (a b : A * str) : ileb a b = true \/ ileb b a = true.
  Proof. apply key_leb_total. Qed.
  Lemma info_leb_trans (a b c : A * str) : ileb a b = true -> ileb b c = true -> ileb a c = true.
  Proof. apply key_leb_trans. Qed.

  Lemma resolve_all_perm reg specs specs' : Permutation specs specs' ->
    match resolve_all nm reg specs, resolve_all nm reg specs' with
    | Some l, Some l' => Permutation l l'
    | None, None => True
    | _, _ => False
    end.
  Proof.
    induction 1 as [|x l l' HP IH|x y l|l l' l'' HP1 IH1 HP2 IH2]; simpl.
    - constructor.
    - destruct (reg_lookup nm reg x); destruct (resolve_all nm reg l), (resolve_all nm reg l'); try exact I; try contradiction.
      apply perm_skip. exact IH.
    - destruct (reg_lookup nm reg x), (reg_lookup nm reg y), (resolve_all nm reg l); try exact I. apply perm_swap.
    - destruct (resolve_all nm reg l), (resolve_all nm reg l'), (resolve_all nm reg l''); try exact I; try contradiction.
      eapply Permutation_trans; eassumption.
  Qed.

  Lemma resolve_all_snd reg specs : forall l, resolve_all nm reg specs = Some l -> map snd l = specs.
  Proof.
    induction specs as [|s specs IH]; simpl; intros l H.
    - inversion H. reflexivity.
    - destruct (reg_lookup nm reg s); [|discriminate]. destruct (resolve_all nm reg specs); [|discriminate].
      inversion H. simpl. f_equal. apply IH. reflexivity.
  Qed.
  Lemma resolve_all_lookup reg specs : forall l, resolve_all nm reg specs = Some l ->
    forall x, In x l -> reg_lookup nm reg (snd x) = Some (fst x).
  Proof.
    induction specs as [|s specs IH]; simpl; intros l H x Hx.
    - inversion H; subst. contradiction.
    - destruct (reg_lookup nm reg s) eqn:E; [|discriminate]. destruct (resolve_all nm reg specs); [|discriminate].
      inversion H; subst. destruct Hx as [<-|Hx]; [exact E | eapply IH; [reflexivity | exact Hx]].
  Qed.

  (* naming the pipelines in any order resolves to the same list of pipelines *)
  Lemma resolve_order_perm reg specs specs' :
    Permutation specs specs' -> NoDup specs -> resolve_order nm pr reg specs = resolve_order nm pr reg specs'.
  Proof.
    intros HP Hnd. unfold resolve_order. pose proof (resolve_all_perm reg _ _ HP) as H.
    destruct (resolve_all nm reg specs) as [l|] eqn:E1, (resolve_all nm reg specs') as [l'|] eqn:E2;
      try contradiction; [|reflexivity].
    f_equal. f_equal.
    apply (sorted_unique ileb).
    - apply isort_sorted; [apply info_leb_total | apply info_leb_trans].
    - apply isort_sorted; [apply info_leb_total | apply info_leb_trans].
    - eapply Permutation_trans; [apply isort_perm|].
      eapply Permutation_trans; [exact H | apply Permutation_sym, isort_perm].
    - intros x y Hx Hy L1 L2.
      apply (Permutation_in _ (isort_perm ileb l)) in Hx, Hy.
      assert (K : info_key pr x = info_key pr y) by (apply key_leb_antisym; assumption).
      apply (NoDup_map_inj snd l); try assumption.
      + rewrite (resolve_all_snd _ _ _ E1). exact Hnd.
      + unfold info_key in K. inversion K. reflexivity.
  Qed.

  (* what the order is: a permutation of the named pipelines, ascending in (priority, name),
     equal keys in argument order *)
  Lemma resolve_order_spec reg specs l : resolve_all nm reg specs = Some l ->
    exists s, resolve_order nm pr reg specs = Some (map fst s) /\
      Permutation s l /\ StronglySorted (fun a b => ileb a b = true) s /\
      forall z, filter (eqv ileb z) s = filter (eqv ileb z) l.
  Proof.
    intros E. exists (isort ileb l). unfold resolve_order. rewrite E. split; [reflexivity|]. split; [apply isort_perm|].
    split; [apply isort_sorted; [apply info_leb_total | apply info_leb_trans]|].
    intros z. apply isort_stable. apply info_leb_trans.
  Qed.
End ResolverP.

(* the resolver commutes with maps that keep identifier and priority *)
Section ResolveMap.
  Context {A B : Type} (g : A -> B) (nm : A -> option str) (pr : A -> Z) (nm' : B -> option str) (pr' : B -> Z).
  Hypothesis nm_g : forall x, nm' (g x) = nm x.
  Hypothesis pr_g : forall x, pr' (g x) = pr x.
  Definition gx (x : A * str) : B * str := (g (fst x), snd x).

  Lemma reg_lookup_map reg s : reg_lookup nm' (map g reg) s = option_map g (reg_lookup nm reg s).
  Proof.
    induction reg as [|p reg IH]; cbn; [reflexivity|]. rewrite IH.
    destruct (reg_lookup nm reg s); cbn; [reflexivity|]. rewrite nm_g.
    destruct (oname_eqb (nm p) s); reflexivity.
  Qed.
  Lemma resolve_all_map reg specs :
    resolve_all nm' (map g reg) specs = option_map (map gx) (resolve_all nm reg specs).
  Proof.
    induction specs as [|s specs IH]; cbn; [reflexivity|]. rewrite reg_lookup_map, IH.
    destruct (reg_lookup nm reg s); cbn; [|reflexivity]. destruct (resolve_all nm reg specs); reflexivity.
  Qed.
  Lemma info_leb_map x y : info_leb pr' (gx x) (gx y) = info_leb pr x y.
  Proof. unfold info_leb, info_key, gx. cbn. rewrite !pr_g. reflexivity. Qed.
  Lemma insert_map x l : insert (info_leb pr') (gx x) (map gx l) = map gx (insert (info_leb pr) x l).
  Proof.
    induction l as [|y l IH]; cbn; [reflexivity|]. rewrite info_leb_map.
    destruct (info_leb pr x y); cbn; [reflexivity|]. rewrite IH. reflexivity.
  Qed.
  Lemma isort_map l : isort (info_leb pr') (map gx l) = map gx (isort (info_leb pr) l).
  Proof. induction l as [|x l IH]; cbn; [reflexivity|]. rewrite IH. apply insert_map. Qed.
  Lemma resolve_order_map reg specs :
    resolve_order nm' pr' (map g reg) specs = option_map (map g) (resolve_order nm pr reg specs).
  Proof.
    unfold resolve_order. rewrite resolve_all_map. destruct (resolve_all nm reg specs) as [l|]; cbn; [|reflexivity].
    rewrite isort_map, !map_map. reflexivity.
  Qed.
End ResolveMap.

Lemma reg_lookup_in {A} (nm : A -> option str) reg s x : reg_lookup nm reg s = Some x -> In x reg.
Proof.
  induction reg as [|r reg IH]; cbn; intros H; [discriminate|].
  destruct (reg_lookup nm reg s) eqn:Er.
  - right. apply IH. congruence.
  - destruct (oname_eqb (nm r) s); [left; congruence | discriminate].
Qed.
Lemma resolve_all_in {A} (nm : A -> option str) reg specs l : resolve_all nm reg specs = Some l ->
  forall x, In x l -> In (fst x) reg.
Proof.
  intros E x Hx. eapply reg_lookup_in. eapply resolve_all_lookup; eassumption.
Qed.

(* the table entry a spec denotes, as a pipeline: the registered object itself, or (for a callable /
   file) a pipeline with the content of the definition *)
Definition ent_ppl (e : str * rent ppl) : ppl :=
  match snd e with
  | RObj p => p
  | RCall d => {| p_id := 0; p_items := d_items d; p_post := d_post d; p_fin := d_fin d; p_prio := d_prio d; p_name := d_name d |}
  | RSeq ds => let d := seq_pick 0 ds in
               {| p_id := 0; p_items := d_items d; p_post := d_post d; p_fin := d_fin d; p_prio := d_prio d; p_name := d_name d |}
  end.
Definition is_obj (e : str * rent ppl) : Prop := exists p, snd e = RObj p.
Definition objs_only (t : list (str * rent ppl)) : Prop := forall e, In e t -> is_obj e.
Lemma ent_ppl_prio e : p_prio (ent_ppl e) = ent_prio e.
Proof. unfold ent_ppl, ent_prio. destruct (snd e); reflexivity. Qed.

Lemma minst_objs h c l : (forall x, In x l -> is_obj (fst x)) ->
  minst_all h c l = ((h, c), Ok (map (gx ent_ppl) l)).
Proof.
  induction l as [|es l IH]; intros H; [reflexivity|]. cbn [minst_all map].
  destruct (H es (or_introl eq_refl)) as [p Hp]. rewrite Hp.
  rewrite IH by (intros x Hx; apply H; right; exact Hx). cbn [fst snd obind].
  unfold gx at 2, ent_ppl. rewrite Hp. reflexivity.
Qed.

(* on a table of registered objects the resolver is: look the specs up, order the entries by
   (priority, spec), sum the objects *)
Lemma resolve_objs h c t specs : objs_only t ->
  resolve h c t specs =
  match resolve_order tab_nm ent_prio t specs with
  | None => ((h, c), SigmaErr E_NotFound)
  | Some l => let hs := psum h (map ent_ppl l) in ((fst hs, c), snd hs)
  end.
Proof.
  intros O. unfold resolve, resolve_order. destruct (resolve_all tab_nm t specs) as [l|] eqn:E; [|reflexivity].
  rewrite minst_objs by (intros x Hx; apply O; eapply resolve_all_in; eassumption). cbn [fst snd].
  rewrite (isort_map ent_ppl ent_prio p_prio ent_ppl_prio), !map_map. reflexivity.
Qed.

(* every order of naming the pipelines combines the same table entries in the same order ... *)
Lemma resolve_entries_perm (t : list (str * rent ppl)) specs specs' :
  Permutation specs specs' -> NoDup specs ->
  resolve_order tab_nm ent_prio t specs = resolve_order tab_nm ent_prio t specs'.
Proof. apply resolve_order_perm. Qed.
(* ... and on registered objects that is the identical result: heap, pipeline, error *)
Lemma resolve_perm h c t specs specs' : objs_only t ->
  Permutation specs specs' -> NoDup specs -> resolve h c t specs = resolve h c t specs'.
Proof. intros O HP Hn. rewrite !resolve_objs by exact O. rewrite (resolve_entries_perm t _ _ HP Hn). reflexivity. Qed.

(* ------------------------------------------------------------------ ownership: mk / add *)
Lemma memN_In u l : memN u l = true <-> In u l.
Proof.
  unfold memN. rewrite existsb_exists. split.
  - intros [x [Hx E]]. apply N.eqb_eq in E. subst. exact Hx.
  - intros H. exists u. split; [exact H | apply N.eqb_refl].
Qed.
Lemma memN_false u l : memN u l = false <-> ~ In u l.
Proof.
  rewrite <- memN_In. destruct (memN u l); split; intros H; try reflexivity; try discriminate.
  exfalso. apply H. reflexivity.
Qed.

Lemma clear_all_spec us : forall own u, clear_all own us u = if memN u us then None else own u.
Proof.
  unfold clear_all. induction us as [|x us IH]; intros own u; simpl; [reflexivity|].
  rewrite IH. unfold upd. destruct (N.eqb u x); simpl; [destruct (memN u us); reflexivity | reflexivity].
Qed.

Lemma own_all_first_dup pid us : forall own seen,
  (forall u, In u (map fst us) -> (own u <> None <-> In u seen)) ->
  snd (own_all own pid us) = first_dup seen us.
Proof.
  induction us as [|[u t] us IH]; intros own seen H; simpl; [reflexivity|].
  destruct (own u) eqn:E.
  - assert (Hin : In u seen) by (apply H; [left; reflexivity | congruence]).
    apply memN_In in Hin. rewrite Hin. reflexivity.
  - assert (Hn : memN u seen = false).
    { apply memN_false. intros Hin. apply (H u) in Hin; [congruence | left; reflexivity]. }
    rewrite Hn. apply IH. intros u' Hu'. unfold upd. simpl.
    destruct (N.eqb u' u) eqn:Eu.
    + apply N.eqb_eq in Eu. subst. split; [intros _; left; reflexivity | intros _; discriminate].
    + assert (u' <> u) by (intro; subst; rewrite N.eqb_refl in Eu; discriminate).
      rewrite (H u') by (right; exact Hu'). split; [intros; right; assumption | intros [?|?]; [congruence | assumption]].
Qed.

Lemma own_all_ok pid us : forall own own', own_all own pid us = (own', None) ->
  forall u, own' u = if memN u (map fst us) then Some pid else own u.
Proof.
  induction us as [|[u0 t] us IH]; intros own own' H u; simpl in *.
  - inversion H. reflexivity.
  - destruct (own u0) eqn:E; [discriminate|].
    rewrite (IH _ _ H u). unfold upd. destruct (N.eqb u u0) eqn:Eu; simpl.
    + destruct (memN u (map fst us)); reflexivity.
    + reflexivity.
Qed.

Lemma mk_ok h its ps fs vars prio name h' s : mk h its ps fs vars prio name = (h', Ok s) ->
  (forall u, h_own h' u = if memN u (map fst (tagged its ps fs)) then Some (h_next h) else h_own h u) /\
  s = {| p_id := h_next h; p_items := its; p_post := ps; p_fin := fs; p_prio := prio; p_name := name |} /\
  h_vars h' = upd (h_vars h) (h_next h) vars /\ h_state h' = upd (h_state h) (h_next h) [] /\
  h_next h' = N.succ (h_next h).
Proof.
  unfold mk. destruct (own_all (h_own h) (h_next h) (tagged its ps fs)) as [own' e] eqn:E. simpl.
  destruct e; intros H; inversion H; subst; clear H. simpl.
  split; [intros u; apply (own_all_ok _ _ _ _ E) | repeat split].
Qed.

Lemma mk_defined h its ps fs vars prio name :
  (forall u, In u (map fst (tagged its ps fs)) -> h_own h u = None) ->
  snd (mk h its ps fs vars prio name) =
  match first_dup [] (tagged its ps fs) with
  | None => Ok {| p_id := h_next h; p_items := its; p_post := ps; p_fin := fs; p_prio := prio; p_name := name |}
  | Some t => SigmaErr t
  end.
Proof.
  intros H. unfold mk. simpl. rewrite (own_all_first_dup _ _ _ []); [reflexivity|].
  intros u Hu. rewrite (H u Hu). split; [congruence | intros []].
Qed.

Lemma tagged_app i1 i2 q1 q2 f1 f2 u :
  In u (map fst (tagged (i1 ++ i2) (q1 ++ q2) (f1 ++ f2))) <->
  In u (map fst (tagged i1 q1 f1)) \/ In u (map fst (tagged i2 q2 f2)).
Proof.
  unfold tagged. repeat rewrite ?map_app, ?in_app_iff. tauto.
Qed.

(* p + q is defined exactly when no object occurs twice in the concatenation *)
Lemma add_defined h p q :
  snd (add h p q) =
  match first_dup [] (tagged (p_items p ++ p_items q) (p_post p ++ p_post q) (p_fin p ++ p_fin q)) with
  | None => Ok {| p_id := h_next h; p_items := p_items p ++ p_items q; p_post := p_post p ++ p_post q;
                  p_fin := p_fin p ++ p_fin q; p_prio := 0%Z; p_name := None |}
  | Some t => SigmaErr t
  end.
Proof.
  unfold add. rewrite mk_defined; [reflexivity|]. simpl. intros u Hu.
  rewrite !clear_all_spec. apply tagged_app in Hu. unfold uids, ptagged.
  destruct Hu as [Hu|Hu]; apply memN_In in Hu.
  - destruct (memN u (map fst (tagged (p_items q) (p_post q) (p_fin q)))); [reflexivity|]. rewrite Hu. reflexivity.
  - rewrite Hu. reflexivity.
Qed.

Lemma add_ok h p q h' s : add h p q = (h', Ok s) ->
  owned h' s /\
  s = {| p_id := h_next h; p_items := p_items p ++ p_items q; p_post := p_post p ++ p_post q;
         p_fin := p_fin p ++ p_fin q; p_prio := 0%Z; p_name := None |} /\
  h_vars h' = upd (h_vars h) (h_next h) (dmerge (h_vars h (p_id p)) (h_vars h (p_id q))) /\
  h_state h' = upd (h_state h) (h_next h) [] /\ h_next h' = N.succ (h_next h).
Proof.
  unfold add. intros H. apply mk_ok in H. simpl in H. destruct H as (Ho & Hs & Hv & Hst & Hn).
  split; [|repeat split; assumption].
  subst s. unfold owned, uids, ptagged. simpl. intros u Hu. rewrite Ho.
  apply memN_In in Hu. rewrite Hu. reflexivity.
Qed.

(* addition is concatenation (with right-biased union of the variables), and the sum owns its objects *)
Lemma add_refines h p q h' s : add h p q = (h', Ok s) ->
  abs h' s = aplus (abs h p) (abs h q) /\ owned h' s.
Proof.
  intros H. apply add_ok in H. destruct H as (Ho & Hs & Hv & _ & _). split; [|exact Ho].
  subst s. unfold abs, aplus. simpl. rewrite Hv. unfold upd. rewrite N.eqb_refl. reflexivity.
Qed.

(* ------------------------------------------------------------------ running an owned pipeline *)
Lemma uid_item its ps fs i : In i its -> In (i_uid i) (map fst (tagged its ps fs)).
Proof.
  intros H. unfold tagged. rewrite !map_app, !in_app_iff. left. rewrite map_map. simpl.
  apply in_map_iff. exists i. split; [reflexivity | exact H].
Qed.
Lemma uid_post its ps fs q : In q ps -> In (q_uid q) (map fst (tagged its ps fs)).
Proof.
  intros H. unfold tagged. rewrite !map_app, !in_app_iff. right. left. rewrite map_map. simpl.
  apply in_map_iff. exists q. split; [reflexivity | exact H].
Qed.

Definition simst (self : N) (h : heap) (m : mstate) (t : tstate) : Prop :=
  m_conj m = t_conj t /\ m_applied m = t_applied t /\ m_ids m = t_ids t /\ h_state h self = t_state t /\
  m_rids m = t_rids t.

Lemma item_step_ref self h m t i :
  h_own h (i_uid i) = Some self -> simst self h m t ->
  exists h' m', m_item_step (Ok (h, m)) i = Ok (h', m') /\ simst self h' m' (a_item_step t i) /\
                h_own h' = h_own h /\ h_vars h' = h_vars h.
Proof.
  intros Ho (A & B & C & D & E). unfold m_item_step, a_item_step. cbn [obind fst snd].
  assert (Ec : m_cond h (i_uid i) (m_rids m) (i_cond i) = Ok (cond_holds (t_state t) (t_rids t) (i_cond i))).
  { unfold m_cond. destruct (i_cond i) as [|k v|x]; [reflexivity | rewrite Ho, D; reflexivity | rewrite E; reflexivity]. }
  rewrite Ec. cbn [obind]. destruct (cond_holds (t_state t) (t_rids t) (i_cond i)).
  - destruct (i_kind i) as [k v|s|f v]; rewrite ?Ho; eexists; eexists; (split; [reflexivity|]);
      unfold simst; cbn; rewrite ?A, ?B, ?C, ?D, ?E; repeat split; try reflexivity.
    unfold upd. rewrite N.eqb_refl. reflexivity.
  - eexists; eexists; split; [reflexivity|]. unfold simst; cbn. rewrite A, B, C, D, E. repeat split; reflexivity.
Qed.

Lemma items_ref self its : forall h m t,
  (forall i, In i its -> h_own h (i_uid i) = Some self) -> simst self h m t ->
  exists h' m', fold_left m_item_step its (Ok (h, m)) = Ok (h', m') /\
                simst self h' m' (fold_left a_item_step its t) /\ h_own h' = h_own h /\ h_vars h' = h_vars h.
Proof.
  induction its as [|i its IH]; intros h m t Ho Hs.
  - exists h, m. repeat split; try reflexivity; apply Hs.
  - destruct (item_step_ref self h m t i (Ho i (or_introl eq_refl)) Hs) as (h1 & m1 & E1 & S1 & O1 & V1).
    destruct (IH h1 m1 (a_item_step t i)) as (h2 & m2 & E2 & S2 & O2 & V2).
    + intros j Hj. rewrite O1. apply Ho. right. exact Hj.
    + exact S1.
    + exists h2, m2. cbn [fold_left]. rewrite E1. split; [exact E2|]. split; [exact S2|].
      split; congruence.
Qed.

Lemma post_step_ref self h acc p : h_own h (q_uid p) = Some self ->
  m_post_step h acc p = a_post_step (h_state h self) (h_vars h self) acc p.
Proof.
  intros Ho. unfold m_post_step, a_post_step. destruct acc as [qi|t|t]; cbn [obind]; try reflexivity.
  assert (Ec : m_cond h (q_uid p) (pa_rids qi) (q_cond p) = Ok (cond_holds (h_state h self) (pa_rids qi) (q_cond p))).
  { unfold m_cond. destruct (q_cond p) as [|k v|x]; [reflexivity | rewrite Ho; reflexivity | reflexivity]. }
  rewrite Ec. cbn [obind]. destruct (cond_holds (h_state h self) (pa_rids qi) (q_cond p)); [|reflexivity].
  destruct (q_kind p); rewrite ?Ho; reflexivity.
Qed.
Lemma post_fold_ref self h ps : forall acc, (forall p, In p ps -> h_own h (q_uid p) = Some self) ->
  fold_left (m_post_step h) ps acc = fold_left (a_post_step (h_state h self) (h_vars h self)) ps acc.
Proof.
  induction ps as [|p ps IH]; intros acc Ho; [reflexivity|]. cbn [fold_left].
  rewrite (post_step_ref self) by (apply Ho; left; reflexivity). apply IH. intros q Hq. apply Ho. right. exact Hq.
Qed.
Lemma post_ref self h ps qs : forall ids rids, (forall p, In p ps -> h_own h (q_uid p) = Some self) ->
  m_post h ps qs ids rids = stage_post ps (h_state h self) (h_vars h self) qs ids rids.
Proof.
  induction qs as [|q qs IH]; intros ids rids Ho; [reflexivity|]. cbn [m_post stage_post]. unfold stage_post_one.
  rewrite (post_fold_ref self) by exact Ho.
  destruct (fold_left _ ps (Ok _)) as [qi|t|t]; cbn [obind]; try reflexivity.
  rewrite IH by exact Ho. reflexivity.
Qed.

Definition rrel (own0 : N -> option N) (vars0 : N -> dict) (ma : outcome (heap * racc)) (aa : outcome racc) : Prop :=
  match ma, aa with
  | Ok ha, Ok a' => snd ha = a' /\ h_own (fst ha) = own0 /\ h_vars (fst ha) = vars0
  | SigmaErr t, SigmaErr t' => t = t'
  | Crash t, Crash t' => t = t'
  | _, _ => False
  end.

Lemma rule_ref f self own0 vars0 ma aa r :
  (forall u, In u (uids self) -> own0 u = Some (p_id self)) ->
  rrel own0 vars0 ma aa ->
  rrel own0 vars0 (m_rule f self ma r)
       (abs_rule f {| a_items := p_items self; a_post := p_post self; a_fin := p_fin self; a_vars := vars0 (p_id self) |} aa r).
Proof.
  intros Ho R. unfold m_rule, abs_rule.
  destruct ma as [[h a]|t|t], aa as [a'|t'|t']; cbn in R; try contradiction; cbn [obind]; try exact R.
  destruct R as (Ea & Eo & Ev). cbn [fst snd] in *. subst a'.
  cbn [a_items a_post a_vars].
  destruct (items_ref (p_id self) (p_items self) (set_state h (p_id self) [])
              {| m_conj := [(r_field r, r_value r)]; m_applied := []; m_ids := []; m_rids := [] |} (t_init r))
    as (h1 & m1 & E1 & (A & B & C & D & E) & O1 & V1).
  { intros i Hi. cbn. rewrite Eo. apply Ho. apply uid_item. exact Hi. }
  { unfold simst. cbn. unfold upd. rewrite N.eqb_refl. repeat split; reflexivity. }
  unfold m_apply. rewrite E1. cbn [obind fst snd].
  cbn in O1, V1.
  rewrite (post_ref (p_id self)).
  2:{ intros p Hp. rewrite O1, Eo. apply Ho. apply uid_post. exact Hp. }
  unfold stage_transform, stage_convert. rewrite A, B, C, D, E, V1, Ev.
  destruct (stage_post _ _ _ _ _) as [qi|t|t]; cbn [obind]; cbn; [|reflexivity|reflexivity].
  repeat split; congruence.
Qed.

Lemma rules_ref f self own0 vars0 rules : forall ma aa,
  (forall u, In u (uids self) -> own0 u = Some (p_id self)) ->
  rrel own0 vars0 ma aa ->
  rrel own0 vars0 (fold_left (m_rule f self) rules ma)
       (fold_left (abs_rule f {| a_items := p_items self; a_post := p_post self; a_fin := p_fin self; a_vars := vars0 (p_id self) |}) rules aa).
Proof.
  induction rules as [|r rules IH]; intros ma aa Ho R; [exact R|].
  cbn [fold_left]. apply IH; [exact Ho|]. apply rule_ref; assumption.
Qed.

(* a pipeline that owns all its objects converts every rule list exactly like the abstract pipeline *)
Lemma behaviour h f p rules : owned h p -> snd (m_run h f p rules) = abs_run f (abs h p) rules.
Proof.
  intros Ho. unfold m_run, abs_run, abs.
  pose proof (rules_ref f p (h_own h) (h_vars h) rules
                (Ok (h, {| ra_qs := []; ra_obs := []; ra_ids := [] |}))
                (Ok {| ra_qs := []; ra_obs := []; ra_ids := [] |}) Ho) as R.
  specialize (R (conj eq_refl (conj eq_refl eq_refl))).
  destruct (fold_left (m_rule f p) rules _) as [[h1 a]|t|t];
    destruct (fold_left (abs_rule f _) rules _) as [a'|t'|t']; cbn in R; try contradiction; cbn [obind snd fst].
  - destruct R as (Ea & _ & Ev). subst a'. rewrite Ev. reflexivity.
  - congruence.
  - congruence.
Qed.

(* ------------------------------------------------------------------ all bracketings *)
Definition wf_heap (h : heap) : Prop := forall pid, dict_ok (h_vars h pid).
Definition valid (h : heap) (p : ppl) : Prop := p_id p < h_next h.
Definition frame (h h' : heap) : Prop :=
  h_next h <= h_next h' /\ (forall pid, pid < h_next h -> h_vars h' pid = h_vars h pid) /\
  (wf_heap h -> wf_heap h').

Lemma frame_refl h : frame h h.
Proof. unfold frame. split; [lia|]. split; auto. Qed.
Lemma frame_trans h1 h2 h3 : frame h1 h2 -> frame h2 h3 -> frame h1 h3.
Proof.
  intros (A1 & B1 & C1) (A2 & B2 & C2). split; [lia|]. split; [|auto].
  intros pid Hp. rewrite B2 by lia. apply B1. exact Hp.
Qed.
Lemma add_frame h p q h' r : add h p q = (h', r) -> frame h h'.
Proof.
  unfold add, mk. intros H. inversion H; subst; clear H. unfold frame, wf_heap. cbn [h_next h_vars fst snd].
  split; [lia|]. split.
  - intros pid Hp. unfold upd. destruct (N.eqb pid (h_next h)) eqn:E; [apply N.eqb_eq in E; lia | reflexivity].
  - intros W pid. unfold upd. destruct (N.eqb pid (h_next h)); [apply dict_ok_dmerge; apply W | apply W].
Qed.
Lemma eval_frame e : forall h h' r, eval h e = (h', r) -> frame h h'.
Proof.
  induction e as [p|a IHa b IHb]; intros h h' r H; cbn in H.
  - inversion H. apply frame_refl.
  - unfold hbind in H. destruct (eval h a) as [h1 ra] eqn:Ea. cbn in H. specialize (IHa _ _ _ Ea).
    destruct ra as [pa|t|t]; try (inversion H; subst; exact IHa).
    destruct (eval h1 b) as [h2 rb] eqn:Eb. cbn in H. specialize (IHb _ _ _ Eb).
    destruct rb as [pb|t|t]; try (inversion H; subst; eapply frame_trans; eassumption).
    apply add_frame in H. eapply frame_trans; [eassumption|]. eapply frame_trans; eassumption.
Qed.

Lemma vars_lookup_app k l1 l2 :
  vars_lookup k (l1 ++ l2) = match vars_lookup k l2 with Some v => Some v | None => vars_lookup k l1 end.
Proof.
  induction l1 as [|d l1 IH]; simpl.
  - destruct (vars_lookup k l2); reflexivity.
  - rewrite IH. destruct (vars_lookup k l2); reflexivity.
Qed.

(* every bracketing of + over the same sequence of pipelines is the flat concatenation *)
Lemma eval_flat e : forall h h' s, wf_heap h -> (forall p, In p (leaves e) -> valid h p) ->
  eval h e = (h', Ok s) ->
  p_items s = flat_map p_items (leaves e) /\ p_post s = flat_map p_post (leaves e) /\
  p_fin s = flat_map p_fin (leaves e) /\
  (forall k, lookup k (h_vars h' (p_id s)) = vars_lookup k (map (fun p => h_vars h (p_id p)) (leaves e))) /\
  valid h' s /\ match e with Leaf _ => True | Plus _ _ => owned h' s end.
Proof.
  induction e as [p|a IHa b IHb]; intros h h' s W V H; cbn in H.
  - inversion H; subst. cbn. rewrite !app_nil_r. repeat split; try reflexivity.
    apply V. left. reflexivity.
  - unfold hbind in H. destruct (eval h a) as [h1 ra] eqn:Ea. cbn in H.
    destruct ra as [pa|t|t]; try discriminate.
    destruct (eval h1 b) as [h2 rb] eqn:Eb. cbn in H.
    destruct rb as [pb|t|t]; try discriminate.
    pose proof (eval_frame _ _ _ _ Ea) as (N1 & F1 & W1).
    pose proof (eval_frame _ _ _ _ Eb) as (N2 & F2 & W2).
    destruct (IHa h h1 pa W) as (Ia & Qa & Fa & La & Va & _).
    { intros p Hp. apply V. cbn. apply in_app_iff. left. exact Hp. } { exact Ea. }
    destruct (IHb h1 h2 pb (W1 W)) as (Ib & Qb & Fb & Lb & Vb & _).
    { intros p Hp. unfold valid. assert (valid h p) by (apply V; cbn; apply in_app_iff; right; exact Hp).
      unfold valid in *. lia. } { exact Eb. }
    apply add_ok in H. destruct H as (Ho & Hs & Hv & _ & Hn).
    subst s. cbn [p_items p_post p_fin p_id leaves]. rewrite !flat_map_app.
    split; [rewrite Ia, Ib; reflexivity|]. split; [rewrite Qa, Qb; reflexivity|].
    split; [rewrite Fa, Fb; reflexivity|]. split; [|split].
    + intros k. rewrite Hv. unfold upd. rewrite N.eqb_refl.
      rewrite lookup_dmerge by (apply W2, W1, W).
      rewrite map_app, vars_lookup_app, Lb.
      rewrite (F2 (p_id pa)) by exact Va. rewrite La.
      assert (Em : map (fun p => h_vars h1 (p_id p)) (leaves b) = map (fun p => h_vars h (p_id p)) (leaves b)).
      { apply map_ext_in. intros p Hp. apply F1. apply V. cbn. apply in_app_iff. right. exact Hp. }
      rewrite Em. reflexivity.
    + unfold valid. cbn. lia.
    + exact Ho.
Qed.

(* sum() of a list is the left-nested bracketing *)
Definition ltree (p : ppl) (l : list ppl) : tree := fold_left (fun t q => Plus t (Leaf q)) l (Leaf p).
Lemma leaves_ltree l : forall t, leaves (fold_left (fun t q => Plus t (Leaf q)) l t) = leaves t ++ l.
Proof.
  induction l as [|q l IH]; intros t; cbn; [rewrite app_nil_r; reflexivity|].
  rewrite IH. cbn. rewrite <- app_assoc. reflexivity.
Qed.
Lemma psum_eval_gen h l : forall t,
  fold_left (fun acc q => hbind acc (fun h' s => add h' s q)) l (eval h t) =
  eval h (fold_left (fun t q => Plus t (Leaf q)) l t).
Proof.
  induction l as [|q l IH]; intros t; [reflexivity|]. cbn [fold_left]. rewrite <- IH. reflexivity.
Qed.
Lemma psum_eval h p l : psum h (p :: l) = eval h (ltree p l).
Proof. unfold psum, ltree. rewrite <- psum_eval_gen. reflexivity. Qed.

(* the resolver's result is the concatenation of the named pipelines in (priority, name) order *)
Lemma resolve_flat h c t specs l h' c' s : wf_heap h -> objs_only t -> (forall e, In e t -> valid h (ent_ppl e)) ->
  resolve_order tab_nm ent_prio t specs = Some l -> l <> [] ->
  resolve h c t specs = ((h', c'), Ok s) ->
  p_items s = flat_map p_items (map ent_ppl l) /\ p_post s = flat_map p_post (map ent_ppl l) /\
  p_fin s = flat_map p_fin (map ent_ppl l) /\
  (forall k, lookup k (h_vars h' (p_id s)) = vars_lookup k (map (fun p => h_vars h (p_id p)) (map ent_ppl l))).
Proof.
  intros W O V E Hne H. rewrite resolve_objs in H by exact O. rewrite E in H. cbn zeta in H.
  destruct (psum h (map ent_ppl l)) as [h1 r1] eqn:Ep. cbn [fst snd] in H. inversion H; subst; clear H.
  destruct l as [|e l]; [contradiction|]. cbn [map] in *.
  rewrite psum_eval in Ep.
  assert (Hl : leaves (ltree (ent_ppl e) (map ent_ppl l)) = ent_ppl e :: map ent_ppl l)
    by (unfold ltree; rewrite leaves_ltree; reflexivity).
  destruct (eval_flat (ltree (ent_ppl e) (map ent_ppl l)) h h' s W) as (A & B & C & D & _); [|exact Ep|].
  - rewrite Hl. intros q Hq.
    assert (Hin : In q (map ent_ppl (e :: l))) by exact Hq.
    apply in_map_iff in Hin. destruct Hin as (x & <- & Hin). apply V.
    unfold resolve_order in E. destruct (resolve_all tab_nm t specs) as [l0|] eqn:E0; [|discriminate].
    inversion E as [E1]. assert (Hx : In x (map fst (isort (info_leb ent_prio) l0))) by (rewrite E1; exact Hin).
    apply in_map_iff in Hx. destruct Hx as (y & <- & Hy).
    apply (Permutation_in _ (isort_perm _ l0)) in Hy. eapply resolve_all_in; eassumption.
  - rewrite Hl in *. repeat split; assumption.
Qed.

(* ------------------------------------------------------------------ identity *)
Lemma add_empty_r h p e h' s : p_items e = [] -> p_post e = [] -> p_fin e = [] -> h_vars h (p_id e) = [] ->
  add h p e = (h', Ok s) -> abs h' s = abs h p.
Proof.
  intros A B C D H. apply add_refines in H. destruct H as [H _]. rewrite H.
  unfold aplus, abs. cbn. rewrite A, B, C, D, !app_nil_r. reflexivity.
Qed.
Lemma add_empty_l h p e h' s : p_items e = [] -> p_post e = [] -> p_fin e = [] -> h_vars h (p_id e) = [] ->
  dict_ok (h_vars h (p_id p)) ->
  add h e p = (h', Ok s) -> aeq (abs h' s) (abs h p).
Proof.
  intros A B C D W H. apply add_refines in H. destruct H as [H _]. rewrite H.
  unfold aeq, aplus, abs. cbn. rewrite A, B, C, D. repeat split; try reflexivity.
  intros k. apply lookup_dmerge_nil_l. exact W.
Qed.

(* ------------------------------------------------------------------ backend assembly and stage order *)
Lemma abs_frame h h' p : (forall pid, pid < h_next h -> h_vars h' pid = h_vars h pid) -> valid h p -> abs h' p = abs h p.
Proof. intros F V. unfold abs. rewrite F by exact V. reflexivity. Qed.

Lemma init_refines h f bk user outf h' s : valid h outf ->
  init h f bk user outf = (h', Ok s) ->
  owned h' s /\
  abs h' s = with_backend_vars f (aplus (match user with Some u => aplus (abs h bk) (abs h u) | None => abs h bk end)
                                        (abs h outf)).
Proof.
  intros V H. unfold init, hbind in H.
  destruct (add_opt h bk user) as [h1 r1] eqn:E1. cbn [fst snd] in H. destruct r1 as [s1|t|t]; try discriminate.
  destruct (add h1 s1 outf) as [h2 r2] eqn:E2. cbn [fst snd] in H. destruct r2 as [s2|t|t]; try discriminate.
  inversion H; subst; clear H.
  pose proof (add_refines _ _ _ _ _ E2) as [A2 O2].
  split; [exact O2|].
  assert (E : abs h1 s1 = match user with Some u => aplus (abs h bk) (abs h u) | None => abs h bk end /\
              abs h1 outf = abs h outf).
  { destruct user as [u|]; cbn in E1.
    - pose proof (add_frame _ _ _ _ _ E1) as (_ & F & _). apply add_refines in E1. destruct E1 as [A1 _].
      split; [exact A1 | apply abs_frame; assumption].
    - inversion E1; subst. split; reflexivity. }
  destruct E as [Ea Eb]. rewrite Ea, Eb in A2.
  unfold abs in A2 |- *. unfold with_backend_vars. cbn. unfold upd. rewrite N.eqb_refl.
  inversion A2 as [[I Q F Vv]]. cbn. rewrite I, Q, F. rewrite Vv. reflexivity.
Qed.

Lemma stage_order h f bk user outf h' s rules : valid h outf ->
  init h f bk user outf = (h', Ok s) ->
  snd (m_run h' f s rules) =
  abs_run f (with_backend_vars f (aplus (match user with Some u => aplus (abs h bk) (abs h u) | None => abs h bk end)
                                        (abs h outf))) rules.
Proof.
  intros V H. destruct (init_refines _ _ _ _ _ _ _ V H) as [O A]. rewrite <- A. apply behaviour. exact O.
Qed.

(* ------------------------------------------------------------------ the history clause is false (D18) *)
Definition w_item : pitem := {| i_uid := 1; i_id := [105]; i_kind := KSetState s_index [119;105;110]; i_cond := CNone |}.
Definition w_h0 : heap := fst (mk_defs h_empty [ {| d_items := [w_item]; d_post := []; d_fin := []; d_vars := []; d_prio := 0%Z; d_name := None |};
                                                 {| d_items := []; d_post := []; d_fin := []; d_vars := []; d_prio := 0%Z; d_name := None |};
                                                 {| d_items := []; d_post := []; d_fin := []; d_vars := []; d_prio := 0%Z; d_name := None |} ]).
Definition w_p : ppl := {| p_id := 0; p_items := [w_item]; p_post := []; p_fin := []; p_prio := 0%Z; p_name := None |}.
Definition w_q : ppl := {| p_id := 1; p_items := []; p_post := []; p_fin := []; p_prio := 0%Z; p_name := None |}.
Definition w_r : ppl := {| p_id := 2; p_items := []; p_post := []; p_fin := []; p_prio := 0%Z; p_name := None |}.
Definition w_s : ppl := {| p_id := 3; p_items := [w_item]; p_post := []; p_fin := []; p_prio := 0%Z; p_name := None |}.
Definition w_rules : list rule := [ {| r_field := [102]; r_value := [118]; r_two := false |} ].

Lemma reuse_refuted :
  exists h p q r s t rules,
    owned h p /\ owned h q /\ owned h r /\
    snd (add h p q) = Ok s /\ snd (add (fst (add h p q)) p r) = Ok t /\
    (* right after the addition the sum behaves like the concatenation ... *)
    snd (m_run (fst (add h p q)) FState s rules) = abs_run FState (abs (fst (add h p q)) s) rules /\
    (* ... but no longer once an operand took part in another addition *)
    snd (m_run (fst (add (fst (add h p q)) p r)) FState s rules)
      <> abs_run FState (abs (fst (add (fst (add h p q)) p r)) s) rules.
Proof.
  exists w_h0, w_p, w_q, w_r, w_s,
         {| p_id := 4; p_items := [w_item]; p_post := []; p_fin := []; p_prio := 0%Z; p_name := None |}, w_rules.
  repeat split.
  - intros u Hu. cbn in Hu. destruct Hu as [<-|[]]. reflexivity.
  - intros u [].
  - intros u [].
  - vm_compute. discriminate.
Qed.

(* ------------------------------------------------------------------ corollaries restated in Props *)
Lemma assoc3 h p q r h1 s1 h2 s2 : wf_heap h -> valid h p -> valid h q -> valid h r ->
  eval h (Plus (Plus (Leaf p) (Leaf q)) (Leaf r)) = (h1, Ok s1) ->
  eval h (Plus (Leaf p) (Plus (Leaf q) (Leaf r))) = (h2, Ok s2) ->
  aeq (abs h1 s1) (abs h2 s2).
Proof.
  intros W Vp Vq Vr E1 E2.
  assert (V : forall x, In x [p; q; r] -> valid h x) by (intros x [<-|[<-|[<-|[]]]]; assumption).
  destruct (eval_flat (Plus (Plus (Leaf p) (Leaf q)) (Leaf r)) _ _ _ W V E1) as (A1 & B1 & C1 & D1 & _).
  destruct (eval_flat (Plus (Leaf p) (Plus (Leaf q) (Leaf r))) _ _ _ W V E2) as (A2 & B2 & C2 & D2 & _).
  cbn [leaves app] in A1, B1, C1, D1, A2, B2, C2, D2.
  unfold aeq, abs. cbn [a_items a_post a_fin a_vars].
  split; [congruence|]. split; [congruence|]. split; [congruence|].
  intros k. rewrite D1, D2. reflexivity.
Qed.

Lemma identity_all h p e h' s :
  p_items e = [] -> p_post e = [] -> p_fin e = [] -> h_vars h (p_id e) = [] -> dict_ok (h_vars h (p_id p)) ->
  (add h p e = (h', Ok s) -> abs h' s = abs h p) /\
  (add h e p = (h', Ok s) -> aeq (abs h' s) (abs h p)) /\
  add_opt h p None = (h, Ok p) /\ psum h [p] = (h, Ok p).
Proof.
  intros A B C D W. split; [apply add_empty_r; assumption|].
  split; [apply add_empty_l; assumption|]. split; reflexivity.
Qed.

Lemma premises_inhabited :
  wf_heap w_h0 /\ valid w_h0 w_p /\ valid w_h0 w_q /\ owned w_h0 w_p /\
  snd (add w_h0 w_p w_q) = Ok w_s /\ owned (fst (add w_h0 w_p w_q)) w_s.
Proof.
  split.
  { intros pid. unfold dict_ok.
    assert (E : h_vars w_h0 pid = []).
    { vm_compute. repeat (match goal with |- context [match ?x with _ => _ end] => destruct x end); reflexivity. }
    rewrite E. constructor. }
  split; [reflexivity|]. split; [reflexivity|].
  split; [intros u Hu; cbn in Hu; destruct Hu as [<-|[]]; reflexivity|]. split; [reflexivity|].
  intros u Hu. cbn in Hu. destruct Hu as [<-|[]]. reflexivity.
Qed.

(* ------------------------------------------------------------------ tables with callables / files *)
Definition strip_item (i : pitem) := (i_id i, i_kind i, i_cond i).
Definition strip_post (q : ppost) := (q_id q, q_kind q, q_cond q).
Definition strip_fin (x : pfin) := (f_sep x, f_pre x, f_suf x).
(* p is a pipeline with the content of definition d (object identities apart) *)
Definition same_content (p : ppl) (d : pdef) : Prop :=
  map strip_item (p_items p) = map strip_item (d_items d) /\
  map strip_post (p_post p) = map strip_post (d_post d) /\
  map strip_fin (p_fin p) = map strip_fin (d_fin d) /\ p_prio p = d_prio d /\ p_name p = d_name d.
Definition inst_of (e : str * rent ppl) (p : ppl) : Prop :=
  match snd e with
  | RObj q => p = q
  | RCall d => same_content p d
  | RSeq ds => exists c, same_content p (seq_pick c ds)
  end.
Definition no_seq (t : list (str * rent ppl)) : Prop := forall e ds, In e t -> snd e <> RSeq ds.

Lemma strip_renum_items l : forall u, map strip_item (renum_items u l) = map strip_item l.
Proof. induction l as [|i l IH]; intros u; cbn; [reflexivity|]. rewrite IH. reflexivity. Qed.
Lemma strip_renum_post l : forall u, map strip_post (renum_post u l) = map strip_post l.
Proof. induction l as [|i l IH]; intros u; cbn; [reflexivity|]. rewrite IH. reflexivity. Qed.
Lemma strip_renum_fin l : forall u, map strip_fin (renum_fin u l) = map strip_fin l.
Proof. induction l as [|i l IH]; intros u; cbn; [reflexivity|]. rewrite IH. reflexivity. Qed.

Lemma mk_def_content h c d h' p : mk_def h (renum c d) = (h', Ok p) -> same_content p d.
Proof.
  unfold mk_def. intros E. apply mk_ok in E. destruct E as (_ & -> & _).
  unfold same_content, renum. cbn [p_items p_post p_fin p_prio p_name d_items d_post d_fin d_prio d_name].
  rewrite strip_renum_items, strip_renum_post, strip_renum_fin. repeat split.
Qed.

Definition info_rel (es : (str * rent ppl) * str) (ps : ppl * str) : Prop :=
  inst_of (fst es) (fst ps) /\ snd ps = snd es /\ p_prio (fst ps) = ent_prio (fst es).

Lemma minst_rel l : forall h c hc infos,
  (forall x ds, In x l -> snd (fst x) <> RSeq ds) ->
  minst_all h c l = (hc, Ok infos) -> Forall2 info_rel l infos.
Proof.
  induction l as [|es l IH]; intros h c hc infos NS E; cbn [minst_all] in E.
  - inversion E; subst. constructor.
  - assert (NS' : forall x ds, In x l -> snd (fst x) <> RSeq ds) by (intros x ds Hx; apply NS; right; exact Hx).
    destruct (snd (fst es)) as [q|d|ds] eqn:Ee.
    + destruct (minst_all h c l) as [hc1 r1] eqn:E1. cbn [fst snd] in E. destruct r1 as [x|?|?]; cbn [obind] in E; try discriminate.
      inversion E; subst. constructor; [|eapply IH; eassumption].
      unfold info_rel, inst_of, ent_prio. cbn [fst snd]. rewrite Ee. repeat split.
    + destruct (mk_def h (renum c d)) as [h1 r0] eqn:Em. cbn [fst snd] in E. destruct r0 as [p|?|?]; try discriminate.
      destruct (minst_all h1 (N.succ c) l) as [hc1 r1] eqn:E1. cbn [fst snd] in E. destruct r1 as [x|?|?]; cbn [obind] in E; try discriminate.
      inversion E; subst. constructor; [|eapply IH; eassumption].
      pose proof (mk_def_content _ _ _ _ _ Em) as SC.
      unfold info_rel, inst_of, ent_prio. cbn [fst snd]. rewrite Ee. split; [exact SC|]. split; [reflexivity|]. apply SC.
    + exfalso. apply (NS es ds); [left; reflexivity | exact Ee].
Qed.

Section SortRel.
  Context {A B : Type} (R : A -> B -> Prop) (leA : A -> A -> bool) (leB : B -> B -> bool).
  Hypothesis le_rel : forall a b a' b', R a b -> R a' b' -> leA a a' = leB b b'.
  Lemma insert_F2 a b l1 l2 : R a b -> Forall2 R l1 l2 -> Forall2 R (insert leA a l1) (insert leB b l2).
  Proof.
    intros Hab F. induction F as [|x y l1 l2 Hxy F IH]; cbn.
    - constructor; [exact Hab | constructor].
    - rewrite (le_rel _ _ _ _ Hab Hxy). destruct (leB b y).
      + constructor; [exact Hab|]. constructor; assumption.
      + constructor; assumption.
  Qed.
  Lemma isort_F2 l1 l2 : Forall2 R l1 l2 -> Forall2 R (isort leA l1) (isort leB l2).
  Proof. induction 1; cbn; [constructor | apply insert_F2; assumption]. Qed.
End SortRel.

Lemma F2_map_fst {A B C D} (R : A * C -> B * D -> Prop) (Q : A -> B -> Prop) l1 l2 :
  (forall x y, R x y -> Q (fst x) (fst y)) -> Forall2 R l1 l2 -> Forall2 Q (map fst l1) (map fst l2).
Proof. intros H F. induction F; cbn; constructor; auto. Qed.

(* for every table without callables-with-memory: the pipelines that resolve() sums (see
   Model.Pipeline.resolve) are, one by one and in this order, the entries of the permutation-invariant
   (priority, identifier) order: the registered object itself, or a fresh pipeline with the content of
   the callable's / file's definition *)
Lemma resolve_instances h c t specs l hc infos : no_seq t ->
  resolve_all tab_nm t specs = Some l -> minst_all h c l = (hc, Ok infos) ->
  Forall2 inst_of (map fst (isort (info_leb ent_prio) l)) (map fst (isort (info_leb p_prio) infos)).
Proof.
  intros NS El Ei.
  assert (F : Forall2 info_rel l infos).
  { eapply minst_rel; [|exact Ei]. intros x ds Hx. apply NS. eapply resolve_all_in; eassumption. }
  apply (F2_map_fst info_rel inst_of); [intros x y Hxy; apply Hxy|].
  apply isort_F2; [|exact F].
  intros a b a' b' (_ & S1 & P1) (_ & S2 & P2). unfold info_leb, info_key. rewrite S1, S2, P1, P2. reflexivity.
Qed.
