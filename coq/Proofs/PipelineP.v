(* C14 - proofs about Model.Pipeline against Spec.AbsPipeline *)
From Coq Require Import NArith ZArith List Bool Lia Permutation Sorting.Sorted.
From PS Require Import Base.Chars Base.Outcome Spec.AbsPipeline Model.Pipeline.
Import ListNotations.
Open Scope N_scope.

(* ------------------------------------------------------------------ dictionaries *)
Definition dict_ok (d : dict) : Prop := NoDup (map fst d).

Lemma str_eqb_true a b : str_eqb a b = true -> a = b.
Proof. apply str_eqb_eq. Qed.
Lemma str_eqb_false a b : str_eqb a b = false -> a <> b.
Proof. intros H E. subst. rewrite str_eqb_refl in H. discriminate. Qed.
Lemma str_eqb_neq a b : a <> b -> str_eqb a b = false.
Proof. intros H. destruct (str_eqb a b) eqn:E; [apply str_eqb_true in E; contradiction | reflexivity]. Qed.

Lemma lookup_dset k d k' v :
  lookup k (dset d k' v) = if str_eqb k k' then Some v else lookup k d.
Proof.
  induction d as [|[k0 v0] d IH]; simpl.
  - destruct (str_eqb k k'); reflexivity.
  - destruct (str_eqb k' k0) eqn:E0; simpl.
    + apply str_eqb_true in E0. subst k0. destruct (str_eqb k k'); reflexivity.
    + destruct (str_eqb k k0) eqn:E1.
      * apply str_eqb_true in E1. subst k0.
        rewrite (str_eqb_neq k k'); [reflexivity|]. intro; subst. rewrite str_eqb_refl in E0. discriminate.
      * exact IH.
Qed.

Lemma lookup_notin k d : ~ In k (map fst d) -> lookup k d = None.
Proof.
  induction d as [|[k0 v0] d IH]; simpl; intros H; [reflexivity|].
  rewrite str_eqb_neq; [apply IH; tauto | intro; subst; tauto].
Qed.

Lemma keys_dset d k v :
  map fst (dset d k v) = if existsb (str_eqb k) (map fst d) then map fst d else map fst d ++ [k].
Proof.
  induction d as [|[k0 v0] d IH]; simpl; [reflexivity|].
  destruct (str_eqb k k0) eqn:E; simpl; [reflexivity|].
  rewrite IH. destruct (existsb (str_eqb k) (map fst d)); reflexivity.
Qed.

Lemma NoDup_snoc {A} (l : list A) k : NoDup l -> ~ In k l -> NoDup (l ++ [k]).
Proof.
  induction l as [|x l IH]; simpl; intros H Hn.
  - constructor; [intros []|constructor].
  - inversion H; subst. constructor.
    + rewrite in_app_iff. simpl. intros [?|[?|[]]]; [tauto | subst; apply Hn; left; reflexivity].
    + apply IH; [assumption | intro; apply Hn; right; assumption].
Qed.
Lemma dict_ok_dset d k v : dict_ok d -> dict_ok (dset d k v).
Proof.
  unfold dict_ok. intros H. rewrite keys_dset.
  destruct (existsb (str_eqb k) (map fst d)) eqn:E; [exact H|].
  apply NoDup_snoc; [exact H|].
  intros Hin. assert (existsb (str_eqb k) (map fst d) = true).
  { apply existsb_exists. exists k. split; [exact Hin | apply str_eqb_refl]. } congruence.
Qed.

Lemma dict_ok_dmerge a b : dict_ok a -> dict_ok (dmerge a b).
Proof.
  unfold dmerge. revert a. induction b as [|[k v] b IH]; simpl; intros a H; [exact H|].
  apply IH. apply dict_ok_dset. exact H.
Qed.

(* variables of the later pipeline override those of the earlier one *)
Lemma lookup_dmerge k a b : dict_ok b ->
  lookup k (dmerge a b) = match lookup k b with Some v => Some v | None => lookup k a end.
Proof.
  unfold dmerge. revert a. induction b as [|[k0 v0] b IH]; simpl; intros a H; [reflexivity|].
  inversion H; subst. rewrite IH by assumption. rewrite lookup_dset.
  destruct (str_eqb k k0) eqn:E.
  - apply str_eqb_true in E. subst. rewrite lookup_notin by assumption. reflexivity.
  - reflexivity.
Qed.

Lemma dmerge_nil_r a : dmerge a [] = a.
Proof. reflexivity. Qed.
Lemma lookup_dmerge_nil_l k b : dict_ok b -> lookup k (dmerge [] b) = lookup k b.
Proof. intros H. rewrite lookup_dmerge by exact H. destruct (lookup k b); reflexivity. Qed.

(* ------------------------------------------------------------------ stable sorting *)
Section SortP.
  Context {A : Type} (leb : A -> A -> bool).
  Hypothesis leb_total : forall a b, leb a b = true \/ leb b a = true.
  Hypothesis leb_trans : forall a b c, leb a b = true -> leb b c = true -> leb a c = true.
  Notation le := (fun a b => leb a b = true).

  Lemma insert_perm x l : Permutation (insert leb x l) (x :: l).
  Proof.
    induction l as [|y l IH]; simpl; [apply Permutation_refl|].
    destruct (leb x y); [apply Permutation_refl|].
    eapply Permutation_trans; [apply perm_skip; exact IH | apply perm_swap].
  Qed.
  Lemma isort_perm l : Permutation (isort leb l) l.
  Proof.
    induction l as [|x l IH]; simpl; [constructor|].
    eapply Permutation_trans; [apply insert_perm | apply perm_skip; exact IH].
  Qed.

  Lemma insert_sorted x l : StronglySorted le l -> StronglySorted le (insert leb x l).
  Proof.
    induction l as [|y l IH]; simpl; intros H.
    - constructor; [constructor | constructor].
    - inversion H as [|? ? Hs Hf]; subst. destruct (leb x y) eqn:E.
      + constructor; [exact H|]. constructor; [exact E|].
        rewrite Forall_forall in *. intros z Hz. eapply leb_trans; [exact E | apply Hf; exact Hz].
      + constructor; [apply IH; exact Hs|].
        assert (Hyx : leb y x = true) by (destruct (leb_total x y); congruence).
        rewrite Forall_forall in *. intros z Hz.
        apply (Permutation_in _ (insert_perm x l)) in Hz. destruct Hz as [<-|Hz]; [exact Hyx | apply Hf; exact Hz].
  Qed.
  Lemma isort_sorted l : StronglySorted le (isort leb l).
  Proof. induction l as [|x l IH]; simpl; [constructor | apply insert_sorted; exact IH]. Qed.

  (* a sorted list is determined by its elements when the order is antisymmetric on them *)
  Lemma sorted_unique l1 : forall l2,
    StronglySorted le l1 -> StronglySorted le l2 -> Permutation l1 l2 ->
    (forall x y, In x l1 -> In y l1 -> leb x y = true -> leb y x = true -> x = y) -> l1 = l2.
  Proof.
    induction l1 as [|a l1 IH]; intros l2 H1 H2 HP Ha.
    - apply Permutation_nil in HP. subst. reflexivity.
    - destruct l2 as [|b l2]; [apply Permutation_sym, Permutation_nil in HP; discriminate|].
      inversion H1 as [|? ? Hs1 Hf1]; inversion H2 as [|? ? Hs2 Hf2]; subst.
      rewrite Forall_forall in Hf1, Hf2.
      assert (Eab : a = b).
      { assert (Hb : In b (a :: l1)) by (apply (Permutation_in _ (Permutation_sym HP)); left; reflexivity).
        assert (Ha' : In a (b :: l2)) by (apply (Permutation_in _ HP); left; reflexivity).
        destruct Hb as [Hb|Hb]; [exact Hb|]. destruct Ha' as [Ha'|Ha']; [symmetry; exact Ha'|].
        apply Ha; [left; reflexivity | right; exact Hb | apply Hf1; exact Hb | apply Hf2; exact Ha']. }
      subst b. f_equal. apply IH; try assumption.
      + eapply Permutation_cons_inv. exact HP.
      + intros x y Hx Hy. apply Ha; right; assumption.
  Qed.

  (* stability: elements that the order does not separate keep their argument order *)
  Definition eqv (z a : A) : bool := leb z a && leb a z.
  Lemma insert_stable z x l :
    filter (eqv z) (insert leb x l) = filter (eqv z) (x :: l).
  Proof.
    induction l as [|y l IH]; [reflexivity|].
    simpl insert. destruct (leb x y) eqn:E; [reflexivity|].
    cbn [filter]. rewrite IH. cbn [filter].
    destruct (eqv z x) eqn:Ex; destruct (eqv z y) eqn:Ey; try reflexivity. exfalso.
    unfold eqv in Ex, Ey. apply andb_true_iff in Ex, Ey. destruct Ex as [_ Exz], Ey as [Ezy _].
    rewrite (leb_trans _ _ _ Exz Ezy) in E. discriminate.
  Qed.
  Lemma isort_stable z l : filter (eqv z) (isort leb l) = filter (eqv z) l.
  Proof.
    induction l as [|x l IH]; [reflexivity|]. simpl isort. rewrite insert_stable. simpl. rewrite IH. reflexivity.
  Qed.
End SortP.

(* ------------------------------------------------------------------ the (priority, name) order *)
Lemma str_leb_total a : forall b, str_leb a b = true \/ str_leb b a = true.
Proof.
  induction a as [|x a IH]; intros [|y b]; simpl; auto.
  destruct (N.ltb x y) eqn:L1; [auto|]. destruct (N.ltb y x) eqn:L2; [auto|].
  apply N.ltb_ge in L1, L2. assert (x = y) by lia. subst. rewrite N.eqb_refl. apply IH.
Qed.
Lemma str_leb_antisym a : forall b, str_leb a b = true -> str_leb b a = true -> a = b.
Proof.
  induction a as [|x a IH]; intros [|y b]; simpl; intros H1 H2; try reflexivity; try discriminate.
  destruct (N.ltb x y) eqn:L1.
  - apply N.ltb_lt in L1. destruct (N.ltb y x) eqn:L2; [apply N.ltb_lt in L2; lia|].
    destruct (N.eqb y x) eqn:E; [apply N.eqb_eq in E; lia | discriminate].
  - destruct (N.eqb x y) eqn:E; [|discriminate]. apply N.eqb_eq in E. subst.
    rewrite N.ltb_irrefl, N.eqb_refl in H2. f_equal. apply IH; assumption.
Qed.
Lemma str_leb_trans a : forall b c, str_leb a b = true -> str_leb b c = true -> str_leb a c = true.
Proof.
  induction a as [|x a IH]; intros [|y b] [|z c]; simpl; intros H1 H2; try reflexivity; try discriminate.
  destruct (N.ltb x y) eqn:L1.
  - apply N.ltb_lt in L1. destruct (N.ltb y z) eqn:L2.
    + apply N.ltb_lt in L2. assert (L : N.ltb x z = true) by (apply N.ltb_lt; lia). rewrite L. reflexivity.
    + destruct (N.eqb y z) eqn:E; [|discriminate]. apply N.eqb_eq in E. subst.
      assert (L : N.ltb x z = true) by (apply N.ltb_lt; lia). rewrite L. reflexivity.
  - destruct (N.eqb x y) eqn:E; [|discriminate]. apply N.eqb_eq in E. subst.
    destruct (N.ltb y z); [reflexivity|]. destruct (N.eqb y z); [|discriminate]. eapply IH; eassumption.
Qed.

Lemma key_leb_total a b : key_leb a b = true \/ key_leb b a = true.
Proof.
  unfold key_leb. destruct a as [p s], b as [q t]; simpl.
  destruct (Z.ltb p q) eqn:L1; [auto|]. destruct (Z.ltb q p) eqn:L2; [auto|].
  apply Z.ltb_ge in L1, L2. assert (p = q) by lia. subst. rewrite Z.eqb_refl. apply str_leb_total.
Qed.
Lemma key_leb_antisym a b : key_leb a b = true -> key_leb b a = true -> a = b.
Proof.
  unfold key_leb. destruct a as [p s], b as [q t]; simpl. intros H1 H2.
  destruct (Z.ltb p q) eqn:L1.
  - apply Z.ltb_lt in L1. destruct (Z.ltb q p) eqn:L2; [apply Z.ltb_lt in L2; lia|].
    destruct (Z.eqb q p) eqn:E; [apply Z.eqb_eq in E; lia | discriminate].
  - destruct (Z.eqb p q) eqn:E; [|discriminate]. apply Z.eqb_eq in E. subst.
    rewrite Z.ltb_irrefl, Z.eqb_refl in H2. f_equal. apply str_leb_antisym; assumption.
Qed.
Lemma key_leb_trans a b c : key_leb a b = true -> key_leb b c = true -> key_leb a c = true.
Proof.
  unfold key_leb. destruct a as [p s], b as [q t], c as [r u]; simpl. intros H1 H2.
  destruct (Z.ltb p q) eqn:L1.
  - apply Z.ltb_lt in L1. destruct (Z.ltb q r) eqn:L2.
    + apply Z.ltb_lt in L2. assert (L : Z.ltb p r = true) by (apply Z.ltb_lt; lia). rewrite L. reflexivity.
    + destruct (Z.eqb q r) eqn:E; [|discriminate]. apply Z.eqb_eq in E. subst.
      assert (L : Z.ltb p r = true) by (apply Z.ltb_lt; lia). rewrite L. reflexivity.
  - destruct (Z.eqb p q) eqn:E; [|discriminate]. apply Z.eqb_eq in E. subst.
    destruct (Z.ltb q r); [reflexivity|]. destruct (Z.eqb q r); [|discriminate]. eapply str_leb_trans; eassumption.
Qed.

(* ------------------------------------------------------------------ resolver order *)
Lemma NoDup_map_inj {A B} (f : A -> B) l : NoDup (map f l) ->
  forall x y, In x l -> In y l -> f x = f y -> x = y.
Proof.
  induction l as [|a l IH]; simpl; intros H x y Hx Hy E; [contradiction|].
  inversion H as [|? ? Hn Hd]; subst.
  destruct Hx as [<-|Hx], Hy as [<-|Hy]; try reflexivity.
  - exfalso. apply Hn. rewrite E. apply in_map. exact Hy.
  - exfalso. apply Hn. rewrite <- E. apply in_map. exact Hx.
  - apply IH; assumption.
Qed.

Section ResolverP.
  Context {A : Type} (nm : A -> option str) (pr : A -> Z).
  Notation ileb := (info_leb pr).

  Lemma info_leb_total (a b : A * str) : ileb a b = true \/ ileb b a = true.
  Proof. apply key_leb_total. Qed.
  Lemma info_leb_trans (a b c : A * str) : ileb a b = true -> ileb b c = true -> ileb a c = true.
  Proof. apply key_leb_trans. Qed.

  Lemma resolve_all_perm reg specs specs' : Permutation specs specs' ->
    match resolve_all nm reg specs, resolve_all nm reg specs' with
    | Some l, Some l' => Permutation l l'
    | None, None => True
    | _, _ => False
    end.
  Proof.
    induction 1 as [|x l l' HP IH|x y l|l l' l'' HP1 IH1 HP2 IH2]; simpl.
    - constructor.
    - destruct (reg_lookup nm reg x); destruct (resolve_all nm reg l), (resolve_all nm reg l'); try exact I; try contradiction.
      apply perm_skip. exact IH.
    - destruct (reg_lookup nm reg x), (reg_lookup nm reg y), (resolve_all nm reg l); try exact I. apply perm_swap.
    - destruct (resolve_all nm reg l), (resolve_all nm reg l'), (resolve_all nm reg l''); try exact I; try contradiction.
      eapply Permutation_trans; eassumption.
  Qed.

  Lemma resolve_all_snd reg specs : forall l, resolve_all nm reg specs = Some l -> map snd l = specs.
  Proof.
    induction specs as [|s specs IH]; simpl; intros l H.
    - inversion H. reflexivity.
    - destruct (reg_lookup nm reg s); [|discriminate]. destruct (resolve_all nm reg specs); [|discriminate].
      inversion H. simpl. f_equal. apply IH. reflexivity.
  Qed.
  Lemma resolve_all_lookup reg specs : forall l, resolve_all nm reg specs = Some l ->
    forall x, In x l -> reg_lookup nm reg (snd x) = Some (fst x).
  Proof.
    induction specs as [|s specs IH]; simpl; intros l H x Hx.
    - inversion H; subst. contradiction.
    - destruct (reg_lookup nm reg s) eqn:E; [|discriminate]. destruct (resolve_all nm reg specs); [|discriminate].
      inversion H; subst. destruct Hx as [<-|Hx]; [exact E | eapply IH; [reflexivity | exact Hx]].
  Qed.

  (* naming the pipelines in any order resolves to the same list of pipelines *)
  Lemma resolve_order_perm reg specs specs' :
    Permutation specs specs' -> NoDup specs -> resolve_order nm pr reg specs = resolve_order nm pr reg specs'.
  Proof.
    intros HP Hnd. unfold resolve_order. pose proof (resolve_all_perm reg _ _ HP) as H.
    destruct (resolve_all nm reg specs) as [l|] eqn:E1, (resolve_all nm reg specs') as [l'|] eqn:E2;
      try contradiction; [|reflexivity].
    f_equal. f_equal.
    apply (sorted_unique ileb).
    - apply isort_sorted; [apply info_leb_total | apply info_leb_trans].
    - apply isort_sorted; [apply info_leb_total | apply info_leb_trans].
    - eapply Permutation_trans; [apply isort_perm|].
      eapply Permutation_trans; [exact H | apply Permutation_sym, isort_perm].
    - intros x y Hx Hy L1 L2.
      apply (Permutation_in _ (isort_perm ileb l)) in Hx, Hy.
      assert (K : info_key pr x = info_key pr y) by (apply key_leb_antisym; assumption).
      apply (NoDup_map_inj snd l); try assumption.
      + rewrite (resolve_all_snd _ _ _ E1). exact Hnd.
      + unfold info_key in K. inversion K. reflexivity.
  Qed.

  (* what the order is: a permutation of the named pipelines, ascending in (priority, name),
     equal keys in argument order *)
  Lemma resolve_order_spec reg specs l : resolve_all nm reg specs = Some l ->
    exists s, resolve_order nm pr reg specs = Some (map fst s) /\
      Permutation s l /\ StronglySorted (fun a b => ileb a b = true) s /\
      forall z, filter (eqv ileb z) s = filter (eqv ileb z) l.
  Proof.
    intros E. exists (isort ileb l). unfold resolve_order. rewrite E. split; [reflexivity|]. split; [apply isort_perm|].
    split; [apply isort_sorted; [apply info_leb_total | apply info_leb_trans]|].
    intros z. apply isort_stable. apply info_leb_trans.
  Qed.
End ResolverP.

Lemma resolve_perm h reg specs specs' :
  Permutation specs specs' -> NoDup specs -> resolve h reg specs = resolve h reg specs'.
Proof. intros HP Hn. unfold resolve. rewrite (resolve_order_perm p_name p_prio reg _ _ HP Hn). reflexivity. Qed.
Lemma aresolve_perm reg specs specs' :
  Permutation specs specs' -> NoDup specs -> aresolve reg specs = aresolve reg specs'.
Proof. intros HP Hn. unfold aresolve. rewrite (resolve_order_perm _ _ reg _ _ HP Hn). reflexivity. Qed.
