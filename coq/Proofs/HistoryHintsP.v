(* C15 - the modifier type-hint cache: in every reachable world an entry holds the annotation of the
   very class it is stored under, so loading a document type-checks as in a fresh process. *)
From Coq Require Import NArith List Bool Arith Lia.
From PS Require Import Base.Chars Base.Outcome Model.History Spec.Frame Proofs.History15P.
Import ListNotations.
Open Scope N_scope.

Definition hs (w : world) : Prop := forall e, In e (w_hints w) -> snd e = fst e.

Lemma load_hs w r : hs w -> hs (load w r).
Proof.
  unfold load, hs. simpl. generalize (w_hints w). induction (r_mods r) as [|mt l IH]; intros h Hh; simpl; [exact Hh|].
  apply IH. destruct (existsb (fun e => N.eqb (fst e) (fst mt)) h); [exact Hh|].
  intros e He. apply in_app_iff in He. destruct He as [He|[He|[]]]; [apply Hh; exact He | subst e; reflexivity].
Qed.

Lemma cache_parse_hints E w k : w_hints (fst (cache_parse E w k)) = w_hints w.
Proof.
  unfold cache_parse. destruct (mem c_pipe k); [reflexivity|].
  destruct (lookup k (w_cache w)); [reflexivity|]. destruct (e_parse E k); reflexivity.
Qed.

Lemma conv_conds_hints E cls dets fin : forall ks w, w_hints (fst (conv_conds E cls dets fin w ks)) = w_hints w.
Proof.
  induction ks as [|k ks IH]; intros w; simpl; [reflexivity|].
  pose proof (cache_parse_hints E w k) as Hc. destruct (cache_parse E w k) as [w1 pt]. simpl in Hc.
  destruct (obind pt (resolve dets)) as [ct|e|e]; simpl; try exact Hc.
  destruct (render (e_ne E cls) cls false ct (w_tpl w1)) as [tp q].
  destruct (obind q fin) as [s|e|e]; simpl; try exact Hc.
  specialize (IH (set_tplw w1 tp)). destruct (conv_conds E cls dets fin (set_tplw w1 tp) ks) as [w3 r]. simpl in *.
  rewrite IH. exact Hc.
Qed.

Lemma fetch_vals_hints E w i it rd r : w_hints (fst (fetch_vals E w i it rd r)) = w_hints w.
Proof.
  unfold fetch_vals. destruct (i_tr it); try reflexivity. destruct (wants_values rd r it); [|reflexivity].
  unfold get_values. destruct (w_vc w i); [reflexivity|]. destruct (e_src E d); reflexivity.
Qed.
Lemma wr_owner_hints w o f : w_hints (wr_owner w o f) = w_hints w.
Proof. destruct o; reflexivity. Qed.

Lemma apply_items_hints E : forall its w L r, w_hints (fst (apply_items E w L r its)) = w_hints w.
Proof.
  induction its as [|[i it] its IH]; intros w L r; simpl; [reflexivity|].
  destruct (is_post it); [apply IH|].
  pose proof (fetch_vals_hints E w i it (rd_owner w (w_owner w i)) r) as Hf.
  destruct (fetch_vals E w i it (rd_owner w (w_owner w i)) r) as [w0 vals]. simpl in Hf.
  destruct (is_res (item_step (rd_owner w (w_owner w i)) (rd_vars w (w_owner w i)) r it vals)) as [r'|e]; simpl.
  - rewrite IH. simpl. rewrite wr_owner_hints. exact Hf.
  - rewrite wr_owner_hints. exact Hf.
Qed.

Lemma conv_with_hints E w L lfmt bk fmt r : w_hints (fst (conv_with E w L lfmt bk fmt r)) = w_hints w.
Proof.
  unfold conv_with.
  pose proof (apply_items_hints E (pipe_pairs E (b_cls bk) (b_user bk) lfmt) (set_ps w L ps0) L r) as Ha.
  destruct (apply_items E (set_ps w L ps0) L r (pipe_pairs E (b_cls bk) (b_user bk) lfmt)) as [w3 res]. simpl in Ha.
  destruct res as [r'|e]; simpl; [|exact Ha].
  pose proof (conv_conds_hints E (b_cls bk) (r_dets r') (finish_query E (b_cls bk) (ps_state (w_ps w3 L))) (r_conds r') w3) as Hc.
  destruct (conv_conds E (b_cls bk) (r_dets r') (finish_query E (b_cls bk) (ps_state (w_ps w3 L))) w3 (r_conds r')) as [w4 qs].
  simpl in Hc. destruct qs as [l|e|e]; simpl; try (rewrite Hc; exact Ha).
  destruct (post_all_frame (pipe_pairs E (b_cls bk) (b_user bk) lfmt) L r' (map (finalize fmt (ps_state (w_ps w3 L)) r') l) w4) as [_ [_ Hp]].
  destruct (post_all w4 L r' (map (finalize fmt (ps_state (w_ps w3 L)) r') l) (pipe_pairs E (b_cls bk) (b_user bk) lfmt)) as [w5 l'].
  simpl in *. rewrite Hp, Hc. exact Ha.
Qed.

Lemma conv_rule_raw_hints E w b bk fmt r : w_hints (fst (conv_rule_raw E w b bk fmt r)) = w_hints w.
Proof.
  unfold conv_rule_raw. destruct (b_last bk) as [[L f]|]; rewrite conv_with_hints; reflexivity.
Qed.

Lemma conv_rules_hints E b fmt collect : forall rs w acc errs,
  w_hints (fst (fst (conv_rules E w b fmt collect rs acc errs))) = w_hints w.
Proof.
  induction rs as [|r rs IH]; intros w acc errs; simpl; [reflexivity|].
  destruct (nth_error (w_bks w) b) as [bk|]; [|reflexivity].
  pose proof (conv_rule_raw_hints E w b bk fmt r) as H. destruct (conv_rule_raw E w b bk fmt r) as [w1 q]. simpl in H.
  destruct q as [l|e|e]; simpl; [rewrite IH; exact H | destruct collect; [rewrite IH; exact H | exact H] | exact H].
Qed.

Lemma fold_load_hs rs : forall w, hs w -> hs (fold_left load rs w).
Proof. induction rs as [|r rs IH]; intros w H; simpl; [exact H | apply IH; apply load_hs; exact H]. Qed.

Lemma hs_ext w w' : w_hints w' = w_hints w -> hs w -> hs w'.
Proof. unfold hs. intros ->. tauto. Qed.

Lemma step_hs E w o : hs w -> hs (fst (step E w o)).
Proof.
  intros H. destruct o as [r|cls user collect opts|b fmt|b rs fmt|b r fmt]; simpl.
  - apply load_hs. exact H.
  - exact H.
  - destruct (nth_error (w_bks w) b); simpl; exact H.
  - destruct (nth_error (w_bks w) b) as [bk|]; simpl; [|exact H].
    pose proof (conv_rules_hints E b fmt (b_collect bk) rs (init_pipeline E (fold_left load rs w) b bk fmt) [] []) as Hc.
    destruct (conv_rules E (init_pipeline E (fold_left load rs w) b bk fmt) b fmt (b_collect bk) rs [] []) as [[w1 q] errs].
    cbn [fst] in *. eapply hs_ext; [exact Hc|]. apply (fold_load_hs rs w H).
  - destruct (nth_error (w_bks w) b) as [bk|]; simpl; [|exact H].
    pose proof (conv_rule_raw_hints E (load w r) b bk fmt r) as Hc.
    destruct (conv_rule_raw E (load w r) b bk fmt r) as [w1 q]. cbn [fst] in *.
    eapply hs_ext; [exact Hc|]. apply load_hs. exact H.
Qed.

Lemma run_hs E : forall ops w, hs w -> hs (fst (run E w ops)).
Proof.
  induction ops as [|o ops IH]; intros w H; simpl; [exact H|].
  pose proof (step_hs E w o H) as H1. destruct (step E w o) as [w1 x]. simpl in H1.
  specialize (IH w1 H1). destruct (run E w1 ops) as [w2 xs]. exact IH.
Qed.

Lemma hint_of_own w m : hs w -> hint_of w m = m.
Proof.
  intros H. unfold hint_of. destruct (find (fun e => N.eqb (fst e) m) (w_hints w)) as [e|] eqn:Ef; [|reflexivity].
  apply find_some in Ef. destruct Ef as [Hin He]. apply N.eqb_eq in He. rewrite (H e Hin). exact He.
Qed.

Lemma find_ext {A} (f g : A -> bool) (l : list A) : (forall x, f x = g x) -> find f l = find g l.
Proof. intros H. induction l as [|x l IH]; simpl; [reflexivity|]. rewrite H, IH. reflexivity. Qed.

(* loading any document after any history gives the result of loading it in a fresh process *)
Theorem load_frame E ops r :
  let w := fst (run E init ops) in
  o_res (out_obs (snd (step E w (OLoad r)))) = ideal_load E r /\
  (forall e, In e (w_hints w) -> snd e = fst e).
Proof.
  intros w. assert (H : hs w) by (apply run_hs; intros e []).
  split; [|exact H]. simpl. unfold load_check, ideal_load.
  rewrite (find_ext _ (fun mt => negb (e_accepts E (fst mt) (snd mt)))).
  - destruct (find _ (r_mods r)); [reflexivity|]. destruct (r_bad r); reflexivity.
  - intros mt. rewrite (hint_of_own w (fst mt) H). reflexivity.
Qed.
