(* C11 - proofs about the model of filter application (Model/Filter.v). *)
From Coq Require Import NArith ZArith List Bool Arith Lia.
From PS Require Import Base.Chars Base.Outcome Model.FCondParse Model.FCond Spec.FGlob Spec.FCondGrammar
                       Proofs.FGlobP Proofs.FCondParseP Proofs.FCondP Model.Filter Spec.FilterSpec.
Import ListNotations.
Open Scope N_scope.

(* ====================== applicability ====================== *)
Lemma ostr_eqb_eq a b : ostr_eqb a b = true <-> a = b.
Proof.
  unfold ostr_eqb. destruct a as [x|], b as [y|]; simpl; split; intro H; try discriminate; try reflexivity.
  - apply str_eqb_eq in H. congruence.
  - inversion H; subst. apply str_eqb_refl.
Qed.

Lemma attr_ok_spec s o : attr_ok s o = true <-> (forall x, s = Some x -> o = Some x).
Proof.
  unfold attr_ok. destruct s as [x|].
  - rewrite ostr_eqb_eq. split.
    + intros <- y Hy. exact Hy.
    + intros H. symmetry. apply H. reflexivity.
  - split; [intros _ x Hx; discriminate | reflexivity].
Qed.

Lemma ls_contains_covers f r : ls_contains f r = true <-> covers f r.
Proof.
  unfold ls_contains, covers. destruct (ls_eqb f r) eqn:E.
  - split; [intros _|reflexivity]. unfold ls_eqb in E.
    repeat (apply andb_true_iff in E; destruct E as [E ?]).
    apply ostr_eqb_eq in E. apply ostr_eqb_eq in H1. apply ostr_eqb_eq in H0.
    rewrite E, H1, H0. repeat split; intros x Hx; exact Hx.
  - rewrite !andb_true_iff, !attr_ok_spec. tauto.
Qed.

Lemma lookup_ref_spec r ref : lookup_ref r ref = true <-> names_rule ref r.
Proof.
  destruct ref as [s [u|]|z]; simpl.
  - destruct (r_id r) as [i|]; [|split; discriminate].
    rewrite N.eqb_eq. split; congruence.
  - destruct (r_name r) as [n|]; [|split; discriminate].
    rewrite str_eqb_eq. split; congruence.
  - rewrite orb_true_iff, !Z.eqb_eq. tauto.
Qed.

Theorem should_apply_iff f r : should_apply f r = true <-> applies f r.
Proof.
  unfold should_apply, applies, targets.
  destruct (r_kind r); [|split; [discriminate | intros [H _]; discriminate]].
  destruct (ls_contains (f_ls f) (r_ls r)) eqn:E; simpl.
  - assert (C : covers (f_ls f) (r_ls r)) by (apply ls_contains_covers; exact E).
    destruct (f_rules f) as [|l].
    + split; [intros _|reflexivity]. split; [reflexivity|]. split; [exact C|]. left. reflexivity.
    + split.
      * intros H. split; [reflexivity|]. split; [exact C|]. right.
        destruct (filter (lookup_ref r) l) as [|ref m] eqn:F; [discriminate|].
        assert (I : In ref (filter (lookup_ref r) l)) by (rewrite F; left; reflexivity).
        apply filter_In in I. destruct I as [I1 I2]. exists l, ref. split; [reflexivity|].
        split; [exact I1|]. apply lookup_ref_spec. exact I2.
      * intros [_ [_ [H|[l' [ref [Hl [Hin Hn]]]]]]]; [discriminate|]. inversion Hl; subst l'.
        assert (I : In ref (filter (lookup_ref r) l)).
        { apply filter_In. split; [exact Hin|]. apply lookup_ref_spec. exact Hn. }
        destruct (filter (lookup_ref r) l); [destruct I | reflexivity].
  - split; [discriminate|]. intros [_ [C _]]. apply ls_contains_covers in C. congruence.
Qed.

(* the executable form of the specification used by the oracle is the specification *)
Lemma covers_attr_spec a b : covers_attr a b = true <-> (forall x, a = Some x -> b = Some x).
Proof.
  destruct a as [x|], b as [y|]; simpl.
  - rewrite str_eqb_eq. split; [intros -> z Hz; exact Hz | intros H; specialize (H x eq_refl); congruence].
  - split; [discriminate | intros H; specialize (H x eq_refl); discriminate].
  - split; [intros _ z Hz; discriminate | reflexivity].
  - split; [intros _ z Hz; discriminate | reflexivity].
Qed.

Theorem applies_b_spec f r : applies_b f r = true <-> applies f r.
Proof.
  unfold applies_b, applies, covers_b, covers, targets. simpl.
  rewrite !andb_true_iff, !covers_attr_spec.
  split.
  - intros [[K [C1 [C2 [C3 _]]]] T].
    split; [destruct (r_kind r); [reflexivity|discriminate]|]. split; [tauto|].
    destruct (f_rules f) as [|l]; [left; reflexivity|]. right.
    apply existsb_exists in T. destruct T as [ref [Hin Hn]]. exists l, ref. split; [reflexivity|]. split; [exact Hin|].
    destruct ref as [s [u|]|z]; simpl in *.
    + destruct (r_id r); simpl in Hn; [apply N.eqb_eq in Hn; congruence|discriminate].
    + destruct (r_name r); simpl in Hn; [apply str_eqb_eq in Hn; congruence|discriminate].
    + rewrite orb_true_iff, !Z.eqb_eq in Hn. exact Hn.
  - intros [K [[C1 [C2 C3]] T]]. split; [split; [rewrite K; reflexivity | tauto]|].
    destruct T as [T|[l [ref [Hl [Hin Hn]]]]]; [rewrite T; reflexivity|]. rewrite Hl.
    apply existsb_exists. exists ref. split; [exact Hin|].
    destruct ref as [s [u|]|z]; simpl in *.
    + rewrite Hn. simpl. apply N.eqb_refl.
    + rewrite Hn. simpl. apply str_eqb_refl.
    + rewrite orb_true_iff, !Z.eqb_eq. exact Hn.
Qed.

Theorem untouched draws f r : should_apply f r = false -> apply_on_rule draws f r = Some (r, draws).
Proof. intros H. unfold apply_on_rule. rewrite H. reflexivity. Qed.

(* ====================== the token rewrite, on layouts ====================== *)
Definition rw_tok (p : str) (t : tok) : tok := match t with TW w => TW (repl p w) | x => x end.
Definition is_pfxc (c : char) : bool := is_alnum c || (c =? c_us).
Definition wf_prefix (p : str) : bool := forallb is_pfxc p && us p.

Lemma pfxc_identc c : is_pfxc c = true -> is_identc c = true.
Proof. unfold is_pfxc, is_identc. destruct (is_alnum c), (c =? c_us), (c =? c_dash); simpl; congruence. Qed.
Lemma pfxc_patc c : is_pfxc c = true -> is_patc c = true.
Proof. unfold is_pfxc, is_patc. destruct (is_alnum c), (c =? c_us), (c =? c_star); simpl; congruence. Qed.
Lemma identc_wordc c : is_identc c = true -> is_wordc c = true.
Proof. unfold is_wordc. intros ->. reflexivity. Qed.
Lemma patc_wordc c : is_patc c = true -> is_wordc c = true.
Proof. unfold is_patc, is_wordc, is_identc. destruct (is_alnum c), (c =? c_us), (c =? c_star), (c =? c_dash); simpl; congruence. Qed.
Lemma forallb_impl {A} (f g : A -> bool) l : (forall x, f x = true -> g x = true) -> forallb f l = true -> forallb g l = true.
Proof. intros H. rewrite !forallb_forall. auto. Qed.

Lemma wf_prefix_words p : wf_prefix p = true -> forallb is_wordc p = true.
Proof.
  unfold wf_prefix. intros H. apply andb_true_iff in H. destruct H as [H _].
  revert H. apply forallb_impl. intros c Hc. apply identc_wordc, pfxc_identc, Hc.
Qed.

Lemma repl_word p w : forallb is_wordc p = true -> word w -> word (repl p w).
Proof.
  intros Hp [Hn Hw]. unfold repl. destruct (is_keyword_ci w); [split; assumption|].
  destruct (str_eqb w w_them).
  - split; [destruct p; discriminate|]. rewrite forallb_app, Hp. reflexivity.
  - unfold pre. split; [destruct p; discriminate|]. rewrite forallb_app, Hp. simpl. exact Hw.
Qed.

Lemma rw_word p w : forallb is_wordc w = true -> forall s cur, rw p (w ++ s) cur = rw p s (rev w ++ cur).
Proof.
  induction w as [|c w IH]; simpl; intros H s cur; [reflexivity|].
  apply andb_true_iff in H. destruct H as [H1 H2]. rewrite H1, IH by assumption.
  rewrite <- app_assoc. reflexivity.
Qed.

Definition breaks (s : str) : Prop := s = [] \/ exists c r, s = c :: r /\ is_wordc c = false.

Lemma rw_break p s cur : breaks s -> rw p s cur = flush_tok p cur ++ rw p s [].
Proof.
  intros [->|[c [r [-> Hc]]]].
  - simpl. rewrite app_nil_r. reflexivity.
  - simpl. rewrite Hc. reflexivity.
Qed.

Lemma lpar_not_word : is_wordc c_lpar = false. Proof. reflexivity. Qed.
Lemma rpar_not_word : is_wordc c_rpar = false. Proof. reflexivity. Qed.

Lemma blanks_head c ws : blanks (c :: ws) -> is_wordc c = false.
Proof. unfold blanks. simpl. intros H. apply andb_true_iff in H. apply blank_not_word, H. Qed.

Lemma lay_breaks b ts s : Lay b ts s -> b = true -> breaks s.
Proof.
  destruct 1 as [b ws Hb | b ws w ts' s' Hb Hsep Hw HL | b ws ts' s' Hb HL | b ws ts' s' Hb HL]; intros E.
  - destruct ws as [|c ws]; [left; reflexivity|]. right. exists c, ws. split; [reflexivity|]. eapply blanks_head; eassumption.
  - destruct ws as [|c ws]; [exfalso; apply (Hsep E); reflexivity|]. right. eexists c, _. split; [reflexivity|]. eapply blanks_head; eassumption.
  - right. destruct ws as [|c ws]; [exists c_lpar, s'; split; reflexivity|]. eexists c, _. split; [reflexivity|]. eapply blanks_head; eassumption.
  - right. destruct ws as [|c ws]; [exists c_rpar, s'; split; reflexivity|]. eexists c, _. split; [reflexivity|]. eapply blanks_head; eassumption.
Qed.
Lemma lay_true_breaks ts s : Lay true ts s -> breaks s.
Proof. intros H. eapply lay_breaks; [exact H|reflexivity]. Qed.

Lemma rw_blanks p ws s : blanks ws -> rw p (ws ++ s) [] = ws ++ rw p s [].
Proof.
  unfold blanks. induction ws as [|c ws IH]; simpl; intros H; [reflexivity|].
  apply andb_true_iff in H. destruct H as [H1 H2]. rewrite (blank_not_word _ H1). simpl. rewrite IH by assumption. reflexivity.
Qed.

Lemma rw_lay p : forallb is_wordc p = true -> forall b ts s, Lay b ts s -> Lay b (map (rw_tok p) ts) (rewrite p s).
Proof.
  intros Hp b ts s H. unfold rewrite.
  induction H as [b ws Hb | b ws w ts s Hb Hsep Hw HL IH | b ws ts s Hb HL IH | b ws ts s Hb HL IH].
  - rewrite <- (app_nil_r ws) at 1. rewrite rw_blanks by assumption. simpl. rewrite app_nil_r. apply lay_nil. exact Hb.
  - rewrite rw_blanks by assumption. destruct Hw as [Hn Hw].
    rewrite rw_word by assumption. rewrite app_nil_r.
    rewrite (rw_break p s (rev w)) by (eapply lay_true_breaks; eassumption).
    assert (F : flush_tok p (rev w) = repl p w).
    { unfold flush_tok. destruct (rev w) eqn:E.
      - exfalso. apply Hn. apply (f_equal (@rev _)) in E. rewrite rev_involutive in E. exact E.
      - rewrite <- E, rev_involutive. reflexivity. }
    rewrite F. simpl map. apply lay_word; try assumption. apply repl_word; [exact Hp | split; assumption].
  - rewrite rw_blanks by assumption. change (rw p (c_lpar :: s) []) with (c_lpar :: rw p s []). apply lay_lpar; assumption.
  - rewrite rw_blanks by assumption. change (rw p (c_rpar :: s) []) with (c_rpar :: rw p s []). apply lay_rpar; assumption.
Qed.

(* ====================== "(c) and (f)" on layouts ====================== *)
Lemma lay_snoc b ts s : Lay b ts s -> forall ts2 s2, Lay false ts2 s2 -> Lay b (ts ++ TR :: ts2) (s ++ c_rpar :: s2).
Proof.
  induction 1 as [b ws Hb | b ws w ts s Hb Hsep Hw HL IH | b ws ts s Hb HL IH | b ws ts s Hb HL IH]; intros ts2 s2 H2.
  - simpl. apply lay_rpar; assumption.
  - simpl. rewrite <- !app_assoc. apply lay_word; try assumption. apply IH. exact H2.
  - simpl. rewrite <- app_assoc. simpl. apply lay_lpar; try assumption. apply IH. exact H2.
  - simpl. rewrite <- app_assoc. simpl. apply lay_rpar; try assumption. apply IH. exact H2.
Qed.

Lemma new_cond_lay tc c tf fc : Lay false tc c -> Lay false tf fc ->
  Lay false (TL :: tc ++ TR :: TW w_and :: TL :: tf ++ [TR]) (new_cond c fc).
Proof.
  intros Hc Hf.
  change (new_cond c fc) with ([] ++ c_lpar :: (c ++ c_rpar :: ([32] ++ w_and ++ ([32] ++ c_lpar :: (fc ++ c_rpar :: []))))).
  apply lay_lpar; [reflexivity|]. apply lay_snoc; [exact Hc|].
  apply lay_word; [reflexivity | discriminate | split; [discriminate|reflexivity] |].
  apply lay_lpar; [reflexivity|]. apply lay_snoc; [exact Hf|]. apply (lay_nil false []). reflexivity.
Qed.

(* ====================== renaming, on expressions ====================== *)
Definition rn_pat (p pat : str) : str := if str_eqb pat w_them then p ++ [c_us; c_star] else pre p pat.

Fixpoint rename (p : str) (e : expr) : expr :=
  match e with
  | EId n => EId (pre p n)
  | ESel q pat => ESel q (rn_pat p pat)
  | ENot a => ENot (rename p a)
  | EAnd a b => EAnd (rename p a) (rename p b)
  | EOr a b => EOr (rename p a) (rename p b)
  end.

(* identifiers and patterns of the filter condition are not keywords of the rewrite (in any letter
   case); identifiers are not 'them' *)
Fixpoint plain (e : expr) : bool :=
  match e with
  | EId n => negb (is_keyword_ci n) && negb (str_eqb n w_them)
  | ESel _ pat => negb (is_keyword_ci pat)
  | ENot a => plain a
  | EAnd a b | EOr a b => plain a && plain b
  end.

Lemma repl_qword p q : repl p (qword q) = qword q.
Proof. destruct q; reflexivity. Qed.

Lemma spells_rename p i ts e : SpellsT i ts e -> plain e = true -> SpellsT i (map (rw_tok p) ts) (rename p e).
Proof.
  induction 1 as [n | q pat | ts e H IH | ts e H IH | ts1 ts2 a b H1 IH1 H2 IH2 | ts1 ts2 a b H1 IH1 H2 IH2 | i ts e H IH];
    intros Hp.
  - simpl in Hp. apply andb_true_iff in Hp. destruct Hp as [K T].
    apply negb_true_iff in K. apply negb_true_iff in T.
    simpl. unfold repl. rewrite K, T. apply sp_id.
  - simpl in Hp. apply negb_true_iff in Hp.
    cbn [map rw_tok rename]. rewrite repl_qword.
    change (repl p w_of) with w_of.
    replace (repl p pat) with (rn_pat p pat) by (unfold repl, rn_pat; rewrite Hp; reflexivity).
    apply sp_sel.
  - cbn [map rw_tok]. rewrite map_app. cbn [map rw_tok]. apply sp_par. apply IH. exact Hp.
  - cbn [map rw_tok rename]. change (repl p w_not) with w_not. apply sp_not. apply IH. exact Hp.
  - simpl in Hp. apply andb_true_iff in Hp. destruct Hp as [Pa Pb].
    rewrite map_app. cbn [map rw_tok rename]. change (repl p w_and) with w_and. apply sp_and; auto.
  - simpl in Hp. apply andb_true_iff in Hp. destruct Hp as [Pa Pb].
    rewrite map_app. cbn [map rw_tok rename]. change (repl p w_or) with w_or. apply sp_or; auto.
  - apply sp_up. apply IH. exact Hp.
Qed.

Lemma us_cons p : us p = true -> exists p', p = c_us :: p'.
Proof. destruct p as [|c p']; simpl; [discriminate|]. intros H. apply N.eqb_eq in H. subst. eauto. Qed.

Lemma wf_rename p e : wf_prefix p = true -> wf_expr e = true -> wf_expr (rename p e) = true.
Proof.
  unfold wf_prefix. intros Hp. apply andb_true_iff in Hp. destruct Hp as [Hc Hu].
  destruct (us_cons _ Hu) as [p' ->].
  induction e as [n|q pat|a IH|a IHa b IHb|a IHa b IHb]; simpl; intros H.
  - apply andb_true_iff in H. destruct H as [Hi _]. unfold is_ident in Hi. apply andb_true_iff in Hi. destruct Hi as [_ Hi].
    apply andb_true_iff. split; [|reflexivity].
    unfold is_ident, pre. apply andb_true_iff. split; [reflexivity|].
    rewrite forallb_app. apply andb_true_iff. split.
    + revert Hc. apply forallb_impl. intros c. apply pfxc_identc.
    + simpl. exact Hi.
  - unfold is_pat in H. apply andb_true_iff in H. destruct H as [_ Hi].
    assert (Hc' : forallb is_patc (c_us :: p') = true) by (revert Hc; apply forallb_impl; intros c; apply pfxc_patc).
    unfold rn_pat. destruct (str_eqb pat w_them).
    + unfold is_pat. apply andb_true_iff. split; [reflexivity|]. rewrite forallb_app, Hc'. reflexivity.
    + unfold is_pat, pre. apply andb_true_iff. split; [reflexivity|]. rewrite forallb_app, Hc'. simpl. exact Hi.
  - auto.
  - apply andb_true_iff in H. destruct H. rewrite IHa, IHb by assumption. reflexivity.
  - apply andb_true_iff in H. destruct H. rewrite IHa, IHb by assumption. reflexivity.
Qed.

Lemma names_rename p e : names_of (rename p e) = map (pre p) (names_of e).
Proof. induction e; simpl; try reflexivity; try assumption; rewrite map_app; congruence. Qed.
Lemma patterns_rename p e : patterns_of (rename p e) = map (rn_pat p) (patterns_of e).
Proof. induction e; simpl; try reflexivity; try assumption; rewrite map_app; congruence. Qed.

(* ====================== glob with a literal prefix ====================== *)
Definition nostar (l : str) : Prop := forall c, In c l -> c <> c_star.

Lemma globb_lit l q n : nostar l -> globb (l ++ q) (l ++ n) = globb q n.
Proof.
  induction l as [|c l IH]; intros H; [reflexivity|].
  simpl. assert (c <> c_star) by (apply H; left; reflexivity).
  destruct (c =? c_star) eqn:E; [apply N.eqb_eq in E; contradiction|].
  rewrite N.eqb_refl. simpl. apply IH. intros x Hx. apply H. right. exact Hx.
Qed.

Lemma globb_lit_prefix l q m : nostar l -> globb (l ++ q) m = true -> prefixb l m = true.
Proof.
  revert m. induction l as [|c l IH]; intros m H G; [reflexivity|].
  simpl in G. assert (c <> c_star) by (apply H; left; reflexivity).
  destruct (c =? c_star) eqn:E; [apply N.eqb_eq in E; contradiction|].
  destruct m as [|x m]; [discriminate|]. apply andb_true_iff in G. destruct G as [G1 G2].
  simpl. rewrite N.eqb_sym, G1. simpl. apply IH; [|exact G2]. intros y Hy. apply H. right. exact Hy.
Qed.

Lemma any_suffix_nil_true n : any_suffix (globb []) n = true.
Proof. induction n as [|x n IH]; simpl; [reflexivity|]. exact IH. Qed.

Lemma pfxc_nostar p : forallb is_pfxc p = true -> nostar p.
Proof.
  intros H c Hc E. rewrite forallb_forall in H. specialize (H c Hc). subst c. discriminate.
Qed.

Lemma nostar_snoc_us p : nostar p -> nostar (p ++ [c_us]).
Proof. intros H c Hc. apply in_app_or in Hc. destruct Hc as [Hc|[<-|[]]]; [apply H; exact Hc|discriminate]. Qed.

Lemma pre_snoc p n : pre p n = (p ++ [c_us]) ++ n.
Proof. unfold pre. rewrite <- app_assoc. reflexivity. Qed.

Lemma prefixb_app_l a b m : prefixb (a ++ b) m = true -> prefixb a m = true.
Proof.
  revert m. induction a as [|x a IH]; intros m H; [reflexivity|].
  destruct m as [|y m]; [discriminate|]. simpl in *. apply andb_true_iff in H. destruct H as [H1 H2].
  rewrite H1. simpl. apply IH. exact H2.
Qed.

Lemma pre_inj p a b : pre p a = pre p b -> a = b.
Proof. unfold pre. intros H. apply app_inv_head in H. congruence. Qed.

Lemma us_pre p n : us p = true -> us (pre p n) = true.
Proof. intros H. destruct (us_cons _ H) as [p' ->]. reflexivity. Qed.

(* ====================== selection after renaming ====================== *)
Section Sel.
  Variable p : str.
  Hypothesis Hp : wf_prefix p = true.

  Let Hpc : forallb is_pfxc p = true. Proof. unfold wf_prefix in Hp. apply andb_true_iff in Hp. apply Hp. Qed.
  Let Hpu : us p = true. Proof. unfold wf_prefix in Hp. apply andb_true_iff in Hp. apply Hp. Qed.

  Lemma rn_pat_not_them pat : str_eqb (rn_pat p pat) w_them = false.
  Proof.
    destruct (us_cons _ Hpu) as [p' E]. unfold rn_pat, pre. rewrite E. destruct (str_eqb pat w_them); reflexivity.
  Qed.

  Lemma us_rn_pat pat : us (rn_pat p pat) = true.
  Proof.
    destruct (us_cons _ Hpu) as [p' E]. unfold rn_pat, pre. rewrite E. destruct (str_eqb pat w_them); reflexivity.
  Qed.

  (* a renamed filter pattern selects a name only if the name starts with the prefix *)
  Lemma selected_rn_prefix pat m : selected (rn_pat p pat) m = true -> prefixb p m = true.
  Proof.
    unfold selected. rewrite rn_pat_not_them. simpl. intros H. apply andb_true_iff in H. destruct H as [G _].
    unfold rn_pat in G. destruct (str_eqb pat w_them).
    - eapply globb_lit_prefix; [apply pfxc_nostar, Hpc | exact G].
    - unfold pre in G. eapply globb_lit_prefix; [apply pfxc_nostar, Hpc | exact G].
  Qed.

  (* on the renamed filter detections it selects what the original pattern selected *)
  Lemma selected_rn pat n : us n = false -> selected (rn_pat p pat) (pre p n) = selected pat n.
  Proof.
    intros Hn. unfold selected. rewrite rn_pat_not_them, us_rn_pat, Hn. simpl. rewrite !orb_true_r, !andb_true_r.
    unfold rn_pat. destruct (str_eqb pat w_them) eqn:T.
    - simpl. change (p ++ [c_us; c_star]) with (p ++ [c_us] ++ [c_star]). rewrite app_assoc, pre_snoc.
      rewrite globb_lit by (apply nostar_snoc_us, pfxc_nostar, Hpc).
      simpl. apply any_suffix_nil_true.
    - simpl. rewrite !pre_snoc. apply globb_lit. apply nostar_snoc_us, pfxc_nostar, Hpc.
  Qed.
End Sel.

(* ====================== the detection map after renaming ====================== *)
Definition ren (p : str) (nd : str * N) : str * N := (pre p (fst nd), snd nd).

Lemma names_app a b : names (a ++ b) = names a ++ names b.
Proof. unfold names. apply map_app. Qed.
Lemma names_ren p d : names (map (ren p) d) = map (pre p) (names d).
Proof. unfold names. rewrite !map_map. reflexivity. Qed.

Lemma dict_set_absent d k v : ~ In k (names d) -> dict_set d k v = d ++ [(k, v)].
Proof.
  induction d as [|[k' v'] d IH]; simpl; intros H; [reflexivity|].
  destruct (str_eqb k' k) eqn:E.
  - apply str_eqb_eq in E. exfalso. apply H. left. exact E.
  - rewrite IH; [reflexivity|]. intros Hin. apply H. right. exact Hin.
Qed.

Lemma add_dets_append p fd : forall acc,
  (forall n, In n (names fd) -> ~ In (pre p n) (names acc)) -> NoDup (names fd) ->
  add_dets p fd acc = acc ++ map (ren p) fd.
Proof.
  unfold add_dets. induction fd as [|[n v] fd IH]; intros acc Hf Hnd; simpl.
  - rewrite app_nil_r. reflexivity.
  - rewrite dict_set_absent by (apply Hf; left; reflexivity).
    simpl in Hnd. inversion Hnd as [|x l Hx Hl]; subst.
    rewrite IH.
    + rewrite <- app_assoc. reflexivity.
    + intros m Hm Hin. rewrite names_app in Hin. apply in_app_or in Hin. destruct Hin as [Hin|[Hin|[]]].
      * apply (Hf m); [right; exact Hm | exact Hin].
      * simpl in Hin. apply pre_inj in Hin. subst. contradiction.
    + exact Hl.
Qed.

Lemma fresh_spec p d : fresh p d = true <-> forall n, In n (names d) -> prefixb p n = false.
Proof.
  unfold fresh. rewrite forallb_forall. split.
  - intros H n Hn. unfold names in Hn. apply in_map_iff in Hn. destruct Hn as [nd [<- Hin]].
    specialize (H nd Hin). apply negb_true_iff in H. exact H.
  - intros H nd Hin. apply negb_true_iff. apply H. unfold names. apply in_map. exact Hin.
Qed.

Lemma prefixb_pre p n : prefixb p (pre p n) = true.
Proof. unfold pre. apply prefixb_app. Qed.

Lemma add_dets_fresh p fd d : fresh p d = true -> NoDup (names fd) -> add_dets p fd d = d ++ map (ren p) fd.
Proof.
  intros Hf Hnd. apply add_dets_append; [|exact Hnd].
  intros n _ Hin. rewrite fresh_spec in Hf. specialize (Hf _ Hin). rewrite prefixb_pre in Hf. discriminate.
Qed.

Lemma lookup_app a b n : lookup (a ++ b) n = match lookup a n with Some v => Some v | None => lookup b n end.
Proof. induction a as [|[k v] a IH]; simpl; [reflexivity|]. destruct (str_eqb k n); [reflexivity|exact IH]. Qed.

Lemma lookup_none d n : ~ In n (names d) -> lookup d n = None.
Proof.
  induction d as [|[k v] d IH]; simpl; intros H; [reflexivity|].
  destruct (str_eqb k n) eqn:E; [apply str_eqb_eq in E; exfalso; apply H; left; exact E|].
  apply IH. intros Hin. apply H. right. exact Hin.
Qed.

Lemma lookup_some d n : In n (names d) -> exists v, lookup d n = Some v.
Proof.
  induction d as [|[k v] d IH]; simpl; intros H; [destruct H|].
  destruct (str_eqb k n) eqn:E; [eauto|]. destruct H as [H|H]; [subst; rewrite str_eqb_refl in E; discriminate|]. apply IH, H.
Qed.

Lemma lookup_ren p d n : lookup (map (ren p) d) (pre p n) = lookup d n.
Proof.
  induction d as [|[k v] d IH]; simpl; [reflexivity|].
  destruct (str_eqb k n) eqn:E.
  - apply str_eqb_eq in E. subst. rewrite str_eqb_refl. reflexivity.
  - destruct (str_eqb (pre p k) (pre p n)) eqn:E2; [|exact IH].
    apply str_eqb_eq in E2. apply pre_inj in E2. subst. rewrite str_eqb_refl in E. discriminate.
Qed.

(* the two facts about the new bindings everything else rests on *)
Lemma asg_rule_side p dr df asgd n : In n (names dr) ->
  asg_of (dr ++ map (ren p) df) asgd n = asg_of dr asgd n.
Proof.
  intros H. unfold asg_of. rewrite lookup_app. destruct (lookup_some _ _ H) as [v ->]. reflexivity.
Qed.

Lemma asg_filter_side p dr df asgd n : fresh p dr = true ->
  asg_of (dr ++ map (ren p) df) asgd (pre p n) = asg_of df asgd n.
Proof.
  intros Hf. unfold asg_of. rewrite lookup_app, lookup_none, lookup_ren; [reflexivity|].
  intros Hin. rewrite fresh_spec in Hf. specialize (Hf _ Hin). rewrite prefixb_pre in Hf. discriminate.
Qed.

(* ====================== meaning of the two halves over the new detection map ====================== *)
Lemma sel_names_app a b pat : sel_names (a ++ b) pat = sel_names a pat ++ sel_names b pat.
Proof. unfold sel_names. apply filter_app. Qed.

Lemma filter_none {A} (f : A -> bool) l : (forall x, In x l -> f x = false) -> filter f l = [].
Proof. induction l as [|x l IH]; simpl; intros H; [reflexivity|]. rewrite (H x) by (left; reflexivity). apply IH. intros y Hy. apply H. right. exact Hy. Qed.

Lemma filter_map_comm {A B} (g : B -> bool) (h : A -> B) l : filter g (map h l) = map h (filter (fun x => g (h x)) l).
Proof. induction l as [|x l IH]; simpl; [reflexivity|]. destruct (g (h x)); simpl; rewrite IH; reflexivity. Qed.

Lemma filter_ext_in' {A} (f g : A -> bool) l : (forall x, In x l -> f x = g x) -> filter f l = filter g l.
Proof. induction l as [|x l IH]; simpl; intros H; [reflexivity|]. rewrite (H x) by (left; reflexivity). rewrite IH; [reflexivity|]. intros y Hy. apply H. right. exact Hy. Qed.

Lemma forallb_ext_in {A} (f g : A -> bool) l : (forall x, In x l -> f x = g x) -> forallb f l = forallb g l.
Proof. induction l as [|x l IH]; simpl; intros H; [reflexivity|]. rewrite (H x) by (left; reflexivity). rewrite IH; [reflexivity|]. intros y Hy. apply H. right. exact Hy. Qed.
Lemma existsb_ext_in {A} (f g : A -> bool) l : (forall x, In x l -> f x = g x) -> existsb f l = existsb g l.
Proof. induction l as [|x l IH]; simpl; intros H; [reflexivity|]. rewrite (H x) by (left; reflexivity). rewrite IH; [reflexivity|]. intros y Hy. apply H. right. exact Hy. Qed.
Lemma forallb_map' {A B} (f : B -> bool) (h : A -> B) l : forallb f (map h l) = forallb (fun x => f (h x)) l.
Proof. induction l; simpl; congruence. Qed.
Lemma existsb_map' {A B} (f : B -> bool) (h : A -> B) l : existsb f (map h l) = existsb (fun x => f (h x)) l.
Proof. induction l; simpl; congruence. Qed.

Lemma mem_In_str n l : existsb (str_eqb n) l = true <-> In n l.
Proof.
  rewrite existsb_exists. split.
  - intros [x [Hx E]]. apply str_eqb_eq in E. subst. exact Hx.
  - intros H. exists n. split; [exact H|apply str_eqb_refl].
Qed.

(* no pattern of the rule's condition selects a renamed filter detection *)
Definition clean (p : str) (nf : list str) (e : expr) : bool :=
  forallb (fun pat => forallb (fun n => negb (selected pat (pre p n))) nf) (patterns_of e).

Section Meaning.
  Variable p : str.
  Hypothesis Hp : wf_prefix p = true.
  Variables nr nf : list str.            (* names of the rule's / the filter's detections *)
  Variables asg' asg_r asg_f : str -> bool.
  Hypothesis A1 : forall n, In n nr -> asg' n = asg_r n.
  Hypothesis A2 : forall n, asg' (pre p n) = asg_f n.
  Hypothesis Hfresh : forall n, In n nr -> prefixb p n = false.
  Hypothesis Hus : forall n, In n nf -> us n = false.

  Let n' := nr ++ map (pre p) nf.

  Lemma sel_rule_side pat : forallb (fun n => negb (selected pat (pre p n))) nf = true ->
    sel_names n' pat = sel_names nr pat.
  Proof.
    intros H. unfold n'. rewrite sel_names_app. unfold sel_names at 2. rewrite filter_none, app_nil_r; [reflexivity|].
    intros x Hx. apply in_map_iff in Hx. destruct Hx as [n [<- Hn]]. rewrite forallb_forall in H.
    apply negb_true_iff. apply H. exact Hn.
  Qed.

  Lemma sel_filter_side pat : sel_names n' (rn_pat p pat) = map (pre p) (sel_names nf pat).
  Proof.
    unfold n'. rewrite sel_names_app. unfold sel_names at 1. rewrite filter_none.
    - simpl. unfold sel_names. rewrite filter_map_comm. f_equal. apply filter_ext_in'.
      intros n Hn. apply selected_rn; [exact Hp | apply Hus, Hn].
    - intros m Hm. destruct (selected (rn_pat p pat) m) eqn:E; [|reflexivity].
      apply selected_rn_prefix in E; [|exact Hp]. rewrite (Hfresh _ Hm) in E. discriminate.
  Qed.

  Lemma sem_rule_side e : defined nr e = true -> clean p nf e = true -> sem n' asg' e = sem nr asg_r e.
  Proof.
    unfold sem, defined, clean.
    induction e as [n|q pat|a IH|a IHa b IHb|a IHa b IHb]; simpl; intros Hd Hc.
    - rewrite andb_true_r in Hd. apply A1. apply mem_In_str. exact Hd.
    - rewrite andb_true_r in Hc. unfold sel_val. rewrite (sel_rule_side _ Hc).
      assert (E : forall x, In x (sel_names nr pat) -> asg' x = asg_r x).
      { intros x Hx. apply A1. unfold sel_names in Hx. apply filter_In in Hx. apply Hx. }
      destruct q; [apply existsb_ext_in | apply existsb_ext_in | apply forallb_ext_in]; exact E.
    - rewrite IH by assumption. reflexivity.
    - rewrite forallb_app in Hd, Hc. apply andb_true_iff in Hd. apply andb_true_iff in Hc.
      destruct Hd, Hc. rewrite IHa, IHb by assumption. reflexivity.
    - rewrite forallb_app in Hd, Hc. apply andb_true_iff in Hd. apply andb_true_iff in Hc.
      destruct Hd, Hc. rewrite IHa, IHb by assumption. reflexivity.
  Qed.

  Lemma sem_filter_side e : sem n' asg' (rename p e) = sem nf asg_f e.
  Proof.
    unfold sem.
    induction e as [n|q pat|a IH|a IHa b IHb|a IHa b IHb]; simpl.
    - apply A2.
    - unfold sel_val. rewrite sel_filter_side.
      destruct q; rewrite ?existsb_map', ?forallb_map';
        [apply existsb_ext_in | apply existsb_ext_in | apply forallb_ext_in]; intros x _; apply A2.
    - rewrite IH. reflexivity.
    - rewrite IHa, IHb. reflexivity.
    - rewrite IHa, IHb. reflexivity.
  Qed.

  Lemma defined_new e ef : defined nr e = true -> defined nf ef = true -> defined n' (EAnd e (rename p ef)) = true.
  Proof.
    unfold defined. simpl. rewrite forallb_app, names_rename, !forallb_forall. intros H1 H2.
    apply andb_true_iff. split; apply forallb_forall.
    - intros n Hn. apply mem_In_str. unfold n'. apply in_or_app. left. apply mem_In_str. apply H1, Hn.
    - intros n Hn. apply in_map_iff in Hn. destruct Hn as [m [<- Hm]].
      apply mem_In_str. unfold n'. apply in_or_app. right. apply in_map. apply mem_In_str. apply H2, Hm.
  Qed.

  Lemma inhabited_new e ef : inhabited nr e = true -> inhabited nf ef = true -> inhabited n' (EAnd e (rename p ef)) = true.
  Proof.
    unfold inhabited. simpl. rewrite forallb_app, patterns_rename, !forallb_forall. intros H1 H2.
    apply andb_true_iff. split; apply forallb_forall.
    - intros pat Hpat. specialize (H1 _ Hpat). unfold n'. rewrite sel_names_app.
      destruct (sel_names nr pat); [discriminate|reflexivity].
    - intros pat' Hpat. apply in_map_iff in Hpat. destruct Hpat as [pat [<- Hpat]].
      specialize (H2 _ Hpat). rewrite sel_filter_side. destruct (sel_names nf pat); [discriminate|reflexivity].
  Qed.
End Meaning.

(* ====================== end to end ====================== *)
(* C02 (copied: Proofs/FCondP.v meaning): a condition that spells a well-formed expression whose
   names are defined and whose selectors are inhabited loads, and evaluates to the expression *)
Lemma cond_value_meaning d s e asgd :
  wf_expr e = true -> Spells s e -> defined (names d) e = true -> inhabited (names d) e = true ->
  cond_value d s asgd = Some (sem (names d) (asg_of d asgd) e).
Proof.
  intros Hw HS Hd Hi. destruct (meaning e s (names d) Hw HS Hd Hi) as [t [c [Ht [Hc Hev]]]].
  unfold cond_value, cond_tree, run_post. rewrite Ht. simpl. rewrite Hc. apply Hev.
Qed.

Lemma spells_new_cond p c e fc ef :
  forallb is_wordc p = true -> Spells c e -> Spells fc ef -> plain ef = true ->
  Spells (new_cond c (rewrite p fc)) (EAnd e (rename p ef)).
Proof.
  intros Hp [tc [Lc Sc]] [tf [Lf Sf]] Hpl.
  exists (TL :: tc ++ TR :: TW w_and :: TL :: map (rw_tok p) tf ++ [TR]). split.
  - apply new_cond_lay; [exact Lc|]. apply rw_lay; assumption.
  - apply (sp_up 2).
    replace (TL :: tc ++ TR :: TW w_and :: TL :: map (rw_tok p) tf ++ [TR])
      with ((TL :: tc ++ [TR]) ++ TW w_and :: (TL :: map (rw_tok p) tf ++ [TR]))
      by (simpl; rewrite <- app_assoc; reflexivity).
    apply sp_and.
    + apply (sp_up 1), (sp_up 0). apply sp_par. exact Sc.
    + apply (sp_up 0). apply sp_par. apply spells_rename; assumption.
Qed.

Definition is_lowerc (c : char) : bool := (97 <=? c) && (c <=? 122).
Definition lower_draw (d : str) : bool := forallb is_lowerc d.     (* what random.choices(ascii_lowercase, k) returns *)

Lemma lowerc_pfxc c : is_lowerc c = true -> is_pfxc c = true.
Proof. unfold is_lowerc, is_pfxc, is_alnum. intros ->. rewrite !orb_true_r. reflexivity. Qed.

Lemma wf_prefix_of d : lower_draw d = true -> wf_prefix (prefix_of d) = true.
Proof.
  intros H. unfold wf_prefix, prefix_of. apply andb_true_iff. split; [|reflexivity].
  rewrite forallb_app. apply andb_true_iff. split; [reflexivity|].
  revert H. apply forallb_impl. exact lowerc_pfxc.
Qed.

Lemma pick_spec draws d p rest : pick draws d = Some (p, rest) ->
  exists x, In x draws /\ p = prefix_of x /\ fresh p d = true.
Proof.
  induction draws as [|x draws IH]; simpl; [discriminate|].
  destruct (fresh (prefix_of x) d) eqn:E.
  - intros H. inversion H; subst. exists x. auto.
  - intros H. destruct (IH H) as [y [Hy R]]. exists y. split; [right; exact Hy|exact R].
Qed.

Lemma Forall2_map_self {A B} (P : A -> B -> Prop) (g : A -> B) l : Forall (fun c => P c (g c)) l -> Forall2 P l (map g l).
Proof. induction 1; simpl; constructor; assumption. Qed.

(* what is asked of a condition of the rule / of the filter: it is a spelling (any blanks, any
   redundant parentheses) of a well-formed expression whose names are detections of its own side and
   whose selectors select something *)
Definition reads (d : dets) (c : str) (e : expr) : Prop :=
  Spells c e /\ wf_expr e = true /\ defined (names d) e = true /\ inhabited (names d) e = true.

Theorem meaning_with p f r ef :
  wf_prefix p = true -> fresh p (r_dets r) = true -> NoDup (names (f_dets f)) ->
  reads (f_dets f) (f_cond f) ef -> plain ef = true ->
  (forall n, In n (names (f_dets f)) -> us n = false) ->
  Forall (fun c => exists e, reads (r_dets r) c e /\ clean p (names (f_dets f)) e = true) (r_conds r) ->
  r_dets (apply_with p f r) = r_dets r ++ map (ren p) (f_dets f) /\ narrowed r f (apply_with p f r).
Proof.
  intros Hp Hf Hnd [HSf [Hwf [Hdf Hif]]] Hpl Hus Hr.
  assert (D : r_dets (apply_with p f r) = r_dets r ++ map (ren p) (f_dets f)).
  { unfold apply_with. simpl. apply add_dets_fresh; assumption. }
  split; [exact D|].
  unfold narrowed. unfold apply_with at 2. cbn [r_conds with_detection]. apply Forall2_map_self.
  rewrite D. revert Hr. apply Forall_impl. intros c [e [[HS [Hw [Hd Hi]]] Hc]] asgd.
  exists (sem (names (r_dets r)) (asg_of (r_dets r) asgd) e),
         (sem (names (f_dets f)) (asg_of (f_dets f) asgd) ef).
  split; [apply cond_value_meaning; assumption|]. split; [apply cond_value_meaning; assumption|].
  assert (Hfr : forall n, In n (names (r_dets r)) -> prefixb p n = false) by (apply fresh_spec; exact Hf).
  rewrite (cond_value_meaning _ _ (EAnd e (rename p ef))).
  - f_equal. rewrite names_app, names_ren. unfold sem. simpl. f_equal.
    + apply (sem_rule_side p (names (r_dets r)) (names (f_dets f))); try assumption.
      intros n Hn. apply asg_rule_side. exact Hn.
    + apply (sem_filter_side p Hp (names (r_dets r)) (names (f_dets f))); try assumption.
      intros n. apply asg_filter_side. exact Hf.
  - simpl. rewrite Hw. apply wf_rename; assumption.
  - apply spells_new_cond; try assumption. apply wf_prefix_words. exact Hp.
  - rewrite names_app, names_ren. apply defined_new; assumption.
  - rewrite names_app, names_ren. apply inhabited_new; assumption.
Qed.

(* patterns that do not begin with '_' never select a renamed filter detection *)
Definition no_us_patterns (e : expr) : bool := forallb (fun pat => negb (us pat)) (patterns_of e).

Lemma clean_no_us p nf e : us p = true -> no_us_patterns e = true -> clean p nf e = true.
Proof.
  intros Hu. unfold clean, no_us_patterns. apply forallb_impl. intros pat Hpat.
  apply forallb_forall. intros n _. apply negb_true_iff. unfold selected. rewrite (us_pre p n Hu).
  apply negb_true_iff in Hpat. rewrite Hpat. apply andb_false_r.
Qed.

(* the statement for apply_on_rule: every draw sequence, every drawn prefix *)
Theorem meaning_main draws f r ef r' rest :
  should_apply f r = true ->
  Forall (fun d => lower_draw d = true) draws ->
  NoDup (names (f_dets f)) ->
  reads (f_dets f) (f_cond f) ef -> plain ef = true ->
  (forall n, In n (names (f_dets f)) -> us n = false) ->
  Forall (fun c => exists e, reads (r_dets r) c e /\ no_us_patterns e = true) (r_conds r) ->
  apply_on_rule draws f r = Some (r', rest) ->
  (exists p, r_dets r' = r_dets r ++ map (ren p) (f_dets f)) /\ narrowed r f r'.
Proof.
  intros Ha Hdr Hnd Hrf Hpl Hus Hr. unfold apply_on_rule. rewrite Ha.
  destruct (pick draws (r_dets r)) as [[p rest']|] eqn:P; [|discriminate].
  intros H. inversion H; subst. destruct (pick_spec _ _ _ _ P) as [x [Hx [-> Hf]]].
  rewrite Forall_forall in Hdr. pose proof (wf_prefix_of x (Hdr x Hx)) as Hp.
  destruct (meaning_with (prefix_of x) f r ef Hp Hf Hnd Hrf Hpl Hus) as [D N].
  - revert Hr. apply Forall_impl. intros c [e [R C]]. exists e. split; [exact R|].
    apply clean_no_us; [reflexivity | exact C].
  - split; [exists (prefix_of x); exact D | exact N].
Qed.

(* ====================== refutations outside the premises (witnesses replayed on the real code) ====================== *)
Definition ls_a : logsource := {| ls_cat := Some [97]; ls_prod := None; ls_serv := None; ls_def := None |}.
Definition mk_rule (d : dets) (c : str) : rule :=
  {| r_kind := KDetection; r_id := None; r_name := None; r_ls := ls_a; r_dets := d; r_conds := [c] |}.
Definition mk_filter (d : dets) (c : str) : sfilter := {| f_ls := ls_a; f_rules := FAny; f_dets := d; f_cond := c |}.
Definition draw_a : str := repeat 97 10.                               (* "aaaaaaaaaa" *)
Definition n_sel : str := [115;101;108].                               (* sel *)
Definition n_flt : str := [102;108;116].                               (* flt *)
Definition s_not_flt : str := [110;111;116;32;102;108;116].            (* not flt *)

Lemma not_narrowed_by_value r f r' c c' asgd x y z :
  r_conds r = [c] -> r_conds r' = [c'] ->
  cond_value (r_dets r) c asgd = Some x -> cond_value (f_dets f) (f_cond f) asgd = Some y ->
  cond_value (r_dets r') c' asgd = Some z -> z <> (x && y) -> ~ narrowed r f r'.
Proof.
  intros Hc Hc' Hx Hy Hz Hne N. unfold narrowed in N. rewrite Hc, Hc' in N.
  inversion N as [|? ? ? ? H _]; subst. destruct (H asgd) as [x' [y' [E1 [E2 E3]]]].
  rewrite Hx in E1. rewrite Hy in E2. rewrite Hz in E3. inversion E1; inversion E2; inversion E3; subst. apply Hne. reflexivity.
Qed.

(* D15: rule  _s: ...  condition "not 1 of _*";  filter  flt: ...  condition "flt"
   (applied: not (_s or flt) and flt, which is never true) *)
Definition w15_rule := mk_rule [([95;115], 0)] [110;111;116;32;49;32;111;102;32;95;42].
Definition w15_filter := mk_filter [(n_flt, 1)] n_flt.
Theorem underscore_capture_refuted :
  exists draws f r r' rest, should_apply f r = true /\ apply_on_rule draws f r = Some (r', rest) /\ ~ narrowed r f r'.
Proof.
  exists [draw_a], w15_filter, w15_rule.
  destruct (apply_on_rule [draw_a] w15_filter w15_rule) as [[r' rest]|] eqn:E; [|vm_compute in E; discriminate].
  exists r', rest. split; [reflexivity|]. split; [reflexivity|].
  vm_compute in E. inversion E; subst r' rest. clear E.
  eapply (not_narrowed_by_value _ _ _ _ _ (fun d => d =? 1) true true false); try reflexivity. discriminate.
Qed.

(* keyword-named filter detection: rule  sel, Not  condition "sel";  filter  Not  condition "Not" *)
Definition n_Not : str := [78;111;116].
Definition wkw_rule := mk_rule [(n_sel, 0); (n_Not, 1)] n_sel.
Definition wkw_filter := mk_filter [(n_Not, 2)] n_Not.
Theorem keyword_name_refuted :
  exists draws f r r' rest, should_apply f r = true /\ apply_on_rule draws f r = Some (r', rest) /\ ~ narrowed r f r'.
Proof.
  exists [draw_a], wkw_filter, wkw_rule.
  destruct (apply_on_rule [draw_a] wkw_filter wkw_rule) as [[r' rest]|] eqn:E; [|vm_compute in E; discriminate].
  exists r', rest. split; [reflexivity|]. split; [reflexivity|].
  vm_compute in E. inversion E; subst r' rest. clear E.
  eapply (not_narrowed_by_value _ _ _ _ _ (fun d => negb (d =? 2)) true false true); try reflexivity. discriminate.
Qed.

(* filter detection beginning with '_': rule sel "sel"; filter _u, v  condition "not 1 of them" *)
Definition wus_rule := mk_rule [(n_sel, 0)] n_sel.
Definition wus_filter := mk_filter [([95;117], 1); ([118], 2)] [110;111;116;32;49;32;111;102;32;116;104;101;109].
Theorem underscore_filter_name_refuted :
  exists draws f r r' rest, should_apply f r = true /\ apply_on_rule draws f r = Some (r', rest) /\ ~ narrowed r f r'.
Proof.
  exists [draw_a], wus_filter, wus_rule.
  destruct (apply_on_rule [draw_a] wus_filter wus_rule) as [[r' rest]|] eqn:E; [|vm_compute in E; discriminate].
  exists r', rest. split; [reflexivity|]. split; [reflexivity|].
  vm_compute in E. inversion E; subst r' rest. clear E.
  eapply (not_narrowed_by_value _ _ _ _ _ (fun d => negb (d =? 2)) true true false); try reflexivity. discriminate.
Qed.

(* unbalanced rule condition "a) or (b": does not load alone, loads once the filter is applied *)
Definition wub_rule := mk_rule [([97], 0); ([98], 1)] [97;41;32;111;114;32;40;98].
Theorem unbalanced_refuted :
  exists draws f r r' rest c c', should_apply f r = true /\ apply_on_rule draws f r = Some (r', rest) /\
    r_conds r = [c] /\ r_conds r' = [c'] /\
    (forall asgd, cond_value (r_dets r) c asgd = None) /\
    (forall asgd, exists z, cond_value (r_dets r') c' asgd = Some z).
Proof.
  exists [draw_a], wus_filter, wub_rule.
  destruct (apply_on_rule [draw_a] wus_filter wub_rule) as [[r' rest]|] eqn:E; [|vm_compute in E; discriminate].
  vm_compute in E. inversion E; subst r' rest. clear E.
  do 2 eexists. exists [97;41;32;111;114;32;40;98]. eexists.
  split; [reflexivity|]. split; [reflexivity|]. split; [reflexivity|]. split; [reflexivity|]. split.
  - intros asgd. reflexivity.
  - intros asgd. eexists. vm_compute. reflexivity.
Qed.

(* ====================== the premises are inhabited (overlapping names on both sides) ====================== *)
Definition ex_rule : rule :=     (* sel, flt ;  " sel or 1 of fl*" *)
  mk_rule [(n_sel, 0); (n_flt, 1)] (render [TW n_sel; TW w_or; TW w_1; TW w_of; TW [102;108;42]]).
Definition ex_filter : sfilter := (* flt, sel ;  " not 1 of them" *)
  mk_filter [(n_flt, 2); (n_sel, 3)] (render [TW w_not; TW w_1; TW w_of; TW w_them]).
Definition ex_e : expr := EOr (EId n_sel) (ESel Q1 [102;108;42]).
Definition ex_ef : expr := ENot (ESel Q1 w_them).

Lemma ex_reads_rule : reads (r_dets ex_rule) (render [TW n_sel; TW w_or; TW w_1; TW w_of; TW [102;108;42]]) ex_e.
Proof.
  split; [|repeat split; reflexivity].
  eexists. split; [apply render_lay; repeat constructor; discriminate|].
  apply (sp_or [TW n_sel] [TW w_1; TW w_of; TW [102;108;42]]).
  - apply (sp_up 2), (sp_up 1), (sp_up 0), sp_id.
  - apply (sp_up 1), (sp_up 0). apply (sp_sel Q1).
Qed.

Lemma ex_reads_filter : reads (f_dets ex_filter) (f_cond ex_filter) ex_ef.
Proof.
  split; [|repeat split; reflexivity].
  eexists. split; [apply render_lay; repeat constructor; discriminate|].
  apply (sp_up 2), (sp_up 1). apply (sp_not [TW w_1; TW w_of; TW w_them]). apply (sp_up 0). apply (sp_sel Q1).
Qed.

Theorem premises_inhabited :
  should_apply ex_filter ex_rule = true /\
  Forall (fun d => lower_draw d = true) [draw_a] /\
  NoDup (names (f_dets ex_filter)) /\
  reads (f_dets ex_filter) (f_cond ex_filter) ex_ef /\ plain ex_ef = true /\
  (forall n, In n (names (f_dets ex_filter)) -> us n = false) /\
  Forall (fun c => exists e, reads (r_dets ex_rule) c e /\ no_us_patterns e = true) (r_conds ex_rule) /\
  exists r' rest, apply_on_rule [draw_a] ex_filter ex_rule = Some (r', rest).
Proof.
  split; [reflexivity|]. split; [repeat constructor|]. split.
  { repeat constructor; simpl; intuition discriminate. }
  split; [exact ex_reads_filter|]. split; [reflexivity|]. split.
  { intros n [<-|[<-|[]]]; reflexivity. }
  split.
  { constructor; [|constructor]. exists ex_e. split; [exact ex_reads_rule|reflexivity]. }
  eexists _, _. vm_compute. reflexivity.
Qed.
