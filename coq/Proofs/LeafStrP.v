(* C05 through the backend: the complete leaf renderer on a string value, read back by the target language *)
From Coq Require Import NArith List Bool.
From PS Require Import Base.Chars Base.Outcome Model.SString Model.StrOp Model.FieldName Model.Leaf Spec.Items Spec.Atom Proofs.LeafP.
Import ListNotations.

Lemma accepted_is_string neg f cased sv a :
  acceptb neg f (LStr cased sv) a = true -> exists c op l, a_pred a = AStr c op l.
Proof.
  unfold acceptb. intros H. apply andb_true_iff in H. destruct H as [H _].
  apply andb_true_iff in H. destruct H as [_ H].
  destruct (a_pred a) eqn:E; cbn [pred_ok] in H; try discriminate. eauto.
Qed.

Theorem backend_string_leaf extra k neg f fo pm cased sv txt :
  wok extra = true -> k_qpat k = None ->
  fo_ok (W_of extra) f fo = true -> val_ok (W_of extra) f (LStr cased sv) = true ->
  render_leaf (vb k) neg f fo pm (LStr cased sv) = Ok txt ->
  exists a c op l, atom_decode (W_of extra) txt = Some a /\ a_pred a = AStr c op l /\
    a_field a = f /\ c = cased /\
    forall subj, wild_match (apattern op l) subj = wild_match (items sv) subj.
Proof.
  intros Hw Hq Hfo Hv Hr.
  destruct (leaf_faithful (W_of extra) (Wspec_W_of extra Hw) k Hq neg f fo pm _ txt Hfo Hv Hr) as [a [Hd [Ha | [_ Hr']]]].
  - destruct (accepted_is_string _ _ _ _ _ Ha) as [c [op [l Hp]]].
    destruct (accepted_string_meaning _ _ _ _ _ _ _ _ Ha Hp) as [H1 [H2 [_ H4]]].
    exists a, c, op, l. auto.
  - destruct (leaf_faithful (W_of extra) (Wspec_W_of extra Hw) k Hq false f fo pm _ txt Hfo Hv Hr') as [a' [Hd' [Ha | [Hn _]]]]; [|discriminate].
    destruct (accepted_is_string _ _ _ _ _ Ha) as [c [op [l Hp]]].
    destruct (accepted_string_meaning _ _ _ _ _ _ _ _ Ha Hp) as [H1 [H2 [_ H4]]].
    exists a', c, op, l. auto.
Qed.
