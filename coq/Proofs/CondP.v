(* C02 - postprocessing: on a parse tree whose names are defined and whose selectors select
   something, the postprocessed condition tree has the meaning of the parse tree. Together with
   Proofs/CondParseP.v: end-to-end meaning of a spelled condition. *)
From Coq Require Import NArith List Bool Arith Lia.
From PS Require Import Base.Chars Base.Outcome Model.CondParse Model.Cond Spec.Glob Spec.CondGrammar
                       Proofs.GlobP Proofs.CondParseP.
Import ListNotations.
Open Scope N_scope.

(* syntactic observations of a parse tree, as folds (so that Proofs.CondParseP.parse_complete_fold
   transfers them from the expression) *)
Definition cat (_ : bop) (l : list (list str)) : list str := concat l.
Definition app2 (_ : bop) (a b : list str) : list str := a ++ b.
Definition tnames : ptree -> list str := foldt (fun n => [n]) (fun _ _ => []) (fun x => x) cat.
Definition tpats : ptree -> list str := foldt (fun _ => []) (fun _ p => [p]) (fun x => x) cat.
Definition ne_and (_ : bop) (l : list bool) : bool := nonempty l && forallb (fun b => b) l.
Definition and2 (_ : bop) (a b : bool) : bool := a && b.
Definition tne : ptree -> bool := foldt (fun _ => true) (fun _ _ => true) (fun x => x) ne_and.

Lemma lawful_cat : lawful cat app2.
Proof.
  split; unfold cat, app2.
  - intros _ x. simpl. apply app_nil_r.
  - intros _ l v _. rewrite concat_app. simpl. rewrite app_nil_r. reflexivity.
Qed.

Lemma lawful_ne : lawful ne_and and2.
Proof.
  split; unfold ne_and, and2.
  - intros _ x. simpl. apply andb_true_r.
  - intros _ l v Hl. rewrite forallb_app. simpl. rewrite andb_true_r.
    destruct l; [congruence|]. reflexivity.
Qed.

Lemma folde_names e : folde (fun n => [n]) (fun _ _ => []) (fun x => x) app2 e = names_of e.
Proof. induction e; simpl; try reflexivity; try assumption; rewrite IHe1, IHe2; reflexivity. Qed.
Lemma folde_pats e : folde (fun _ => []) (fun _ p => [p]) (fun x => x) app2 e = patterns_of e.
Proof. induction e; simpl; try reflexivity; try assumption; rewrite IHe1, IHe2; reflexivity. Qed.
Lemma folde_ne e : folde (fun _ => true) (fun _ _ => true) (fun x => x) and2 e = true.
Proof. induction e; simpl; try reflexivity; try assumption; rewrite IHe1, IHe2; reflexivity. Qed.

(* ---------- evaluation of argument lists ---------- *)
Lemma ceval_bin asg o l :
  ceval asg (c_bin o l) = option_map (b_bin o) (all_some (map (ceval_top asg) l)).
Proof. destruct o; reflexivity. Qed.

Lemma collapse_eval o cs : cs <> [] ->
  exists c, collapse o (map Some cs) = Some c /\
    forall asg vs, all_some (map (ceval_top asg) (map Some cs)) = Some vs -> ceval asg c = Some (b_bin o vs).
Proof.
  intros Hne. destruct cs as [|c1 [|c2 r]]; [congruence| |].
  - exists c1. split; [reflexivity|]. intros asg vs. simpl.
    destruct (ceval asg c1) as [v|]; [|discriminate]. intros E. inversion E; subst.
    rewrite (proj1 lawful_bool). reflexivity.
  - eexists. split; [reflexivity|]. intros asg vs E. rewrite ceval_bin.
    change (Some c1 :: Some c2 :: map Some r) with (map Some (c1 :: c2 :: r)). rewrite E. reflexivity.
Qed.

Definition good (dets : list str) (t : ptree) : Prop :=
  exists c, post dets t = Ok (Some c) /\ forall asg, ceval asg c = Some (den dets asg t).

Lemma post_args dets l : Forall (good dets) l ->
  exists cs, sequence (map (post dets) l) = Ok (map Some cs) /\ length cs = length l /\
    forall asg, all_some (map (ceval_top asg) (map Some cs)) = Some (map (den dets asg) l).
Proof.
  induction 1 as [|x l [c [Hp Hc]] _ [cs [Hs [Hlen Hall]]]].
  - exists []. repeat split; reflexivity.
  - exists (c :: cs). split; [|split].
    + simpl. rewrite Hp. simpl. rewrite Hs. reflexivity.
    + simpl. congruence.
    + intros asg. simpl. rewrite Hc. fold (ceval_top asg). rewrite Hall. reflexivity.
Qed.

Lemma leaves_eval asg ns :
  all_some (map (ceval_top asg) (map Some (map CLeaf ns))) = Some (map asg ns).
Proof. induction ns as [|n ns IH]; simpl; [reflexivity|]. simpl in IH. rewrite IH. reflexivity. Qed.

Lemma in_concat_map {X Y} (f : X -> list Y) l x y : In x l -> In y (f x) -> In y (concat (map f l)).
Proof. intros Hx Hy. apply in_concat. exists (f x). split; [apply in_map; exact Hx | exact Hy]. Qed.

(* ---------- postprocessing is sound on defined, inhabited trees ---------- *)
Theorem post_sound dets t :
  tne t = true ->
  (forall n, In n (tnames t) -> mem_str n dets = true) ->
  (forall p, In p (tpats t) -> sel_names dets p <> []) ->
  good dets t.
Proof.
  induction t as [n|q p|a IH|l IH|l IH] using ptree_ind'; intros Hne Hn Hp.
  - exists (CLeaf n). split; [|reflexivity]. simpl. rewrite Hn; [reflexivity|]. left. reflexivity.
  - assert (Hs : sel_names dets p <> []) by (apply Hp; left; reflexivity).
    assert (Hm : map CLeaf (sel_names dets p) <> []) by (destruct (sel_names dets p); [congruence|discriminate]).
    destruct (collapse_eval (quant_op q) _ Hm) as [c [Hc Hev]].
    exists c. split.
    + simpl. rewrite resolve_sel_names. rewrite <- (map_map CLeaf Some). rewrite Hc. reflexivity.
    + intros asg. rewrite (Hev asg _ (leaves_eval asg _)).
      unfold den. simpl. unfold sel_val. destruct q; simpl; rewrite ?forallb_map_id, ?existsb_map_id; reflexivity.
  - destruct (IH Hne Hn Hp) as [c [Hc Hev]]. exists (CNot (Some c)). split.
    + simpl. rewrite Hc. reflexivity.
    + intros asg. simpl. rewrite Hev. reflexivity.
  - assert (G : Forall (good dets) l).
    { unfold tne in Hne. simpl in Hne. unfold ne_and in Hne. apply andb_true_iff in Hne. destruct Hne as [_ Hall].
      rewrite forallb_map_id in Hall. rewrite forallb_forall in Hall.
      rewrite Forall_forall in IH |- *. intros x Hx. apply IH; auto.
      - intros n Hin. apply Hn. unfold tnames. simpl. unfold cat. eapply in_concat_map; eauto.
      - intros p Hin. apply Hp. unfold tpats. simpl. unfold cat. eapply in_concat_map; eauto. }
    destruct (post_args dets l G) as [cs [Hs [Hlen Hall]]].
    assert (Hcs : cs <> []).
    { unfold tne in Hne. simpl in Hne. unfold ne_and in Hne. apply andb_true_iff in Hne. destruct Hne as [Hl _].
      destruct l; [discriminate|]. destruct cs; [discriminate|discriminate]. }
    destruct (collapse_eval BAnd cs Hcs) as [c [Hc Hev]].
    exists c. split.
    + simpl. rewrite Hs. simpl. rewrite Hc. reflexivity.
    + intros asg. rewrite (Hev asg _ (Hall asg)). unfold den. simpl. rewrite forallb_map_id. reflexivity.
  - assert (G : Forall (good dets) l).
    { unfold tne in Hne. simpl in Hne. unfold ne_and in Hne. apply andb_true_iff in Hne. destruct Hne as [_ Hall].
      rewrite forallb_map_id in Hall. rewrite forallb_forall in Hall.
      rewrite Forall_forall in IH |- *. intros x Hx. apply IH; auto.
      - intros n Hin. apply Hn. unfold tnames. simpl. unfold cat. eapply in_concat_map; eauto.
      - intros p Hin. apply Hp. unfold tpats. simpl. unfold cat. eapply in_concat_map; eauto. }
    destruct (post_args dets l G) as [cs [Hs [Hlen Hall]]].
    assert (Hcs : cs <> []).
    { unfold tne in Hne. simpl in Hne. unfold ne_and in Hne. apply andb_true_iff in Hne. destruct Hne as [Hl _].
      destruct l; [discriminate|]. destruct cs; [discriminate|discriminate]. }
    destruct (collapse_eval BOr cs Hcs) as [c [Hc Hev]].
    exists c. split.
    + simpl. rewrite Hs. simpl. rewrite Hc. reflexivity.
    + intros asg. rewrite (Hev asg _ (Hall asg)). unfold den. simpl. rewrite existsb_map_id. reflexivity.
Qed.

(* ---------- end to end ---------- *)
Theorem meaning e s dets :
  wf_expr e = true -> Spells s e -> defined dets e = true -> inhabited dets e = true ->
  exists t c, parse s = Ok t /\ post dets t = Ok (Some c) /\
              forall asg, ceval asg c = Some (sem dets asg e).
Proof.
  intros Hw HS Hd Hi. destruct (parse_complete_fold e s Hw HS) as [t [Ht Hf]].
  assert (G : good dets t).
  { apply post_sound.
    - unfold tne. rewrite (Hf _ _ _ _ _ and2 lawful_ne). apply folde_ne.
    - intros n Hin. unfold tnames in Hin. rewrite (Hf _ _ _ _ _ app2 lawful_cat), folde_names in Hin.
      unfold defined in Hd. rewrite forallb_forall in Hd. apply Hd. exact Hin.
    - intros p Hin. unfold tpats in Hin. rewrite (Hf _ _ _ _ _ app2 lawful_cat), folde_pats in Hin.
      unfold inhabited in Hi. rewrite forallb_forall in Hi. specialize (Hi p Hin).
      destruct (sel_names dets p); [discriminate|discriminate]. }
  destruct G as [c [Hc Hev]]. exists t, c. split; [exact Ht|]. split; [exact Hc|].
  intros asg. rewrite Hev. f_equal. unfold den, sem.
  rewrite denv_foldt, semv_folde. apply Hf. exact lawful_bool.
Qed.

(* ---------- undefined names are reported, never silently dropped ---------- *)
Definition cond_or_ok {X} (x : outcome X) : Prop := (exists c, x = Ok c) \/ x = SigmaErr E_Condition.

Lemma seq_cases {X} (l : list (outcome X)) : Forall cond_or_ok l -> cond_or_ok (sequence l).
Proof.
  induction 1 as [|x l Hx _ IH]; simpl.
  - left. eexists. reflexivity.
  - destruct Hx as [[c ->]| ->]; simpl; [|right; reflexivity].
    destruct IH as [[cs ->]| ->]; simpl; [left; eexists; reflexivity | right; reflexivity].
Qed.

Lemma seq_err {X} (l : list (outcome X)) :
  Forall cond_or_ok l -> Exists (fun x => x = SigmaErr E_Condition) l -> sequence l = SigmaErr E_Condition.
Proof.
  induction 1 as [|x l Hx Hl IH]; intros He; inversion He; subst; simpl.
  - reflexivity.
  - destruct Hx as [[c ->]| ->]; simpl; [|reflexivity]. rewrite IH by assumption. reflexivity.
Qed.

Lemma post_cases dets t : cond_or_ok (post dets t).
Proof.
  induction t as [n|q p|a IH|l IH|l IH] using ptree_ind'; simpl.
  - destruct (mem_str n dets); [left; eexists; reflexivity | right; reflexivity].
  - left. eexists. reflexivity.
  - destruct IH as [[c ->]| ->]; simpl; [left; eexists; reflexivity | right; reflexivity].
  - assert (F : Forall cond_or_ok (map (post dets) l)) by (apply Forall_map; exact IH).
    destruct (seq_cases _ F) as [[cs ->]| ->]; simpl; [left; eexists; reflexivity | right; reflexivity].
  - assert (F : Forall cond_or_ok (map (post dets) l)) by (apply Forall_map; exact IH).
    destruct (seq_cases _ F) as [[cs ->]| ->]; simpl; [left; eexists; reflexivity | right; reflexivity].
Qed.

Theorem post_undefined dets t :
  (exists n, In n (tnames t) /\ mem_str n dets = false) -> post dets t = SigmaErr E_Condition.
Proof.
  induction t as [n|q p|a IH|l IH|l IH] using ptree_ind'; intros [n0 [Hin Hm]].
  - simpl in Hin. destruct Hin as [<-|[]]. simpl. rewrite Hm. reflexivity.
  - destruct Hin.
  - simpl. rewrite IH; [reflexivity|]. exists n0. auto.
  - unfold tnames in Hin. simpl in Hin. unfold cat in Hin. apply in_concat in Hin.
    destruct Hin as [ns [Hns Hn0]]. apply in_map_iff in Hns. destruct Hns as [x [<- Hx]].
    simpl. rewrite seq_err; [reflexivity | |].
    + apply Forall_map. apply Forall_forall. intros y _. apply post_cases.
    + apply Exists_exists. exists (post dets x). split; [apply in_map; exact Hx|].
      rewrite Forall_forall in IH. apply IH; [exact Hx|]. exists n0. auto.
  - unfold tnames in Hin. simpl in Hin. unfold cat in Hin. apply in_concat in Hin.
    destruct Hin as [ns [Hns Hn0]]. apply in_map_iff in Hns. destruct Hns as [x [<- Hx]].
    simpl. rewrite seq_err; [reflexivity | |].
    + apply Forall_map. apply Forall_forall. intros y _. apply post_cases.
    + apply Exists_exists. exists (post dets x). split; [apply in_map; exact Hx|].
      rewrite Forall_forall in IH. apply IH; [exact Hx|]. exists n0. auto.
Qed.

Theorem undefined_reported e s dets :
  wf_expr e = true -> Spells s e -> defined dets e = false ->
  exists t, parse s = Ok t /\ post dets t = SigmaErr E_Condition.
Proof.
  intros Hw HS Hd. destruct (parse_complete_fold e s Hw HS) as [t [Ht Hf]].
  exists t. split; [exact Ht|]. apply post_undefined.
  unfold defined in Hd.
  assert (E : exists n, In n (names_of e) /\ existsb (str_eqb n) dets = false).
  { induction (names_of e) as [|n l IH]; [discriminate|]. simpl in Hd.
    destruct (existsb (str_eqb n) dets) eqn:En.
    - destruct (IH Hd) as [n' [Hin Hn']]. exists n'. split; [right|]; assumption.
    - exists n. split; [left; reflexivity | exact En]. }
  destruct E as [n [Hin Hn]]. exists n. split; [|exact Hn].
  unfold tnames. rewrite (Hf _ _ _ _ _ app2 lawful_cat), folde_names. exact Hin.
Qed.

(* ---------- a canonical layout: every token sequence of words can be written down ---------- *)
Fixpoint render (ts : list tok) : str :=
  match ts with
  | [] => []
  | TW w :: r => c_space :: w ++ render r
  | TL :: r => c_lpar :: render r
  | TR :: r => c_rpar :: render r
  end.

Definition word_tok (t : tok) : Prop := match t with TW w => word w | _ => True end.

Lemma render_lay ts : Forall word_tok ts -> forall b, Lay b ts (render ts).
Proof.
  induction 1 as [|t ts Ht _ IH]; intros b.
  - apply (lay_nil b []). reflexivity.
  - destruct t as [w| |]; simpl.
    + apply (lay_word b [c_space] w ts (render ts)); auto; [reflexivity | discriminate].
    + apply (lay_lpar b [] ts (render ts)); [reflexivity | apply IH].
    + apply (lay_rpar b [] ts (render ts)); [reflexivity | apply IH].
Qed.

(* ---------- without the premise "every selector selects something" the statement is false ---------- *)
Definition wit_dets : list str := [[97]; [98]].
Definition wit_e : expr := EAnd (EId [97]) (ESel Q1 [120; 42]).
Definition wit_ts : list tok := [TW [97]; TW w_and; TW w_1; TW w_of; TW [120; 42]].
Definition wit_s : str := render wit_ts.          (* " a and 1 of x*" *)

Lemma wit_spells : Spells wit_s wit_e.
Proof.
  exists wit_ts. split.
  - apply render_lay. repeat constructor; try discriminate.
  - apply (sp_up 2). apply (sp_and [TW [97]] [TW w_1; TW w_of; TW [120; 42]] (EId [97]) (ESel Q1 [120; 42])).
    + apply (sp_up 1), (sp_up 0), sp_id.
    + apply (sp_up 0). exact (sp_sel Q1 [120; 42]).
Qed.

Theorem empty_selector_refuted :
  exists dets e s, wf_expr e = true /\ Spells s e /\ defined dets e = true /\
    forall c, run_post dets s = Ok c -> exists asg, ceval_top asg c <> Some (sem dets asg e).
Proof.
  exists wit_dets, wit_e, wit_s. split; [reflexivity|]. split; [exact wit_spells|]. split; [reflexivity|].
  intros c H. vm_compute in H. inversion H; subst. exists (fun _ => true). vm_compute. discriminate.
Qed.
