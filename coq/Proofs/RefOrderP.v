From Coq Require Import NArith List Bool Arith Permutation Lia.
From PS Require Import Base.Chars Base.Outcome Model.RefOrder Spec.RefOrder.
Import ListNotations.
