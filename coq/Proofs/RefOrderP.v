(* C09 - lemmas about Model.RefOrder against Spec.RefOrder. *)
From Coq Require Import NArith List Bool Arith Permutation Relations Lia.
From PS Require Import Base.Chars Base.Outcome Model.RefOrder Spec.RefOrder.
Import ListNotations.
Local Open Scope nat_scope.

(* ------------------------------------------------------------------------------------------ *)
(* small list facts *)
Lemma memn_In i l : memn i l = true <-> In i l.
Proof.
  unfold memn. rewrite existsb_exists. split.
  - intros [x [H E]]. apply Nat.eqb_eq in E. now subst.
  - intros H. exists i. split; [assumption | apply Nat.eqb_refl].
Qed.
Lemma memn_false i l : memn i l = false <-> ~ In i l.
Proof. rewrite <- memn_In. destruct (memn i l); split; congruence. Qed.

Lemma NoDup_app_disjoint {A} (a b : list A) x : NoDup (a ++ b) -> In x a -> In x b -> False.
Proof.
  induction a as [|y a IH]; simpl; intros H Ha Hb; [contradiction|].
  inversion H as [|? ? Hn Hd]; subst. destruct Ha as [->|Ha].
  - apply Hn. apply in_or_app. now right.
  - now apply IH.
Qed.

(* ------------------------------------------------------------------------------------------ *)
(* Part A: the depth-first order.  visits = the loop over a list of rules *)
Definition visits (f : nat) (rr : list (list nat)) (M : list nat) (js : list nat) (st : vstate) : vstate :=
  fold_left (fun s j => visit f rr M j s) js st.

Lemma visits_cons f rr M j js st : visits f rr M (j :: js) st = visits f rr M js (visit f rr M j st).
Proof. reflexivity. Qed.

Lemma visit_S f rr M i st :
  visit (S f) rr M i st =
  if memn i (fst st) || negb (memn i M) then st
  else let st' := visits f rr M (children rr i) (i :: fst st, snd st) in (fst st', snd st' ++ [i]).
Proof. reflexivity. Qed.

(* structure of one visit, whatever the fuel: the rules newly marked as visited are exactly the
   rules appended to the order; all of them are members; nothing is marked twice *)
Definition vpost (M : list nat) (st st' : vstate) : Prop :=
  exists new, snd st' = snd st ++ new /\ Permutation (fst st') (new ++ fst st)
              /\ (forall x, In x new -> In x M).

Lemma vpost_refl M st : vpost M st st.
Proof. exists []. rewrite app_nil_r. repeat split; auto. intros x []. Qed.

Lemma vpost_trans M a b c : vpost M a b -> vpost M b c -> vpost M a c.
Proof.
  intros [n1 [H1 [P1 I1]]] [n2 [H2 [P2 I2]]]. exists (n1 ++ n2). repeat split.
  - rewrite H2, H1. now rewrite app_assoc.
  - transitivity (n2 ++ fst b); [exact P2|]. transitivity (n2 ++ n1 ++ fst a).
    + apply Permutation_app_head. exact P1.
    + rewrite !app_assoc. apply Permutation_app_tail. apply Permutation_app_comm.
  - intros x Hx. apply in_app_or in Hx. destruct Hx; auto.
Qed.

Lemma visit_struct rr M : forall f i st,
  NoDup (fst st) -> vpost M st (visit f rr M i st) /\ NoDup (fst (visit f rr M i st)).
Proof.
  induction f as [|f IH]; intros i st Hnd.
  - simpl. split; [apply vpost_refl | assumption].
  - rewrite visit_S. destruct (memn i (fst st) || negb (memn i M)) eqn:E.
    + split; [apply vpost_refl | assumption].
    + apply orb_false_iff in E. destruct E as [E1 E2].
      apply memn_false in E1. apply negb_false_iff in E2. apply memn_In in E2.
      (* the loop over the children *)
      assert (L : forall js s, NoDup (fst s) ->
                  vpost M s (visits f rr M js s) /\ NoDup (fst (visits f rr M js s))).
      { induction js as [|j js IHjs]; intros s Hs.
        - simpl. split; [apply vpost_refl | assumption].
        - rewrite visits_cons. destruct (IH j s Hs) as [P1 N1].
          destruct (IHjs _ N1) as [P2 N2]. split; [eapply vpost_trans; eauto | assumption]. }
      destruct (L (children rr i) (i :: fst st, snd st)) as [[new [H1 [P1 I1]]] N1].
      { simpl. constructor; assumption. }
      cbn [fst snd] in *. split; [|exact N1].
      exists (new ++ [i]). cbn [fst snd]. repeat split.
      * rewrite H1. now rewrite app_assoc.
      * rewrite P1. rewrite <- app_assoc. apply Permutation_app_head. simpl.
        apply Permutation_refl.
      * intros x Hx. apply in_app_or in Hx. destruct Hx as [Hx|[<-|[]]]; auto.
Qed.

Lemma visits_struct rr M f : forall js st,
  NoDup (fst st) -> vpost M st (visits f rr M js st) /\ NoDup (fst (visits f rr M js st)).
Proof.
  induction js as [|j js IH]; intros st Hs.
  - simpl. split; [apply vpost_refl | assumption].
  - rewrite visits_cons. destruct (visit_struct rr M f j st Hs) as [P1 N1].
    destruct (IH _ N1) as [P2 N2]. split; [eapply vpost_trans; eauto | assumption].
Qed.

Lemma vpost_incl M st st' : vpost M st st' -> incl (fst st) (fst st').
Proof.
  intros [new [_ [P _]]] x Hx. eapply Permutation_in; [symmetry; exact P|].
  apply in_or_app. now right.
Qed.

(* a root that is a member is marked after its visit (one unit of fuel is enough for that) *)
Lemma visit_marks rr M f i st :
  NoDup (fst st) -> In i M -> In i (fst (visit (S f) rr M i st)).
Proof.
  intros Hnd Hi. rewrite visit_S. destruct (memn i (fst st) || negb (memn i M)) eqn:E.
  - apply orb_true_iff in E. destruct E as [E|E]; [now apply memn_In in E|].
    apply negb_true_iff in E. apply memn_false in E. contradiction.
  - apply orb_false_iff in E. destruct E as [E1 _]. apply memn_false in E1.
    cbn [fst snd].
    destruct (visits_struct rr M f (children rr i) (i :: fst st, snd st)) as [P _].
    { simpl. constructor; assumption. }
    apply vpost_incl in P. apply P. simpl. now left.
Qed.

Lemma topo_perm rr M : NoDup M -> Permutation (topo rr M) M.
Proof.
  intros HM. unfold topo. fold (visits (S (length M)) rr M M ([], [])).
  set (F := S (length M)).
  (* every root processed so far is marked *)
  assert (L : forall js st, NoDup (fst st) -> incl js M ->
              forall x, In x js \/ In x (fst st) -> In x (fst (visits F rr M js st))).
  { induction js as [|j js IH]; intros st Hs Hjs x Hx.
    - unfold visits. simpl. destruct Hx as [[]|Hx]; assumption.
    - rewrite visits_cons. destruct (visit_struct rr M F j st Hs) as [P1 N1].
      apply IH; auto.
      + intros y Hy. apply Hjs. now right.
      + destruct Hx as [[<-|Hx]|Hx].
        * right. apply visit_marks; auto. apply Hjs. now left.
        * now left.
        * right. eapply vpost_incl; eauto. }
  destruct (visits_struct rr M F M ([], [])) as [[new [H1 [P1 I1]]] N1]; [constructor|].
  cbn [fst snd] in *. rewrite H1. simpl. rewrite app_nil_r in P1.
  assert (Nn : NoDup new) by (eapply Permutation_NoDup; [exact P1 | exact N1]).
  apply NoDup_Permutation; auto.
  intros x. split; [apply I1|].
  intros Hx. eapply Permutation_in; [exact P1|].
  apply (L M ([], [])); auto using incl_refl. constructor.
Qed.

(* ---- referenced rules come first (acyclic reference graphs) ---- *)
Lemma topo_ok_nil rr : topo_ok rr [].
Proof. intros l1 i l2 H. destruct l1; discriminate. Qed.

Lemma topo_ok_snoc rr o i : topo_ok rr o -> incl (children rr i) o -> topo_ok rr (o ++ [i]).
Proof.
  intros Ho Hi l1 x l2 E.
  destruct l2 as [|y l2'] using rev_ind.
  - apply app_inj_tail in E. destruct E as [<- <-]. exact Hi.
  - clear IHl2'. rewrite app_comm_cons, app_assoc in E. apply app_inj_tail in E.
    destruct E as [E _]. eapply Ho. exact E.
Qed.

Section Topo.
  Variable rr : list (list nat).
  Variable M : list nat.
  Hypothesis HM : NoDup M.
  Hypothesis Hcl : forall i, In i M -> incl (children rr i) M.
  Hypothesis Hac : acyclic rr.

  Notation "s ~> i" := (clos_trans nat (refers rr) s i) (at level 70).

  Definition vinv (st : vstate) : Prop :=
    NoDup (fst st) /\ incl (fst st) M /\ topo_ok rr (snd st) /\ incl (snd st) (fst st).

  Lemma fuel_step vis i f :
    NoDup vis -> incl vis M -> ~ In i vis -> In i M ->
    length M - length vis < S f -> length M - length (i :: vis) < f.
  Proof.
    intros Hn Hi Hni HiM Hf.
    assert (length (i :: vis) <= length M).
    { apply NoDup_incl_length; [constructor; assumption|].
      intros x [<-|Hx]; auto. }
    simpl in *. lia.
  Qed.

  Lemma visit_topo : forall f i st,
    vinv st ->
    (forall s, In s (fst st) -> In s (snd st) \/ s ~> i) ->
    length M - length (fst st) < f ->
    vinv (visit f rr M i st) /\ (In i M -> In i (snd (visit f rr M i st))).
  Proof.
    induction f as [|f IH]; intros i st Hinv Hanc Hfuel; [lia|].
    destruct Hinv as [Hnd [HinM [Htopo Hov]]].
    rewrite visit_S. destruct (memn i (fst st) || negb (memn i M)) eqn:E.
    - split; [repeat split; assumption|]. intros HiM.
      apply orb_true_iff in E. destruct E as [E|E].
      + apply memn_In in E. destruct (Hanc _ E) as [H|H]; [assumption|].
        exfalso. exact (Hac _ H).
      + apply negb_true_iff in E. apply memn_false in E. contradiction.
    - apply orb_false_iff in E. destruct E as [E1 E2].
      apply memn_false in E1. apply negb_false_iff in E2. apply memn_In in E2.
      (* loop over the references of i *)
      assert (L : forall js s, incl js (children rr i) -> vinv s ->
                  (forall x, In x (fst s) -> In x (snd s) \/ x = i \/ x ~> i) ->
                  length M - length (fst s) < f ->
                  let s' := visits f rr M js s in
                  vinv s' /\ (forall x, In x (fst s') -> In x (snd s') \/ x = i \/ x ~> i)
                  /\ incl js (snd s') /\ incl (snd s) (snd s')).
      { induction js as [|j js IHjs]; intros s Hjs Hs Hx Hf; cbn zeta.
        - unfold visits; simpl. destruct Hs as [? [? [? ?]]]. repeat split; auto using incl_refl, incl_nil_l.
        - rewrite visits_cons.
          assert (Hj : In j (children rr i)) by (apply Hjs; now left).
          assert (HjM : In j M) by (eapply Hcl; eauto).
          destruct (IH j s Hs) as [Hs1 Hj1]; auto.
          { intros x Hxs. destruct (Hx _ Hxs) as [H|[->|H]]; auto.
            - right. apply t_step. exact Hj.
            - right. eapply t_trans; [exact H|]. apply t_step. exact Hj. }
          destruct Hs as [Hn0 [Hm0 [Ht0 Ho0]]].
          destruct (visit_struct rr M f j s Hn0) as [[new [H1 [P1 I1]]] N1].
          set (s1 := visit f rr M j s) in *.
          assert (Hx1 : forall x, In x (fst s1) -> In x (snd s1) \/ x = i \/ x ~> i).
          { intros x Hxs. apply (Permutation_in _ P1) in Hxs. apply in_app_or in Hxs.
            rewrite H1. destruct Hxs as [Hn|Ho].
            - left. apply in_or_app. now right.
            - destruct (Hx _ Ho) as [H|H]; auto. left. apply in_or_app. now left. }
          assert (Hf1 : length M - length (fst s1) < f).
          { rewrite (Permutation_length P1), app_length. lia. }
          destruct (IHjs s1) as [Hs' [Hx' [Hjs' Hinc']]]; auto.
          { intros y Hy. apply Hjs. now right. }
          split; [exact Hs'|]. split; [exact Hx'|]. split.
          + intros y [<-|Hy]; [|now apply Hjs'].
            apply Hinc'. now apply Hj1.
          + intros y Hy. apply Hinc'. rewrite H1. apply in_or_app. now left. }
      destruct (L (children rr i) (i :: fst st, snd st)) as [[Hn' [Hm' [Ht' Ho']]] [Hx' [Hch' Hinc']]].
      + apply incl_refl.
      + repeat split; cbn [fst snd]; auto.
        * constructor; assumption.
        * intros x [<-|Hx]; auto.
        * intros x Hx. right. now apply Hov.
      + cbn [fst snd]. intros x [<-|Hx]; auto.
        destruct (Hanc _ Hx) as [H|H]; auto.
      + cbn [fst]. apply fuel_step; auto.
      + cbn [fst snd] in *.
        set (s' := visits f rr M (children rr i) (i :: fst st, snd st)) in *.
        assert (Hi' : In i (fst s')).
        { destruct (visits_struct rr M f (children rr i) (i :: fst st, snd st)) as [P _].
          - simpl. constructor; assumption.
          - apply vpost_incl in P. apply P. simpl. now left. }
        split.
        * repeat split; cbn [fst snd]; auto.
          -- apply topo_ok_snoc; assumption.
          -- intros x Hx. apply in_app_or in Hx. destruct Hx as [Hx|[<-|[]]]; auto.
        * intros _. apply in_or_app. right. now left.
  Qed.

  Lemma topo_topo_ok : topo_ok rr (topo rr M).
  Proof.
    unfold topo. fold (visits (S (length M)) rr M M ([], [])).
    set (F := S (length M)).
    assert (L : forall js st, vinv st -> incl (fst st) (snd st) -> vinv (visits F rr M js st)
                /\ incl (fst (visits F rr M js st)) (snd (visits F rr M js st))).
    { induction js as [|j js IH]; intros st Hs Heq.
      - unfold visits; simpl. auto.
      - rewrite visits_cons.
        destruct (visit_topo F j st Hs) as [Hs1 _].
        + intros s Hs0. left. now apply Heq.
        + unfold F. lia.
        + apply IH; auto.
          destruct Hs as [Hn0 _].
          destruct (visit_struct rr M F j st Hn0) as [[new [H1 [P1 I1]]] N1].
          intros x Hx. apply (Permutation_in _ P1) in Hx. rewrite H1.
          apply in_app_or in Hx. apply in_or_app. destruct Hx; auto. }
    destruct (L M ([], [])) as [[_ [_ [H _]]] _]; auto.
    - repeat split; simpl; auto using incl_refl, topo_ok_nil. constructor. intros x [].
    - apply incl_refl.
  Qed.
End Topo.
