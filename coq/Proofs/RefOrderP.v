(* C09 - lemmas about Model.RefOrder against Spec.RefOrder. *)
From Coq Require Import NArith List Bool Arith Permutation Relations Lia.
From PS Require Import Base.Chars Base.Outcome Model.RefOrder Spec.RefOrder.
Import ListNotations.
Local Open Scope nat_scope.

(* ------------------------------------------------------------------------------------------ *)
(* small list facts *)
Lemma memn_In i l : memn i l = true <-> In i l.
Proof.
  unfold memn. rewrite existsb_exists. split.
  - intros [x [H E]]. apply Nat.eqb_eq in E. now subst.
  - intros H. exists i. split; [assumption | apply Nat.eqb_refl].
Qed.
Lemma memn_false i l : memn i l = false <-> ~ In i l.
Proof. rewrite <- memn_In. destruct (memn i l); split; congruence. Qed.

Lemma NoDup_app_disjoint {A} (a b : list A) x : NoDup (a ++ b) -> In x a -> In x b -> False.
Proof.
  induction a as [|y a IH]; simpl; intros H Ha Hb; [contradiction|].
  inversion H as [|? ? Hn Hd]; subst. destruct Ha as [->|Ha].
  - apply Hn. apply in_or_app. now right.
  - now apply IH.
Qed.

(* ------------------------------------------------------------------------------------------ *)
(* Part A: the depth-first order.  visits = the loop over a list of rules *)
Definition visits (f : nat) (rr : list (list nat)) (M : list nat) (js : list nat) (st : vstate) : vstate :=
  fold_left (fun s j => visit f rr M j s) js st.

Lemma visits_cons f rr M j js st : visits f rr M (j :: js) st = visits f rr M js (visit f rr M j st).
Proof. reflexivity. Qed.

Lemma visit_S f rr M i st :
  visit (S f) rr M i st =
  if memn i (fst st) || negb (memn i M) then st
  else let st' := visits f rr M (children rr i) (i :: fst st, snd st) in (fst st', snd st' ++ [i]).
Proof. reflexivity. Qed.

(* structure of one visit, whatever the fuel: the rules newly marked as visited are exactly the
   rules appended to the order; all of them are members; nothing is marked twice *)
Definition vpost (M : list nat) (st st' : vstate) : Prop :=
  exists new, snd st' = snd st ++ new /\ Permutation (fst st') (new ++ fst st)
              /\ (forall x, In x new -> In x M).

Lemma vpost_refl M st : vpost M st st.
Proof. exists []. rewrite app_nil_r. repeat split; auto. intros x []. Qed.

Lemma vpost_trans M a b c : vpost M a b -> vpost M b c -> vpost M a c.
Proof.
  intros [n1 [H1 [P1 I1]]] [n2 [H2 [P2 I2]]]. exists (n1 ++ n2). repeat split.
  - rewrite H2, H1. now rewrite app_assoc.
  - transitivity (n2 ++ fst b); [exact P2|]. transitivity (n2 ++ n1 ++ fst a).
    + apply Permutation_app_head. exact P1.
    + rewrite !app_assoc. apply Permutation_app_tail. apply Permutation_app_comm.
  - intros x Hx. apply in_app_or in Hx. destruct Hx; auto.
Qed.

Lemma visit_struct rr M : forall f i st,
  NoDup (fst st) -> vpost M st (visit f rr M i st) /\ NoDup (fst (visit f rr M i st)).
Proof.
  induction f as [|f IH]; intros i st Hnd.
  - simpl. split; [apply vpost_refl | assumption].
  - rewrite visit_S. destruct (memn i (fst st) || negb (memn i M)) eqn:E.
    + split; [apply vpost_refl | assumption].
    + apply orb_false_iff in E. destruct E as [E1 E2].
      apply memn_false in E1. apply negb_false_iff in E2. apply memn_In in E2.
      (* the loop over the children *)
      assert (L : forall js s, NoDup (fst s) ->
                  vpost M s (visits f rr M js s) /\ NoDup (fst (visits f rr M js s))).
      { induction js as [|j js IHjs]; intros s Hs.
        - simpl. split; [apply vpost_refl | assumption].
        - rewrite visits_cons. destruct (IH j s Hs) as [P1 N1].
          destruct (IHjs _ N1) as [P2 N2]. split; [eapply vpost_trans; eauto | assumption]. }
      destruct (L (children rr i) (i :: fst st, snd st)) as [[new [H1 [P1 I1]]] N1].
      { simpl. constructor; assumption. }
      cbn [fst snd] in *. split; [|exact N1].
      exists (new ++ [i]). cbn [fst snd]. repeat split.
      * rewrite H1. now rewrite app_assoc.
      * rewrite P1. rewrite <- app_assoc. apply Permutation_app_head. simpl.
        apply Permutation_refl.
      * intros x Hx. apply in_app_or in Hx. destruct Hx as [Hx|[<-|[]]]; auto.
Qed.

Lemma visits_struct rr M f : forall js st,
  NoDup (fst st) -> vpost M st (visits f rr M js st) /\ NoDup (fst (visits f rr M js st)).
Proof.
  induction js as [|j js IH]; intros st Hs.
  - simpl. split; [apply vpost_refl | assumption].
  - rewrite visits_cons. destruct (visit_struct rr M f j st Hs) as [P1 N1].
    destruct (IH _ N1) as [P2 N2]. split; [eapply vpost_trans; eauto | assumption].
Qed.

Lemma vpost_incl M st st' : vpost M st st' -> incl (fst st) (fst st').
Proof.
  intros [new [_ [P _]]] x Hx. eapply Permutation_in; [symmetry; exact P|].
  apply in_or_app. now right.
Qed.

(* a root that is a member is marked after its visit (one unit of fuel is enough for that) *)
Lemma visit_marks rr M f i st :
  NoDup (fst st) -> In i M -> In i (fst (visit (S f) rr M i st)).
Proof.
  intros Hnd Hi. rewrite visit_S. destruct (memn i (fst st) || negb (memn i M)) eqn:E.
  - apply orb_true_iff in E. destruct E as [E|E]; [now apply memn_In in E|].
    apply negb_true_iff in E. apply memn_false in E. contradiction.
  - apply orb_false_iff in E. destruct E as [E1 _]. apply memn_false in E1.
    cbn [fst snd].
    destruct (visits_struct rr M f (children rr i) (i :: fst st, snd st)) as [P _].
    { simpl. constructor; assumption. }
    apply vpost_incl in P. apply P. simpl. now left.
Qed.

Lemma topo_perm rr M : NoDup M -> Permutation (topo rr M) M.
Proof.
  intros HM. unfold topo. fold (visits (S (length M)) rr M M ([], [])).
  set (F := S (length M)).
  (* every root processed so far is marked *)
  assert (L : forall js st, NoDup (fst st) -> incl js M ->
              forall x, In x js \/ In x (fst st) -> In x (fst (visits F rr M js st))).
  { induction js as [|j js IH]; intros st Hs Hjs x Hx.
    - unfold visits. simpl. destruct Hx as [[]|Hx]; assumption.
    - rewrite visits_cons. destruct (visit_struct rr M F j st Hs) as [P1 N1].
      apply IH; auto.
      + intros y Hy. apply Hjs. now right.
      + destruct Hx as [[<-|Hx]|Hx].
        * right. apply visit_marks; auto. apply Hjs. now left.
        * now left.
        * right. eapply vpost_incl; eauto. }
  destruct (visits_struct rr M F M ([], [])) as [[new [H1 [P1 I1]]] N1]; [constructor|].
  cbn [fst snd] in *. rewrite H1. simpl. rewrite app_nil_r in P1.
  assert (Nn : NoDup new) by (eapply Permutation_NoDup; [exact P1 | exact N1]).
  apply NoDup_Permutation; auto.
  intros x. split; [apply I1|].
  intros Hx. eapply Permutation_in; [exact P1|].
  apply (L M ([], [])); auto using incl_refl. constructor.
Qed.

(* ---- referenced rules come first (acyclic reference graphs) ---- *)
Lemma topo_ok_nil rr : topo_ok rr [].
Proof. intros l1 i l2 H. destruct l1; discriminate. Qed.

Lemma topo_ok_snoc rr o i : topo_ok rr o -> incl (children rr i) o -> topo_ok rr (o ++ [i]).
Proof.
  intros Ho Hi l1 x l2 E.
  destruct l2 as [|y l2'] using rev_ind.
  - apply app_inj_tail in E. destruct E as [<- <-]. exact Hi.
  - clear IHl2'. rewrite app_comm_cons, app_assoc in E. apply app_inj_tail in E.
    destruct E as [E _]. eapply Ho. exact E.
Qed.

Section Topo.
  Variable rr : list (list nat).
  Variable M : list nat.
  Hypothesis HM : NoDup M.
  Hypothesis Hcl : forall i, In i M -> incl (children rr i) M.
  Hypothesis Hac : acyclic rr.

  Notation "s ~> i" := (clos_trans nat (refers rr) s i) (at level 70).

  Definition vinv (st : vstate) : Prop :=
    NoDup (fst st) /\ incl (fst st) M /\ topo_ok rr (snd st) /\ incl (snd st) (fst st).

  Lemma fuel_step vis i f :
    NoDup vis -> incl vis M -> ~ In i vis -> In i M ->
    length M - length vis < S f -> length M - length (i :: vis) < f.
  Proof.
    intros Hn Hi Hni HiM Hf.
    assert (length (i :: vis) <= length M).
    { apply NoDup_incl_length; [constructor; assumption|].
      intros x [<-|Hx]; auto. }
    simpl in *. lia.
  Qed.

  Lemma visit_topo : forall f i st,
    vinv st ->
    (forall s, In s (fst st) -> In s (snd st) \/ s ~> i) ->
    length M - length (fst st) < f ->
    vinv (visit f rr M i st) /\ (In i M -> In i (snd (visit f rr M i st))).
  Proof.
    induction f as [|f IH]; intros i st Hinv Hanc Hfuel; [lia|].
    destruct Hinv as [Hnd [HinM [Htopo Hov]]].
    rewrite visit_S. destruct (memn i (fst st) || negb (memn i M)) eqn:E.
    - split; [repeat split; assumption|]. intros HiM.
      apply orb_true_iff in E. destruct E as [E|E].
      + apply memn_In in E. destruct (Hanc _ E) as [H|H]; [assumption|].
        exfalso. exact (Hac _ H).
      + apply negb_true_iff in E. apply memn_false in E. contradiction.
    - apply orb_false_iff in E. destruct E as [E1 E2].
      apply memn_false in E1. apply negb_false_iff in E2. apply memn_In in E2.
      (* loop over the references of i *)
      assert (L : forall js s, incl js (children rr i) -> vinv s ->
                  (forall x, In x (fst s) -> In x (snd s) \/ x = i \/ x ~> i) ->
                  length M - length (fst s) < f ->
                  let s' := visits f rr M js s in
                  vinv s' /\ (forall x, In x (fst s') -> In x (snd s') \/ x = i \/ x ~> i)
                  /\ incl js (snd s') /\ incl (snd s) (snd s')).
      { induction js as [|j js IHjs]; intros s Hjs Hs Hx Hf; cbn zeta.
        - unfold visits; simpl. destruct Hs as [? [? [? ?]]]. repeat split; auto using incl_refl, incl_nil_l.
        - rewrite visits_cons.
          assert (Hj : In j (children rr i)) by (apply Hjs; now left).
          assert (HjM : In j M) by (eapply Hcl; eauto).
          destruct (IH j s Hs) as [Hs1 Hj1]; auto.
          { intros x Hxs. destruct (Hx _ Hxs) as [H|[->|H]]; auto.
            - right. apply t_step. exact Hj.
            - right. eapply t_trans; [exact H|]. apply t_step. exact Hj. }
          destruct Hs as [Hn0 [Hm0 [Ht0 Ho0]]].
          destruct (visit_struct rr M f j s Hn0) as [[new [H1 [P1 I1]]] N1].
          set (s1 := visit f rr M j s) in *.
          assert (Hx1 : forall x, In x (fst s1) -> In x (snd s1) \/ x = i \/ x ~> i).
          { intros x Hxs. apply (Permutation_in _ P1) in Hxs. apply in_app_or in Hxs.
            rewrite H1. destruct Hxs as [Hn|Ho].
            - left. apply in_or_app. now right.
            - destruct (Hx _ Ho) as [H|H]; auto. left. apply in_or_app. now left. }
          assert (Hf1 : length M - length (fst s1) < f).
          { rewrite (Permutation_length P1), app_length. lia. }
          destruct (IHjs s1) as [Hs' [Hx' [Hjs' Hinc']]]; auto.
          { intros y Hy. apply Hjs. now right. }
          split; [exact Hs'|]. split; [exact Hx'|]. split.
          + intros y [<-|Hy]; [|now apply Hjs'].
            apply Hinc'. now apply Hj1.
          + intros y Hy. apply Hinc'. rewrite H1. apply in_or_app. now left. }
      destruct (L (children rr i) (i :: fst st, snd st)) as [[Hn' [Hm' [Ht' Ho']]] [Hx' [Hch' Hinc']]].
      + apply incl_refl.
      + repeat split; cbn [fst snd]; auto.
        * constructor; assumption.
        * intros x [<-|Hx]; auto.
        * intros x Hx. right. now apply Hov.
      + cbn [fst snd]. intros x [<-|Hx]; auto.
        destruct (Hanc _ Hx) as [H|H]; auto.
      + cbn [fst]. apply fuel_step; auto.
      + cbn [fst snd] in *.
        set (s' := visits f rr M (children rr i) (i :: fst st, snd st)) in *.
        assert (Hi' : In i (fst s')).
        { destruct (visits_struct rr M f (children rr i) (i :: fst st, snd st)) as [P _].
          - simpl. constructor; assumption.
          - apply vpost_incl in P. apply P. simpl. now left. }
        split.
        * repeat split; cbn [fst snd]; auto.
          -- apply topo_ok_snoc; assumption.
          -- intros x Hx. apply in_app_or in Hx. destruct Hx as [Hx|[<-|[]]]; auto.
        * intros _. apply in_or_app. right. now left.
  Qed.

  Lemma topo_topo_ok : topo_ok rr (topo rr M).
  Proof.
    unfold topo. fold (visits (S (length M)) rr M M ([], [])).
    set (F := S (length M)).
    assert (L : forall js st, vinv st -> incl (fst st) (snd st) -> vinv (visits F rr M js st)
                /\ incl (fst (visits F rr M js st)) (snd (visits F rr M js st))).
    { induction js as [|j js IH]; intros st Hs Heq.
      - unfold visits; simpl. auto.
      - rewrite visits_cons.
        destruct (visit_topo F j st Hs) as [Hs1 _].
        + intros s Hs0. left. now apply Heq.
        + unfold F. lia.
        + apply IH; auto.
          destruct Hs as [Hn0 _].
          destruct (visit_struct rr M F j st Hn0) as [[new [H1 [P1 I1]]] N1].
          intros x Hx. apply (Permutation_in _ P1) in Hx. rewrite H1.
          apply in_app_or in Hx. apply in_or_app. destruct Hx; auto. }
    destruct (L M ([], [])) as [[_ [_ [H _]]] _]; auto.
    - repeat split; simpl; auto using incl_refl, topo_ok_nil. constructor. intros x [].
    - apply incl_refl.
  Qed.
End Topo.

(* ------------------------------------------------------------------------------------------ *)
(* Part C: reference resolution *)
Lemma lookup_Some ds r : forall i, lookup ds r = Some i ->
  exists d, nth_error ds i = Some d /\ matches r d = true.
Proof.
  induction ds as [|d t IH]; simpl; intros i H; [discriminate|].
  destruct (lookup t r) as [j|] eqn:E.
  - inversion H; subst. simpl. now apply IH.
  - destruct (matches r d) eqn:Em; [|discriminate]. inversion H; subst. simpl. eauto.
Qed.

Lemma lookup_None ds r : lookup ds r = None <-> dangling ds r.
Proof.
  unfold dangling. induction ds as [|d t IH]; simpl.
  - split; [intros _ d [] | reflexivity].
  - destruct (lookup t r) as [j|] eqn:E.
    + split; [discriminate|]. intros H. exfalso.
      assert (Some j = None) by (apply IH; intros x Hx; apply H; now right). discriminate.
    + destruct (matches r d) eqn:Em.
      * split; [discriminate|]. intros H. rewrite (H d) in Em by now left. discriminate.
      * split; [|reflexivity]. intros _ x [<-|Hx]; [assumption|]. now apply IH.
Qed.

Lemma lookup_lt ds r i : lookup ds r = Some i -> i < length ds.
Proof.
  intros H. apply lookup_Some in H. destruct H as [d [H _]].
  apply nth_error_Some. congruence.
Qed.

Lemma resolve_refs_Some ds : forall rs js, resolve_refs ds rs = Some js ->
  Forall2 (fun r j => lookup ds r = Some j) rs js.
Proof.
  induction rs as [|r t IH]; simpl; intros js H.
  - inversion H. constructor.
  - destruct (lookup ds r) as [i|] eqn:E; [|discriminate].
    destruct (resolve_refs ds t) as [l|] eqn:E2; [|discriminate].
    inversion H; subst. constructor; auto.
Qed.

Lemma resolve_refs_None ds : forall rs, resolve_refs ds rs = None <->
  exists r, In r rs /\ lookup ds r = None.
Proof.
  induction rs as [|r t IH]; simpl.
  - split; [discriminate | intros [r [[] _]]].
  - destruct (lookup ds r) as [i|] eqn:E.
    + destruct (resolve_refs ds t) as [l|] eqn:E2.
      * split; [discriminate|]. intros [x [[<-|Hx] Hn]]; [congruence|].
        assert (@None (list nat) = None) as _ by reflexivity.
        destruct IH as [_ IH]. discriminate IH. eauto.
      * split; [|reflexivity]. intros _. destruct IH as [IH _].
        destruct (IH eq_refl) as [x [Hx Hn]]. eauto.
    + split; [|reflexivity]. intros _. eauto.
Qed.

Lemma resolve_each_Some ds : forall l rr, resolve_each ds l = Some rr ->
  Forall2 (fun d js => resolve_refs ds (doc_refs d) = Some js) l rr.
Proof.
  induction l as [|d t IH]; simpl; intros rr H.
  - inversion H. constructor.
  - destruct (resolve_refs ds (doc_refs d)) as [x|] eqn:E; [|discriminate].
    destruct (resolve_each ds t) as [y|] eqn:E2; [|discriminate].
    inversion H; subst. constructor; auto.
Qed.

Lemma resolve_each_None ds : forall l, resolve_each ds l = None <->
  exists d, In d l /\ resolve_refs ds (doc_refs d) = None.
Proof.
  induction l as [|d t IH]; simpl.
  - split; [discriminate | intros [d [[] _]]].
  - destruct (resolve_refs ds (doc_refs d)) as [x|] eqn:E.
    + destruct (resolve_each ds t) as [y|] eqn:E2.
      * split; [discriminate|]. intros [c [[<-|Hc] Hn]]; [congruence|].
        destruct IH as [_ IH]. discriminate IH. eauto.
      * split; [|reflexivity]. intros _. destruct IH as [IH _].
        destruct (IH eq_refl) as [c [Hc Hn]]. eauto.
    + split; [|reflexivity]. intros _. eauto.
Qed.

Theorem resolve_all_None ds : resolve_all ds = None <-> has_dangling ds.
Proof.
  unfold resolve_all, has_dangling. rewrite resolve_each_None. split.
  - intros [c [Hc H]]. apply resolve_refs_None in H. destruct H as [r [Hr H]].
    apply lookup_None in H. eauto.
  - intros [c [r [Hc [Hr H]]]]. exists c. split; [assumption|].
    apply resolve_refs_None. exists r. split; [assumption|]. now apply lookup_None.
Qed.

Lemma Forall2_nth_error_r {A B} (R : A -> B -> Prop) l l' :
  Forall2 R l l' -> forall i y, nth_error l' i = Some y -> exists x, nth_error l i = Some x /\ R x y.
Proof.
  induction 1 as [|x y l l' Hxy H IH]; intros i z Hz.
  - destruct i; discriminate.
  - destruct i as [|i]; simpl in *.
    + inversion Hz; subst. eauto.
    + now apply IH.
Qed.

Lemma Forall2_length' {A B} (R : A -> B -> Prop) l l' : Forall2 R l l' -> length l = length l'.
Proof. induction 1; simpl; congruence. Qed.

(* what the resolved table contains *)
Lemma resolved_children ds rr i j :
  resolve_all ds = Some rr -> In j (children rr i) ->
  exists d, nth_error ds i = Some d /\
            exists r, In r (doc_refs d) /\ lookup ds r = Some j.
Proof.
  intros H Hj. apply resolve_each_Some in H. unfold children in Hj.
  destruct (nth_error rr i) as [js|] eqn:E.
  - rewrite (nth_error_nth _ _ _ E) in Hj.
    destruct (Forall2_nth_error_r _ _ _ H _ _ E) as [d [Hd Hr]].
    exists d. split; [assumption|]. apply resolve_refs_Some in Hr.
    clear - Hr Hj. induction Hr as [|r k rs ks Hrk _ IH]; [contradiction|].
    destruct Hj as [<-|Hj].
    + exists r. split; [now left | assumption].
    + destruct (IH Hj) as [r' [? ?]]. exists r'. split; [now right | assumption].
  - apply nth_error_None in E. rewrite nth_overflow in Hj by assumption. contradiction.
Qed.

Lemma resolved_bound ds rr i j :
  resolve_all ds = Some rr -> In j (children rr i) -> i < length ds /\ j < length ds.
Proof.
  intros H Hj. destruct (resolved_children _ _ _ _ H Hj) as [d [Hd [r [_ Hl]]]]. split.
  - apply nth_error_Some. congruence.
  - eapply lookup_lt; eauto.
Qed.

Lemma resolved_length ds rr : resolve_all ds = Some rr -> length rr = length ds.
Proof. intros H. apply resolve_each_Some in H. symmetry. eapply Forall2_length'; eauto. Qed.

(* ------------------------------------------------------------------------------------------ *)
(* Part D: loading orders the rules topologically; conversion in that order never misses a result *)
Lemma load_Ok ds rr o1 : load ds = Ok (rr, o1) ->
  resolve_all ds = Some rr /\ o1 = topo rr (seq 0 (length ds)).
Proof.
  unfold load. destruct (resolve_all ds) as [x|]; [|discriminate].
  intros H. inversion H; subst. auto.
Qed.

Theorem load_topo ds rr o1 :
  load ds = Ok (rr, o1) -> acyclic rr ->
  Permutation o1 (seq 0 (length ds)) /\ topo_ok rr o1 /\
  Permutation (topo rr o1) (seq 0 (length ds)) /\ topo_ok rr (topo rr o1).
Proof.
  intros H Hac. apply load_Ok in H. destruct H as [Hr ->].
  set (n := length ds). set (o1 := topo rr (seq 0 n)).
  assert (P1 : Permutation o1 (seq 0 n)) by (apply topo_perm, seq_NoDup).
  assert (N1 : NoDup o1) by (eapply Permutation_NoDup; [symmetry; exact P1 | apply seq_NoDup]).
  assert (C0 : forall i, In i (seq 0 n) -> incl (children rr i) (seq 0 n)).
  { intros i _ j Hj. apply in_seq. destruct (resolved_bound _ _ _ _ Hr Hj). fold n. lia. }
  repeat split.
  - exact P1.
  - apply topo_topo_ok; auto using seq_NoDup.
  - transitivity o1; [apply topo_perm; exact N1 | exact P1].
  - apply topo_topo_ok; auto.
    intros i Hi j Hj. eapply Permutation_in; [symmetry; exact P1|].
    apply (C0 i); auto. eapply Permutation_in; [exact P1 | exact Hi].
Qed.

Section Run.
  Variable Q : Type.
  Variable rplain : doc -> list Q.
  Variable rcorr : doc -> list (doc * list Q) -> list Q.
  Variable ds : list doc.
  Variable rr : list (list nat).

  Notation get := (get Q).
  Notation collect := (collect Q).
  Notation conv_rule := (conv_rule Q rplain rcorr).
  Notation run := (run Q rplain rcorr).

  Lemma get_cons res i q j : get ((i, q) :: res) j = if Nat.eqb i j then Some q else get res j.
  Proof. reflexivity. Qed.

  Lemma collect_ok res : forall js,
    (forall j, In j js -> j < length ds /\ get res j <> None) ->
    exists subs, collect ds res js = Some subs.
  Proof.
    induction js as [|j t IH]; intros H; simpl; [eauto|].
    destruct (H j (or_introl eq_refl)) as [Hlt Hg].
    destruct (nth_error ds j) as [d|] eqn:Ed; [|apply nth_error_None in Ed; lia].
    destruct (get res j) as [q|]; [|congruence].
    destruct IH as [subs ->]; [intros x Hx; apply H; now right|]. eauto.
  Qed.

  Lemma run_ok ac : forall ord pre res em,
    topo_ok rr (pre ++ ord) ->
    (forall j, In j pre -> get res j <> None) ->
    (forall i, In i ord -> i < length ds) ->
    (forall i j, In j (children rr i) -> j < length ds) ->
    exists r, run ac ds rr ord res em = Some r.
  Proof.
    induction ord as [|i t IH]; intros pre res em Ht Hpre Hlt Hb; simpl; [eauto|].
    assert (Hi : i < length ds) by (apply Hlt; now left).
    assert (Hc : exists q, conv_rule ds rr res i = Some q).
    { unfold RefOrder.conv_rule. destruct (nth_error ds i) as [d|] eqn:Ed; [|apply nth_error_None in Ed; lia].
      destruct (is_corr d); [|eauto].
      destruct (collect_ok res (children rr i)) as [subs ->]; [|eauto].
      intros j Hj. split; [eapply Hb; eauto|]. apply Hpre. eapply (Ht pre i t); auto. }
    destruct Hc as [q ->].
    apply (IH (pre ++ [i])).
    - rewrite <- app_assoc. exact Ht.
    - intros j Hj. rewrite get_cons. destruct (Nat.eqb i j) eqn:E; [discriminate|].
      apply in_app_or in Hj. destruct Hj as [Hj|[<-|[]]]; [now apply Hpre|].
      rewrite Nat.eqb_refl in E. discriminate.
    - intros x Hx. apply Hlt. now right.
    - exact Hb.
  Qed.

  (* results are stored per rule and never touched again by other rules *)
  Lemma run_get_stable ac : forall ord res em res' em' i,
    run ac ds rr ord res em = Some (res', em') -> ~ In i ord -> get res' i = get res i.
  Proof.
    induction ord as [|k t IH]; simpl; intros res em res' em' i H Hn.
    - inversion H; subst. reflexivity.
    - destruct (conv_rule ds rr res k) as [q|]; [|discriminate].
      rewrite (IH _ _ _ _ i H) by tauto. rewrite get_cons.
      destruct (Nat.eqb k i) eqn:E; [|reflexivity]. apply Nat.eqb_eq in E. subst. tauto.
  Qed.

  Definition own (res : results Q) (i : nat) : list Q := match get res i with Some q => q | None => [] end.

  (* what Backend.convert returns: the own queries of the rules whose output flag is set, in order *)
  Lemma run_emitted : forall ord res em res' em',
    NoDup ord -> run false ds rr ord res em = Some (res', em') ->
    em' = em ++ flat_map (fun i => if output_flag ds rr i then map (pair i) (own res' i) else []) ord
    /\ forall i, In i ord -> get res' i <> None.
  Proof.
    induction ord as [|k t IH]; simpl; intros res em res' em' Hnd H.
    - inversion H; subst. rewrite app_nil_r. split; [reflexivity | intros i []].
    - destruct (conv_rule ds rr res k) as [q|] eqn:Ec; [|discriminate].
      inversion Hnd as [|? ? Hk Ht]; subst.
      assert (Hg : get res' k = Some q).
      { rewrite (run_get_stable _ _ _ _ _ _ k H Hk). rewrite get_cons, Nat.eqb_refl. reflexivity. }
      destruct (IH _ _ _ _ Ht H) as [E Hall]. split.
      + rewrite E. unfold own at 2. rewrite Hg. rewrite orb_false_r.
        destruct (output_flag ds rr k); [now rewrite <- app_assoc | reflexivity].
      + intros i [<-|Hi]; [congruence | now apply Hall].
  Qed.
End Run.

(* ------------------------------------------------------------------------------------------ *)
(* Part E: the output flag and the pipeline as a whole *)
Lemma In_combine_nth_error {A B} (l : list A) (l' : list B) x y :
  In (x, y) (combine l l') <-> exists k, nth_error l k = Some x /\ nth_error l' k = Some y.
Proof.
  revert l'. induction l as [|a l IH]; intros [|b l']; simpl.
  - split; [intros [] | intros [[|k] [H _]]; discriminate].
  - split; [intros [] | intros [[|k] [H _]]; discriminate].
  - split; [intros [] | intros [[|k] [_ H]]; discriminate].
  - rewrite IH. split.
    + intros [H|[k Hk]]; [inversion H; subst; exists 0; auto | exists (S k); auto].
    + intros [[|k] [H1 H2]]; simpl in *; [left; congruence | right; eauto].
Qed.

Lemma plain_no_children ds rr k d :
  resolve_all ds = Some rr -> nth_error ds k = Some d -> is_corr d = false -> children rr k = [].
Proof.
  intros H Hd Hc. destruct (children rr k) as [|j t] eqn:E; [reflexivity|].
  assert (Hj : In j (children rr k)) by (rewrite E; now left).
  destruct (resolved_children _ _ _ _ H Hj) as [d' [Hd' [r [Hr _]]]].
  assert (d' = d) by congruence. subst.
  unfold is_corr, doc_refs in *. destruct (d_body d); [contradiction | discriminate].
Qed.

Lemma output_flag_false ds rr i :
  resolve_all ds = Some rr ->
  (output_flag ds rr i = false <-> exists k, referrer ds rr k i false).
Proof.
  intros Hr. unfold output_flag. rewrite negb_false_iff, existsb_exists. split.
  - intros [[d js] [Hin H]]. cbn [fst snd] in H.
    apply andb_true_iff in H. destruct H as [H H3]. apply andb_true_iff in H. destruct H as [H1 H2].
    apply In_combine_nth_error in Hin. destruct Hin as [k [Hd Hjs]].
    exists k, d. repeat split; auto.
    + now apply negb_true_iff in H2.
    + rewrite (nth_error_nth _ _ _ Hjs). now apply memn_In.
  - intros [k [d [Hd [Hc [Hg Hi]]]]].
    destruct (nth_error rr k) as [js|] eqn:E.
    + exists (d, js). split; [apply In_combine_nth_error; eauto|]. cbn [fst snd].
      rewrite Hc, Hg. simpl. apply memn_In. now rewrite (nth_error_nth _ _ _ E) in Hi.
    + apply nth_error_None in E. rewrite nth_overflow in Hi by assumption. contradiction.
Qed.

Section Pipeline.
  Variable Q : Type.
  Variable rplain : doc -> list Q.
  Variable rcorr : doc -> list (doc * list Q) -> list Q.
  Notation pipeline := (pipeline Q rplain rcorr).

  Lemma pipeline_Ok ds c : pipeline ds = Ok c ->
    exists rr, resolve_all ds = Some rr /\
      c_order_load c = topo rr (seq 0 (length ds)) /\
      c_order_conv c = topo rr (c_order_load c) /\
      run Q rplain rcorr false ds rr (c_order_conv c) [] [] = Some (c_results c, c_emitted c).
  Proof.
    unfold RefOrder.pipeline. destruct (load ds) as [[rr o1]|e|e] eqn:El; try discriminate.
    apply load_Ok in El. destruct El as [Hr ->].
    destruct (run Q rplain rcorr false ds rr _ [] []) as [[res em]|] eqn:Er; [|discriminate].
    intros H. inversion H; subst. cbn. eauto.
  Qed.

  Lemma order_conv_perm ds c : pipeline ds = Ok c ->
    Permutation (c_order_load c) (seq 0 (length ds)) /\ Permutation (c_order_conv c) (seq 0 (length ds)).
  Proof.
    intros H. destruct (pipeline_Ok _ _ H) as [rr [Hr [E1 [E2 _]]]].
    assert (P1 : Permutation (c_order_load c) (seq 0 (length ds))) by (rewrite E1; apply topo_perm, seq_NoDup).
    split; [exact P1|]. rewrite E2. transitivity (c_order_load c); [|exact P1].
    apply topo_perm. eapply Permutation_NoDup; [symmetry; exact P1 | apply seq_NoDup].
  Qed.

  (* a reference to a rule nobody answers to is reported when the collection is loaded - and
     nothing else is *)
  Theorem pipeline_missing_ref ds : pipeline ds = SigmaErr E_NotFound <-> has_dangling ds.
  Proof.
    rewrite <- resolve_all_None. unfold RefOrder.pipeline, load.
    destruct (resolve_all ds) as [rr|].
    - split; [|discriminate].
      destruct (run Q rplain rcorr false ds rr _ [] []) as [[res em]|]; discriminate.
    - split; reflexivity.
  Qed.

  (* an acyclic rule set without dangling references converts in every case *)
  Theorem pipeline_total ds rr :
    resolve_all ds = Some rr -> acyclic rr -> exists c, pipeline ds = Ok c.
  Proof.
    intros Hr Hac. unfold RefOrder.pipeline.
    assert (El : load ds = Ok (rr, topo rr (seq 0 (length ds)))) by (unfold load; now rewrite Hr).
    rewrite El. destruct (load_topo _ _ _ El Hac) as [P1 [T1 [P2 T2]]].
    assert (A1 : forall j, In j [] -> get Q [] j <> None) by (intros j []).
    assert (A2 : forall i, In i (topo rr (topo rr (seq 0 (length ds)))) -> i < length ds).
    { intros i Hi. apply (Permutation_in _ P2) in Hi. apply in_seq in Hi. lia. }
    assert (A3 : forall i j, In j (children rr i) -> j < length ds).
    { intros i j Hj. eapply resolved_bound; eauto. }
    destruct (run_ok Q rplain rcorr ds rr false _ [] [] [] T2 A1 A2 A3) as [[res em] ->]. eauto.
  Qed.

  Theorem pipeline_flags ds c rr i :
    pipeline ds = Ok c -> resolve_all ds = Some rr -> i < length ds ->
    get Q (c_results c) i <> None /\
    ((exists k, referrer ds rr k i false) -> forall q, ~ In (i, q) (c_emitted c)) /\
    ((forall k, ~ referrer ds rr k i false) ->
       forall q, In q (own Q (c_results c) i) -> In (i, q) (c_emitted c)).
  Proof.
    intros H Hr Hi. destruct (pipeline_Ok _ _ H) as [rr' [Hr' [_ [_ Hrun]]]].
    assert (rr' = rr) by congruence. subst rr'.
    destruct (order_conv_perm _ _ H) as [_ P2].
    assert (N2 : NoDup (c_order_conv c)) by (eapply Permutation_NoDup; [symmetry; exact P2 | apply seq_NoDup]).
    destruct (run_emitted Q rplain rcorr ds rr _ _ _ _ _ N2 Hrun) as [E Hall].
    assert (Hio : In i (c_order_conv c)).
    { eapply Permutation_in; [symmetry; exact P2|]. apply in_seq. lia. }
    simpl in E. split; [now apply Hall|]. split.
    - intros Hk q Hin. apply (output_flag_false _ _ i Hr) in Hk.
      rewrite E in Hin. apply in_flat_map in Hin. destruct Hin as [k [_ Hin]].
      destruct (output_flag ds rr k) eqn:Ek; [|contradiction].
      apply in_map_iff in Hin. destruct Hin as [q' [Hq _]]. inversion Hq; subst. congruence.
    - intros Hk q Hq. rewrite E. apply in_flat_map. exists i. split; [assumption|].
      destruct (output_flag ds rr i) eqn:Ek.
      + apply in_map. assumption.
      + apply (output_flag_false _ _ i Hr) in Ek. destruct Ek as [k Hk']. exfalso. eapply Hk; eauto.
  Qed.
End Pipeline.

(* ------------------------------------------------------------------------------------------ *)
(* Refutations (concrete witnesses, evaluated by vm_compute).
   Rendering = the shipped TextQueryTestBackend. *)
Definition mkP (t : N) : doc :=
  {| d_title := [t]; d_name := Some [t]; d_id := None; d_body := Plain [[t]] |}.
Definition mkC (t : N) (refs : list N) : doc :=
  {| d_title := [t]; d_name := Some [t]; d_id := None;
     d_body := Corr CTemporal (map (fun r => RName [r]) refs) false [117%N] [53%N; 104%N] |}.
(* a, b, u plain; c -> [a, b]; d -> [c, u]   (c1, c2 of DESIGN.md) *)
Definition wit_docs : list doc :=
  [mkP 97; mkP 98; mkP 117; mkC 99 [97%N; 98%N]; mkC 100 [99%N; 117%N]].
Definition wit_order : list doc := rev wit_docs.       (* d, c, u, b, a *)

Fixpoint insert_all {A} (x : A) (l : list A) : list (list A) :=
  match l with [] => [[x]] | y :: t => (x :: l) :: map (cons y) (insert_all x t) end.
Fixpoint perms {A} (l : list A) : list (list A) :=
  match l with [] => [[]] | x :: t => flat_map (insert_all x) (perms t) end.
Definition is_ok {A} (o : outcome A) : bool := match o with Ok _ => true | _ => false end.

Lemma sorted_refuted :
  exists ds p, Permutation p ds
    /\ is_ok (pipeline_sorted str tq_plain tq_corr ds) = true
    /\ pipeline_sorted str tq_plain tq_corr p = SigmaErr E_Conversion
    /\ is_ok (pipeline str tq_plain tq_corr p) = true.
Proof.
  exists wit_docs, wit_order. split; [symmetry; apply Permutation_rev|].
  repeat split; vm_compute; reflexivity.
Qed.

Lemma sorted_fails_66_of_120 :
  length (perms wit_docs) = 120 /\
  length (filter (fun p => negb (is_ok (pipeline_sorted str tq_plain tq_corr p))) (perms wit_docs)) = 66 /\
  forallb (fun p => is_ok (pipeline str tq_plain tq_corr p)) (perms wit_docs) = true.
Proof. repeat split; vm_compute; reflexivity. Qed.

(* duplicate names: the last document wins, so the order of the documents decides what a
   correlation rule refers to *)
Definition dup_docs : list doc :=
  [ {| d_title := [97%N]; d_name := Some [120%N]; d_id := None; d_body := Plain [[97%N]] |};
    {| d_title := [98%N]; d_name := Some [120%N]; d_id := None; d_body := Plain [[98%N]] |};
    {| d_title := [99%N]; d_name := Some [99%N]; d_id := None;
       d_body := Corr (CEventCount [49%N]) [RName [120%N]] false [117%N] [51%N; 104%N] |} ].
Definition dup_order : list doc :=
  match dup_docs with [a; b; c] => [b; a; c] | _ => [] end.
Definition emitted_queries (o : outcome (converted str)) : list str :=
  match o with Ok c => map snd (c_emitted c) | _ => [] end.

Lemma duplicate_key_refuted :
  exists ds p q, Permutation p ds
    /\ In q (emitted_queries (pipeline str tq_plain tq_corr ds))
    /\ ~ In q (emitted_queries (pipeline str tq_plain tq_corr p)).
Proof.
  exists dup_docs, dup_order.
  eexists. split; [|split].
  - unfold dup_order, dup_docs. apply perm_swap.
  - vm_compute. right. left. reflexivity.
  - vm_compute. intros [H|[H|[]]]; discriminate H.
Qed.

(* ------------------------------------------------------------------------------------------ *)
(* Part F: independence of the document order.
   Proof device: the denotation of a rule computed from the documents alone (references looked up by
   key, no positions, no order), shown to be what the conversion stores for the rule. *)
Fixpoint mapM {A B} (f : A -> option B) (l : list A) : option (list B) :=
  match l with
  | [] => Some []
  | x :: t => match f x, mapM f t with
              | Some y, Some ys => Some (y :: ys)
              | _, _ => None
              end
  end.

Lemma mapM_mono {A B} (f g : A -> option B) :
  (forall a b, f a = Some b -> g a = Some b) ->
  forall l bs, mapM f l = Some bs -> mapM g l = Some bs.
Proof.
  intros H. induction l as [|x t IH]; simpl; intros bs E; [assumption|].
  destruct (f x) as [y|] eqn:Ef; [|discriminate].
  destruct (mapM f t) as [ys|] eqn:Et; [|discriminate].
  rewrite (H _ _ Ef), (IH _ eq_refl). assumption.
Qed.

Lemma mapM_ext {A B} (f g : A -> option B) : (forall a, f a = g a) -> forall l, mapM f l = mapM g l.
Proof. intros H. induction l as [|x t IH]; simpl; [reflexivity|]. now rewrite H, IH. Qed.

Definition lookupD (ds : list doc) (r : ref) : option doc :=
  match lookup ds r with Some i => nth_error ds i | None => None end.

(* --- unique keys --- *)
Definition keyl (r : ref) (ds : list doc) : list str :=
  match r with RName _ => names ds | RId _ => ids ds end.
Definition kstr (r : ref) : str := match r with RName n => n | RId n => n end.
Definition key1 (r : ref) (d : doc) : list str :=
  match r with
  | RName _ => match d_name d with Some n => [n] | None => [] end
  | RId _ => match d_id d with Some n => [n] | None => [] end
  end.

Lemma keyl_cons r d t : keyl r (d :: t) = key1 r d ++ keyl r t.
Proof. destruct r; reflexivity. Qed.

Lemma matches_key1 r d : matches r d = true -> In (kstr r) (key1 r d).
Proof.
  destruct r as [u|n]; simpl.
  - destruct (d_id d) as [v|]; [|discriminate]. intros H. apply str_eqb_eq in H. subst. now left.
  - destruct (d_name d) as [v|]; [|discriminate]. intros H. apply str_eqb_eq in H. subst. now left.
Qed.

Lemma matches_keyl r d ds : In d ds -> matches r d = true -> In (kstr r) (keyl r ds).
Proof.
  induction ds as [|x t IH]; intros Hin Hm; [contradiction|].
  rewrite keyl_cons. apply in_or_app. destruct Hin as [->|Hin].
  - left. now apply matches_key1.
  - right. now apply IH.
Qed.

Lemma unique_keys_keyl ds r : unique_keys ds -> NoDup (keyl r ds).
Proof. intros [H1 H2]. destruct r; assumption. Qed.

Lemma NoDup_app_r {A} (a b : list A) : NoDup (a ++ b) -> NoDup b.
Proof. induction a as [|x a IH]; simpl; [auto|]. intros H. inversion H; auto. Qed.

Lemma unique_position r : forall ds i i' d1 d2,
  NoDup (keyl r ds) -> nth_error ds i = Some d1 -> nth_error ds i' = Some d2 ->
  matches r d1 = true -> matches r d2 = true -> i = i'.
Proof.
  induction ds as [|d t IH]; intros i i' d1 d2 Hnd H1 H2 M1 M2.
  - destruct i; discriminate.
  - rewrite keyl_cons in Hnd. destruct i as [|i], i' as [|i']; simpl in *.
    + reflexivity.
    + exfalso. inversion H1; subst. apply nth_error_In in H2.
      eapply NoDup_app_disjoint; [exact Hnd | apply matches_key1; eassumption | eapply matches_keyl; eassumption].
    + exfalso. inversion H2; subst. apply nth_error_In in H1.
      eapply NoDup_app_disjoint; [exact Hnd | apply matches_key1; eassumption | eapply matches_keyl; eassumption].
    + f_equal. eapply IH; eauto. eapply NoDup_app_r; eauto.
Qed.

Lemma lookupD_Some ds r d : lookupD ds r = Some d -> In d ds /\ matches r d = true.
Proof.
  unfold lookupD. destruct (lookup ds r) as [i|] eqn:E; [|discriminate].
  intros H. apply lookup_Some in E. destruct E as [d' [Hd Hm]].
  assert (d' = d) by congruence. subst. split; [eapply nth_error_In; eauto | assumption].
Qed.

Lemma lookupD_None ds r : lookupD ds r = None -> dangling ds r.
Proof.
  unfold lookupD. destruct (lookup ds r) as [i|] eqn:E.
  - apply lookup_Some in E. destruct E as [d [Hd _]]. congruence.
  - intros _. now apply lookup_None.
Qed.

Lemma lookupD_unique ds r d :
  unique_keys ds -> In d ds -> matches r d = true -> lookupD ds r = Some d.
Proof.
  intros Hu Hin Hm. unfold lookupD. destruct (lookup ds r) as [i|] eqn:E.
  - destruct (lookup_Some _ _ _ E) as [d' [Hd' Hm']].
    apply In_nth_error in Hin. destruct Hin as [k Hk].
    assert (i = k) by (eapply unique_position; eauto using unique_keys_keyl). subst. congruence.
  - apply lookup_None in E. rewrite (E d Hin) in Hm. discriminate.
Qed.

Lemma unique_keys_perm p ds : Permutation p ds -> unique_keys ds -> unique_keys p.
Proof.
  intros P [H1 H2]. split.
  - eapply Permutation_NoDup; [|exact H1]. unfold names. symmetry. now apply Permutation_flat_map.
  - eapply Permutation_NoDup; [|exact H2]. unfold ids. symmetry. now apply Permutation_flat_map.
Qed.

Lemma lookupD_perm p ds r : Permutation p ds -> unique_keys ds -> lookupD p r = lookupD ds r.
Proof.
  intros P Hu. destruct (lookupD ds r) as [d|] eqn:E.
  - apply lookupD_Some in E. destruct E as [Hin Hm].
    apply lookupD_unique; auto.
    + eapply unique_keys_perm; eauto.
    + eapply Permutation_in; [symmetry; exact P | exact Hin].
  - apply lookupD_None in E. destruct (lookupD p r) as [d'|] eqn:E'; [|reflexivity].
    apply lookupD_Some in E'. destruct E' as [Hin Hm].
    rewrite (E d') in Hm; [discriminate|]. eapply Permutation_in; eauto.
Qed.

Section Den.
  Variable Q : Type.
  Variable rplain : doc -> list Q.
  Variable rcorr : doc -> list (doc * list Q) -> list Q.

  Definition dstep (den : doc -> option (list Q)) (ds : list doc) (r : ref) : option (doc * list Q) :=
    match lookupD ds r with
    | Some d' => match den d' with Some q => Some (d', q) | None => None end
    | None => None
    end.

  Fixpoint denD (f : nat) (ds : list doc) (d : doc) : option (list Q) :=
    match f with
    | 0 => None
    | S f' => if is_corr d
              then match mapM (dstep (denD f' ds) ds) (doc_refs d) with
                   | Some subs => Some (rcorr d subs)
                   | None => None
                   end
              else Some (rplain d)
    end.

  Lemma denD_eq f ds d :
    denD (S f) ds d = if is_corr d
                      then match mapM (dstep (denD f ds) ds) (doc_refs d) with
                           | Some subs => Some (rcorr d subs)
                           | None => None
                           end
                      else Some (rplain d).
  Proof. reflexivity. Qed.

  Lemma denD_S f ds : forall d q, denD f ds d = Some q -> denD (S f) ds d = Some q.
  Proof.
    induction f as [|f IH]; intros d q H; [discriminate|].
    rewrite denD_eq in H. rewrite (denD_eq (S f)). destruct (is_corr d); [|assumption].
    destruct (mapM (dstep (denD f ds) ds) (doc_refs d)) as [subs|] eqn:E; [|discriminate].
    erewrite mapM_mono; [exact H | | exact E].
    intros r b. unfold dstep. destruct (lookupD ds r) as [d'|]; [|discriminate].
    destruct (denD f ds d') as [q'|] eqn:E'; [|discriminate].
    now rewrite (IH _ _ E').
  Qed.

  Lemma denD_mono f f' ds d q : f <= f' -> denD f ds d = Some q -> denD f' ds d = Some q.
  Proof. intros Hle; induction Hle; auto. intros Hq. apply denD_S. auto. Qed.

  Lemma denD_ext p ds : (forall r, lookupD p r = lookupD ds r) -> forall f d, denD f p d = denD f ds d.
  Proof.
    intros H. induction f as [|f IH]; intros d; [reflexivity|].
    rewrite !denD_eq. destruct (is_corr d); [|reflexivity].
    erewrite mapM_ext; [reflexivity|].
    intros r. unfold dstep. rewrite H. destruct (lookupD ds r); [|reflexivity]. now rewrite IH.
  Qed.

  Notation get := (get Q).
  Notation run := (run Q rplain rcorr).

  Section RunDen.
    Variable ds : list doc.
    Variable rr : list (list nat).
    Hypothesis Hr : resolve_all ds = Some rr.

    Definition RI (res : results Q) : Prop :=
      forall j qs, get res j = Some qs -> exists d f, nth_error ds j = Some d /\ denD f ds d = Some qs.

    Lemma resolved_row i d : nth_error ds i = Some d -> resolve_refs ds (doc_refs d) = Some (children rr i).
    Proof.
      intros Hd. pose proof (resolve_each_Some _ _ _ Hr) as F2.
      assert (L : forall (l : list doc) (l' : list (list nat)),
                 Forall2 (fun d js => resolve_refs ds (doc_refs d) = Some js) l l' ->
                 forall i d, nth_error l i = Some d -> resolve_refs ds (doc_refs d) = Some (nth i l' [])).
      { induction 1 as [|x y l l' Hxy _ IH]; intros k z Hz; destruct k; simpl in *; try discriminate.
        - inversion Hz; subst. assumption.
        - now apply IH. }
      exact (L _ _ F2 _ _ Hd).
    Qed.

    Lemma collect_den res : RI res -> forall rs js subs,
      Forall2 (fun r j => lookup ds r = Some j) rs js ->
      collect Q ds res js = Some subs ->
      exists F, mapM (dstep (denD F ds) ds) rs = Some subs.
    Proof.
      intros HRI. induction rs as [|r rs IH]; intros js subs HF Hc.
      - inversion HF; subst. simpl in Hc. inversion Hc; subst. exists 0. reflexivity.
      - inversion HF as [|? j ? js' Hl HF']; subst. simpl in Hc.
        destruct (nth_error ds j) as [d'|] eqn:Ed; [|discriminate].
        destruct (get res j) as [q'|] eqn:Eg; [|discriminate].
        destruct (collect Q ds res js') as [subs'|] eqn:Ec; [|discriminate].
        inversion Hc; subst.
        destruct (HRI _ _ Eg) as [d'' [f [Hd'' Hden]]].
        assert (d'' = d') by congruence. subst.
        destruct (IH _ _ HF' Ec) as [F' HF''].
        exists (Nat.max f F'). simpl.
        assert (E1 : dstep (denD (Nat.max f F') ds) ds r = Some (d', q')).
        { unfold dstep, lookupD. rewrite Hl, Ed.
          rewrite (denD_mono f _ _ _ _ (Nat.le_max_l f F') Hden). reflexivity. }
        rewrite E1. erewrite mapM_mono; [reflexivity | | exact HF''].
        intros a b. unfold dstep. destruct (lookupD ds a) as [x|]; [|discriminate].
        destruct (denD F' ds x) as [qx|] eqn:Ex; [|discriminate].
        now rewrite (denD_mono F' _ _ _ _ (Nat.le_max_r f F') Ex).
    Qed.

    Lemma conv_rule_den res i q : RI res ->
      conv_rule Q rplain rcorr ds rr res i = Some q ->
      exists d f, nth_error ds i = Some d /\ denD f ds d = Some q.
    Proof.
      intros HRI. unfold conv_rule. destruct (nth_error ds i) as [d|] eqn:Ed; [|discriminate].
      destruct (is_corr d) eqn:Ec.
      - destruct (collect Q ds res (children rr i)) as [subs|] eqn:E; [|discriminate].
        intros H. inversion H; subst.
        pose proof (resolve_refs_Some _ _ _ (resolved_row _ _ Ed)) as HF.
        destruct (collect_den res HRI _ _ _ HF E) as [F HFm].
        exists d, (S F). split; [reflexivity|]. rewrite denD_eq. now rewrite Ec, HFm.
      - intros H. inversion H; subst. exists d, 1. split; [reflexivity|]. rewrite denD_eq. now rewrite Ec.
    Qed.

    Lemma run_RI ac : forall ord res em res' em',
      run ac ds rr ord res em = Some (res', em') -> RI res -> RI res'.
    Proof.
      induction ord as [|i t IH]; simpl; intros res em res' em' H HRI.
      - inversion H; subst. assumption.
      - destruct (conv_rule Q rplain rcorr ds rr res i) as [q|] eqn:Ec; [|discriminate].
        eapply IH; [exact H|].
        intros j qs. rewrite get_cons. destruct (Nat.eqb i j) eqn:E.
        + apply Nat.eqb_eq in E. subst. intros Hq. inversion Hq; subst.
          eapply conv_rule_den; eauto.
        + apply HRI.
    Qed.
  End RunDen.

  (* does a rule emit, from the documents alone *)
  Definition emitsD (ds : list doc) (d : doc) : bool :=
    negb (existsb (fun c => is_corr c && negb (doc_generate c) && existsb (fun r => matches r d) (doc_refs c)) ds).

  Lemma emitsD_perm p ds d : Permutation p ds -> emitsD p d = emitsD ds d.
  Proof.
    intros P. unfold emitsD. f_equal.
    set (f := fun c => _).
    destruct (existsb f ds) eqn:E.
    - apply existsb_exists in E. destruct E as [x [Hx Hf]]. apply existsb_exists. exists x. split; auto.
      eapply Permutation_in; [symmetry; exact P | exact Hx].
    - destruct (existsb f p) eqn:E'; [|reflexivity].
      apply existsb_exists in E'. destruct E' as [x [Hx Hf]].
      assert (existsb f ds = true) by (apply existsb_exists; exists x; split; auto; eapply Permutation_in; eauto).
      congruence.
  Qed.

  Lemma Forall2_In_l {A B} (R : A -> B -> Prop) l l' x :
    Forall2 R l l' -> In x l -> exists y, In y l' /\ R x y.
  Proof.
    induction 1 as [|a b l l' Hab _ IH]; intros Hin; [contradiction|].
    destruct Hin as [<-|Hin]; [exists b; split; [now left | assumption]|].
    destruct (IH Hin) as [y [Hy Hxy]]. exists y. split; [now right | assumption].
  Qed.

  Lemma output_flag_emitsD ds rr i d :
    resolve_all ds = Some rr -> unique_keys ds -> nth_error ds i = Some d ->
    output_flag ds rr i = emitsD ds d.
  Proof.
    intros Hr Hu Hd.
    assert (H : output_flag ds rr i = false <-> emitsD ds d = false).
    { rewrite (output_flag_false _ _ i Hr). unfold emitsD. rewrite negb_false_iff, existsb_exists. split.
      - intros [k [c [Hc [Hcorr [Hg Hi]]]]]. exists c. split; [eapply nth_error_In; eauto|].
        rewrite Hcorr, Hg. simpl. apply existsb_exists.
        destruct (resolved_children _ _ _ _ Hr Hi) as [c' [Hc' [r [Hrin Hl]]]].
        assert (c' = c) by congruence. subst. exists r. split; [assumption|].
        destruct (lookup_Some _ _ _ Hl) as [t [Ht Hm]]. congruence.
      - intros [c [Hcin H]]. apply andb_true_iff in H. destruct H as [H H3].
        apply andb_true_iff in H. destruct H as [H1 H2]. apply negb_true_iff in H2.
        apply existsb_exists in H3. destruct H3 as [r [Hrin Hm]].
        apply In_nth_error in Hcin. destruct Hcin as [k Hk].
        exists k, c. repeat split; auto.
        pose proof (resolve_refs_Some _ _ _ (resolved_row ds rr Hr _ _ Hk)) as HF.
        destruct (Forall2_In_l _ _ _ _ HF Hrin) as [j [Hj Hl]].
        destruct (lookup_Some _ _ _ Hl) as [t [Ht Hmt]].
        assert (j = i) by (eapply unique_position; eauto using unique_keys_keyl). subst. exact Hj. }
    destruct (output_flag ds rr i), (emitsD ds d); try reflexivity.
    - destruct H as [_ H]. discriminate (H eq_refl).
    - destruct H as [H _]. discriminate (H eq_refl).
  Qed.

  Definition G (F : nat) (ds : list doc) (d : doc) : list (doc * Q) :=
    if emitsD ds d then map (pair d) (match denD F ds d with Some q => q | None => [] end) else [].

  Lemma map_flat_map {A B C} (f : B -> C) (g : A -> list B) l :
    map f (flat_map g l) = flat_map (fun x => map f (g x)) l.
  Proof. induction l as [|x t IH]; simpl; [reflexivity|]. now rewrite map_app, IH. Qed.

  Lemma flat_map_ext_in {A B} (f g : A -> list B) l :
    (forall x, In x l -> f x = g x) -> flat_map f l = flat_map g l.
  Proof.
    induction l as [|x t IH]; simpl; intros H; [reflexivity|].
    rewrite (H x) by now left. rewrite IH; [reflexivity|]. intros y Hy. apply H. now right.
  Qed.

  Lemma flat_map_seq_nth {B} (g : doc -> list B) ds :
    flat_map (fun i => g (nth i ds no_doc)) (seq 0 (length ds)) = flat_map g ds.
  Proof.
    induction ds as [|d t IH]; [reflexivity|].
    cbn [length seq flat_map]. cbn [nth]. f_equal.
    rewrite <- seq_shift, flat_map_concat_map, map_map, <- flat_map_concat_map. exact IH.
  Qed.

  Lemma common_fuel ds (res : results Q) : forall l,
    (forall i, In i l -> exists d f, nth_error ds i = Some d /\ denD f ds d = Some (own Q res i)) ->
    exists F, forall i, In i l -> exists d, nth_error ds i = Some d /\ denD F ds d = Some (own Q res i).
  Proof.
    induction l as [|k t IH]; intros H.
    - exists 0. intros i [].
    - destruct IH as [F' HF']; [intros i Hi; apply H; now right|].
      destruct (H k (or_introl eq_refl)) as [d [f [Hd Hden]]].
      exists (Nat.max f F'). intros i [<-|Hi].
      + exists d. split; [assumption|]. eapply denD_mono; [apply Nat.le_max_l | exact Hden].
      + destruct (HF' i Hi) as [d' [Hd' Hden']]. exists d'. split; [assumption|].
        eapply denD_mono; [apply Nat.le_max_r | exact Hden'].
  Qed.

  Lemma pipeline_emitted_den ds c :
    pipeline Q rplain rcorr ds = Ok c -> unique_keys ds ->
    exists F, (forall d, In d ds -> denD F ds d <> None) /\
              Permutation (by_doc ds (c_emitted c)) (flat_map (G F ds) ds).
  Proof.
    intros H Hu. destruct (pipeline_Ok _ _ _ _ _ H) as [rr [Hr [_ [_ Hrun]]]].
    destruct (order_conv_perm _ _ _ _ _ H) as [_ P2].
    assert (N2 : NoDup (c_order_conv c)) by (eapply Permutation_NoDup; [symmetry; exact P2 | apply seq_NoDup]).
    destruct (run_emitted Q rplain rcorr ds rr _ _ _ _ _ N2 Hrun) as [E Hall]. simpl in E.
    assert (HRI : RI ds (c_results c)).
    { eapply run_RI; [exact Hr | exact Hrun |]. intros j qs Hq. discriminate. }
    destruct (common_fuel ds (c_results c) (c_order_conv c)) as [F HF].
    { intros i Hi. specialize (Hall i Hi). unfold own.
      destruct (get (c_results c) i) as [qs|] eqn:Eg; [|congruence]. apply HRI. assumption. }
    exists F. split.
    - intros d Hd. apply In_nth_error in Hd. destruct Hd as [i Hi].
      assert (Hio : In i (c_order_conv c)).
      { eapply Permutation_in; [symmetry; exact P2|]. apply in_seq.
        assert (i < length ds) by (apply nth_error_Some; congruence). lia. }
      destruct (HF i Hio) as [d' [Hd' Hden]]. assert (d' = d) by congruence. subst. congruence.
    - rewrite E. unfold by_doc. rewrite map_flat_map.
      rewrite (flat_map_ext_in _ (fun i => G F ds (nth i ds no_doc))).
      + rewrite (Permutation_flat_map _ P2). rewrite flat_map_seq_nth. apply Permutation_refl.
      + intros i Hi. destruct (HF i Hi) as [d [Hd Hden]].
        rewrite (nth_error_nth _ _ no_doc Hd). unfold G.
        rewrite <- (output_flag_emitsD _ _ _ _ Hr Hu Hd), Hden.
        destruct (output_flag ds rr i); [|reflexivity].
        rewrite map_map. cbn [fst snd]. rewrite (nth_error_nth _ _ no_doc Hd). reflexivity.
  Qed.

  Theorem emitted_order_independent p ds c' c :
    Permutation p ds -> unique_keys ds ->
    pipeline Q rplain rcorr p = Ok c' -> pipeline Q rplain rcorr ds = Ok c ->
    Permutation (by_doc p (c_emitted c')) (by_doc ds (c_emitted c)).
  Proof.
    intros P Hu Hp Hd.
    assert (Hup : unique_keys p) by (eapply unique_keys_perm; eauto).
    destruct (pipeline_emitted_den _ _ Hp Hup) as [F' [D' E']].
    destruct (pipeline_emitted_den _ _ Hd Hu) as [F [D E]].
    rewrite E', E.
    assert (HL : forall r, lookupD p r = lookupD ds r) by (intros r; now apply lookupD_perm).
    set (Fm := Nat.max F F').
    rewrite (flat_map_ext_in (G F' p) (G Fm ds) p).
    - rewrite (flat_map_ext_in (G F ds) (G Fm ds) ds).
      + now apply Permutation_flat_map.
      + intros d Hin. unfold G. destruct (denD F ds d) as [q|] eqn:Eq; [|now apply D in Eq].
        now rewrite (denD_mono F Fm _ _ _ (Nat.le_max_l F F') Eq).
    - intros d Hin. unfold G. rewrite (emitsD_perm _ _ _ P).
      destruct (denD F' p d) as [q|] eqn:Eq; [|now apply D' in Eq].
      rewrite <- (denD_ext p ds HL Fm d).
      now rewrite (denD_mono F' Fm _ _ _ (Nat.le_max_r F F') Eq).
  Qed.
End Den.

(* ---- success / failure is the same in every order ---- *)
Lemma has_dangling_perm p ds : Permutation p ds -> has_dangling p -> has_dangling ds.
Proof.
  intros P [c [r [Hc [Hr Hd]]]]. exists c, r. repeat split; auto.
  - eapply Permutation_in; eauto.
  - intros d Hin. apply Hd. eapply Permutation_in; [symmetry; exact P | exact Hin].
Qed.

Lemma clos_trans_map {A B} (R : A -> A -> Prop) (R' : B -> B -> Prop) (g : A -> B) :
  (forall x y, R x y -> R' (g x) (g y)) ->
  forall x y, clos_trans A R x y -> clos_trans B R' (g x) (g y).
Proof.
  intros H x y C. induction C as [x y Hxy | x y z _ IH1 _ IH2].
  - apply t_step. auto.
  - eapply t_trans; eauto.
Qed.

Lemma acyclic_docs_index ds rr : resolve_all ds = Some rr -> acyclic_docs ds -> acyclic rr.
Proof.
  intros Hr Hac i C. apply (Hac (nth i ds no_doc)).
  revert C. apply (clos_trans_map (refers rr) (refers_doc ds) (fun x => nth x ds no_doc)).
  intros c r Hcr. unfold refers in Hcr.
  destruct (resolved_children _ _ _ _ Hr Hcr) as [d [Hd [x [Hx Hl]]]].
  destruct (lookup_Some _ _ _ Hl) as [t [Ht Hm]].
  rewrite (nth_error_nth _ _ no_doc Hd), (nth_error_nth _ _ no_doc Ht).
  repeat split; eauto using nth_error_In.
Qed.

Lemma acyclic_docs_perm p ds : Permutation p ds -> acyclic_docs ds -> acyclic_docs p.
Proof.
  intros P Hac d C. apply (Hac d). revert C.
  apply (clos_trans_map (refers_doc p) (refers_doc ds) (fun x => x)).
  intros x y [H1 [H2 H3]]. repeat split; auto; eapply Permutation_in; eauto.
Qed.

Theorem order_independent Q rplain rcorr p ds :
  Permutation p ds -> unique_keys ds -> acyclic_docs ds ->
  same_outcome p ds (pipeline Q rplain rcorr p) (pipeline Q rplain rcorr ds).
Proof.
  intros P Hu Hac. unfold same_outcome.
  destruct (resolve_all ds) as [rr|] eqn:Er.
  - destruct (resolve_all p) as [rr'|] eqn:Er'.
    + destruct (pipeline_total Q rplain rcorr ds rr Er (acyclic_docs_index _ _ Er Hac)) as [c Hc].
      destruct (pipeline_total Q rplain rcorr p rr' Er'
                  (acyclic_docs_index _ _ Er' (acyclic_docs_perm _ _ P Hac))) as [c' Hc'].
      rewrite Hc, Hc'. eapply emitted_order_independent; eauto.
    + apply resolve_all_None in Er'. apply (has_dangling_perm _ _ P) in Er'.
      apply resolve_all_None in Er'. congruence.
  - assert (Hd : has_dangling ds) by now apply resolve_all_None.
    assert (Hp : has_dangling p) by (eapply has_dangling_perm; [symmetry; exact P | exact Hd]).
    apply (pipeline_missing_ref Q rplain rcorr) in Hd. apply (pipeline_missing_ref Q rplain rcorr) in Hp.
    rewrite Hd, Hp. reflexivity.
Qed.

Lemma by_title_by_doc {Q} ds (em : list (nat * Q)) :
  by_title ds em = map (fun dq => (d_title (fst dq), snd dq)) (by_doc ds em).
Proof. unfold by_title, by_doc. rewrite map_map. reflexivity. Qed.

Theorem order_independent_by_title Q rplain rcorr p ds c' c :
  Permutation p ds -> unique_keys ds ->
  pipeline Q rplain rcorr p = Ok c' -> pipeline Q rplain rcorr ds = Ok c ->
  Permutation (by_title p (c_emitted c')) (by_title ds (c_emitted c)).
Proof.
  intros P Hu Hp Hd. rewrite !by_title_by_doc. apply Permutation_map.
  eapply emitted_order_independent; eauto.
Qed.

(* the premises are inhabited by the witness rule set of D22 *)
Lemma wit_premises : unique_keys wit_docs /\ acyclic_docs wit_docs.
Proof.
  split.
  - split; vm_compute; repeat constructor; simpl; intuition discriminate.
  - assert (Hr : resolve_all wit_docs = Some [[]; []; []; [0; 1]; [3; 2]]) by reflexivity.
    (* rank: documents are ranked by their position; every reference points to a smaller position *)
    set (rank := fun d : doc => match d_title d with [97%N] => 0 | [98%N] => 1 | [117%N] => 2 | [99%N] => 3 | _ => 4 end).
    assert (E : forall c d, refers_doc wit_docs c d -> rank d < rank c).
    { intros c d [Hc [Hd [r [Hrin Hm]]]].
      simpl in Hc, Hd.
      repeat (destruct Hc as [<-|Hc]; [simpl in Hrin|]); try contradiction;
      repeat (destruct Hrin as [<-|Hrin]; [|]); try contradiction;
      repeat (destruct Hd as [<-|Hd]; [try discriminate Hm; try (vm_compute; lia)|]); try contradiction. }
    assert (T : forall c d, clos_trans doc (refers_doc wit_docs) c d -> rank d < rank c).
    { intros c d C. induction C; [auto | lia]. }
    intros d C. apply T in C. lia.
Qed.

(* ------------------------------------------------------------------------------------------ *)
(* Part G: reference cycles.  A conversion that succeeds has met every referenced rule before its
   referrers, so the reference graph is acyclic; a cyclic rule set fails in EVERY order. *)
Lemma clos_trans_first {A} (R : A -> A -> Prop) x y : clos_trans A R x y -> exists z, R x z.
Proof. induction 1 as [x y H | x y z _ IH1 _ _]; eauto. Qed.
Lemma clos_trans_last {A} (R : A -> A -> Prop) x y : clos_trans A R x y -> exists z, R z y.
Proof. induction 1 as [x y H | x y z _ _ _ IH2]; eauto. Qed.

Section Cycles.
  Variable Q : Type.
  Variable rplain : doc -> list Q.
  Variable rcorr : doc -> list (doc * list Q) -> list Q.

  Lemma collect_Some ds res : forall js subs,
    collect Q ds res js = Some subs -> forall j, In j js -> get Q res j <> None.
  Proof.
    induction js as [|k t IH]; simpl; intros subs H j Hj; [contradiction|].
    destruct (nth_error ds k) as [d|]; [|discriminate].
    destruct (get Q res k) as [q|] eqn:Eg; [|discriminate].
    destruct (collect Q ds res t) as [l|] eqn:Ec; [|discriminate].
    destruct Hj as [<-|Hj]; [congruence | eapply IH; eauto].
  Qed.

  Lemma run_Some_closed ds rr ac : resolve_all ds = Some rr ->
    forall ord pre res em r,
      (forall j, get Q res j <> None -> In j pre) ->
      run Q rplain rcorr ac ds rr ord res em = Some r ->
      forall l1 i l2, ord = l1 ++ i :: l2 -> incl (children rr i) (pre ++ l1).
  Proof.
    intros Hr. induction ord as [|k t IH]; intros pre res em r Hpre H l1 i l2 E.
    - destruct l1; discriminate.
    - simpl in H. destruct (conv_rule Q rplain rcorr ds rr res k) as [q|] eqn:Ec; [|discriminate].
      destruct l1 as [|k' l1']; simpl in E; inversion E; subst.
      + rewrite app_nil_r. unfold conv_rule in Ec.
        destruct (nth_error ds i) as [d|] eqn:Ed; [|discriminate].
        destruct (is_corr d) eqn:Ecorr.
        * destruct (collect Q ds res (children rr i)) as [subs|] eqn:Ecol; [|discriminate].
          intros j Hj. apply Hpre. eapply collect_Some; eauto.
        * rewrite (plain_no_children _ _ _ _ Hr Ed Ecorr). intros j [].
      + replace (pre ++ k' :: l1') with ((pre ++ [k']) ++ l1') by (rewrite <- app_assoc; reflexivity).
        eapply IH; [|exact H|reflexivity].
        intros j. rewrite get_cons. destruct (Nat.eqb k' j) eqn:Ek.
        * apply Nat.eqb_eq in Ek. subst. intros _. apply in_or_app. right. now left.
        * intros Hg. apply in_or_app. left. now apply Hpre.
  Qed.

  Lemma topo_ok_acyclic rr ord :
    topo_ok rr ord -> NoDup ord -> (forall c r, refers rr c r -> In c ord) -> acyclic rr.
  Proof.
    intros Ht Hnd Hin.
    (* prefixes of the order are closed under reachability *)
    assert (Cl : forall x y, clos_trans nat (refers rr) x y ->
                 forall l1 l2, ord = l1 ++ l2 -> In x l1 -> In y l1).
    { induction 1 as [x y Hxy | x y z _ IH1 _ IH2]; intros l1 l2 E Hx.
      - apply in_split in Hx. destruct Hx as [a [b ->]].
        rewrite <- app_assoc in E. simpl in E.
        apply in_or_app. left. eapply (Ht a x (b ++ l2)); eauto.
      - eapply IH2; eauto. }
    intros x C.
    assert (Hx : In x ord).
    { destruct (clos_trans_first _ _ _ C) as [z Hz]. eapply Hin; eauto. }
    apply in_split in Hx. destruct Hx as [a [b E]].
    assert (Hxa : In x a).
    { apply clos_trans_t1n in C. inversion C as [y H | y z H C']; subst.
      - eapply (Ht a x b); eauto.
      - apply clos_t1n_trans in C'. eapply (Cl _ _ C' a (x :: b)); eauto.
        eapply (Ht a x b); eauto. }
    rewrite E in Hnd. apply NoDup_remove_2 in Hnd. apply Hnd. apply in_or_app. now left.
  Qed.

  Theorem pipeline_Ok_acyclic ds c rr :
    pipeline Q rplain rcorr ds = Ok c -> resolve_all ds = Some rr -> acyclic rr.
  Proof.
    intros H Hr. destruct (pipeline_Ok _ _ _ _ _ H) as [rr' [Hr' [_ [_ Hrun]]]].
    assert (rr' = rr) by congruence. subst rr'.
    destruct (order_conv_perm _ _ _ _ _ H) as [_ P2].
    apply (topo_ok_acyclic rr (c_order_conv c)).
    - intros l1 i l2 E. eapply (run_Some_closed ds rr false Hr _ [] [] []); eauto.
      intros j Hj. simpl in Hj. congruence.
    - eapply Permutation_NoDup; [symmetry; exact P2 | apply seq_NoDup].
    - intros x r Hxr. eapply Permutation_in; [symmetry; exact P2|]. apply in_seq.
      destruct (resolved_bound _ _ _ _ Hr Hxr). lia.
  Qed.

  Lemma pipeline_cases ds rr : resolve_all ds = Some rr ->
    (exists c, pipeline Q rplain rcorr ds = Ok c) \/ pipeline Q rplain rcorr ds = SigmaErr E_Conversion.
  Proof.
    intros Hr. unfold pipeline, load. rewrite Hr.
    destruct (run Q rplain rcorr false ds rr _ [] []) as [[res em]|]; eauto.
  Qed.

  (* document-level cycle from a position-level one needs no premise (acyclic_docs_index); the converse
     needs unique keys *)
  Lemma refers_doc_index ds rr : resolve_all ds = Some rr -> unique_keys ds ->
    forall c d, clos_trans doc (refers_doc ds) c d ->
    forall i, nth_error ds i = Some c ->
    exists j, nth_error ds j = Some d /\ clos_trans nat (refers rr) i j.
  Proof.
    intros Hr Hu. induction 1 as [c d [Hc [Hd [r [Hrin Hm]]]] | c d e _ IH1 _ IH2]; intros i Hi.
    - pose proof (lookupD_unique _ _ _ Hu Hd Hm) as HL. unfold lookupD in HL.
      destruct (lookup ds r) as [j|] eqn:El; [|discriminate].
      exists j. split; [assumption|]. apply t_step. unfold refers.
      pose proof (resolve_refs_Some _ _ _ (resolved_row ds rr Hr _ _ Hi)) as HF.
      destruct (Forall2_In_l _ _ _ _ HF Hrin) as [j' [Hj' Hl']].
      assert (j' = j) by congruence. subst. exact Hj'.
    - destruct (IH1 _ Hi) as [j [Hj C1]]. destruct (IH2 _ Hj) as [k [Hk C2]].
      exists k. split; [assumption | eapply t_trans; eauto].
  Qed.

  Lemma acyclic_index_docs ds rr : resolve_all ds = Some rr -> unique_keys ds -> acyclic rr -> acyclic_docs ds.
  Proof.
    intros Hr Hu Hac c C.
    (* the last step of the cycle tells that c carries a key *)
    assert (Hlast : exists x r, In r (doc_refs x) /\ matches r c = true /\ In c ds).
    { destruct (clos_trans_last _ _ _ C) as [z [_ [Hd [r [? ?]]]]]. eauto. }
    destruct Hlast as [x [r [_ [Hm Hc]]]].
    apply In_nth_error in Hc. destruct Hc as [i Hi].
    destruct (refers_doc_index ds rr Hr Hu _ _ C _ Hi) as [j [Hj Cj]].
    assert (j = i) by (eapply unique_position; eauto using unique_keys_keyl). subst.
    exact (Hac _ Cj).
  Qed.

  (* THE PROPERTY at full strength on rule sets with unique keys: cycles included *)
  Theorem order_independent_full p ds :
    Permutation p ds -> unique_keys ds ->
    same_outcome p ds (pipeline Q rplain rcorr p) (pipeline Q rplain rcorr ds).
  Proof.
    intros P Hu.
    assert (Hup : unique_keys p) by (eapply unique_keys_perm; eauto).
    unfold same_outcome.
    destruct (resolve_all ds) as [rr|] eqn:Er.
    - destruct (resolve_all p) as [rr'|] eqn:Er'.
      + assert (T : forall a b ra rb, Permutation a b -> unique_keys a -> unique_keys b ->
                     resolve_all a = Some ra -> resolve_all b = Some rb ->
                     (exists c, pipeline Q rplain rcorr a = Ok c) -> exists c, pipeline Q rplain rcorr b = Ok c).
        { intros a b ra rb Pab Ua Ub Ra Rb [c Hc].
          apply (pipeline_total Q rplain rcorr b rb Rb).
          apply (acyclic_docs_index _ _ Rb).
          apply (acyclic_docs_perm b a); [now symmetry|].
          apply (acyclic_index_docs a ra Ra Ua).
          eapply pipeline_Ok_acyclic; eauto. }
        destruct (pipeline_cases ds rr Er) as [[c Hc]|Hc], (pipeline_cases p rr' Er') as [[c' Hc']|Hc'].
        * rewrite Hc, Hc'. eapply emitted_order_independent; eauto.
        * destruct (T ds p rr rr') as [c' Hc'']; eauto; [now symmetry|]. congruence.
        * destruct (T p ds rr' rr) as [c Hc'']; eauto. congruence.
        * rewrite Hc, Hc'. reflexivity.
      + apply resolve_all_None in Er'. apply (has_dangling_perm _ _ P) in Er'.
        apply resolve_all_None in Er'. congruence.
    - assert (Hd : has_dangling ds) by now apply resolve_all_None.
      assert (Hp : has_dangling p) by (eapply has_dangling_perm; [symmetry; exact P | exact Hd]).
      apply (pipeline_missing_ref Q rplain rcorr) in Hd. apply (pipeline_missing_ref Q rplain rcorr) in Hp.
      rewrite Hd, Hp. reflexivity.
  Qed.
End Cycles.

(* the executable premise used by the correspondence judge is the premise of the theorems *)
Lemma nodupb_NoDup l : nodupb l = true <-> NoDup l.
Proof.
  induction l as [|x t IH]; simpl.
  - split; [constructor | reflexivity].
  - rewrite andb_true_iff, negb_true_iff, IH. split.
    + intros [H1 H2]. constructor; [|assumption]. intros Hin.
      assert (existsb (str_eqb x) t = true); [|congruence].
      apply existsb_exists. exists x. split; [assumption | apply str_eqb_refl].
    + intros H. inversion H as [|? ? Hn Hd]; subst. split; [|assumption].
      destruct (existsb (str_eqb x) t) eqn:E; [|reflexivity].
      apply existsb_exists in E. destruct E as [y [Hy He]]. apply str_eqb_eq in He. subst. contradiction.
Qed.

Lemma unique_keysb_spec ds : unique_keysb ds = true <-> unique_keys ds.
Proof. unfold unique_keysb, unique_keys. now rewrite andb_true_iff, !nodupb_NoDup. Qed.

(* ------------------------------------------------------------------------------------------ *)
(* the ordering step leaves an already ordered list alone: Backend.convert's second resolution keeps
   the order the collection got when it was loaded *)
Lemma visits_all_marked rr M f : forall js st,
  (forall j, In j js -> In j (fst st)) -> visits f rr M js st = st.
Proof.
  induction js as [|j t IH]; intros st H; [reflexivity|].
  rewrite visits_cons.
  assert (E : visit f rr M j st = st).
  { destruct f as [|f]; [reflexivity|]. rewrite visit_S.
    assert (Hm : memn j (fst st) = true) by (apply memn_In, H; now left).
    now rewrite Hm. }
  rewrite E. apply IH. intros x Hx. apply H. now right.
Qed.

Lemma topo_fixpoint rr M : NoDup M -> topo_ok rr M -> topo rr M = M.
Proof.
  intros Hnd Ht. unfold topo. fold (visits (S (length M)) rr M M ([], [])).
  set (F := S (length M)).
  assert (L : forall l2 l1, M = l1 ++ l2 -> visits F rr M l2 (rev l1, l1) = (rev M, M)).
  { induction l2 as [|i t IH]; intros l1 E.
    - rewrite app_nil_r in E. subst. reflexivity.
    - rewrite visits_cons.
      assert (Hi1 : ~ In i l1).
      { rewrite E in Hnd. apply NoDup_remove_2 in Hnd. intros H. apply Hnd. apply in_or_app. now left. }
      assert (HiM : In i M) by (rewrite E; apply in_or_app; right; now left).
      assert (E1 : memn i (rev l1) = false) by (apply memn_false; now rewrite <- in_rev).
      assert (E2 : memn i M = true) by now apply memn_In.
      assert (Step : visit F rr M i (rev l1, l1) = (rev (l1 ++ [i]), l1 ++ [i])).
      { unfold F. rewrite visit_S. cbn [fst snd]. rewrite E1, E2. cbn [orb negb].
        rewrite visits_all_marked.
        - cbn [fst snd]. rewrite rev_app_distr. reflexivity.
        - cbn [fst]. intros j Hj. right. rewrite <- in_rev. eapply (Ht l1 i t); eauto. }
      rewrite Step. apply IH. rewrite <- app_assoc. exact E. }
  change (([] : list nat), ([] : list nat)) with (rev (@nil nat), @nil nat).
  rewrite (L M []); reflexivity.
Qed.

Theorem order_conv_eq_load Q rplain rcorr ds c rr :
  pipeline Q rplain rcorr ds = Ok c -> resolve_all ds = Some rr -> c_order_conv c = c_order_load c.
Proof.
  intros H Hr. pose proof (pipeline_Ok_acyclic Q rplain rcorr ds c rr H Hr) as Hac.
  destruct (pipeline_Ok _ _ _ _ _ H) as [rr' [Hr' [E1 [E2 _]]]].
  assert (rr' = rr) by congruence. subst rr'.
  assert (El : load ds = Ok (rr, c_order_load c)) by (unfold load; rewrite Hr, E1; reflexivity).
  destruct (load_topo _ _ _ El Hac) as [P1 [T1 _]].
  rewrite E2. apply topo_fixpoint; [|exact T1].
  eapply Permutation_NoDup; [symmetry; exact P1 | apply seq_NoDup].
Qed.
