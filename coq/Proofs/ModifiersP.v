(* Proofs about the model of the modifier chain (Model/Modifiers.v): no Python crash escapes,
   'all' / 'neq' only touch the flags, and the model refines the item-level specification
   (Spec/ModSpec.v). *)
From Coq Require Import NArith ZArith List Bool Lia.
From PS Require Import Base.Chars Base.Outcome Model.SString Model.ModBytes Model.Modifiers
                       Spec.Items Spec.ModSpec Proofs.SStringP Proofs.ModSpecP.
Import ListNotations.
Open Scope N_scope.

(* ---------- induction principle for values (nested expansions) ---------- *)
Section GvalInd.
  Variable S : Type.
  Variable P : gval S -> Prop.
  Hypothesis Ha : forall a, P (VAtom a).
  Hypothesis He : forall l, Forall P l -> P (VExp l).
  Fixpoint gval_ind' (v : gval S) : P v :=
    match v with
    | VAtom a => Ha a
    | VExp l => He l ((fix go (l : list (gval S)) : Forall P l :=
                         match l with
                         | [] => Forall_nil P
                         | x :: r => Forall_cons x (gval_ind' x) (go r)
                         end) l)
    end.
End GvalInd.

(* ---------- no crash ---------- *)
Definition nocrash {A} (x : outcome A) : Prop := match x with Crash _ => False | _ => True end.

Lemma nocrash_bind {A B} (x : outcome A) (f : A -> outcome B) :
  nocrash x -> (forall a, nocrash (f a)) -> nocrash (obind x f).
Proof. destruct x; simpl; auto. Qed.

Lemma compile_nocrash O v a b c : nocrash (compile O v a b c).
Proof. unfold compile. destruct (re_ok O _); exact I. Qed.

Lemma modify_nocrash O field applied m a :
  type_check m a = true -> nocrash (modify O field applied m a).
Proof.
  intros H.
  destruct m as [| | | | | | |p|f| | | | |o| | | | | |]; try destruct f;
  destruct a; simpl in H; try discriminate H; cbn [modify ok_atom];
  repeat match goal with
         | |- nocrash (compile _ _ _ _ _) => apply compile_nocrash
         | |- nocrash (if ?b then _ else _) => destruct b
         | |- nocrash (match ?x with _ => _ end) => destruct x
         end; try exact I.
Qed.

Lemma apply_val_nocrash O field applied m : forall v, nocrash (apply_val O field applied m v).
Proof.
  induction v as [a|l IH] using gval_ind'.
  - cbn [apply_val]. destruct (type_check m a) eqn:E; [|exact I].
    apply nocrash_bind; [apply modify_nocrash; exact E | intros; exact I].
  - cbn [apply_val]. apply nocrash_bind; [|intros; exact I].
    induction IH as [|x r Hx Hr IHr]; [exact I|].
    apply nocrash_bind; [exact Hx|]. intros a. apply nocrash_bind; [exact IHr | intros; exact I].
Qed.

Lemma flat_mapM_nocrash {A B} (f : A -> outcome (list B)) l :
  (forall x, nocrash (f x)) -> nocrash (flat_mapM f l).
Proof.
  intros H. induction l as [|x r IH]; [exact I|]. cbn [flat_mapM].
  apply nocrash_bind; [apply H|]. intros a. apply nocrash_bind; [exact IH | intros; exact I].
Qed.

Lemma step_nocrash O field applied m st : nocrash (step O field applied m st).
Proof.
  destruct m; cbn [step]; try exact I;
    (apply nocrash_bind; [apply flat_mapM_nocrash; apply apply_val_nocrash | intros; exact I]).
Qed.

Lemma run_chain_nocrash O field : forall ms applied st, nocrash (run_chain O field applied ms st).
Proof.
  induction ms as [|m ms IH]; intros; [exact I|]. cbn [run_chain].
  apply nocrash_bind; [apply step_nocrash | intros; apply IH].
Qed.

Lemma lookup_all_nocrash ids : nocrash (lookup_all ids).
Proof.
  induction ids as [|i r IH]; [exact I|]. cbn [lookup_all].
  destruct (lookup_modifier modifier_mapping i); [|exact I].
  apply nocrash_bind; [exact IH | intros; exact I].
Qed.

Lemma sigma_value_nocrash b v : nocrash (sigma_value b v).
Proof.
  destruct v; cbn [sigma_value]; try exact I;
    (apply nocrash_bind; [|intros; exact I]); cbn [sigma_number];
    repeat match goal with |- nocrash (if ?b then _ else _) => destruct b end; exact I.
Qed.

Lemma mapM_nocrash {A B} (f : A -> outcome B) l : (forall x, nocrash (f x)) -> nocrash (mapM f l).
Proof.
  intros H. induction l as [|x r IH]; [exact I|]. cbn [mapM].
  apply nocrash_bind; [apply H|]. intros a. apply nocrash_bind; [exact IH | intros; exact I].
Qed.

Theorem from_mapping_nocrash O key val : forall c, from_mapping O key val <> Crash c.
Proof.
  assert (H: nocrash (from_mapping O key val)).
  { unfold from_mapping. destruct (split_key key) as [field ids].
    apply nocrash_bind; [apply lookup_all_nocrash|]. intros ms.
    apply nocrash_bind; [apply mapM_nocrash; apply sigma_value_nocrash|]. intros vals.
    apply run_chain_nocrash. }
  intros c E. rewrite E in H. exact H.
Qed.

(* ---------- 'all' and 'neq' only touch the flags; the flags never influence the values ---------- *)
Definition is_all (m : modifier) : bool := match m with MAll => true | _ => false end.
Definition is_neq (m : modifier) : bool := match m with MNeq => true | _ => false end.

Lemma step_all O field applied st :
  step O field applied MAll st = Ok {| values := values st; link_and := true; negated := negated st |}.
Proof. reflexivity. Qed.
Lemma step_neq O field applied st :
  step O field applied MNeq st = Ok {| values := values st; link_and := link_and st; negated := true |}.
Proof. reflexivity. Qed.

Lemma step_flags O field applied m st st' :
  step O field applied m st = Ok st' ->
  link_and st' = (link_and st || is_all m) /\ negated st' = (negated st || is_neq m).
Proof.
  destruct m; cbn [step is_all is_neq]; intros H;
    try (inversion H; subst; cbn; rewrite ?orb_true_r, ?orb_false_r; auto; fail);
    (destruct (flat_mapM _ _); cbn in H; inversion H; subst; cbn; rewrite !orb_false_r; auto).
Qed.

Theorem run_chain_flags O field : forall ms applied st st',
  run_chain O field applied ms st = Ok st' ->
  link_and st' = (link_and st || existsb is_all ms) /\ negated st' = (negated st || existsb is_neq ms).
Proof.
  induction ms as [|m ms IH]; intros applied st st' H.
  - inversion H; subst. cbn. rewrite !orb_false_r. auto.
  - cbn [run_chain] in H. destruct (step O field applied m st) as [st1| |] eqn:E; try discriminate H.
    cbn [obind] in H. apply IH in H. apply step_flags in E. destruct H as [H1 H2], E as [E1 E2].
    cbn [existsb]. rewrite H1, H2, E1, E2, !orb_assoc. auto.
Qed.

(* the values (and whether the chain is rejected) do not depend on the flags *)
Definition same_values (a b : outcome item_state) : Prop :=
  match a, b with
  | Ok x, Ok y => values x = values y
  | SigmaErr c, SigmaErr d => c = d
  | Crash c, Crash d => c = d
  | _, _ => False
  end.

Lemma step_values_indep O field applied m st1 st2 :
  values st1 = values st2 -> same_values (step O field applied m st1) (step O field applied m st2).
Proof.
  intros E. destruct m; cbn [step]; try (cbn; exact E);
    (rewrite E; destruct (flat_mapM _ _); cbn; auto).
Qed.

Theorem run_chain_values_indep O field : forall ms applied st1 st2,
  values st1 = values st2 ->
  same_values (run_chain O field applied ms st1) (run_chain O field applied ms st2).
Proof.
  induction ms as [|m ms IH]; intros applied st1 st2 E; [exact E|].
  cbn [run_chain]. pose proof (step_values_indep O field applied m st1 st2 E) as H.
  destruct (step O field applied m st1), (step O field applied m st2); cbn in H |- *; try contradiction; auto.
Qed.

(* ====================================================================================== *)
(* Refinement: the part-level operations of the code equal the item-level specification   *)
(* ====================================================================================== *)

(* well-formed part lists: no empty string part, no two adjacent string parts (what the parser
   and every operation of the model produce; SigmaString.from_str("") is the one exception) *)
Definition str_empty (s : str) : bool := match s with [] => true | _ => false end.
Definition starts_pstr (v : sstring) : bool := match v with PStr _ :: _ => true | _ => false end.
Fixpoint wfp (v : sstring) : bool :=
  match v with
  | [] => true
  | PStr s :: v' => negb (str_empty s) && negb (starts_pstr v') && wfp v'
  | _ :: v' => wfp v'
  end.
Definition nonempty_part (p : part) : bool := match p with PStr [] => false | _ => true end.
Definition no_empty (v : sstring) : bool := forallb nonempty_part v.

Lemma items_cons p v : items (p :: v) = part_items p ++ items v.
Proof. reflexivity. Qed.

Lemma items_merge v : items (merge_strs v) = items v.
Proof.
  induction v as [|p v IH]; [reflexivity|].
  destruct p as [a| | |n]; cbn [merge_strs]; rewrite ?items_cons, ?IH; try reflexivity.
  destruct (merge_strs v) as [|[b| | |m] r] eqn:E; rewrite <- IH, ?items_cons; cbn [part_items];
    rewrite ?map_app, <- ?app_assoc; reflexivity.
Qed.

Lemma wfp_tail p v : wfp (p :: v) = true -> wfp v = true.
Proof. destruct p; cbn [wfp]; rewrite ?andb_true_iff; tauto. Qed.
Lemma wfp_no_empty v : wfp v = true -> no_empty v = true.
Proof.
  induction v as [|p v IH]; [reflexivity|]. intros H. cbn [no_empty forallb]. apply andb_true_iff. split.
  - destruct p as [[|c s]| | |n]; try reflexivity. discriminate H.
  - apply IH. exact (wfp_tail _ _ H).
Qed.

Lemma merge_wfp_id v : wfp v = true -> merge_strs v = v.
Proof.
  induction v as [|p v IH]; [reflexivity|]. destruct p as [s| | |n]; cbn [wfp merge_strs]; intros H;
    try (rewrite IH by exact H; reflexivity).
  apply andb_true_iff in H. destruct H as [H Hw]. apply andb_true_iff in H. destruct H as [_ Hs].
  rewrite IH by exact Hw. destruct v as [|[b| | |m] r]; try reflexivity. discriminate Hs.
Qed.

Lemma merge_no_empty_wfp v : no_empty v = true -> wfp (merge_strs v) = true.
Proof.
  induction v as [|p v IH]; [reflexivity|]. cbn [no_empty forallb]. rewrite andb_true_iff. intros [Hp Hv].
  specialize (IH Hv). destruct p as [a| | |n]; cbn [merge_strs]; try exact IH.
  destruct a as [|c a]; [discriminate Hp|].
  destruct (merge_strs v) as [|[b| | |m] r]; cbn [wfp str_empty starts_pstr app negb andb] in *; try exact IH; try reflexivity.
  apply andb_true_iff in IH. destruct IH as [IH1 IH2]. apply andb_true_iff in IH1. destruct IH1 as [_ IH1].
  rewrite IH1, IH2. reflexivity.
Qed.

Lemma no_empty_app a b : no_empty (a ++ b) = no_empty a && no_empty b.
Proof. apply forallb_app. Qed.

(* ---------- contains / startswith / endswith on strings ---------- *)
Lemma starts_multi_items v : no_empty v = true ->
  starts_multi v = match items v with Multi :: _ => true | _ => false end.
Proof. destruct v as [|[[|c s]| | |n] v]; try reflexivity. discriminate. Qed.

Lemma emi_app a b : b <> [] -> ends_multi_item (a ++ b) = ends_multi_item b.
Proof.
  intros Hb. induction a as [|i a IH]; [reflexivity|]. cbn [app].
  destruct (a ++ b) eqn:E; [destruct a; [subst; contradiction | discriminate E]|].
  rewrite <- IH. reflexivity.
Qed.
Lemma emi_lits s : ends_multi_item (map Lit s) = false.
Proof. induction s as [|c s IH]; [reflexivity|]. destruct s; [reflexivity|exact IH]. Qed.
Lemma part_items_nonempty p : nonempty_part p = true -> part_items p <> [].
Proof. destruct p as [[|c s]| | |n]; cbn; try discriminate; congruence. Qed.
Lemma items_nonempty v : v <> [] -> no_empty v = true -> items v <> [].
Proof.
  destruct v as [|p v]; [congruence|]. intros _ H. cbn [no_empty forallb] in H. apply andb_true_iff in H.
  destruct H as [H _]. apply part_items_nonempty in H. rewrite items_cons. intros E.
  apply app_eq_nil in E. tauto.
Qed.

Lemma ends_multi_items v : no_empty v = true -> ends_multi v = ends_multi_item (items v).
Proof.
  induction v as [|p v IH]; [reflexivity|]. intros H. pose proof H as H0.
  cbn [no_empty forallb] in H. apply andb_true_iff in H. destruct H as [Hp Hv].
  destruct v as [|q v'].
  - rewrite items_cons. cbn [items flat_map]. rewrite app_nil_r.
    destruct p as [[|c s]| | |n]; try reflexivity; try discriminate Hp.
    cbn [ends_multi is_multi part_items]. symmetry. apply (emi_lits (c :: s)).
  - change (ends_multi (p :: q :: v')) with (ends_multi (q :: v')). rewrite IH by exact Hv.
    rewrite (items_cons p). symmetry. apply emi_app. apply items_nonempty; [discriminate | exact Hv].
Qed.

Theorem add_multi_front_items v : no_empty v = true -> items (add_multi_front v) = sp_front (items v).
Proof.
  intros H. unfold add_multi_front, sp_front, sadd. rewrite (starts_multi_items v H).
  destruct (items v) as [|[c| | |n] l] eqn:E; rewrite ?items_merge; cbn [app]; rewrite ?items_cons, ?E; reflexivity.
Qed.
Theorem add_multi_back_items v : no_empty v = true -> items (add_multi_back v) = sp_back (items v).
Proof.
  intros H. unfold add_multi_back, sp_back, sadd. rewrite (ends_multi_items v H).
  destruct (ends_multi_item (items v)); [reflexivity|]. rewrite items_merge, items_app. reflexivity.
Qed.
Lemma add_multi_front_wfp v : wfp v = true -> wfp (add_multi_front v) = true.
Proof.
  intros H. unfold add_multi_front, sadd. destruct (starts_multi v); [exact H|].
  apply merge_no_empty_wfp. cbn. apply wfp_no_empty. exact H.
Qed.
Lemma add_multi_back_wfp v : wfp v = true -> wfp (add_multi_back v) = true.
Proof.
  intros H. unfold add_multi_back, sadd. destruct (ends_multi v); [exact H|].
  apply merge_no_empty_wfp. rewrite no_empty_app, (wfp_no_empty v H). reflexivity.
Qed.

(* ---------- windash ---------- *)
Definition no_ph (v : sstring) : bool := negb (existsb is_ph v).
(* no placeholder carrying the internal name used by windash *)
Definition no_wd_ph (v : sstring) : bool :=
  forallb (fun p => match p with PPh n => negb (str_eqb n windash_name) | _ => true end) v.
Lemma no_ph_no_wd_ph v : no_ph v = true -> no_wd_ph v = true.
Proof.
  unfold no_ph, no_wd_ph. induction v as [|p v IH]; [reflexivity|]. cbn [existsb forallb]. intros H.
  apply negb_true_iff in H. apply orb_false_iff in H. destruct H as [H1 H2].
  rewrite IH by (apply negb_true_iff; exact H2). destruct p; try reflexivity. discriminate H1.
Qed.
Definition not_lit_head (l : istr) : bool := match l with Lit _ :: _ => false | _ => true end.

Lemma variants_prev_irrelevant w l p q : not_lit_head l = true -> variants w p l = variants w q l.
Proof. destruct l as [|[c| | |n] l]; try reflexivity. discriminate. Qed.

Lemma rp_flush acc X : map items (rp (flush [] acc ++ X)) = map (app (map Lit acc)) (map items (rp X)).
Proof.
  destruct acc as [|c acc]; cbn [flush app].
  - cbn [map]. rewrite map_map. apply map_ext. reflexivity. 
  - cbn [rp]. rewrite !map_map. apply map_ext. intros y. reflexivity.
Qed.

Lemma map_flat_map {A B C} (f : B -> C) (g : A -> list B) l :
  map f (flat_map g l) = flat_map (fun a => map f (g a)) l.
Proof. induction l as [|a l IH]; [reflexivity|]. simpl. rewrite map_app, IH. reflexivity. Qed.

Lemma wd_scan_refines w R ir :
  not_lit_head ir = true -> map items (rp R) = variants w false ir ->
  forall e acc pw,
    map items (rp (wd_scan w pw e acc ++ R)) = map (app (map Lit acc)) (variants w pw (map Lit e ++ ir)).
Proof.
  intros Hnl HR. induction e as [|c e IH]; intros acc pw.
  - cbn [wd_scan map app]. rewrite rp_flush, HR. rewrite (variants_prev_irrelevant w ir pw false Hnl). reflexivity.
  - cbn [wd_scan map app]. rewrite variants_lit.
    assert (Hc: next_is_word w (map Lit e ++ ir) = match e with d :: _ => w d | [] => false end).
    { destruct e as [|d e]; [|reflexivity]. destruct ir as [|[x| | |n] ir]; try reflexivity. discriminate Hnl. }
    rewrite Hc. destruct (is_dash c && negb pw && match e with d :: _ => w d | [] => false end).
    + rewrite <- app_assoc. rewrite rp_flush. f_equal. cbn [app rp].
      rewrite str_eqb_refl. rewrite !map_flat_map. apply flat_map_ext. intros d.
      rewrite map_map. specialize (IH [] false). cbn [map] in IH.
      rewrite <- (map_id (variants w false (map Lit e ++ ir))) at 1.
      replace (map (fun x => x) (variants w false (map Lit e ++ ir)))
        with (map (app []) (variants w false (map Lit e ++ ir))) by (apply map_ext; reflexivity).
      rewrite <- IH. rewrite map_map. apply map_ext. reflexivity.
    + rewrite IH. rewrite map_map. apply map_ext. intros y. rewrite map_app, <- app_assoc. reflexivity.
Qed.

Lemma wfp_tail_not_lit s v : wfp (PStr s :: v) = true -> not_lit_head (items v) = true.
Proof.
  cbn [wfp]. rewrite !andb_true_iff. intros [[_ Hs] Hv].
  destruct v as [|[[|c t]| | |n] v]; try reflexivity; discriminate.
Qed.
Lemma rwp_items w : forall v, wfp v = true -> no_wd_ph v = true ->
  map items (rp (replace_with_placeholder w v)) = variants w false (items v).
Proof.
  induction v as [|p v IH]; intros Hw Hn; [reflexivity|].
  cbn [no_wd_ph forallb] in Hn. apply andb_true_iff in Hn. destruct Hn as [Hp Hn'].
  specialize (IH (wfp_tail _ _ Hw) Hn').
  unfold replace_with_placeholder in *. cbn [flat_map]. destruct p as [s| | |n].
  - destruct s as [|c s]; [discriminate Hw|]. cbn [rwp_part].
    rewrite (wd_scan_refines w _ (items v) (wfp_tail_not_lit _ _ Hw) IH (c :: s) [] false).
    rewrite items_cons. cbn [part_items]. rewrite map_ext with (g := fun x => x); [apply map_id | reflexivity].
  - cbn [rwp_part app rp]. rewrite map_map. rewrite items_cons. cbn [part_items app variants].
    rewrite <- IH, map_map. reflexivity.
  - cbn [rwp_part app rp]. rewrite map_map. rewrite items_cons. cbn [part_items app variants].
    rewrite <- IH, map_map. reflexivity.
  - cbn [rwp_part app rp]. apply negb_true_iff in Hp. rewrite Hp. rewrite map_map. rewrite items_cons.
    cbn [part_items app variants]. rewrite <- IH, map_map. reflexivity.
Qed.

Lemma rp_no_ph X : no_ph X = true -> rp X = [X].
Proof.
  induction X as [|p X IH]; [reflexivity|]. unfold no_ph. cbn [existsb]. intros H.
  apply negb_true_iff in H. apply orb_false_iff in H. destruct H as [Hp HX].
  destruct p; try discriminate Hp; cbn [rp]; rewrite IH by (apply negb_true_iff; exact HX); reflexivity.
Qed.

Theorem windash_items w v : wfp v = true -> no_wd_ph v = true ->
  map items (windash w v) = variants w false (items v).
Proof.
  intros Hw Hn. rewrite <- (rwp_items w v Hw Hn). unfold windash, replace_placeholders.
  destruct (existsb is_ph (replace_with_placeholder w v)) eqn:E.
  - rewrite map_map. apply map_ext. intros y. apply items_merge.
  - rewrite rp_no_ph by (unfold no_ph; rewrite E; reflexivity). reflexivity.
Qed.

(* ---------- expand ---------- *)
Definition ends_bs (s : str) : bool := match rev s with c :: _ => N.eqb c c_bs | [] => false end.
Definition starts_pct (s : str) : bool := match s with c :: _ => N.eqb c c_pct | [] => false end.

Lemma ends_bs_snoc s c : ends_bs (s ++ [c]) = N.eqb c c_bs.
Proof. unfold ends_bs. rewrite rev_app_distr. reflexivity. Qed.
Lemma ends_bs_cons a b s : ends_bs (a :: b :: s) = ends_bs (b :: s).
Proof.
  unfold ends_bs. cbn [rev]. destruct (rev s ++ [b]) eqn:E.
  - destruct (rev s); discriminate E.
  - reflexivity.
Qed.

Lemma unescape_cons2 a b s :
  unescape_pct (a :: b :: s) =
  if N.eqb a c_bs && N.eqb b c_pct then c_pct :: unescape_pct s else a :: unescape_pct (b :: s).
Proof. reflexivity. Qed.

Lemma unescape_app : forall n A X, (length A <= n)%nat ->
  ends_bs A && starts_pct X = false -> unescape_pct (A ++ X) = unescape_pct A ++ unescape_pct X.
Proof.
  induction n as [|n IH]; intros A X Hl H.
  - destruct A; [reflexivity | simpl in Hl; lia].
  - destruct A as [|a [|b A]].
    + reflexivity.
    + cbn [app]. unfold ends_bs in H. cbn [rev app] in H.
      destruct X as [|x X]; [reflexivity|]. cbn [starts_pct] in H. cbn [unescape_pct].
      destruct (N.eqb a c_bs); cbn [andb] in *; [rewrite H|]; reflexivity.
    + rewrite ends_bs_cons in H. cbn [app]. rewrite !unescape_cons2.
      assert (Hl1: (length A <= n)%nat) by (simpl in Hl; lia).
      assert (Hl2: (length (b :: A) <= n)%nat) by (simpl in *; lia).
      destruct (N.eqb a c_bs && N.eqb b c_pct).
      * assert (HA: ends_bs A && starts_pct X = false).
        { destruct A as [|a' A']; [reflexivity|]. rewrite ends_bs_cons in H. exact H. }
        rewrite (IH A X Hl1 HA). reflexivity.
      * change (b :: A ++ X) with ((b :: A) ++ X). rewrite (IH (b :: A) X Hl2 H). reflexivity.

Qed.

Lemma take_find s ir : not_lit_head ir = true -> forall acc,
  take_name (map Lit s ++ ir) acc =
  match find_pct s acc with Some (nm, rest) => Some (nm, map Lit rest ++ ir) | None => None end.
Proof.
  intros Hn. induction s as [|c s IH]; intros acc.
  - cbn. destruct ir as [|[x| | |n] ir]; try reflexivity. discriminate Hn.
  - cbn [map app take_name find_pct]. destruct (N.eqb c c_pct); [reflexivity | apply IH].
Qed.
Lemma find_pct_length s : forall acc nm rest, find_pct s acc = Some (nm, rest) -> (length rest < length s)%nat.
Proof.
  induction s as [|c s IH]; intros acc nm rest H; [discriminate H|]. cbn [find_pct] in H.
  destruct (N.eqb c c_pct).
  - inversion H; subst. simpl. lia.
  - apply IH in H. simpl. lia.
Qed.
Lemma take_name_length l : forall acc nm rest, take_name l acc = Some (nm, rest) -> (length rest < length l)%nat.
Proof.
  induction l as [|i l IH]; intros acc nm rest H; [discriminate H|]. destruct i; try discriminate H.
  cbn [take_name] in H. destruct (N.eqb c c_pct).
  - inversion H; subst. simpl. lia.
  - apply IH in H. simpl. lia.
Qed.

(* fuel is irrelevant once it exceeds the length *)
Lemma sp_fuel : forall n f1 f2 l, (length l <= n)%nat -> (n < f1)%nat -> (n < f2)%nat ->
  sp_expand_go f1 l = sp_expand_go f2 l.
Proof.
  induction n as [|n IH]; intros f1 f2 l Hl H1 H2;
    (destruct f1 as [|f1]; [lia|]); (destruct f2 as [|f2]; [lia|]);
    destruct l as [|i l]; try reflexivity; [simpl in Hl; lia|].
  assert (Hl': (length l <= n)%nat) by (simpl in Hl; lia).
  cbn [sp_expand_go]. destruct i as [c| | |nm]; try (f_equal; apply IH; lia).
  destruct (N.eqb c c_pct).
  - destruct (take_name l []) as [[[|x name] rest]|] eqn:E; try (f_equal; apply IH; lia).
    f_equal. apply take_name_length in E. apply IH; lia.
  - destruct (N.eqb c c_bs); [|f_equal; apply IH; lia].
    destruct l as [|[d| | |nm] l']; try (f_equal; apply IH; lia).
    destruct (N.eqb d c_pct); f_equal; apply IH; simpl in *; lia.
Qed.

Lemma sp_go_lit f c l :
  sp_expand_go (S f) (Lit c :: l) =
  if N.eqb c c_pct then
    match take_name l [] with
    | Some (x :: name, rest) => Ph (x :: name) :: sp_expand_go f rest
    | _ => Lit c :: sp_expand_go f l
    end
  else if N.eqb c c_bs then
    match l with
    | Lit d :: l'' => if N.eqb d c_pct then Lit c_pct :: sp_expand_go f l'' else Lit c :: sp_expand_go f l
    | _ => Lit c :: sp_expand_go f l
    end
  else Lit c :: sp_expand_go f l.
Proof. reflexivity. Qed.
Lemma ip_scan_cons f pbs c s acc :
  ip_scan (S f) pbs (c :: s) acc =
  if N.eqb c c_pct && negb pbs then
    match find_pct s [] with
    | Some (x :: name, rest) => flush_u acc ++ PPh (x :: name) :: ip_scan f false rest []
    | _ => ip_scan f false s (acc ++ [c])
    end
  else ip_scan f (N.eqb c c_bs) s (acc ++ [c]).
Proof. reflexivity. Qed.

Lemma sp_expand_nil : sp_expand [] = [].
Proof. reflexivity. Qed.
Lemma sp_expand_nonlit i l :
  match i with Lit _ => False | _ => True end -> sp_expand (i :: l) = i :: sp_expand l.
Proof. destruct i; intros H; try contradiction; reflexivity. Qed.
Lemma sp_expand_lit c l :
  sp_expand (Lit c :: l) =
  if N.eqb c c_pct then
    match take_name l [] with
    | Some (x :: name, rest) => Ph (x :: name) :: sp_expand rest
    | _ => Lit c :: sp_expand l
    end
  else if N.eqb c c_bs then
    match l with
    | Lit d :: l'' => if N.eqb d c_pct then Lit c_pct :: sp_expand l'' else Lit c :: sp_expand l
    | _ => Lit c :: sp_expand l
    end
  else Lit c :: sp_expand l.
Proof.
  unfold sp_expand at 1. change (length (Lit c :: l)) with (S (length l)). rewrite sp_go_lit.
  change (sp_expand_go (S (length l)) l) with (sp_expand l).
  destruct (N.eqb c c_pct).
  - destruct (take_name l []) as [[[|x name] rest]|] eqn:E; try reflexivity.
    f_equal. apply take_name_length in E. apply (sp_fuel (length rest)); lia.
  - destruct (N.eqb c c_bs); [|reflexivity].
    destruct l as [|[d| | |nm] l']; try reflexivity.
    destruct (N.eqb d c_pct); [|reflexivity]. f_equal. apply (sp_fuel (length l')); simpl; lia.
Qed.

Lemma ip_fuel : forall n f1 f2 s pbs acc, (length s <= n)%nat -> (n < f1)%nat -> (n < f2)%nat ->
  ip_scan f1 pbs s acc = ip_scan f2 pbs s acc.
Proof.
  induction n as [|n IH]; intros f1 f2 s pbs acc Hl H1 H2;
    (destruct f1 as [|f1]; [lia|]); (destruct f2 as [|f2]; [lia|]);
    destruct s as [|c s]; try reflexivity; [simpl in Hl; lia|].
  assert (Hl': (length s <= n)%nat) by (simpl in Hl; lia).
  cbn [ip_scan]. destruct (N.eqb c c_pct && negb pbs); [|apply IH; lia].
  destruct (find_pct s []) as [[[|x name] rest]|] eqn:E; try (apply IH; lia).
  f_equal. f_equal. apply find_pct_length in E. apply IH; lia.
Qed.

Definition ips (pbs : bool) (s acc : str) : sstring := ip_scan (S (length s)) pbs s acc.
Lemma ips_nil pbs acc : ips pbs [] acc = flush_u acc.
Proof. reflexivity. Qed.
Lemma ips_cons pbs c s acc :
  ips pbs (c :: s) acc =
  if N.eqb c c_pct && negb pbs then
    match find_pct s [] with
    | Some (x :: name, rest) => flush_u acc ++ PPh (x :: name) :: ips false rest []
    | _ => ips false s (acc ++ [c])
    end
  else ips (N.eqb c c_bs) s (acc ++ [c]).
Proof.
  unfold ips at 1. change (length (c :: s)) with (S (length s)). rewrite ip_scan_cons.
  change (ip_scan (S (length s)) false s (acc ++ [c])) with (ips false s (acc ++ [c])).
  change (ip_scan (S (length s)) (N.eqb c c_bs) s (acc ++ [c])) with (ips (N.eqb c c_bs) s (acc ++ [c])).
  destruct (N.eqb c c_pct && negb pbs); [|reflexivity].
  destruct (find_pct s []) as [[[|x name] rest]|] eqn:E; try reflexivity.
  f_equal. f_equal. apply find_pct_length in E. apply (ip_fuel (length rest)); lia.
Qed.

Lemma items_flush_u acc : items (flush_u acc) = map Lit (unescape_pct acc).
Proof. unfold flush_u. destruct (unescape_pct acc); [reflexivity|]. cbn. rewrite app_nil_r. reflexivity. Qed.

Lemma unescape_snoc A c : ends_bs A && N.eqb c c_pct = false -> unescape_pct (A ++ [c]) = unescape_pct A ++ [c].
Proof. intros H. rewrite (unescape_app (length A) A [c]); [reflexivity | lia | exact H]. Qed.
Lemma unescape_snoc_bs_pct A : unescape_pct (A ++ [c_bs; c_pct]) = unescape_pct A ++ [c_pct].
Proof.
  rewrite (unescape_app (length A) A [c_bs; c_pct]); [reflexivity | lia |].
  cbn [starts_pct]. apply andb_false_r.
Qed.

(* the scanner of the code (lookbehind + replace on the segments) against the item-level reading *)
Lemma ips_refines ir : not_lit_head ir = true -> forall n s, (length s <= n)%nat -> forall pbs A,
  (pbs = false -> ends_bs A = false) ->
  items (ips pbs s (A ++ if pbs then [c_bs] else [])) ++ sp_expand ir =
  map Lit (unescape_pct A) ++ sp_expand ((if pbs then [Lit c_bs] else []) ++ map Lit s ++ ir).
Proof.
  intros Hn. assert (Hir: sp_expand (Lit c_bs :: ir) = Lit c_bs :: sp_expand ir).
  { rewrite sp_expand_lit. cbn. destruct ir as [|[x| | |nm] ir']; try reflexivity. discriminate Hn. }
  induction n as [|n IH]; intros s Hl pbs A HA.
  - destruct s; [|simpl in Hl; lia]. rewrite ips_nil, items_flush_u. destruct pbs; cbn [app map].
    + rewrite unescape_snoc by (cbn; apply andb_false_r). rewrite map_app, <- app_assoc. cbn [map app].
      rewrite Hir. reflexivity.
    + rewrite app_nil_r. reflexivity.
  - destruct s as [|c s]; [apply (IH []); [simpl; lia | exact HA]|].
    assert (Hl': (length s <= n)%nat) by (simpl in Hl; lia).
    rewrite ips_cons. destruct pbs.
    + (* a backslash is pending *)
      rewrite andb_false_r. cbn [app map]. rewrite <- app_assoc. cbn [app].
      rewrite sp_expand_lit. cbn [N.eqb c_bs c_pct Pos.eqb]. 
      destruct (N.eqb c c_pct) eqn:Ec.
      * apply N.eqb_eq in Ec. subst c. cbn [N.eqb c_bs c_pct Pos.eqb].
        specialize (IH s Hl' false (A ++ [c_bs; c_pct])). cbn [app] in IH. rewrite app_nil_r in IH.
        rewrite IH by (intros _; rewrite (ends_bs_snoc (A ++ [c_bs]) c_pct) || (replace (A ++ [c_bs; c_pct]) with ((A ++ [c_bs]) ++ [c_pct]) by (rewrite <- app_assoc; reflexivity); rewrite ends_bs_snoc; reflexivity)).
        rewrite unescape_snoc_bs_pct, map_app, <- app_assoc. reflexivity.
      * destruct (N.eqb c c_bs) eqn:Eb.
        -- apply N.eqb_eq in Eb. subst c.
           specialize (IH s Hl' true (A ++ [c_bs])). cbn [app] in IH. rewrite <- app_assoc in IH. cbn [app] in IH.
           rewrite IH by discriminate.
           rewrite unescape_snoc by (cbn; apply andb_false_r). rewrite map_app, <- app_assoc. reflexivity.
        -- specialize (IH s Hl' false (A ++ [c_bs; c])). cbn [app] in IH. rewrite app_nil_r in IH.
           rewrite IH by (intros _; replace (A ++ [c_bs; c]) with ((A ++ [c_bs]) ++ [c]) by (rewrite <- app_assoc; reflexivity); rewrite ends_bs_snoc; exact Eb).
           replace (A ++ [c_bs; c]) with ((A ++ [c_bs]) ++ [c]) by (rewrite <- app_assoc; reflexivity).
           rewrite unescape_snoc by (rewrite Ec; apply andb_false_r).
           rewrite unescape_snoc by (cbn; apply andb_false_r).
           rewrite !map_app, <- !app_assoc. cbn [map app].
           rewrite (sp_expand_lit c). rewrite Ec, Eb. reflexivity.
    + (* no pending backslash *)
      specialize (HA eq_refl). rewrite andb_true_r. cbn [app]. rewrite app_nil_r. cbn [map app].
      rewrite sp_expand_lit. destruct (N.eqb c c_pct) eqn:Ec.
      * apply N.eqb_eq in Ec. subst c. rewrite (take_find s ir Hn []).
        destruct (find_pct s []) as [[[|x name] rest]|] eqn:E.
        -- specialize (IH s Hl' false (A ++ [c_pct])). cbn [app] in IH. rewrite app_nil_r in IH.
           rewrite IH by (intros _; rewrite ends_bs_snoc; reflexivity).
           rewrite unescape_snoc by (rewrite HA; reflexivity). rewrite map_app, <- app_assoc. reflexivity.
        -- rewrite items_app, items_flush_u, items_cons. cbn [part_items]. rewrite <- !app_assoc. cbn [app].
           f_equal. f_equal. apply find_pct_length in E.
           specialize (IH rest ltac:(lia) false []). cbn [app unescape_pct map] in IH. apply IH. reflexivity.
        -- specialize (IH s Hl' false (A ++ [c_pct])). cbn [app] in IH. rewrite app_nil_r in IH.
           rewrite IH by (intros _; rewrite ends_bs_snoc; reflexivity).
           rewrite unescape_snoc by (rewrite HA; reflexivity). rewrite map_app, <- app_assoc. reflexivity.
      * destruct (N.eqb c c_bs) eqn:Eb.
        -- apply N.eqb_eq in Eb. subst c.
           specialize (IH s Hl' true A). cbn [app] in IH. rewrite IH by discriminate.
           f_equal. rewrite sp_expand_lit. reflexivity.
        -- specialize (IH s Hl' false (A ++ [c])). cbn [app] in IH. rewrite app_nil_r in IH.
           rewrite IH by (intros _; rewrite ends_bs_snoc; exact Eb).
           rewrite unescape_snoc by (rewrite Ec; apply andb_false_r). rewrite map_app, <- app_assoc. reflexivity.
Qed.

Theorem insert_placeholders_items : forall v, wfp v = true ->
  items (insert_placeholders v) = sp_expand (items v).
Proof.
  induction v as [|p v IH]; intros Hw; [reflexivity|].
  specialize (IH (wfp_tail _ _ Hw)). unfold insert_placeholders in *. cbn [flat_map].
  rewrite items_app, IH, items_cons. destruct p as [s| | |n].
  - pose proof (ips_refines (items v) (wfp_tail_not_lit _ _ Hw) (length s) s (le_n _) false [] (fun _ => eq_refl)) as H.
    cbn [app unescape_pct map] in H. exact H.
  - cbn [ip_part items flat_map part_items app]. rewrite sp_expand_nonlit; [reflexivity | exact I].
  - cbn [ip_part items flat_map part_items app]. rewrite sp_expand_nonlit; [reflexivity | exact I].
  - cbn [ip_part items flat_map part_items app]. rewrite sp_expand_nonlit; [reflexivity | exact I].
Qed.

(* ====================================================================================== *)
(* The chain: the model of from_mapping refines the specification                          *)
(* ====================================================================================== *)

Lemma to_plain_items v : to_plain false v = plain_items (items v).
Proof.
  induction v as [|p v IH]; [reflexivity|]. rewrite to_plain_cons, items_cons.
  unfold plain_items in *. rewrite flat_map_app, <- IH. f_equal.
  destruct p as [s| | |n]; cbn [part_plain part_items flat_map]; rewrite ?app_nil_r; try reflexivity.
  unfold plain_escape. induction s as [|c s IHs]; [reflexivity|]. cbn [map flat_map item_plain]. rewrite IHs. reflexivity.
Qed.

(* parse with escape = False (regular expressions) *)
Lemma parse_go_noesc s : forall r acc,
  parse_go false s r acc false = r ++ canon_go (iparse_noesc s) acc.
Proof.
  induction s as [|c s IH]; intros r acc.
  - cbn. rewrite flush_app. reflexivity.
  - cbn [parse_go]. rewrite andb_false_r. unfold iparse_noesc. cbn [map]. fold (iparse_noesc s).
    destruct (is_special c) eqn:Es.
    + rewrite IH. rewrite special_item_part by exact Es. rewrite (flush_app r acc), <- !app_assoc. reflexivity.
    + rewrite IH. reflexivity.
Qed.
Lemma parse_noesc_canon s : parse false s = canon (iparse_noesc s).
Proof. unfold parse. rewrite parse_go_noesc. reflexivity. Qed.

Lemma canon_go_wfp l : forall acc, wfp (canon_go l acc) = true.
Proof.
  induction l as [|i l IH]; intros acc.
  - destruct acc; reflexivity.
  - destruct i as [c| | |n]; cbn [canon_go]; try apply IH;
      (destruct acc as [|a acc]; cbn [flush app wfp str_empty starts_pstr negb andb]; apply IH).
Qed.
Lemma canon_wfp l : wfp (canon l) = true.
Proof. apply canon_go_wfp. Qed.
Lemma parse_wfp s : wfp (parse true s) = true.
Proof. rewrite parse_canon. apply canon_wfp. Qed.
Lemma parse_noesc_wfp s : wfp (parse false s) = true.
Proof. rewrite parse_noesc_canon. apply canon_wfp. Qed.
Lemma parse_noesc_items s : items (parse false s) = iparse_noesc s.
Proof. rewrite parse_noesc_canon. apply items_canon. Qed.

Lemma canon_go_no_ph l : forall acc,
  existsb (fun i => match i with Ph _ => true | _ => false end) l = false -> no_ph (canon_go l acc) = true.
Proof.
  unfold no_ph. induction l as [|i l IH]; intros acc H.
  - destruct acc; reflexivity.
  - destruct i as [c| | |n]; cbn [existsb] in H; try discriminate H; cbn [canon_go];
      try (apply IH; exact H);
      (rewrite existsb_app; destruct acc; cbn [flush existsb is_ph orb]; apply IH; exact H).
Qed.
Lemma iparse_no_ph s : existsb (fun i => match i with Ph _ => true | _ => false end) (iparse s) = false.
Proof.
  assert (G: forall n s, (length s <= n)%nat ->
             existsb (fun i => match i with Ph _ => true | _ => false end) (iparse s) = false).
  { induction n as [|n IH]; intros t Hl.
    - destruct t; [reflexivity | simpl in Hl; lia].
    - destruct t as [|c t]; [reflexivity|]. cbn [iparse]. destruct (N.eqb c c_bs).
      + destruct t as [|d t]; [reflexivity|].
        destruct (is_special d || N.eqb d c_bs); cbn [existsb orb]; apply IH; simpl in Hl; simpl; lia.
      + destruct (is_special c); [unfold special_item; destruct (N.eqb c c_star)|]; cbn [existsb orb];
          apply IH; simpl in Hl; lia. }
  apply (G (length s)). lia.
Qed.
Lemma parse_no_ph s : no_ph (parse true s) = true.
Proof. rewrite parse_canon. apply canon_go_no_ph. apply iparse_no_ph. Qed.
Lemma parse_noesc_no_ph s : no_ph (parse false s) = true.
Proof.
  rewrite parse_noesc_canon. apply canon_go_no_ph. unfold iparse_noesc.
  induction s as [|c s IH]; [reflexivity|]. cbn [map existsb].
  destruct (is_special c); [unfold special_item; destruct (N.eqb c c_star)|]; exact IH.
Qed.

(* ---------- well-formedness is preserved by expand and windash ---------- *)
Lemma wfp_app X Y : wfp X = true -> wfp Y = true -> starts_pstr Y = false -> wfp (X ++ Y) = true.
Proof.
  intros HX HY HS. induction X as [|p X IH]; [exact HY|].
  specialize (IH (wfp_tail _ _ HX)). destruct p as [s| | |n]; cbn [app wfp] in *; try exact IH.
  apply andb_true_iff in HX. destruct HX as [HX _]. apply andb_true_iff in HX. destruct HX as [H1 H2].
  rewrite H1, IH. destruct X as [|q X]; cbn [app]; [rewrite HS; reflexivity|].
  cbn [starts_pstr] in *. rewrite H2. reflexivity.
Qed.

Lemma flush_u_cases acc : flush_u acc = [] \/ exists c t, flush_u acc = [PStr (c :: t)].
Proof. unfold flush_u. destruct (unescape_pct acc) as [|c t]; [left; reflexivity | right; exists c, t; reflexivity]. Qed.

Lemma ip_scan_wfp : forall f pbs s acc, wfp (ip_scan f pbs s acc) = true.
Proof.
  assert (F: forall acc, wfp (flush_u acc) = true).
  { intros acc. destruct (flush_u_cases acc) as [->|[c [t ->]]]; reflexivity. }
  induction f as [|f IH]; intros pbs s acc; [apply F|].
  destruct s as [|c s]; [apply F|]. rewrite ip_scan_cons.
  destruct (N.eqb c c_pct && negb pbs); [|apply IH].
  destruct (find_pct s []) as [[[|x name] rest]|]; try apply IH.
  destruct (flush_u_cases acc) as [->|[d [t ->]]]; cbn [app wfp str_empty starts_pstr negb andb]; apply IH.
Qed.

Theorem insert_placeholders_wfp v : wfp v = true -> wfp (insert_placeholders v) = true.
Proof.
  unfold insert_placeholders. induction v as [|p v IH]; intros H; [reflexivity|].
  specialize (IH (wfp_tail _ _ H)). cbn [flat_map]. destruct p as [s| | |n]; try exact IH.
  cbn [ip_part]. apply wfp_app; [apply ip_scan_wfp | exact IH|].
  cbn [wfp] in H. apply andb_true_iff in H. destruct H as [H _]. apply andb_true_iff in H. destruct H as [_ H].
  destruct v as [|[t| | |m] v]; try reflexivity. discriminate H.
Qed.

Lemma wd_scan_no_match w : forall e pw acc,
  existsb is_ph (wd_scan w pw e acc) = false -> wd_scan w pw e acc = flush [] (acc ++ e).
Proof.
  induction e as [|c e IH]; intros pw acc H; [rewrite app_nil_r; reflexivity|].
  cbn [wd_scan] in *. destruct (is_dash c && negb pw && match e with d :: _ => w d | [] => false end).
  - rewrite existsb_app in H. cbn [existsb is_ph] in H. rewrite orb_true_r in H. discriminate H.
  - rewrite (IH _ _ H), <- app_assoc. reflexivity.
Qed.
Lemma rwp_no_match w : forall v,
  existsb is_ph (replace_with_placeholder w v) = false -> replace_with_placeholder w v = v.
Proof.
  unfold replace_with_placeholder. induction v as [|p v IH]; intros H; [reflexivity|].
  cbn [flat_map] in *. rewrite existsb_app in H. apply orb_false_iff in H. destruct H as [H1 H2].
  rewrite (IH H2). destruct p as [[|c s]| | |n]; try reflexivity.
  cbn [rwp_part] in *. rewrite (wd_scan_no_match w _ _ _ H1). reflexivity.
Qed.

Definition only_wd (v : sstring) : bool :=
  forallb (fun p => match p with PPh n => str_eqb n windash_name | _ => true end) v.

Lemma wd_scan_shape w : forall e pw acc,
  no_empty (wd_scan w pw e acc) = true /\ only_wd (wd_scan w pw e acc) = true.
Proof.
  assert (F: forall acc, no_empty (flush [] acc) = true /\ only_wd (flush [] acc) = true).
  { intros [|a acc]; split; reflexivity. }
  induction e as [|c e IH]; intros pw acc; [apply F|]. cbn [wd_scan].
  destruct (is_dash c && negb pw && match e with d :: _ => w d | [] => false end); [|apply IH].
  destruct (F acc) as [F1 F2]. destruct (IH false []) as [I1 I2].
  unfold no_empty, only_wd in *. rewrite !forallb_app. cbn [forallb nonempty_part].
  rewrite F1, F2, I1, I2, str_eqb_refl. split; reflexivity.
Qed.
Lemma rwp_shape w : forall v, no_empty v = true -> no_ph v = true ->
  no_empty (replace_with_placeholder w v) = true /\ only_wd (replace_with_placeholder w v) = true.
Proof.
  unfold replace_with_placeholder. induction v as [|p v IH]; intros Hn Hp; [split; reflexivity|].
  cbn [no_empty forallb] in Hn. apply andb_true_iff in Hn. destruct Hn as [Hn1 Hn2].
  unfold no_ph in Hp. cbn [existsb] in Hp. apply negb_true_iff in Hp. apply orb_false_iff in Hp. destruct Hp as [Hp1 Hp2].
  destruct (IH Hn2 (proj2 (negb_true_iff _) Hp2)) as [I1 I2]. cbn [flat_map].
  unfold no_empty, only_wd in *. rewrite !forallb_app, I1, I2, !andb_true_r.
  destruct p as [[|c s]| | |n]; try (split; reflexivity); try discriminate.
  cbn [rwp_part]. apply (wd_scan_shape w (c :: s) false []).
Qed.

Lemma rp_shape : forall X, no_empty X = true -> only_wd X = true ->
  Forall (fun x => no_empty x = true /\ no_ph x = true) (rp X).
Proof.
  induction X as [|p X IH]; intros Hn Ho; [repeat constructor|].
  cbn [no_empty forallb] in Hn. apply andb_true_iff in Hn. destruct Hn as [Hn1 Hn2].
  cbn [only_wd forallb] in Ho. apply andb_true_iff in Ho. destruct Ho as [Ho1 Ho2].
  specialize (IH Hn2 Ho2).
  assert (G: forall q, nonempty_part q = true -> is_ph q = false ->
             Forall (fun x => no_empty x = true /\ no_ph x = true) (map (cons q) (rp X))).
  { intros q Hq1 Hq2. apply Forall_forall. intros x Hx. apply in_map_iff in Hx. destruct Hx as [y [<- Hy]].
    rewrite Forall_forall in IH. destruct (IH y Hy) as [A B]. unfold no_ph in *. cbn [no_empty forallb existsb].
    rewrite Hq1, Hq2. split; [exact A | exact B]. }
  destruct p as [s| | |n]; cbn [rp]; try (apply G; [exact Hn1 | reflexivity]).
  rewrite Ho1. apply Forall_forall. intros x Hx. apply in_flat_map in Hx. destruct Hx as [d [_ Hx]].
  revert x Hx. apply Forall_forall. apply G; reflexivity.
Qed.

Lemma merge_is_ph v : existsb is_ph (merge_strs v) = existsb is_ph v.
Proof.
  induction v as [|p v IH]; [reflexivity|]. destruct p as [a| | |n]; cbn [merge_strs existsb is_ph]; rewrite <- ?IH; try reflexivity.
  destruct (merge_strs v) as [|[b| | |m] r]; reflexivity.
Qed.

Theorem windash_good w v : wfp v = true -> no_ph v = true ->
  Forall (fun x => wfp x = true /\ no_ph x = true) (windash w v).
Proof.
  intros Hw Hp. unfold windash, replace_placeholders.
  destruct (existsb is_ph (replace_with_placeholder w v)) eqn:E.
  - destruct (rwp_shape w v (wfp_no_empty v Hw) Hp) as [S1 S2].
    pose proof (rp_shape _ S1 S2) as H. rewrite Forall_forall in *. intros x Hx.
    apply in_map_iff in Hx. destruct Hx as [y [<- Hy]]. destruct (H y Hy) as [A B].
    split; [apply merge_no_empty_wfp; exact A|]. unfold no_ph in *. rewrite merge_is_ph. exact B.
  - rewrite (rwp_no_match w v E). constructor; [split; assumption | constructor].
Qed.

(* ---------- helper lemmas for the step simulation ---------- *)
Lemma firstn_prefix (p : str) : forall s, str_eqb (firstn (length p) s) p = prefixb p s.
Proof.
  induction p as [|x p IH]; intros s; [reflexivity|]. destruct s as [|y s]; [reflexivity|].
  cbn [length firstn str_eqb prefixb]. rewrite IH, (N.eqb_sym y x). reflexivity.
Qed.
Lemma str_eqb_rev a b : str_eqb (rev a) b = str_eqb a (rev b).
Proof.
  apply Bool.eq_true_iff_eq. rewrite !str_eqb_eq. split; intros H; subst; rewrite rev_involutive; reflexivity.
Qed.
Lemma skipn_suffix (p s : str) : str_eqb (skipn (length s - length p) s) p = suffixb p s.
Proof.
  unfold suffixb. rewrite <- (firstn_prefix (rev p) (rev s)), rev_length, firstn_rev.
  rewrite str_eqb_rev, rev_involutive. reflexivity.
Qed.
Lemma re_open_front_spec rs : re_open_front rs = negb (prefixb dotstar rs || prefixb [94] rs).
Proof.
  unfold re_open_front. rewrite negb_orb.
  rewrite <- (firstn_prefix dotstar rs), <- (firstn_prefix [94] rs). reflexivity.
Qed.
Lemma re_open_back_spec rs : re_open_back rs = negb (suffixb dotstar rs || suffixb [36] rs).
Proof.
  unfold re_open_back. rewrite negb_orb.
  rewrite <- (skipn_suffix dotstar rs), <- (skipn_suffix [36] rs). reflexivity.
Qed.

Lemma sadd_items a b : items (sadd a b) = items a ++ items b.
Proof. unfold sadd. rewrite items_merge. apply items_app. Qed.
Lemma sadd_wfp a b : no_empty a = true -> no_empty b = true -> wfp (sadd a b) = true.
Proof. intros A B. apply merge_no_empty_wfp. rewrite no_empty_app, A, B. reflexivity. Qed.
Lemma sadd_is_ph a b : existsb is_ph (sadd a b) = existsb is_ph a || existsb is_ph b.
Proof. unfold sadd. rewrite merge_is_ph. apply existsb_app. Qed.
Lemma no_ph_front v : no_ph (add_multi_front v) = no_ph v.
Proof. unfold add_multi_front, no_ph. destruct (starts_multi v); [reflexivity|]. rewrite sadd_is_ph. reflexivity. Qed.
Lemma no_ph_back v : no_ph (add_multi_back v) = no_ph v.
Proof.
  unfold add_multi_back, no_ph. destruct (ends_multi v); [reflexivity|]. rewrite sadd_is_ph. cbn. rewrite orb_false_r. reflexivity.
Qed.

Definition core (m : modifier) : bool :=
  match m with MBase64 | MBase64Offset | MWide | MUtf16 | MUtf16be => false | _ => true end.
Definition is_list_mod (m : modifier) : bool := match m with MAll | MNeq => true | _ => false end.
Definition is_expand (m : modifier) : bool := match m with MExpand => true | _ => false end.
Definition is_windash (m : modifier) : bool := match m with MWindash => true | _ => false end.
Definition has_field (f : option str) : bool := match f with Some _ => true | None => false end.

(* invariant of the values while the chain runs: well-formed parts; no placeholder before the
   first 'expand' ([nph] = no expand so far) *)
Definition good_str (nph : bool) (v : sstring) : bool := wfp v && (negb nph || no_ph v).
Definition good_atom (nph : bool) (a : atomv sstring) : bool :=
  match a with
  | AStr _ v => good_str nph v
  | ARe v _ _ _ => good_str nph v
  | _ => true
  end.
Fixpoint good (nph : bool) (v : mval) : bool :=
  match v with
  | VAtom a => good_atom nph a
  | VExp l => forallb (good nph) l
  end.

Lemma good_str_intro nph v : wfp v = true -> (nph = true -> no_ph v = true) -> good_str nph v = true.
Proof. intros A B. unfold good_str. rewrite A. destruct nph; [rewrite B; reflexivity | reflexivity]. Qed.
Lemma good_str_wfp nph v : good_str nph v = true -> wfp v = true.
Proof. unfold good_str. rewrite andb_true_iff. tauto. Qed.
Lemma good_str_nph v : good_str true v = true -> no_ph v = true.
Proof. unfold good_str. rewrite andb_true_iff. cbn. tauto. Qed.

(* ---------- one value modifier on one value ---------- *)
Definition sim_atom (O : oracles) (field : option str) (applied : nat) (m : modifier) (nph : bool)
                    (a : atomv sstring) : Prop :=
  let first := Nat.eqb applied 0 in
  let nph' := nph && negb (is_expand m) in
  if type_check m a then
    match modify O field applied m a with
    | Ok r => sp_modify O (has_field field) first m (amap items a) = Some (view r) /\ good nph' r = true
    | SigmaErr _ => sp_modify O (has_field field) first m (amap items a) = None
    | Crash _ => False
    end
  else sp_modify O (has_field field) first m (amap items a) = None.

Lemma compile_sim O nph v l fi fm fs : items v = l -> good_str nph v = true ->
  match compile O v fi fm fs with
  | Ok r => sp_re O l fi fm fs = Some (view r) /\ good nph r = true
  | SigmaErr _ => sp_re O l fi fm fs = None
  | Crash _ => False
  end.
Proof.
  intros <- Hg. unfold compile, sp_re. rewrite to_plain_items.
  destruct (re_ok O (plain_items (items v))); [split; [reflexivity | exact Hg] | reflexivity].
Qed.

Lemma good_str_sadd nph a b : good_str nph a = true -> good_str nph b = true -> good_str nph (sadd a b) = true.
Proof.
  unfold good_str. rewrite !andb_true_iff. intros [A1 A2] [B1 B2]. split.
  - apply sadd_wfp; apply wfp_no_empty; assumption.
  - destruct nph; [|reflexivity]. cbn in *. unfold no_ph in *. rewrite sadd_is_ph.
    apply negb_true_iff in A2, B2. rewrite A2, B2. reflexivity.
Qed.
Lemma good_re_dotstar nph : good_str nph re_dotstar = true.
Proof. destruct nph; reflexivity. Qed.

Lemma re_front_sim nph s : good_str nph s = true ->
  items (if re_open_front (to_plain false s) then sadd re_dotstar s else s) = sp_re_front (items s) /\
  good_str nph (if re_open_front (to_plain false s) then sadd re_dotstar s else s) = true.
Proof.
  intros Hg. unfold sp_re_front. rewrite re_open_front_spec, to_plain_items.
  destruct (prefixb dotstar (plain_items (items s)) || prefixb [94] (plain_items (items s))); cbn [negb].
  - split; [reflexivity | exact Hg].
  - split; [rewrite sadd_items; reflexivity | apply good_str_sadd; [apply good_re_dotstar | exact Hg]].
Qed.
Lemma re_back_sim nph rs s : good_str nph s = true ->
  items (if re_open_back rs then sadd s re_dotstar else s) = sp_re_back rs (items s) /\
  good_str nph (if re_open_back rs then sadd s re_dotstar else s) = true.
Proof.
  intros Hg. unfold sp_re_back. rewrite re_open_back_spec.
  destruct (suffixb dotstar rs || suffixb [36] rs); cbn [negb].
  - split; [reflexivity | exact Hg].
  - split; [rewrite sadd_items; reflexivity | apply good_str_sadd; [exact Hg | apply good_re_dotstar]].
Qed.

Lemma good_front nph v : good_str nph v = true -> good_str nph (add_multi_front v) = true.
Proof.
  unfold good_str. rewrite !andb_true_iff. intros [A B]. split; [apply add_multi_front_wfp; exact A|].
  rewrite no_ph_front. exact B.
Qed.
Lemma good_back nph v : good_str nph v = true -> good_str nph (add_multi_back v) = true.
Proof.
  unfold good_str. rewrite !andb_true_iff. intros [A B]. split; [apply add_multi_back_wfp; exact A|].
  rewrite no_ph_back. exact B.
Qed.
Lemma front_items_g nph v : good_str nph v = true -> items (add_multi_front v) = sp_front (items v).
Proof. intros H. apply add_multi_front_items, wfp_no_empty, (good_str_wfp nph). exact H. Qed.
Lemma back_items_g nph v : good_str nph v = true -> items (add_multi_back v) = sp_back (items v).
Proof. intros H. apply add_multi_back_items, wfp_no_empty, (good_str_wfp nph). exact H. Qed.

Lemma has_wildcard_items v : has_wildcard (items v) = contains_special v.
Proof.
  unfold has_wildcard, contains_special. induction v as [|p v IH]; [reflexivity|].
  rewrite items_cons, existsb_app. cbn [existsb]. rewrite IH. f_equal.
  destruct p as [s| | |n]; try reflexivity. cbn [part_items]. induction s; [reflexivity | assumption].
Qed.

Lemma modify_sim O field applied m nph a :
  core m = true -> is_list_mod m = false -> (is_re m = true -> applied <> 0%nat) ->
  (is_windash m = true -> nph = true) -> good_atom nph a = true ->
  sim_atom O field applied m nph a.
Proof.
  intros Hc Hl Hre Hwd Hg. unfold sim_atom.
  destruct m as [| | | | | | |p|f| | | | |o| | | | | |]; try discriminate Hc; try discriminate Hl;
  destruct a; cbn [type_check]; try reflexivity.
  all: cbn [modify ok_atom amap good_atom is_expand negb] in *; rewrite ?andb_true_r.
  - (* cased *) split; [reflexivity | exact Hg].
  - (* cidr *) destruct applied as [|k]; cbn; [|reflexivity]. rewrite to_plain_items.
    destruct (cidr_ok O (plain_items (items s))); cbn; [split; reflexivity | reflexivity].
  - (* contains, string *) cbn. unfold sp_contains. rewrite (back_items_g nph) by (apply good_front; exact Hg).
    rewrite (front_items_g nph) by exact Hg. split; [reflexivity | apply good_back, good_front; exact Hg].
  - (* contains, regex *)
    destruct (re_front_sim nph s Hg) as [E1 G1].
    destruct (re_back_sim nph (to_plain false s) _ G1) as [E2 G2].
    apply (compile_sim O nph); [|exact G2]. rewrite E2, E1, to_plain_items. reflexivity.
  - (* contains, fieldref *) split; reflexivity.
  - (* timestamp part *) split; reflexivity.
  - (* flags *) destruct f; split; solve [reflexivity | exact Hg].
  - (* endswith, string *) cbn. rewrite (front_items_g nph) by exact Hg. split; [reflexivity | apply good_front; exact Hg].
  - (* endswith, regex *) destruct (re_front_sim nph s Hg) as [E1 G1].
    apply (compile_sim O nph); [exact E1 | exact G1].
  - split; reflexivity.
  - (* exists *) destruct field; cbn; [|reflexivity]. destruct applied; cbn; [split; reflexivity | reflexivity].
  - (* expand, string *) cbn. rewrite insert_placeholders_items by (apply (good_str_wfp nph); exact Hg).
    split; [reflexivity|]. rewrite andb_false_r. apply good_str_intro; [|discriminate].
    apply insert_placeholders_wfp, (good_str_wfp nph). exact Hg.
  - (* expand, regex *) rewrite andb_false_r. apply (compile_sim O false).
    + apply insert_placeholders_items, (good_str_wfp nph). exact Hg.
    + apply good_str_intro; [|discriminate]. apply insert_placeholders_wfp, (good_str_wfp nph). exact Hg.
  - (* fieldref *) cbn. rewrite has_wildcard_items. destruct (contains_special s); [reflexivity|].
    rewrite to_plain_items. split; reflexivity.
  - (* compare *) split; reflexivity.
  - (* re: never on a modified value *) destruct applied as [|k]; [exfalso; apply Hre; reflexivity|]. reflexivity.
  - (* startswith, string *) cbn. rewrite (back_items_g nph) by exact Hg. split; [reflexivity | apply good_back; exact Hg].
  - (* startswith, regex *) destruct (re_back_sim nph (to_plain false s) s Hg) as [E1 G1].
    apply (compile_sim O nph); [|exact G1]. rewrite E1, to_plain_items. reflexivity.
  - split; reflexivity.
  - (* windash *) specialize (Hwd eq_refl). subst nph. cbn.
    pose proof (windash_items (word O) s (good_str_wfp _ _ Hg) (no_ph_no_wd_ph _ (good_str_nph _ Hg))) as E.
    pose proof (windash_good (word O) s (good_str_wfp _ _ Hg) (good_str_nph _ Hg)) as G.
    split.
    + rewrite <- E, !map_map. reflexivity.
    + rewrite forallb_forall. intros x Hx. apply in_map_iff in Hx. destruct Hx as [y [<- Hy]].
      rewrite Forall_forall in G. destruct (G y Hy) as [A B]. cbn. apply good_str_intro; auto.
Qed.

(* ---------- expansion fan-out, the value list, one step, the chain ---------- *)
Definition sim_list (nph : bool) (r : outcome (list mval)) (s : option (list sval)) : Prop :=
  match r with
  | Ok rs => s = Some (map view rs) /\ forallb (good nph) rs = true
  | SigmaErr _ => s = None
  | Crash _ => False
  end.

Lemma apply_val_exp O field applied m l :
  apply_val O field applied m (VExp l) =
  obind (flat_mapM (apply_val O field applied m) l) (fun r => Ok [VExp r]).
Proof.
  cbn [apply_val]. f_equal. induction l as [|x r IH]; [reflexivity|]. cbn [flat_mapM]. rewrite <- IH. reflexivity.
Qed.
Lemma sp_apply_exp O hf first m l :
  sp_apply O hf first m (VExp l) = option_map (fun r => [VExp r]) (sp_flat (sp_apply O hf first m) l).
Proof.
  cbn [sp_apply]. f_equal. induction l as [|x r IH]; [reflexivity|]. cbn [sp_flat]. rewrite <- IH. reflexivity.
Qed.

Lemma flat_sim nph (F : mval -> outcome (list mval)) (G : sval -> option (list sval)) l :
  Forall (fun x => sim_list nph (F x) (G (view x))) l ->
  sim_list nph (flat_mapM F l) (sp_flat G (map view l)).
Proof.
  induction 1 as [|x r Hx Hr IH]; [split; reflexivity|].
  cbn [flat_mapM map sp_flat]. unfold sim_list in *.
  destruct (F x) as [a|e|e]; cbn [obind]; [|rewrite Hx; reflexivity | contradiction].
  destruct Hx as [Ex Gx]. rewrite Ex.
  destruct (flat_mapM F r) as [b|e|e]; cbn [obind]; [|rewrite IH; reflexivity | contradiction].
  destruct IH as [Er Gr]. rewrite Er, map_app, forallb_app, Gx, Gr. split; reflexivity.
Qed.

Lemma apply_sim O field applied m nph :
  core m = true -> is_list_mod m = false -> (is_re m = true -> applied <> 0%nat) ->
  (is_windash m = true -> nph = true) ->
  forall v, good nph v = true ->
  sim_list (nph && negb (is_expand m)) (apply_val O field applied m v)
           (sp_apply O (has_field field) (Nat.eqb applied 0) m (view v)).
Proof.
  intros Hc Hl Hre Hwd. induction v as [a|l IH] using gval_ind'; intros Hg.
  - pose proof (modify_sim O field applied m nph a Hc Hl Hre Hwd Hg) as H. unfold sim_atom in H.
    cbn [apply_val view gmap sp_apply]. destruct (type_check m a).
    + destruct (modify O field applied m a) as [r|e|e]; cbn [obind sim_list]; [|rewrite H; reflexivity | exact H].
      destruct H as [E G]. rewrite E. cbn. rewrite G. split; reflexivity.
    + cbn. rewrite H. reflexivity.
  - rewrite apply_val_exp. cbn [view gmap]. rewrite sp_apply_exp. change (map (gmap items) l) with (map view l).
    assert (H: sim_list (nph && negb (is_expand m)) (flat_mapM (apply_val O field applied m) l)
                 (sp_flat (sp_apply O (has_field field) (Nat.eqb applied 0) m) (map view l))).
    { apply flat_sim. cbn [good] in Hg. rewrite forallb_forall in Hg. rewrite Forall_forall in *.
      intros x Hx. apply IH; [exact Hx | apply Hg; exact Hx]. }
    unfold sim_list in *. destruct (flat_mapM (apply_val O field applied m) l) as [rs|e|e]; cbn [obind]; [|rewrite H; reflexivity | exact H].
    destruct H as [E G]. rewrite E. cbn. rewrite G. split; reflexivity.
Qed.

Fixpoint wd_ok (nph : bool) (ms : list modifier) : bool :=
  match ms with
  | [] => true
  | m :: r => (negb (is_windash m) || nph) && wd_ok (nph && negb (is_expand m)) r
  end.

Definition sim_state (r : outcome item_state) (s : option (list sval * bool * bool)) : Prop :=
  match r with
  | Ok st => s = Some (map view (values st), link_and st, negated st)
  | SigmaErr _ => s = None
  | Crash _ => False
  end.

Lemma chain_sim O field : forall ms applied st nph,
  forallb core ms = true -> wd_ok nph ms = true ->
  (applied = 0%nat -> match ms with m :: _ => is_re m = false | [] => True end) ->
  forallb (good nph) (values st) = true ->
  sim_state (run_chain O field applied ms st)
            (sp_chain O (has_field field) (Nat.eqb applied 0) ms (map view (values st), link_and st, negated st)).
Proof.
  induction ms as [|m ms IH]; intros applied st nph Hc Hw Hre Hg; [reflexivity|].
  cbn [forallb] in Hc. apply andb_true_iff in Hc. destruct Hc as [Hc Hcs].
  cbn [wd_ok] in Hw. apply andb_true_iff in Hw. destruct Hw as [Hw Hws].
  cbn [run_chain sp_chain].
  destruct (is_list_mod m) eqn:El.
  - destruct m; try discriminate El; cbn [step obind].
    + apply (IH (S applied) {| values := values st; link_and := true; negated := negated st |} nph); auto.
      * cbn in Hws. rewrite andb_true_r in Hws. exact Hws.
      * discriminate.
    + apply (IH (S applied) {| values := values st; link_and := link_and st; negated := true |} nph); auto.
      * cbn in Hws. rewrite andb_true_r in Hws. exact Hws.
      * discriminate.
  - assert (S1: sim_list (nph && negb (is_expand m)) (flat_mapM (apply_val O field applied m) (values st))
                  (sp_flat (sp_apply O (has_field field) (Nat.eqb applied 0) m) (map view (values st)))).
    { apply flat_sim. rewrite forallb_forall in Hg. rewrite Forall_forall. intros x Hx.
      apply apply_sim; auto.
      - intros Hr Ha. specialize (Hre Ha). cbn in Hre. rewrite Hr in Hre. discriminate Hre.
      - intros Hwd. rewrite Hwd in Hw. cbn in Hw. exact Hw. }
    assert (E: step O field applied m st =
               obind (flat_mapM (apply_val O field applied m) (values st))
                     (fun vs => Ok {| values := vs; link_and := link_and st; negated := negated st |})).
    { destruct m; try discriminate El; reflexivity. }
    rewrite E. unfold sim_list in S1.
    assert (E2: forall X Y, match m with MAll => X | MNeq => Y | _ =>
                  match sp_flat (sp_apply O (has_field field) (Nat.eqb applied 0) m) (map view (values st)) with
                  | Some vs' => sp_chain O (has_field field) false ms (vs', link_and st, negated st)
                  | None => None end end =
                match sp_flat (sp_apply O (has_field field) (Nat.eqb applied 0) m) (map view (values st)) with
                  | Some vs' => sp_chain O (has_field field) false ms (vs', link_and st, negated st)
                  | None => None end).
    { intros X Y. destruct m; try discriminate El; reflexivity. }
    rewrite E2. clear E2.
    destruct (flat_mapM (apply_val O field applied m) (values st)) as [vs|e|e]; cbn [obind]; [|rewrite S1; reflexivity | exact S1].
    destruct S1 as [S1 G1]. rewrite S1.
    apply (IH (S applied) {| values := vs; link_and := link_and st; negated := negated st |} (nph && negb (is_expand m))); auto.
    discriminate.
Qed.

(* ---------- the two modifier tables agree ---------- *)
Lemma tables_agree id : lookup_modifier modifier_mapping id = lookup_modifier sp_names id.
Proof.
  unfold modifier_mapping, sp_names. cbn [lookup_modifier].
  repeat match goal with
         | |- context [str_eqb ?n id] =>
             let E := fresh "E" in
             destruct (str_eqb n id) eqn:E; [apply str_eqb_eq in E; subst id; reflexivity|]
         end.
  reflexivity.
Qed.

Lemma lookup_all_sim ids :
  match lookup_all ids with
  | Ok ms => sp_lookup_all ids = Some ms
  | SigmaErr _ => sp_lookup_all ids = None
  | Crash _ => False
  end.
Proof.
  induction ids as [|i r IH]; [reflexivity|]. cbn [lookup_all sp_lookup_all]. rewrite <- tables_agree.
  destruct (lookup_modifier modifier_mapping i) as [m|]; [|reflexivity].
  destruct (lookup_all r) as [ms|e|e]; cbn [obind]; [rewrite IH; reflexivity | rewrite IH; reflexivity | exact IH].
Qed.

Lemma key_sim key : sp_key key = (has_field (fst (split_key key)), snd (split_key key)).
Proof.
  unfold sp_key, split_key. destruct key as [k|]; [|reflexivity].
  destruct (split_on c_pipe k []) as [|f ids]; [reflexivity|]. destruct f; reflexivity.
Qed.

(* ---------- plain values ---------- *)
Definition exact_int (z : Z) : bool :=
  let f := round_f64 z in negb (Z.shiftl 1 1024 <=? Z.abs f)%Z && (f =? z)%Z.
Definition exact_ints (l : list yv) : bool :=
  forallb (fun v => match v with YInt z => exact_int z | _ => true end) l.
Definition nonempty_strs (l : list yv) : bool :=
  forallb (fun v => match v with YStr [] => false | _ => true end) l.

Definition sim_val (nph : bool) (r : outcome mval) (s : option sval) : Prop :=
  match r with
  | Ok v => s = Some (view v)
  | SigmaErr _ => s = None
  | Crash _ => False
  end.

Lemma sigma_value_sim hr v : match v with YInt z => exact_int z | _ => true end = true ->
  sim_val true (sigma_value hr v) (sp_value hr v).
Proof.
  intros H. destruct v as [s|z|n d| |b| |]; cbn [sigma_value sp_value sim_val]; try reflexivity.
  - cbn [view gmap amap]. destruct hr; [cbn; rewrite app_nil_r; reflexivity | rewrite parse_items; reflexivity].
  - unfold exact_int in H. apply andb_true_iff in H. destruct H as [H1 H2]. apply negb_true_iff in H1.
    cbn [sigma_number]. rewrite H1, H2. reflexivity.
  - cbn [sigma_number]. destruct (Pos.eqb d 1); reflexivity.
Qed.

Lemma values_sim hr l : exact_ints l = true ->
  match mapM (sigma_value hr) l with
  | Ok vs => sp_values hr l = Some (map view vs)
  | SigmaErr _ => sp_values hr l = None
  | Crash _ => False
  end.
Proof.
  induction l as [|v r IH]; intros H; [reflexivity|]. cbn [exact_ints forallb] in H.
  apply andb_true_iff in H. destruct H as [Hv Hr]. specialize (IH Hr).
  pose proof (sigma_value_sim hr v Hv) as S. unfold sim_val in S.
  cbn [mapM sp_values]. destruct (sigma_value hr v) as [a|e|e]; cbn [obind]; [|rewrite S; reflexivity | exact S].
  rewrite S. destruct (mapM (sigma_value hr) r) as [b|e|e]; cbn [obind]; [rewrite IH; reflexivity | rewrite IH; reflexivity | exact IH].
Qed.

(* initial values are well-formed, except SigmaString.from_str("") *)
Lemma sigma_value_good hr v mv :
  (hr = true -> match v with YStr [] => false | _ => true end = true) ->
  sigma_value hr v = Ok mv -> good true mv = true.
Proof.
  intros Hs H. destruct v as [s|z|n d| |b| |]; cbn [sigma_value] in H; try discriminate H.
  - inversion H; subst. cbn [good good_atom]. destruct hr.
    + destruct s as [|c s]; [specialize (Hs eq_refl); discriminate Hs | reflexivity].
    + apply good_str_intro; [apply parse_wfp | intros _; apply parse_no_ph].
  - destruct (sigma_number (YInt z)); cbn in H; inversion H; reflexivity.
  - destruct (sigma_number (YFloat n d)); cbn in H; inversion H; reflexivity.
  - inversion H; reflexivity.
  - inversion H; reflexivity.
Qed.
Lemma values_good hr l vs :
  (hr = true -> nonempty_strs l = true) -> mapM (sigma_value hr) l = Ok vs -> forallb (good true) vs = true.
Proof.
  revert vs. induction l as [|v r IH]; intros vs Hs H; [inversion H; reflexivity|].
  cbn [mapM] in H. destruct (sigma_value hr v) as [a|e|e] eqn:Ea; cbn [obind] in H; try discriminate H.
  destruct (mapM (sigma_value hr) r) as [b|e|e] eqn:Eb; cbn [obind] in H; try discriminate H.
  inversion H; subst. cbn [forallb]. rewrite (IH b); [|intros E; specialize (Hs E); cbn in Hs; apply andb_true_iff in Hs; tauto | reflexivity].
  rewrite (sigma_value_good hr v a); [reflexivity | | exact Ea].
  intros E; specialize (Hs E); cbn in Hs; apply andb_true_iff in Hs; tauto.
Qed.

(* 're' as the first modifier, on the values from_mapping builds when 're' is in the chain *)
Lemma all_lits_map s : all_lits (map Lit s) = Some s.
Proof. induction s as [|c s IH]; [reflexivity|]. cbn [map all_lits fold_right] in *. unfold all_lits in IH. rewrite IH. reflexivity. Qed.

Lemma first_re_value_sim O field v mv : sigma_value true v = Ok mv ->
  sim_list true (apply_val O field 0 MRe mv) (sp_apply O (has_field field) true MRe (view mv)).
Proof.
  intros H. destruct v as [s|z|n d| |b| |]; cbn [sigma_value] in H; try discriminate H.
  - inversion H; subst. cbn [apply_val type_check modify view gmap amap sp_apply sp_modify kind_of sp_defined_on negb].
    cbn [from_str to_plain flat_map part_plain items part_items]. rewrite !app_nil_r, all_lits_map.
    cbn [Nat.ltb Nat.leb].
    pose proof (compile_sim O true (parse false s) (iparse_noesc s) false false false (parse_noesc_items s)
                  (good_str_intro true _ (parse_noesc_wfp s) (fun _ => parse_noesc_no_ph s))) as C.
    destruct (compile O (parse false s) false false false) as [r|e|e]; cbn [obind sim_list]; [|rewrite C; reflexivity | exact C].
    destruct C as [C1 C2]. rewrite C1. cbn. rewrite C2. split; reflexivity.
  - destruct (sigma_number (YInt z)); cbn in H; inversion H; reflexivity.
  - destruct (sigma_number (YFloat n d)); cbn in H; inversion H; reflexivity.
  - inversion H; reflexivity.
  - inversion H; reflexivity.
Qed.

Lemma mapM_Forall {A B} (f : A -> outcome B) l vs :
  mapM f l = Ok vs -> Forall (fun b => exists a, f a = Ok b) vs.
Proof.
  revert vs. induction l as [|a r IH]; intros vs H; [inversion H; constructor|].
  cbn [mapM] in H. destruct (f a) as [b|e|e] eqn:Ea; cbn [obind] in H; try discriminate H.
  destruct (mapM f r) as [bs|e|e]; cbn [obind] in H; try discriminate H.
  inversion H; subst. constructor; [exists a; exact Ea | apply IH; reflexivity].
Qed.

(* ---------- the theorem ---------- *)
Definition values_of (val : yin) : list yv := match val with YOne v => [v] | YMany l => l end.

(* the domain: modifiers outside the five encoding modifiers (property C04), no 'expand' before a
   'windash' (placeholders named _windash), integers that survive float(), and no empty string
   under a 're' that is not the first modifier *)
Definition in_domain (key : option str) (val : yin) : bool :=
  exact_ints (values_of val) &&
  match lookup_all (snd (split_key key)) with
  | Ok ms => forallb core ms && wd_ok true ms &&
             (negb (existsb is_re ms) || match ms with m :: _ => is_re m | [] => false end
              || nonempty_strs (values_of val))
  | _ => true
  end.

Definition refines (O : oracles) (key : option str) (val : yin) : Prop :=
  match from_mapping O key val with
  | Ok st => sp_from_mapping O key val = Some (map view (values st), link_and st, negated st)
  | SigmaErr _ => sp_from_mapping O key val = None
  | Crash _ => False
  end.

Theorem from_mapping_refines O key val : in_domain key val = true -> refines O key val.
Proof.
  unfold in_domain, refines, from_mapping, sp_from_mapping. rewrite key_sim.
  destruct (split_key key) as [field ids]. cbn [fst snd]. fold (values_of val).
  intros H. apply andb_true_iff in H. destruct H as [Hi H].
  pose proof (lookup_all_sim ids) as L.
  destruct (lookup_all ids) as [ms|e|e]; cbn [obind]; [|rewrite L; reflexivity | exact L].
  rewrite L. apply andb_true_iff in H. destruct H as [H Hre]. apply andb_true_iff in H. destruct H as [Hc Hw].
  pose proof (values_sim (existsb is_re ms) (values_of val) Hi) as V.
  destruct (mapM (sigma_value (existsb is_re ms)) (values_of val)) as [vs|e|e] eqn:EV; cbn [obind];
    [|rewrite V; reflexivity | exact V].
  rewrite V.
  destruct ms as [|m ms']; [reflexivity|].
  destruct (is_re m) eqn:Em.
  - (* 're' first *)
    destruct m; try discriminate Em. cbn [existsb is_re orb] in EV.
    cbn [run_chain sp_chain step values link_and negated].
    assert (S1: sim_list true (flat_mapM (apply_val O field 0 MRe) vs)
                  (sp_flat (sp_apply O (has_field field) true MRe) (map view vs))).
    { apply flat_sim. apply mapM_Forall in EV. rewrite Forall_forall in *. intros x Hx.
      destruct (EV x Hx) as [y Hy]. apply (first_re_value_sim O field y x Hy). }
    unfold sim_list in S1.
    destruct (flat_mapM (apply_val O field 0 MRe) vs) as [vs1|e|e]; cbn [obind]; [|rewrite S1; reflexivity | exact S1].
    destruct S1 as [S1 G1]. rewrite S1.
    cbn [forallb] in Hc. apply andb_true_iff in Hc. destruct Hc as [_ Hc].
    cbn [wd_ok is_windash is_expand negb orb andb] in Hw.
    apply (chain_sim O field ms' 1 {| values := vs1; link_and := false; negated := false |} true Hc Hw); [discriminate | exact G1].
  - assert (G: forallb (good true) vs = true).
    { apply (values_good (existsb is_re (m :: ms')) (values_of val) vs); [|exact EV].
      intros E. change (match m :: ms' with [] => false | m0 :: _ => is_re m0 end) with (is_re m) in Hre.
      rewrite E in Hre. exact Hre. }
    apply (chain_sim O field (m :: ms') 0 {| values := vs; link_and := false; negated := false |} true Hc Hw);
      [intros _; exact Em | exact G].
Qed.

(* admissibility: inside the domain the code rejects a chain exactly when the specification
   does not define it *)
Corollary rejected_iff O key val : in_domain key val = true ->
  ((exists c, from_mapping O key val = SigmaErr c) <-> sp_from_mapping O key val = None).
Proof.
  intros H. pose proof (from_mapping_refines O key val H) as R. unfold refines in R.
  destruct (from_mapping O key val) as [st|c|c] eqn:E.
  - split; [intros [c Hc]; discriminate Hc | intros K; rewrite K in R; discriminate R].
  - split; [intros _; exact R | intros _; exists c; reflexivity].
  - contradiction.
Qed.

(* ---------- outside the domain: witnesses ---------- *)
Definition O0 : oracles := {| word := fun _ => false; re_ok := fun _ => true; cidr_ok := fun _ => true |}.

(* a user placeholder that happens to be called _windash is expanded by windash *)
Lemma windash_placeholder_refuted :
  exists v, wfp v = true /\ map items (windash (word O0) v) <> variants (word O0) false (items v).
Proof. exists [PPh windash_name]. split; [reflexivity|]. vm_compute. discriminate. Qed.

Definition key_expand_windash : option str := Some [102;124;101;120;112;97;110;100;124;119;105;110;100;97;115;104]. (* f|expand|windash *)
Definition val_windash_ph : yin := YOne (YStr [37;95;119;105;110;100;97;115;104;37]).                                   (* %_windash% *)
Lemma refines_refuted_windash : ~ refines O0 key_expand_windash val_windash_ph.
Proof. unfold refines. vm_compute. discriminate. Qed.

(* integers beyond the precision of a double change their content *)
Lemma number_refuted : exists z, sigma_number (YInt z) <> Ok (NInt z).
Proof. exists 9007199254740993%Z. vm_compute. discriminate. Qed.
Lemma refines_refuted_number : ~ refines O0 (Some [102]) (YOne (YInt 9007199254740993)).
Proof. unfold refines. vm_compute. discriminate. Qed.

(* the domain is inhabited by non-trivial chains *)
Lemma in_domain_example :
  in_domain (Some [102;124;119;105;110;100;97;115;104;124;99;111;110;116;97;105;110;115;124;97;108;108])  (* f|windash|contains|all *)
            (YMany [YStr [45;97;32;47;98]; YStr [42;120]]) = true.
Proof. vm_compute. reflexivity. Qed.

(* ---------- statements collected for Props/C03.v ---------- *)
Lemma front_no_empty v : no_empty v = true -> no_empty (add_multi_front v) = true.
Proof.
  intros H. unfold add_multi_front, sadd. destruct (starts_multi v); [exact H|].
  apply wfp_no_empty, merge_no_empty_wfp. exact H.
Qed.

Lemma type_change_content :
  forall O field applied c v n b fi fm fs o p,
    modify O field applied MCased (AStr c v) = Ok (VAtom (AStr true v)) /\
    modify O field applied (MCmp o) (ANum n) = Ok (VAtom (ACmp o n)) /\
    modify O field applied (MFlag FI) (ARe v fi fm fs) = Ok (VAtom (ARe v true fm fs)) /\
    modify O field applied (MFlag FM) (ARe v fi fm fs) = Ok (VAtom (ARe v fi true fs)) /\
    modify O field applied (MFlag FS) (ARe v fi fm fs) = Ok (VAtom (ARe v fi fm true)) /\
    modify O field applied (MTs p) (ANum n) = Ok (VAtom (ANum (NTs p (num_trunc n)))) /\
    (forall z, num_trunc (NPlain (NInt z)) = z) /\
    (forall r, modify O field applied MExists (ABool b) = Ok r -> r = VAtom (AExists b)) /\
    (forall r, modify O field applied MCidr (AStr c v) = Ok r -> r = VAtom (ACidr (to_plain false v))) /\
    (forall r, modify O field applied MFieldref (AStr c v) = Ok r ->
               r = VAtom (AFieldRef (to_plain false v) false false) /\ contains_special v = false) /\
    (forall s r, modify O field applied MRe (AStr c (from_str s)) = Ok r ->
               exists w, r = VAtom (ARe w false false false) /\ items w = iparse_noesc s).
Proof.
  intros. repeat match goal with |- _ /\ _ => split end; try reflexivity.
  - intros r H. cbn [modify] in H. destruct field; [|discriminate H]. destruct (0 <? applied)%nat; inversion H; reflexivity.
  - intros r H. cbn [modify] in H. destruct (0 <? applied)%nat; [discriminate H|].
    destruct (cidr_ok O (to_plain false v)); inversion H; reflexivity.
  - intros r H. cbn [modify] in H. destruct (contains_special v); inversion H. split; reflexivity.
  - intros s r H. cbn [modify] in H. destruct (0 <? applied)%nat; [discriminate H|]. unfold compile in H.
    destruct (re_ok O _); inversion H. eexists. split; [reflexivity|].
    cbn [from_str to_plain flat_map part_plain]. rewrite app_nil_r. apply parse_noesc_items.
Qed.

Lemma wellformed_values :
  (forall s, wfp (parse true s) = true /\ no_ph (parse true s) = true /\ wfp (parse false s) = true) /\
  (forall v, wfp v = true -> wfp (add_multi_front v) = true /\ wfp (add_multi_back v) = true /\
                             wfp (insert_placeholders v) = true) /\
  (forall w v, wfp v = true -> no_ph v = true ->
               Forall (fun x => wfp x = true /\ no_ph x = true) (windash w v)).
Proof.
  split; [|split].
  - intros s. exact (conj (parse_wfp s) (conj (parse_no_ph s) (parse_noesc_wfp s))).
  - intros v H. exact (conj (add_multi_front_wfp v H) (conj (add_multi_back_wfp v H) (insert_placeholders_wfp v H))).
  - exact windash_good.
Qed.

Lemma contains_sem_model v s : no_empty v = true ->
  (wild_match (items (add_multi_back (add_multi_front v))) s = true <->
   exists a m b, s = a ++ m ++ b /\ wild_match (items v) m = true).
Proof.
  intros H. rewrite (add_multi_back_items _ (front_no_empty v H)), (add_multi_front_items v H).
  exact (sp_contains_sem (items v) s).
Qed.
Lemma startswith_sem_model v s : no_empty v = true ->
  (wild_match (items (add_multi_back v)) s = true <->
   exists m b, s = m ++ b /\ wild_match (items v) m = true).
Proof. intros H. rewrite (add_multi_back_items v H). exact (sp_back_sem (items v) s). Qed.
Lemma endswith_sem_model v s : no_empty v = true ->
  (wild_match (items (add_multi_front v)) s = true <->
   exists a m, s = a ++ m /\ wild_match (items v) m = true).
Proof. intros H. rewrite (add_multi_front_items v H). exact (sp_front_sem (items v) s). Qed.
Lemma wildcard_idem l :
  sp_contains (sp_contains l) = sp_contains l /\ sp_back (sp_back l) = sp_back l /\
  sp_front (sp_front l) = sp_front l.
Proof. exact (conj (sp_contains_idem l) (conj (sp_back_idem l) (sp_front_idem l))). Qed.
Lemma all_neq_frame O field :
    (forall applied st, step O field applied MAll st =
        Ok {| values := values st; link_and := true; negated := negated st |}) /\
    (forall applied st, step O field applied MNeq st =
        Ok {| values := values st; link_and := link_and st; negated := true |}) /\
    (forall ms applied st st', run_chain O field applied ms st = Ok st' ->
        link_and st' = (link_and st || existsb is_all ms) /\
        negated st' = (negated st || existsb is_neq ms)) /\
    (forall ms applied st1 st2, values st1 = values st2 ->
        same_values (run_chain O field applied ms st1) (run_chain O field applied ms st2)).
Proof.
  exact (conj (step_all O field) (conj (step_neq O field)
        (conj (run_chain_flags O field) (run_chain_values_indep O field)))).
Qed.
Lemma windash_variants w : w c_dash = false /\ w c_slash = false ->
  forall l,
    (forall x, In x (variants w false l) <-> is_variant w false l x) /\
    NoDup (variants w false l) /\
    length (variants w false l) = Nat.pow 5 (count_params w false l).
Proof.
  intros Hw l.
  exact (conj (variants_spec w Hw l false) (conj (variants_NoDup w l false) (variants_length w Hw l false))).
Qed.
Lemma number_refuted_both :
  (exists z, sigma_number (YInt z) <> Ok (NInt z)) /\
  ~ refines O0 (Some [102%N]) (YOne (YInt 9007199254740993)).
Proof. exact (conj number_refuted refines_refuted_number). Qed.
Lemma premises_inhabited :
  in_domain (Some [102;124;119;105;110;100;97;115;104;124;99;111;110;116;97;105;110;115;124;97;108;108]%N)
            (YMany [YStr [45;97;32;47;98]%N; YStr [42;120]%N]) = true /\
  wfp [PStr [45;97]%N; PMulti] = true /\ no_wd_ph [PStr [45;97]%N; PPh [120]%N] = true.
Proof. split; [exact in_domain_example | split; reflexivity]. Qed.
