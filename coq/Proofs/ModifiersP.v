(* Proofs about the model of the modifier chain (Model/Modifiers.v): no Python crash escapes,
   'all' / 'neq' only touch the flags, and the model refines the item-level specification
   (Spec/ModSpec.v). *)
From Coq Require Import NArith ZArith List Bool Lia.
From PS Require Import Base.Chars Base.Outcome Model.SString Model.ModBytes Model.Modifiers
                       Spec.Items Spec.ModSpec Proofs.SStringP.
Import ListNotations.
Open Scope N_scope.

(* ---------- induction principle for values (nested expansions) ---------- *)
Section GvalInd.
  Variable S : Type.
  Variable P : gval S -> Prop.
  Hypothesis Ha : forall a, P (VAtom a).
  Hypothesis He : forall l, Forall P l -> P (VExp l).
  Fixpoint gval_ind' (v : gval S) : P v :=
    match v with
    | VAtom a => Ha a
    | VExp l => He l ((fix go (l : list (gval S)) : Forall P l :=
                         match l with
                         | [] => Forall_nil P
                         | x :: r => Forall_cons x (gval_ind' x) (go r)
                         end) l)
    end.
End GvalInd.

(* ---------- no crash ---------- *)
Definition nocrash {A} (x : outcome A) : Prop := match x with Crash _ => False | _ => True end.

Lemma nocrash_bind {A B} (x : outcome A) (f : A -> outcome B) :
  nocrash x -> (forall a, nocrash (f a)) -> nocrash (obind x f).
Proof. destruct x; simpl; auto. Qed.

Lemma compile_nocrash O v a b c : nocrash (compile O v a b c).
Proof. unfold compile. destruct (re_ok O _); exact I. Qed.

Lemma modify_nocrash O field applied m a :
  type_check m a = true -> nocrash (modify O field applied m a).
Proof.
  intros H.
  destruct m as [| | | | | | |p|f| | | | |o| | | | | |]; try destruct f;
  destruct a; simpl in H; try discriminate H; cbn [modify ok_atom];
  repeat match goal with
         | |- nocrash (compile _ _ _ _ _) => apply compile_nocrash
         | |- nocrash (if ?b then _ else _) => destruct b
         | |- nocrash (match ?x with _ => _ end) => destruct x
         end; try exact I.
Qed.

Lemma apply_val_nocrash O field applied m : forall v, nocrash (apply_val O field applied m v).
Proof.
  induction v as [a|l IH] using gval_ind'.
  - cbn [apply_val]. destruct (type_check m a) eqn:E; [|exact I].
    apply nocrash_bind; [apply modify_nocrash; exact E | intros; exact I].
  - cbn [apply_val]. apply nocrash_bind; [|intros; exact I].
    induction IH as [|x r Hx Hr IHr]; [exact I|].
    apply nocrash_bind; [exact Hx|]. intros a. apply nocrash_bind; [exact IHr | intros; exact I].
Qed.

Lemma flat_mapM_nocrash {A B} (f : A -> outcome (list B)) l :
  (forall x, nocrash (f x)) -> nocrash (flat_mapM f l).
Proof.
  intros H. induction l as [|x r IH]; [exact I|]. cbn [flat_mapM].
  apply nocrash_bind; [apply H|]. intros a. apply nocrash_bind; [exact IH | intros; exact I].
Qed.

Lemma step_nocrash O field applied m st : nocrash (step O field applied m st).
Proof.
  destruct m; cbn [step]; try exact I;
    (apply nocrash_bind; [apply flat_mapM_nocrash; apply apply_val_nocrash | intros; exact I]).
Qed.

Lemma run_chain_nocrash O field : forall ms applied st, nocrash (run_chain O field applied ms st).
Proof.
  induction ms as [|m ms IH]; intros; [exact I|]. cbn [run_chain].
  apply nocrash_bind; [apply step_nocrash | intros; apply IH].
Qed.

Lemma lookup_all_nocrash ids : nocrash (lookup_all ids).
Proof.
  induction ids as [|i r IH]; [exact I|]. cbn [lookup_all].
  destruct (lookup_modifier modifier_mapping i); [|exact I].
  apply nocrash_bind; [exact IH | intros; exact I].
Qed.

Lemma sigma_value_nocrash b v : nocrash (sigma_value b v).
Proof.
  destruct v; cbn [sigma_value]; try exact I;
    (apply nocrash_bind; [|intros; exact I]); cbn [sigma_number];
    repeat match goal with |- nocrash (if ?b then _ else _) => destruct b end; exact I.
Qed.

Lemma mapM_nocrash {A B} (f : A -> outcome B) l : (forall x, nocrash (f x)) -> nocrash (mapM f l).
Proof.
  intros H. induction l as [|x r IH]; [exact I|]. cbn [mapM].
  apply nocrash_bind; [apply H|]. intros a. apply nocrash_bind; [exact IH | intros; exact I].
Qed.

Theorem from_mapping_nocrash O key val : forall c, from_mapping O key val <> Crash c.
Proof.
  assert (H: nocrash (from_mapping O key val)).
  { unfold from_mapping. destruct (split_key key) as [field ids].
    apply nocrash_bind; [apply lookup_all_nocrash|]. intros ms.
    apply nocrash_bind; [apply mapM_nocrash; apply sigma_value_nocrash|]. intros vals.
    apply run_chain_nocrash. }
  intros c E. rewrite E in H. exact H.
Qed.

(* ---------- 'all' and 'neq' only touch the flags; the flags never influence the values ---------- *)
Definition is_all (m : modifier) : bool := match m with MAll => true | _ => false end.
Definition is_neq (m : modifier) : bool := match m with MNeq => true | _ => false end.

Lemma step_all O field applied st :
  step O field applied MAll st = Ok {| values := values st; link_and := true; negated := negated st |}.
Proof. reflexivity. Qed.
Lemma step_neq O field applied st :
  step O field applied MNeq st = Ok {| values := values st; link_and := link_and st; negated := true |}.
Proof. reflexivity. Qed.

Lemma step_flags O field applied m st st' :
  step O field applied m st = Ok st' ->
  link_and st' = (link_and st || is_all m) /\ negated st' = (negated st || is_neq m).
Proof.
  destruct m; cbn [step is_all is_neq]; intros H;
    try (inversion H; subst; cbn; rewrite ?orb_true_r, ?orb_false_r; auto; fail);
    (destruct (flat_mapM _ _); cbn in H; inversion H; subst; cbn; rewrite !orb_false_r; auto).
Qed.

Theorem run_chain_flags O field : forall ms applied st st',
  run_chain O field applied ms st = Ok st' ->
  link_and st' = (link_and st || existsb is_all ms) /\ negated st' = (negated st || existsb is_neq ms).
Proof.
  induction ms as [|m ms IH]; intros applied st st' H.
  - inversion H; subst. cbn. rewrite !orb_false_r. auto.
  - cbn [run_chain] in H. destruct (step O field applied m st) as [st1| |] eqn:E; try discriminate H.
    cbn [obind] in H. apply IH in H. apply step_flags in E. destruct H as [H1 H2], E as [E1 E2].
    cbn [existsb]. rewrite H1, H2, E1, E2, !orb_assoc. auto.
Qed.

(* the values (and whether the chain is rejected) do not depend on the flags *)
Definition same_values (a b : outcome item_state) : Prop :=
  match a, b with
  | Ok x, Ok y => values x = values y
  | SigmaErr c, SigmaErr d => c = d
  | Crash c, Crash d => c = d
  | _, _ => False
  end.

Lemma step_values_indep O field applied m st1 st2 :
  values st1 = values st2 -> same_values (step O field applied m st1) (step O field applied m st2).
Proof.
  intros E. destruct m; cbn [step]; try (cbn; exact E);
    (rewrite E; destruct (flat_mapM _ _); cbn; auto).
Qed.

Theorem run_chain_values_indep O field : forall ms applied st1 st2,
  values st1 = values st2 ->
  same_values (run_chain O field applied ms st1) (run_chain O field applied ms st2).
Proof.
  induction ms as [|m ms IH]; intros applied st1 st2 E; [exact E|].
  cbn [run_chain]. pose proof (step_values_indep O field applied m st1 st2 E) as H.
  destruct (step O field applied m st1), (step O field applied m st2); cbn in H |- *; try contradiction; auto.
Qed.
