(* Proofs about the model of the modifier chain (Model/Modifiers.v): no Python crash escapes,
   'all' / 'neq' only touch the flags, and the model refines the item-level specification
   (Spec/ModSpec.v). *)
From Coq Require Import NArith ZArith List Bool Lia.
From PS Require Import Base.Chars Base.Outcome Model.SString Model.ModBytes Model.Modifiers
                       Spec.Items Spec.ModSpec Proofs.SStringP Proofs.ModSpecP.
Import ListNotations.
Open Scope N_scope.

(* ---------- induction principle for values (nested expansions) ---------- *)
Section GvalInd.
  Variable S : Type.
  Variable P : gval S -> Prop.
  Hypothesis Ha : forall a, P (VAtom a).
  Hypothesis He : forall l, Forall P l -> P (VExp l).
  Fixpoint gval_ind' (v : gval S) : P v :=
    match v with
    | VAtom a => Ha a
    | VExp l => He l ((fix go (l : list (gval S)) : Forall P l :=
                         match l with
                         | [] => Forall_nil P
                         | x :: r => Forall_cons x (gval_ind' x) (go r)
                         end) l)
    end.
End GvalInd.

(* ---------- no crash ---------- *)
Definition nocrash {A} (x : outcome A) : Prop := match x with Crash _ => False | _ => True end.

Lemma nocrash_bind {A B} (x : outcome A) (f : A -> outcome B) :
  nocrash x -> (forall a, nocrash (f a)) -> nocrash (obind x f).
Proof. destruct x; simpl; auto. Qed.

Lemma compile_nocrash O v a b c : nocrash (compile O v a b c).
Proof. unfold compile. destruct (re_ok O _); exact I. Qed.

Lemma modify_nocrash O field applied m a :
  type_check m a = true -> nocrash (modify O field applied m a).
Proof.
  intros H.
  destruct m as [| | | | | | |p|f| | | | |o| | | | | |]; try destruct f;
  destruct a; simpl in H; try discriminate H; cbn [modify ok_atom];
  repeat match goal with
         | |- nocrash (compile _ _ _ _ _) => apply compile_nocrash
         | |- nocrash (if ?b then _ else _) => destruct b
         | |- nocrash (match ?x with _ => _ end) => destruct x
         end; try exact I.
Qed.

Lemma apply_val_nocrash O field applied m : forall v, nocrash (apply_val O field applied m v).
Proof.
  induction v as [a|l IH] using gval_ind'.
  - cbn [apply_val]. destruct (type_check m a) eqn:E; [|exact I].
    apply nocrash_bind; [apply modify_nocrash; exact E | intros; exact I].
  - cbn [apply_val]. apply nocrash_bind; [|intros; exact I].
    induction IH as [|x r Hx Hr IHr]; [exact I|].
    apply nocrash_bind; [exact Hx|]. intros a. apply nocrash_bind; [exact IHr | intros; exact I].
Qed.

Lemma flat_mapM_nocrash {A B} (f : A -> outcome (list B)) l :
  (forall x, nocrash (f x)) -> nocrash (flat_mapM f l).
Proof.
  intros H. induction l as [|x r IH]; [exact I|]. cbn [flat_mapM].
  apply nocrash_bind; [apply H|]. intros a. apply nocrash_bind; [exact IH | intros; exact I].
Qed.

Lemma step_nocrash O field applied m st : nocrash (step O field applied m st).
Proof.
  destruct m; cbn [step]; try exact I;
    (apply nocrash_bind; [apply flat_mapM_nocrash; apply apply_val_nocrash | intros; exact I]).
Qed.

Lemma run_chain_nocrash O field : forall ms applied st, nocrash (run_chain O field applied ms st).
Proof.
  induction ms as [|m ms IH]; intros; [exact I|]. cbn [run_chain].
  apply nocrash_bind; [apply step_nocrash | intros; apply IH].
Qed.

Lemma lookup_all_nocrash ids : nocrash (lookup_all ids).
Proof.
  induction ids as [|i r IH]; [exact I|]. cbn [lookup_all].
  destruct (lookup_modifier modifier_mapping i); [|exact I].
  apply nocrash_bind; [exact IH | intros; exact I].
Qed.

Lemma sigma_value_nocrash b v : nocrash (sigma_value b v).
Proof.
  destruct v; cbn [sigma_value]; try exact I;
    (apply nocrash_bind; [|intros; exact I]); cbn [sigma_number];
    repeat match goal with |- nocrash (if ?b then _ else _) => destruct b end; exact I.
Qed.

Lemma mapM_nocrash {A B} (f : A -> outcome B) l : (forall x, nocrash (f x)) -> nocrash (mapM f l).
Proof.
  intros H. induction l as [|x r IH]; [exact I|]. cbn [mapM].
  apply nocrash_bind; [apply H|]. intros a. apply nocrash_bind; [exact IH | intros; exact I].
Qed.

Theorem from_mapping_nocrash O key val : forall c, from_mapping O key val <> Crash c.
Proof.
  assert (H: nocrash (from_mapping O key val)).
  { unfold from_mapping. destruct (split_key key) as [field ids].
    apply nocrash_bind; [apply lookup_all_nocrash|]. intros ms.
    apply nocrash_bind; [apply mapM_nocrash; apply sigma_value_nocrash|]. intros vals.
    apply run_chain_nocrash. }
  intros c E. rewrite E in H. exact H.
Qed.

(* ---------- 'all' and 'neq' only touch the flags; the flags never influence the values ---------- *)
Definition is_all (m : modifier) : bool := match m with MAll => true | _ => false end.
Definition is_neq (m : modifier) : bool := match m with MNeq => true | _ => false end.

Lemma step_all O field applied st :
  step O field applied MAll st = Ok {| values := values st; link_and := true; negated := negated st |}.
Proof. reflexivity. Qed.
Lemma step_neq O field applied st :
  step O field applied MNeq st = Ok {| values := values st; link_and := link_and st; negated := true |}.
Proof. reflexivity. Qed.

Lemma step_flags O field applied m st st' :
  step O field applied m st = Ok st' ->
  link_and st' = (link_and st || is_all m) /\ negated st' = (negated st || is_neq m).
Proof.
  destruct m; cbn [step is_all is_neq]; intros H;
    try (inversion H; subst; cbn; rewrite ?orb_true_r, ?orb_false_r; auto; fail);
    (destruct (flat_mapM _ _); cbn in H; inversion H; subst; cbn; rewrite !orb_false_r; auto).
Qed.

Theorem run_chain_flags O field : forall ms applied st st',
  run_chain O field applied ms st = Ok st' ->
  link_and st' = (link_and st || existsb is_all ms) /\ negated st' = (negated st || existsb is_neq ms).
Proof.
  induction ms as [|m ms IH]; intros applied st st' H.
  - inversion H; subst. cbn. rewrite !orb_false_r. auto.
  - cbn [run_chain] in H. destruct (step O field applied m st) as [st1| |] eqn:E; try discriminate H.
    cbn [obind] in H. apply IH in H. apply step_flags in E. destruct H as [H1 H2], E as [E1 E2].
    cbn [existsb]. rewrite H1, H2, E1, E2, !orb_assoc. auto.
Qed.

(* the values (and whether the chain is rejected) do not depend on the flags *)
Definition same_values (a b : outcome item_state) : Prop :=
  match a, b with
  | Ok x, Ok y => values x = values y
  | SigmaErr c, SigmaErr d => c = d
  | Crash c, Crash d => c = d
  | _, _ => False
  end.

Lemma step_values_indep O field applied m st1 st2 :
  values st1 = values st2 -> same_values (step O field applied m st1) (step O field applied m st2).
Proof.
  intros E. destruct m; cbn [step]; try (cbn; exact E);
    (rewrite E; destruct (flat_mapM _ _); cbn; auto).
Qed.

Theorem run_chain_values_indep O field : forall ms applied st1 st2,
  values st1 = values st2 ->
  same_values (run_chain O field applied ms st1) (run_chain O field applied ms st2).
Proof.
  induction ms as [|m ms IH]; intros applied st1 st2 E; [exact E|].
  cbn [run_chain]. pose proof (step_values_indep O field applied m st1 st2 E) as H.
  destruct (step O field applied m st1), (step O field applied m st2); cbn in H |- *; try contradiction; auto.
Qed.

(* ====================================================================================== *)
(* Refinement: the part-level operations of the code equal the item-level specification   *)
(* ====================================================================================== *)

(* well-formed part lists: no empty string part, no two adjacent string parts (what the parser
   and every operation of the model produce; SigmaString.from_str("") is the one exception) *)
Definition str_empty (s : str) : bool := match s with [] => true | _ => false end.
Definition starts_pstr (v : sstring) : bool := match v with PStr _ :: _ => true | _ => false end.
Fixpoint wfp (v : sstring) : bool :=
  match v with
  | [] => true
  | PStr s :: v' => negb (str_empty s) && negb (starts_pstr v') && wfp v'
  | _ :: v' => wfp v'
  end.
Definition nonempty_part (p : part) : bool := match p with PStr [] => false | _ => true end.
Definition no_empty (v : sstring) : bool := forallb nonempty_part v.

Lemma items_cons p v : items (p :: v) = part_items p ++ items v.
Proof. reflexivity. Qed.

Lemma items_merge v : items (merge_strs v) = items v.
Proof.
  induction v as [|p v IH]; [reflexivity|].
  destruct p as [a| | |n]; cbn [merge_strs]; rewrite ?items_cons, ?IH; try reflexivity.
  destruct (merge_strs v) as [|[b| | |m] r] eqn:E; rewrite <- IH, ?items_cons; cbn [part_items];
    rewrite ?map_app, <- ?app_assoc; reflexivity.
Qed.

Lemma wfp_tail p v : wfp (p :: v) = true -> wfp v = true.
Proof. destruct p; cbn [wfp]; rewrite ?andb_true_iff; tauto. Qed.
Lemma wfp_no_empty v : wfp v = true -> no_empty v = true.
Proof.
  induction v as [|p v IH]; [reflexivity|]. intros H. cbn [no_empty forallb]. apply andb_true_iff. split.
  - destruct p as [[|c s]| | |n]; try reflexivity. discriminate H.
  - apply IH. exact (wfp_tail _ _ H).
Qed.

Lemma merge_wfp_id v : wfp v = true -> merge_strs v = v.
Proof.
  induction v as [|p v IH]; [reflexivity|]. destruct p as [s| | |n]; cbn [wfp merge_strs]; intros H;
    try (rewrite IH by exact H; reflexivity).
  apply andb_true_iff in H. destruct H as [H Hw]. apply andb_true_iff in H. destruct H as [_ Hs].
  rewrite IH by exact Hw. destruct v as [|[b| | |m] r]; try reflexivity. discriminate Hs.
Qed.

Lemma merge_no_empty_wfp v : no_empty v = true -> wfp (merge_strs v) = true.
Proof.
  induction v as [|p v IH]; [reflexivity|]. cbn [no_empty forallb]. rewrite andb_true_iff. intros [Hp Hv].
  specialize (IH Hv). destruct p as [a| | |n]; cbn [merge_strs]; try exact IH.
  destruct a as [|c a]; [discriminate Hp|].
  destruct (merge_strs v) as [|[b| | |m] r]; cbn [wfp str_empty starts_pstr app negb andb] in *; try exact IH; try reflexivity.
  apply andb_true_iff in IH. destruct IH as [IH1 IH2]. apply andb_true_iff in IH1. destruct IH1 as [_ IH1].
  rewrite IH1, IH2. reflexivity.
Qed.

Lemma no_empty_app a b : no_empty (a ++ b) = no_empty a && no_empty b.
Proof. apply forallb_app. Qed.

(* ---------- contains / startswith / endswith on strings ---------- *)
Lemma starts_multi_items v : no_empty v = true ->
  starts_multi v = match items v with Multi :: _ => true | _ => false end.
Proof. destruct v as [|[[|c s]| | |n] v]; try reflexivity. discriminate. Qed.

Lemma emi_app a b : b <> [] -> ends_multi_item (a ++ b) = ends_multi_item b.
Proof.
  intros Hb. induction a as [|i a IH]; [reflexivity|]. cbn [app].
  destruct (a ++ b) eqn:E; [destruct a; [subst; contradiction | discriminate E]|].
  rewrite <- IH. reflexivity.
Qed.
Lemma emi_lits s : ends_multi_item (map Lit s) = false.
Proof. induction s as [|c s IH]; [reflexivity|]. destruct s; [reflexivity|exact IH]. Qed.
Lemma part_items_nonempty p : nonempty_part p = true -> part_items p <> [].
Proof. destruct p as [[|c s]| | |n]; cbn; try discriminate; congruence. Qed.
Lemma items_nonempty v : v <> [] -> no_empty v = true -> items v <> [].
Proof.
  destruct v as [|p v]; [congruence|]. intros _ H. cbn [no_empty forallb] in H. apply andb_true_iff in H.
  destruct H as [H _]. apply part_items_nonempty in H. rewrite items_cons. intros E.
  apply app_eq_nil in E. tauto.
Qed.

Lemma ends_multi_items v : no_empty v = true -> ends_multi v = ends_multi_item (items v).
Proof.
  induction v as [|p v IH]; [reflexivity|]. intros H. pose proof H as H0.
  cbn [no_empty forallb] in H. apply andb_true_iff in H. destruct H as [Hp Hv].
  destruct v as [|q v'].
  - rewrite items_cons. cbn [items flat_map]. rewrite app_nil_r.
    destruct p as [[|c s]| | |n]; try reflexivity; try discriminate Hp.
    cbn [ends_multi is_multi part_items]. symmetry. apply (emi_lits (c :: s)).
  - change (ends_multi (p :: q :: v')) with (ends_multi (q :: v')). rewrite IH by exact Hv.
    rewrite (items_cons p). symmetry. apply emi_app. apply items_nonempty; [discriminate | exact Hv].
Qed.

Theorem add_multi_front_items v : no_empty v = true -> items (add_multi_front v) = sp_front (items v).
Proof.
  intros H. unfold add_multi_front, sp_front, sadd. rewrite (starts_multi_items v H).
  destruct (items v) as [|[c| | |n] l] eqn:E; rewrite ?items_merge; cbn [app]; rewrite ?items_cons, ?E; reflexivity.
Qed.
Theorem add_multi_back_items v : no_empty v = true -> items (add_multi_back v) = sp_back (items v).
Proof.
  intros H. unfold add_multi_back, sp_back, sadd. rewrite (ends_multi_items v H).
  destruct (ends_multi_item (items v)); [reflexivity|]. rewrite items_merge, items_app. reflexivity.
Qed.
Lemma add_multi_front_wfp v : wfp v = true -> wfp (add_multi_front v) = true.
Proof.
  intros H. unfold add_multi_front, sadd. destruct (starts_multi v); [exact H|].
  apply merge_no_empty_wfp. cbn. apply wfp_no_empty. exact H.
Qed.
Lemma add_multi_back_wfp v : wfp v = true -> wfp (add_multi_back v) = true.
Proof.
  intros H. unfold add_multi_back, sadd. destruct (ends_multi v); [exact H|].
  apply merge_no_empty_wfp. rewrite no_empty_app, (wfp_no_empty v H). reflexivity.
Qed.

(* ---------- windash ---------- *)
Definition no_ph (v : sstring) : bool := negb (existsb is_ph v).
Definition not_lit_head (l : istr) : bool := match l with Lit _ :: _ => false | _ => true end.

Lemma variants_prev_irrelevant w l p q : not_lit_head l = true -> variants w p l = variants w q l.
Proof. destruct l as [|[c| | |n] l]; try reflexivity. discriminate. Qed.

Lemma rp_flush acc X : map items (rp (flush [] acc ++ X)) = map (app (map Lit acc)) (map items (rp X)).
Proof.
  destruct acc as [|c acc]; cbn [flush app].
  - cbn [map]. rewrite map_map. apply map_ext. reflexivity. 
  - cbn [rp]. rewrite !map_map. apply map_ext. intros y. reflexivity.
Qed.

Lemma map_flat_map {A B C} (f : B -> C) (g : A -> list B) l :
  map f (flat_map g l) = flat_map (fun a => map f (g a)) l.
Proof. induction l as [|a l IH]; [reflexivity|]. simpl. rewrite map_app, IH. reflexivity. Qed.

Lemma wd_scan_refines w R ir :
  not_lit_head ir = true -> map items (rp R) = variants w false ir ->
  forall e acc pw,
    map items (rp (wd_scan w pw e acc ++ R)) = map (app (map Lit acc)) (variants w pw (map Lit e ++ ir)).
Proof.
  intros Hnl HR. induction e as [|c e IH]; intros acc pw.
  - cbn [wd_scan map app]. rewrite rp_flush, HR. rewrite (variants_prev_irrelevant w ir pw false Hnl). reflexivity.
  - cbn [wd_scan map app]. rewrite variants_lit.
    assert (Hc: next_is_word w (map Lit e ++ ir) = match e with d :: _ => w d | [] => false end).
    { destruct e as [|d e]; [|reflexivity]. destruct ir as [|[x| | |n] ir]; try reflexivity. discriminate Hnl. }
    rewrite Hc. destruct (is_dash c && negb pw && match e with d :: _ => w d | [] => false end).
    + rewrite <- app_assoc. rewrite rp_flush. f_equal. cbn [app rp].
      rewrite str_eqb_refl. rewrite !map_flat_map. apply flat_map_ext. intros d.
      rewrite map_map. specialize (IH [] false). cbn [map] in IH.
      rewrite <- (map_id (variants w false (map Lit e ++ ir))) at 1.
      replace (map (fun x => x) (variants w false (map Lit e ++ ir)))
        with (map (app []) (variants w false (map Lit e ++ ir))) by (apply map_ext; reflexivity).
      rewrite <- IH. rewrite map_map. apply map_ext. reflexivity.
    + rewrite IH. rewrite map_map. apply map_ext. intros y. rewrite map_app, <- app_assoc. reflexivity.
Qed.

Lemma wfp_tail_not_lit s v : wfp (PStr s :: v) = true -> not_lit_head (items v) = true.
Proof.
  cbn [wfp]. rewrite !andb_true_iff. intros [[_ Hs] Hv].
  destruct v as [|[[|c t]| | |n] v]; try reflexivity; discriminate.
Qed.
Lemma rwp_items w : forall v, wfp v = true -> no_ph v = true ->
  map items (rp (replace_with_placeholder w v)) = variants w false (items v).
Proof.
  induction v as [|p v IH]; intros Hw Hn; [reflexivity|].
  assert (Hn': no_ph v = true).
  { unfold no_ph in *. cbn [existsb] in Hn. apply negb_true_iff in Hn. apply orb_false_iff in Hn.
    apply negb_true_iff. tauto. }
  specialize (IH (wfp_tail _ _ Hw) Hn').
  unfold replace_with_placeholder in *. cbn [flat_map]. destruct p as [s| | |n].
  - destruct s as [|c s]; [discriminate Hw|]. cbn [rwp_part].
    rewrite (wd_scan_refines w _ (items v) (wfp_tail_not_lit _ _ Hw) IH (c :: s) [] false).
    rewrite items_cons. cbn [part_items]. rewrite map_ext with (g := fun x => x); [apply map_id | reflexivity].
  - cbn [rwp_part app rp]. rewrite map_map. rewrite items_cons. cbn [part_items app variants].
    rewrite <- IH, map_map. reflexivity.
  - cbn [rwp_part app rp]. rewrite map_map. rewrite items_cons. cbn [part_items app variants].
    rewrite <- IH, map_map. reflexivity.
  - discriminate Hn.
Qed.

Lemma rp_no_ph X : no_ph X = true -> rp X = [X].
Proof.
  induction X as [|p X IH]; [reflexivity|]. unfold no_ph. cbn [existsb]. intros H.
  apply negb_true_iff in H. apply orb_false_iff in H. destruct H as [Hp HX].
  destruct p; try discriminate Hp; cbn [rp]; rewrite IH by (apply negb_true_iff; exact HX); reflexivity.
Qed.

Theorem windash_items w v : wfp v = true -> no_ph v = true ->
  map items (windash w v) = variants w false (items v).
Proof.
  intros Hw Hn. rewrite <- (rwp_items w v Hw Hn). unfold windash, replace_placeholders.
  destruct (existsb is_ph (replace_with_placeholder w v)) eqn:E.
  - rewrite map_map. apply map_ext. intros y. apply items_merge.
  - rewrite rp_no_ph by (unfold no_ph; rewrite E; reflexivity). reflexivity.
Qed.

(* ---------- expand ---------- *)
Definition ends_bs (s : str) : bool := match rev s with c :: _ => N.eqb c c_bs | [] => false end.
Definition starts_pct (s : str) : bool := match s with c :: _ => N.eqb c c_pct | [] => false end.

Lemma ends_bs_snoc s c : ends_bs (s ++ [c]) = N.eqb c c_bs.
Proof. unfold ends_bs. rewrite rev_app_distr. reflexivity. Qed.
Lemma ends_bs_cons a b s : ends_bs (a :: b :: s) = ends_bs (b :: s).
Proof.
  unfold ends_bs. cbn [rev]. destruct (rev s ++ [b]) eqn:E.
  - destruct (rev s); discriminate E.
  - reflexivity.
Qed.

Lemma unescape_cons2 a b s :
  unescape_pct (a :: b :: s) =
  if N.eqb a c_bs && N.eqb b c_pct then c_pct :: unescape_pct s else a :: unescape_pct (b :: s).
Proof. reflexivity. Qed.

Lemma unescape_app : forall n A X, (length A <= n)%nat ->
  ends_bs A && starts_pct X = false -> unescape_pct (A ++ X) = unescape_pct A ++ unescape_pct X.
Proof.
  induction n as [|n IH]; intros A X Hl H.
  - destruct A; [reflexivity | simpl in Hl; lia].
  - destruct A as [|a [|b A]].
    + reflexivity.
    + cbn [app]. unfold ends_bs in H. cbn [rev app] in H.
      destruct X as [|x X]; [reflexivity|]. cbn [starts_pct] in H. cbn [unescape_pct].
      destruct (N.eqb a c_bs); cbn [andb] in *; [rewrite H|]; reflexivity.
    + rewrite ends_bs_cons in H. cbn [app]. rewrite !unescape_cons2.
      assert (Hl1: (length A <= n)%nat) by (simpl in Hl; lia).
      assert (Hl2: (length (b :: A) <= n)%nat) by (simpl in *; lia).
      destruct (N.eqb a c_bs && N.eqb b c_pct).
      * assert (HA: ends_bs A && starts_pct X = false).
        { destruct A as [|a' A']; [reflexivity|]. rewrite ends_bs_cons in H. exact H. }
        rewrite (IH A X Hl1 HA). reflexivity.
      * change (b :: A ++ X) with ((b :: A) ++ X). rewrite (IH (b :: A) X Hl2 H). reflexivity.

Qed.

Lemma take_find s ir : not_lit_head ir = true -> forall acc,
  take_name (map Lit s ++ ir) acc =
  match find_pct s acc with Some (nm, rest) => Some (nm, map Lit rest ++ ir) | None => None end.
Proof.
  intros Hn. induction s as [|c s IH]; intros acc.
  - cbn. destruct ir as [|[x| | |n] ir]; try reflexivity. discriminate Hn.
  - cbn [map app take_name find_pct]. destruct (N.eqb c c_pct); [reflexivity | apply IH].
Qed.
Lemma find_pct_length s : forall acc nm rest, find_pct s acc = Some (nm, rest) -> (length rest < length s)%nat.
Proof.
  induction s as [|c s IH]; intros acc nm rest H; [discriminate H|]. cbn [find_pct] in H.
  destruct (N.eqb c c_pct).
  - inversion H; subst. simpl. lia.
  - apply IH in H. simpl. lia.
Qed.
Lemma take_name_length l : forall acc nm rest, take_name l acc = Some (nm, rest) -> (length rest < length l)%nat.
Proof.
  induction l as [|i l IH]; intros acc nm rest H; [discriminate H|]. destruct i; try discriminate H.
  cbn [take_name] in H. destruct (N.eqb c c_pct).
  - inversion H; subst. simpl. lia.
  - apply IH in H. simpl. lia.
Qed.

(* fuel is irrelevant once it exceeds the length *)
Lemma sp_fuel : forall n f1 f2 l, (length l <= n)%nat -> (n < f1)%nat -> (n < f2)%nat ->
  sp_expand_go f1 l = sp_expand_go f2 l.
Proof.
  induction n as [|n IH]; intros f1 f2 l Hl H1 H2;
    (destruct f1 as [|f1]; [lia|]); (destruct f2 as [|f2]; [lia|]);
    destruct l as [|i l]; try reflexivity; [simpl in Hl; lia|].
  assert (Hl': (length l <= n)%nat) by (simpl in Hl; lia).
  cbn [sp_expand_go]. destruct i as [c| | |nm]; try (f_equal; apply IH; lia).
  destruct (N.eqb c c_pct).
  - destruct (take_name l []) as [[[|x name] rest]|] eqn:E; try (f_equal; apply IH; lia).
    f_equal. apply take_name_length in E. apply IH; lia.
  - destruct (N.eqb c c_bs); [|f_equal; apply IH; lia].
    destruct l as [|[d| | |nm] l']; try (f_equal; apply IH; lia).
    destruct (N.eqb d c_pct); f_equal; apply IH; simpl in *; lia.
Qed.

Lemma sp_go_lit f c l :
  sp_expand_go (S f) (Lit c :: l) =
  if N.eqb c c_pct then
    match take_name l [] with
    | Some (x :: name, rest) => Ph (x :: name) :: sp_expand_go f rest
    | _ => Lit c :: sp_expand_go f l
    end
  else if N.eqb c c_bs then
    match l with
    | Lit d :: l'' => if N.eqb d c_pct then Lit c_pct :: sp_expand_go f l'' else Lit c :: sp_expand_go f l
    | _ => Lit c :: sp_expand_go f l
    end
  else Lit c :: sp_expand_go f l.
Proof. reflexivity. Qed.
Lemma ip_scan_cons f pbs c s acc :
  ip_scan (S f) pbs (c :: s) acc =
  if N.eqb c c_pct && negb pbs then
    match find_pct s [] with
    | Some (x :: name, rest) => flush_u acc ++ PPh (x :: name) :: ip_scan f false rest []
    | _ => ip_scan f false s (acc ++ [c])
    end
  else ip_scan f (N.eqb c c_bs) s (acc ++ [c]).
Proof. reflexivity. Qed.

Lemma sp_expand_nil : sp_expand [] = [].
Proof. reflexivity. Qed.
Lemma sp_expand_nonlit i l :
  match i with Lit _ => False | _ => True end -> sp_expand (i :: l) = i :: sp_expand l.
Proof. destruct i; intros H; try contradiction; reflexivity. Qed.
Lemma sp_expand_lit c l :
  sp_expand (Lit c :: l) =
  if N.eqb c c_pct then
    match take_name l [] with
    | Some (x :: name, rest) => Ph (x :: name) :: sp_expand rest
    | _ => Lit c :: sp_expand l
    end
  else if N.eqb c c_bs then
    match l with
    | Lit d :: l'' => if N.eqb d c_pct then Lit c_pct :: sp_expand l'' else Lit c :: sp_expand l
    | _ => Lit c :: sp_expand l
    end
  else Lit c :: sp_expand l.
Proof.
  unfold sp_expand at 1. change (length (Lit c :: l)) with (S (length l)). rewrite sp_go_lit.
  change (sp_expand_go (S (length l)) l) with (sp_expand l).
  destruct (N.eqb c c_pct).
  - destruct (take_name l []) as [[[|x name] rest]|] eqn:E; try reflexivity.
    f_equal. apply take_name_length in E. apply (sp_fuel (length rest)); lia.
  - destruct (N.eqb c c_bs); [|reflexivity].
    destruct l as [|[d| | |nm] l']; try reflexivity.
    destruct (N.eqb d c_pct); [|reflexivity]. f_equal. apply (sp_fuel (length l')); simpl; lia.
Qed.

Lemma ip_fuel : forall n f1 f2 s pbs acc, (length s <= n)%nat -> (n < f1)%nat -> (n < f2)%nat ->
  ip_scan f1 pbs s acc = ip_scan f2 pbs s acc.
Proof.
  induction n as [|n IH]; intros f1 f2 s pbs acc Hl H1 H2;
    (destruct f1 as [|f1]; [lia|]); (destruct f2 as [|f2]; [lia|]);
    destruct s as [|c s]; try reflexivity; [simpl in Hl; lia|].
  assert (Hl': (length s <= n)%nat) by (simpl in Hl; lia).
  cbn [ip_scan]. destruct (N.eqb c c_pct && negb pbs); [|apply IH; lia].
  destruct (find_pct s []) as [[[|x name] rest]|] eqn:E; try (apply IH; lia).
  f_equal. f_equal. apply find_pct_length in E. apply IH; lia.
Qed.

Definition ips (pbs : bool) (s acc : str) : sstring := ip_scan (S (length s)) pbs s acc.
Lemma ips_nil pbs acc : ips pbs [] acc = flush_u acc.
Proof. reflexivity. Qed.
Lemma ips_cons pbs c s acc :
  ips pbs (c :: s) acc =
  if N.eqb c c_pct && negb pbs then
    match find_pct s [] with
    | Some (x :: name, rest) => flush_u acc ++ PPh (x :: name) :: ips false rest []
    | _ => ips false s (acc ++ [c])
    end
  else ips (N.eqb c c_bs) s (acc ++ [c]).
Proof.
  unfold ips at 1. change (length (c :: s)) with (S (length s)). rewrite ip_scan_cons.
  change (ip_scan (S (length s)) false s (acc ++ [c])) with (ips false s (acc ++ [c])).
  change (ip_scan (S (length s)) (N.eqb c c_bs) s (acc ++ [c])) with (ips (N.eqb c c_bs) s (acc ++ [c])).
  destruct (N.eqb c c_pct && negb pbs); [|reflexivity].
  destruct (find_pct s []) as [[[|x name] rest]|] eqn:E; try reflexivity.
  f_equal. f_equal. apply find_pct_length in E. apply (ip_fuel (length rest)); lia.
Qed.

Lemma items_flush_u acc : items (flush_u acc) = map Lit (unescape_pct acc).
Proof. unfold flush_u. destruct (unescape_pct acc); [reflexivity|]. cbn. rewrite app_nil_r. reflexivity. Qed.

Lemma unescape_snoc A c : ends_bs A && N.eqb c c_pct = false -> unescape_pct (A ++ [c]) = unescape_pct A ++ [c].
Proof. intros H. rewrite (unescape_app (length A) A [c]); [reflexivity | lia | exact H]. Qed.
Lemma unescape_snoc_bs_pct A : unescape_pct (A ++ [c_bs; c_pct]) = unescape_pct A ++ [c_pct].
Proof.
  rewrite (unescape_app (length A) A [c_bs; c_pct]); [reflexivity | lia |].
  cbn [starts_pct]. apply andb_false_r.
Qed.

(* the scanner of the code (lookbehind + replace on the segments) against the item-level reading *)
Lemma ips_refines ir : not_lit_head ir = true -> forall n s, (length s <= n)%nat -> forall pbs A,
  (pbs = false -> ends_bs A = false) ->
  items (ips pbs s (A ++ if pbs then [c_bs] else [])) ++ sp_expand ir =
  map Lit (unescape_pct A) ++ sp_expand ((if pbs then [Lit c_bs] else []) ++ map Lit s ++ ir).
Proof.
  intros Hn. assert (Hir: sp_expand (Lit c_bs :: ir) = Lit c_bs :: sp_expand ir).
  { rewrite sp_expand_lit. cbn. destruct ir as [|[x| | |nm] ir']; try reflexivity. discriminate Hn. }
  induction n as [|n IH]; intros s Hl pbs A HA.
  - destruct s; [|simpl in Hl; lia]. rewrite ips_nil, items_flush_u. destruct pbs; cbn [app map].
    + rewrite unescape_snoc by (cbn; apply andb_false_r). rewrite map_app, <- app_assoc. cbn [map app].
      rewrite Hir. reflexivity.
    + rewrite app_nil_r. reflexivity.
  - destruct s as [|c s]; [apply (IH []); [simpl; lia | exact HA]|].
    assert (Hl': (length s <= n)%nat) by (simpl in Hl; lia).
    rewrite ips_cons. destruct pbs.
    + (* a backslash is pending *)
      rewrite andb_false_r. cbn [app map]. rewrite <- app_assoc. cbn [app].
      rewrite sp_expand_lit. cbn [N.eqb c_bs c_pct Pos.eqb]. 
      destruct (N.eqb c c_pct) eqn:Ec.
      * apply N.eqb_eq in Ec. subst c. cbn [N.eqb c_bs c_pct Pos.eqb].
        specialize (IH s Hl' false (A ++ [c_bs; c_pct])). cbn [app] in IH. rewrite app_nil_r in IH.
        rewrite IH by (intros _; rewrite (ends_bs_snoc (A ++ [c_bs]) c_pct) || (replace (A ++ [c_bs; c_pct]) with ((A ++ [c_bs]) ++ [c_pct]) by (rewrite <- app_assoc; reflexivity); rewrite ends_bs_snoc; reflexivity)).
        rewrite unescape_snoc_bs_pct, map_app, <- app_assoc. reflexivity.
      * destruct (N.eqb c c_bs) eqn:Eb.
        -- apply N.eqb_eq in Eb. subst c.
           specialize (IH s Hl' true (A ++ [c_bs])). cbn [app] in IH. rewrite <- app_assoc in IH. cbn [app] in IH.
           rewrite IH by discriminate.
           rewrite unescape_snoc by (cbn; apply andb_false_r). rewrite map_app, <- app_assoc. reflexivity.
        -- specialize (IH s Hl' false (A ++ [c_bs; c])). cbn [app] in IH. rewrite app_nil_r in IH.
           rewrite IH by (intros _; replace (A ++ [c_bs; c]) with ((A ++ [c_bs]) ++ [c]) by (rewrite <- app_assoc; reflexivity); rewrite ends_bs_snoc; exact Eb).
           replace (A ++ [c_bs; c]) with ((A ++ [c_bs]) ++ [c]) by (rewrite <- app_assoc; reflexivity).
           rewrite unescape_snoc by (rewrite Ec; apply andb_false_r).
           rewrite unescape_snoc by (cbn; apply andb_false_r).
           rewrite !map_app, <- !app_assoc. cbn [map app].
           rewrite (sp_expand_lit c). rewrite Ec, Eb. reflexivity.
    + (* no pending backslash *)
      specialize (HA eq_refl). rewrite andb_true_r. cbn [app]. rewrite app_nil_r. cbn [map app].
      rewrite sp_expand_lit. destruct (N.eqb c c_pct) eqn:Ec.
      * apply N.eqb_eq in Ec. subst c. rewrite (take_find s ir Hn []).
        destruct (find_pct s []) as [[[|x name] rest]|] eqn:E.
        -- specialize (IH s Hl' false (A ++ [c_pct])). cbn [app] in IH. rewrite app_nil_r in IH.
           rewrite IH by (intros _; rewrite ends_bs_snoc; reflexivity).
           rewrite unescape_snoc by (rewrite HA; reflexivity). rewrite map_app, <- app_assoc. reflexivity.
        -- rewrite items_app, items_flush_u, items_cons. cbn [part_items]. rewrite <- !app_assoc. cbn [app].
           f_equal. f_equal. apply find_pct_length in E.
           specialize (IH rest ltac:(lia) false []). cbn [app unescape_pct map] in IH. apply IH. reflexivity.
        -- specialize (IH s Hl' false (A ++ [c_pct])). cbn [app] in IH. rewrite app_nil_r in IH.
           rewrite IH by (intros _; rewrite ends_bs_snoc; reflexivity).
           rewrite unescape_snoc by (rewrite HA; reflexivity). rewrite map_app, <- app_assoc. reflexivity.
      * destruct (N.eqb c c_bs) eqn:Eb.
        -- apply N.eqb_eq in Eb. subst c.
           specialize (IH s Hl' true A). cbn [app] in IH. rewrite IH by discriminate.
           f_equal. rewrite sp_expand_lit. reflexivity.
        -- specialize (IH s Hl' false (A ++ [c])). cbn [app] in IH. rewrite app_nil_r in IH.
           rewrite IH by (intros _; rewrite ends_bs_snoc; exact Eb).
           rewrite unescape_snoc by (rewrite Ec; apply andb_false_r). rewrite map_app, <- app_assoc. reflexivity.
Qed.

Theorem insert_placeholders_items : forall v, wfp v = true ->
  items (insert_placeholders v) = sp_expand (items v).
Proof.
  induction v as [|p v IH]; intros Hw; [reflexivity|].
  specialize (IH (wfp_tail _ _ Hw)). unfold insert_placeholders in *. cbn [flat_map].
  rewrite items_app, IH, items_cons. destruct p as [s| | |n].
  - pose proof (ips_refines (items v) (wfp_tail_not_lit _ _ Hw) (length s) s (le_n _) false [] (fun _ => eq_refl)) as H.
    cbn [app unescape_pct map] in H. exact H.
  - cbn [ip_part items flat_map part_items app]. rewrite sp_expand_nonlit; [reflexivity | exact I].
  - cbn [ip_part items flat_map part_items app]. rewrite sp_expand_nonlit; [reflexivity | exact I].
  - cbn [ip_part items flat_map part_items app]. rewrite sp_expand_nonlit; [reflexivity | exact I].
Qed.
Print Assumptions insert_placeholders_items.
Print Assumptions windash_items.
