(* C02 - "no junk accepted": whatever the model parser accepts is a (lenient) spelling of an
   expression with the same meaning as the returned tree. *)
From Coq Require Import NArith List Bool Arith Lia.
From PS Require Import Base.Chars Base.Outcome Model.CondParse Spec.Glob Spec.CondGrammar Proofs.CondParseP.
Import ListNotations.
Open Scope N_scope.

(* ====================== lexer soundness ====================== *)
Lemma lay_blank_cons b b' ts s c : Lay b ts s -> is_blank c = true -> Lay b' ts (c :: s).
Proof.
  intros H Hc. inversion H; subst.
  - apply lay_nil. unfold blanks in *. simpl. rewrite Hc. assumption.
  - apply (lay_word b' (c :: ws) w ts0 s0); auto.
    + unfold blanks in *. simpl. rewrite Hc. assumption.
    + intros _. discriminate.
  - apply (lay_lpar b' (c :: ws) ts0 s0); auto. unfold blanks in *. simpl. rewrite Hc. assumption.
  - apply (lay_rpar b' (c :: ws) ts0 s0); auto. unfold blanks in *. simpl. rewrite Hc. assumption.
Qed.

Lemma lay_any_false b ts s : Lay b ts s -> Lay false ts s.
Proof.
  intros H. inversion H; subst; try (constructor; assumption).
  apply lay_word; auto. intros; discriminate.
Qed.

Lemma lay_pending cur ts s :
  forallb is_wordc cur = true -> Lay true ts s -> Lay false (flush cur ts) (rev cur ++ s).
Proof.
  intros Hc H. destruct cur as [|x cur].
  - simpl. eapply lay_any_false; eauto.
  - unfold flush. apply (lay_word false [] (rev (x :: cur)) ts s); auto.
    + reflexivity.
    + intros; discriminate.
    + split.
      * intros E. apply (f_equal (@length _)) in E. rewrite rev_length in E. discriminate.
      * rewrite forallb_forall in *. intros y Hy. apply Hc. apply in_rev. exact Hy.
Qed.

Lemma lex_sound_gen s : forall cur ts',
  forallb is_wordc cur = true -> lex s cur = Ok ts' -> Lay false ts' (rev cur ++ s).
Proof.
  induction s as [|c r IH]; intros cur ts' Hc H.
  - simpl in H. inversion H; subst. apply lay_pending; auto. apply (lay_nil true []). reflexivity.
  - simpl in H. destruct (is_wordc c) eqn:Ew.
    + specialize (IH (c :: cur) ts'). simpl in IH. rewrite <- app_assoc in IH. apply IH; auto.
      rewrite Ew. exact Hc.
    + destruct (is_blank c) eqn:Eb.
      { destruct (lex r []) as [ts0| |] eqn:E0; try discriminate. simpl in H. inversion H; subst.
        apply lay_pending; auto. eapply lay_blank_cons; eauto. apply (IH [] ts0); auto. }
      destruct (c =? c_lpar) eqn:El.
      { apply N.eqb_eq in El. subst c.
        destruct (lex r []) as [ts0| |] eqn:E0; try discriminate. simpl in H. inversion H; subst.
        apply lay_pending; auto. apply (lay_lpar true [] ts0 r); [reflexivity|]. apply (IH [] ts0); auto. }
      destruct (c =? c_rpar) eqn:Er; [|discriminate].
      apply N.eqb_eq in Er. subst c.
      destruct (lex r []) as [ts0| |] eqn:E0; try discriminate. simpl in H. inversion H; subst.
      apply lay_pending; auto. apply (lay_rpar true [] ts0 r); [reflexivity|]. apply (IH [] ts0); auto.
Qed.

Theorem lex_sound s ts : lex s [] = Ok ts -> Lay false ts s.
Proof. intros H. apply (lex_sound_gen s [] ts); auto. Qed.

(* ====================== parser soundness ====================== *)
Notation pet := (pe PId PSel PNot t_bin).
Notation loopt := (loop PId PSel PNot t_bin).

Definition e_bin (o : bop) (a b : expr) : expr := match o with BAnd => EAnd a b | BOr => EOr a b end.

Lemma unflat_bin o x r :
  unflat (t_bin o (x :: r)) = fold_left (fun a y => e_bin o a (unflat y)) r (unflat x).
Proof. destruct o; reflexivity. Qed.

Lemma unflat_snoc o l t' : l <> [] ->
  unflat (fin t_bin o (l ++ [t'])) = e_bin o (unflat (fin t_bin o l)) (unflat t').
Proof.
  intros Hl. destruct l as [|x [|y l]]; [congruence| |].
  - cbn [app fin]. rewrite unflat_bin. reflexivity.
  - cbn [app fin]. destruct (l ++ [t']) eqn:E; [destruct l; discriminate|]. rewrite <- E.
    change (t_bin o (x :: y :: l ++ [t'])) with (t_bin o (x :: (y :: l) ++ [t'])).
    rewrite !unflat_bin. rewrite fold_left_app. reflexivity.
Qed.

Lemma quant_of_inv w q : quant_of w = Some q -> w = qword q.
Proof.
  unfold quant_of. destruct (str_eqb w w_1) eqn:E1; [apply str_eqb_eq in E1; intros H; inversion H; subst; reflexivity|].
  destruct (str_eqb w w_any) eqn:E2; [apply str_eqb_eq in E2; intros H; inversion H; subst; reflexivity|].
  destruct (str_eqb w w_all) eqn:E3; [apply str_eqb_eq in E3; intros H; inversion H; subst; reflexivity|].
  discriminate.
Qed.

Lemma sel_sound ts t r : sel PSel ts = Some (t, r) ->
  exists c, ts = c ++ r /\ SpellsL 0 c (unflat t).
Proof.
  unfold sel. destruct ts as [|[q| |] [|[o| |] r0]]; try discriminate.
  destruct (quant_of q) as [qq|] eqn:Eq; [|discriminate]. apply quant_of_inv in Eq. subst q.
  destruct (str_eqb o w_of) eqn:Eo.
  - apply str_eqb_eq in Eo. subst o.
    destruct r0 as [|[p| |] r']; try discriminate. destruct (is_pat p) eqn:Ep; [|discriminate].
    intros H; inversion H; subst. exists [TW (qword qq); TW w_of; TW p]. split; [reflexivity|].
    apply spl_sel. exact Ep.
  - destruct o as [|c1 [|c2 [|c3 p']]]; try discriminate.
    destruct ((c1 =? 111) && (c2 =? 102) && (c3 =? c_star) && forallb is_patc p') eqn:E; [|discriminate].
    apply andb_true_iff in E. destruct E as [E Hp]. apply andb_true_iff in E. destruct E as [E E3].
    apply andb_true_iff in E. destruct E as [E1 E2].
    apply N.eqb_eq in E1, E2, E3. subst.
    intros H; inversion H; subst. exists [TW (qword qq); TW (w_of ++ c_star :: p')]. split; [reflexivity|].
    apply spl_sel_fused. exact Hp.
Qed.

Lemma spl_up_to i j ts e : SpellsL i ts e -> (i <= j)%nat -> SpellsL j ts e.
Proof. intros H Hle. induction Hle; [exact H|]. apply spl_up. exact IHHle. Qed.

Definition lvl_okb (o : bop) (k : nat) : Prop := (o = BAnd /\ k = 1%nat) \/ (o = BOr /\ k = 2%nat).

Lemma spl_bin o k c1 c2 a b : lvl_okb o k ->
  SpellsL (S k) c1 a -> SpellsL k c2 b -> SpellsL (S k) (c1 ++ TW (opw o) :: c2) (e_bin o a b).
Proof. intros [[-> ->]|[-> ->]] H1 H2; [apply spl_and | apply spl_or]; assumption. Qed.

Lemma sound : forall f,
  (forall i ts t r, (i <= 3)%nat -> pet f i ts = Done (t, r) ->
     exists c, ts = c ++ r /\ SpellsL i c (unflat t)) /\
  (forall o k acc r0 t r, lvl_okb o k -> acc <> [] -> loopt f o k acc r0 = Done (t, r) ->
     forall c0, SpellsL (S k) c0 (unflat (fin t_bin o (rev acc))) ->
     exists c, c0 ++ r0 = c ++ r /\ SpellsL (S k) c (unflat t)).
Proof.
  induction f as [|f [IHp IHl]]; split; intros; try discriminate.
  - rewrite pe_S in H0. destruct i as [|[|k]].
    + destruct (sel PSel ts) as [[t0 r0]|] eqn:Es.
      * inversion H0; subst. apply sel_sound. exact Es.
      * destruct ts as [|[w| |] r0]; try discriminate.
        -- destruct (is_ident w) eqn:Ei; [|discriminate]. inversion H0; subst.
           exists [TW w]. split; [reflexivity|]. apply spl_id. exact Ei.
        -- destruct (pet f 3 r0) as [[v [|[w| |] r']]| |] eqn:E; try discriminate.
           inversion H0; subst. destruct (IHp 3%nat r0 t (TR :: r) (le_n _) E) as [c [-> Hc]].
           exists (TL :: c ++ [TR]). split; [simpl; rewrite <- app_assoc; reflexivity|].
           apply spl_par. exact Hc.
    + assert (B : pet f 0 ts = Done (t, r) -> exists c, ts = c ++ r /\ SpellsL 1 c (unflat t)).
      { intros E. destruct (IHp 0%nat ts t r (Nat.le_0_l _) E) as [c [-> Hc]].
        exists c. split; [reflexivity|]. apply spl_up. exact Hc. }
      destruct ts as [|[w| |] r0]; try (apply B; exact H0).
      destruct (str_eqb w w_not) eqn:Ew; [|apply B; exact H0].
      apply str_eqb_eq in Ew. subst w.
      destruct (pet f 1 r0) as [[v r']| |] eqn:E; try discriminate.
      * inversion H0; subst. destruct (IHp 1%nat r0 v r ltac:(lia) E) as [c [-> Hc]].
        exists (TW w_not :: c). split; [reflexivity|]. simpl. apply spl_not. exact Hc.
      * apply B. exact H0.
    + destruct (pet f (S k) ts) as [[v r1]| |] eqn:E; try discriminate.
      destruct (IHp (S k) ts v r1 ltac:(lia) E) as [c1 [-> Hc1]].
      assert (Hl : lvl_okb (lvl_op (S k)) (S k)).
      { destruct k as [|[|k]]; [left; auto | right; auto | lia]. }
      destruct (IHl _ _ [v] r1 t r Hl ltac:(discriminate) H0 c1) as [c [Ec Hc]].
      * simpl. apply spl_up. exact Hc1.
      * exists c. split; assumption.
  - rewrite loop_S in H1.
    assert (Fin : Done (fin t_bin o (rev acc), r0) = Done (t, r) ->
                  exists c, c0 ++ r0 = c ++ r /\ SpellsL (S k) c (unflat t)).
    { intros E. inversion E; subst. exists c0. split; [reflexivity|assumption]. }
    destruct r0 as [|[w| |] r']; try (apply Fin; exact H1).
    destruct (str_eqb w (opw o)) eqn:Ew; [|apply Fin; exact H1].
    apply str_eqb_eq in Ew. subst w.
    destruct (pet f k r') as [[v' r'']| |] eqn:E; try discriminate; [|apply Fin; exact H1].
    assert (Hk : (k <= 3)%nat) by (destruct H as [[_ ->]|[_ ->]]; lia).
    destruct (IHp k r' v' r'' Hk E) as [c' [-> Hc']].
    destruct (IHl o k (v' :: acc) r'' t r H ltac:(discriminate) H1 (c0 ++ TW (opw o) :: c')) as [c [Ec Hc]].
    + cbn [rev]. rewrite unflat_snoc.
      * apply spl_bin; assumption.
      * intros E0. apply (f_equal (@length _)) in E0. rewrite rev_length in E0.
        destruct acc; [congruence|discriminate].
    + exists c. split; [|exact Hc]. rewrite <- Ec. rewrite <- app_assoc. reflexivity.
Qed.

Lemma parse_tree_sound ts t : parse_tree ts = Done t -> SpellsL 3 ts (unflat t).
Proof.
  unfold parse_tree, parse_toks. intros H.
  destruct (pet (fuel_for ts) 3 ts) as [[v [|x r]]| |] eqn:E; try discriminate.
  inversion H; subst.
  destruct (proj1 (sound (fuel_for ts)) 3%nat ts t [] (le_n _) E) as [c [Ec Hc]].
  rewrite app_nil_r in Ec. subst c. exact Hc.
Qed.

(* ====================== the tree means what its expression means ====================== *)
Lemma fold_and vid vsel l a :
  semv vid vsel (fold_left (fun a y => EAnd a (unflat y)) l a) =
  semv vid vsel a && forallb (fun y => semv vid vsel (unflat y)) l.
Proof.
  revert a. induction l as [|y l IH]; intros a; simpl; [symmetry; apply andb_true_r|].
  rewrite IH. simpl. rewrite andb_assoc. reflexivity.
Qed.
Lemma fold_or vid vsel l a :
  semv vid vsel (fold_left (fun a y => EOr a (unflat y)) l a) =
  semv vid vsel a || existsb (fun y => semv vid vsel (unflat y)) l.
Proof.
  revert a. induction l as [|y l IH]; intros a; simpl; [symmetry; apply orb_false_r|].
  rewrite IH. simpl. rewrite orb_assoc. reflexivity.
Qed.

Lemma forallb_ext_in' {X} (f g : X -> bool) l : (forall x, In x l -> f x = g x) -> forallb f l = forallb g l.
Proof. induction l as [|x l IH]; intros H; simpl; [reflexivity|]. rewrite H, IH; auto; [intros; apply H; right; auto | left; auto]. Qed.
Lemma existsb_ext_in' {X} (f g : X -> bool) l : (forall x, In x l -> f x = g x) -> existsb f l = existsb g l.
Proof. induction l as [|x l IH]; intros H; simpl; [reflexivity|]. rewrite H, IH; auto; [intros; apply H; right; auto | left; auto]. Qed.

Definition ne_args : ptree -> bool :=
  foldt (fun _ => true) (fun _ _ => true) (fun x => x) (fun _ l => nonempty l && forallb (fun b => b) l).

Lemma unflat_meaning vid vsel t : ne_args t = true -> denv vid vsel t = semv vid vsel (unflat t).
Proof.
  induction t as [n|q p|a IH|l IH|l IH] using ptree_ind'; intros Hne; try reflexivity.
  - simpl. rewrite IH; auto.
  - unfold ne_args in Hne. simpl in Hne. apply andb_true_iff in Hne. destruct Hne as [Hl Hall].
    rewrite forallb_map_id in Hall. rewrite forallb_forall in Hall. rewrite Forall_forall in IH.
    destruct l as [|x r]; [discriminate|]. cbn [unflat]. rewrite fold_and. simpl. f_equal.
    + apply IH; [left; reflexivity|]. apply Hall. left. reflexivity.
    + apply forallb_ext_in'. intros y Hy. apply IH; [right; exact Hy|]. apply Hall. right. exact Hy.
  - unfold ne_args in Hne. simpl in Hne. apply andb_true_iff in Hne. destruct Hne as [Hl Hall].
    rewrite forallb_map_id in Hall. rewrite forallb_forall in Hall. rewrite Forall_forall in IH.
    destruct l as [|x r]; [discriminate|]. cbn [unflat]. rewrite fold_or. simpl. f_equal.
    + apply IH; [left; reflexivity|]. apply Hall. left. reflexivity.
    + apply existsb_ext_in'. intros y Hy. apply IH; [right; exact Hy|]. apply Hall. right. exact Hy.
Qed.

(* the parser never builds an AND / OR node without arguments *)
Lemma ne_t_bin o l : l <> [] -> forallb ne_args l = true -> ne_args (fin t_bin o l) = true.
Proof.
  intros Hl Hall. destruct l as [|x [|y l]]; [congruence| |].
  - simpl in Hall. rewrite andb_true_r in Hall. exact Hall.
  - cbn [fin]. destruct o; unfold ne_args; simpl; fold ne_args; simpl in Hall;
      rewrite forallb_map_id; exact Hall.
Qed.

Lemma ne_sound : forall f,
  (forall i ts t r, pet f i ts = Done (t, r) -> ne_args t = true) /\
  (forall o k acc r0 t r, acc <> [] -> forallb ne_args acc = true ->
     loopt f o k acc r0 = Done (t, r) -> ne_args t = true).
Proof.
  induction f as [|f [IHp IHl]]; split; intros; try discriminate.
  - rewrite pe_S in H. destruct i as [|[|k]].
    + destruct (sel PSel ts) as [[t0 r0]|] eqn:Es.
      * inversion H; subst. unfold sel in Es.
        repeat match type of Es with
               | match ?x with _ => _ end = _ => destruct x; try discriminate
               | (if ?x then _ else _) = _ => destruct x; try discriminate
               end; inversion Es; reflexivity.
      * destruct ts as [|[w| |] r0]; try discriminate.
        -- destruct (is_ident w); [|discriminate]. inversion H; subst. reflexivity.
        -- destruct (pet f 3 r0) as [[v [|[w| |] r']]| |] eqn:E; try discriminate.
           inversion H; subst. eapply IHp; eauto.
    + destruct ts as [|[w| |] r0]; try (eapply IHp; eauto; fail).
      destruct (str_eqb w w_not); [|eapply IHp; eauto].
      destruct (pet f 1 r0) as [[v r']| |] eqn:E; try discriminate.
      * inversion H; subst. unfold ne_args. simpl. fold ne_args. eapply IHp; eauto.
      * eapply IHp; eauto.
    + destruct (pet f (S k) ts) as [[v r1]| |] eqn:E; try discriminate.
      eapply (IHl _ _ [v]); eauto; [discriminate|]. simpl. rewrite (IHp _ _ _ _ E). reflexivity.
  - rewrite loop_S in H1.
    assert (Fin : Done (fin t_bin o (rev acc), r0) = Done (t, r) -> ne_args t = true).
    { intros E. inversion E; subst. apply ne_t_bin.
      - intros E0. apply (f_equal (@length _)) in E0. rewrite rev_length in E0. destruct acc; [congruence|discriminate].
      - rewrite forallb_forall in *. intros x Hx. apply H0. apply in_rev. exact Hx. }
    destruct r0 as [|[w| |] r']; try (apply Fin; exact H1).
    destruct (str_eqb w (opw o)); [|apply Fin; exact H1].
    destruct (pet f k r') as [[v' r'']| |] eqn:E; try discriminate; [|apply Fin; exact H1].
    eapply (IHl o k (v' :: acc)); eauto; [discriminate|]. simpl. rewrite (IHp _ _ _ _ E). exact H0.
Qed.

(* ====================== no junk accepted ====================== *)
Theorem accepted_is_spelled s t : parse s = Ok t ->
  exists e, SpellsLenient s e /\ forall vid vsel, denv vid vsel t = semv vid vsel e.
Proof.
  unfold parse. intros H.
  destruct (lex s []) as [ts| |] eqn:El; try discriminate.
  destruct (parse_tree ts) as [t'| |] eqn:Ep; try discriminate. inversion H; subst t'.
  exists (unflat t). split.
  - exists ts. split; [apply lex_sound; exact El | apply parse_tree_sound; exact Ep].
  - intros vid vsel. apply unflat_meaning.
    unfold parse_tree, parse_toks in Ep.
    destruct (pet (fuel_for ts) 3 ts) as [[v [|x r]]| |] eqn:E; try discriminate.
    inversion Ep; subst. eapply (proj1 (ne_sound _)); eauto.
Qed.
(* every strict spelling is a lenient spelling *)
Lemma strict_is_lenient i ts e : SpellsT i ts e -> wf_expr e = true -> SpellsL i ts e.
Proof.
  induction 1; intros Hw; simpl in Hw.
  - apply andb_true_iff in Hw. destruct Hw as [Hi _]. apply spl_id. exact Hi.
  - apply spl_sel. exact Hw.
  - apply spl_par. auto.
  - apply spl_not. auto.
  - apply andb_true_iff in Hw. destruct Hw. apply spl_and; auto.
  - apply andb_true_iff in Hw. destruct Hw. apply spl_or; auto.
  - apply spl_up. auto.
Qed.

(* no text has two readings with different meanings *)
Theorem unambiguous s e1 e2 :
  wf_expr e1 = true -> wf_expr e2 = true -> Spells s e1 -> Spells s e2 ->
  forall vid vsel, semv vid vsel e1 = semv vid vsel e2.
Proof.
  intros W1 W2 S1 S2 vid vsel.
  destruct (parse_complete e1 s W1 S1) as [t1 [P1 D1]].
  destruct (parse_complete e2 s W2 S2) as [t2 [P2 D2]].
  rewrite P1 in P2. inversion P2; subst. rewrite <- D1, <- D2. reflexivity.
Qed.
