(* Proofs about the correlation model (Model/Corr.v) against Spec/CorrSpec.v. *)
From Coq Require Import String Ascii.
From Coq Require Import List NArith ZArith Bool Arith Lia.
From PS Require Import Base.Chars Base.Outcome Model.Backend Spec.Target Model.BTree Model.Corr Spec.CorrSpec
                       Proofs.BackendP Proofs.BackendMainP Proofs.BackendDomP Proofs.BTreeP.
Import ListNotations.
Open Scope list_scope.
Open Scope N_scope.

(* ---------- the domain of the read-back theorem, as a boolean ---------- *)
Definition clean_fmap (f : fmap) : bool :=
  match f with
  | FMap l => forallb (fun kv : str * list str => forallb clean (snd kv)) l
  | FPrefix p => clean p
  | FSuffix s => clean s
  end.
Definition clean_info (ri : rinfo) : bool :=
  forallb wfl (ri_raw ri) && forallb wfl (ri_fin ri) && clean (ruleid ri) && forallb clean (ri_fields ri).
Definition clean_fieldref (f : fieldref) : bool :=
  match f with FNone => true | FOne x => clean x | FMany l => forallb clean l end.
Definition clean_rule (r : crule) : bool :=
  clean (r_ts r) && forallb clean (match r_gb r with Some g => g | None => [] end)
  && forallb (fun am : str * list (str * nat * str) => clean (fst am) && forallb (fun e : str * nat * str => clean (snd e)) (snd am)) (r_aliases r)
  && forallb clean (r_fields r)
  && clean_fieldref (match the_cond r with CBasic _ _ f _ => f | CExt _ => FNone end)
  && forallb (fun rf => clean_info (rr_info rf)) (referenced r)
  && forallb (fun rf => clean (rr_ref rf)) (r_xrefs r).

(* D-A: alias targets are only renamed when the rule has a group-by list *)
Definition aliases_renamed (P : list pitem) (r : crule) : bool :=
  match r_gb r, r_aliases r, P with
  | None, _ :: _, _ :: _ => false
  | _, _, _ => true
  end.
(* D-B: an alias entry and a rule reference name the same document iff they are spelled the same *)
Definition aliases_spelled (r : crule) : bool :=
  forallb (fun am : str * list (str * nat * str) =>
             forallb (fun e : str * nat * str =>
                        forallb (fun rf => Bool.eqb (str_eqb (fst (fst e)) (rr_ref rf)) (Nat.eqb (snd (fst e)) (rr_doc rf)))
                                (referenced r))
                     (snd am))
          (r_aliases r).
(* D-D: referenced correlation rules are embedded finalised whatever the backend asked for *)
Definition no_forced_final (K : kcfg) (r : crule) : bool :=
  k_finalize K || forallb (fun rf => negb (ri_corr (rr_info rf))) (referenced r).
(* D-E: every pipeline item applies to the correlation rule iff it applies to each referenced rule *)
Definition uniform (P : list pitem) (r : crule) : bool :=
  let cats := flat_map (fun rf => ri_cats (rr_info rf)) (referenced r) in
  forallb (fun it => forallb (fun rf => Bool.eqb (matches it cats) (matches it (ri_cats (rr_info rf)))) (referenced r)) P.

Definition dom (K : kcfg) (P : list pitem) (r : crule) : bool :=
  clean_rule r && forallb (fun it => clean_fmap (pi_f it)) P
  && aliases_renamed P r && aliases_spelled r && no_forced_final K r && uniform P r.

(* extended conditions: operators have arguments, only references / not / and / or occur, every
   identifier is spelled like the name-or-id of the rule it resolves to (D-C), the backend's
   precedence tuple is a permutation *)
Fixpoint xshape (c : cond) : bool :=
  match c with
  | CAtom _ _ _ _ => true
  | CNot a => xshape a
  | CBin _ args => negb (match args with [] => true | _ => false end) &&
                   (fix all l := match l with [] => true | x :: r => xshape x && all r end) args
  | _ => false
  end.
Definition xdom (K : kcfg) (r : crule) : bool :=
  match the_cond r with
  | CExt t => cfg_ok (k_cfg K) && xshape t
              && forallb (fun rf => str_eqb (rr_ref rf) (ruleid (rr_info rf))) (r_xrefs r)
  | _ => true
  end.
