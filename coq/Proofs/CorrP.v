(* Proofs about the correlation model (Model/Corr.v) against Spec/CorrSpec.v. *)
From Coq Require Import String Ascii.
From Coq Require Import List NArith ZArith Bool Arith Lia DecimalZ DecimalPos.
From PS Require Import Base.Chars Base.Outcome Model.Backend Spec.Target Model.BTree Model.Corr Spec.CorrSpec
                       Proofs.BackendP Proofs.BackendMainP Proofs.BackendDomP Proofs.BTreeP.
Import ListNotations.
Open Scope list_scope.
Open Scope N_scope.

(* ---------- the domain of the read-back theorem, as a boolean ---------- *)
Definition clean_fmap (f : fmap) : bool :=
  match f with
  | FMap l => forallb (fun kv : str * list str => forallb clean (snd kv)) l
  | FPrefix p => clean p
  | FSuffix s => clean s
  end.
Definition clean_info (ri : rinfo) : bool :=
  forallb wfl (ri_raw ri) && forallb wfl (ri_fin ri) && clean (ruleid ri) && forallb clean (ri_fields ri).
Definition clean_fieldref (f : fieldref) : bool :=
  match f with FNone => true | FOne x => clean x | FMany l => forallb clean l end.
Definition clean_rule (r : crule) : bool :=
  clean (r_ts r) && forallb clean (match r_gb r with Some g => g | None => [] end)
  && forallb (fun am : str * list (str * nat * str) => clean (fst am) && forallb (fun e : str * nat * str => clean (snd e)) (snd am)) (r_aliases r)
  && forallb clean (r_fields r)
  && clean_fieldref (match the_cond r with CBasic _ _ f _ => f | CExt _ => FNone end)
  && forallb (fun rf => clean_info (rr_info rf)) (referenced r)
  && forallb (fun rf => clean (rr_ref rf)) (r_xrefs r).

(* D-B: an alias entry and a rule reference name the same document iff they are spelled the same *)
Definition aliases_spelled (r : crule) : bool :=
  forallb (fun am : str * list (str * nat * str) =>
             forallb (fun e : str * nat * str =>
                        forallb (fun rf => Bool.eqb (str_eqb (fst (fst e)) (rr_ref rf)) (Nat.eqb (snd (fst e)) (rr_doc rf)))
                                (referenced r))
                     (snd am))
          (r_aliases r).
(* D-D: referenced correlation rules are embedded finalised whatever the backend asked for *)
Definition no_forced_final (K : kcfg) (r : crule) : bool :=
  k_finalize K || forallb (fun rf => negb (ri_corr (rr_info rf))) (referenced r).
(* D-E: every pipeline item applies to the correlation rule iff it applies to each referenced rule *)
Definition uniform (P : list pitem) (r : crule) : bool :=
  let cats := flat_map (fun rf => ri_cats (rr_info rf)) (referenced r) in
  forallb (fun it => forallb (fun rf => Bool.eqb (matches it cats) (matches it (ri_cats (rr_info rf)))) (referenced r)) P.

Definition dom (K : kcfg) (P : list pitem) (r : crule) : bool :=
  clean_rule r && forallb (fun it => clean_fmap (pi_f it)) P
  && aliases_spelled r && no_forced_final K r && uniform P r.

(* extended conditions: operators have arguments, only references / not / and / or occur, every
   identifier is spelled like the name-or-id of the rule it resolves to (D-C), the backend's
   precedence tuple is a permutation *)
Fixpoint xshape (c : cond) : bool :=
  match c with
  | CAtom _ _ _ _ => true
  | CNot a => xshape a
  | CBin _ args => negb (match args with [] => true | _ => false end) &&
                   (fix all l := match l with [] => true | x :: r => xshape x && all r end) args
  | _ => false
  end.
Definition xdom (K : kcfg) (r : crule) : bool :=
  match the_cond r with
  | CExt t => cfg_ok (k_cfg K) && xshape t
              && forallb (fun rf => str_eqb (rr_ref rf) (ruleid (rr_info rf))) (r_xrefs r)
  | _ => true
  end.

(* ================================================================================================ *)
(* numbers: int(str(z)) = z *)
Lemma uint_digits_roundtrip u : uint_of_digits (str_of_uint u) = Some u.
Proof. induction u; simpl; try reflexivity; rewrite IHu; reflexivity. Qed.

Lemma str_of_uint_digits u : forallb is_digit (str_of_uint u) = true.
Proof. induction u; simpl; try reflexivity; exact IHu. Qed.

Lemma digits_us_digits l : forallb is_digit l = true -> l <> [] -> digits_us false l = Some l.
Proof.
  assert (H : forall l, forallb is_digit l = true -> digits_us true l = Some l).
  { induction l0 as [|c r IH]; intros Hd; [reflexivity|].
    simpl in Hd. apply andb_true_iff in Hd. destruct Hd as [Hc Hr].
    simpl. rewrite Hc. rewrite (IH Hr). reflexivity. }
  destruct l as [|c r]; intros Hd Hne; [congruence|].
  simpl in Hd. apply andb_true_iff in Hd. destruct Hd as [Hc Hr].
  simpl. rewrite Hc. rewrite (H r Hr). reflexivity.
Qed.

Lemma str_of_uint_nonnil u : u <> Decimal.Nil -> str_of_uint u <> [].
Proof. destruct u; simpl; congruence. Qed.

Lemma lstrip_id s : match s with c :: _ => is_ws c = false | [] => True end -> lstrip s = s.
Proof. destruct s as [|c r]; simpl; [reflexivity|]. intros ->. reflexivity. Qed.

Lemma strip_id s : forallb (fun c => negb (is_ws c)) s = true -> strip s = s.
Proof.
  intros H. unfold strip.
  assert (Hh : forall t, forallb (fun c => negb (is_ws c)) t = true ->
                         match t with c :: _ => is_ws c = false | [] => True end).
  { intros [|c t] Ht; [exact I|]. simpl in Ht. apply andb_true_iff in Ht. destruct Ht as [Hc _].
    apply negb_true_iff in Hc. exact Hc. }
  rewrite (lstrip_id s (Hh s H)).
  assert (Hr : forallb (fun c => negb (is_ws c)) (rev s) = true).
  { apply forallb_forall. intros x Hx. apply in_rev in Hx. revert x Hx. apply forallb_forall. exact H. }
  rewrite (lstrip_id (rev s) (Hh _ Hr)). apply rev_involutive.
Qed.

Lemma digit_not_ws c : is_digit c = true -> negb (is_ws c) = true.
Proof.
  unfold is_digit, is_ws. intros H. apply andb_true_iff in H. destruct H as [H1 H2].
  apply N.leb_le in H1. apply N.leb_le in H2. apply negb_true_iff. apply orb_false_iff. split.
  - apply N.eqb_neq. lia.
  - apply andb_false_iff. right. apply N.leb_gt. lia.
Qed.

Lemma digits_not_ws l : forallb is_digit l = true -> forallb (fun c => negb (is_ws c)) l = true.
Proof.
  intros H. apply forallb_forall. intros x Hx. apply digit_not_ws. revert x Hx. apply forallb_forall. exact H.
Qed.

Lemma digit_not_sign c : is_digit c = true -> (c =? 45) = false /\ (c =? 43) = false.
Proof.
  unfold is_digit. intros H. apply andb_true_iff in H. destruct H as [H1 H2].
  apply N.leb_le in H1. apply N.leb_le in H2. split; apply N.eqb_neq; lia.
Qed.

Lemma py_int_uint u : u <> Decimal.Nil -> py_int (str_of_uint u) = Some (Z.of_uint u).
Proof.
  intros Hn. unfold py_int.
  pose proof (str_of_uint_digits u) as Hd.
  rewrite (strip_id _ (digits_not_ws _ Hd)).
  destruct (str_of_uint u) as [|c r] eqn:E.
  { exfalso. apply (str_of_uint_nonnil u Hn). exact E. }
  assert (Hc : is_digit c = true) by (simpl in Hd; apply andb_true_iff in Hd; tauto).
  destruct (digit_not_sign c Hc) as [H1 H2]. rewrite H1, H2.
  rewrite <- E in *. rewrite (digits_us_digits _ Hd (str_of_uint_nonnil u Hn)).
  rewrite uint_digits_roundtrip. reflexivity.
Qed.

Lemma py_int_neg u : u <> Decimal.Nil -> py_int (45 :: str_of_uint u) = Some (- Z.of_uint u)%Z.
Proof.
  intros Hn. unfold py_int.
  pose proof (str_of_uint_digits u) as Hd.
  assert (Hs : strip (45 :: str_of_uint u) = 45 :: str_of_uint u).
  { apply strip_id. simpl. apply digits_not_ws. exact Hd. }
  rewrite Hs. replace (45 =? 45) with true by reflexivity.
  rewrite (digits_us_digits _ Hd (str_of_uint_nonnil u Hn)).
  rewrite uint_digits_roundtrip. reflexivity.
Qed.

Theorem py_int_dec z : py_int (dec_of_Z z) = Some z.
Proof.
  unfold dec_of_Z. pose proof (DecimalZ.of_to z) as H.
  destruct z as [|p|p]; cbn [Z.to_int] in *.
  - reflexivity.
  - rewrite py_int_uint by apply DecimalPos.Unsigned.to_uint_nonnil. cbn [Z.of_int] in H. rewrite H. reflexivity.
  - rewrite py_int_neg by apply DecimalPos.Unsigned.to_uint_nonnil. cbn [Z.of_int] in H. rewrite H. reflexivity.
Qed.

(* ---------- timespan ---------- *)
(* the seconds of a parsed time span are count x unit length for each of the seven units, and the
   number printed in seconds mode reads back (with Python's int) as exactly that product *)
Theorem timespan_seconds spec t : parse_ts spec = Some t ->
  exists len, unit_len (t_unit t) = Some len /\ t_seconds t = (t_count t * len)%Z /\
              py_int (render_ts TsSeconds spec t) = Some (t_count t * len)%Z /\
              (exists body, spec = body ++ [t_unit t] /\ py_int body = Some (t_count t)).
Proof.
  unfold parse_ts. intros H.
  destruct (rev spec) as [|u rc] eqn:Er; [discriminate|].
  destruct (py_int (rev rc)) as [n|] eqn:En; [|discriminate].
  destruct (unit_len u) as [len|] eqn:Eu; [|discriminate].
  inversion H; subst; clear H. cbn [t_unit t_count t_seconds]. exists len. repeat split; auto.
  - cbn [render_ts t_seconds]. apply py_int_dec.
  - exists (rev rc). split; [|exact En].
    rewrite <- (rev_involutive spec). rewrite Er. reflexivity.
Qed.

Lemma unit_table :
  unit_len 115 = Some 1%Z /\ unit_len 109 = Some 60%Z /\ unit_len 104 = Some 3600%Z /\
  unit_len 100 = Some 86400%Z /\ unit_len 119 = Some 604800%Z /\ unit_len 77 = Some 2629746%Z /\
  unit_len 121 = Some 31556952%Z /\
  (forall u, u <> 115 -> u <> 109 -> u <> 104 -> u <> 100 -> u <> 119 -> u <> 77 -> u <> 121 -> unit_len u = None).
Proof.
  repeat split; try reflexivity.
  intros u H1 H2 H3 H4 H5 H6 H7. unfold unit_len.
  repeat match goal with |- context [?a =? ?b] => destruct (N.eqb_spec a b); [congruence|] end.
  reflexivity.
Qed.

(* ---------- extended conditions ---------- *)
Lemma xshape_wfb K t : xshape t = true -> wfb (xcfg K) t = true.
Proof.
  induction t as [k f n a|args IH|f ps|a|a IH|o args IH] using cond_ind'; simpl; intros H; try discriminate; auto.
  - rewrite (IH H). reflexivity.
  - apply andb_true_iff in H. destruct H as [H1 H2]. apply andb_true_iff. split.
    + destruct args; [discriminate H1|reflexivity].
    + clear H1. induction args as [|x r IHr]; [reflexivity|].
      apply andb_true_iff in H2. destruct H2 as [Hx Hr].
      inversion IH as [|? ? Px Pr]; subst. rewrite (Px Hx). simpl. apply IHr; assumption.
Qed.

Theorem ext_structure K asg t : cfg_ok K = true -> xshape t = true ->
  exists f, pe (lvl K) asg f 3 (conv (xcfg K) false t) = Some (den asg t, []).
Proof.
  intros HK Hx.
  exact (structure_b (xcfg K) asg t HK (xshape_wfb K t Hx)).
Qed.
